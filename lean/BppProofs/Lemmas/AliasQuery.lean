import BppProofs.Lemmas.AliasSync2
/-! The queries of C03 (`getFrom`, `getAlias`, `getAliases`) under the invariant: what they answer,
and that `getAlias` never runs out of fuel. -/
namespace Bpp.Alias
open Bpp.ParamList (Bnd Con Par Store ObjId nameOf find? hasParameter names startsWith)

/-! ## Registry entries -/

/-- two registry entries with the same `name_` write to the same parameter, hence are one entry -/
theorem ObjInv.name_unique {w : World} {k : Nat} {o : Obj} (h : ObjInv w k o) {e e' : String × Nat}
    (he : e ∈ o.reg) (he' : e' ∈ o.reg) (hn : (w.lis e.2).name = (w.lis e'.2).name) : e = e' := by
  obtain ⟨t, y, ht, htn, hnm, _⟩ := (h.regOk e he).tgt
  obtain ⟨t', y', ht', htn', hnm', _⟩ := (h.regOk e' he').tgt
  have : t = t' := h.name_inj (List.mem_of_getElem? ht) (List.mem_of_getElem? ht')
    (by rw [htn, htn', ← hnm, ← hnm', hn])
  subst this
  exact h.once e he e' he' (h.pos_inj ht ht')

/-- everything the invariant says about one registry entry, with positions -/
theorem ObjInv.regData {w : World} {k : Nat} {o : Obj} (h : ObjInv w k o) (ho : w.objs k = some o)
    {e : String × Nat} (he : e ∈ o.reg) :
    ∃ p t s y, o.params[(w.lis e.2).alias]? = some t ∧ nameOf w.heap t = o.pre ++ y ∧
      (w.lis e.2).name = o.pre ++ y ∧ o.params[p]? = some s ∧ nameOf w.heap s = o.pre ++ (w.lis e.2).src ∧
      Follows w o (w.lis e.2).alias p ∧ lisAlias w (w.lis e.2) = .ok (o.pre ++ y) := by
  obtain ⟨_, _, r3, ⟨s, hs, hsn, _⟩, ⟨t, y, ht, htn, hnm, _⟩⟩ := h.regOk e he
  obtain ⟨p, hp⟩ := h.exists_pos hs
  refine ⟨p, t, s, y, ht, htn, hnm, hp, hsn, ⟨e, he, rfl, s, hp, hsn⟩, ?_⟩
  simp only [lisAlias, r3, ho, ht, htn]

/-! ## (B3) `getFrom` -/

set_option linter.unusedVariables false in
/-- `getFrom` on any string: `from_` of the registered listener whose `name_` it is, `""` if none -/
theorem getFrom_full {w : World} {k : Nat} {o : Obj} (h : ObjInv w k o) (ho : w.objs k = some o) (name : String) :
    (∀ e ∈ o.reg, (w.lis e.2).name = name → getFrom w o name = (w.lis e.2).src) ∧
    ((∀ e ∈ o.reg, (w.lis e.2).name ≠ name) → getFrom w o name = "") := by
  constructor
  · intro e he hn
    simp only [getFrom]
    cases hf : o.reg.find? (fun e => (w.lis e.2).name == name) with
    | none =>
      have := List.find?_eq_none.1 hf e he
      exact absurd (by simpa using hn) this
    | some e' =>
      have he' := List.mem_of_find?_eq_some hf
      have hm := List.find?_some (p := fun (e : String × Nat) => (w.lis e.2).name == name) hf
      have hm' : (w.lis e'.2).name = name := by simpa using hm
      have : e = e' := h.name_unique he he' (hn.trans hm'.symm)
      rw [this]
  · intro hno
    simp only [getFrom]
    cases hf : o.reg.find? (fun e => (w.lis e.2).name == name) with
    | none => rfl
    | some e' =>
      have he' := List.mem_of_find?_eq_some hf
      have hm := List.find?_some (p := fun (e : String × Nat) => (w.lis e.2).name == name) hf
      exact absurd (by simpa using hm) (hno e' he')

/-! ## (B1) `getAlias` -/

/-- `a` is the full name of a parameter that follows, through one link or more, the parameter whose
short name is `n` -/
def Desc (w : World) (o : Obj) (n a : String) : Prop :=
  ∃ c p tc tp, Relation.TransGen (Follows w o) c p ∧ o.params[c]? = some tc ∧ o.params[p]? = some tp ∧
    nameOf w.heap tp = o.pre ++ n ∧ nameOf w.heap tc = a

theorem not_desc_self {w : World} {k : Nat} {o : Obj} (h : ObjInv w k o) (n : String) : ¬ Desc w o n (o.pre ++ n) := by
  rintro ⟨c, p, tc, tp, hg, hc, hp, hnp, hnc⟩
  have : tc = tp := h.name_inj (List.mem_of_getElem? hc) (List.mem_of_getElem? hp) (by rw [hnc, hnp])
  subst this
  have : c = p := h.pos_inj hc hp
  subst this
  exact h.acyclic c hg

/-- the followers of `n` are the targets of the listeners named after `n` and their followers -/
theorem desc_iff {w : World} {k : Nat} {o : Obj} (h : ObjInv w k o) (ho : w.objs k = some o) (n a : String) :
    Desc w o n a ↔ ∃ e ∈ o.reg, (w.lis e.2).src = n ∧ ∃ y, (w.lis e.2).name = o.pre ++ y ∧
      (a = o.pre ++ y ∨ Desc w o y a) := by
  constructor
  · rintro ⟨c, p, tc, tp, hg, hc, hp, hnp, hnc⟩
    obtain ⟨b, hcb, e, he, hab, s, hs, hsn⟩ := Relation.TransGen.tail'_iff.1 hg
    rw [hp] at hs; cases hs
    have hsrc : (w.lis e.2).src = n := (append_left_cancel' (hnp.symm.trans hsn)).symm
    obtain ⟨p', t, s', y, ht, htn, hnm, _, _, _, _⟩ := h.regData ho he
    refine ⟨e, he, hsrc, y, hnm, ?_⟩
    rw [hab] at ht
    rcases Relation.reflTransGen_iff_eq_or_transGen.1 hcb with heq | hg'
    · left
      rw [heq, hc] at ht; cases ht
      rw [← hnc, htn]
    · right
      exact ⟨c, b, tc, t, hg', hc, ht, htn, hnc⟩
  · rintro ⟨e, he, hsrc, y, hnm, hor⟩
    obtain ⟨p, t, s, y', ht, htn, hnm', hp, hsn, hfol, _⟩ := h.regData ho he
    have : y' = y := append_left_cancel' (hnm'.symm.trans hnm)
    subst this
    rw [hsrc] at hsn
    rcases hor with rfl | ⟨c, p', tc, tp, hg, hc, hp', hnp, hnc⟩
    · exact ⟨_, p, t, s, Relation.TransGen.single hfol, ht, hp, hsn, htn⟩
    · have : tp = t := h.name_inj (List.mem_of_getElem? hp') (List.mem_of_getElem? ht) (by rw [hnp, htn])
      subst this
      have : p' = (w.lis e.2).alias := h.pos_inj hp' ht
      subst this
      exact ⟨c, p, tc, s, Relation.TransGen.tail hg hfol, hc, hp, hsn, hnc⟩

/-- a link never leads back to its own source -/
theorem child_ne {w : World} {k : Nat} {o : Obj} (h : ObjInv w k o) (ho : w.objs k = some o) {e : String × Nat}
    (he : e ∈ o.reg) {y : String} (hnm : (w.lis e.2).name = o.pre ++ y) : y ≠ (w.lis e.2).src := by
  intro heq
  apply not_desc_self h (w.lis e.2).src
  exact (desc_iff h ho _ _).2 ⟨e, he, rfl, y, hnm, Or.inl (by rw [heq])⟩

/-- one turn of the loop of `getAlias` -/
def gaStep (f : Nat) (w : World) (o : Obj) (name : String) (acc : Except Err (List String)) (e : String × Nat) :
    Except Err (List String) :=
  match acc with
  | .error x => .error x
  | .ok aliases =>
    if (w.lis e.2).src == name then
      match lisAlias w (w.lis e.2) with
      | .error x => .error x
      | .ok al =>
        if stripNs o.pre al != name then
          match getAlias f w o (stripNs o.pre al) with
          | .error x => .error x
          | .ok chain => .ok (aliases ++ [al] ++ chain)
        else .ok (aliases ++ [al])
    else .ok aliases

theorem getAlias_succ (f : Nat) (w : World) (o : Obj) (n : String) :
    getAlias (f + 1) w o n = o.reg.foldl (gaStep f w o n) (.ok []) := rfl

theorem gaStep_skip {f : Nat} {w : World} {o : Obj} {n : String} {acc : List String} {e : String × Nat}
    (hs : (w.lis e.2).src ≠ n) : gaStep f w o n (.ok acc) e = .ok acc := by
  simp [gaStep, hs]

theorem gaStep_take {f : Nat} {w : World} {o : Obj} {n : String} {acc : List String} {e : String × Nat}
    {y : String} {l : List String} (hs : (w.lis e.2).src = n) (hl : lisAlias w (w.lis e.2) = .ok (o.pre ++ y))
    (hy : y ≠ n) (hg : getAlias f w o y = .ok l) :
    gaStep f w o n (.ok acc) e = .ok (acc ++ [o.pre ++ y] ++ l) := by
  simp [gaStep, hs, hl, stripNs_append, hy, hg]

/-- the loop of `getAlias` over a part of the registry, given that the recursive calls succeed -/
theorem foldl_gaStep {w : World} {k : Nat} {o : Obj} (h : ObjInv w k o) (ho : w.objs k = some o) (f : Nat) (n : String)
    (IH : ∀ e ∈ o.reg, (w.lis e.2).src = n → ∀ y, (w.lis e.2).name = o.pre ++ y →
      ∃ l, getAlias f w o y = .ok l ∧ ∀ a, a ∈ l ↔ Desc w o y a) :
    ∀ (L : List (String × Nat)), (∀ e ∈ L, e ∈ o.reg) → ∀ acc : List String,
      ∃ R, L.foldl (gaStep f w o n) (.ok acc) = .ok (acc ++ R) ∧
        ∀ a, a ∈ R ↔ ∃ e ∈ L, (w.lis e.2).src = n ∧ ∃ y, (w.lis e.2).name = o.pre ++ y ∧
          (a = o.pre ++ y ∨ Desc w o y a)
  | [], _, acc => ⟨[], by simp, by simp⟩
  | e :: L, hL, acc => by
    have he : e ∈ o.reg := hL e (List.mem_cons_self)
    have hL' : ∀ e ∈ L, e ∈ o.reg := fun e' m => hL e' (List.mem_cons_of_mem _ m)
    rw [List.foldl_cons]
    by_cases hs : (w.lis e.2).src = n
    · obtain ⟨p, t, s, y, ht, htn, hnm, hp, hsn, hfol, hlis⟩ := h.regData ho he
      obtain ⟨l, hg, hl⟩ := IH e he hs y hnm
      have hy : y ≠ n := hs ▸ child_ne h ho he hnm
      rw [gaStep_take hs hlis hy hg]
      obtain ⟨R, hR, hmem⟩ := foldl_gaStep h ho f n IH L hL' (acc ++ [o.pre ++ y] ++ l)
      refine ⟨[o.pre ++ y] ++ l ++ R, by rw [hR]; simp, ?_⟩
      intro a
      simp only [List.mem_append, hmem, hl, List.mem_cons, exists_eq_or_imp, List.not_mem_nil, or_false]
      constructor
      · rintro ((ha | ha) | ha)
        · exact Or.inl ⟨hs, y, hnm, Or.inl ha⟩
        · exact Or.inl ⟨hs, y, hnm, Or.inr ha⟩
        · exact Or.inr ha
      · rintro (⟨_, y', hnm', hor⟩ | ha)
        · have : y' = y := append_left_cancel' (hnm'.symm.trans hnm)
          subst this
          rcases hor with ha | ha
          · exact Or.inl (Or.inl ha)
          · exact Or.inl (Or.inr ha)
        · exact Or.inr ha
    · rw [gaStep_skip hs]
      obtain ⟨R, hR, hmem⟩ := foldl_gaStep h ho f n IH L hL' acc
      refine ⟨R, hR, ?_⟩
      intro a
      simp only [hmem, List.mem_cons, exists_eq_or_imp]
      constructor
      · exact Or.inr
      · rintro (⟨hs', _⟩ | ha)
        · exact absurd hs' hs
        · exact ha

/-- `getAlias` with fuel above the number of registry entries at or below `n` -/
theorem getAlias_aux {w : World} {k : Nat} {o : Obj} (h : ObjInv w k o) (ho : w.objs k = some o) :
    ∀ (f : Nat) (S : List (String × Nat)) (n : String), S.Nodup →
      (∀ e ∈ o.reg, ((w.lis e.2).src = n ∨ Desc w o n (o.pre ++ (w.lis e.2).src)) → e ∈ S) →
      S.length + 1 ≤ f → ∃ l, getAlias f w o n = .ok l ∧ ∀ a, a ∈ l ↔ Desc w o n a
  | 0, _, _, _, _, hf => by omega
  | f + 1, S, n, nd, hS, hf => by
    rw [getAlias_succ]
    have IH : ∀ e ∈ o.reg, (w.lis e.2).src = n → ∀ y, (w.lis e.2).name = o.pre ++ y →
        ∃ l, getAlias f w o y = .ok l ∧ ∀ a, a ∈ l ↔ Desc w o y a := by
      intro e he hs y hnm
      have heS : e ∈ S := hS e he (Or.inl hs)
      refine getAlias_aux h ho f (S.erase e) y (nd.erase e) ?_ ?_
      · intro e' he' hor
        rw [nd.mem_erase_iff]
        have hdesc : Desc w o n (o.pre ++ (w.lis e'.2).src) := by
          rcases hor with h1 | h1
          · exact (desc_iff h ho _ _).2 ⟨e, he, hs, y, hnm, Or.inl (by rw [h1])⟩
          · exact (desc_iff h ho _ _).2 ⟨e, he, hs, y, hnm, Or.inr h1⟩
        refine ⟨?_, hS e' he' (Or.inr hdesc)⟩
        rintro rfl
        rw [hs] at hdesc
        exact not_desc_self h n hdesc
      · have : (S.erase e).length = S.length - 1 := List.length_erase_of_mem heS
        have hpos : 0 < S.length := List.length_pos_of_mem heS
        omega
    obtain ⟨R, hR, hmem⟩ := foldl_gaStep h ho f n IH o.reg (fun _ m => m) []
    refine ⟨R, by simpa using hR, ?_⟩
    intro a
    rw [hmem, desc_iff h ho]

/-- **(B1)** `getAlias(n)` with the fuel of the model answers, and answers with the full names of
exactly the parameters that follow the parameter of short name `n` through one link or more -/
theorem getAlias_spec {w : World} {k : Nat} {o : Obj} (h : ObjInv w k o) (ho : w.objs k = some o) (n : String) :
    ∃ l, getAlias (o.reg.length + 1) w o n = .ok l ∧
      ∀ a, a ∈ l ↔ ∃ c p tc tp, Relation.TransGen (Follows w o) c p ∧ o.params[c]? = some tc ∧ o.params[p]? = some tp ∧
        nameOf w.heap tp = o.pre ++ n ∧ nameOf w.heap tc = a :=
  getAlias_aux h ho (o.reg.length + 1) o.reg n h.regNodup (fun _ he _ => he) (Nat.le_refl _)

theorem getAlias_no_hang {w : World} {k : Nat} {o : Obj} (h : ObjInv w k o) (ho : w.objs k = some o) (n : String) :
    ∃ l, getAlias (o.reg.length + 1) w o n = .ok l :=
  let ⟨l, hl, _⟩ := getAlias_spec h ho n; ⟨l, hl⟩

/-- a name that is not the short name of a parameter has no alias -/
theorem getAlias_unknown {w : World} {k : Nat} {o : Obj} (h : ObjInv w k o) (ho : w.objs k = some o) {n : String}
    (hn : ∀ i ∈ o.params, nameOf w.heap i ≠ o.pre ++ n) : getAlias (o.reg.length + 1) w o n = .ok [] := by
  obtain ⟨l, hl, hmem⟩ := getAlias_spec h ho n
  rw [hl]
  cases l with
  | nil => rfl
  | cons a l' =>
    obtain ⟨c, p, tc, tp, _, _, hp, hnp, _⟩ := (hmem a).1 (List.mem_cons_self)
    exact absurd hnp (hn tp (List.mem_of_getElem? hp))

/-! ## (B2) `getAliases` -/

theorem mem_keys_mapInsert' {β : Type} (k : String) (v : β) : ∀ (m : List (String × β)) (a : String),
    a ∈ (mapInsert k v m).map Prod.fst ↔ a = k ∨ a ∈ m.map Prod.fst
  | [], a => by simp [mapInsert]
  | (k', v') :: t, a => by
    simp only [mapInsert]
    split
    · simp
    · split
      · rename_i hk; subst hk; simp
      · simp only [List.map_cons, List.mem_cons, mem_keys_mapInsert' k v t a]
        constructor
        · rintro (h | h | h)
          · exact Or.inr (Or.inl h)
          · exact Or.inl h
          · exact Or.inr (Or.inr h)
        · rintro (h | h | h)
          · exact Or.inr (Or.inl h)
          · exact Or.inl h
          · exact Or.inr (Or.inr h)

theorem mem_mapInsert_sub {β : Type} {k : String} {v : β} : ∀ {m : List (String × β)} {x : String × β},
    x ∈ mapInsert k v m → x = (k, v) ∨ x ∈ m
  | [], x, hx => by simpa [mapInsert] using hx
  | (k', v') :: t, x, hx => by
    simp only [mapInsert] at hx
    split at hx
    · simpa using hx
    · split at hx
      · rcases List.mem_cons.1 hx with h | h
        · exact Or.inl h
        · exact Or.inr (List.mem_cons_of_mem _ h)
      · rcases List.mem_cons.1 hx with h | h
        · exact Or.inr (h ▸ List.mem_cons_self)
        · rcases mem_mapInsert_sub h with h | h
          · exact Or.inl h
          · exact Or.inr (List.mem_cons_of_mem _ h)

theorem foldl_mapInsert_keys (name : String) : ∀ (al : List String) (m : List (String × String)) (a : String),
    a ∈ (al.foldl (fun m a => mapInsert a name m) m).map Prod.fst ↔ a ∈ al ∨ a ∈ m.map Prod.fst
  | [], m, a => by simp
  | b :: al, m, a => by
    rw [List.foldl_cons, foldl_mapInsert_keys name al, mem_keys_mapInsert', List.mem_cons]
    constructor
    · rintro (h | h | h)
      · exact Or.inl (Or.inr h)
      · exact Or.inl (Or.inl h)
      · exact Or.inr h
    · rintro ((h | h) | h)
      · exact Or.inr (Or.inl h)
      · exact Or.inl h
      · exact Or.inr (Or.inr h)

theorem foldl_mapInsert_mem (name : String) : ∀ (al : List String) (m : List (String × String)) (x : String × String),
    x ∈ al.foldl (fun m a => mapInsert a name m) m → (x.1 ∈ al ∧ x.2 = name) ∨ x ∈ m
  | [], m, x, hx => Or.inr hx
  | b :: al, m, x, hx => by
    rw [List.foldl_cons] at hx
    rcases foldl_mapInsert_mem name al _ x hx with h | h
    · exact Or.inl ⟨List.mem_cons_of_mem _ h.1, h.2⟩
    · rcases mem_mapInsert_sub h with h | h
      · subst h; exact Or.inl ⟨List.mem_cons_self, rfl⟩
      · exact Or.inr h

/-- one turn of the loop of `getAliases` -/
def gmStep (w : World) (o : Obj) (acc : Except Err (List (String × String))) (e : String × Nat) :
    Except Err (List (String × String)) :=
  match acc with
  | .error x => .error x
  | .ok m =>
    match getAlias (o.reg.length + 1) w o (w.lis e.2).src with
    | .error x => .error x
    | .ok al => .ok (al.foldl (fun m a => mapInsert a (w.lis e.2).src m) m)

theorem getAliases_eq (w : World) (o : Obj) : getAliases w o = o.reg.foldl (gmStep w o) (.ok []) := rfl

theorem foldl_gmStep {w : World} {k : Nat} {o : Obj} (h : ObjInv w k o) (ho : w.objs k = some o) :
    ∀ (L : List (String × Nat)) (m : List (String × String)),
      ∃ m', L.foldl (gmStep w o) (.ok m) = .ok m' ∧
        (∀ a, a ∈ m'.map Prod.fst ↔ a ∈ m.map Prod.fst ∨ ∃ e ∈ L, Desc w o (w.lis e.2).src a) ∧
        (∀ x, x ∈ m' → x ∈ m ∨ Desc w o x.2 x.1)
  | [], m => ⟨m, rfl, by simp, fun _ hx => Or.inl hx⟩
  | e :: L, m => by
    obtain ⟨al, hal, hmem⟩ := getAlias_spec h ho (w.lis e.2).src
    have hstep : gmStep w o (.ok m) e = .ok (al.foldl (fun m a => mapInsert a (w.lis e.2).src m) m) := by
      simp only [gmStep, hal]
    rw [List.foldl_cons, hstep]
    obtain ⟨m', hm', hk, hx⟩ := foldl_gmStep h ho L (al.foldl (fun m a => mapInsert a (w.lis e.2).src m) m)
    refine ⟨m', hm', ?_, ?_⟩
    · intro a
      rw [hk, foldl_mapInsert_keys, hmem]
      simp only [List.mem_cons, exists_eq_or_imp]
      constructor
      · rintro ((h1 | h1) | h1)
        · exact Or.inr (Or.inl h1)
        · exact Or.inl h1
        · exact Or.inr (Or.inr h1)
      · rintro (h1 | h1 | h1)
        · exact Or.inl (Or.inr h1)
        · exact Or.inl (Or.inl h1)
        · exact Or.inr h1
    · intro x hxm
      rcases hx x hxm with h1 | h1
      · rcases foldl_mapInsert_mem _ al m x h1 with ⟨h2, h3⟩ | h2
        · right
          rw [h3]
          exact (hmem x.1).1 h2
        · exact Or.inl h2
      · exact Or.inr h1

/-- the parameters that follow somebody are the targets of the registered listeners -/
theorem desc_some_iff {w : World} {k : Nat} {o : Obj} (h : ObjInv w k o) (ho : w.objs k = some o) (a : String) :
    (∃ e ∈ o.reg, Desc w o (w.lis e.2).src a) ↔
      ∃ e ∈ o.reg, ∃ t, o.params[(w.lis e.2).alias]? = some t ∧ nameOf w.heap t = a := by
  constructor
  · rintro ⟨_, _, c, p, tc, tp, hg, hc, _, _, hnc⟩
    obtain ⟨b, ⟨e, he, hal, _⟩, _⟩ := Relation.TransGen.head'_iff.1 hg
    exact ⟨e, he, tc, by rw [hal]; exact hc, hnc⟩
  · rintro ⟨e, he, t, ht, hn⟩
    obtain ⟨p, t', s, y, ht', htn, hnm, _, _, _, _⟩ := h.regData ho he
    rw [ht] at ht'; cases ht'
    exact ⟨e, he, (desc_iff h ho _ _).2 ⟨e, he, rfl, y, hnm, Or.inl (by rw [← hn, htn])⟩⟩

/-- **(B2)** `getAliases()` answers; its keys are the full names of the parameters that follow
somebody, each mapped to the short name of a parameter it follows (through one link or more) -/
theorem getAliases_spec {w : World} {k : Nat} {o : Obj} (h : ObjInv w k o) (ho : w.objs k = some o) :
    ∃ m, getAliases w o = .ok m ∧
      (∀ a, a ∈ m.map Prod.fst ↔ ∃ e ∈ o.reg, ∃ t, o.params[(w.lis e.2).alias]? = some t ∧ nameOf w.heap t = a) ∧
      (∀ a n, (a, n) ∈ m → ∃ c p tc tp, Relation.TransGen (Follows w o) c p ∧ o.params[c]? = some tc ∧ o.params[p]? = some tp ∧
        nameOf w.heap tp = o.pre ++ n ∧ nameOf w.heap tc = a) := by
  obtain ⟨m, hm, hk, hx⟩ := foldl_gmStep h ho o.reg []
  refine ⟨m, by rw [getAliases_eq, hm], ?_, ?_⟩
  · intro a
    rw [hk, ← desc_some_iff h ho]
    simp
  · intro a n hmem
    rcases hx (a, n) hmem with h1 | h1
    · simp at h1
    · exact h1

end Bpp.Alias
