import BppProofs.Lemmas.Hmm
/-!
Helper lemmas for C13: posterior probabilities of the log-sum class
(`LogsumHmmLikelihood::computeBackward_`, `getHiddenStatesPosteriorProbabilities`), for strictly
positive tables and valid break points.
-/
namespace Bpp.Hmm
open Bpp Finset

/-- index into `partialLogLikelihoods_` as a function of the reset flags: the number of resets so far -/
def idxOfFlags : List Bool → Nat → List Nat
  | [], _ => []
  | b :: bs, k => (if b then k + 1 else k) :: idxOfFlags bs (if b then k + 1 else k)

theorem logPostIdx_eq (T cnt i : Nat) (bps : List Nat) (idx : Nat) (hT : i + cnt = T)
    (hs : bps.Pairwise (· < ·)) (hb : ∀ b ∈ bps, i ≤ b ∧ b < T) :
    logPostIdx T cnt i bps idx = idxOfFlags (fwdFlags T cnt i bps) idx := by
  induction cnt generalizing i bps idx with
  | zero => simp [logPostIdx, fwdFlags, idxOfFlags]
  | succ cnt ih =>
    cases bps with
    | nil =>
      have h1 : i < T := by omega
      have h2 : (i == T) = false := by simp; omega
      simp only [logPostIdx, fwdFlags, nextBrk, h1, h2, if_true, Bool.false_eq_true, if_false, idxOfFlags]
      rw [ih (i + 1) [] idx (by omega) List.Pairwise.nil (by simp)]
    | cons b bs =>
      have hb0 := hb b (List.mem_cons_self)
      have hbs : ∀ x ∈ bs, b < x := (List.pairwise_cons.mp hs).1
      by_cases hlt : i < b
      · have h2 : (i == b) = false := by simp; omega
        simp only [logPostIdx, fwdFlags, nextBrk, hlt, h2, if_true, Bool.false_eq_true, if_false, idxOfFlags]
        rw [ih (i + 1) (b :: bs) idx (by omega) hs (fun x hx => ⟨by
          rcases List.mem_cons.mp hx with rfl | hx
          · omega
          · have := hbs x hx; omega, (hb x hx).2⟩)]
      · have hib : i = b := by omega
        subst hib
        simp only [logPostIdx, fwdFlags, nextBrk, beq_self_eq_true, Nat.lt_irrefl, if_true, if_false, List.tail_cons, idxOfFlags]
        rw [ih (i + 1) bs (idx + 1) (by omega) (List.pairwise_cons.mp hs).2
          (fun x hx => ⟨by have := hbs x hx; omega, (hb x (List.mem_cons_of_mem _ hx)).2⟩)]

theorem logBackStep_false (p : Params ℝ) (hn : 0 < p.n) (hp : PosP p) (e : Emis ℝ) (he : PosE e)
    (B : Nat → ℝ) (hB : ∀ k, 0 < B k) :
    logBackStep p false e (vec p.n (fun k => Real.log (B k)))
      = vec p.n (fun j => Real.log (∑ k ∈ range p.n, e k * p.P j k * B k)) := by
  simp only [logBackStep, Bool.false_eq_true, if_false]
  apply vec_congr; intro j _
  have h1 : List.zipWith (fun a b => a + b) (vec p.n (fun k => Scalar.log (e k) + Scalar.log (p.P j k)))
      (vec p.n (fun k => Real.log (B k))) = vec p.n (fun k => Real.log (e k * p.P j k * B k)) := by
    unfold vec; rw [zipWith_vec]
    apply List.map_congr_left; intro k _
    simp only [ScalarReal.log_eq]
    rw [Real.log_mul (ne_of_gt (mul_pos (he k) (hp.1 j k))) (ne_of_gt (hB k)),
      Real.log_mul (ne_of_gt (he k)) (ne_of_gt (hp.1 j k))]
  rw [h1, lseL_vec_log _ hn _ (fun k => mul_pos (mul_pos (he k) (hp.1 j k)) (hB k))]

theorem zerosV_eq (p : Params ℝ) : zerosV p = vec p.n (fun _ => Real.log 1) := by
  unfold zerosV; apply vec_congr; intro j _; simp

/-- one posterior row: `exp (log t_j + log B_j − log Σ t·B) = t_j·B_j / Σ t·B` -/
theorem logPostRow_spec (n : Nat) (hn : 0 < n) (t B : Nat → ℝ) (ht : ∀ j, 0 < t j) (hB : ∀ j, 0 < B j) :
    ∃ row, logPostRow (vec n (fun j => Real.log (t j))) (vec n (fun j => Real.log (B j)))
        (some (Real.log (∑ j ∈ range n, t j * B j))) = some row
      ∧ (∀ x ∈ row, 0 ≤ x) ∧ row.sum = 1 ∧ row.length = n := by
  have hS : 0 < ∑ j ∈ range n, t j * B j := sum_pos_of_pos n hn _ (fun j => mul_pos (ht j) (hB j))
  refine ⟨vec n (fun j => t j * B j / ∑ j ∈ range n, t j * B j), ?_, ?_, ?_, by simp⟩
  · simp only [logPostRow, Option.map_some]
    congr 1
    unfold vec; rw [zipWith_vec]
    apply List.map_congr_left; intro j _
    simp only [ScalarReal.exp_eq, add_eq, sub_eq]
    rw [← Real.log_mul (ne_of_gt (ht j)) (ne_of_gt (hB j)), ← Real.log_div (ne_of_gt (mul_pos (ht j) (hB j))) (ne_of_gt hS),
      Real.exp_log (div_pos (mul_pos (ht j) (hB j)) hS)]
  · intro x hx
    simp only [vec, List.mem_map, List.mem_range] at hx
    obtain ⟨j, _, rfl⟩ := hx
    exact le_of_lt (div_pos (mul_pos (ht j) (hB j)) hS)
  · rw [sum_vec, ← Finset.sum_div]; exact div_self (ne_of_gt hS)

/-- rows computed for the sites of `rest`, given their forward vectors `ls`, backward vectors `tl`,
partial-likelihood indices and the partial log-likelihoods -/
noncomputable def postRows (ls tl : List (List ℝ)) (idx : List Nat) (partials : List ℝ) : Option (List (List ℝ)) :=
  (List.zip (List.zip ls tl) idx).mapM (fun x => logPostRow x.1.1 x.1.2 partials[x.2]?)

theorem logPosterior_rows (p : Params ℝ) (hn : 0 < p.n) (hp : PosP p) (rest : List (Site ℝ)) (hs : PosS rest)
    (g : Nat → ℝ) (hg : ∀ k, 0 < g k) :
    ∃ (B : Nat → ℝ) (tl : List (List ℝ)) (ps : List ℝ),
      logBackAll p rest = vec p.n (fun k => Real.log (B k)) :: tl
      ∧ (∀ k, 0 < B k) ∧ tl.length = rest.length
      ∧ (logLoop p rest (vec p.n (fun k => Real.log (g k)))).2 = Real.log (∑ j ∈ range p.n, g j * B j) :: ps
      ∧ (logLoop p rest (vec p.n (fun k => Real.log (g k)))).1.length = rest.length
      ∧ ∀ (Pre : List ℝ), ∃ rows,
          postRows (logLoop p rest (vec p.n (fun k => Real.log (g k)))).1 tl
            (idxOfFlags (rest.map (·.1)) Pre.length)
            (Pre ++ (logLoop p rest (vec p.n (fun k => Real.log (g k)))).2) = some rows
          ∧ rows.length = rest.length
          ∧ ∀ row ∈ rows, (∀ x ∈ row, 0 ≤ x) ∧ row.sum = 1 ∧ row.length = p.n := by
  induction rest generalizing g with
  | nil =>
    refine ⟨fun _ => 1, [], [], by simp [logBackAll, zerosV_eq], fun _ => one_pos, rfl, ?_, rfl, ?_⟩
    · simp only [logLoop, mul_one]; rw [lseL_vec_log _ hn _ hg]
    · intro Pre; exact ⟨[], by simp [postRows, logLoop, idxOfFlags], rfl, by simp⟩
  | cons s rest ih =>
    obtain ⟨b, e⟩ := s
    have he : PosE e := hs (b, e) (List.mem_cons_self)
    have hs' : PosS rest := fun s hs'' => hs s (List.mem_cons_of_mem _ hs'')
    -- the forward step
    set t : Nat → ℝ := fun j => if b then restartF p e j else stepF p e g j with ht_def
    have ht : ∀ j, 0 < t j := by
      intro j; simp only [ht_def]; split
      · exact restartF_pos p hn hp e he j
      · exact stepF_pos p hn hp e he g hg j
    have hcur : logTmp p b e (vec p.n (fun k => Real.log (g k))) = vec p.n (fun j => Real.log (t j)) :=
      logTmp_eq p hn hp b e he g hg
    obtain ⟨B', tl', ps', hback', hB', hlen', hpart', hllen', hrows'⟩ := ih hs' t ht
    -- the backward step
    set B : Nat → ℝ := fun j => if b then 1 else ∑ k ∈ range p.n, e k * p.P j k * B' k with hB_def
    have hBpos : ∀ j, 0 < B j := by
      intro j; simp only [hB_def]; split
      · exact one_pos
      · exact sum_pos_of_pos _ hn _ (fun k => mul_pos (mul_pos (he k) (hp.1 j k)) (hB' k))
    have hbs : logBackStep p b e (vec p.n (fun k => Real.log (B' k))) = vec p.n (fun j => Real.log (B j)) := by
      cases b with
      | true => simp only [logBackStep, if_true, zerosV_eq, hB_def]
      | false => rw [logBackStep_false p hn hp e he B' hB']; simp only [hB_def, Bool.false_eq_true, if_false]
    -- Σ g·B in terms of the next site
    have hsum : b = false → ∑ j ∈ range p.n, g j * B j = ∑ k ∈ range p.n, t k * B' k := by
      intro hb; subst hb
      simp only [hB_def, ht_def, Bool.false_eq_true, if_false, stepF]
      simp only [Finset.mul_sum, Finset.sum_mul]
      rw [Finset.sum_comm]
      apply Finset.sum_congr rfl; intro k _
      apply Finset.sum_congr rfl; intro j _
      ring
    have hloop1 : (logLoop p ((b, e) :: rest) (vec p.n (fun k => Real.log (g k)))).1
        = vec p.n (fun j => Real.log (t j)) :: (logLoop p rest (vec p.n (fun j => Real.log (t j)))).1 := by
      simp only [logLoop, hcur]
    have hloop2 : (logLoop p ((b, e) :: rest) (vec p.n (fun k => Real.log (g k)))).2
        = if b then Real.log (∑ j ∈ range p.n, g j) :: (logLoop p rest (vec p.n (fun j => Real.log (t j)))).2
          else (logLoop p rest (vec p.n (fun j => Real.log (t j)))).2 := by
      simp only [logLoop, hcur, lseL_vec_log _ hn _ hg]
    refine ⟨B, vec p.n (fun k => Real.log (B' k)) :: tl', if b then Real.log (∑ k ∈ range p.n, t k * B' k) :: ps' else ps',
      by simp only [logBackAll, hback', hbs], hBpos, by simp [hlen'], ?_, by rw [hloop1]; simp [hllen'], ?_⟩
    · rw [hloop2, hpart']
      cases b with
      | true => simp [hB_def]
      | false => simp only [Bool.false_eq_true, if_false]; rw [hsum rfl]
    · intro Pre
      rw [hloop1, hloop2]
      -- the prefix seen by the remaining sites
      set Pre' : List ℝ := if b then Pre ++ [Real.log (∑ j ∈ range p.n, g j)] else Pre with hPre'
      have hlenPre : Pre'.length = if b then Pre.length + 1 else Pre.length := by
        simp only [hPre']; split <;> simp
      have happ : (Pre ++ if b then Real.log (∑ j ∈ range p.n, g j) :: (logLoop p rest (vec p.n (fun j => Real.log (t j)))).2
            else (logLoop p rest (vec p.n (fun j => Real.log (t j)))).2)
          = Pre' ++ (logLoop p rest (vec p.n (fun j => Real.log (t j)))).2 := by
        simp only [hPre']; split <;> simp
      obtain ⟨rows', hrows1, hrows2, hrows3⟩ := hrows' Pre'
      obtain ⟨row0, hrow0, hrow0a, hrow0b, hrow0c⟩ := logPostRow_spec p.n hn t B' ht hB'
      refine ⟨row0 :: rows', ?_, by simp [hrows2], ?_⟩
      · simp only [postRows, List.map_cons, idxOfFlags, List.zip_cons_cons, List.mapM_cons]
        rw [happ, ← hlenPre]
        have hget : (Pre' ++ (logLoop p rest (vec p.n (fun j => Real.log (t j)))).2)[Pre'.length]?
            = some (Real.log (∑ k ∈ range p.n, t k * B' k)) := by
          rw [hpart']; simp
        rw [hget, hrow0]
        simp only [postRows] at hrows1
        simp only [Option.pure_def, Option.bind_eq_bind, Option.bind_some]
        rw [hrows1]; rfl
      · intro row hrow
        rcases List.mem_cons.mp hrow with rfl | hrow
        · exact ⟨hrow0a, hrow0b, hrow0c⟩
        · exact hrows3 row hrow

theorem logPosterior_prob (p : Params ℝ) (hn : 0 < p.n) (hp : PosP p) (e0 : Emis ℝ) (he0 : PosE e0)
    (es : List (Emis ℝ)) (hes : ∀ e ∈ es, PosE e) (bps : List Nat) (hv : ValidBreaks (es.length + 1) bps)
    (dE d2E : String → Emis ℝ × List (Emis ℝ)) :
    ∃ m, logPosterior { p := p, e0 := e0, es := es, dE := dE, d2E := d2E } bps = some m
      ∧ m.length = es.length + 1
      ∧ ∀ row ∈ m, (∀ x ∈ row, 0 ≤ x) ∧ row.sum = 1 ∧ row.length = p.n := by
  set sites := mkSites es bps with hsd
  have hsites : PosS sites := by
    intro s hs
    have : s.2 ∈ sites.map (·.2) := List.mem_map_of_mem hs
    rw [hsd, mkSites_snd] at this; exact hes _ this
  have hsnd : sites.map (·.2) = es := by rw [hsd]; exact mkSites_snd es bps
  have hslen : sites.length = es.length := by rw [hsd]; exact mkSites_length es bps
  have ht0 := restartF_pos p hn hp e0 he0
  have hf0 : logTmp p true e0 [] = vec p.n (fun j => Real.log (restartF p e0 j)) := by
    have := logTmp_eq p hn hp true e0 he0 (fun _ => 1) (fun _ => one_pos)
    simpa only [logTmp, if_true] using this
  obtain ⟨B, tl, ps, hback, hB, hlen, hpart, hllen, hrows⟩ := logPosterior_rows p hn hp sites hsites (restartF p e0) ht0
  obtain ⟨rows, hrows1, hrows2, hrows3⟩ := hrows []
  obtain ⟨row0, hrow0, hrow0a, hrow0b, hrow0c⟩ := logPostRow_spec p.n hn (restartF p e0) B ht0 hB
  -- the backward pass runs over the same flagged sites
  have hbw : logBackward p es bps = vec p.n (fun k => Real.log (B k)) :: tl := by
    unfold logBackward
    rw [bwd_flags_eq_fwd es bps hv, ← hsd]
    have : List.zip (sites.map (·.1)) es = sites := (List.zip_of_prod rfl hsnd).symm
    rw [this]; exact hback
  have hidx : logPostIdx (es.length + 1) (es.length + 1) 0 bps 0 = 0 :: idxOfFlags (sites.map (·.1)) 0 := by
    have h0 : (0 == nextBrk (es.length + 1) bps) = false := by
      cases bps with
      | nil => simp [nextBrk]
      | cons b bs => have := (hv.2 b List.mem_cons_self).1; simp [nextBrk]; omega
    simp only [logPostIdx, h0, Bool.false_eq_true, if_false]
    rw [logPostIdx_eq (es.length + 1) es.length 1 bps 0 (by omega) hv.1 hv.2]
    congr 2
    rw [hsd]; unfold mkSites; rw [List.map_fst_zip (by rw [fwdFlags_length])]
  refine ⟨row0 :: rows, ?_, by simp [hrows2, hslen], ?_⟩
  · unfold logPosterior logPosteriorOf logCompute logForward
    simp only [← hsd, hf0, hbw, List.length_cons, hllen, hslen, hidx, List.zip_cons_cons, List.mapM_cons]
    rw [hpart]
    simp only [List.getElem?_cons_zero, hrow0, Option.pure_def, Option.bind_eq_bind, Option.bind_some]
    simp only [postRows, List.nil_append, hpart, List.length_nil] at hrows1
    rw [hrows1]; rfl
  · intro row hrow
    rcases List.mem_cons.mp hrow with rfl | hrow
    · exact ⟨hrow0a, hrow0b, hrow0c⟩
    · exact hrows3 row hrow

/-! ### strictly positive tables: every scale factor is positive -/

theorem PosP.nonneg {p : Params ℝ} (hp : PosP p) : NonNegP p := ⟨fun i j => le_of_lt (hp.1 i j), fun k => le_of_lt (hp.2 k)⟩
theorem PosE.nonneg {e : Emis ℝ} (he : PosE e) : NonNegE e := fun j => le_of_lt (he j)

theorem rescLoop_scales_pos (p : Params ℝ) (hn : 0 < p.n) (hp : PosP p) (rest : List (Site ℝ)) (hs : PosS rest)
    (gh : Nat → ℝ) (hgh : ∀ j, 0 < gh j) :
    ∀ x ∈ rescLoop p rest (vec p.n gh), 0 < x.2 := by
  induction rest generalizing gh with
  | nil => simp [rescLoop]
  | cons s rest ih =>
    obtain ⟨b, e⟩ := s
    have he : PosE e := hs (b, e) (List.mem_cons_self)
    have hs' : PosS rest := fun s hs'' => hs s (List.mem_cons_of_mem _ hs'')
    have key : ∀ t : Nat → ℝ, (∀ j, 0 < t j) →
        (∀ x ∈ (vec p.n (normF t (∑ i ∈ range p.n, t i)), ∑ i ∈ range p.n, t i)
            :: rescLoop p rest (vec p.n (normF t (∑ i ∈ range p.n, t i))), 0 < x.2) := by
      intro t ht x hx
      have hc : 0 < ∑ i ∈ range p.n, t i := sum_pos_of_pos _ hn _ ht
      rcases List.mem_cons.mp hx with rfl | hx
      · exact hc
      · exact ih hs' _ (fun j => by simp only [normF, hc, if_true]; exact div_pos (ht j) hc) x hx
    cases b with
    | true => rw [rescLoop_cons_true]; exact key _ (restartF_pos p hn hp e he)
    | false =>
      rw [rescLoop_cons_false p hp.nonneg e he.nonneg rest gh (fun j _ => le_of_lt (hgh j))]
      exact key _ (stepF_pos p hn hp e he gh hgh)

theorem rescForward_scales_pos (p : Params ℝ) (hn : 0 < p.n) (hp : PosP p) (e0 : Emis ℝ) (he0 : PosE e0)
    (sites : List (Site ℝ)) (hs : PosS sites) : ∀ c ∈ (rescForward p e0 sites).scales, 0 < c := by
  intro c hc
  unfold rescForward at hc
  simp only [List.mem_map] at hc
  obtain ⟨x, hx, rfl⟩ := hc
  have hnil : rescLoop p ((true, e0) :: sites) [] = rescLoop p ((true, e0) :: sites) (vec p.n (fun _ => (1:ℝ))) := by
    simp only [rescLoop, rescTmp_true]
  rw [hnil] at hx
  exact rescLoop_scales_pos p hn hp ((true, e0) :: sites)
    (by intro s hs'; rcases List.mem_cons.mp hs' with rfl | h; exact he0; exact hs s h) (fun _ => 1) (fun _ => one_pos) x hx

end Bpp.Hmm
