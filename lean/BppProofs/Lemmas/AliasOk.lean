import BppProofs.Lemmas.AliasView
/-! C01's invariant along the operations of C03: every parameter object satisfies its own
constraint, whatever the operation and its outcome. -/
namespace Bpp.Alias
open Bpp.ParamList (Bnd Con Par Store ObjId nameOf find? hasParameter names startsWith)

/-- every allocated parameter object is accepted by its own constraint -/
def HeapOk (w : World) : Prop := ∀ i, i < w.heap.next → (w.heap.get i).ok = true

theorem heapOk_putValue {w : World} (h : HeapOk w) {i : ObjId} {v : Rat} (hv : (w.heap.get i).rejects v = false) :
    HeapOk (w.putValue i v) := by
  intro j hj
  have hj' : j < w.heap.next := hj
  simp only [World.putValue, ParamList.get_put]
  split
  · rename_i e; subst e
    simp only [Par.ok, Par.rejects] at hv ⊢
    cases hc : (w.heap.get j).con with
    | none => simp
    | some c => rw [hc] at hv; simpa using hv
  · exact h j hj'

theorem fireList_heapOk {k : World → ObjId → Rat → WR} (hk : ∀ w t u, HeapOk w → HeapOk (k w t u).w) (src : ObjId) :
    ∀ (ls : List Nat) (w : World), HeapOk w → HeapOk (fireList k src w ls).w
  | [], _, h => h
  | l :: rest, w, h => by
    simp only [fireList]
    split
    · exact h
    · split
      · exact h
      · split
        · exact h
        · split
          · exact hk _ _ _ h
          · exact fireList_heapOk hk src rest _ (hk _ _ _ h)

theorem setV_heapOk : ∀ (f : Nat) (w : World) (i : ObjId) (v : Rat), HeapOk w → HeapOk (setV f w i v).w
  | 0, _, _, _, h => h
  | f + 1, w, i, v, h => by
    simp only [setV]
    split
    · exact h
    · split
      · exact h
      · rename_i hr
        exact fireList_heapOk (setV_heapOk f) i _ _ (heapOk_putValue h (by simpa using hr))

theorem setValue_heapOk (w : World) (i : ObjId) (v : Rat) (h : HeapOk w) : HeapOk (setValue w i v).w :=
  setV_heapOk _ w i v h

theorem setParameterValue_heapOk (w : World) (l : List ObjId) (n : String) (v : Rat) (h : HeapOk w) :
    HeapOk (setParameterValue w l n v).w := by
  simp only [setParameterValue]; split
  · exact h
  · exact setValue_heapOk w _ v h

theorem shareParameter_heapOk (w : World) (l : List ObjId) (i : ObjId) (h : HeapOk w) :
    HeapOk (shareParameter w l i).1.w := by
  simp only [shareParameter]; split
  · exact setParameterValue_heapOk w l _ _ h
  · exact h

theorem shareParameters_heapOk : ∀ (src : List ObjId) (w : World) (l : List ObjId), HeapOk w →
    HeapOk (shareParameters w l src).1.w
  | [], _, _, h => h
  | i :: rest, w, l, h => by
    simp only [shareParameters]
    split
    · exact shareParameter_heapOk w l i h
    · exact shareParameters_heapOk rest _ _ (shareParameter_heapOk w l i h)

theorem applySome_heapOk (l : List ObjId) : ∀ (src : List (String × Rat)) (w : World), HeapOk w → HeapOk (applySome l w src).w
  | [], _, h => h
  | (n, v) :: rest, w, h => by
    simp only [applySome]; split
    · exact applySome_heapOk l rest w h
    · split
      · exact setValue_heapOk w _ v h
      · exact applySome_heapOk l rest _ (setValue_heapOk w _ v h)

theorem matchSome_heapOk (l : List ObjId) : ∀ (src : List (String × Rat)) (w : World), HeapOk w →
    HeapOk (matchSome l w src).1.w
  | [], _, h => h
  | (n, v) :: rest, w, h => by
    simp only [matchSome]; split
    · exact matchSome_heapOk l rest w h
    · split
      · split
        · exact setValue_heapOk w _ v h
        · exact matchSome_heapOk l rest _ (setValue_heapOk w _ v h)
      · exact matchSome_heapOk l rest w h

theorem applyAll_heapOk (src : List (String × Rat)) : ∀ (l : List ObjId) (w : World), HeapOk w → HeapOk (applyAll src w l).w
  | [], _, h => h
  | i :: rest, w, h => by
    simp only [applyAll]; split
    · exact h
    · split
      · exact setValue_heapOk w _ _ h
      · exact applyAll_heapOk src rest _ (setValue_heapOk w _ _ h)

theorem matchParametersValues_heapOk (w : World) (l : List ObjId) (src : List (String × Rat)) (h : HeapOk w) :
    HeapOk (matchParametersValues w l src).1.w := by
  simp only [matchParametersValues]; split
  · exact h
  · exact matchSome_heapOk l src w h

/-- `Parameter::setConstraint` checks the value -/
theorem heapOk_putPar_con {w : World} (h : HeapOk w) {i : ObjId} {q : Par} {c : Con}
    (hq : parSetConstraint (w.heap.get i) c = .ok q) : HeapOk (w.putPar i q) := by
  intro j hj
  have hj' : j < w.heap.next := hj
  simp only [putPar_get]
  split
  · simp only [parSetConstraint] at hq
    split at hq
    · cases hq
    · rename_i hacc
      cases hq
      simp only [Par.ok, Par.rejects]
      simpa using hacc
  · exact h j hj'

theorem aliasConstraintsL_heapOk (w : World) (i1 i2 : ObjId) (h : HeapOk w) : HeapOk (aliasConstraintsL w i1 i2).w := by
  simp only [aliasConstraintsL]
  split
  · exact h
  · split
    · exact h
    · rename_i q hq; exact heapOk_putPar_con h hq
  · exact h
  · split
    · split
      · exact h
      · rename_i q2 hq2
        split
        · exact heapOk_putPar_con h hq2
        · rename_i q1 hq1
          exact heapOk_putPar_con (heapOk_putPar_con h hq2) hq1
    · exact h


theorem aliasConstraints_heapOk (w : World) (i1 i2 : ObjId) (h : HeapOk w) : HeapOk (aliasConstraints w i1 i2).w := by
  rcases aliasConstraints_cases w i1 i2 with h' | h' <;> rw [h']
  · exact h
  · exact aliasConstraintsL_heapOk w i1 i2 h

theorem heapOk_of_heap_eq {w W : World} (e : W.heap = w.heap) (h : HeapOk w) : HeapOk W := by
  intro i hi; rw [e] at hi ⊢; exact h i hi

theorem aliasPairG_heapOk (b : Bool) (w : World) (k : Nat) (p1 p2 : String) (h : HeapOk w) :
    HeapOk (aliasPairG b w k p1 p2).w := by
  simp only [aliasPairG]
  split
  · exact h
  · rename_i o0 _
    -- after the "first time" branch
    have h0 : HeapOk (if (o0.params.length > 0 && o0.indep.length == 0) = true then shareParameters w [] o0.params
        else ({ w := w }, o0.indep)).1.w := by
      split
      · exact shareParameters_heapOk _ _ _ h
      · exact h
    generalize (if (o0.params.length > 0 && o0.indep.length == 0) = true then shareParameters w [] o0.params
        else ({ w := w }, o0.indep)) = r0 at h0 ⊢
    have hw0 : HeapOk (r0.1.w.setObj k { o0 with indep := r0.2 }) := heapOk_of_heap_eq rfl h0
    split
    · exact hw0
    · split
      · exact hw0
      · exact hw0
      · split
        · exact hw0
        · split
          · exact hw0
          · exact hw0
          · have hc : ∀ a b, HeapOk (aliasConstraints (r0.1.w.setObj k { o0 with indep := r0.2 }) a b).w :=
              fun a b => aliasConstraints_heapOk _ a b hw0
            split
            · exact hc _ _
            · split
              · exact hc _ _
              · split
                · exact heapOk_of_heap_eq rfl (hc _ _)
                · exact heapOk_of_heap_eq rfl (hc _ _)

theorem unalias_heapOk (w : World) (k : Nat) (p1 p2 : String) (h : HeapOk w) : HeapOk (unalias w k p1 p2).w := by
  simp only [unalias]
  split
  · exact h
  · split
    · exact h
    · exact h
    · split
      · exact h
      · have hs : ∀ W', W'.heap = w.heap → ∀ l b, HeapOk (shareParameter W' l b).1.w :=
          fun W' e l b => shareParameter_heapOk W' l b (heapOk_of_heap_eq e h)
        split
        · refine hs _ ?_ _ _; rfl
        · refine heapOk_of_heap_eq rfl (hs _ ?_ _ _); rfl

theorem bulkPass_heapOk (b : Bool) (k : Nat) : ∀ (todo : List (String × String)) (w : World) (pl : List Par)
    (kept : List (String × String)), HeapOk w → HeapOk (bulkPass b k w pl kept todo).w
  | [], _, _, _, h => h
  | (key, val) :: todo, w, pl, kept, h => by
    simp only [bulkPass]
    split
    · split
      · split
        · exact h
        · exact bulkPass_heapOk b k todo w pl _ h
      · split
        · exact h
        · exact bulkPass_heapOk b k todo w pl _ h
    · split
      · exact h
      · have hi := aliasPairG_heapOk b w k val key h
        split
        · exact hi
        · exact bulkPass_heapOk b k todo _ _ kept hi

theorem bulkLoop_heapOk (k : Nat) : ∀ (f : Nat) (w : World) (pl : List Par) (m : List (String × String)),
    HeapOk w → HeapOk (bulkLoop k f w pl m).w
  | 0, _, _, _, h => h
  | f + 1, w, pl, m, h => by
    simp only [bulkLoop]
    split
    · exact h
    · have hp := bulkPass_heapOk true k m w pl [] h
      split
      · exact hp
      · split
        · exact hp
        · exact bulkLoop_heapOk k f _ _ _ hp

theorem syncLinks_heapOk (l : List ObjId) : ∀ (ls : List (String × String)) (w : World), HeapOk w → HeapOk (syncLinks l w ls).w
  | [], _, h => h
  | (key, val) :: rest, w, h => by
    simp only [syncLinks]
    split
    · exact h
    · have hm := matchParametersValues_heapOk w l [(key, (w.heap.get ‹ObjId›).value)] h
      split
      · exact hm
      · exact syncLinks_heapOk l rest _ hm

theorem bulkAlias_heapOk (w : World) (k : Nat) (es : List (String × String)) (h : HeapOk w) : HeapOk (bulkAlias w k es).w := by
  simp only [bulkAlias, bulkAliasG]
  split
  · exact h
  · rename_i o _
    have hl := bulkLoop_heapOk k ((mkMap es).length + 1) w
      ((o.params.filter (fun i => (mapFind? (nameOf w.heap i) (mkMap es)).isNone)).map w.heap.get) (mkMap es) h
    split
    · exact hl
    · split
      · exact hl
      · exact syncLinks_heapOk _ _ _ hl

theorem renameListeners_heap (old new : String) : ∀ (reg : List (String × Nat)) (w : World),
    (renameListeners old new w reg).heap = w.heap
  | [], _ => rfl
  | e :: rest, w => by simp only [renameListeners]; rw [renameListeners_heap old new rest]; rfl

theorem setNamespaceList_ok (old new : String) : ∀ (l : List ObjId) (h : Store),
    (ParamList.setNamespace h old new l).next = h.next ∧
    ∀ i, ((ParamList.setNamespace h old new l).get i).value = (h.get i).value ∧
      ((ParamList.setNamespace h old new l).get i).con = (h.get i).con
  | [], h => ⟨rfl, fun _ => ⟨rfl, rfl⟩⟩
  | a :: rest, h => by
    simp only [ParamList.setNamespace]
    obtain ⟨n1, n2⟩ := setNamespaceList_ok old new rest
      (h.put a { h.get a with name := if startsWith (nameOf h a) old then new ++ String.ofList ((nameOf h a).toList.drop old.length) else new ++ nameOf h a })
    refine ⟨n1, fun i => ?_⟩
    obtain ⟨v1, v2⟩ := n2 i
    rw [v1, v2]
    simp only [ParamList.get_put]
    split
    · rename_i e; subst e; exact ⟨rfl, rfl⟩
    · exact ⟨rfl, rfl⟩

theorem setNamespace_heapOk (w : World) (k : Nat) (new : String) (h : HeapOk w) : HeapOk (setNamespace w k new).w := by
  simp only [setNamespace]
  split
  · exact h
  · rename_i o _
    obtain ⟨n1, n2⟩ := setNamespaceList_ok o.pre new o.params (renameListeners o.pre new w o.reg).heap
    intro i hi
    have hi' : i < (ParamList.setNamespace (renameListeners o.pre new w o.reg).heap o.pre new o.params).next := hi
    rw [n1, renameListeners_heap] at hi'
    have := h i hi'
    show (((ParamList.setNamespace (renameListeners o.pre new w o.reg).heap o.pre new o.params).get i)).ok = true
    have e1 := (n2 i).1
    have e2 := (n2 i).2
    rw [renameListeners_heap] at e1 e2
    simp only [Par.ok, Par.rejects] at this ⊢
    rw [renameListeners_heap, e1, e2]
    exact this

theorem cloneAll_heapOk : ∀ (l : List ObjId) (w : World), (∀ i ∈ l, i < w.heap.next) → HeapOk w → HeapOk (cloneAll w l).1
  | [], _, _, h => h
  | a :: rest, w, hv, h => by
    simp only [cloneAll]
    have ha : a < w.heap.next := hv a (List.mem_cons_self ..)
    refine cloneAll_heapOk rest _ (fun i hi => Nat.lt_succ_of_lt (hv i (List.mem_cons_of_mem _ hi))) ?_
    intro i hi
    have hi' : i < w.heap.next + 1 := hi
    simp only [allocPar_get]
    split
    · exact h a ha
    · rename_i hne
      exact h i (Nat.lt_of_le_of_ne (Nat.le_of_lt_succ hi') hne)

theorem rebuildIndep_heapOk (pre : String) (params : List ObjId) : ∀ (srcs : List ObjId) (w : World) (ind : List ObjId),
    HeapOk w → HeapOk (rebuildIndep pre params w ind srcs).1.w
  | [], _, _, h => h
  | s :: rest, w, ind, h => by
    simp only [rebuildIndep]
    split
    · exact h
    · have hs := shareParameter_heapOk w ind ‹ObjId› h
      split
      · exact hs
      · exact rebuildIndep_heapOk pre params rest _ _ hs

theorem retarget_heap (id : String) (newL : Nat) : ∀ (cl : List ObjId) (w : World), (retarget id newL w cl).heap = w.heap
  | [], _ => rfl
  | a :: rest, w => by
    simp only [retarget]; split
    · rw [retarget_heap id newL rest]; rfl
    · exact retarget_heap id newL rest w

theorem rebuildReg_heap (d : Nat) (cl : List ObjId) : ∀ (todo : List (String × Nat)) (w : World) (acc : List (String × Nat)),
    (rebuildReg d cl w acc todo).1.heap = w.heap
  | [], _, _ => rfl
  | (id, l) :: rest, w, acc => by
    simp only [rebuildReg]
    rw [rebuildReg_heap d cl rest, retarget_heap]; rfl

theorem rebuild_heapOk (w : World) (src : Obj) (d : Nat) (params ind0 : List ObjId) (reg0 : List (String × Nat))
    (h : HeapOk w) : HeapOk (rebuild w src d params ind0 reg0).w := by
  simp only [rebuild]
  have hi := rebuildIndep_heapOk src.pre params src.indep w ind0 h
  split
  · exact hi
  · exact heapOk_of_heap_eq (by simp only [setObj_heap, rebuildReg_heap]) hi

theorem addParam_heapOk (w : World) (k : Nat) (p : Par) (h : HeapOk w) : HeapOk (addParam w k p).w := by
  simp only [addParam]
  split
  · exact h
  · split
    · exact h
    · rename_i hok
      split
      · exact h
      · have ha : HeapOk ((w.allocPar p []).1) := by
          intro i hi
          have hi' : i < w.heap.next + 1 := hi
          simp only [allocPar_get]
          split
          · simpa using hok
          · rename_i hne; exact h i (Nat.lt_of_le_of_ne (Nat.le_of_lt_succ hi') hne)
        split
        · exact heapOk_of_heap_eq rfl ha
        · have hs : ∀ W', W'.heap = (w.allocPar p []).1.heap → ∀ l b, HeapOk (shareParameter W' l b).1.w :=
            fun W' e l b => shareParameter_heapOk W' l b (heapOk_of_heap_eq e ha)
          split
          · refine hs _ ?_ _ _; rfl
          · refine heapOk_of_heap_eq rfl (hs _ ?_ _ _); rfl

/-- **every operation of C03, whatever its outcome, keeps every parameter inside its own constraint**
(C01's invariant through the object-level routes; the routes are the checked `Parameter::setValue`
and `Parameter::setConstraint` only) -/
theorem heapOk_step {w : World} (hv : Inv w) (h : HeapOk w) (op : Op) : HeapOk (step w op).1 := by
  cases op with
  | new k pre => exact heapOk_of_heap_eq rfl h
  | add k p => exact addParam_heapOk w k p h
  | «alias» k p1 p2 => exact aliasPairG_heapOk true w k p1 p2 h
  | unalias k p1 p2 => exact unalias_heapOk w k p1 p2 h
  | bulk k es => exact bulkAlias_heapOk w k es h
  | setv k n v =>
    show HeapOk (apSetParameterValue w k n v).w
    simp only [apSetParameterValue]; split
    · exact h
    · exact setParameterValue_heapOk w _ _ v h
  | setvs k src =>
    show HeapOk (apSetParametersValues w k src).w
    simp only [apSetParametersValues, setParametersValues]; split
    · exact h
    · split
      · exact h
      · exact applySome_heapOk _ src w h
  | matchvs k src =>
    show HeapOk (apMatchParametersValues w k src).1.w
    simp only [apMatchParametersValues]; split
    · exact h
    · exact matchParametersValues_heapOk w _ src h
  | setallv k src =>
    show HeapOk (apSetAllParametersValues w k src).w
    simp only [apSetAllParametersValues, setAllParametersValues]; split
    · exact h
    · split
      · exact h
      · exact applyAll_heapOk src _ w h
  | copy s d =>
    show HeapOk (copyConstruct w s d).w
    simp only [copyConstruct]; split
    · exact h
    · rename_i o ho
      exact rebuild_heapOk _ o d _ [] [] (cloneAll_heapOk o.params w (hv.obj s o ho).valid h)
  | assign s d =>
    show HeapOk (assign w s d).w
    simp only [assign]; split
    · rename_i o _ ho _
      split
      · exact h
      · exact rebuild_heapOk _ o d _ [] [] (heapOk_of_heap_eq rfl (cloneAll_heapOk o.params w (hv.obj s o ho).valid h))
    · exact h
  | ns k pre => exact setNamespace_heapOk w k pre h
  | aliases k =>
    show HeapOk (match w.objs k with | none => (w, Out.err .ub) | some o => (w, _)).1
    split <;> exact h
  | aliasOf k n =>
    show HeapOk (match w.objs k with | none => (w, Out.err .ub) | some o => (w, _)).1
    split <;> exact h
  | «from» k n =>
    show HeapOk (match w.objs k with | none => (w, Out.err .ub) | some o => (w, _)).1
    split <;> exact h

theorem heapOk_run : ∀ (ops : List Op) {w : World}, Inv w → WfRun w ops → HeapOk w → HeapOk (run w ops)
  | [], _, _, _, h => h
  | op :: rest, _, hv, hw, h => heapOk_run rest (inv_step hv op hw.1) hw.2 (heapOk_step hv h op)

/-! ## Constraints only narrow -/

/-- every parameter object of `w` is still there in `w'`, under a constraint that accepts no more -/
def Narrow (w w' : World) : Prop :=
  w.heap.next ≤ w'.heap.next ∧
  ∀ i, i < w.heap.next → ∀ v, accOpt (w'.heap.get i).con v = true → accOpt (w.heap.get i).con v = true

theorem Narrow.refl (w : World) : Narrow w w := ⟨Nat.le_refl _, fun _ _ _ h => h⟩
theorem Narrow.trans {a b c : World} (x : Narrow a b) (y : Narrow b c) : Narrow a c :=
  ⟨Nat.le_trans x.1 y.1, fun i hi v h => x.2 i hi v (y.2 i (Nat.lt_of_lt_of_le hi x.1) v h)⟩

/-- same constraints on the old objects -/
theorem Narrow.of_con {w w' : World} (hn : w.heap.next ≤ w'.heap.next)
    (hc : ∀ i, i < w.heap.next → (w'.heap.get i).con = (w.heap.get i).con) : Narrow w w' :=
  ⟨hn, fun i hi v h => by rw [hc i hi] at h; exact h⟩

theorem SameBut.narrow {w w' : World} (s : SameBut w w') : Narrow w w' :=
  Narrow.of_con (by rw [s.next]) (fun i _ => s.con i)

theorem narrow_of_heap_eq {w W : World} (e : W.heap = w.heap) : Narrow w W :=
  Narrow.of_con (by rw [e]) (fun i _ => by rw [e])

theorem shareParameter_narrow (w : World) (l : List ObjId) (i : ObjId) : Narrow w (shareParameter w l i).1.w := by
  simp only [shareParameter]; split
  · exact (setParameterValue_sameBut w l _ _).narrow
  · exact Narrow.refl w

theorem shareParameters_narrow : ∀ (src : List ObjId) (w : World) (l : List ObjId), Narrow w (shareParameters w l src).1.w
  | [], w, _ => Narrow.refl w
  | i :: rest, w, l => by
    simp only [shareParameters]
    split
    · exact shareParameter_narrow w l i
    · exact (shareParameter_narrow w l i).trans (shareParameters_narrow rest _ _)

/-- the constraint part of the pair form, exactly: `aliasConSpec` on the two parameters, nothing else -/
theorem aliasConstraintsL_spec {w : World} {i1 i2 : ObjId} (hne : i1 ≠ i2) (ok : (aliasConstraintsL w i1 i2).err = none) :
    ((aliasConstraintsL w i1 i2).w.heap.get i1).con = (aliasConSpec (w.heap.get i1).con (w.heap.get i2).con).1 ∧
    ((aliasConstraintsL w i1 i2).w.heap.get i2).con = (aliasConSpec (w.heap.get i1).con (w.heap.get i2).con).2 ∧
    (∀ j, j ≠ i1 → j ≠ i2 → (aliasConstraintsL w i1 i2).w.heap.get j = w.heap.get j) ∧
    (aliasConstraintsL w i1 i2).w.heap.next = w.heap.next := by
  have hp : ∀ (p : Par) (c : Con) (q : Par), parSetConstraint p c = .ok q → q = { p with con := some c } := by
    intro p c q h
    simp only [parSetConstraint] at h
    split at h
    · cases h
    · cases h; rfl
  cases h1 : (w.heap.get i1).con with
  | none =>
    cases h2 : (w.heap.get i2).con with
    | none =>
      have : aliasConstraintsL w i1 i2 = { w := w } := by simp [aliasConstraintsL, h1, h2]
      rw [this]; simp [aliasConSpec, h1, h2]
    | some c2 =>
      cases hq : parSetConstraint (w.heap.get i1) c2 with
      | error e =>
        have : aliasConstraintsL w i1 i2 = { w := w, err := some e } := by simp [aliasConstraintsL, h1, h2, hq]
        rw [this] at ok; cases ok
      | ok q =>
        have : aliasConstraintsL w i1 i2 = { w := w.putPar i1 q } := by simp [aliasConstraintsL, h1, h2, hq]
        rw [this]
        have := hp _ _ _ hq
        subst this
        refine ⟨by simp [aliasConSpec], by simp [aliasConSpec, hne.symm, h2], fun j hj1 _ => by simp [hj1], rfl⟩
  | some c1 =>
    cases h2 : (w.heap.get i2).con with
    | none =>
      have : aliasConstraintsL w i1 i2 = { w := w } := by simp [aliasConstraintsL, h1, h2]
      rw [this]; simp [aliasConSpec, h1, h2]
    | some c2 =>
      by_cases hcc : c1 = c2
      · subst hcc
        have : aliasConstraintsL w i1 i2 = { w := w } := by simp [aliasConstraintsL, h1, h2]
        rw [this]; simp [aliasConSpec, h1, h2]
      · cases hq2 : parSetConstraint (w.heap.get i2) (Con.inter c2 c1) with
        | error e =>
          have : aliasConstraintsL w i1 i2 = { w := w, err := some e } := by simp [aliasConstraintsL, h1, h2, hcc, hq2]
          rw [this] at ok; cases ok
        | ok q2 =>
          cases hq1 : parSetConstraint ((w.putPar i2 q2).heap.get i1) (Con.inter c2 c1) with
          | error e =>
            have : aliasConstraintsL w i1 i2 = { w := w.putPar i2 q2, err := some e } := by
              simp only [aliasConstraintsL, h1, h2, ne_eq, hcc, not_false_eq_true, if_true, hq2, hq1]
            rw [this] at ok; cases ok
          | ok q1 =>
            have : aliasConstraintsL w i1 i2 = { w := (w.putPar i2 q2).putPar i1 q1 } := by
              simp only [aliasConstraintsL, h1, h2, ne_eq, hcc, not_false_eq_true, if_true, hq2, hq1]
            rw [this]
            have e2 := hp _ _ _ hq2
            have e1 := hp _ _ _ hq1
            subst e2 e1
            refine ⟨by simp [aliasConSpec, hcc], by simp [aliasConSpec, hcc, hne.symm], fun j hj1 hj2 => by simp [hj1, hj2], rfl⟩


theorem aliasConstraints_spec {w : World} {i1 i2 : ObjId} (hne : i1 ≠ i2) (ok : (aliasConstraints w i1 i2).err = none) :
    ((aliasConstraints w i1 i2).w.heap.get i1).con = (aliasConSpec (w.heap.get i1).con (w.heap.get i2).con).1 ∧
    ((aliasConstraints w i1 i2).w.heap.get i2).con = (aliasConSpec (w.heap.get i1).con (w.heap.get i2).con).2 ∧
    (∀ j, j ≠ i1 → j ≠ i2 → (aliasConstraints w i1 i2).w.heap.get j = w.heap.get j) ∧
    (aliasConstraints w i1 i2).w.heap.next = w.heap.next := by
  rcases aliasConstraints_cases w i1 i2 with h | h
  · rw [h] at ok; cases ok
  · rw [h] at ok ⊢; exact aliasConstraintsL_spec hne ok

theorem aliasConstraintsL_val (w : World) (i1 i2 : ObjId) (j : ObjId) : val (aliasConstraintsL w i1 i2).w j = val w j := by
  have : ∀ (w : World) (i : ObjId) (q : Par) (c : Con), parSetConstraint (w.heap.get i) c = .ok q →
      ∀ j, ((w.putPar i q).heap.get j).value = (w.heap.get j).value := by
    intro w i q c hq j
    simp only [putPar_get]; split
    · rename_i e; subst e
      simp only [parSetConstraint] at hq
      split at hq
      · cases hq
      · cases hq; rfl
    · rfl
  simp only [aliasConstraintsL, val]
  split
  · rfl
  · split
    · rfl
    · rename_i q hq; exact this w i1 q _ hq j
  · rfl
  · split
    · split
      · rfl
      · rename_i q2 hq2
        split
        · exact this w i2 q2 _ hq2 j
        · rename_i q1 hq1
          rw [this _ i1 q1 _ hq1 j, this w i2 q2 _ hq2 j]
    · rfl


theorem aliasConstraintsL_narrow (w : World) (i1 i2 : ObjId) : Narrow w (aliasConstraintsL w i1 i2).w := by
  have put : ∀ (w : World) (i : ObjId) (q : Par) (c : Con), parSetConstraint (w.heap.get i) c = .ok q →
      (w.putPar i q).heap.next = w.heap.next ∧ ∀ j, (w.putPar i q).heap.get j = if j = i then { w.heap.get i with con := some c } else w.heap.get j := by
    intro w i q c hq
    refine ⟨rfl, fun j => ?_⟩
    simp only [putPar_get]
    split
    · simp only [parSetConstraint] at hq
      split at hq
      · cases hq
      · cases hq; rfl
    · rfl
  simp only [aliasConstraintsL]
  cases h1 : (w.heap.get i1).con with
  | none =>
    cases h2 : (w.heap.get i2).con with
    | none => exact Narrow.refl w
    | some c2 =>
      simp only []
      split
      · exact Narrow.refl w
      · rename_i q hq
        obtain ⟨n, g⟩ := put w i1 q c2 hq
        refine ⟨by rw [n], fun j _ v hv => ?_⟩
        rw [g j] at hv
        split at hv
        · rename_i e; subst e; rw [h1]; rfl
        · exact hv
  | some c1 =>
    cases h2 : (w.heap.get i2).con with
    | none => exact Narrow.refl w
    | some c2 =>
      simp only []
      split
      · split
        · exact Narrow.refl w
        · rename_i q2 hq2
          obtain ⟨n2, g2⟩ := put w i2 q2 _ hq2
          have nar2 : Narrow w (w.putPar i2 q2) := by
            refine ⟨by rw [n2], fun j _ v hv => ?_⟩
            rw [g2 j] at hv
            split at hv
            · rename_i e; subst e
              rw [h2]
              simp only [accOpt, Con.inter_accepts, Bool.and_eq_true] at hv ⊢
              exact hv.1
            · exact hv
          split
          · exact nar2
          · rename_i q1 hq1
            obtain ⟨n1, g1⟩ := put (w.putPar i2 q2) i1 q1 _ hq1
            refine nar2.trans ⟨by rw [n1], fun j _ v hv => ?_⟩
            rw [g1 j] at hv
            split at hv
            · rename_i e; subst e
              by_cases hji : j = i2
              · subst hji
                rw [g2 j]; simp only [if_true, accOpt] at hv ⊢; exact hv
              · rw [g2 j]; simp only [hji, if_false]
                rw [h1]
                simp only [accOpt, Con.inter_accepts, Bool.and_eq_true] at hv ⊢
                exact hv.2
            · exact hv
      · exact Narrow.refl w


theorem aliasConstraints_narrow (w : World) (i1 i2 : ObjId) : Narrow w (aliasConstraints w i1 i2).w := by
  rcases aliasConstraints_cases w i1 i2 with h | h <;> rw [h]
  · exact Narrow.refl w
  · exact aliasConstraintsL_narrow w i1 i2

theorem aliasConstraints_val (w : World) (i1 i2 : ObjId) (j : ObjId) : val (aliasConstraints w i1 i2).w j = val w j := by
  rcases aliasConstraints_cases w i1 i2 with h | h <;> rw [h]
  exact aliasConstraintsL_val w i1 i2 j

theorem aliasPairG_narrow (b : Bool) (w : World) (k : Nat) (p1 p2 : String) : Narrow w (aliasPairG b w k p1 p2).w := by
  simp only [aliasPairG]
  split
  · exact Narrow.refl w
  · rename_i o0 _
    have h0 : Narrow w (if (o0.params.length > 0 && o0.indep.length == 0) = true then shareParameters w [] o0.params
        else ({ w := w }, o0.indep)).1.w := by
      split
      · exact shareParameters_narrow _ _ _
      · exact Narrow.refl w
    generalize (if (o0.params.length > 0 && o0.indep.length == 0) = true then shareParameters w [] o0.params
        else ({ w := w }, o0.indep)) = r0 at h0 ⊢
    have hw0 : Narrow w (r0.1.w.setObj k { o0 with indep := r0.2 }) := h0.trans (narrow_of_heap_eq rfl)
    split
    · exact hw0
    · split
      · exact hw0
      · exact hw0
      · split
        · exact hw0
        · split
          · exact hw0
          · exact hw0
          · have hc : ∀ a b, Narrow w (aliasConstraints (r0.1.w.setObj k { o0 with indep := r0.2 }) a b).w :=
              fun a b => hw0.trans (aliasConstraints_narrow _ a b)
            split
            · exact hc _ _
            · split
              · exact hc _ _
              · split
                · exact (hc _ _).trans (narrow_of_heap_eq rfl)
                · exact (hc _ _).trans (narrow_of_heap_eq rfl)

theorem unalias_narrow (w : World) (k : Nat) (p1 p2 : String) : Narrow w (unalias w k p1 p2).w := by
  simp only [unalias]
  split
  · exact Narrow.refl w
  · split
    · exact Narrow.refl w
    · exact Narrow.refl w
    · split
      · exact Narrow.refl w
      · have hs : ∀ W', W'.heap = w.heap → ∀ l b, Narrow w (shareParameter W' l b).1.w :=
          fun W' e l b => (narrow_of_heap_eq e).trans (shareParameter_narrow W' l b)
        split
        · refine hs _ ?_ _ _; rfl
        · refine (hs _ ?_ _ _).trans (narrow_of_heap_eq rfl); rfl

theorem bulkPass_narrow (b : Bool) (k : Nat) : ∀ (todo : List (String × String)) (w : World) (pl : List Par)
    (kept : List (String × String)), Narrow w (bulkPass b k w pl kept todo).w
  | [], w, _, _ => Narrow.refl w
  | (key, val) :: todo, w, pl, kept => by
    simp only [bulkPass]
    split
    · split
      · split
        · exact Narrow.refl w
        · exact bulkPass_narrow b k todo w pl _
      · split
        · exact Narrow.refl w
        · exact bulkPass_narrow b k todo w pl _
    · split
      · exact Narrow.refl w
      · have hi := aliasPairG_narrow b w k val key
        split
        · exact hi
        · exact hi.trans (bulkPass_narrow b k todo _ _ kept)

theorem bulkLoop_narrow (k : Nat) : ∀ (f : Nat) (w : World) (pl : List Par) (m : List (String × String)),
    Narrow w (bulkLoop k f w pl m).w
  | 0, w, _, _ => Narrow.refl w
  | f + 1, w, pl, m => by
    simp only [bulkLoop]
    split
    · exact Narrow.refl w
    · have hp := bulkPass_narrow true k m w pl []
      split
      · exact hp
      · split
        · exact hp
        · exact hp.trans (bulkLoop_narrow k f _ _ _)

theorem bulkAlias_narrow (w : World) (k : Nat) (es : List (String × String)) : Narrow w (bulkAlias w k es).w := by
  simp only [bulkAlias, bulkAliasG]
  split
  · exact Narrow.refl w
  · rename_i o _
    have hl := bulkLoop_narrow k ((mkMap es).length + 1) w
      ((o.params.filter (fun i => (mapFind? (nameOf w.heap i) (mkMap es)).isNone)).map w.heap.get) (mkMap es)
    split
    · exact hl
    · split
      · exact hl
      · exact hl.trans (syncLinks_sameBut _ _ _).narrow

theorem setNamespace_narrow (w : World) (k : Nat) (new : String) : Narrow w (setNamespace w k new).w := by
  simp only [setNamespace]
  split
  · exact Narrow.refl w
  · rename_i o _
    obtain ⟨n1, n2⟩ := setNamespaceList_ok o.pre new o.params (renameListeners o.pre new w o.reg).heap
    refine Narrow.of_con ?_ (fun i _ => ?_)
    · show w.heap.next ≤ (ParamList.setNamespace (renameListeners o.pre new w o.reg).heap o.pre new o.params).next
      rw [n1, renameListeners_heap]
    · show ((ParamList.setNamespace (renameListeners o.pre new w o.reg).heap o.pre new o.params).get i).con = _
      rw [(n2 i).2, renameListeners_heap]

theorem cloneAll_narrow : ∀ (l : List ObjId) (w : World), Narrow w (cloneAll w l).1
  | [], w => Narrow.refl w
  | a :: rest, w => by
    simp only [cloneAll]
    refine Narrow.trans (Narrow.of_con (Nat.le_succ _) (fun i hi => ?_)) (cloneAll_narrow rest _)
    have : i ≠ w.heap.next := Nat.ne_of_lt hi
    simp [this]

theorem rebuildIndep_narrow (pre : String) (params : List ObjId) : ∀ (srcs : List ObjId) (w : World) (ind : List ObjId),
    Narrow w (rebuildIndep pre params w ind srcs).1.w
  | [], w, _ => Narrow.refl w
  | s :: rest, w, ind => by
    simp only [rebuildIndep]
    split
    · exact Narrow.refl w
    · have hs : ∀ b, Narrow w (shareParameter w ind b).1.w := fun b => shareParameter_narrow w ind b
      split
      · exact hs _
      · exact (hs _).trans (rebuildIndep_narrow pre params rest _ _)

theorem rebuild_narrow (w : World) (src : Obj) (d : Nat) (params ind0 : List ObjId) (reg0 : List (String × Nat)) :
    Narrow w (rebuild w src d params ind0 reg0).w := by
  simp only [rebuild]
  have hi := rebuildIndep_narrow src.pre params src.indep w ind0
  split
  · exact hi
  · exact hi.trans (narrow_of_heap_eq (by simp only [setObj_heap, rebuildReg_heap]))

theorem addParam_narrow (w : World) (k : Nat) (p : Par) : Narrow w (addParam w k p).w := by
  simp only [addParam]
  split
  · exact Narrow.refl w
  · split
    · exact Narrow.refl w
    · split
      · exact Narrow.refl w
      · have ha : Narrow w (w.allocPar p []).1 := Narrow.of_con (Nat.le_succ _) (fun i hi => by
          have : i ≠ w.heap.next := Nat.ne_of_lt hi
          simp [this])
        split
        · exact ha.trans (narrow_of_heap_eq rfl)
        · have hs : ∀ W', W'.heap = (w.allocPar p []).1.heap → ∀ l b, Narrow w (shareParameter W' l b).1.w :=
            fun W' e l b => ha.trans ((narrow_of_heap_eq e).trans (shareParameter_narrow W' l b))
          split
          · refine hs _ ?_ _ _; rfl
          · refine (hs _ ?_ _ _).trans (narrow_of_heap_eq rfl); rfl

/-- no operation of C03 ever widens the constraint of an existing parameter object -/
theorem narrow_step (w : World) (op : Op) : Narrow w (step w op).1 := by
  cases op with
  | new k pre => exact narrow_of_heap_eq rfl
  | add k p => exact addParam_narrow w k p
  | «alias» k p1 p2 => exact aliasPairG_narrow true w k p1 p2
  | unalias k p1 p2 => exact unalias_narrow w k p1 p2
  | bulk k es => exact bulkAlias_narrow w k es
  | setv k n v => exact ((update_sameBut w k).1 n v).narrow
  | setvs k src => exact ((update_sameBut w k).2.1 src).narrow
  | matchvs k src => exact ((update_sameBut w k).2.2.1 src).narrow
  | setallv k src => exact ((update_sameBut w k).2.2.2 src).narrow
  | copy s d =>
    show Narrow w (copyConstruct w s d).w
    simp only [copyConstruct]; split
    · exact Narrow.refl w
    · exact (cloneAll_narrow _ w).trans (rebuild_narrow _ _ d _ [] [])
  | assign s d =>
    show Narrow w (assign w s d).w
    simp only [assign]; split
    · split
      · exact Narrow.refl w
      · rename_i o _ _ _ _
        refine Narrow.trans (Narrow.trans (cloneAll_narrow o.params w) ?_) (rebuild_narrow _ _ d _ [] [])
        exact narrow_of_heap_eq (W := (cloneAll w o.params).1.setObj d
          { params := (cloneAll w o.params).2, indep := [], reg := [], pre := o.pre }) rfl
    · exact Narrow.refl w
  | ns k pre => exact setNamespace_narrow w k pre
  | aliases k =>
    show Narrow w (match w.objs k with | none => (w, Out.err .ub) | some o => (w, _)).1
    split <;> exact Narrow.refl w
  | aliasOf k n =>
    show Narrow w (match w.objs k with | none => (w, Out.err .ub) | some o => (w, _)).1
    split <;> exact Narrow.refl w
  | «from» k n =>
    show Narrow w (match w.objs k with | none => (w, Out.err .ub) | some o => (w, _)).1
    split <;> exact Narrow.refl w

theorem narrow_run : ∀ (ops : List Op) (w : World), Narrow w (run w ops)
  | [], w => Narrow.refl w
  | op :: rest, w => (narrow_step w op).trans (narrow_run rest _)

/-! ## The bulk form performs the links -/

theorem key_mem_mapInsert {β : Type} (k : String) (v : β) : ∀ (m : List (String × β)),
    k ∈ (mapInsert k v m).map Prod.fst ∧ ∀ x ∈ m.map Prod.fst, x ∈ (mapInsert k v m).map Prod.fst
  | [] => by simp [mapInsert]
  | (k', v') :: t => by
    simp only [mapInsert]
    split
    · exact ⟨by simp, fun x hx => by simp only [List.map_cons, List.mem_cons] at hx ⊢; exact Or.inr hx⟩
    · split
      · rename_i hk
        refine ⟨by simp, fun x hx => ?_⟩
        simp only [List.map_cons, List.mem_cons] at hx ⊢
        rcases hx with rfl | hx
        · exact Or.inl hk.symm
        · exact Or.inr hx
      · obtain ⟨a, b⟩ := key_mem_mapInsert k v t
        refine ⟨by simp only [List.map_cons, List.mem_cons]; exact Or.inr a, fun x hx => ?_⟩
        simp only [List.map_cons, List.mem_cons] at hx ⊢
        rcases hx with rfl | hx
        · exact Or.inl rfl
        · exact Or.inr (b x hx)

/-- the listener id `id` is registered in the object of slot `k` -/
def Linked (w : World) (k : Nat) (id : String) : Prop := ∃ o, w.objs k = some o ∧ id ∈ o.reg.map Prod.fst

theorem aliasPair_linked {w : World} (h : Inv w) (k : Nat) (p1 p2 : String) (ok : (aliasPair w k p1 p2).err = none) :
    Linked (aliasPair w k p1 p2).w k (aliasId p1 p2) ∧ ∀ id, Linked w k id → Linked (aliasPair w k p1 p2).w k id := by
  cases ho : w.objs k with
  | none => simp [aliasPair, aliasPairG, ho] at ok
  | some o =>
    obtain ⟨⟨i1, i2, pos1, pos2, _, _, _, _, _, _, heq, _, _⟩⟩ := aliasPair_done (h.obj k o ho) ho ok
    have hobj : (aliasPair w k p1 p2).w.objs k = some (aliasedObj o p1 p2 i2 (aliasConstraints w i1 i2).w.lnext) := by
      rw [heq]; simp [aliased]
    obtain ⟨a, b⟩ := key_mem_mapInsert (aliasId p1 p2) (aliasConstraints w i1 i2).w.lnext o.reg
    refine ⟨⟨_, hobj, a⟩, fun id hl => ?_⟩
    obtain ⟨o', ho', hid⟩ := hl
    rw [ho] at ho'; cases ho'
    exact ⟨_, hobj, b id hid⟩

theorem bulkPass_linked (k : Nat) : ∀ (todo : List (String × String)) (w : World) (pl : List Par) (kept : List (String × String)),
    Inv w → (bulkPass true k w pl kept todo).err = none →
      (∀ id, Linked w k id → Linked (bulkPass true k w pl kept todo).w k id) ∧
      (∀ e ∈ todo, e ∈ (bulkPass true k w pl kept todo).left ∨ Linked (bulkPass true k w pl kept todo).w k (aliasId e.2 e.1)) ∧
      (∀ e ∈ kept, e ∈ (bulkPass true k w pl kept todo).left)
  | [], w, pl, kept, _, _ => ⟨fun _ h => h, fun e he => (by cases he), fun e he => he⟩
  | (key, val) :: todo, w, pl, kept, h, ok => by
    simp only [bulkPass] at ok ⊢
    cases hf : plFind? pl val with
    | none =>
      simp only [hf] at ok ⊢
      cases ho : w.objs k with
      | none => simp [ho] at ok
      | some o =>
      simp only [ho] at ok ⊢
      by_cases hh : hasParameter w.heap o.params val = true
      swap
      · have hh' : hasParameter w.heap o.params val = false := by simpa using hh
        simp [hh'] at ok
      · simp only [hh, Bool.not_true, Bool.false_eq_true, if_false] at ok ⊢
        obtain ⟨a, b, c⟩ := bulkPass_linked k todo w pl (kept ++ [(key, val)]) h ok
        refine ⟨a, fun e he => ?_, fun e he => c e (List.mem_append_left _ he)⟩
        rcases List.mem_cons.1 he with rfl | he
        · exact Or.inl (c _ (by simp))
        · exact b e he
    | some pp =>
      simp only [hf] at ok ⊢
      generalize (plFind? pl key).isSome = bb at ok ⊢
      cases bb
      swap
      · simp at ok
      · simp only [Bool.false_eq_true, if_false] at ok ⊢
        cases hok : (aliasPairG true w k val key).err with
        | some e => simp [hok] at ok
        | none =>
          simp only [hok] at ok ⊢
          have hi : Inv (aliasPairG true w k val key).w := inv_aliasPair h k val key
          obtain ⟨l1, l2⟩ := aliasPair_linked h k val key hok
          obtain ⟨a, b, c⟩ := bulkPass_linked k todo _ (pl ++ [{ pp with name := key }]) kept hi ok
          refine ⟨fun id hl => a id (l2 id hl), fun e he => ?_, c⟩
          rcases List.mem_cons.1 he with rfl | he
          · exact Or.inr (a _ l1)
          · exact b e he

theorem bulkLoop_linked (k : Nat) : ∀ (f : Nat) (w : World) (pl : List Par) (m : List (String × String)),
    Inv w → (bulkLoop k f w pl m).err = none →
      (∀ id, Linked w k id → Linked (bulkLoop k f w pl m).w k id) ∧
      (∀ e ∈ m, Linked (bulkLoop k f w pl m).w k (aliasId e.2 e.1))
  | 0, w, pl, m, _, ok => by simp [bulkLoop] at ok
  | f + 1, w, pl, m, h, ok => by
    simp only [bulkLoop] at ok ⊢
    by_cases hm : m.length = 0
    · simp only [hm, if_true]
      have : m = [] := List.eq_nil_of_length_eq_zero hm
      subst this
      exact ⟨fun _ hl => hl, fun e he => by cases he⟩
    · simp only [hm, if_false] at ok ⊢
      cases hp : (bulkPass true k w pl [] m).err with
      | some e => simp [hp] at ok
      | none =>
        simp only [hp] at ok ⊢
        obtain ⟨a, b, _⟩ := bulkPass_linked k m w pl [] h hp
        have hi := inv_bulkPass k m w pl [] h
        split at ok
        · cases ok
        · rename_i hne
          simp only [hne, if_false]
          obtain ⟨a', b'⟩ := bulkLoop_linked k f _ _ _ hi ok
          refine ⟨fun id hl => a' id (a id hl), fun e he => ?_⟩
          rcases b e he with hleft | hl
          · exact b' e hleft
          · exact a' _ hl

/-- **"performing the links or raising"**: when the bulk form returns normally, every entry
`key -> value` of the map (as sorted by `std::map`) is a registered link "key follows value" -/
theorem bulkAlias_linked {w : World} (h : Inv w) (k : Nat) (es : List (String × String))
    (ok : (bulkAlias w k es).err = none) : ∀ e ∈ mkMap es, Linked (bulkAlias w k es).w k (aliasId e.2 e.1) := by
  simp only [bulkAlias, bulkAliasG] at ok ⊢
  cases ho : w.objs k with
  | none => simp [ho] at ok
  | some o =>
    simp only [ho] at ok ⊢
    cases hl : (bulkLoop k ((mkMap es).length + 1) w
        ((o.params.filter (fun i => (mapFind? (nameOf w.heap i) (mkMap es)).isNone)).map w.heap.get) (mkMap es)).err with
    | some e => simp [hl] at ok
    | none =>
      simp only [hl] at ok ⊢
      obtain ⟨_, b⟩ := bulkLoop_linked k _ w _ (mkMap es) h hl
      intro e he
      obtain ⟨o', ho', hid⟩ := b e he
      simp only [ho', if_true]
      exact ⟨o', by rw [(syncLinks_sameBut _ _ _).objs]; exact ho', hid⟩

end Bpp.Alias
