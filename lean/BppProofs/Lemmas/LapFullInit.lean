import BppProofs.Lemmas.LapFullInv
/-! Helper lemmas for C04 (`lap`, the whole routine): column reduction and reduction transfer
establish the invariant. -/
namespace Bpp.Mx.Lap
open Bpp Bpp.Mx

/-- what the column reduction leaves (`im j` = the first row holding the minimum of column `j`) -/
structure ColRedPost (n : Nat) (c : Nat → Nat → ℝ) (s : CR ℝ) : Prop where
  vmin : ∀ j, j < n → s.v j = c (colMinRow n c j) j
  col : ∀ j, j < n → s.colSol j = -1 ∨ (s.colSol j = (colMinRow n c j : Int) ∧ s.rowSol (colMinRow n c j) = (j : Int))
  mt0 : ∀ i, s.mt i = 0 → ∀ j, j < n → colMinRow n c j ≠ i
  mtpos : ∀ i, s.mt i ≠ 0 → ∃ j, j < n ∧ colMinRow n c j = i ∧ s.rowSol i = (j : Int) ∧ s.colSol j = (i : Int)
  mtle : ∀ i, s.mt i ≤ n

theorem colRed_spec (n : Nat) (hn : n < 32768) (c : Nat → Nat → ℝ) (rs0 cs0 : Nat → Int) (v0 : Nat → ℝ) :
    ColRedPost n c (colRed n c { rowSol := rs0, colSol := cs0, v := v0, mt := fun _ => 0 }) := by
  unfold colRed
  have key := foldl_range_inv'
    (fun t (s : CR ℝ) =>
      (∀ j, n - t ≤ j → j < n → s.v j = c (colMinRow n c j) j) ∧
      (∀ j, n - t ≤ j → j < n → s.colSol j = -1 ∨ (s.colSol j = (colMinRow n c j : Int) ∧ s.rowSol (colMinRow n c j) = (j : Int))) ∧
      (∀ i, s.mt i = 0 → ∀ j, n - t ≤ j → j < n → colMinRow n c j ≠ i) ∧
      (∀ i, s.mt i ≠ 0 → ∃ j, n - t ≤ j ∧ j < n ∧ colMinRow n c j = i ∧ s.rowSol i = (j : Int) ∧ s.colSol j = (i : Int)) ∧
      (∀ i, s.mt i ≤ t))
    n (fun s t => colRedStep n c t s) { rowSol := rs0, colSol := cs0, v := v0, mt := fun _ => 0 }
    ⟨fun j h1 h2 => by omega, fun j h1 h2 => by omega, fun i _ j h1 h2 => by omega,
      fun i h => absurd rfl h, fun i => Nat.le_refl 0⟩
    (by
      intro t s ht ⟨ha, hb, hc, hd, he⟩
      have hjn : n - 1 - t < n := by omega
      simp only [colRedStep]
      have hm : s.mt (colMinRow n c (n - 1 - t)) + 1 < 32768 := by have := he (colMinRow n c (n - 1 - t)); omega
      by_cases hm0 : s.mt (colMinRow n c (n - 1 - t)) = 0
      · have h1 : toShort (s.mt (colMinRow n c (n - 1 - t)) + 1) = 1 := (toShort_eq_one hm).2 (by omega)
        rw [if_pos h1]
        refine ⟨?_, ?_, ?_, ?_, ?_⟩
        · intro j h1 h2
          by_cases hj : j = n - 1 - t
          · subst hj; simp
          · simp only [upd_ne _ _ hj]; exact ha j (by omega) h2
        · intro j h1 h2
          by_cases hj : j = n - 1 - t
          · subst hj; right; simp
          · simp only [upd_ne _ _ hj]
            rcases hb j (by omega) h2 with h | ⟨h3, h4⟩
            · left; exact h
            · right
              have hne : colMinRow n c j ≠ colMinRow n c (n - 1 - t) := hc _ hm0 j (by omega) h2
              exact ⟨h3, by rw [upd_ne _ _ hne]; exact h4⟩
        · intro i hi j h1 h2
          by_cases hii : i = colMinRow n c (n - 1 - t)
          · subst hii; simp at hi
          · simp only [upd_ne _ _ hii] at hi
            by_cases hj : j = n - 1 - t
            · subst hj; exact fun e => hii e.symm
            · exact hc i hi j (by omega) h2
        · intro i hi
          by_cases hii : i = colMinRow n c (n - 1 - t)
          · subst hii
            exact ⟨n - 1 - t, by omega, hjn, rfl, by simp, by simp⟩
          · simp only [upd_ne _ _ hii] at hi ⊢
            obtain ⟨j, h1, h2, h3, h4, h5⟩ := hd i hi
            have hj : j ≠ n - 1 - t := by omega
            exact ⟨j, by omega, h2, h3, h4, by simp only [upd_ne _ _ hj]; exact h5⟩
        · intro i
          by_cases hii : i = colMinRow n c (n - 1 - t)
          · subst hii; simp; omega
          · simp only [upd_ne _ _ hii]; have := he i; omega
      · have h1 : ¬ toShort (s.mt (colMinRow n c (n - 1 - t)) + 1) = 1 := fun h => by
          have := (toShort_eq_one hm).1 h; omega
        rw [if_neg h1]
        refine ⟨?_, ?_, ?_, ?_, ?_⟩
        · intro j h1 h2
          by_cases hj : j = n - 1 - t
          · subst hj; simp
          · simp only [upd_ne _ _ hj]; exact ha j (by omega) h2
        · intro j h1 h2
          by_cases hj : j = n - 1 - t
          · subst hj; left; simp
          · simp only [upd_ne _ _ hj]; exact hb j (by omega) h2
        · intro i hi j h1 h2
          by_cases hii : i = colMinRow n c (n - 1 - t)
          · subst hii; simp at hi
          · simp only [upd_ne _ _ hii] at hi
            by_cases hj : j = n - 1 - t
            · subst hj; exact fun e => hii e.symm
            · exact hc i hi j (by omega) h2
        · intro i hi
          by_cases hii : i = colMinRow n c (n - 1 - t)
          · subst hii
            obtain ⟨j, h1, h2, h3, h4, h5⟩ := hd _ hm0
            have hj : j ≠ n - 1 - t := by omega
            exact ⟨j, by omega, h2, h3, h4, by simp only [upd_ne _ _ hj]; exact h5⟩
          · simp only [upd_ne _ _ hii] at hi ⊢
            obtain ⟨j, h1, h2, h3, h4, h5⟩ := hd i hi
            have hj : j ≠ n - 1 - t := by omega
            exact ⟨j, by omega, h2, h3, h4, by simp only [upd_ne _ _ hj]; exact h5⟩
        · intro i
          by_cases hii : i = colMinRow n c (n - 1 - t)
          · subst hii; simp; have := he (colMinRow n c (n - 1 - t)); omega
          · simp only [upd_ne _ _ hii]; have := he i; omega)
  obtain ⟨ha, hb, hc, hd, he⟩ := key
  exact ⟨fun j hj => ha j (by omega) hj, fun j hj => hb j (by omega) hj, fun i hi j hj => hc i hi j (by omega) hj,
    fun i hi => by obtain ⟨j, _, h⟩ := hd i hi; exact ⟨j, h⟩, he⟩

/-- the state handed to the augmenting row reduction / the augmentation: the invariant with the
rows `free[0..numFree-1]` free, each listed once -/
structure CoreInv (n : Nat) (c : Nat → Nat → ℝ) (s : Core ℝ) : Prop where
  inv : Inv n c s.rowSol s.colSol s.v (FL s.free (fun t => t < s.numFree))
  inj : InjOnI s.free (fun t => t < s.numFree)
  le : s.numFree ≤ n
  n2 : s.numFree = 0 ∨ 2 ≤ n


/-- invariant of the reduction transfer before row `i` -/
structure RTInv (n : Nat) (c : Nat → Nat → ℝ) (cr : CR ℝ) (i : Nat) (s : RT ℝ) : Prop where
  vle : ∀ j, j < n → ∀ i', i' < n → s.v j ≤ c i' j
  untouched : ∀ i', i ≤ i' → i' < n → cr.mt i' ≠ 0 → ∀ j : Nat, cr.rowSol i' = (j : Int) → s.v j = c i' j
  tight : ∀ j, j < n → ∀ i' : Nat, cr.colSol j = (i' : Int) → ∀ k, k < n → c i' j - s.v j ≤ c i' k - s.v k
  nfle : s.numFree ≤ i
  fr : ∀ t, t < s.numFree → s.free t < i ∧ cr.mt (s.free t) = 0
  mono : ∀ t t', t < t' → t' < s.numFree → s.free t < s.free t'
  cover : ∀ i', i' < i → cr.mt i' = 0 → ∃ t, t < s.numFree ∧ s.free t = i'
  strict : (∃ i', i' < i ∧ cr.mt i' ≠ 0) → s.numFree < i

theorem rtStep_good (n : Nat) (hn : n < 32768) (c : Nat → Nat → ℝ) (cr : CR ℝ) (hcr : ColRedPost n c cr) (B : Prop)
    (i : Nat) (hi : i < n) (s : RT ℝ) (h : RTInv n c cr i s) :
    Good B (rtStep n c cr.rowSol cr.mt i s) (RTInv n c cr (i + 1)) := by
  have hmt : cr.mt i < 32768 := by have := hcr.mtle i; omega
  unfold rtStep
  by_cases h0 : cr.mt i = 0
  · rw [if_pos ((toShort_eq_zero hmt).2 h0)]
    have hnf : s.numFree < n := by have := h.nfle; omega
    rw [wr_of_lt _ _ hnf]
    apply Good.ok
    refine ⟨h.vle, fun i' h1 h2 h3 => h.untouched i' (by omega) h2 h3, h.tight, by simp; exact h.nfle, ?_, ?_, ?_, ?_⟩
    · intro t ht
      simp only at ht ⊢
      by_cases htn : t = s.numFree
      · subst htn; simp; exact h0
      · rw [upd_ne _ _ htn]
        have := h.fr t (by omega)
        exact ⟨by omega, this.2⟩
    · intro t t' htt ht'
      simp only at ht' ⊢
      have htn : t ≠ s.numFree := by omega
      rw [upd_ne _ _ htn]
      by_cases htn' : t' = s.numFree
      · subst htn'; simp; exact (h.fr t htt).1
      · rw [upd_ne _ _ htn']; exact h.mono t t' htt (by omega)
    · intro i' hi' hm
      by_cases hii : i' = i
      · subst hii; exact ⟨s.numFree, by simp, by simp⟩
      · obtain ⟨t, ht, hft⟩ := h.cover i' (by omega) hm
        have htn : t ≠ s.numFree := by omega
        exact ⟨t, by simp; omega, by simp only [upd_ne _ _ htn]; exact hft⟩
    · rintro ⟨i', hi', hm⟩
      have hii : i' ≠ i := fun e => hm (e ▸ h0)
      have := h.strict ⟨i', by omega, hm⟩
      simp; omega
  · have hz : ¬ toShort (cr.mt i) = 0 := fun e => h0 ((toShort_eq_zero hmt).1 e)
    rw [if_neg hz]
    -- whatever happens to `v`, the list of free rows moves on
    have hrest : ∀ v', (∀ t, t < s.numFree → s.free t < i + 1 ∧ cr.mt (s.free t) = 0) ∧
        (∀ i', i' < i + 1 → cr.mt i' = 0 → ∃ t, t < s.numFree ∧ s.free t = i') ∧
        ((∃ i', i' < i + 1 ∧ cr.mt i' ≠ 0) → ({ s with v := v' } : RT ℝ).numFree < i + 1) := by
      intro v'
      refine ⟨fun t ht => ⟨by have := (h.fr t ht).1; omega, (h.fr t ht).2⟩, ?_, ?_⟩
      · intro i' hi' hm
        have hii : i' ≠ i := fun e => h0 (e ▸ hm)
        exact h.cover i' (by omega) hm
      · intro _; have := h.nfle; simp; omega
    by_cases h1 : toShort (cr.mt i) = 1 ∧ n > 1
    · rw [if_pos h1]
      obtain ⟨j, hj, him, hrs, hcs⟩ := hcr.mtpos i h0
      have hsz : szOfInt (cr.rowSol i) = j := by rw [hrs]; exact szOfInt_ofNat j (by omega)
      simp only [hsz]
      obtain ⟨m, em, T1, j0, hj0, hj0ne, hm⟩ := transferMin_spec n c s.v i j h1.2 hj
      rw [em]
      simp only [rd_of_lt _ hj]
      apply Good.ok
      have hvj : s.v j = c i j := h.untouched i (Nat.le_refl i) hi h0 j hrs
      have hm0 : 0 ≤ m := by rw [hm]; have := h.vle j0 hj0 i hi; linarith
      obtain ⟨r1, r2, r3⟩ := hrest (upd s.v j (s.v j - m))
      refine ⟨?_, ?_, ?_, by have := h.nfle; simp; omega, r1, h.mono, r2, r3⟩
      · intro j' hj' i' hi'
        simp only
        by_cases hjj : j' = j
        · subst hjj; simp; have := h.vle j' hj' i' hi'; linarith
        · rw [upd_ne _ _ hjj]; exact h.vle j' hj' i' hi'
      · intro i' h1' h2 h3 j' hrs'
        simp only
        have hne : j' ≠ j := by
          intro e
          subst e
          obtain ⟨j'', _, _, hrs'', hcs''⟩ := hcr.mtpos i' h3
          have : j'' = j' := by omega
          subst this
          rw [hcs] at hcs''
          omega
        rw [upd_ne _ _ hne]
        exact h.untouched i' (by omega) h2 h3 j' hrs'
      · intro j' hj' i' hcs' k hk
        simp only
        by_cases hjj : j' = j
        · subst hjj
          have : i' = i := by rw [hcs] at hcs'; omega
          subst this
          simp only [upd_same]
          by_cases hkj : k = j'
          · subst hkj; simp
          · rw [upd_ne _ _ hkj]
            have := T1 k hk hkj
            rw [hvj]; linarith
        · rw [upd_ne _ _ hjj]
          have hold := h.tight j' hj' i' hcs' k hk
          by_cases hkj : k = j
          · subst hkj; simp only [upd_same]; linarith
          · rw [upd_ne _ _ hkj]; exact hold
    · rw [if_neg h1]
      apply Good.ok
      obtain ⟨r1, r2, r3⟩ := hrest s.v
      exact ⟨h.vle, fun i' h1' h2 h3 => h.untouched i' (by omega) h2 h3, h.tight, by have := h.nfle; omega, r1, h.mono, r2, r3⟩

theorem redTransfer_good (n : Nat) (hn : n < 32768) (c : Nat → Nat → ℝ) (cr : CR ℝ) (hcr : ColRedPost n c cr) (B : Prop) :
    Good B (redTransfer n c cr.rowSol cr.mt { v := cr.v, free := fun _ => 0, numFree := 0 })
      (fun rt => CoreInv n c { rowSol := cr.rowSol, colSol := cr.colSol, v := rt.v, free := rt.free, numFree := rt.numFree, j2 := none }) := by
  have hvle : ∀ j, j < n → ∀ i', i' < n → cr.v j ≤ c i' j := by
    intro j hj i' hi'
    rw [hcr.vmin j hj]
    exact (colMinRow_spec n c j (by omega)).2 i' hi'
  have hloop := loopM_good (B := B) (RTInv n c cr) n (rtStep n c cr.rowSol cr.mt) { v := cr.v, free := fun _ => 0, numFree := 0 }
    (by
      refine ⟨hvle, ?_, ?_, Nat.le_refl 0, fun t ht => by simp at ht, fun t t' _ ht' => by simp at ht',
        fun i' hi' => by omega, fun ⟨i', hi', _⟩ => by omega⟩
      · intro i' _ hi' hm j hrs
        obtain ⟨j', hj', him, hrs', _⟩ := hcr.mtpos i' hm
        have : j' = j := by omega
        subst this
        show cr.v j' = c i' j'
        rw [hcr.vmin j' hj', him]
      · intro j hj i' hcs k hk
        show c i' j - cr.v j ≤ c i' k - cr.v k
        rcases hcr.col j hj with h | ⟨h1, _⟩
        · rw [h] at hcs; omega
        · have hi' : i' = colMinRow n c j := by omega
          have hlt : i' < n := by rw [hi']; exact (colMinRow_spec n c j (by omega)).1
          have h2 := hvle k hk i' hlt
          rw [hcr.vmin j hj, ← hi']
          linarith)
    (fun i s hi h => rtStep_good n hn c cr hcr B i hi s h)
  unfold redTransfer
  refine hloop.mono (fun rt h => ?_)
  have hFiff : ∀ x, FL rt.free (fun t => t < rt.numFree) x ↔ (x < n ∧ cr.mt x = 0) := by
    intro x
    constructor
    · rintro ⟨t, ht, rfl⟩
      exact h.fr t ht
    · rintro ⟨hx, hm⟩
      obtain ⟨t, ht, hft⟩ := h.cover x hx hm
      exact ⟨t, ht, hft⟩
  refine ⟨⟨?_, ?_, ?_, ?_⟩, ?_, h.nfle, ?_⟩
  · intro j hj i' hcs
    show i' < n ∧ cr.rowSol i' = (j : Int)
    simp only at hcs
    rcases hcr.col j hj with h1 | ⟨h1, h2⟩
    · rw [h1] at hcs; omega
    · have hi' : i' = colMinRow n c j := by omega
      rw [hi']
      exact ⟨(colMinRow_spec n c j (by omega)).1, h2⟩
  · intro i hi hnf
    have hm : cr.mt i ≠ 0 := fun e => hnf ((hFiff i).2 ⟨hi, e⟩)
    obtain ⟨j, hj, _, hrs, hcs⟩ := hcr.mtpos i hm
    exact ⟨j, hj, hrs, hcs⟩
  · intro i hf
    obtain ⟨hi, hm⟩ := (hFiff i).1 hf
    refine ⟨hi, fun j hj => ?_⟩
    show cr.colSol j ≠ (i : Int)
    rcases hcr.col j hj with h1 | ⟨h1, _⟩
    · rw [h1]; omega
    · rw [h1]
      have := hcr.mt0 i hm j hj
      omega
  · exact h.tight
  · intro t t' ht ht' he
    rcases Nat.lt_trichotomy t t' with hlt | heq | hgt
    · have := h.mono t t' hlt ht'; simp only at he; omega
    · exact heq
    · have := h.mono t' t hgt ht; simp only at he; omega
  · show rt.numFree = 0 ∨ 2 ≤ n
    by_cases hn2 : 2 ≤ n
    · exact Or.inr hn2
    · left
      have hle := h.nfle
      by_cases hn0 : n = 0
      · omega
      · have hn1 : n = 1 := by omega
        have him : colMinRow n c 0 < n := (colMinRow_spec n c 0 (by omega)).1
        have hm : cr.mt 0 ≠ 0 := fun e => hcr.mt0 0 e 0 (by omega) (by omega)
        have := h.strict ⟨0, by omega, hm⟩
        omega

end Bpp.Mx.Lap
