import BppProofs.Lemmas.OptimGolden
/-!
Helper lemmas for C10: `BrentOneDimension` over `ℝ`, for a function object whose evaluation step
is deterministic (`Det I g J`).
-/
set_option linter.unusedSectionVars false
namespace Bpp.Optim
open Bpp

variable {F : Type} {J : F → PList ℝ → Prop}

theorem brentPropose_keeps (t : ℝ) (g : Brent ℝ) :
    (brentPropose t g).1.x = g.x ∧ (brentPropose t g).1.fx = g.fx ∧
    (brentPropose t g).1.xinf = g.xinf ∧ (brentPropose t g).1.xsup = g.xsup := by
  unfold brentPropose; exact ⟨rfl, rfl, rfl, rfl⟩

theorem brentUpdate_best (g : Brent ℝ) (u fu : ℝ) :
    ((brentUpdate g u fu).x = u ∧ (brentUpdate g u fu).fx = fu ∧ fu ≤ g.fx) ∨
    ((brentUpdate g u fu).x = g.x ∧ (brentUpdate g u fu).fx = g.fx) := by
  unfold brentUpdate
  by_cases h : fu ≤ g.fx
  · rw [if_pos ((ScalarReal.leb_iff _ _).2 h)]
    left
    exact ⟨rfl, rfl, h⟩
  · rw [if_neg (fun c => h ((ScalarReal.leb_iff _ _).1 c))]
    right
    dsimp only
    split
    · split
      · exact ⟨rfl, rfl⟩
      · split <;> exact ⟨rfl, rfl⟩
    · split
      · exact ⟨rfl, rfl⟩
      · split <;> exact ⟨rfl, rfl⟩

/-- the invariant of Brent's method: the best value is the function at the best abscissa, which is
what the optimiser's parameter holds -/
structure Brent.Inv (g : ℝ → ℝ) (J : F → PList ℝ → Prop) (m : ℝ) (s : St F (Brent ℝ) ℝ) : Prop where
  fx : s.ext.fx = g s.ext.x
  j : J s.fn s.core.params
  held : ∃ y, value0 s.core.params = some y ∧ g y = g s.ext.x
  m : s.ext.fx ≤ m

theorem brentStop_same (s : St F (Brent ℝ) ℝ) :
    (brentStop s).1.ext = s.ext ∧ (brentStop s).1.fn = s.fn ∧ (brentStop s).1.core.params = s.core.params := by
  unfold brentStop; dsimp only; split <;> exact ⟨rfl, rfl, rfl⟩

theorem brentDoStep_spec (I : FunI F ℝ) (g : ℝ → ℝ) (hd : Det I g J) (m : ℝ) (s s' : St F (Brent ℝ) ℝ) (v : ℝ)
    (hi : Brent.Inv g J m s) (h : brentDoStep I s = .ok (s', v)) : Brent.Inv g J m s' := by
  unfold brentDoStep at h
  have hk := brentPropose_keeps s.core.tolerance s.ext
  generalize brentPropose s.core.tolerance s.ext = pr at h hk
  obtain ⟨g1, u⟩ := pr
  dsimp only at h hk
  cases hset : setValueAt s.core.params 0 u with
  | error e => rw [hset] at h; cases h
  | ok pl =>
    rw [hset] at h
    try dsimp only at h
    cases hf : I.f s.fn pl with
    | error e => rw [hf] at h; cases h
    | ok r =>
      obtain ⟨fn1, fu⟩ := r
      rw [hf] at h
      try dsimp only at h
      cases hset2 : setValueAt s.core.params 0 (brentUpdate g1 u fu).x with
      | error e => rw [hset2] at h; cases h
      | ok pl2 =>
        rw [hset2] at h
        simp only [Except.ok.injEq, Prod.mk.injEq] at h
        obtain ⟨rfl, rfl⟩ := h
        have he := eval0_of I _ _ _ _ _ _ hset hf
        obtain ⟨hfu, hJ1⟩ := hd.eval _ _ _ _ _ _ hi.j he
        have hJ2 : J fn1 s.core.params := hd.mix _ _ _ _ hi.j hJ1
        obtain ⟨hJ3, hheld⟩ := hd.setJ _ _ _ _ hJ2 hset2
        refine ⟨?_, hJ3, hheld, ?_⟩
        · show (brentUpdate g1 u fu).fx = g (brentUpdate g1 u fu).x
          rcases brentUpdate_best g1 u fu with ⟨hx, hfx, _⟩ | ⟨hx, hfx⟩
          · rw [hx, hfx]; exact hfu
          · rw [hx, hfx, hk.1, hk.2.1]; exact hi.fx
        · show (brentUpdate g1 u fu).fx ≤ m
          rcases brentUpdate_best g1 u fu with ⟨_, hfx, hle⟩ | ⟨_, hfx⟩
          · rw [hfx]; rw [hk.2.1] at hle; exact le_trans hle hi.m
          · rw [hfx, hk.2.1]; exact hi.m

theorem Brent.Inv.congr {g : ℝ → ℝ} {m : ℝ} {s t : St F (Brent ℝ) ℝ} (h : Brent.Inv g J m s)
    (he : t.ext = s.ext) (hf : t.fn = s.fn) (hp : t.core.params = s.core.params) : Brent.Inv g J m t :=
  ⟨by rw [he]; exact h.fx, by rw [hf, hp]; exact h.j, by rw [hp, he]; exact h.held, by rw [he]; exact h.m⟩

theorem brent_step_inv (I : FunI F ℝ) (g : ℝ → ℝ) (hd : Det I g J) (fuel : Nat) (m : ℝ) (s s' : St F (Brent ℝ) ℝ) (v : ℝ)
    (hi : Brent.Inv g J m s) (h : (brentAlgo I fuel).step s = .ok (s', v)) : Brent.Inv g J m s' := by
  obtain ⟨s1, hd1, hc⟩ := step_cases _ s h
  have h1 := brentDoStep_spec I g hd m s s1 v hi hd1
  rcases hc with ⟨_, rfl⟩ | ⟨_, rfl⟩
  · exact h1.congr rfl rfl rfl
  · have hs := brentStop_same ({ s1 with core := { s1.core with cur := v } } : St F (Brent ℝ) ℝ)
    exact h1.congr hs.1 hs.2.1 hs.2.2

/-- `BrentOneDimension::optimize` from a state that satisfies the invariant -/
theorem brentOptimize_spec (I : FunI F ℝ) (g : ℝ → ℝ) (hd : Det I g J) (fuel : Nat) (m : ℝ) (s s2 : St F (Brent ℝ) ℝ) (v : ℝ)
    (hi : Brent.Inv g J m s) (h : brentOptimize I fuel s = .ok (s2, v)) :
    v ≤ m ∧ s2.core.cur = v ∧ ∃ x, v = g x ∧ value0 s2.core.params = some x ∧ J s2.fn s2.core.params := by
  unfold brentOptimize at h
  cases ho : (brentAlgo I fuel).optimize fuel s with
  | error e => rw [ho] at h; cases h
  | ok r =>
    obtain ⟨sL, w⟩ := r
    rw [ho] at h
    try dsimp only at h
    have hL : Brent.Inv g J m sL := by
      unfold Algo.optimize at ho
      split at ho
      · cases ho
      · cases hl : (brentAlgo I fuel).loop fuel { s with core := { s.core with tol := false, nbEval := 1 } } with
        | error e => rw [hl] at ho; cases ho
        | ok s' =>
          rw [hl] at ho
          simp only [Except.ok.injEq, Prod.mk.injEq] at ho
          obtain ⟨rfl, -⟩ := ho
          exact loop_invariant _ (Brent.Inv g J m)
            (fun u u' w hu _ hst => brent_step_inv I g hd fuel m u u' w hu hst)
            (fun u hu => hu.congr rfl rfl rfl) fuel
            ({ s with core := { s.core with tol := false, nbEval := 1 } } : St F (Brent ℝ) ℝ) _ (hi.congr rfl rfl rfl) hl
    cases hf : I.f sL.fn sL.core.params with
    | error e => rw [hf] at h; cases h
    | ok r2 =>
      obtain ⟨fn2, v2⟩ := r2
      rw [hf] at h
      simp only [Except.ok.injEq, Prod.mk.injEq] at h
      obtain ⟨rfl, rfl⟩ := h
      obtain ⟨y, hy, hgy⟩ := hL.held
      obtain ⟨hv, hJ2⟩ := hd.direct _ _ _ _ _ hL.j hy hf
      refine ⟨?_, rfl, y, hv, hy, hJ2⟩
      rw [hv, hgy, ← hL.fx]; exact hL.m

/-- `BrentOneDimension::doInit` -/
theorem brentDoInit_spec (I : FunI F ℝ) (g : ℝ → ℝ) (hd : Det I g J) (fuel : Nat) (s s1 : St F (Brent ℝ) ℝ)
    (params : PList ℝ) (x0 : ℝ) (h : brentDoInit I fuel s params = .ok s1) (hJ : J s.fn s.core.params)
    (hx0 : value0 s.core.params = some x0) :
    Brent.Inv g J (min (g x0) (min (g s.ext.xinf) (g s.ext.xsup))) s1 := by
  unfold brentDoInit at h
  split at h
  · cases h
  -- the bracket: its middle value is below the function at both ends of the initial interval
  have hbr : ∀ fnb k, (if s.ext.inward = true then inwardBracketMinimum I fuel s.ext.xinf s.ext.xsup 10 s.fn s.core.params
      else bracketMinimum I fuel s.ext.xinf s.ext.xsup s.fn s.core.params) = .ok (fnb, k) →
      k.b.Ok g ∧ k.b.f ≤ min (g s.ext.xinf) (g s.ext.xsup) ∧ ∃ pl', J fnb pl' := by
    intro fnb k hb
    cases hin : s.ext.inward with
    | true =>
      rw [hin] at hb; simp only [if_true] at hb
      obtain ⟨h1, h2, h3, h4, h5, h6, h7, h8⟩ := inward_spec I g hd fuel _ _ _ _ _ _ _ hJ hb
      refine ⟨h4, le_min ?_ ?_, h8⟩
      · rw [← h1, ← h3]; exact h6
      · rw [← h2, ← h5]; exact h7
    | false =>
      rw [hin] at hb; simp only [Bool.false_eq_true, if_false] at hb
      obtain ⟨hk, -, h8⟩ := outward_spec I g hd fuel _ _ _ _ _ _ hJ hb
      exact ⟨hk.b, hk.bm, h8⟩
  generalize hb : (if s.ext.inward = true then inwardBracketMinimum I fuel s.ext.xinf s.ext.xsup 10 s.fn s.core.params
      else bracketMinimum I fuel s.ext.xinf s.ext.xsup s.fn s.core.params) = br at h
  cases br with
  | error e => cases h
  | ok r =>
    obtain ⟨fnb, k⟩ := r
    obtain ⟨hkb, hkm, pl', hJb⟩ := hbr fnb k hb
    have hJ0 : J fnb s.core.params := hd.mix _ _ _ _ hJ hJb
    try dsimp only at h
    split at h
    · cases h
    · rename_i fn1 fx0 hf
      obtain ⟨hfx0, hJ1⟩ := hd.direct _ _ _ _ _ hJ0 hx0 hf
      try dsimp only at h
      split at h
      · -- the initial guess is kept
        rename_i hlt
        have hlt := (ScalarReal.ltb_iff _ _).1 hlt
        rw [hx0] at h
        simp only [Except.ok.injEq] at h
        subst h
        exact ⟨hfx0, hJ1, ⟨x0, hx0, rfl⟩, le_min (le_of_eq hfx0) (le_trans (le_of_lt hlt) hkm)⟩
      · rename_i hnlt
        have hge : k.b.f ≤ fx0 := by
          by_contra hc
          exact hnlt ((ScalarReal.ltb_iff _ _).2 (not_le.1 hc))
        split at h
        · cases h
        · rename_i sa fxb he
          simp only [Except.ok.injEq] at h
          subst h
          obtain ⟨hv, hJ2, -, hst, -⟩ := evalOwn_spec I g hd _ _ _ _ he hJ1
          have hfb : fxb = k.b.f := by rw [hv]; exact hkb.symm
          exact ⟨hv, hJ2, hst, le_min (by rw [hfb, ← hfx0]; exact hge) (by rw [hfb]; exact hkm)⟩

/-- `AbstractOptimizer::init` for Brent's method -/
theorem brentInit_spec (I : FunI F ℝ) (g : ℝ → ℝ) (hd : Det I g J) (fuel : Nat) (s s1 : St F (Brent ℝ) ℝ)
    (params : PList ℝ) (x0 : ℝ) (h : (brentAlgo I fuel).init s params = .ok s1)
    (hJ : J s.fn (applyPolicy s.core.policy params)) (hx0 : value0 (applyPolicy s.core.policy params) = some x0) :
    Brent.Inv g J (min (g x0) (min (g s.ext.xinf) (g s.ext.xsup))) s1 := by
  unfold Algo.init at h
  dsimp only at h
  split at h
  · cases h
  rename_i sa hdi
  simp only [Except.ok.injEq] at h
  have hi := brentDoInit_spec I g hd fuel _ _ params x0 hdi hJ hx0
  rw [← h]; exact hi.congr rfl rfl rfl

end Bpp.Optim
