import BppModel.Hmm
/-!
Helper lemmas for C13: refinement of the cached likelihood objects (`Hmm.RescObj`, `Hmm.LogObj`,
`Hmm.LowObj`) to the cache-free specification.  Pure state-machine reasoning: generic over the
scalar type (no arithmetic fact is used), so the statements also hold for the `Float` instance.
-/
namespace Bpp.Hmm
open Bpp

variable {α : Type} [Scalar α]

/-- tables and break points after an operation -/
def nextTab (t : Tables α) : Op α → Tables α
  | .setTables t2 => t2
  | _ => t
def nextBps (bps : List Nat) : Op α → List Nat
  | .setBreaks b2 => b2
  | _ => bps

/-! ### rescaled class -/

def RescObj.run (o : RescObj α) : List (Op α) → List (Ans α)
  | [] => []
  | op :: ops => (o.step op).2 :: RescObj.run (o.step op).1 ops

/-- the reference: a fresh object is built from the current tables for every query -/
def rescSpecRun (t : Tables α) (bps : List Nat) : List (Op α) → List (Ans α)
  | [] => []
  | op :: ops => rescSpec (nextTab t op) (nextBps bps op) op :: rescSpecRun (nextTab t op) (nextBps bps op) ops

/-- every cached field holds what `compute…_` would give for the current tables and break points -/
def RescObj.Consistent (o : RescObj α) : Prop :=
  o.fw = rescForward o.tab.p o.tab.e0 (mkSites o.tab.es o.bps)
  ∧ (o.backUpToDate = true → o.back = rescBackward o.tab.p o.tab.es o.fw.scales o.bps)
  ∧ (o.dVar ≠ "" → o.dfw = rescDForward o.tab.p o.tab.e0 o.tab.es (o.tab.dE o.dVar).1 (o.tab.dE o.dVar).2 o.bps o.fw)
  ∧ (o.d2Var ≠ "" → o.d2LogLik = rescD2Forward o.tab.p o.tab.e0 o.tab.es (o.tab.dE o.d2Var).1 (o.tab.dE o.d2Var).2
        (o.tab.d2E o.d2Var).1 (o.tab.d2E o.d2Var).2 o.bps o.fw
        (rescDForward o.tab.p o.tab.e0 o.tab.es (o.tab.dE o.d2Var).1 (o.tab.dE o.d2Var).2 o.bps o.fw))

theorem rescCompute_some (t : Tables α) (bps : List Nat) (fw : RescFwd α) (h : rescCompute t bps = some fw) :
    fw = rescForward t.p t.e0 (mkSites t.es bps) := by
  unfold rescCompute at h
  split at h
  · exact (Option.some.inj h).symm
  · cases h

theorem RescObj.build_consistent (t : Tables α) (o : RescObj α) (h : RescObj.build t = some o) :
    o.Consistent ∧ o.tab = t ∧ o.bps = [] := by
  unfold RescObj.build at h
  cases hc : rescCompute t [] with
  | none => rw [hc] at h; cases h
  | some fw =>
    rw [hc] at h
    have := Option.some.inj h
    subst this
    exact ⟨⟨rescCompute_some t [] fw hc, by simp, by simp, by simp⟩, rfl, rfl⟩

theorem RescObj.refreshBack_spec (o : RescObj α) (hc : o.Consistent) :
    o.refreshBack.Consistent ∧ o.refreshBack.tab = o.tab ∧ o.refreshBack.bps = o.bps
      ∧ posteriorOf o.refreshBack.fw.lik o.refreshBack.back = rescPosterior o.tab.p o.tab.e0 o.tab.es o.bps := by
  obtain ⟨h1, h2, h3, h4⟩ := hc
  unfold RescObj.refreshBack
  by_cases hb : o.backUpToDate = true
  · simp only [hb, if_true]
    refine ⟨⟨h1, h2, h3, h4⟩, (by first | rfl | trivial), (by first | rfl | trivial), ?_⟩
    rw [h2 hb, h1]; rfl
  · simp only [hb, if_false, Bool.false_eq_true]
    refine ⟨⟨h1, fun _ => rfl, h3, h4⟩, (by first | rfl | trivial), (by first | rfl | trivial), ?_⟩
    simp only [rescPosterior]; rw [h1]

theorem RescObj.step_spec (o : RescObj α) (hc : o.Consistent) (op : Op α)
    (hne : (o.step op).2 ≠ .exc) (hvar : op ≠ .d1 "" ∧ op ≠ .d2 "") :
    (o.step op).1.Consistent ∧ (o.step op).1.tab = nextTab o.tab op ∧ (o.step op).1.bps = nextBps o.bps op
      ∧ (o.step op).2 = rescSpec (nextTab o.tab op) (nextBps o.bps op) op := by
  obtain ⟨h1, h2, h3, h4⟩ := hc
  cases op with
  | setTables t =>
    simp only [RescObj.step] at hne ⊢
    cases hcmp : rescCompute t o.bps with
    | none => rw [hcmp] at hne; exact absurd rfl hne
    | some fw =>
      have hfw := rescCompute_some t o.bps fw hcmp
      simp only [nextTab, nextBps, rescSpec]
      refine ⟨⟨hfw, by simp, by simp, by simp⟩, (by first | rfl | trivial), (by first | rfl | trivial), by rw [hfw]⟩
  | setBreaks bps =>
    simp only [RescObj.step] at hne ⊢
    cases hcmp : rescCompute o.tab bps with
    | none => rw [hcmp] at hne; exact absurd rfl hne
    | some fw =>
      have hfw := rescCompute_some o.tab bps fw hcmp
      simp only [nextTab, nextBps, rescSpec]
      refine ⟨⟨hfw, by simp, by simp, by simp⟩, (by first | rfl | trivial), (by first | rfl | trivial), by rw [hfw]⟩
  | logLik =>
    simp only [RescObj.step, nextTab, nextBps, rescSpec]
    exact ⟨⟨h1, h2, h3, h4⟩, (by first | rfl | trivial), (by first | rfl | trivial), by rw [h1]⟩
  | posterior =>
    simp only [RescObj.step, nextTab, nextBps, rescSpec]
    by_cases hb : o.backUpToDate = true
    · simp only [hb, if_true]
      refine ⟨⟨h1, h2, h3, h4⟩, (by first | rfl | trivial), (by first | rfl | trivial), ?_⟩
      rw [h2 hb, h1]; rfl
    · simp only [hb, if_false, Bool.false_eq_true]
      refine ⟨⟨h1, fun _ => rfl, h3, h4⟩, (by first | rfl | trivial), (by first | rfl | trivial), ?_⟩
      simp only [rescPosterior]; rw [h1]
  | posteriorInto buf append =>
    obtain ⟨r1, r2, r3, r4⟩ := RescObj.refreshBack_spec o ⟨h1, h2, h3, h4⟩
    simp only [RescObj.step, nextTab, nextBps, rescSpec]
    exact ⟨r1, r2, r3, by rw [r4]⟩
  | posteriorSite site =>
    obtain ⟨r1, r2, r3, r4⟩ := RescObj.refreshBack_spec o ⟨h1, h2, h3, h4⟩
    simp only [RescObj.step, nextTab, nextBps, rescSpec]
    exact ⟨r1, r2, r3, by rw [r4]⟩
  | siteLik site =>
    obtain ⟨r1, r2, r3, r4⟩ := RescObj.refreshBack_spec o ⟨h1, h2, h3, h4⟩
    simp only [RescObj.step, nextTab, nextBps, rescSpec]
    exact ⟨r1, r2, r3, by rw [r4]⟩
  | siteLiks =>
    obtain ⟨r1, r2, r3, r4⟩ := RescObj.refreshBack_spec o ⟨h1, h2, h3, h4⟩
    simp only [RescObj.step, nextTab, nextBps, rescSpec]
    exact ⟨r1, r2, r3, by rw [r4]⟩
  | d1 var =>
    have hv : var ≠ "" := fun h => hvar.1 (by rw [h])
    simp only [RescObj.step, nextTab, nextBps, rescSpec]
    by_cases hd : var = o.dVar
    · have : (var != o.dVar) = false := by simp [hd]
      simp only [this, Bool.false_eq_true, if_false]
      refine ⟨⟨h1, h2, h3, h4⟩, (by first | rfl | trivial), (by first | rfl | trivial), ?_⟩
      rw [h3 (hd ▸ hv), ← hd, h1]
    · have : (var != o.dVar) = true := by simp [hd]
      simp only [this, if_true]
      refine ⟨⟨h1, h2, fun _ => rfl, h4⟩, (by first | rfl | trivial), (by first | rfl | trivial), ?_⟩
      rw [h1]
  | d2 var =>
    have hv : var ≠ "" := fun h => hvar.2 (by rw [h])
    simp only [RescObj.step, nextTab, nextBps, rescSpec]
    by_cases hd2 : var = o.d2Var
    · have : (var != o.d2Var) = false := by simp [hd2]
      simp only [this, Bool.false_eq_true, if_false]
      refine ⟨⟨h1, h2, h3, h4⟩, (by first | rfl | trivial), (by first | rfl | trivial), ?_⟩
      rw [h4 (hd2 ▸ hv), ← hd2, h1]
    · have hb2 : (var != o.d2Var) = true := by simp [hd2]
      simp only [hb2, if_true]
      by_cases hd : var = o.dVar
      · have hb1 : (var != o.dVar) = false := by simp [hd]
        simp only [hb1, Bool.false_eq_true, if_false]
        have hdfw := h3 (hd ▸ hv)
        rw [← hd] at hdfw
        refine ⟨⟨h1, h2, h3, fun _ => ?_⟩, (by first | rfl | trivial), (by first | rfl | trivial), ?_⟩
        · simp only; rw [hdfw]
        · rw [hdfw, h1]
      · have hb1 : (var != o.dVar) = true := by simp [hd]
        simp only [hb1, if_true]
        refine ⟨⟨h1, h2, fun _ => rfl, fun _ => rfl⟩, (by first | rfl | trivial), (by first | rfl | trivial), ?_⟩
        rw [h1]

theorem RescObj.run_spec (o : RescObj α) (hc : o.Consistent) (ops : List (Op α))
    (hne : ∀ a ∈ o.run ops, a ≠ Ans.exc) (hvar : ∀ op ∈ ops, op ≠ Op.d1 "" ∧ op ≠ Op.d2 "") :
    o.run ops = rescSpecRun o.tab o.bps ops := by
  induction ops generalizing o with
  | nil => rfl
  | cons op ops ih =>
    simp only [RescObj.run, rescSpecRun]
    have hs := RescObj.step_spec o hc op (hne _ (by simp [RescObj.run])) (hvar op (by simp))
    obtain ⟨hc', ht, hb, ha⟩ := hs
    rw [ha, ih (o.step op).1 hc' (fun a h => hne a (by simp [RescObj.run, h])) (fun op' h => hvar op' (by simp [h])), ht, hb]

/-! ### log-sum class -/

def LogObj.run (o : LogObj α) : List (Op α) → List (Ans α)
  | [] => []
  | op :: ops => (o.step op).2 :: LogObj.run (o.step op).1 ops

def logSpecRun (t : Tables α) (bps : List Nat) : List (Op α) → List (Ans α)
  | [] => []
  | op :: ops => logSpec (nextTab t op) (nextBps bps op) op :: logSpecRun (nextTab t op) (nextBps bps op) ops

def LogObj.Consistent (o : LogObj α) : Prop :=
  o.fw = logCompute o.tab o.bps ∧ (o.backUpToDate = true → o.back = logBackward o.tab.p o.tab.es o.bps)

theorem LogObj.build_consistent (t : Tables α) : (LogObj.build t).Consistent ∧ (LogObj.build t).tab = t ∧ (LogObj.build t).bps = [] :=
  ⟨⟨rfl, by simp [LogObj.build]⟩, rfl, rfl⟩

theorem LogObj.refreshBack_spec (o : LogObj α) (hc : o.Consistent) :
    o.refreshBack.Consistent ∧ o.refreshBack.tab = o.tab ∧ o.refreshBack.bps = o.bps
      ∧ o.refreshBack.fw = logCompute o.tab o.bps ∧ o.refreshBack.back = logBackward o.tab.p o.tab.es o.bps := by
  obtain ⟨h1, h2⟩ := hc
  unfold LogObj.refreshBack
  by_cases hb : o.backUpToDate = true
  · simp only [hb, if_true]
    exact ⟨⟨h1, h2⟩, (by first | rfl | trivial), (by first | rfl | trivial), h1, h2 hb⟩
  · simp only [hb, if_false, Bool.false_eq_true]
    exact ⟨⟨h1, fun _ => rfl⟩, (by first | rfl | trivial), (by first | rfl | trivial), h1, (by first | rfl | trivial)⟩

theorem LogObj.step_spec (o : LogObj α) (hc : o.Consistent) (op : Op α) :
    (o.step op).1.Consistent ∧ (o.step op).1.tab = nextTab o.tab op ∧ (o.step op).1.bps = nextBps o.bps op
      ∧ (o.step op).2 = logSpec (nextTab o.tab op) (nextBps o.bps op) op := by
  obtain ⟨h1, h2⟩ := hc
  cases op with
  | setTables t => exact ⟨⟨rfl, by simp [LogObj.step]⟩, (by first | rfl | trivial), (by first | rfl | trivial), rfl⟩
  | setBreaks bps => exact ⟨⟨rfl, by simp [LogObj.step]⟩, (by first | rfl | trivial), (by first | rfl | trivial), rfl⟩
  | logLik => exact ⟨⟨h1, h2⟩, (by first | rfl | trivial), (by first | rfl | trivial), by simp only [LogObj.step, logSpec, nextTab, nextBps]; rw [h1]⟩
  | posterior =>
    simp only [LogObj.step, nextTab, nextBps, logSpec, logPosterior]
    by_cases hb : o.backUpToDate = true
    · simp only [hb, if_true]
      refine ⟨⟨h1, h2⟩, (by first | rfl | trivial), (by first | rfl | trivial), ?_⟩
      rw [h2 hb, h1]
    · simp only [hb, if_false, Bool.false_eq_true]
      refine ⟨⟨h1, fun _ => rfl⟩, (by first | rfl | trivial), (by first | rfl | trivial), ?_⟩
      rw [h1]
  | posteriorInto buf append =>
    obtain ⟨r1, r2, r3, r4, r5⟩ := LogObj.refreshBack_spec o ⟨h1, h2⟩
    simp only [LogObj.step, nextTab, nextBps, logSpec, logPosterior]
    exact ⟨r1, r2, r3, by rw [r4, r5, r3]⟩
  | posteriorSite site =>
    obtain ⟨r1, r2, r3, r4, r5⟩ := LogObj.refreshBack_spec o ⟨h1, h2⟩
    simp only [LogObj.step, nextTab, nextBps, logSpec, logPosteriorSite]
    exact ⟨r1, r2, r3, by rw [r4, r5, r3]⟩
  | siteLik site =>
    obtain ⟨r1, r2, r3, r4, r5⟩ := LogObj.refreshBack_spec o ⟨h1, h2⟩
    simp only [LogObj.step, nextTab, nextBps, logSpec, logPosteriorSite]
    exact ⟨r1, r2, r3, by rw [r4, r5, r3]⟩
  | siteLiks =>
    obtain ⟨r1, r2, r3, r4, r5⟩ := LogObj.refreshBack_spec o ⟨h1, h2⟩
    simp only [LogObj.step, nextTab, nextBps, logSpec, logPosterior]
    exact ⟨r1, r2, r3, by rw [r4, r5, r3]⟩
  | d1 var => exact ⟨⟨h1, h2⟩, (by first | rfl | trivial), (by first | rfl | trivial), rfl⟩
  | d2 var => exact ⟨⟨h1, h2⟩, (by first | rfl | trivial), (by first | rfl | trivial), rfl⟩

theorem LogObj.run_spec (o : LogObj α) (hc : o.Consistent) (ops : List (Op α)) :
    o.run ops = logSpecRun o.tab o.bps ops := by
  induction ops generalizing o with
  | nil => rfl
  | cons op ops ih =>
    simp only [LogObj.run, logSpecRun]
    obtain ⟨hc', ht, hb, ha⟩ := LogObj.step_spec o hc op
    rw [ha, ih (o.step op).1 hc', ht, hb]

/-! ### low-memory class -/

def LowObj.run (o : LowObj α) : List (Op α) → List (Ans α)
  | [] => []
  | op :: ops => (o.step op).2 :: LowObj.run (o.step op).1 ops

def lowSpecRun (t : Tables α) (maxSize : Nat) (bps : List Nat) : List (Op α) → List (Ans α)
  | [] => []
  | op :: ops => lowSpec (nextTab t op) maxSize (nextBps bps op) op :: lowSpecRun (nextTab t op) maxSize (nextBps bps op) ops

theorem LowObj.run_spec (o : LowObj α) (hc : o.logLik = lowCompute o.tab o.maxSize o.bps) (hd0 : o.dVar = "") (hd20 : o.d2Var = "")
    (ops : List (Op α)) (hne : ∀ a ∈ o.run ops, a ≠ Ans.exc) (hvar : ∀ op ∈ ops, op ≠ Op.d1 "" ∧ op ≠ Op.d2 "") :
    o.run ops = lowSpecRun o.tab o.maxSize o.bps ops := by
  induction ops generalizing o with
  | nil => rfl
  | cons op ops ih =>
    have h0 := hne (o.step op).2 (by simp [LowObj.run])
    have hrest : ∀ a ∈ (o.step op).1.run ops, a ≠ Ans.exc := fun a h => hne a (by simp [LowObj.run, h])
    have hvar' : ∀ op' ∈ ops, op' ≠ Op.d1 "" ∧ op' ≠ Op.d2 "" := fun op' h => hvar op' (by simp [h])
    simp only [LowObj.run, lowSpecRun]
    cases op with
    | setTables t => rw [ih (o.step (.setTables t)).1 rfl hd0 hd20 hrest hvar']; rfl
    | setBreaks b => rw [ih (o.step (.setBreaks b)).1 rfl hd0 hd20 hrest hvar']; rfl
    | logLik =>
      rw [ih (o.step .logLik).1 hc hd0 hd20 hrest hvar']
      simp only [LowObj.step, lowSpec, nextTab, nextBps]; rw [hc]
    | posterior => exact absurd rfl h0
    | posteriorInto _ _ => exact absurd rfl h0
    | posteriorSite _ => exact absurd rfl h0
    | siteLik _ => exact absurd rfl h0
    | siteLiks => exact absurd rfl h0
    | d1 var =>
      -- a `d1` with a non-empty name raises (the name is stored, then NotImplementedException)
      have hv : var ≠ "" := fun h => (hvar (.d1 var) (by simp)).1 (by rw [h])
      have hb : (var != o.dVar) = true := by rw [hd0]; simp [hv]
      simp only [LowObj.step, hb, if_true] at h0
      exact absurd rfl h0
    | d2 var =>
      have hv : var ≠ "" := fun h => (hvar (.d2 var) (by simp)).2 (by rw [h])
      have hb : (var != o.d2Var) = true := by rw [hd20]; simp [hv]
      simp only [LowObj.step, hb, if_true] at h0
      exact absurd rfl h0

end Bpp.Hmm
