import BppModel.Hmm
/-!
Helper lemmas for C13: refinement of the cached likelihood objects (`Hmm.RescObj`, `Hmm.LogObj`,
`Hmm.LowObj`) to the cache-free specification.  Pure state-machine reasoning: generic over the
scalar type (no arithmetic fact is used), so the statements also hold for the `Float` instance.
-/
namespace Bpp.Hmm
open Bpp

variable {α : Type} [Scalar α]

/-- tables and break points after an operation -/
def nextTab (t : Tables α) : Op α → Tables α
  | .setTables t2 => t2
  | _ => t
def nextBps (bps : List Nat) : Op α → List Nat
  | .setBreaks b2 => b2
  | _ => bps

/-! ### rescaled class -/

def RescObj.run (o : RescObj α) : List (Op α) → List (Ans α)
  | [] => []
  | op :: ops => (o.step op).2 :: RescObj.run (o.step op).1 ops

/-- the reference: a fresh object is built from the current tables for every query; `dv`, `d2v` =
the variables of the last first / second order derivative asked since the last update -/
def rescSpecRun (t : Tables α) (bps : List Nat) (dv d2v : String) : List (Op α) → List (Ans α)
  | [] => []
  | op :: ops => rescSpec (nextTab t op) (nextBps bps op) dv d2v op
      :: rescSpecRun (nextTab t op) (nextBps bps op) (nextDv dv d2v op) (nextD2v d2v op) ops

/-- every cached field holds what `compute…_` would give for the current tables and break points -/
def RescObj.Consistent (o : RescObj α) : Prop :=
  o.fw = rescForward o.tab.p o.tab.e0 (mkSites o.tab.es o.bps)
  ∧ (o.backUpToDate = true → o.back = rescBackward o.tab.p o.tab.es o.fw.scales o.bps)
  ∧ (o.dVar ≠ "" → o.dfw = rescDForward o.tab.p o.tab.e0 o.tab.es (o.tab.dE o.dVar).1 (o.tab.dE o.dVar).2 o.bps o.fw)
  ∧ (o.d2Var ≠ "" → o.d2fw = rescD2Forward o.tab.p o.tab.e0 o.tab.es (o.tab.dE o.d2Var).1 (o.tab.dE o.d2Var).2
        (o.tab.d2E o.d2Var).1 (o.tab.d2E o.d2Var).2 o.bps o.fw
        (rescDForward o.tab.p o.tab.e0 o.tab.es (o.tab.dE o.d2Var).1 (o.tab.dE o.d2Var).2 o.bps o.fw))

theorem rescCompute_some (t : Tables α) (bps : List Nat) (fw : RescFwd α) (h : rescCompute t bps = some fw) :
    fw = rescForward t.p t.e0 (mkSites t.es bps) := by
  unfold rescCompute at h
  split at h
  · exact (Option.some.inj h).symm
  · cases h

theorem RescObj.build_consistent (t : Tables α) (o : RescObj α) (h : RescObj.build t = some o) :
    o.Consistent ∧ o.tab = t ∧ o.bps = [] ∧ o.dVar = "" ∧ o.d2Var = "" := by
  unfold RescObj.build at h
  cases hc : rescCompute t [] with
  | none => rw [hc] at h; cases h
  | some fw =>
    rw [hc] at h
    have := Option.some.inj h
    subst this
    exact ⟨⟨rescCompute_some t [] fw hc, by simp, by simp, by simp⟩, rfl, rfl, rfl, rfl⟩

theorem RescObj.refreshBack_spec (o : RescObj α) (hc : o.Consistent) :
    o.refreshBack.Consistent ∧ o.refreshBack.tab = o.tab ∧ o.refreshBack.bps = o.bps
      ∧ o.refreshBack.dVar = o.dVar ∧ o.refreshBack.d2Var = o.d2Var
      ∧ posteriorOf o.refreshBack.fw.lik o.refreshBack.back = rescPosterior o.tab.p o.tab.e0 o.tab.es o.bps := by
  obtain ⟨h1, h2, h3, h4⟩ := hc
  unfold RescObj.refreshBack
  by_cases hb : o.backUpToDate = true
  · simp only [hb, if_true]
    refine ⟨⟨h1, h2, h3, h4⟩, (by first | rfl | trivial), (by first | rfl | trivial), (by first | rfl | trivial), (by first | rfl | trivial), ?_⟩
    rw [h2 hb, h1]; rfl
  · simp only [hb, if_false, Bool.false_eq_true]
    refine ⟨⟨h1, fun _ => rfl, h3, h4⟩, (by first | rfl | trivial), (by first | rfl | trivial), (by first | rfl | trivial), (by first | rfl | trivial), ?_⟩
    simp only [rescPosterior]; rw [h1]

/-- the precondition of the per-site derivative accessors on the object -/
def namesOkAt (dv d2v : String) : Op α → Prop
  | .dSite _ => dv ≠ ""
  | .d2Site _ => dv ≠ "" ∧ d2v ≠ ""
  | _ => True

theorem RescObj.step_spec (o : RescObj α) (hc : o.Consistent) (op : Op α)
    (hne : (o.step op).2 ≠ .exc) (hvar : op ≠ .d1 "" ∧ op ≠ .d2 "") (hnm : namesOkAt o.dVar o.d2Var op) :
    (o.step op).1.Consistent ∧ (o.step op).1.tab = nextTab o.tab op ∧ (o.step op).1.bps = nextBps o.bps op
      ∧ (o.step op).1.dVar = nextDv o.dVar o.d2Var op ∧ (o.step op).1.d2Var = nextD2v o.d2Var op
      ∧ (o.step op).2 = rescSpec (nextTab o.tab op) (nextBps o.bps op) o.dVar o.d2Var op := by
  obtain ⟨h1, h2, h3, h4⟩ := hc
  cases op with
  | setTables t =>
    simp only [RescObj.step] at hne ⊢
    cases hcmp : rescCompute t o.bps with
    | none => rw [hcmp] at hne; exact absurd rfl hne
    | some fw =>
      have hfw := rescCompute_some t o.bps fw hcmp
      simp only [nextTab, nextBps, nextDv, nextD2v, rescSpec]
      refine ⟨⟨hfw, by simp, by simp, by simp⟩, (by first | rfl | trivial), (by first | rfl | trivial),
        (by first | rfl | trivial), (by first | rfl | trivial), by rw [hfw]⟩
  | setBreaks bps =>
    simp only [RescObj.step] at hne ⊢
    by_cases hok : breaksOk o.tab.T bps = true
    · simp only [hok, Bool.not_true, Bool.false_eq_true, if_false] at hne ⊢
      cases hcmp : rescCompute o.tab bps with
      | none => rw [hcmp] at hne; exact absurd rfl hne
      | some fw =>
        have hfw := rescCompute_some o.tab bps fw hcmp
        simp only [nextTab, nextBps, nextDv, nextD2v, rescSpec]
        refine ⟨⟨hfw, by simp, by simp, by simp⟩, (by first | rfl | trivial), (by first | rfl | trivial),
          (by first | rfl | trivial), (by first | rfl | trivial), by rw [hfw]⟩
    · have hok' : breaksOk o.tab.T bps = false := by simpa using hok
      simp only [hok', Bool.not_false, if_true] at hne
      exact absurd rfl hne
  | logLik =>
    simp only [RescObj.step, nextTab, nextBps, nextDv, nextD2v, rescSpec]
    exact ⟨⟨h1, h2, h3, h4⟩, (by first | rfl | trivial), (by first | rfl | trivial), (by first | rfl | trivial),
      (by first | rfl | trivial), by rw [h1]⟩
  | posterior =>
    simp only [RescObj.step, nextTab, nextBps, nextDv, nextD2v, rescSpec]
    by_cases hb : o.backUpToDate = true
    · simp only [hb, if_true]
      refine ⟨⟨h1, h2, h3, h4⟩, (by first | rfl | trivial), (by first | rfl | trivial), (by first | rfl | trivial),
        (by first | rfl | trivial), ?_⟩
      rw [h2 hb, h1]; rfl
    · simp only [hb, if_false, Bool.false_eq_true]
      refine ⟨⟨h1, fun _ => rfl, h3, h4⟩, (by first | rfl | trivial), (by first | rfl | trivial), (by first | rfl | trivial),
        (by first | rfl | trivial), ?_⟩
      simp only [rescPosterior]; rw [h1]
  | posteriorInto buf append =>
    obtain ⟨r1, r2, r3, r5, r6, r4⟩ := RescObj.refreshBack_spec o ⟨h1, h2, h3, h4⟩
    simp only [RescObj.step, nextTab, nextBps, nextDv, nextD2v, rescSpec]
    exact ⟨r1, r2, r3, r5, r6, by rw [r4]⟩
  | posteriorSite site =>
    obtain ⟨r1, r2, r3, r5, r6, r4⟩ := RescObj.refreshBack_spec o ⟨h1, h2, h3, h4⟩
    simp only [RescObj.step, nextTab, nextBps, nextDv, nextD2v, rescSpec]
    exact ⟨r1, r2, r3, r5, r6, by rw [r4]⟩
  | siteLik site =>
    obtain ⟨r1, r2, r3, r5, r6, r4⟩ := RescObj.refreshBack_spec o ⟨h1, h2, h3, h4⟩
    simp only [RescObj.step, nextTab, nextBps, nextDv, nextD2v, rescSpec]
    exact ⟨r1, r2, r3, r5, r6, by rw [r4]⟩
  | siteLiks =>
    obtain ⟨r1, r2, r3, r5, r6, r4⟩ := RescObj.refreshBack_spec o ⟨h1, h2, h3, h4⟩
    simp only [RescObj.step, nextTab, nextBps, nextDv, nextD2v, rescSpec]
    exact ⟨r1, r2, r3, r5, r6, by rw [r4]⟩
  | d1 var =>
    have hv : var ≠ "" := fun h => hvar.1 (by rw [h])
    simp only [RescObj.step, nextTab, nextBps, nextDv, nextD2v, rescSpec]
    by_cases hd : var = o.dVar
    · have : (var != o.dVar) = false := by simp [hd]
      simp only [this, Bool.false_eq_true, if_false]
      refine ⟨⟨h1, h2, h3, h4⟩, (by first | rfl | trivial), (by first | rfl | trivial), hd.symm, (by first | rfl | trivial), ?_⟩
      rw [h3 (hd ▸ hv), ← hd, h1]
    · have : (var != o.dVar) = true := by simp [hd]
      simp only [this, if_true]
      refine ⟨⟨h1, h2, fun _ => rfl, h4⟩, (by first | rfl | trivial), (by first | rfl | trivial), (by first | rfl | trivial),
        (by first | rfl | trivial), ?_⟩
      rw [h1]
  | d2 var =>
    have hv : var ≠ "" := fun h => hvar.2 (by rw [h])
    simp only [RescObj.step, nextTab, nextBps, nextDv, nextD2v, rescSpec]
    by_cases hd2 : var = o.d2Var
    · have : (var != o.d2Var) = false := by simp [hd2]
      simp only [this, Bool.false_eq_true, if_false]
      refine ⟨⟨h1, h2, h3, h4⟩, (by first | rfl | trivial), (by first | rfl | trivial), (by first | rfl | trivial), hd2.symm, ?_⟩
      rw [h4 (hd2 ▸ hv), ← hd2, h1]
    · have hb2 : (var != o.d2Var) = true := by simp [hd2]
      simp only [hb2, if_true]
      by_cases hd : var = o.dVar
      · have hb1 : (var != o.dVar) = false := by simp [hd]
        simp only [hb1, Bool.false_eq_true, if_false]
        have hdfw := h3 (hd ▸ hv)
        rw [← hd] at hdfw
        refine ⟨⟨h1, h2, h3, fun _ => ?_⟩, (by first | rfl | trivial), (by first | rfl | trivial), hd.symm, (by first | rfl | trivial), ?_⟩
        · simp only; rw [hdfw]
        · rw [hdfw, h1]
      · have hb1 : (var != o.dVar) = true := by simp [hd]
        simp only [hb1, if_true]
        refine ⟨⟨h1, h2, fun _ => rfl, fun _ => rfl⟩, (by first | rfl | trivial), (by first | rfl | trivial),
          (by first | rfl | trivial), (by first | rfl | trivial), ?_⟩
        rw [h1]
  | dSite site =>
    have hdv : o.dVar ≠ "" := hnm
    simp only [RescObj.step, nextTab, nextBps, nextDv, nextD2v, rescSpec]
    refine ⟨⟨h1, h2, h3, h4⟩, (by first | rfl | trivial), (by first | rfl | trivial), (by first | rfl | trivial),
      (by first | rfl | trivial), ?_⟩
    rw [h3 hdv, h1]
  | d2Site site =>
    have hdv : o.dVar ≠ "" := hnm.1
    have hd2v : o.d2Var ≠ "" := hnm.2
    simp only [RescObj.step, nextTab, nextBps, nextDv, nextD2v, rescSpec]
    refine ⟨⟨h1, h2, h3, h4⟩, (by first | rfl | trivial), (by first | rfl | trivial), (by first | rfl | trivial),
      (by first | rfl | trivial), ?_⟩
    rw [h4 hd2v, h3 hdv, h1]

theorem derivNamesOk_cons (dv d2v : String) (op : Op α) (ops : List (Op α)) (h : derivNamesOk dv d2v (op :: ops) = true) :
    namesOkAt dv d2v op ∧ derivNamesOk (nextDv dv d2v op) (nextD2v d2v op) ops = true := by
  simp only [derivNamesOk, Bool.and_eq_true] at h
  refine ⟨?_, h.2⟩
  have h1 := h.1
  cases op <;> simp_all [namesOkAt]

theorem RescObj.run_spec (o : RescObj α) (hc : o.Consistent) (ops : List (Op α))
    (hne : ∀ a ∈ o.run ops, a ≠ Ans.exc) (hvar : ∀ op ∈ ops, op ≠ Op.d1 "" ∧ op ≠ Op.d2 "")
    (hnm : derivNamesOk o.dVar o.d2Var ops = true) :
    o.run ops = rescSpecRun o.tab o.bps o.dVar o.d2Var ops := by
  induction ops generalizing o with
  | nil => rfl
  | cons op ops ih =>
    simp only [RescObj.run, rescSpecRun]
    obtain ⟨hn1, hn2⟩ := derivNamesOk_cons _ _ op ops hnm
    have hs := RescObj.step_spec o hc op (hne _ (by simp [RescObj.run])) (hvar op (by simp)) hn1
    obtain ⟨hc', ht, hb, hdv, hd2v, ha⟩ := hs
    rw [ha, ih (o.step op).1 hc' (fun a h => hne a (by simp [RescObj.run, h])) (fun op' h => hvar op' (by simp [h]))
      (by rw [hdv, hd2v]; exact hn2), ht, hb, hdv, hd2v]

/-! ### log-sum class -/

section LogSum
variable [HasIsInf α]

def LogObj.run (o : LogObj α) : List (Op α) → List (Ans α)
  | [] => []
  | op :: ops => (o.step op).2 :: LogObj.run (o.step op).1 ops

def logSpecRun (t : Tables α) (bps : List Nat) (dv d2v : String) : List (Op α) → List (Ans α)
  | [] => []
  | op :: ops => logSpec (nextTab t op) (nextBps bps op) dv d2v op
      :: logSpecRun (nextTab t op) (nextBps bps op) (nextDv dv d2v op) (nextD2v d2v op) ops

def LogObj.Consistent (o : LogObj α) : Prop :=
  o.fw = logCompute o.tab o.bps
  ∧ (o.backUpToDate = true → o.back = logBackward o.tab.p o.tab.es o.bps)
  ∧ (o.dVar ≠ "" → logDForward o.tab.p o.tab.e0 o.tab.es (o.tab.dE o.dVar).1 (o.tab.dE o.dVar).2 o.bps o.fw = some o.dfw)
  ∧ (o.d2Var ≠ "" → ∃ d, logDForward o.tab.p o.tab.e0 o.tab.es (o.tab.dE o.d2Var).1 (o.tab.dE o.d2Var).2 o.bps o.fw = some d
        ∧ logD2Forward o.tab.p o.tab.e0 o.tab.es (o.tab.dE o.d2Var).1 (o.tab.dE o.d2Var).2
            (o.tab.d2E o.d2Var).1 (o.tab.d2E o.d2Var).2 o.bps o.fw d = some o.d2fw)

theorem LogObj.build_consistent (t : Tables α) :
    (LogObj.build t).Consistent ∧ (LogObj.build t).tab = t ∧ (LogObj.build t).bps = []
      ∧ (LogObj.build t).dVar = "" ∧ (LogObj.build t).d2Var = "" :=
  ⟨⟨rfl, by simp [LogObj.build], by simp [LogObj.build], by simp [LogObj.build]⟩, rfl, rfl, rfl, rfl⟩

theorem LogObj.refreshBack_spec (o : LogObj α) (hc : o.Consistent) :
    o.refreshBack.Consistent ∧ o.refreshBack.tab = o.tab ∧ o.refreshBack.bps = o.bps
      ∧ o.refreshBack.dVar = o.dVar ∧ o.refreshBack.d2Var = o.d2Var
      ∧ o.refreshBack.fw = logCompute o.tab o.bps ∧ o.refreshBack.back = logBackward o.tab.p o.tab.es o.bps := by
  obtain ⟨h1, h2, h3, h4⟩ := hc
  unfold LogObj.refreshBack
  by_cases hb : o.backUpToDate = true
  · simp only [hb, if_true]
    exact ⟨⟨h1, h2, h3, h4⟩, (by first | rfl | trivial), (by first | rfl | trivial), (by first | rfl | trivial),
      (by first | rfl | trivial), h1, h2 hb⟩
  · simp only [hb, if_false, Bool.false_eq_true]
    exact ⟨⟨h1, fun _ => rfl, h3, h4⟩, (by first | rfl | trivial), (by first | rfl | trivial), (by first | rfl | trivial),
      (by first | rfl | trivial), h1, (by first | rfl | trivial)⟩

/-- the part of the invariant `getFirstOrderDerivative` depends on -/
def LogObj.Consistent1 (o : LogObj α) : Prop :=
  o.fw = logCompute o.tab o.bps
  ∧ (o.backUpToDate = true → o.back = logBackward o.tab.p o.tab.es o.bps)
  ∧ (o.dVar ≠ "" → logDForward o.tab.p o.tab.e0 o.tab.es (o.tab.dE o.dVar).1 (o.tab.dE o.dVar).2 o.bps o.fw = some o.dfw)

/-- `getFirstOrderDerivative` when it does not raise -/
theorem LogObj.firstOrder_spec (o : LogObj α) (hc : o.Consistent1) (var : String) (hv : var ≠ "")
    (hne : (o.firstOrder var).2 ≠ none) :
    (o.firstOrder var).1.Consistent1 ∧ (o.firstOrder var).1.tab = o.tab ∧ (o.firstOrder var).1.bps = o.bps
      ∧ (o.firstOrder var).1.fw = o.fw
      ∧ (o.firstOrder var).1.dVar = var ∧ (o.firstOrder var).1.d2Var = o.d2Var ∧ (o.firstOrder var).1.d2fw = o.d2fw
      ∧ logDForward o.tab.p o.tab.e0 o.tab.es (o.tab.dE var).1 (o.tab.dE var).2 o.bps o.fw = some (o.firstOrder var).1.dfw
      ∧ (o.firstOrder var).2 = some (-(o.firstOrder var).1.dfw.dLogLik) := by
  obtain ⟨h1, h2, h3⟩ := hc
  unfold LogObj.firstOrder at hne ⊢
  by_cases hd : var = o.dVar
  · have hb : (var != o.dVar) = false := by simp [hd]
    simp only [hb, Bool.false_eq_true, if_false]
    have := h3 (hd ▸ hv)
    exact ⟨⟨h1, h2, h3⟩, (by first | rfl | trivial), (by first | rfl | trivial), (by first | rfl | trivial), hd.symm, (by first | rfl | trivial), (by first | rfl | trivial), by rw [hd]; exact this, (by first | rfl | trivial)⟩
  · have hb : (var != o.dVar) = true := by simp [hd]
    simp only [hb, if_true] at hne ⊢
    cases hcmp : logDForward o.tab.p o.tab.e0 o.tab.es (o.tab.dE var).1 (o.tab.dE var).2 o.bps o.fw with
    | none => rw [hcmp] at hne; exact absurd rfl hne
    | some d => exact ⟨⟨h1, h2, fun _ => hcmp⟩, rfl, rfl, rfl, rfl, rfl, rfl, rfl, rfl⟩

theorem LogObj.step_spec (o : LogObj α) (hc : o.Consistent) (op : Op α)
    (hne : (o.step op).2 ≠ .exc) (hvar : op ≠ .d1 "" ∧ op ≠ .d2 "") (hnm : namesOkAt o.dVar o.d2Var op) :
    (o.step op).1.Consistent ∧ (o.step op).1.tab = nextTab o.tab op ∧ (o.step op).1.bps = nextBps o.bps op
      ∧ (o.step op).1.dVar = nextDv o.dVar o.d2Var op ∧ (o.step op).1.d2Var = nextD2v o.d2Var op
      ∧ (o.step op).2 = logSpec (nextTab o.tab op) (nextBps o.bps op) o.dVar o.d2Var op := by
  have hc0 := hc
  obtain ⟨h1, h2, h3, h4⟩ := hc
  cases op with
  | setTables t =>
    exact ⟨⟨rfl, by simp [LogObj.step], by simp [LogObj.step], by simp [LogObj.step]⟩, rfl, rfl, rfl, rfl, rfl⟩
  | setBreaks bps =>
    simp only [LogObj.step] at hne ⊢
    by_cases hok : breaksOk o.tab.T bps = true
    · simp only [hok, Bool.not_true, Bool.false_eq_true, if_false]
      exact ⟨⟨rfl, by simp, by simp, by simp⟩, rfl, rfl, rfl, rfl, rfl⟩
    · have hok' : breaksOk o.tab.T bps = false := by simpa using hok
      simp only [hok', Bool.not_false, if_true] at hne
      exact absurd rfl hne
  | logLik =>
    exact ⟨⟨h1, h2, h3, h4⟩, rfl, rfl, rfl, rfl, by simp only [LogObj.step, logSpec, nextTab, nextBps]; rw [h1]⟩
  | posterior =>
    simp only [LogObj.step, nextTab, nextBps, nextDv, nextD2v, logSpec, logPosterior]
    by_cases hb : o.backUpToDate = true
    · simp only [hb, if_true]
      refine ⟨⟨h1, h2, h3, h4⟩, (by first | rfl | trivial), (by first | rfl | trivial), (by first | rfl | trivial),
        (by first | rfl | trivial), ?_⟩
      rw [h2 hb, h1]
    · simp only [hb, if_false, Bool.false_eq_true]
      refine ⟨⟨h1, fun _ => rfl, h3, h4⟩, (by first | rfl | trivial), (by first | rfl | trivial), (by first | rfl | trivial),
        (by first | rfl | trivial), ?_⟩
      rw [h1]
  | posteriorInto buf append =>
    obtain ⟨r1, r2, r3, r6, r7, r4, r5⟩ := LogObj.refreshBack_spec o hc0
    simp only [LogObj.step, nextTab, nextBps, nextDv, nextD2v, logSpec, logPosterior]
    exact ⟨r1, r2, r3, r6, r7, by rw [r4, r5, r3]⟩
  | posteriorSite site =>
    obtain ⟨r1, r2, r3, r6, r7, r4, r5⟩ := LogObj.refreshBack_spec o hc0
    simp only [LogObj.step, nextTab, nextBps, nextDv, nextD2v, logSpec, logPosteriorSite]
    exact ⟨r1, r2, r3, r6, r7, by rw [r4, r5, r3]⟩
  | siteLik site =>
    obtain ⟨r1, r2, r3, r6, r7, r4, r5⟩ := LogObj.refreshBack_spec o hc0
    simp only [LogObj.step, nextTab, nextBps, nextDv, nextD2v, logSpec, logPosteriorSite]
    exact ⟨r1, r2, r3, r6, r7, by rw [r4, r5, r3]⟩
  | siteLiks =>
    obtain ⟨r1, r2, r3, r6, r7, r4, r5⟩ := LogObj.refreshBack_spec o hc0
    simp only [LogObj.step, nextTab, nextBps, nextDv, nextD2v, logSpec, logPosterior]
    exact ⟨r1, r2, r3, r6, r7, by rw [r4, r5, r3]⟩
  | d1 var =>
    have hv : var ≠ "" := fun h => hvar.1 (by rw [h])
    have hne' : (o.firstOrder var).2 ≠ none := by
      intro h; apply hne; simp only [LogObj.step, h]
    obtain ⟨⟨c1, c2, c3⟩, f2, f3, f4, f5, f6, f6', f7, f8⟩ := LogObj.firstOrder_spec o ⟨h1, h2, h3⟩ var hv hne'
    simp only [LogObj.step, nextTab, nextBps, nextDv, nextD2v, logSpec]
    refine ⟨⟨c1, c2, c3, ?_⟩, f2, f3, f5, f6, ?_⟩
    · rw [f6, f2, f3, f4, f6']; exact h4
    · rw [f8, ← h1, f7]
  | d2 var =>
    have hv : var ≠ "" := fun h => hvar.2 (by rw [h])
    simp only [LogObj.step, nextTab, nextBps, nextDv, nextD2v, logSpec] at hne ⊢
    by_cases hd2 : var = o.d2Var
    · have hb : (var != o.d2Var) = false := by simp [hd2]
      simp only [hb, Bool.false_eq_true, if_false]
      obtain ⟨d, hd, hdd⟩ := h4 (hd2 ▸ hv)
      refine ⟨⟨h1, h2, h3, h4⟩, (by first | rfl | trivial), (by first | rfl | trivial), (by first | rfl | trivial), hd2.symm, ?_⟩
      rw [← h1, hd2, hd]; simp only; rw [hdd]
    · have hb : (var != o.d2Var) = true := by simp [hd2]
      simp only [hb, if_true] at hne ⊢
      have hc1 : ({ o with d2Var := var } : LogObj α).Consistent1 := ⟨h1, h2, h3⟩
      have hne' : (({ o with d2Var := var } : LogObj α).firstOrder var).2 ≠ none := by
        intro h; apply hne; rw [h]
      obtain ⟨⟨c1, c2, c3⟩, f2, f3, f4, f5, f6, f6', f7, f8⟩ := LogObj.firstOrder_spec _ hc1 var hv hne'
      simp only at f2 f3 f4 f6 f7
      generalize (({ o with d2Var := var } : LogObj α).firstOrder var) = r at c1 c2 c3 f2 f3 f4 f5 f6 f7 f8 hne ⊢
      obtain ⟨⟨tab1, bps1, fw1, back1, bu1, dv1, dfw1, d2v1, d2fw1⟩, a⟩ := r
      simp only at c1 c2 c3 f2 f3 f4 f5 f6 f7 f8 hne ⊢
      subst f8 f2 f3 f4 f5 f6
      simp only at hne ⊢
      cases hcmp : logD2Forward o.tab.p o.tab.e0 o.tab.es (o.tab.dE d2v1).1 (o.tab.dE d2v1).2 (o.tab.d2E d2v1).1 (o.tab.d2E d2v1).2 o.bps o.fw dfw1 with
      | none => rw [hcmp] at hne; exact absurd rfl hne
      | some d2 =>
        refine ⟨⟨c1, c2, c3, fun _ => ⟨_, f7, hcmp⟩⟩, (by first | rfl | trivial), (by first | rfl | trivial),
          (by first | rfl | trivial), (by first | rfl | trivial), ?_⟩
        rw [← h1, f7]; simp only; rw [hcmp]
  | dSite site =>
    have hdv : o.dVar ≠ "" := hnm
    simp only [LogObj.step, nextTab, nextBps, nextDv, nextD2v, logSpec]
    refine ⟨⟨h1, h2, h3, h4⟩, (by first | rfl | trivial), (by first | rfl | trivial), (by first | rfl | trivial),
      (by first | rfl | trivial), ?_⟩
    rw [← h1, h3 hdv]
  | d2Site site =>
    have hdv : o.dVar ≠ "" := hnm.1
    have hd2v : o.d2Var ≠ "" := hnm.2
    obtain ⟨d, hd, hdd⟩ := h4 hd2v
    simp only [LogObj.step, nextTab, nextBps, nextDv, nextD2v, logSpec]
    refine ⟨⟨h1, h2, h3, h4⟩, (by first | rfl | trivial), (by first | rfl | trivial), (by first | rfl | trivial),
      (by first | rfl | trivial), ?_⟩
    rw [← h1, hd, h3 hdv]; simp only; rw [hdd]

theorem LogObj.run_spec (o : LogObj α) (hc : o.Consistent) (ops : List (Op α))
    (hne : ∀ a ∈ o.run ops, a ≠ Ans.exc) (hvar : ∀ op ∈ ops, op ≠ Op.d1 "" ∧ op ≠ Op.d2 "")
    (hnm : derivNamesOk o.dVar o.d2Var ops = true) :
    o.run ops = logSpecRun o.tab o.bps o.dVar o.d2Var ops := by
  induction ops generalizing o with
  | nil => rfl
  | cons op ops ih =>
    simp only [LogObj.run, logSpecRun]
    obtain ⟨hn1, hn2⟩ := derivNamesOk_cons _ _ op ops hnm
    obtain ⟨hc', ht, hb, hdv, hd2v, ha⟩ := LogObj.step_spec o hc op (hne _ (by simp [LogObj.run])) (hvar op (by simp)) hn1
    rw [ha, ih (o.step op).1 hc' (fun a h => hne a (by simp [LogObj.run, h])) (fun op' h => hvar op' (by simp [h]))
      (by rw [hdv, hd2v]; exact hn2), ht, hb, hdv, hd2v]

end LogSum

/-! ### the `append` option of the all-sites posterior accessor -/

theorem RescObj.posteriorInto_of_posterior (o : RescObj α) (buf : List (List α)) (append : Bool) (m : List (List α))
    (h : (o.step .posterior).2 = .mat m) :
    (o.step (.posteriorInto buf append)).2 = .mat ((if append then buf else []) ++ m) := by
  have h1 : (o.step .posterior).2 = .mat (posteriorOf o.refreshBack.fw.lik o.refreshBack.back) := rfl
  have h2 : (o.step (.posteriorInto buf append)).2
      = .mat ((if append then buf else []) ++ posteriorOf o.refreshBack.fw.lik o.refreshBack.back) := rfl
  rw [h1] at h
  rw [h2, Ans.mat.inj h]

theorem LogObj.posteriorInto_of_posterior [HasIsInf α] (o : LogObj α) (buf : List (List α)) (append : Bool)
    (m : List (List α)) (h : (o.step .posterior).2 = .mat m) :
    (o.step (.posteriorInto buf append)).2 = .mat ((if append then buf else []) ++ m) := by
  have h1 : (o.step .posterior).2 = (match logPosteriorOf o.refreshBack.fw o.refreshBack.back o.refreshBack.bps with
      | some m => Ans.mat m | none => Ans.ub) := rfl
  have h2 : (o.step (.posteriorInto buf append)).2
      = (match logPosteriorOf o.refreshBack.fw o.refreshBack.back o.refreshBack.bps with
          | some m => Ans.mat ((if append then buf else []) ++ m) | none => Ans.ub) := rfl
  rw [h1] at h
  rw [h2]
  cases hp : logPosteriorOf o.refreshBack.fw o.refreshBack.back o.refreshBack.bps with
  | none => rw [hp] at h; cases h
  | some m' => rw [hp] at h; rw [Ans.mat.inj h]

/-! ### low-memory class -/

def LowObj.run (o : LowObj α) : List (Op α) → List (Ans α)
  | [] => []
  | op :: ops => (o.step op).2 :: LowObj.run (o.step op).1 ops

def lowSpecRun (t : Tables α) (maxSize : Nat) (bps : List Nat) : List (Op α) → List (Ans α)
  | [] => []
  | op :: ops => lowSpec (nextTab t op) maxSize (nextBps bps op) op :: lowSpecRun (nextTab t op) maxSize (nextBps bps op) ops

theorem LowObj.run_spec (o : LowObj α) (hc : o.logLik = lowCompute o.tab o.maxSize o.bps) (hd0 : o.dVar = "") (hd20 : o.d2Var = "")
    (ops : List (Op α)) (hne : ∀ a ∈ o.run ops, a ≠ Ans.exc) (hvar : ∀ op ∈ ops, op ≠ Op.d1 "" ∧ op ≠ Op.d2 "") :
    o.run ops = lowSpecRun o.tab o.maxSize o.bps ops := by
  induction ops generalizing o with
  | nil => rfl
  | cons op ops ih =>
    have h0 := hne (o.step op).2 (by simp [LowObj.run])
    have hrest : ∀ a ∈ (o.step op).1.run ops, a ≠ Ans.exc := fun a h => hne a (by simp [LowObj.run, h])
    have hvar' : ∀ op' ∈ ops, op' ≠ Op.d1 "" ∧ op' ≠ Op.d2 "" := fun op' h => hvar op' (by simp [h])
    simp only [LowObj.run, lowSpecRun]
    cases op with
    | setTables t => rw [ih (o.step (.setTables t)).1 rfl hd0 hd20 hrest hvar']; rfl
    | setBreaks b =>
      by_cases hok : breaksOk o.tab.T b = true
      · have hst : o.step (.setBreaks b) = ({ o with bps := b, logLik := lowCompute o.tab o.maxSize b }, .val (lowCompute o.tab o.maxSize b)) := by
          simp only [LowObj.step, hok, Bool.not_true, Bool.false_eq_true, if_false]
        rw [hst] at hrest ⊢
        rw [ih ({ o with bps := b, logLik := lowCompute o.tab o.maxSize b } : LowObj α) rfl hd0 hd20 hrest hvar']; rfl
      · have hok' : breaksOk o.tab.T b = false := by simpa using hok
        simp only [LowObj.step, hok', Bool.not_false, if_true] at h0
        exact absurd rfl h0
    | logLik =>
      rw [ih (o.step .logLik).1 hc hd0 hd20 hrest hvar']
      simp only [LowObj.step, lowSpec, nextTab, nextBps]; rw [hc]
    | posterior => exact absurd rfl h0
    | posteriorInto _ _ => exact absurd rfl h0
    | posteriorSite _ => exact absurd rfl h0
    | siteLik _ => exact absurd rfl h0
    | siteLiks => exact absurd rfl h0
    | dSite _ => exact absurd rfl h0
    | d2Site _ => exact absurd rfl h0
    | d1 var => exact absurd rfl h0
    | d2 var => exact absurd rfl h0

/-! every history of the low-memory class, raising calls included: they answer `exc` and change nothing -/

/-- break points after an operation: a refused vector changes nothing -/
def lowNextBps (T : Nat) (bps : List Nat) : Op α → List Nat
  | .setBreaks b => if breaksOk T b then b else bps
  | _ => bps

/-- the answer of a fresh object, a refused `setBreakPoints` included -/
def lowSpecAll (t : Tables α) (maxSize : Nat) (bps : List Nat) (op : Op α) : Ans α :=
  match op with
  | .setBreaks b => if breaksOk t.T b then .val (lowCompute t maxSize b) else .exc
  | _ => lowSpec (nextTab t op) maxSize bps op

def lowSpecRunAll (t : Tables α) (maxSize : Nat) (bps : List Nat) : List (Op α) → List (Ans α)
  | [] => []
  | op :: ops => lowSpecAll t maxSize bps op :: lowSpecRunAll (nextTab t op) maxSize (lowNextBps t.T bps op) ops

theorem LowObj.step_all (o : LowObj α) (hc : o.logLik = lowCompute o.tab o.maxSize o.bps) (op : Op α) :
    (o.step op).2 = lowSpecAll o.tab o.maxSize o.bps op
      ∧ (o.step op).1.tab = nextTab o.tab op ∧ (o.step op).1.bps = lowNextBps o.tab.T o.bps op
      ∧ (o.step op).1.maxSize = o.maxSize
      ∧ (o.step op).1.logLik = lowCompute (o.step op).1.tab (o.step op).1.maxSize (o.step op).1.bps := by
  cases op with
  | setTables t => exact ⟨rfl, rfl, rfl, rfl, rfl⟩
  | setBreaks b =>
    by_cases hok : breaksOk o.tab.T b = true
    · have hst : o.step (.setBreaks b) = ({ o with bps := b, logLik := lowCompute o.tab o.maxSize b }, .val (lowCompute o.tab o.maxSize b)) := by
        simp only [LowObj.step, hok, Bool.not_true, Bool.false_eq_true, if_false]
      rw [hst]
      refine ⟨by simp only [lowSpecAll, hok, if_true], rfl, by simp only [lowNextBps, hok, if_true], rfl, rfl⟩
    · have hok' : breaksOk o.tab.T b = false := by simpa using hok
      have hst : o.step (.setBreaks b) = (o, .exc) := by simp only [LowObj.step, hok', Bool.not_false, if_true]
      rw [hst]
      refine ⟨by simp only [lowSpecAll, hok', Bool.false_eq_true, if_false], rfl, by simp only [lowNextBps, hok', Bool.false_eq_true, if_false], rfl, hc⟩
  | logLik => exact ⟨by simp only [LowObj.step, lowSpecAll, lowSpec, nextTab]; rw [hc], rfl, rfl, rfl, hc⟩
  | posterior => exact ⟨rfl, rfl, rfl, rfl, hc⟩
  | posteriorInto _ _ => exact ⟨rfl, rfl, rfl, rfl, hc⟩
  | posteriorSite _ => exact ⟨rfl, rfl, rfl, rfl, hc⟩
  | siteLik _ => exact ⟨rfl, rfl, rfl, rfl, hc⟩
  | siteLiks => exact ⟨rfl, rfl, rfl, rfl, hc⟩
  | d1 _ => exact ⟨rfl, rfl, rfl, rfl, hc⟩
  | d2 _ => exact ⟨rfl, rfl, rfl, rfl, hc⟩
  | dSite _ => exact ⟨rfl, rfl, rfl, rfl, hc⟩
  | d2Site _ => exact ⟨rfl, rfl, rfl, rfl, hc⟩

theorem LowObj.run_spec_all (o : LowObj α) (hc : o.logLik = lowCompute o.tab o.maxSize o.bps) (ops : List (Op α)) :
    o.run ops = lowSpecRunAll o.tab o.maxSize o.bps ops := by
  induction ops generalizing o with
  | nil => rfl
  | cons op ops ih =>
    obtain ⟨h1, h2, h3, h4, h5⟩ := LowObj.step_all o hc op
    simp only [LowObj.run, lowSpecRunAll]
    rw [h1, ih _ h5, h2, h3, h4]

end Bpp.Hmm
