import BppModel.LUStore
import BppProofs.Lemmas.MatrixOps
/-!
Helper lemmas for C05, storage level: loops of `BppModel/LUStore.lean`, the `Is` view of a store,
row-wise in-place updates.  Everything here holds for any scalar type (no arithmetic is used).
-/
namespace Bpp.LUS
open Bpp Bpp.Mx Bpp.LU

section Loops
variable {σ τ : Type}

theorem loop_inv (P : Nat → σ → Prop) (n : Nat) (f : Nat → σ → Res σ) (s : σ) (h0 : P 0 s)
    (hstep : ∀ k t, k < n → P k t → ∃ t', f k t = .ok t' ∧ P (k + 1) t') :
    ∃ t, loop n f s = .ok t ∧ P n t := by
  induction n with
  | zero => exact ⟨s, rfl, h0⟩
  | succ n ih =>
    obtain ⟨t, ht, hp⟩ := ih (fun k t hk => hstep k t (by omega))
    obtain ⟨t', ht', hp'⟩ := hstep n t (by omega) hp
    exact ⟨t', by simp only [loop, ht, ht'], hp'⟩

theorem loopFrom_zero (n : Nat) (f : Nat → σ → Res σ) (s : σ) : loopFrom 0 n f s = loop n f s := by
  simp [loopFrom]

theorem loopFrom_inv (P : Nat → σ → Prop) (lo hi : Nat) (hle : lo ≤ hi) (f : Nat → σ → Res σ) (s : σ) (h0 : P lo s)
    (hstep : ∀ k t, lo ≤ k → k < hi → P k t → ∃ t', f k t = .ok t' ∧ P (k + 1) t') :
    ∃ t, loopFrom lo hi f s = .ok t ∧ P hi t := by
  have := loop_inv (fun t s => P (lo + t) s) (hi - lo) (fun t => f (lo + t)) s h0
    (fun k t hk hp => hstep (lo + k) t (by omega) (by omega) hp)
  obtain ⟨t, h1, h2⟩ := this
  refine ⟨t, h1, ?_⟩
  have e : lo + (hi - lo) = hi := by omega
  rwa [e] at h2

/-- a `loop` and a `Fin.foldl` that proceed in lock step -/
theorem loop_foldl (R : σ → τ → Prop) :
    ∀ (n : Nat) (f : Nat → σ → Res σ) (g : τ → Fin n → τ) (s : σ) (t : τ), R s t →
      (∀ (k : Fin n) s t, R s t → ∃ s', f k.val s = .ok s' ∧ R s' (g t k)) →
      ∃ s', loop n f s = .ok s' ∧ R s' (Fin.foldl n g t) := by
  intro n
  induction n with
  | zero => intro f g s t h0 _; exact ⟨s, rfl, by simpa using h0⟩
  | succ n ih =>
    intro f g s t h0 hstep
    rw [Fin.foldl_succ_last]
    obtain ⟨s1, e1, r1⟩ := ih f (fun t k => g t k.castSucc) s t h0 (fun k s t h => hstep k.castSucc s t h)
    obtain ⟨s2, e2, r2⟩ := hstep (Fin.last n) s1 _ r1
    exact ⟨s2, by simp only [loop, e1]; exact e2, r2⟩

/-- a `for (i = lo; i < n; i++)` loop and a `Fin.foldl` over all of `0..n-1` that does nothing below `lo` -/
theorem loopFrom_foldl (R : σ → τ → Prop) (lo : Nat) :
    ∀ (n : Nat), lo ≤ n → ∀ (f : Nat → σ → Res σ) (g : τ → Fin n → τ) (s : σ) (t : τ), R s t →
      (∀ (i : Fin n) t, i.val < lo → g t i = t) →
      (∀ (i : Fin n) s t, lo ≤ i.val → R s t → ∃ s', f i.val s = .ok s' ∧ R s' (g t i)) →
      ∃ s', loopFrom lo n f s = .ok s' ∧ R s' (Fin.foldl n g t) := by
  intro n
  induction n with
  | zero =>
    intro hle f g s t h0 _ _
    have : lo = 0 := by omega
    subst this
    exact ⟨s, rfl, by simpa using h0⟩
  | succ n ih =>
    intro hle f g s t h0 hskip hstep
    rw [Fin.foldl_succ_last]
    by_cases hlo : lo ≤ n
    · obtain ⟨s1, e1, r1⟩ := ih hlo f (fun t k => g t k.castSucc) s t h0
        (fun i t hi => hskip i.castSucc t hi) (fun i s t hi h => hstep i.castSucc s t hi h)
      obtain ⟨s2, e2, r2⟩ := hstep (Fin.last n) s1 _ (by simpa using hlo) r1
      refine ⟨s2, ?_, r2⟩
      have e : n + 1 - lo = (n - lo) + 1 := by omega
      unfold loopFrom at e1 ⊢
      rw [e]
      simp only [loop, e1]
      have e' : lo + (n - lo) = n := by omega
      rw [e']
      exact e2
    · have hlo' : lo = n + 1 := by omega
      refine ⟨s, by simp [loopFrom, hlo', loop], ?_⟩
      rw [hskip (Fin.last n) _ (by simp; omega)]
      have hall : ∀ (k : Nat) (hk : k ≤ n) (g' : τ → Fin k → τ), (∀ i t, g' t i = t) → Fin.foldl k g' t = t := by
        intro k _ g' hg'
        induction k with
        | zero => simp
        | succ k ihk => rw [Fin.foldl_succ_last, hg']; exact ihk (by omega) _ (fun i t => hg' _ _)
      rw [hall n (Nat.le_refl n) _ (fun i t => hskip i.castSucc t (by simp; omega))]
      exact h0

/-- a downward `do { k--; … } while (k > 0)` loop (iteration `t` handles `k = n-1-t`) and a `Fin.foldr` -/
theorem loop_foldr (R : σ → τ → Prop) :
    ∀ (n : Nat) (f : Nat → σ → Res σ) (g : Fin n → τ → τ) (s : σ) (t : τ), R s t →
      (∀ (k : Fin n) s t, R s t → ∃ s', f (n - 1 - k.val) s = .ok s' ∧ R s' (g k t)) →
      ∃ s', loop n f s = .ok s' ∧ R s' (Fin.foldr n g t) := by
  intro n
  induction n with
  | zero => intro f g s t h0 _; exact ⟨s, rfl, by simpa using h0⟩
  | succ n ih =>
    intro f g s t h0 hstep
    rw [Fin.foldr_succ]
    obtain ⟨s1, e1, r1⟩ := ih f (fun k t => g k.succ t) s t h0 (fun k s t h => by
      have := hstep k.succ s t h
      have e : n + 1 - 1 - k.succ.val = n - 1 - k.val := by simp; omega
      rwa [e] at this)
    obtain ⟨s2, e2, r2⟩ := hstep 0 s1 _ r1
    refine ⟨s2, ?_, r2⟩
    simp only [loop, e1]
    simpa using e2

end Loops

section View
variable {α : Type} [Scalar α]

@[simp] theorem ok_bind {β γ : Type} (x : β) (f : β → Res γ) : (Except.ok x >>= f) = f x := rfl
@[simp] theorem pure_eq {β : Type} (x : β) : (pure x : Res β) = .ok x := rfl

/-- `f` with the entry `(i,j)` replaced by `x` -/
def upd (f : Nat → Nat → α) (i j : Nat) (x : α) : Nat → Nat → α := fun p q => if p = i ∧ q = j then x else f p q

theorem Is.rd {S : Store α} {k : Kind} {r c : Nat} {f : Nat → Nat → α} (h : Is S k r c f) {i j : Nat}
    (hi : i < r) (hj : j < c) : rd S i j = .ok (f i j) := by
  simp [LUS.rd, h.2.2.2.2 i j hi hj]

theorem Is.wr {S : Store α} {k : Kind} {r c : Nat} {f : Nat → Nat → α} (h : Is S k r c f) {i j : Nat}
    (hi : i < r) (hj : j < c) (x : α) : ∃ S', wr S i j x = .ok S' ∧ Is S' k r c (upd f i j x) := by
  obtain ⟨hw, hk, hr, hc, hg⟩ := h
  obtain ⟨S', e, hw', hk', hr', hc', hij, hoth⟩ := Store.set_spec hw (hr ▸ hi) (hc ▸ hj) x
  refine ⟨S', by simp [LUS.wr, e], hw', hk'.trans hk, hr'.trans hr, hc'.trans hc, ?_⟩
  intro p q hp hq
  by_cases hpq : p = i ∧ q = j
  · obtain ⟨rfl, rfl⟩ := hpq
    simp [upd, hij]
  · have hne : p ≠ i ∨ q ≠ j := by
      by_contra hcon
      push Not at hcon
      exact hpq hcon
    rw [hoth p q (hr ▸ hp) (hc ▸ hq) hne, hg p q hp hq]
    simp [upd, hpq]

theorem Is.congr {S : Store α} {k : Kind} {r c : Nat} {f g : Nat → Nat → α} (h : Is S k r c f)
    (hfg : ∀ i j, i < r → j < c → f i j = g i j) : Is S k r c g :=
  ⟨h.1, h.2.1, h.2.2.1, h.2.2.2.1, fun i j hi hj => by rw [h.2.2.2.2 i j hi hj, hfg i j hi hj]⟩

/-- a store that `Holds` a matrix with the proper dimensions -/
theorem Is.of_holds {S : Store α} {r c : Nat} {f : Nat → Nat → α} (h : S.Holds r c f)
    (hs : S.kind.shape r c = (r, c)) : Is S S.kind r c f := by
  obtain ⟨hw, hd, hg⟩ := h
  rw [hs] at hd
  exact ⟨hw, rfl, (Prod.mk.inj hd).1, (Prod.mk.inj hd).2, hg⟩

/-- every well-formed store is a view of its own entries -/
theorem Is.self {S : Store α} (hw : S.WF) : Is S S.kind S.nrows S.ncols S.entry :=
  ⟨hw, rfl, rfl, rfl, fun _ _ hi hj => Store.get_eq_entry hw hi hj⟩

/-- `resize(r, c)` of a store in any prior state, for proper dimensions: class kept, dimensions as
requested, some contents (the leading block of the old contents, zeros elsewhere) -/
theorem Is.resize {S : Store α} (hw : S.WF) (r c : Nat) (hs : S.kind.shape r c = (r, c)) :
    Is (S.resize r c) S.kind r c (fun i j => if i < S.nrows ∧ j < S.ncols then S.entry i j else Scalar.zero) := by
  have hd := Store.resize_dims S r c
  rw [hs] at hd
  exact ⟨Store.resize_wf S r c, Store.resize_kind S r c, (Prod.mk.inj hd).1, (Prod.mk.inj hd).2,
    fun i j hi hj => Store.resize_get hw r c hi hj⟩

/-- **row update**: a loop `for (j = c0; j < c1; j++)` whose iteration `j`, in any state that still
has the original contents outside the cells `(i, c0..j-1)` already handled, amounts to
`S(i,j) = new j` -/
theorem rowLoop {S : Store α} {k : Kind} {r c : Nat} {f : Nat → Nat → α} (hS : Is S k r c f)
    {i : Nat} (hi : i < r) {c0 c1 : Nat} (h01 : c0 ≤ c1) (hc1 : c1 ≤ c)
    (new : Nat → α) (body : Nat → Store α → Res (Store α))
    (hbody : ∀ j, c0 ≤ j → j < c1 → ∀ T g, Is T k r c g →
      (∀ a b, ¬ (a = i ∧ c0 ≤ b ∧ b < j) → g a b = f a b) → body j T = wr T i j (new j)) :
    ∃ S', loopFrom c0 c1 body S = .ok S' ∧
      Is S' k r c (fun a b => if a = i ∧ c0 ≤ b ∧ b < c1 then new b else f a b) := by
  obtain ⟨S', e, g, hg, h1, h2⟩ := loopFrom_inv
    (fun j T => ∃ g, Is T k r c g ∧ (∀ a b, ¬ (a = i ∧ c0 ≤ b ∧ b < j) → g a b = f a b) ∧
      (∀ b, c0 ≤ b → b < j → g i b = new b)) c0 c1 h01 body S
    ⟨f, hS, fun _ _ _ => rfl, fun b h1 h2 => by omega⟩
    (by
      rintro j T hj0 hj1 ⟨g, hg, hout, hin⟩
      obtain ⟨T', e', hT'⟩ := hg.wr hi (show j < c by omega) (new j)
      refine ⟨T', by rw [hbody j hj0 hj1 T g hg hout]; exact e', upd g i j (new j), hT', ?_, ?_⟩
      · intro a b hab
        have : ¬ (a = i ∧ b = j) := by rintro ⟨rfl, rfl⟩; exact hab ⟨rfl, hj0, by omega⟩
        simp only [upd, this, if_false]
        exact hout a b (fun h => hab ⟨h.1, h.2.1, by omega⟩)
      · intro b hb0 hb1
        by_cases hbj : b = j
        · simp [upd, hbj]
        · simp only [upd, hbj, and_false, if_false]
          exact hin b hb0 (by omega))
  refine ⟨S', e, hg.congr ?_⟩
  intro a b _ _
  by_cases hab : a = i ∧ c0 ≤ b ∧ b < c1
  · rw [if_pos hab]
    obtain ⟨rfl, hb0, hb1⟩ := hab
    exact h2 b hb0 hb1
  · rw [if_neg hab]; exact h1 a b hab

/-- the same for `for (j = 0; j < c1; j++)` -/
theorem rowLoop0 {S : Store α} {k : Kind} {r c : Nat} {f : Nat → Nat → α} (hS : Is S k r c f)
    {i : Nat} (hi : i < r) {c1 : Nat} (hc1 : c1 ≤ c)
    (new : Nat → α) (body : Nat → Store α → Res (Store α))
    (hbody : ∀ j, j < c1 → ∀ T g, Is T k r c g →
      (∀ a b, ¬ (a = i ∧ b < j) → g a b = f a b) → body j T = wr T i j (new j)) :
    ∃ S', loop c1 body S = .ok S' ∧ Is S' k r c (fun a b => if a = i ∧ b < c1 then new b else f a b) := by
  obtain ⟨S', e, h⟩ := rowLoop hS hi (Nat.zero_le c1) hc1 new body
    (fun j _ hj T g hg hout => hbody j hj T g hg (fun a b hab => hout a b (fun h => hab ⟨h.1, h.2.2⟩)))
  rw [loopFrom_zero] at e
  exact ⟨S', e, h.congr (fun a b _ _ => by simp)⟩

end View

section FnOf
variable {α : Type} [Scalar α] {m n : Nat}

theorem fnOf_get (M : Mat α m n) (i : Fin m) (j : Fin n) : fnOf M i.val j.val = M.get i j := by
  simp [fnOf, i.isLt, j.isLt]

theorem fnOf_lt (M : Mat α m n) {i j : Nat} (hi : i < m) (hj : j < n) : fnOf M i j = M.get ⟨i, hi⟩ ⟨j, hj⟩ := by
  simp [fnOf, hi, hj]

@[simp] theorem get_ofFn' (f : Fin m → Fin n → α) (i : Fin m) (j : Fin n) : (Mat.ofFn f).get i j = f i j := by
  simp [Mat.get, Mat.ofFn]

theorem fnOf_ofFn (F : Fin m → Fin n → α) {i j : Nat} (hi : i < m) (hj : j < n) :
    fnOf (Mat.ofFn F) i j = F ⟨i, hi⟩ ⟨j, hj⟩ := by
  rw [fnOf_lt _ hi hj, get_ofFn']

end FnOf

end Bpp.LUS
