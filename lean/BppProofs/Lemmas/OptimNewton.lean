import BppProofs.Lemmas.OptimSync
/-!
Helper lemmas for C10: `NewtonOneDimension` on the objective of the harness, over `ℝ`.
The invariant: the optimiser's current value is the objective at the point the function has been
left at, which holds the values of the optimiser's parameters; a step never increases it (a trial
above the current value is undone — the Felsenstein-Churchill correction — and when the corrections
are exhausted the function is put back where the step found it).
-/
set_option linter.unusedSectionVars false
namespace Bpp.Optim
open Bpp

theorem setValueAt_names : ∀ (pl : PList ℝ) (i : Nat) (x : ℝ) (pl' : PList ℝ), setValueAt pl i x = .ok pl' →
    names pl' = names pl := by
  intro pl
  induction pl with
  | nil => intro i x pl' h; rw [setValueAt] at h; cases h
  | cons q r ih =>
    intro i x pl' h
    cases i with
    | zero =>
      rw [setValueAt] at h
      split at h
      · simp only [Except.ok.injEq] at h; subst h; rfl
      · cases h
    | succ i =>
      rw [setValueAt] at h
      split at h
      · rename_i r' hr
        simp only [Except.ok.injEq] at h; subst h
        rw [names_cons, names_cons, ih i x r' hr]
      · cases h

/-- the names of the list are distinct parameters of the function -/
def Named (pl : PList ℝ) (len : Nat) : Prop := (names pl).Nodup ∧ ∀ n ∈ names pl, n < len

theorem Named.of_names {pl pl' : PList ℝ} {len : Nat} (h : Named pl len) (e : names pl' = names pl) : Named pl' len := by
  unfold Named; rw [e]; exact h

theorem Named.lt {pl : PList ℝ} {len : Nat} (h : Named pl len) : ∀ q ∈ pl, q.name < len :=
  fun q hq => h.2 _ (mem_names hq)

variable (obj : List ℝ → ℝ) (D : Deriv ℝ) (cap : Option Nat)

/-- an evaluation of the objective at a list with distinct valid names: the value is the objective
at the point the function is left at, which holds the values of the list -/
theorem eval_sync (fn fn' : Fn ℝ) (pl : PList ℝ) (v : ℝ) (hn : Named pl fn.point.length)
    (h : (Fn.iface obj D cap).f fn pl = .ok (fn', v)) :
    v = obj fn'.point ∧ Sync fn' pl ∧ fn'.point.length = fn.point.length ∧ fn'.point = matchPoint fn.point pl := by
  obtain ⟨hp, hv, _⟩ := iface_f_point obj D cap _ _ _ _ h
  exact ⟨hv, sync_of_matchPoint fn' fn.point pl hp hn.1 hn.lt, by rw [hp, matchPoint_length], hp⟩

/-- the Felsenstein-Churchill loop -/
theorem newtonCorrect_spec (cur x0 : ℝ) (fn0 : Fn ℝ) (maxc : Nat) (ns : List Nat) :
    ∀ (fuel count : Nat) (fn : Fn ℝ) (newPoint : PList ℝ) (movement nv : ℝ) (fn' : Fn ℝ) (res : Option (PList ℝ × ℝ)),
      nv = obj fn.point → Sync fn newPoint → names newPoint = ns → Named newPoint fn0.point.length →
      fn.point.length = fn0.point.length →
      newtonCorrect (Fn.iface obj D cap) cur x0 fn0.params maxc fuel count fn newPoint movement nv = .ok (fn', res) →
      fn'.point.length = fn0.point.length ∧
      match res with
      | none => fn'.point = fn0.point
      | some (pl, v) => v ≤ cur ∧ v = obj fn'.point ∧ Sync fn' pl ∧ names pl = ns := by
  intro fuel
  induction fuel with
  | zero => intro count fn newPoint movement nv fn' res _ _ _ _ _ h; rw [newtonCorrect] at h; cases h
  | succ fuel ih =>
    intro count fn newPoint movement nv fn' res hnv hsy hns hnm hlen h
    rw [newtonCorrect] at h
    by_cases hgt : cur < nv
    · rw [if_pos ((ScalarReal.gtb_iff _ _).2 hgt)] at h
      cases hsp : (Fn.iface obj D cap).setParameters fn fn0.params with
      | error e => rw [hsp] at h; cases h
      | ok fn1 =>
        rw [hsp] at h
        simp only [] at h
        have hp1 : fn1.point = fn0.point := by
          rw [iface_set_point obj D cap _ _ _ hsp]; exact matchPoint_restore fn0 fn.point hlen
        split at h
        · simp only [Except.ok.injEq, Prod.mk.injEq] at h
          obtain ⟨rfl, rfl⟩ := h
          exact ⟨by rw [hp1], hp1⟩
        · cases hset : setValueAt newPoint 0 (x0 - movement / Scalar.ofInt 2) with
          | error e => rw [hset] at h; cases h
          | ok np =>
            rw [hset] at h
            simp only [] at h
            cases hf : (Fn.iface obj D cap).f fn1 np with
            | error e => rw [hf] at h; cases h
            | ok r =>
              obtain ⟨fn2, nv2⟩ := r
              rw [hf] at h
              simp only [] at h
              have hnames : names np = names newPoint := setValueAt_names _ _ _ _ hset
              have hnm2 : Named np fn0.point.length := hnm.of_names hnames
              obtain ⟨e1, e2, e3, _⟩ := eval_sync obj D cap fn1 fn2 np nv2 (by rw [hp1]; exact hnm2) hf
              exact ih _ fn2 np _ nv2 fn' res e1 e2 (by rw [hnames, hns]) hnm2 (by rw [e3, hp1]) h
    · rw [if_neg (fun c => hgt ((ScalarReal.gtb_iff _ _).1 c))] at h
      simp only [Except.ok.injEq, Prod.mk.injEq] at h
      obtain ⟨rfl, rfl⟩ := h
      exact ⟨hlen, not_lt.1 hgt, hnv, hsy, hns⟩

/-- the invariant of the Newton iteration on the objective -/
structure Newton.Inv (B : ℝ) (len : Nat) (ns : List Nat) (s : St (Fn ℝ) (Newton1 ℝ) ℝ) : Prop where
  cur : s.core.cur = obj s.fn.point
  sync : Sync s.fn s.core.params
  names : names s.core.params = ns
  len : s.fn.point.length = len
  below : s.core.cur ≤ B

theorem newtonDoStep_spec (B : ℝ) (len : Nat) (ns : List Nat) (hns : ns.Nodup ∧ ∀ n ∈ ns, n < len)
    (s s' : St (Fn ℝ) (Newton1 ℝ) ℝ) (v : ℝ)
    (hi : Newton.Inv obj B len ns s) (h : newtonDoStep (Fn.iface obj D cap) s = .ok (s', v)) :
    Newton.Inv obj B len ns { s' with core := { s'.core with cur := v } } ∧ v ≤ s.core.cur := by
  unfold newtonDoStep at h
  simp only [iface_getParameters] at h
  split at h
  · cases h
  · rename_i x0 hx0
    split at h
    · cases h
    · rename_i np hset
      split at h
      · cases h
      · rename_i fn1 nv hf
        have hnames : names np = ns := by rw [setValueAt_names _ _ _ _ hset, hi.names]
        have hnm : Named np s.fn.point.length := by unfold Named; rw [hnames, hi.len]; exact hns
        obtain ⟨e1, e2, e3, _⟩ := eval_sync obj D cap s.fn fn1 np nv hnm hf
        split at h
        · cases h
        · rename_i fn2 hc
          simp only [Except.ok.injEq, Prod.mk.injEq] at h
          obtain ⟨rfl, rfl⟩ := h
          obtain ⟨h1, h2⟩ := newtonCorrect_spec obj D cap s.core.cur x0 s.fn s.ext.maxCorrection ns _ _ _ _ _ _ _ _
            e1 e2 hnames hnm e3 hc
          simp only [] at h2
          refine ⟨⟨?_, ?_, hi.names, by show fn2.point.length = len; rw [h1, hi.len], hi.below⟩, le_refl _⟩
          · show s.core.cur = obj fn2.point; rw [h2]; exact hi.cur
          · show Sync fn2 s.core.params
            intro q hq; rw [h2]; exact hi.sync q hq
        · rename_i fn2 pl w hc
          simp only [Except.ok.injEq, Prod.mk.injEq] at h
          obtain ⟨rfl, rfl⟩ := h
          obtain ⟨h1, h2⟩ := newtonCorrect_spec obj D cap s.core.cur x0 s.fn s.ext.maxCorrection ns _ _ _ _ _ _ _ _
            e1 e2 hnames hnm e3 hc
          simp only [] at h2
          obtain ⟨a, b, c, d⟩ := h2
          exact ⟨⟨b, c, d, by show fn2.point.length = len; rw [h1, hi.len], le_trans a hi.below⟩, a⟩

theorem Newton.Inv.congr {B : ℝ} {len : Nat} {ns : List Nat} {s t : St (Fn ℝ) (Newton1 ℝ) ℝ} (h : Newton.Inv obj B len ns s)
    (hf : t.fn = s.fn) (hp : t.core.params = s.core.params) (hc : t.core.cur = s.core.cur) : Newton.Inv obj B len ns t :=
  ⟨by rw [hc, hf]; exact h.cur, by rw [hf, hp]; exact h.sync, by rw [hp]; exact h.names, by rw [hf]; exact h.len,
   by rw [hc]; exact h.below⟩

theorem fscStop_same {F τ : Type} (s : St F τ ℝ) :
    (fscStop s).1.fn = s.fn ∧ (fscStop s).1.core.params = s.core.params ∧ (fscStop s).1.core.cur = s.core.cur ∧
    (fscStop s).1.ext = s.ext ∧ (fscStop s).1.core.nbEval = s.core.nbEval ∧ (fscStop s).1.core.nbEvalMax = s.core.nbEvalMax := by
  unfold fscStop; simp only []; split <;> exact ⟨rfl, rfl, rfl, rfl, rfl, rfl⟩

theorem newton_step_inv (B : ℝ) (len : Nat) (ns : List Nat) (hns : ns.Nodup ∧ ∀ n ∈ ns, n < len)
    (s s' : St (Fn ℝ) (Newton1 ℝ) ℝ) (v : ℝ)
    (hi : Newton.Inv obj B len ns s) (h : (newtonAlgo (Fn.iface obj D cap)).step s = .ok (s', v)) :
    Newton.Inv obj B len ns s' := by
  obtain ⟨s1, hd1, hc⟩ := step_cases _ s h
  have h1 := (newtonDoStep_spec obj D cap B len ns hns s s1 v hi hd1).1
  rcases hc with ⟨_, rfl⟩ | ⟨_, rfl⟩
  · exact h1
  · have hs := fscStop_same ({ s1 with core := { s1.core with cur := v } } : St (Fn ℝ) (Newton1 ℝ) ℝ)
    exact Newton.Inv.congr obj h1 hs.1 hs.2.1 hs.2.2.1

/-- `optimize` keeps the invariant and returns the current value -/
theorem newton_optimize_spec (B : ℝ) (len : Nat) (ns : List Nat) (hns : ns.Nodup ∧ ∀ n ∈ ns, n < len) (fuel : Nat)
    (s s2 : St (Fn ℝ) (Newton1 ℝ) ℝ) (v : ℝ)
    (hi : Newton.Inv obj B len ns s) (h : (newtonAlgo (Fn.iface obj D cap)).optimize fuel s = .ok (s2, v)) :
    Newton.Inv obj B len ns s2 ∧ s2.core.cur = v := by
  unfold Algo.optimize at h
  split at h
  · cases h
  · cases hl : (newtonAlgo (Fn.iface obj D cap)).loop fuel { s with core := { s.core with tol := false, nbEval := 1 } } with
    | error e => rw [hl] at h; cases h
    | ok sL =>
      rw [hl] at h
      simp only [Except.ok.injEq, Prod.mk.injEq] at h
      obtain ⟨rfl, rfl⟩ := h
      refine ⟨?_, rfl⟩
      exact loop_invariant _ (Newton.Inv obj B len ns)
        (fun u u' w hu _ hst => newton_step_inv obj D cap B len ns hns u u' w hu hst)
        (fun u hu => Newton.Inv.congr obj hu rfl rfl rfl) fuel
        ({ s with core := { s.core with tol := false, nbEval := 1 } } : St (Fn ℝ) (Newton1 ℝ) ℝ) _
        (Newton.Inv.congr obj hi rfl rfl rfl) hl

/-- `init`: the function is evaluated at the list (with the policy applied) -/
theorem newton_init_spec (s s1 : St (Fn ℝ) (Newton1 ℝ) ℝ) (params : PList ℝ)
    (hn : Named params s.fn.point.length)
    (h : (newtonAlgo (Fn.iface obj D cap)).init s params = .ok s1) :
    Newton.Inv obj (obj (matchPoint s.fn.point params)) s.fn.point.length (names params) s1 ∧
    s1.fn.point = matchPoint s.fn.point params := by
  unfold Algo.init at h
  simp only [] at h
  split at h
  · cases h
  · rename_i sa hdi
    simp only [Except.ok.injEq] at h
    change newtonDoInit (Fn.iface obj D cap) _ params = .ok sa at hdi
    unfold newtonDoInit at hdi
    split at hdi
    · rename_i q
      simp only [] at hdi
      split at hdi
      · cases hdi
      · rename_i fn1 v0 hf
        simp only [Except.ok.injEq] at hdi
        have hn' : Named (applyPolicy s.core.policy [q]) s.fn.point.length := hn.of_names (applyPolicy_names _ _)
        obtain ⟨e1, e2, e3, e4⟩ := eval_sync obj D cap s.fn fn1 _ v0 hn' hf
        rw [matchPoint_applyPolicy] at e4
        subst hdi
        subst h
        refine ⟨⟨rfl, e2, applyPolicy_names _ _, e3, ?_⟩, e4⟩
        show obj fn1.point ≤ _
        rw [e4]
    · cases hdi

end Bpp.Optim
