import BppProofs.Lemmas.MatrixOfFn
/-! Helper lemmas for C04: `diag(M)`, `toVVdouble`, `isSymmetric`, the n-ary direct sum. -/
namespace Bpp.Mx
open Bpp Store

/-- is the outcome `ub`? (for witnesses decided by evaluation) -/
def isUb {β : Type} (r : Res β) : Bool :=
  match r with
  | .error .ub => true
  | _ => false

section Misc
variable {α : Type} [Scalar α]

/-- `collect` of computations that all succeed -/
theorem collect_ok {β : Type} {n : Nat} {f : Nat → Res β} {g : Nat → β} (h : ∀ i, i < n → f i = .ok (g i)) :
    ∃ v, collect n f = .ok v ∧ v.size = n ∧ ∀ i (hi : i < v.size), v[i] = g i := by
  unfold collect
  obtain ⟨v, e, hv⟩ := loopM_inv (fun k (acc : Array β) => acc.size = k ∧ ∀ i (hi : i < acc.size), acc[i] = g i) n
    (fun i acc => match f i with
      | .ok x => .ok (acc.push x)
      | .error e => .error e) #[] ⟨rfl, fun i hi => by simp at hi⟩
    (by
      intro k acc hk ⟨hs, hg⟩
      refine ⟨acc.push (g k), by simp only [h k hk], by simp [hs], ?_⟩
      intro i hi
      by_cases hlt : i < acc.size
      · rw [Array.getElem_push_lt hlt]; exact hg i hlt
      · have : i = acc.size := by simp at hi; omega
        subst this
        rw [Array.getElem_push_eq, hs])
  exact ⟨v, e, hv.1, hv.2⟩

/-- `diag(M, O)`: the diagonal of a square matrix -/
theorem diagM_ok {M : Store α} (hM : M.WF) (hsq : M.ncols = M.nrows) :
    ∃ v, diagM M = .ok v ∧ v.size = M.nrows ∧ ∀ i (hi : i < v.size), v[i] = M.entry i i := by
  unfold diagM
  rw [if_neg (by simpa using hsq)]
  obtain ⟨v, e, hs, hv⟩ := collect_ok (n := M.ncols) (f := fun i => M.get i i) (g := fun i => M.entry i i)
    (fun i hi => get_eq_entry hM (hsq ▸ hi) hi)
  exact ⟨v, e, by rw [hs, hsq], hv⟩

theorem diagM_nonsquare {M : Store α} (hsq : M.ncols ≠ M.nrows) : diagM M = .error .dimension := by
  unfold diagM; rw [if_pos hsq]

/-- `toVVdouble`: `nrows` vectors of `ncols` entries -/
theorem toVV_ok {M : Store α} (hM : M.WF) :
    ∃ vv, toVV M = .ok vv ∧ vv.size = M.nrows ∧
      ∀ i (hi : i < vv.size), vv[i].size = M.ncols ∧ ∀ j (hj : j < vv[i].size), vv[i][j] = M.entry i j := by
  unfold toVV
  -- each row
  have hrow : ∀ i, i < M.nrows → ∃ r, collect M.ncols (fun j => M.get i j) = .ok r ∧ r.size = M.ncols ∧
      ∀ j (hj : j < r.size), r[j] = M.entry i j := fun i hi =>
    collect_ok (f := fun j => M.get i j) (g := fun j => M.entry i j) (fun j hj => get_eq_entry hM hi hj)
  classical
  let g : Nat → Array α := fun i => if h : i < M.nrows then (hrow i h).choose else #[]
  have hg : ∀ i, i < M.nrows → collect M.ncols (fun j => M.get i j) = .ok (g i) := by
    intro i hi
    simp only [g, hi, dif_pos]
    exact (hrow i hi).choose_spec.1
  obtain ⟨vv, e, hs, hv⟩ := collect_ok (n := M.nrows) (f := fun i => collect M.ncols fun j => M.get i j) (g := g) hg
  refine ⟨vv, e, hs, ?_⟩
  intro i hi
  have hi' : i < M.nrows := hs ▸ hi
  rw [hv i hi]
  simp only [g, hi', dif_pos]
  exact (hrow i hi').choose_spec.2

/-- a loop that keeps a flag `true` as long as every iteration says `true`, and does nothing once
the flag is `false` -/
theorem loopM_all {n : Nat} {body : Nat → Bool → Res Bool} {b : Nat → Bool}
    (ht : ∀ i, i < n → body i true = .ok (b i)) (hf : ∀ i, i < n → body i false = .ok false) :
    loopM n body true = .ok ((List.range n).all b) := by
  induction n with
  | zero => rfl
  | succ n ih =>
    rw [loopM_succ, ih (fun i hi => ht i (by omega)) (fun i hi => hf i (by omega))]
    rw [List.range_succ, List.all_append]
    cases hall : (List.range n).all b
    · simp [hf n (by omega)]
    · simp [ht n (by omega)]

/-- `isSymmetric`: `true` exactly for a square matrix with `A(i,j) = A(j,i)` for all `i < j`
(compared with `eqb`, the scalar's `==`) -/
theorem isSymmetric_ok {A : Store α} (hA : A.WF) (hsq : A.ncols = A.nrows) :
    isSymmetric A = .ok ((List.range A.ncols).all fun i =>
      (List.range (A.nrows - (i + 1))).all fun t => Scalar.eqb (A.entry i (i + 1 + t)) (A.entry (i + 1 + t) i)) := by
  unfold isSymmetric
  rw [if_neg (by simpa using hsq)]
  apply loopM_all
  · intro i hi
    simp only [Bool.not_true, Bool.false_eq_true, if_false]
    apply loopM_all
    · intro t ht
      have h1 : i + 1 + t < A.nrows := by omega
      have h2 : i + 1 + t < A.ncols := by omega
      simp only [Bool.not_true, Bool.false_eq_true, if_false, get_eq_entry hA (hsq ▸ hi) h2, get_eq_entry hA h1 hi]
    · intro t ht; simp
  · intro i hi; simp

theorem isSymmetric_nonsquare {A : Store α} (hsq : A.ncols ≠ A.nrows) : isSymmetric A = .ok false := by
  unfold isSymmetric; rw [if_pos hsq]

end Misc
end Bpp.Mx

namespace Bpp.Mx
open Bpp Store
section DsumN
variable {α : Type} [Scalar α]

theorem foldl_add_init {β : Type} (g : β → Nat) (l : List β) (a : Nat) :
    l.foldl (fun s M => s + g M) a = a + l.foldl (fun s M => s + g M) 0 := by
  induction l generalizing a with
  | nil => simp
  | cons x xs ih => simp only [List.foldl_cons, Nat.zero_add]; rw [ih (a + g x), ih (g x)]; omega

/-- state of the n-ary direct sum after some blocks: the leading `rk × ck` block holds `f`, the rest
of the `R × C` matrix is zero -/
def DsumInv (k : Kind) (R C : Nat) (O : Store α) (rk ck : Nat) (f : Nat → Nat → α) : Prop :=
  O.WF ∧ O.kind = k ∧ O.nrows = R ∧ O.ncols = C ∧
    ∀ p q, p < R → q < C → O.get p q = .ok (if p < rk ∧ q < ck then f p q else Scalar.zero)

theorem dsumN_fold (k : Kind) (R C : Nat) :
    ∀ (l : List (Store α)) (O : Store α) (rk ck : Nat) (f : Nat → Nat → α),
      DsumInv k R C O rk ck f → (∀ M ∈ l, M.WF) →
      rk + l.foldl (fun s M => s + M.nrows) 0 ≤ R → ck + l.foldl (fun s M => s + M.ncols) 0 ≤ C →
      ∃ O', l.foldlM dsumNStep (O, rk, ck) =
          .ok (O', (Spec.dsumFold (rk, ck, f) (l.map fun M => (M.nrows, M.ncols, M.entry))).1,
            (Spec.dsumFold (rk, ck, f) (l.map fun M => (M.nrows, M.ncols, M.entry))).2.1) ∧
        DsumInv k R C O' (Spec.dsumFold (rk, ck, f) (l.map fun M => (M.nrows, M.ncols, M.entry))).1
          (Spec.dsumFold (rk, ck, f) (l.map fun M => (M.nrows, M.ncols, M.entry))).2.1
          (Spec.dsumFold (rk, ck, f) (l.map fun M => (M.nrows, M.ncols, M.entry))).2.2 := by
  intro l
  induction l with
  | nil =>
    intro O rk ck f hinv _ _ _
    exact ⟨O, rfl, hinv⟩
  | cons M ms ih =>
    intro O rk ck f hinv hwf hR hC
    have hM : M.WF := hwf M (by simp)
    simp only [List.foldl_cons, Nat.zero_add] at hR hC
    rw [foldl_add_init] at hR hC
    obtain ⟨hw, hk, hnr, hnc, hget⟩ := hinv
    obtain ⟨O1, e1, ⟨hw1, hk1, hr1, hc1⟩, hg1⟩ := fillBlock_written' hw (r0 := rk) (c0 := ck) (r := M.nrows) (c := M.ncols)
      (Or.inr ⟨by rw [hnr]; omega, by rw [hnc]; omega⟩) (f := fun i j => M.get i j) (g := M.entry)
      (fun i j hi hj => get_eq_entry hM hi hj)
    have hinv1 : DsumInv k R C O1 (rk + M.nrows) (ck + M.ncols) (Spec.dsum f M.entry rk ck M.nrows M.ncols) := by
      refine ⟨hw1, hk1.trans hk, hr1.trans hnr, hc1.trans hnc, ?_⟩
      intro p q hp hq
      by_cases hb : rk ≤ p ∧ p < rk + M.nrows ∧ ck ≤ q ∧ q < ck + M.ncols
      · rw [(hg1 p q (by rw [hnr]; exact hp) (by rw [hnc]; exact hq)).1 hb]
        have h1 : ¬ p < rk := by omega
        have h2 : ¬ q < ck := by omega
        have h3 : p - rk < M.nrows ∧ q - ck < M.ncols := by omega
        have h4 : p < rk + M.nrows ∧ q < ck + M.ncols := by omega
        simp [Spec.dsum, h1, h2, h3, h4]
      · rw [(hg1 p q (by rw [hnr]; exact hp) (by rw [hnc]; exact hq)).2 hb, hget p q hp hq]
        congr 1
        by_cases h1 : p < rk
        · by_cases h2 : q < ck
          · have h4 : p < rk + M.nrows ∧ q < ck + M.ncols := by omega
            simp [Spec.dsum, h1, h2, h4]
          · simp [Spec.dsum, h1, h2]
        · by_cases h2 : q < ck
          · simp [Spec.dsum, h1, h2]
          · have h4 : ¬ (p < rk + M.nrows ∧ q < ck + M.ncols) := by omega
            simp [h1, h4]
    obtain ⟨O', e2, hinv2⟩ := ih O1 (rk + M.nrows) (ck + M.ncols) _ hinv1 (fun X hX => hwf X (by simp [hX]))
      (by omega) (by omega)
    refine ⟨O', ?_, hinv2⟩
    rw [List.foldlM_cons]
    simp only [dsumNStep, e1]
    exact e2

theorem dsumFold_dims (l : List (Store α)) (rk ck : Nat) (f : Nat → Nat → α) :
    (Spec.dsumFold (rk, ck, f) (l.map fun M => (M.nrows, M.ncols, M.entry))).1 = rk + l.foldl (fun s M => s + M.nrows) 0 ∧
    (Spec.dsumFold (rk, ck, f) (l.map fun M => (M.nrows, M.ncols, M.entry))).2.1 = ck + l.foldl (fun s M => s + M.ncols) 0 := by
  induction l generalizing rk ck f with
  | nil => simp [Spec.dsumFold]
  | cons M ms ih =>
    simp only [Spec.dsumFold, List.map_cons, List.foldl_cons, Nat.zero_add]
    have := ih (rk + M.nrows) (ck + M.ncols) (Spec.dsum f M.entry rk ck M.nrows M.ncols)
    simp only [Spec.dsumFold] at this
    rw [this.1, this.2, foldl_add_init (fun M => M.nrows) ms M.nrows, foldl_add_init (fun M => M.ncols) ms M.ncols]
    omega

theorem sum_zero_of_foldl {β : Type} (g : β → Nat) (l : List β) (h : l.foldl (fun s M => s + g M) 0 = 0) :
    ∀ M ∈ l, g M = 0 := by
  induction l with
  | nil => intro M hM; simp at hM
  | cons x xs ih =>
    simp only [List.foldl_cons, Nat.zero_add] at h
    rw [foldl_add_init] at h
    intro M hM
    rcases List.mem_cons.mp hM with rfl | hM
    · omega
    · exact ih (by omega) M hM

/-- when every block is empty the store is not touched -/
theorem dsumN_fold_empty (l : List (Store α)) (O : Store α) (rk ck : Nat) (h : ∀ M ∈ l, M.nrows = 0 ∨ M.ncols = 0) :
    ∃ a b, l.foldlM dsumNStep (O, rk, ck) = .ok (O, a, b) := by
  induction l generalizing rk ck with
  | nil => exact ⟨rk, ck, rfl⟩
  | cons M ms ih =>
    obtain ⟨a, b, e⟩ := ih (rk + M.nrows) (ck + M.ncols) (fun X hX => h X (by simp [hX]))
    refine ⟨a, b, ?_⟩
    rw [List.foldlM_cons]
    simp only [dsumNStep, fillBlock_empty O rk ck M.nrows M.ncols _ (h M (by simp))]
    exact e

/-- `directSum(vector, O)`: the blocks on the diagonal, zero elsewhere -/
theorem dsumN_holds (vA : List (Store α)) (hwf : ∀ M ∈ vA, M.WF) (O : Store α) :
    ∃ O', dsumN vA O = .ok O' ∧ O'.kind = O.kind ∧
      O'.Holds (Spec.dsumFold (0, 0, fun _ _ => Scalar.zero) (vA.map fun M => (M.nrows, M.ncols, M.entry))).1
        (Spec.dsumFold (0, 0, fun _ _ => Scalar.zero) (vA.map fun M => (M.nrows, M.ncols, M.entry))).2.1
        (Spec.dsumFold (0, 0, fun _ _ => Scalar.zero) (vA.map fun M => (M.nrows, M.ncols, M.entry))).2.2 := by
  obtain ⟨d1, d2⟩ := dsumFold_dims vA 0 0 (fun _ _ => (Scalar.zero : α))
  simp only [Nat.zero_add] at d1 d2
  rw [d1, d2]
  unfold dsumN
  simp only
  generalize hR : vA.foldl (fun s M => s + M.nrows) 0 = R at *
  generalize hC : vA.foldl (fun s M => s + M.ncols) 0 = C at *
  obtain ⟨O1, e1, k1, h1⟩ := fill_resize_holds O (r := R) (c := C) (f := fun _ _ => .ok Scalar.zero)
    (g := fun _ _ => (Scalar.zero : α)) (fun _ _ _ _ => rfl)
  simp only [e1]
  by_cases h0 : R = 0 ∨ C = 0
  · have hemp : ∀ M ∈ vA, M.nrows = 0 ∨ M.ncols = 0 := by
      intro M hM
      rcases h0 with h | h
      · exact Or.inl (sum_zero_of_foldl (fun M => M.nrows) vA (by rw [hR, h]) M hM)
      · exact Or.inr (sum_zero_of_foldl (fun M => M.ncols) vA (by rw [hC, h]) M hM)
    obtain ⟨a, b, e2⟩ := dsumN_fold_empty vA O1 0 0 hemp
    refine ⟨O1, by simp only [e2], k1, h1.1, h1.2.1, ?_⟩
    intro i j hi hj; omega
  · have hRp : 0 < R := by omega
    have hCp : 0 < C := by omega
    obtain ⟨o1, o2⟩ := h1.dims_pos hRp hCp
    have hinv : DsumInv O.kind R C O1 0 0 (fun _ _ => (Scalar.zero : α)) :=
      ⟨h1.1, k1, o1, o2, fun p q hp hq => by rw [h1.2.2 p q hp hq]; simp⟩
    obtain ⟨O', e2, hw', hk', hr', hc', hget'⟩ := dsumN_fold O.kind R C vA O1 0 0 _ hinv hwf (by omega) (by omega)
    rw [d1, d2] at hget'
    refine ⟨O', by simp only [e2], hk', hw', by rw [hr', hc', hk', shape_pos _ hRp hCp], ?_⟩
    intro i j hi hj
    rw [hget' i j hi hj]
    simp [hi, hj]

end DsumN
end Bpp.Mx
