import BppModel.Range
/-! Helper lemmas for C20 (Range.h), generic in the coordinate type: any decidable linear order
with a constant `0` (`Std.IsLinearOrder`, `Std.LawfulOrderLT` of core Lean — instances exist for
`Int`, `UInt32` and `Rat`).  Property theorems are in `Props/C20*.lean`. -/
set_option linter.unusedSectionVars false
namespace Bpp

/-- `std::min` / `std::max` of a linear order (Range.h:47-48) -/
class MinMaxLaws (α : Type) [LE α] [DecidableLE α] [Min α] [Max α] : Prop where
  min_def : ∀ a b : α, min a b = if a ≤ b then a else b
  max_def : ∀ a b : α, max a b = if a ≤ b then b else a

/-- what the shifts need of `+` and `-`: laws of a commutative group, valid for `int` (no
overflow), `unsigned` (modulo 2^32) and `double` on exactly representable values alike -/
class ShiftLaws (α : Type) [Add α] [Sub α] : Prop where
  add_sub_cancel : ∀ a v : α, a + v - v = a
  sub_add_cancel : ∀ a v : α, a - v + v = a
  add_sub_add : ∀ a b v : α, (a + v) - (b + v) = a - b
  sub_sub_sub : ∀ a b v : α, (a - v) - (b - v) = a - b

namespace Range
section
variable {α : Type} [LE α] [LT α] [DecidableLE α] [DecidableLT α] [DecidableEq α]

/-- point membership in the half-open interval `[b,e[` -/
def mem (p : α) (x : Range α) : Prop := x.b ≤ p ∧ p < x.e
def WF (x : Range α) : Prop := x.b ≤ x.e
/-- disjointness of two stored ranges, as end-point arithmetic -/
def Disj (x y : Range α) : Prop := x.e ≤ y.b ∨ y.e ≤ x.b

theorem overlap_eq (x r : Range α) : x.overlap r = true ↔ (r.b < x.e ∧ x.b < r.e) := by
  simp [overlap]
theorem overlap_false (x r : Range α) : x.overlap r = false ↔ ¬ (r.b < x.e ∧ x.b < r.e) := by
  rw [← overlap_eq]; simp
theorem contains_eq (x r : Range α) : x.contains r = true ↔ (x.b ≤ r.b ∧ r.e ≤ x.e) := by
  simp [contains]
theorem isEmpty_eq (x : Range α) : x.isEmpty = true ↔ x.b = x.e := by
  simp [isEmpty]
theorem lt_eq (x y : Range α) : x.lt y = true ↔ (x.b < y.b ∨ x.e < y.e) := by
  simp [lt]
@[simp] theorem clone_eq (x : Range α) : x.clone = x := rfl

variable [Std.IsLinearOrder α] [Std.LawfulOrderLT α]

/-- a non-empty half-open interval is determined by its points -/
theorem ext_of_mem (x y : Range α) (hx : x.b < x.e) (h : ∀ p, mem p x ↔ mem p y) : x = y := by
  have h1 := h x.b
  have h2 := h y.b
  have h3 := h x.e
  have h4 := h y.e
  cases x; cases y
  simp only [mem, Range.mk.injEq] at *
  grind

end
end Range

namespace MultiRange
open Range
section
variable {α : Type}

theorem mem_insertBy (lt) (x z : Range α) (l : List (Range α)) :
    z ∈ insertBy lt x l ↔ z = x ∨ z ∈ l := by
  induction l with
  | nil => simp [insertBy]
  | cons y ys ih =>
    unfold insertBy
    split
    · simp
    · simp [ih]; constructor
      · rintro (h | h | h) <;> simp [h]
      · rintro (h | h | h) <;> simp [h]

theorem mem_sortBy (lt) (z : Range α) (l : List (Range α)) : z ∈ sortBy lt l ↔ z ∈ l := by
  induction l with
  | nil => simp [sortBy]
  | cons y ys ih => simp [sortBy, mem_insertBy, ih]

theorem length_insertBy (lt) (x : Range α) (l : List (Range α)) :
    (insertBy lt x l).length = l.length + 1 := by
  induction l with
  | nil => simp [insertBy]
  | cons y ys ih => unfold insertBy; split <;> simp [ih]

theorem length_sortBy (lt) (l : List (Range α)) : (sortBy lt l).length = l.length := by
  induction l with
  | nil => simp [sortBy]
  | cons y ys ih => simp [sortBy, length_insertBy, ih]

variable [LE α] [LT α] [DecidableLE α] [DecidableLT α] [DecidableEq α] [OfNat α 0]

/-- the order the sorted list is in -/
def R (x y : Range α) : Prop := x.e ≤ y.b

/-- points denoted by a list of ranges -/
def pts (m : List (Range α)) (p : α) : Prop := ∃ x ∈ m, mem p x

/-- representation invariant of a multi-range: non-empty ranges in ascending order, pairwise
disjoint (touching allowed).  No restriction on the sign of the coordinates since the round-2
audit repair of `clean_`. -/
def Inv (m : List (Range α)) : Prop := (∀ x ∈ m, x.b < x.e) ∧ m.Pairwise R

/-- two ranges `clean_` may be handed together: disjoint, unless one of them is empty (an empty
range — the `[0,0[` of `sliceWith`, or an empty argument — may lie anywhere) -/
def DisjNE (x y : Range α) : Prop := x.b = x.e ∨ y.b = y.e ∨ Disj x y

/-- what `clean_` is handed -/
def PreClean (l : List (Range α)) : Prop := (∀ x ∈ l, x.b ≤ x.e) ∧ l.Pairwise DisjNE

theorem Disj.ne {x y : Range α} (h : Disj x y) : DisjNE x y := Or.inr (Or.inr h)

theorem mem_clean (l : List (Range α)) (y : Range α) : y ∈ clean l ↔ y ∈ l ∧ y.b ≠ y.e := by
  simp [clean, List.mem_filter, mem_sortBy, Range.isEmpty]

theorem R.disj {x y : Range α} (h : R x y) : Disj x y := Or.inl h
theorem Disj.symm {x y : Range α} (h : Disj x y) : Disj y x := Or.symm h

theorem disj_of_mem {l : List (Range α)} (h : l.Pairwise R) {z w : Range α} (hz : z ∈ l) (hw : w ∈ l)
    (hne : z ≠ w) : Disj z w := by
  induction l with
  | nil => cases hz
  | cons a as ih =>
    rw [List.pairwise_cons] at h
    rcases List.mem_cons.mp hz with e1 | e1 <;> rcases List.mem_cons.mp hw with e2 | e2
    · subst e1; subst e2; exact absurd rfl hne
    · subst e1; exact Or.inl (h.1 w e2)
    · subst e2; exact Or.inr (h.1 z e1)
    · exact ih h.2 e1 e2

theorem mergeInto_none (r : Range α) (m : List (Range α)) :
    mergeInto r m = none ↔ ∀ x ∈ m, x.overlap r = false := by
  induction m with
  | nil => simp [mergeInto]
  | cons x xs ih =>
    unfold mergeInto
    split
    · rename_i h; simp [h]
    · rename_i h
      cases hm : mergeInto r xs with
      | none => simp [h]; exact ih.mp hm
      | some v =>
        simp [h]
        apply Classical.byContradiction
        intro hc
        have : ∀ y ∈ xs, y.overlap r = false := by
          intro y hy
          cases hyo : y.overlap r with
          | false => rfl
          | true => exact absurd ⟨y, hy, hyo⟩ hc
        have := ih.mpr this
        rw [hm] at this; cases this

variable [Std.IsLinearOrder α] [Std.LawfulOrderLT α]

theorem insertBy_sorted (x : Range α) (l : List (Range α)) (hx : x.WF)
    (hl : ∀ y ∈ l, y.WF ∧ Disj x y) (hs : l.Pairwise R) :
    (insertBy Range.lt x l).Pairwise R := by
  induction l with
  | nil => simp [insertBy]
  | cons y ys ih =>
    have hy := hl y (by simp)
    have hys : ∀ z ∈ ys, z.WF ∧ Disj x z := fun z hz => hl z (by simp [hz])
    rw [List.pairwise_cons] at hs
    unfold insertBy
    split
    · rename_i hlt
      rw [lt_eq] at hlt
      rw [List.pairwise_cons]
      refine ⟨?_, List.pairwise_cons.mpr hs⟩
      intro z hz
      have hxy : R x y := by
        have h1 := hy.1; have h2 := hy.2
        simp only [R, WF, Disj] at *; grind
      rcases List.mem_cons.mp hz with h | h
      · subst h; exact hxy
      · have h1 := hs.1 z h; have hw := hy.1
        simp only [R, WF] at *; grind
    · rename_i hlt
      rw [lt_eq] at hlt
      rw [List.pairwise_cons]
      refine ⟨?_, ih hys hs.2⟩
      intro z hz
      rw [mem_insertBy] at hz
      rcases hz with h | h
      · subst h
        have hw := hy.1; have hd := hy.2
        simp only [R, WF, Disj] at *; grind
      · exact hs.1 z h

theorem sortBy_sorted (l : List (Range α)) (hw : ∀ x ∈ l, x.WF) (hd : l.Pairwise Disj) :
    (sortBy Range.lt l).Pairwise R := by
  induction l with
  | nil => simp [sortBy]
  | cons x xs ih =>
    rw [List.pairwise_cons] at hd
    unfold sortBy
    apply insertBy_sorted
    · exact hw x (by simp)
    · intro y hy
      rw [mem_sortBy] at hy
      exact ⟨hw y (by simp [hy]), hd.1 y hy⟩
    · exact ih (fun y hy => hw y (by simp [hy])) hd.2

/-- what `std::sort` is handed inside `clean_`: non-empty, well-formed, pairwise disjoint ranges -/
theorem clean_sort_input (l : List (Range α)) (h : PreClean l) :
    (∀ x ∈ l.filter (fun x => !x.isEmpty), x.b < x.e) ∧
    (l.filter (fun x => !x.isEmpty)).Pairwise Disj := by
  constructor
  · intro x hx
    simp only [List.mem_filter, Range.isEmpty, Bool.not_eq_eq_eq_not, Bool.not_true,
      decide_eq_false_iff_not] at hx
    have := h.1 x hx.1
    grind
  · apply List.Pairwise.imp_of_mem _ (h.2.filter _)
    intro x y hx hy hxy
    simp only [List.mem_filter, Range.isEmpty, Bool.not_eq_eq_eq_not, Bool.not_true,
      decide_eq_false_iff_not] at hx hy
    rcases hxy with e | e | e
    · exact absurd e hx.2
    · exact absurd e hy.2
    · exact e

theorem clean_spec (l : List (Range α)) (h : PreClean l) :
    Inv (clean l) ∧ ∀ p, pts (clean l) p ↔ pts l p := by
  have hin := clean_sort_input l h
  have hs := sortBy_sorted _ (fun x hx => by have := hin.1 x hx; simp only [WF]; grind) hin.2
  constructor
  · constructor
    · intro x hx
      rw [mem_clean] at hx
      have := h.1 x hx.1
      have hne := hx.2
      grind
    · exact hs
  · intro p
    simp only [pts, mem_clean]
    constructor
    · rintro ⟨x, ⟨hx, _⟩, hp⟩; exact ⟨x, hx, hp⟩
    · rintro ⟨x, hx, hp⟩
      refine ⟨x, ⟨hx, ?_⟩, hp⟩
      simp only [mem] at hp; grind

/-- one expansion step of the merge fold -/
theorem expand_mem (acc y : Range α) (h : y.b ≤ acc.e ∧ acc.b ≤ y.e) (ha : acc.b ≤ acc.e) (p : α) :
    mem p (acc.expandWith y) ↔ mem p acc ∨ mem p y := by
  simp only [Range.expandWith, mem]; grind

/-- the merge fold of `addRange`: starting from an accumulator that spans `r`, expanding with
ranges that overlap `r` yields the hull, which denotes the union -/
theorem fold_expand (r : Range α) (S : List (Range α)) (acc : Range α)
    (hacc : acc.b ≤ r.b ∧ r.e ≤ acc.e ∧ acc.b < acc.e)
    (hS : ∀ y ∈ S, y.overlap r = true ∧ y.b < y.e) :
    let z := S.foldl Range.expandWith acc
    (z.b ≤ r.b ∧ r.e ≤ z.e ∧ z.b < z.e) ∧ (∀ p, mem p z ↔ mem p acc ∨ ∃ y ∈ S, mem p y) ∧
    (∀ w : Range α, w.b < w.e → Disj w acc → (∀ y ∈ S, Disj w y) → Disj w z) := by
  induction S generalizing acc with
  | nil => simp; exact hacc
  | cons y ys ih =>
    have hy := hS y (by simp)
    rw [overlap_eq] at hy
    have hacc' : (acc.expandWith y).b ≤ r.b ∧ r.e ≤ (acc.expandWith y).e ∧ (acc.expandWith y).b < (acc.expandWith y).e := by
      simp only [Range.expandWith]; grind
    have := ih (acc.expandWith y) hacc' (fun z hz => hS z (by simp [hz]))
    simp only [List.foldl_cons]
    refine ⟨this.1, ?_, ?_⟩
    · intro p
      rw [this.2.1 p]
      have hstep : mem p (acc.expandWith y) ↔ mem p acc ∨ mem p y :=
        expand_mem acc y (by grind) (by grind) p
      rw [hstep]
      constructor
      · rintro ((h | h) | ⟨z, hz, hp⟩)
        · exact Or.inl h
        · exact Or.inr ⟨y, by simp, h⟩
        · exact Or.inr ⟨z, by simp [hz], hp⟩
      · rintro (h | ⟨z, hz, hp⟩)
        · exact Or.inl (Or.inl h)
        · rcases List.mem_cons.mp hz with e | e
          · subst e; exact Or.inl (Or.inr hp)
          · exact Or.inr ⟨z, e, hp⟩
    · intro w hw hwa hwS
      apply this.2.2 w hw
      · have hwy := hwS y (by simp)
        simp only [Range.expandWith, Disj] at *; grind
      · intro z hz; exact hwS z (by simp [hz])

/-- what the merge loop of `addRange` hands to `clean_` when some stored range overlaps `r`:
the untouched ranges plus one merged range `mg`, which is non-empty and denotes the union of
`r` with every overlapped range -/
theorem mergeInto_some (r : Range α) (hr : r.b ≤ r.e) (m : List (Range α)) (hm : Inv m)
    (mg : Range α) (l : List (Range α)) (h : mergeInto r m = some (mg, l)) :
    PreClean l ∧ (∀ p, pts l p ↔ pts m p ∨ mem p r) ∧
    (∀ w : Range α, w.b < w.e → w.overlap r = false → (∀ y ∈ m, Disj w y) → ∀ y ∈ l, Disj w y) ∧
    (∀ y, y ∈ l ↔ (y ∈ m ∧ y.overlap r = false) ∨ y = mg) ∧
    mg.b < mg.e ∧ (∀ p, mem p mg ↔ mem p r ∨ ∃ x ∈ m, x.overlap r = true ∧ mem p x) := by
  induction m generalizing mg l with
  | nil => simp [mergeInto] at h
  | cons x xs ih =>
    have hx := hm.1 x (by simp)
    have hxs : Inv xs := ⟨fun y hy => hm.1 y (by simp [hy]), (List.pairwise_cons.mp hm.2).2⟩
    have hRx : ∀ y ∈ xs, R x y := (List.pairwise_cons.mp hm.2).1
    unfold mergeInto at h
    split at h
    · rename_i hov
      have hov' := (overlap_eq x r).mp hov
      simp only [Option.some.injEq, Prod.mk.injEq] at h
      obtain ⟨hmg, hl⟩ := h
      -- the fold
      have hacc : (x.expandWith r).b ≤ r.b ∧ r.e ≤ (x.expandWith r).e ∧ (x.expandWith r).b < (x.expandWith r).e := by
        simp only [Range.expandWith]; grind
      have hS : ∀ y ∈ (xs.filter (fun y => y.overlap r)).reverse, y.overlap r = true ∧ y.b < y.e := by
        intro y hy
        simp only [List.mem_reverse, List.mem_filter] at hy
        exact ⟨hy.2, hxs.1 y hy.1⟩
      have F := fold_expand r _ _ hacc hS
      simp only at F
      subst hmg
      obtain ⟨F1, F2, F3⟩ := F
      have hacc_mem : ∀ p, mem p (x.expandWith r) ↔ mem p x ∨ mem p r := by
        intro p; exact expand_mem x r (by grind) (by grind) p
      -- Disj of an outside range with the merged range
      have hout : ∀ w : Range α, w.b < w.e → w.overlap r = false → Disj w x →
          (∀ y ∈ xs, y.overlap r = true → Disj w y) →
          Disj w (List.foldl Range.expandWith (x.expandWith r) (xs.filter (fun y => y.overlap r)).reverse) := by
        intro w hwne hwov hwx hwy
        have hwov' := (overlap_false w r).mp hwov
        apply F3 w hwne
        · simp only [Range.expandWith, Disj] at *; grind
        · intro z hz
          simp only [List.mem_reverse, List.mem_filter] at hz
          exact hwy z hz.1 hz.2
      subst hl
      refine ⟨⟨?_, ?_⟩, ?_, ?_, ?_, F1.2.2, ?_⟩
      · intro y hy
        rcases List.mem_cons.mp hy with e | e
        · rw [e]; grind
        · simp only [List.mem_filter] at e
          have := hxs.1 y e.1; grind
      · rw [List.pairwise_cons]
        constructor
        · intro w hw
          apply Disj.ne
          simp only [List.mem_filter] at hw
          have hwne := hxs.1 w hw.1
          have hwov : w.overlap r = false := by
            have := hw.2; simpa using this
          apply Disj.symm
          apply hout w hwne hwov (Or.inr (hRx w hw.1))
          intro z hz hzo
          apply disj_of_mem hxs.2 hw.1 hz
          intro e; subst e; rw [hwov] at hzo; cases hzo
        · exact (hxs.2.imp (fun h => Disj.ne (R.disj h))).filter _
      · intro p
        simp only [pts, List.mem_cons, List.mem_filter]
        constructor
        · rintro ⟨y, (e | e), hp⟩
          · subst e
            rcases (F2 p).mp hp with h1 | ⟨z, hz, hpz⟩
            · rcases (hacc_mem p).mp h1 with h2 | h2
              · exact Or.inl ⟨x, Or.inl rfl, h2⟩
              · exact Or.inr h2
            · simp only [List.mem_reverse, List.mem_filter] at hz
              exact Or.inl ⟨z, Or.inr hz.1, hpz⟩
          · exact Or.inl ⟨y, Or.inr e.1, hp⟩
        · rintro (⟨y, (e | e), hp⟩ | hp)
          · subst e
            exact ⟨_, Or.inl rfl, (F2 p).mpr (Or.inl ((hacc_mem p).mpr (Or.inl hp)))⟩
          · cases hyo : y.overlap r with
            | true =>
              exact ⟨_, Or.inl rfl, (F2 p).mpr (Or.inr ⟨y, by simp [e, hyo], hp⟩)⟩
            | false => exact ⟨y, Or.inr ⟨e, by simp [hyo]⟩, hp⟩
          · exact ⟨_, Or.inl rfl, (F2 p).mpr (Or.inl ((hacc_mem p).mpr (Or.inr hp)))⟩
      · intro w hwne hwov hwm y hy
        rcases List.mem_cons.mp hy with e | e
        · rw [e]
          exact hout w hwne hwov (hwm x (by simp)) (fun z hz _ => hwm z (by simp [hz]))
        · simp only [List.mem_filter] at e
          exact hwm y (by simp [e.1])
      · intro y
        simp only [List.mem_cons, List.mem_filter]
        constructor
        · rintro (e | ⟨e, ho⟩)
          · exact Or.inr e
          · exact Or.inl ⟨Or.inr e, by simpa using ho⟩
        · rintro (⟨(e | e), ho⟩ | e)
          · subst e; rw [hov] at ho; cases ho
          · exact Or.inr ⟨e, by simp [ho]⟩
          · exact Or.inl e
      · intro p
        rw [F2 p, hacc_mem p]
        simp only [List.mem_reverse, List.mem_filter, List.mem_cons]
        constructor
        · rintro ((h1 | h1) | ⟨z, ⟨hz, hzo⟩, hpz⟩)
          · exact Or.inr ⟨x, Or.inl rfl, hov, h1⟩
          · exact Or.inl h1
          · exact Or.inr ⟨z, Or.inr hz, hzo, hpz⟩
        · rintro (h1 | ⟨z, (e | e), hzo, hpz⟩)
          · exact Or.inl (Or.inr h1)
          · subst e; exact Or.inl (Or.inl hpz)
          · exact Or.inr ⟨z, ⟨e, hzo⟩, hpz⟩
    · rename_i hov
      cases hrec : mergeInto r xs with
      | none => rw [hrec] at h; cases h
      | some v =>
        obtain ⟨mg', l'⟩ := v
        rw [hrec] at h
        simp only [Option.some.injEq, Prod.mk.injEq] at h
        obtain ⟨hmg, hl⟩ := h
        subst hmg; subst hl
        obtain ⟨I1, I2, I3, I4, I5, I6⟩ := ih hxs mg' l' hrec
        have hxov : x.overlap r = false := by simpa using hov
        refine ⟨⟨?_, ?_⟩, ?_, ?_, ?_, I5, ?_⟩
        · intro y hy
          rcases List.mem_cons.mp hy with e | e
          · subst e; grind
          · exact I1.1 y e
        · rw [List.pairwise_cons]
          exact ⟨fun y hy => Disj.ne (I3 x hx hxov (fun y hy => Or.inl (hRx y hy)) y hy), I1.2⟩
        · intro p
          simp only [pts, List.mem_cons]
          constructor
          · rintro ⟨y, (e | e), hp⟩
            · subst e; exact Or.inl ⟨y, Or.inl rfl, hp⟩
            · rcases (I2 p).mp ⟨y, e, hp⟩ with ⟨z, hz, hpz⟩ | h2
              · exact Or.inl ⟨z, Or.inr hz, hpz⟩
              · exact Or.inr h2
          · rintro (⟨y, (e | e), hp⟩ | hp)
            · subst e; exact ⟨y, Or.inl rfl, hp⟩
            · obtain ⟨z, hz, hpz⟩ := (I2 p).mpr (Or.inl ⟨y, e, hp⟩)
              exact ⟨z, Or.inr hz, hpz⟩
            · obtain ⟨z, hz, hpz⟩ := (I2 p).mpr (Or.inr hp)
              exact ⟨z, Or.inr hz, hpz⟩
        · intro w hwne hwov hwm y hy
          rcases List.mem_cons.mp hy with e | e
          · subst e; exact hwm y (by simp)
          · exact I3 w hwne hwov (fun z hz => hwm z (by simp [hz])) y e
        · intro y
          simp only [List.mem_cons]
          rw [I4 y]
          constructor
          · rintro (e | ⟨e, ho⟩ | e)
            · subst e; exact Or.inl ⟨Or.inl rfl, hxov⟩
            · exact Or.inl ⟨Or.inr e, ho⟩
            · exact Or.inr e
          · rintro (⟨(e | e), ho⟩ | e)
            · exact Or.inl e
            · exact Or.inr (Or.inl ⟨e, ho⟩)
            · exact Or.inr (Or.inr e)
        · intro p
          rw [I6 p]
          simp only [List.mem_cons]
          constructor
          · rintro (h1 | ⟨z, hz, hzo, hpz⟩)
            · exact Or.inl h1
            · exact Or.inr ⟨z, Or.inr hz, hzo, hpz⟩
          · rintro (h1 | ⟨z, (e | e), hzo, hpz⟩)
            · exact Or.inl h1
            · subst e; rw [hxov] at hzo; cases hzo
            · exact Or.inr ⟨z, e, hzo, hpz⟩

/-- an `R`-sorted list of non-empty ranges has no duplicates and is determined by its members -/
theorem sorted_ext (l₁ l₂ : List (Range α)) (h1 : Inv l₁) (h2 : Inv l₂)
    (h : ∀ y, y ∈ l₁ ↔ y ∈ l₂) : l₁ = l₂ := by
  induction l₁ generalizing l₂ with
  | nil =>
    cases l₂ with
    | nil => rfl
    | cons b bs => exact absurd ((h b).mpr (by simp)) (by simp)
  | cons a as ih =>
    cases l₂ with
    | nil => exact absurd ((h a).mp (by simp)) (by simp)
    | cons b bs =>
      have ha := h1.1 a (by simp)
      have hb := h2.1 b (by simp)
      have hRa := (List.pairwise_cons.mp h1.2).1
      have hRb := (List.pairwise_cons.mp h2.2).1
      have hab : a = b := by
        rcases List.mem_cons.mp ((h a).mp (by simp)) with e | e
        · exact e
        · rcases List.mem_cons.mp ((h b).mpr (by simp)) with e' | e'
          · exact e'.symm
          · have r1 := hRb a e
            have r2 := hRa b e'
            simp only [R] at r1 r2; grind
      subst hab
      have h1' : Inv as := ⟨fun y hy => h1.1 y (by simp [hy]), (List.pairwise_cons.mp h1.2).2⟩
      have h2' : Inv bs := ⟨fun y hy => h2.1 y (by simp [hy]), (List.pairwise_cons.mp h2.2).2⟩
      have notin : ∀ (l : List (Range α)), (∀ y ∈ l, R a y) → a ∉ l := by
        intro l hl hmem
        have := hl a hmem
        simp only [R] at this; grind
      congr 1
      apply ih bs h1' h2'
      intro y
      constructor
      · intro hy
        rcases List.mem_cons.mp ((h y).mp (by simp [hy])) with e | e
        · subst e; exact absurd hy (notin as hRa)
        · exact e
      · intro hy
        rcases List.mem_cons.mp ((h y).mpr (by simp [hy])) with e | e
        · subst e; exact absurd hy (notin bs hRb)
        · exact e

end
end MultiRange
end Bpp
