import BppModel.Range
/-! Helper lemmas for C20 (Range.h).  Property theorems are in `Props/C20.lean`. -/
namespace Bpp
namespace Range

/-- point membership in the half-open interval `[b,e[` -/
def mem (p : Int) (x : Range) : Prop := x.b ≤ p ∧ p < x.e
def WF (x : Range) : Prop := x.b ≤ x.e
/-- disjointness of two stored ranges, as end-point arithmetic -/
def Disj (x y : Range) : Prop := x.e ≤ y.b ∨ y.e ≤ x.b

theorem overlap_eq (x r : Range) : x.overlap r = true ↔ (r.b < x.e ∧ r.e > x.b) := by
  simp [overlap]
theorem contains_eq (x r : Range) : x.contains r = true ↔ (r.b ≥ x.b ∧ r.e ≤ x.e) := by
  simp [contains]
theorem isEmpty_eq (x : Range) : x.isEmpty = true ↔ x.b = x.e := by
  simp [isEmpty]
theorem lt_eq (x y : Range) : x.lt y = true ↔ (x.b < y.b ∨ x.e < y.e) := by
  simp [lt]

end Range

namespace MultiRange
open Range

theorem mem_insertBy (lt) (x z : Range) (l : List Range) :
    z ∈ insertBy lt x l ↔ z = x ∨ z ∈ l := by
  induction l with
  | nil => simp [insertBy]
  | cons y ys ih =>
    unfold insertBy
    split
    · simp
    · simp [ih]; constructor
      · rintro (h | h | h) <;> simp [h]
      · rintro (h | h | h) <;> simp [h]

theorem mem_sortBy (lt) (z : Range) (l : List Range) : z ∈ sortBy lt l ↔ z ∈ l := by
  induction l with
  | nil => simp [sortBy]
  | cons y ys ih => simp [sortBy, mem_insertBy, ih]

/-- the order the sorted list is in -/
def R (x y : Range) : Prop := x.e ≤ y.b

theorem insertBy_sorted (x : Range) (l : List Range) (hx : x.WF)
    (hl : ∀ y ∈ l, y.WF ∧ Disj x y) (hs : l.Pairwise R) :
    (insertBy Range.lt x l).Pairwise R := by
  induction l with
  | nil => simp [insertBy]
  | cons y ys ih =>
    have hy := hl y (by simp)
    have hys : ∀ z ∈ ys, z.WF ∧ Disj x z := fun z hz => hl z (by simp [hz])
    rw [List.pairwise_cons] at hs
    unfold insertBy
    split
    · rename_i hlt
      rw [lt_eq] at hlt
      rw [List.pairwise_cons]
      refine ⟨?_, List.pairwise_cons.mpr hs⟩
      intro z hz
      have hxy : R x y := by
        unfold R; unfold WF at hx; have := hy.1; unfold WF at this; have hd := hy.2; unfold Disj at hd; omega
      rcases List.mem_cons.mp hz with h | h
      · subst h; exact hxy
      · have := hs.1 z h; unfold R at *; have hw := hy.1; unfold WF at hw; omega
    · rename_i hlt
      rw [lt_eq] at hlt
      rw [List.pairwise_cons]
      refine ⟨?_, ih hys hs.2⟩
      intro z hz
      rw [mem_insertBy] at hz
      rcases hz with h | h
      · subst h; unfold R; unfold WF at hx; have hw := hy.1; unfold WF at hw; have hd := hy.2; unfold Disj at hd; omega
      · exact hs.1 z h

theorem sortBy_sorted (l : List Range) (hw : ∀ x ∈ l, x.WF) (hd : l.Pairwise Disj) :
    (sortBy Range.lt l).Pairwise R := by
  induction l with
  | nil => simp [sortBy]
  | cons x xs ih =>
    rw [List.pairwise_cons] at hd
    unfold sortBy
    apply insertBy_sorted
    · exact hw x (by simp)
    · intro y hy
      rw [mem_sortBy] at hy
      exact ⟨hw y (by simp [hy]), hd.1 y hy⟩
    · exact ih (fun y hy => hw y (by simp [hy])) hd.2

end MultiRange
end Bpp

namespace Bpp
namespace MultiRange
open Range

/-- points denoted by a list of ranges -/
def pts (m : List Range) (p : Int) : Prop := ∃ x ∈ m, mem p x

/-- representation invariant of a multi-range (non-negative universe) -/
def Inv (m : List Range) : Prop := (∀ x ∈ m, 0 ≤ x.b ∧ x.b < x.e) ∧ m.Pairwise R

/-- what `clean_` is handed -/
def PreClean (l : List Range) : Prop := (∀ x ∈ l, 0 ≤ x.b ∧ x.b ≤ x.e) ∧ l.Pairwise Disj

theorem clean_spec (l : List Range) (h : PreClean l) :
    Inv (clean l) ∧ ∀ p, pts (clean l) p ↔ pts l p := by
  have hs := sortBy_sorted l (fun x hx => (h.1 x hx).2) h.2
  constructor
  · constructor
    · intro x hx
      simp only [clean, List.mem_filter, mem_sortBy] at hx
      have := h.1 x hx.1
      have hne : x.b ≠ x.e := by
        have := hx.2; simp [Range.isEmpty] at this; exact this
      omega
    · exact hs.filter _
  · intro p
    simp only [pts, clean, List.mem_filter, mem_sortBy]
    constructor
    · rintro ⟨x, ⟨hx, _⟩, hp⟩; exact ⟨x, hx, hp⟩
    · rintro ⟨x, hx, hp⟩
      refine ⟨x, ⟨hx, ?_⟩, hp⟩
      simp [Range.isEmpty]; unfold mem at hp; omega

/-- the merge fold of `addRange`: starting from an accumulator that spans `r`, expanding with
ranges that overlap `r` yields the hull, which denotes the union -/
theorem fold_expand (r : Range) (S : List Range) (acc : Range)
    (hacc : acc.b ≤ r.b ∧ r.e ≤ acc.e ∧ acc.b < acc.e)
    (hS : ∀ y ∈ S, y.overlap r = true ∧ y.b < y.e) :
    let z := S.foldl Range.expandWith acc
    (z.b ≤ r.b ∧ r.e ≤ z.e ∧ z.b < z.e) ∧ (∀ p, mem p z ↔ mem p acc ∨ ∃ y ∈ S, mem p y) ∧
    (∀ w : Range, w.b < w.e → Disj w acc → (∀ y ∈ S, Disj w y) → Disj w z) ∧
    (0 ≤ acc.b → (∀ y ∈ S, 0 ≤ y.b) → 0 ≤ z.b) := by
  induction S generalizing acc with
  | nil => simp; exact hacc
  | cons y ys ih =>
    have hy := hS y (by simp)
    rw [overlap_eq] at hy
    have hacc' : (acc.expandWith y).b ≤ r.b ∧ r.e ≤ (acc.expandWith y).e ∧ (acc.expandWith y).b < (acc.expandWith y).e := by
      simp only [Range.expandWith]; split <;> split <;> omega
    have := ih (acc.expandWith y) hacc' (fun z hz => hS z (by simp [hz]))
    simp only [List.foldl_cons]
    refine ⟨this.1, ?_, ?_, ?_⟩
    · intro p
      rw [this.2.1 p]
      have hstep : mem p (acc.expandWith y) ↔ mem p acc ∨ mem p y := by
        simp only [Range.expandWith, mem]; split <;> split <;> omega
      rw [hstep]
      constructor
      · rintro ((h | h) | ⟨z, hz, hp⟩)
        · exact Or.inl h
        · exact Or.inr ⟨y, by simp, h⟩
        · exact Or.inr ⟨z, by simp [hz], hp⟩
      · rintro (h | ⟨z, hz, hp⟩)
        · exact Or.inl (Or.inl h)
        · rcases List.mem_cons.mp hz with e | e
          · subst e; exact Or.inl (Or.inr hp)
          · exact Or.inr ⟨z, e, hp⟩
    · intro w hw hwa hwS
      apply this.2.2.1 w hw
      · have hwy := hwS y (by simp)
        simp only [Range.expandWith, Disj] at *; split <;> split <;> omega
      · intro z hz; exact hwS z (by simp [hz])
    · intro h0 hS0
      apply this.2.2.2
      · have := hS0 y (by simp)
        simp only [Range.expandWith]; split <;> omega
      · intro z hz; exact hS0 z (by simp [hz])

end MultiRange
end Bpp

namespace Bpp
namespace MultiRange
open Range

theorem R.disj {x y : Range} (h : R x y) : Disj x y := Or.inl h
theorem Disj.symm {x y : Range} (h : Disj x y) : Disj y x := Or.symm h

theorem disj_of_mem {l : List Range} (h : l.Pairwise R) {z w : Range} (hz : z ∈ l) (hw : w ∈ l)
    (hne : z ≠ w) : Disj z w := by
  induction l with
  | nil => cases hz
  | cons a as ih =>
    rw [List.pairwise_cons] at h
    rcases List.mem_cons.mp hz with e1 | e1 <;> rcases List.mem_cons.mp hw with e2 | e2
    · subst e1; subst e2; exact absurd rfl hne
    · subst e1; exact Or.inl (h.1 w e2)
    · subst e2; exact Or.inr (h.1 z e1)
    · exact ih h.2 e1 e2

theorem mergeInto_none (r : Range) (m : List Range) :
    mergeInto r m = none ↔ ∀ x ∈ m, x.overlap r = false := by
  induction m with
  | nil => simp [mergeInto]
  | cons x xs ih =>
    unfold mergeInto
    split
    · rename_i h; simp [h]
    · rename_i h
      cases hm : mergeInto r xs with
      | none => simp [h]; exact ih.mp hm
      | some v =>
        simp [h]
        apply Classical.byContradiction
        intro hc
        have : ∀ y ∈ xs, y.overlap r = false := by
          intro y hy
          cases hyo : y.overlap r with
          | false => rfl
          | true => exact absurd ⟨y, hy, hyo⟩ hc
        have := ih.mpr this
        rw [hm] at this; cases this

theorem mergeInto_some (r : Range) (hr : r.b ≤ r.e ∧ 0 ≤ r.b) (m : List Range) (hm : Inv m)
    (mg : Range) (l : List Range) (h : mergeInto r m = some (mg, l)) :
    PreClean l ∧ (∀ p, pts l p ↔ pts m p ∨ mem p r) ∧
    (∀ w : Range, w.b < w.e → w.overlap r = false → (∀ y ∈ m, Disj w y) → ∀ y ∈ l, Disj w y) := by
  induction m generalizing mg l with
  | nil => simp [mergeInto] at h
  | cons x xs ih =>
    have hx := hm.1 x (by simp)
    have hxs : Inv xs := ⟨fun y hy => hm.1 y (by simp [hy]), (List.pairwise_cons.mp hm.2).2⟩
    have hRx : ∀ y ∈ xs, R x y := (List.pairwise_cons.mp hm.2).1
    unfold mergeInto at h
    split at h
    · rename_i hov
      have hov' := (overlap_eq x r).mp hov
      simp only [Option.some.injEq, Prod.mk.injEq] at h
      obtain ⟨hmg, hl⟩ := h
      -- the fold
      have hacc : (x.expandWith r).b ≤ r.b ∧ r.e ≤ (x.expandWith r).e ∧ (x.expandWith r).b < (x.expandWith r).e := by
        simp only [Range.expandWith]; split <;> split <;> omega
      have hS : ∀ y ∈ (xs.filter (fun y => y.overlap r)).reverse, y.overlap r = true ∧ y.b < y.e := by
        intro y hy
        simp only [List.mem_reverse, List.mem_filter] at hy
        exact ⟨hy.2, (hxs.1 y hy.1).2⟩
      have F := fold_expand r _ _ hacc hS
      simp only at F
      subst hmg
      obtain ⟨F1, F2, F3, F4⟩ := F
      have hacc_mem : ∀ p, mem p (x.expandWith r) ↔ mem p x ∨ mem p r := by
        intro p; simp only [Range.expandWith, mem]; split <;> split <;> omega
      -- Disj of an outside range with the merged range
      have hout : ∀ w : Range, w.b < w.e → w.overlap r = false → Disj w x →
          (∀ y ∈ xs, y.overlap r = true → Disj w y) →
          Disj w (List.foldl Range.expandWith (x.expandWith r) (xs.filter (fun y => y.overlap r)).reverse) := by
        intro w hwne hwov hwx hwy
        have hwov' : ¬ (r.b < w.e ∧ r.e > w.b) := by
          simp [Range.overlap] at hwov; omega
        apply F3 w hwne
        · simp only [Range.expandWith, Disj] at *; split <;> split <;> omega
        · intro z hz
          simp only [List.mem_reverse, List.mem_filter] at hz
          exact hwy z hz.1 hz.2
      subst hl
      refine ⟨⟨?_, ?_⟩, ?_, ?_⟩
      · intro y hy
        rcases List.mem_cons.mp hy with e | e
        · have h0 : 0 ≤ (List.foldl Range.expandWith (x.expandWith r) (xs.filter (fun y => y.overlap r)).reverse).b := by
            apply F4
            · simp only [Range.expandWith]; split <;> omega
            · intro z hz; simp only [List.mem_reverse, List.mem_filter] at hz; exact (hxs.1 z hz.1).1
          rw [e]; omega
        · simp only [List.mem_filter] at e
          have := hxs.1 y e.1; omega
      · rw [List.pairwise_cons]
        constructor
        · intro w hw
          simp only [List.mem_filter] at hw
          have hwne := (hxs.1 w hw.1).2
          have hwov : w.overlap r = false := by
            have := hw.2; simpa using this
          apply Disj.symm
          apply hout w hwne hwov (Or.inr (hRx w hw.1))
          intro z hz hzo
          apply disj_of_mem hxs.2 hw.1 hz
          intro e; subst e; rw [hwov] at hzo; cases hzo
        · exact (hxs.2.imp R.disj).filter _
      · intro p
        simp only [pts, List.mem_cons, List.mem_filter]
        constructor
        · rintro ⟨y, (e | e), hp⟩
          · subst e
            rcases (F2 p).mp hp with h1 | ⟨z, hz, hpz⟩
            · rcases (hacc_mem p).mp h1 with h2 | h2
              · exact Or.inl ⟨x, Or.inl rfl, h2⟩
              · exact Or.inr h2
            · simp only [List.mem_reverse, List.mem_filter] at hz
              exact Or.inl ⟨z, Or.inr hz.1, hpz⟩
          · exact Or.inl ⟨y, Or.inr e.1, hp⟩
        · rintro (⟨y, (e | e), hp⟩ | hp)
          · subst e
            exact ⟨_, Or.inl rfl, (F2 p).mpr (Or.inl ((hacc_mem p).mpr (Or.inl hp)))⟩
          · cases hyo : y.overlap r with
            | true =>
              exact ⟨_, Or.inl rfl, (F2 p).mpr (Or.inr ⟨y, by simp [e, hyo], hp⟩)⟩
            | false => exact ⟨y, Or.inr ⟨e, by simp [hyo]⟩, hp⟩
          · exact ⟨_, Or.inl rfl, (F2 p).mpr (Or.inl ((hacc_mem p).mpr (Or.inr hp)))⟩
      · intro w hwne hwov hwm y hy
        rcases List.mem_cons.mp hy with e | e
        · rw [e]
          exact hout w hwne hwov (hwm x (by simp)) (fun z hz _ => hwm z (by simp [hz]))
        · simp only [List.mem_filter] at e
          exact hwm y (by simp [e.1])
    · rename_i hov
      cases hrec : mergeInto r xs with
      | none => rw [hrec] at h; cases h
      | some v =>
        obtain ⟨mg', l'⟩ := v
        rw [hrec] at h
        simp only [Option.some.injEq, Prod.mk.injEq] at h
        obtain ⟨hmg, hl⟩ := h
        subst hmg; subst hl
        obtain ⟨I1, I2, I3⟩ := ih hxs mg' l' hrec
        have hxov : x.overlap r = false := by simpa using hov
        refine ⟨⟨?_, ?_⟩, ?_, ?_⟩
        · intro y hy
          rcases List.mem_cons.mp hy with e | e
          · subst e; omega
          · exact I1.1 y e
        · rw [List.pairwise_cons]
          exact ⟨I3 x hx.2 hxov (fun y hy => Or.inl (hRx y hy)), I1.2⟩
        · intro p
          simp only [pts, List.mem_cons]
          constructor
          · rintro ⟨y, (e | e), hp⟩
            · subst e; exact Or.inl ⟨y, Or.inl rfl, hp⟩
            · rcases (I2 p).mp ⟨y, e, hp⟩ with ⟨z, hz, hpz⟩ | h2
              · exact Or.inl ⟨z, Or.inr hz, hpz⟩
              · exact Or.inr h2
          · rintro (⟨y, (e | e), hp⟩ | hp)
            · subst e; exact ⟨y, Or.inl rfl, hp⟩
            · obtain ⟨z, hz, hpz⟩ := (I2 p).mpr (Or.inl ⟨y, e, hp⟩)
              exact ⟨z, Or.inr hz, hpz⟩
            · obtain ⟨z, hz, hpz⟩ := (I2 p).mpr (Or.inr hp)
              exact ⟨z, Or.inr hz, hpz⟩
        · intro w hwne hwov hwm y hy
          rcases List.mem_cons.mp hy with e | e
          · subst e; exact hwm y (by simp)
          · exact I3 w hwne hwov (fun z hz => hwm z (by simp [hz])) y e

end MultiRange
end Bpp
