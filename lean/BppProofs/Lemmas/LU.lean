import BppModel.LU
import BppProofs.Lemmas.ScalarReal
import Mathlib.LinearAlgebra.Matrix.Block
import Mathlib.Algebra.BigOperators.Fin
import Mathlib.GroupTheory.Perm.Fin
/-! Helper lemmas for C05 (LU decomposition).  Property theorems are in `Props/C05.lean`. -/
namespace Bpp.LU
open Bpp

section Basic
variable {α : Type} {m n : Nat}

@[simp] theorem Mat.get_ofFn (f : Fin m → Fin n → α) (i : Fin m) (j : Fin n) :
    (Mat.ofFn f).get i j = f i j := by
  simp [Mat.get, Mat.ofFn]

theorem Mat.ext {A B : Mat α m n} (h : ∀ i j, A.get i j = B.get i j) : A = B := by
  apply Vector.ext; intro i hi
  apply Vector.ext; intro j hj
  exact h ⟨i, hi⟩ ⟨j, hj⟩

/-- invariant rule for an upward loop `for k in 0..n-1` -/
theorem foldl_inv {σ : Type} (P : Nat → σ → Prop) :
    ∀ (n : Nat) (f : σ → Fin n → σ) (s : σ), P 0 s →
      (∀ (k : Fin n) (t : σ), P k.val t → P (k.val + 1) (f t k)) → P n (Fin.foldl n f s) := by
  intro n
  induction n with
  | zero => intro f s h0 _; simpa using h0
  | succ n ih =>
    intro f s h0 hstep
    rw [Fin.foldl_succ_last]
    have := ih (fun t k => f t k.castSucc) s h0 (fun k t hk => hstep k.castSucc t hk)
    exact hstep (Fin.last n) _ this

/-- invariant rule for a downward loop `for k in n-1..0` -/
theorem foldr_inv {σ : Type} (P : Nat → σ → Prop) :
    ∀ (n : Nat) (f : Fin n → σ → σ) (s : σ), P n s →
      (∀ (k : Fin n) (t : σ), P (k.val + 1) t → P k.val (f k t)) → P 0 (Fin.foldr n f s) := by
  intro n
  induction n with
  | zero => intro f s h0 _; simpa using h0
  | succ n ih =>
    intro f s h0 hstep
    rw [Fin.foldr_succ_last]
    exact ih (fun k t => f k.castSucc t) (f (Fin.last n) s) (hstep (Fin.last n) s h0)
      (fun k t hk => hstep k.castSucc t hk)
end Basic

/-! ## sums -/
section Sums
variable {n : Nat}

theorem sumFin_eq (f : Fin n → ℝ) : sumFin n f = ∑ l : Fin n, f l := by
  unfold sumFin
  induction n with
  | zero => simp
  | succ n ih =>
    rw [Fin.foldl_succ_last, Fin.sum_univ_castSucc, ih]

/-- `Σ_{l < c} f l` -/
noncomputable def psum (c : Nat) (f : Fin n → ℝ) : ℝ := ∑ l : Fin n, if l.val < c then f l else 0

theorem psum_zero (f : Fin n → ℝ) : psum 0 f = 0 := by simp [psum]

theorem psum_succ (c : Nat) (hc : c < n) (f : Fin n → ℝ) : psum (c + 1) f = psum c f + f ⟨c, hc⟩ := by
  unfold psum
  have : f ⟨c, hc⟩ = ∑ l : Fin n, if l = ⟨c, hc⟩ then f l else 0 := by simp
  rw [this, ← Finset.sum_add_distrib]
  apply Finset.sum_congr rfl
  intro l _
  by_cases h1 : l.val < c
  · have : l ≠ ⟨c, hc⟩ := by intro h; rw [h] at h1; simp at h1
    simp [h1, this, Nat.lt_succ_of_lt h1]
  · by_cases h2 : l = ⟨c, hc⟩
    · subst h2; simp
    · have : ¬ l.val < c + 1 := by
        intro h; apply h2; ext; simp; omega
      simp [h1, h2, this]

theorem psum_congr (c : Nat) (f g : Fin n → ℝ) (h : ∀ l : Fin n, l.val < c → f l = g l) : psum c f = psum c g := by
  unfold psum
  apply Finset.sum_congr rfl
  intro l _
  by_cases h1 : l.val < c
  · simp [h1, h l h1]
  · simp [h1]

theorem psum_all (c : Nat) (hc : n ≤ c) (f : Fin n → ℝ) : psum c f = ∑ l : Fin n, f l := by
  unfold psum
  apply Finset.sum_congr rfl
  intro l _
  have : l.val < c := by omega
  simp [this]

theorem psum_eq_ite (c : Nat) (f : Fin n → ℝ) : psum c f = ∑ l : Fin n, if l.val < c then f l else 0 := rfl

end Sums

/-! ## the constructor: pivot search -/
section Pivot
variable {m n : Nat}

theorem numAbs_eq (x : ℝ) : numAbs x = |x| := by
  unfold numAbs
  simp only [ScalarReal.ltb_iff, ScalarReal.zero_eq]
  split
  · rename_i h; exact (abs_of_neg h).symm
  · rename_i h; exact (abs_of_nonneg (not_lt.mp h)).symm

/-- the pivot row is at or below the diagonal and carries a largest magnitude of the column
from the diagonal down -/
theorem findPivot_spec (W : Mat ℝ m n) (k : Fin n) (kr : Fin m) :
    kr.val ≤ (findPivot W k kr).val ∧
    ∀ i : Fin m, kr.val ≤ i.val → |W.get i k| ≤ |W.get (findPivot W k kr) k| := by
  have key := foldl_inv (σ := Fin m)
    (fun t p => kr.val ≤ p.val ∧ ∀ i : Fin m, kr.val ≤ i.val → (i.val < t ∨ i = kr) → |W.get i k| ≤ |W.get p k|)
    m (fun p i =>
      if kr.val < i.val then
        (if Scalar.gtb (numAbs (W.get i k)) (numAbs (W.get p k)) then i else p)
      else p) kr ?_ ?_
  · refine ⟨key.1, fun i hi => key.2 i hi (Or.inl i.isLt)⟩
  · refine ⟨le_refl _, ?_⟩
    intro i _ hi
    rcases hi with hi | hi
    · omega
    · subst hi; exact le_refl _
  · intro i0 p ⟨hp1, hp2⟩
    simp only [ScalarReal.gtb_iff, numAbs_eq]
    by_cases h1 : kr.val < i0.val
    · simp only [h1, if_true]
      by_cases h2 : |W.get p k| < |W.get i0 k|
      · simp only [h2, if_true]
        refine ⟨le_of_lt h1, ?_⟩
        intro i hi hi2
        rcases hi2 with hi2 | hi2
        · by_cases h3 : i.val < i0.val
          · exact le_trans (hp2 i hi (Or.inl h3)) (le_of_lt h2)
          · have : i = i0 := by ext; omega
            subst this; exact le_refl _
        · exact le_trans (hp2 i hi (Or.inr hi2)) (le_of_lt h2)
      · simp only [h2, if_false]
        refine ⟨hp1, ?_⟩
        intro i hi hi2
        rcases hi2 with hi2 | hi2
        · by_cases h3 : i.val < i0.val
          · exact hp2 i hi (Or.inl h3)
          · have : i = i0 := by ext; omega
            subst this; exact not_lt.mp h2
        · exact hp2 i hi (Or.inr hi2)
    · simp only [h1, if_false]
      refine ⟨hp1, ?_⟩
      intro i hi hi2
      rcases hi2 with hi2 | hi2
      · by_cases h3 : i.val < i0.val
        · exact hp2 i hi (Or.inl h3)
        · have : i = kr := by ext; omega
          exact hp2 i hi (Or.inr this)
      · exact hp2 i hi (Or.inr hi2)

/-- strict `>` in the search: the pivot row is the *first* row of largest magnitude -/
theorem findPivot_first (W : Mat ℝ m n) (k : Fin n) (kr : Fin m) :
    ∀ i : Fin m, kr.val ≤ i.val → i.val < (findPivot W k kr).val →
      |W.get i k| < |W.get (findPivot W k kr) k| := by
  have key := foldl_inv (σ := Fin m)
    (fun t p => (∀ i : Fin m, kr.val ≤ i.val → (i.val < t ∨ i = kr) → |W.get i k| ≤ |W.get p k|) ∧
      (∀ i : Fin m, kr.val ≤ i.val → i.val < p.val → |W.get i k| < |W.get p k|))
    m (fun p i =>
      if kr.val < i.val then
        (if Scalar.gtb (numAbs (W.get i k)) (numAbs (W.get p k)) then i else p)
      else p) kr ?_ ?_
  · exact key.2
  · refine ⟨?_, ?_⟩
    · intro i _ hi
      rcases hi with hi | hi
      · omega
      · subst hi; exact le_refl _
    · intro i h1 h2; omega
  · intro i0 p ⟨hp2, hp3⟩
    simp only [ScalarReal.gtb_iff, numAbs_eq]
    by_cases h1 : kr.val < i0.val
    · simp only [h1, if_true]
      by_cases h2 : |W.get p k| < |W.get i0 k|
      · simp only [h2, if_true]
        refine ⟨?_, ?_⟩
        · intro i hi hi2
          rcases hi2 with hi2 | hi2
          · by_cases h3 : i.val < i0.val
            · exact le_trans (hp2 i hi (Or.inl h3)) (le_of_lt h2)
            · have : i = i0 := by ext; omega
              subst this; exact le_refl _
          · exact le_trans (hp2 i hi (Or.inr hi2)) (le_of_lt h2)
        · intro i hi hi2
          exact lt_of_le_of_lt (hp2 i hi (Or.inl hi2)) h2
      · simp only [h2, if_false]
        refine ⟨?_, hp3⟩
        intro i hi hi2
        rcases hi2 with hi2 | hi2
        · by_cases h3 : i.val < i0.val
          · exact hp2 i hi (Or.inl h3)
          · have : i = i0 := by ext; omega
            subst this; exact not_lt.mp h2
        · exact hp2 i hi (Or.inr hi2)
    · simp only [h1, if_false]
      refine ⟨?_, hp3⟩
      intro i hi hi2
      rcases hi2 with hi2 | hi2
      · by_cases h3 : i.val < i0.val
        · exact hp2 i hi (Or.inl h3)
        · have : i = kr := by ext; omega
          exact hp2 i hi (Or.inr this)
      · exact hp2 i hi (Or.inr hi2)

end Pivot

/-! ## the constructor: loop invariant `A(piv,:) = L_k · R_k` -/
section Factor
variable {m n : Nat}

/-- After `k` iterations: row `piv[i]` of `A` equals row `i` of (unit lower factor built from the
multipliers stored in columns `< k`) times (the working matrix with the stored multipliers read
as zeros).  Entry-wise, with `W = s.lu`:
`A(piv i, j) = R(i,j) + Σ_{l < min k i} W(i,l) · R(l,j)`, `R(i,j) = 0` if `j < k ∧ j < i`, else `W(i,j)`. -/
def FactorInv (h : n ≤ m) (A : Mat ℝ m n) (k : Nat) (s : State ℝ m n) : Prop :=
  ∀ (i : Fin m) (j : Fin n),
    A.get (s.piv[i.val]'i.isLt) j =
      (if j.val < k ∧ j.val < i.val then 0 else s.lu.get i j)
      + psum (min k i.val) (fun l => s.lu.get i l * (if j.val < l.val then 0 else s.lu.get (l.castLE h) j))

theorem factorInv_init (h : n ≤ m) (A : Mat ℝ m n) : FactorInv h A 0 (init A) := by
  intro i j
  simp [init, psum_zero]

/-- the row exchange of iteration `k` (rows `p, kr ≥ k`) keeps the invariant -/
theorem factorInv_exchange (h : n ≤ m) (A : Mat ℝ m n) (k : Nat) (s : State ℝ m n) (p kr : Fin m)
    (hp : k ≤ p.val) (hkr : k ≤ kr.val) (hs : FactorInv h A k s) : FactorInv h A k (exchange s p kr) := by
  unfold exchange
  by_cases hpk : p = kr
  · simp [hpk]; exact hs
  · simp only [ne_eq, hpk, not_false_eq_true, if_true]
    intro i j
    -- the row that sits at position `i` after the exchange
    obtain ⟨i', hi'piv, hi'lu, hi'⟩ : ∃ i' : Fin m,
        (swapPiv s.piv p kr)[i.val]'i.isLt = s.piv[i'.val]'i'.isLt ∧
        (∀ j', (swapRows s.lu p kr).get i j' = s.lu.get i' j') ∧
        (i' = i ∨ (k ≤ i.val ∧ k ≤ i'.val)) := by
      by_cases h1 : i = kr
      · refine ⟨p, ?_, ?_, Or.inr ⟨by rw [h1]; exact hkr, hp⟩⟩
        · simp [swapPiv, h1]
        · intro j'; simp [swapRows, h1]
      · by_cases h2 : i = p
        · subst h2
          refine ⟨kr, ?_, ?_, Or.inr ⟨hp, hkr⟩⟩
          · simp [swapPiv, h1]
          · intro j'; simp [swapRows, h1]
        · refine ⟨i, ?_, ?_, Or.inl rfl⟩
          · simp [swapPiv, h1, h2]
          · intro j'; simp [swapRows, h1, h2]
    have hcond : (j.val < k ∧ j.val < i.val) ↔ (j.val < k ∧ j.val < i'.val) := by
      rcases hi' with hi' | hi'
      · rw [hi']
      · constructor <;> intro hh <;> exact ⟨hh.1, by omega⟩
    have hmin : min k i.val = min k i'.val := by
      rcases hi' with hi' | hi'
      · rw [hi']
      · rw [min_eq_left hi'.1, min_eq_left hi'.2]
    show A.get ((swapPiv s.piv p kr)[i.val]'i.isLt) j = _
    rw [hi'piv, hs i' j]
    simp only [hi'lu]
    congr 1
    · by_cases hc : j.val < k ∧ j.val < i.val
      · rw [if_pos hc, if_pos (hcond.mp hc)]
      · rw [if_neg hc, if_neg (fun h' => hc (hcond.mpr h'))]
    · rw [hmin]
      apply psum_congr
      intro l hl
      have hlk : l.val < k := lt_of_lt_of_le hl (min_le_left _ _)
      have h1 : (l.castLE h) ≠ kr := by
        intro e; have := congrArg Fin.val e; simp at this; omega
      have h2 : (l.castLE h) ≠ p := by
        intro e; have := congrArg Fin.val e; simp at this; omega
      simp [swapRows, h1, h2]

/-- the elimination of iteration `k` advances the invariant; when the pivot is zero the iteration
is skipped, which is sound because the pivot search then guarantees a zero column below it -/
theorem factorInv_eliminate (h : n ≤ m) (A : Mat ℝ m n) (k : Fin n) (s : State ℝ m n)
    (hs : FactorInv h A k.val s)
    (hz : s.lu.get (k.castLE h) k = 0 → ∀ i : Fin m, k.val < i.val → s.lu.get i k = 0) :
    FactorInv h A (k.val + 1) { s with lu := eliminate s.lu k (k.castLE h) } := by
  intro i j
  have hsij := hs i j
  show A.get (s.piv[i.val]'i.isLt) j = _
  rw [hsij]
  simp only
  unfold eliminate
  simp only [ScalarReal.eqb_iff, ScalarReal.zero_eq]
  by_cases hpz : s.lu.get (k.castLE h) k = 0
  · -- skipped iteration
    simp only [hpz, if_true]
    by_cases hik : k.val < i.val
    · have hz' := hz hpz i hik
      rw [min_eq_left (le_of_lt hik), min_eq_left (by omega : k.val + 1 ≤ i.val), psum_succ _ k.isLt]
      simp only [Fin.eta, hz', zero_mul, add_zero]
      congr 1
      by_cases hjk : j.val < k.val
      · rw [if_pos ⟨hjk, by omega⟩, if_pos ⟨by omega, by omega⟩]
      · rw [if_neg (fun hh => hjk hh.1)]
        by_cases hjk2 : j.val = k.val
        · have : j = k := Fin.ext hjk2
          rw [if_pos ⟨by omega, by omega⟩, this, hz']
        · rw [if_neg (fun hh => by omega)]
    · have e1 : min k.val i.val = i.val := min_eq_right (by omega)
      have e2 : min (k.val + 1) i.val = i.val := min_eq_right (by omega)
      rw [e1, e2]
      congr 1
      by_cases hc : j.val < k.val ∧ j.val < i.val
      · rw [if_pos hc, if_pos ⟨by omega, hc.2⟩]
      · rw [if_neg hc, if_neg (fun hh => hc ⟨by omega, hh.2⟩)]
  · simp only [hpz, if_false, Mat.get_ofFn, Fin.val_castLE]
    by_cases hik : k.val < i.val
    · rw [min_eq_left (le_of_lt hik), min_eq_left (by omega : k.val + 1 ≤ i.val), psum_succ _ k.isLt]
      simp only [Fin.eta, hik, if_true, lt_irrefl, if_false]
      have hps : psum k.val (fun l => (if l = k then s.lu.get i k / s.lu.get (k.castLE h) k
            else if k.val < l.val then s.lu.get i l - s.lu.get i k / s.lu.get (k.castLE h) k * s.lu.get (k.castLE h) l
            else s.lu.get i l) *
            (if j.val < l.val then 0 else
              if k.val < l.val then
                (if j = k then s.lu.get (l.castLE h) k / s.lu.get (k.castLE h) k
                 else if k.val < j.val then s.lu.get (l.castLE h) j - s.lu.get (l.castLE h) k / s.lu.get (k.castLE h) k * s.lu.get (k.castLE h) j
                 else s.lu.get (l.castLE h) j)
              else s.lu.get (l.castLE h) j))
          = psum k.val (fun l => s.lu.get i l * (if j.val < l.val then 0 else s.lu.get (l.castLE h) j)) := by
        apply psum_congr
        intro l hl
        have h1 : l ≠ k := by intro e; rw [e] at hl; exact lt_irrefl _ hl
        have h2 : ¬ k.val < l.val := by omega
        simp only [h1, h2, if_false]
      rw [hps]
      rcases lt_trichotomy j.val k.val with hjk | hjk | hjk
      · have h1 : j ≠ k := by intro e; rw [e] at hjk; exact lt_irrefl _ hjk
        rw [if_pos ⟨hjk, by omega⟩, if_pos ⟨by omega, by omega⟩, if_pos hjk]
        ring
      · have : j = k := Fin.ext hjk
        subst this
        rw [if_neg (fun hh => lt_irrefl _ hh.1), if_pos ⟨by omega, hik⟩, if_neg (lt_irrefl _)]
        field_simp
        ring
      · have h1 : j ≠ k := by intro e; rw [e] at hjk; exact lt_irrefl _ hjk
        have h3 : ¬ j.val < k.val := by omega
        rw [if_neg (fun hh => by omega), if_neg (fun hh => by omega), if_neg (by omega)]
        simp only [hjk, h3, if_true, if_false]
        ring
    · have e1 : min k.val i.val = i.val := min_eq_right (by omega)
      have e2 : min (k.val + 1) i.val = i.val := min_eq_right (by omega)
      rw [e1, e2]
      simp only [hik, if_false]
      congr 1
      · by_cases hc : j.val < k.val ∧ j.val < i.val
        · rw [if_pos hc, if_pos ⟨by omega, hc.2⟩]
        · rw [if_neg hc, if_neg (fun hh => hc ⟨by omega, hh.2⟩)]
      · apply psum_congr
        intro l hl
        have h2 : ¬ k.val < l.val := by omega
        simp only [h2, if_false]

/-- after the exchange the diagonal entry carries the largest magnitude of its column from the
diagonal down (partial pivoting) -/
theorem exchange_pivot_max (s : State ℝ m n) (k : Fin n) (kr : Fin m) (i : Fin m) (hi : kr.val ≤ i.val) :
    |(exchange s (findPivot s.lu k kr) kr).lu.get i k| ≤ |(exchange s (findPivot s.lu k kr) kr).lu.get kr k| := by
  obtain ⟨hp1, hp2⟩ := findPivot_spec s.lu k kr
  generalize findPivot s.lu k kr = p at hp1 hp2
  unfold exchange
  by_cases hpk : p = kr
  · subst hpk; simpa using hp2 i hi
  · simp only [ne_eq, hpk, not_false_eq_true, if_true, swapRows, Mat.get_ofFn]
    by_cases h1 : i = kr
    · simp [h1]
    · by_cases h2 : i = p
      · simp only [h2, if_true]
        rw [if_neg hpk]
        simpa using hp2 kr (le_refl _)
      · simp only [h1, h2, if_false]
        exact hp2 i hi

theorem factorInv_step (h : n ≤ m) (A : Mat ℝ m n) (k : Fin n) (s : State ℝ m n)
    (hs : FactorInv h A k.val s) : FactorInv h A (k.val + 1) (step h s k) := by
  unfold step
  simp only
  have hp := (findPivot_spec s.lu k (k.castLE h)).1
  have h1 := factorInv_exchange h A k.val s (findPivot s.lu k (k.castLE h)) (k.castLE h)
    (by simpa using hp) (by simp) hs
  apply factorInv_eliminate h A k _ h1
  intro hz i hi
  have := exchange_pivot_max s k (k.castLE h) i (by simp; omega)
  rw [hz, abs_zero] at this
  exact abs_eq_zero.mp (le_antisymm this (abs_nonneg _))

theorem factorInv_factor (h : n ≤ m) (A : Mat ℝ m n) : FactorInv h A n (factor h A) := by
  unfold factor
  exact foldl_inv (fun k s => FactorInv h A k s) n (step h) (init A) (factorInv_init h A)
    (fun k t hk => factorInv_step h A k t hk)

/-- the invariant at exit is the factorisation `A(piv,:) = L · U` with the accessors' `L`, `U` -/
theorem factor_entries (h : n ≤ m) (A : Mat ℝ m n) (i : Fin m) (j : Fin n) :
    (permuteRows (factor h A).piv A).get i j = (matMul (getL (factor h A)) (getU h (factor h A))).get i j := by
  have hinv := factorInv_factor h A i j
  generalize factor h A = s at hinv
  simp only [permuteRows, matMul, Mat.get_ofFn, sumFin_eq, getL, getU, ScalarReal.one_eq, ScalarReal.zero_eq]
  rw [hinv, add_comm]
  have hsplit : ∀ l : Fin n,
      (if l.val < i.val then s.lu.get i l else if i.val = l.val then 1 else 0) *
        (if l.val ≤ j.val then s.lu.get (l.castLE h) j else 0)
      = (if l.val < min n i.val then s.lu.get i l * (if j.val < l.val then 0 else s.lu.get (l.castLE h) j) else 0)
        + (if i.val = l.val then (if l.val ≤ j.val then s.lu.get (l.castLE h) j else 0) else 0) := by
    intro l
    have hl : l.val < n := l.isLt
    by_cases h1 : l.val < i.val
    · have h2 : l.val < min n i.val := lt_min hl h1
      have h3 : ¬ i.val = l.val := by omega
      rw [if_pos h1, if_pos h2, if_neg h3, add_zero]
      by_cases h4 : l.val ≤ j.val
      · rw [if_pos h4, if_neg (by omega)]
      · rw [if_neg h4, if_pos (by omega)]
    · have h2 : ¬ l.val < min n i.val := fun hh => h1 (lt_of_lt_of_le hh (min_le_right _ _))
      rw [if_neg h1, if_neg h2, zero_add]
      by_cases h3 : i.val = l.val
      · rw [if_pos h3, if_pos h3, one_mul]
      · rw [if_neg h3, if_neg h3, zero_mul]
  simp only [hsplit, Finset.sum_add_distrib, psum]
  congr 1
  by_cases hin : i.val < n
  · have : ∀ l : Fin n, (i.val = l.val) = (l = ⟨i.val, hin⟩) := by
      intro l; apply propext; constructor
      · intro e; ext; exact e.symm
      · intro e; rw [e]
    simp only [this, Finset.sum_ite_eq', Finset.mem_univ, if_true]
    have hc : (⟨i.val, hin⟩ : Fin n).castLE h = i := by ext; simp
    rw [hc]
    by_cases h5 : j.val < i.val
    · rw [if_pos ⟨j.isLt, h5⟩, if_neg (by omega)]
    · rw [if_neg (fun hh => h5 hh.2), if_pos (by omega)]
  · have : ∀ l : Fin n, ¬ i.val = l.val := by intro l; have := l.isLt; omega
    simp only [this, if_false, Finset.sum_const_zero]
    rw [if_pos ⟨j.isLt, by have := j.isLt; omega⟩]

end Factor

/-! ## partial pivoting: the stored multipliers have magnitude at most one -/
section Mult
variable {m n : Nat}

def MultInv (k : Nat) (s : State ℝ m n) : Prop :=
  ∀ (i : Fin m) (l : Fin n), l.val < k → l.val < i.val → |s.lu.get i l| ≤ 1

theorem multInv_exchange (k : Nat) (s : State ℝ m n) (p kr : Fin m)
    (hp : k ≤ p.val) (hkr : k ≤ kr.val) (hs : MultInv k s) : MultInv k (exchange s p kr) := by
  unfold exchange
  by_cases hpk : p = kr
  · simp [hpk]; exact hs
  · simp only [ne_eq, hpk, not_false_eq_true, if_true]
    intro i l hl hli
    simp only [swapRows, Mat.get_ofFn]
    by_cases h1 : i = kr
    · rw [if_pos h1]; exact hs p l hl (by omega)
    · rw [if_neg h1]
      by_cases h2 : i = p
      · rw [if_pos h2]; exact hs kr l hl (by omega)
      · rw [if_neg h2]; exact hs i l hl hli

theorem multInv_eliminate (h : n ≤ m) (k : Fin n) (s : State ℝ m n) (hs : MultInv k.val s)
    (hmax : ∀ i : Fin m, k.val ≤ i.val → |s.lu.get i k| ≤ |s.lu.get (k.castLE h) k|) :
    MultInv (k.val + 1) { s with lu := eliminate s.lu k (k.castLE h) } := by
  intro i l hl hli
  show |(eliminate s.lu k (k.castLE h)).get i l| ≤ 1
  unfold eliminate
  simp only [ScalarReal.eqb_iff, ScalarReal.zero_eq]
  by_cases hpz : s.lu.get (k.castLE h) k = 0
  · simp only [hpz, if_true]
    by_cases hlk : l.val < k.val
    · exact hs i l hlk hli
    · have : l = k := Fin.ext (by omega)
      subst this
      have := hmax i (by omega)
      rw [hpz, abs_zero] at this
      exact le_trans this zero_le_one
  · simp only [hpz, if_false, Mat.get_ofFn, Fin.val_castLE]
    by_cases hik : k.val < i.val
    · simp only [hik, if_true]
      by_cases hlk : l.val < k.val
      · have h1 : l ≠ k := by intro e; rw [e] at hlk; exact lt_irrefl _ hlk
        rw [if_neg h1, if_neg (by omega)]
        exact hs i l hlk hli
      · have : l = k := Fin.ext (by omega)
        subst this
        rw [if_pos rfl, abs_div]
        exact div_le_one_of_le₀ (hmax i (by omega)) (abs_nonneg _)
    · simp only [hik, if_false]
      exact hs i l (by omega) hli

theorem multInv_step (h : n ≤ m) (k : Fin n) (s : State ℝ m n) (hs : MultInv k.val s) :
    MultInv (k.val + 1) (step h s k) := by
  unfold step
  simp only
  have hp := (findPivot_spec s.lu k (k.castLE h)).1
  apply multInv_eliminate h k _
    (multInv_exchange k.val s (findPivot s.lu k (k.castLE h)) (k.castLE h) (by simpa using hp) (by simp) hs)
  intro i hi
  exact exchange_pivot_max s k (k.castLE h) i (by simpa using hi)

theorem multInv_factor (h : n ≤ m) (A : Mat ℝ m n) : MultInv n (factor h A) := by
  unfold factor
  exact foldl_inv (fun k s => MultInv k s) n (step h) (init A)
    (by intro i l hl; omega) (fun k t hk => multInv_step h k t hk)

end Mult

/-! ## the pivot vector is a permutation and `pivsign` is its sign -/
section Perm
variable {m n : Nat}

/-- the pivot vector is (the graph of) a permutation `σ` of the row numbers, and `pivsign = sign σ` -/
def PermInv (s : State ℝ m n) : Prop :=
  ∃ σ : Equiv.Perm (Fin m), (∀ i : Fin m, s.piv[i.val]'i.isLt = σ i) ∧ s.pivsign = ((Equiv.Perm.sign σ : ℤˣ) : ℤ)

theorem permInv_init (A : Mat ℝ m n) : PermInv (init A) :=
  ⟨1, by intro i; simp [init], by simp [init]⟩

theorem permInv_exchange (s : State ℝ m n) (p kr : Fin m) (hs : PermInv s) : PermInv (exchange s p kr) := by
  unfold exchange
  by_cases hpk : p = kr
  · simp [hpk]; exact hs
  · simp only [ne_eq, hpk, not_false_eq_true, if_true]
    obtain ⟨σ, h1, h2⟩ := hs
    refine ⟨σ * Equiv.swap kr p, ?_, ?_⟩
    · intro i
      simp only [swapPiv, Vector.getElem_ofFn, Fin.eta, Equiv.Perm.coe_mul, Function.comp_apply,
        Equiv.swap_apply_def, h1]
      by_cases e1 : i = kr
      · simp [e1]
      · by_cases e2 : i = p
        · subst e2; simp [hpk]
        · simp [e1, e2]
    · have hne : kr ≠ p := fun e => hpk e.symm
      simp only [Equiv.Perm.sign_mul, Equiv.Perm.sign_swap hne, h2]
      simp

theorem permInv_step (h : n ≤ m) (s : State ℝ m n) (k : Fin n) (hs : PermInv s) : PermInv (step h s k) := by
  unfold step
  simp only
  obtain ⟨σ, h1, h2⟩ := permInv_exchange s (findPivot s.lu k (k.castLE h)) (k.castLE h) hs
  exact ⟨σ, h1, h2⟩

theorem permInv_factor (h : n ≤ m) (A : Mat ℝ m n) : PermInv (factor h A) := by
  unfold factor
  exact foldl_inv (fun _ s => PermInv s) n (step h) (init A) (permInv_init A)
    (fun k t hk => permInv_step h t k hk)

theorem foldl_mul_eq_prod_int {k : Nat} (f : Fin k → ℤ) (c : ℤ) :
    Fin.foldl k (fun d j => d * f j) c = c * ∏ j : Fin k, f j := by
  induction k with
  | zero => simp
  | succ k ih =>
    rw [Fin.foldl_succ_last, Fin.prod_univ_castSucc, ih]
    ring

/-- the executable sign (product over position pairs) is `Equiv.Perm.sign` -/
theorem pivSignOf_eq_sign (piv : Vector (Fin m) m) (σ : Equiv.Perm (Fin m))
    (hσ : ∀ i : Fin m, piv[i.val]'i.isLt = σ i) : pivSignOf piv = ((Equiv.Perm.sign σ : ℤˣ) : ℤ) := by
  unfold pivSignOf
  simp only [foldl_mul_eq_prod_int, one_mul, hσ]
  rw [Equiv.Perm.sign_eq_prod_prod_Iio]
  simp only [Units.coe_prod]
  apply Finset.prod_congr rfl
  intro j _
  have : Finset.Iio j = Finset.univ.filter (fun i : Fin m => i.val < j.val) := by
    ext i; simp only [Finset.mem_Iio, Finset.mem_filter, Finset.mem_univ, true_and, Fin.lt_def]
  rw [this, Finset.prod_filter]
  apply Finset.prod_congr rfl
  intro i _
  by_cases h1 : i.val < j.val
  · rw [if_pos h1, if_pos h1]
    by_cases h2 : σ i < σ j
    · have h2' : (σ i).val < (σ j).val := h2
      rw [if_pos h2, if_pos h2']; simp
    · have h2' : ¬ (σ i).val < (σ j).val := h2
      rw [if_neg h2, if_neg h2']; simp
  · rw [if_neg h1, if_neg h1]

end Perm

/-! ## bridge to Mathlib matrices, determinant -/
section Bridge
variable {m n : Nat}

/-- the Mathlib matrix with the same entries -/
def toMatrix (M : Mat ℝ m n) : Matrix (Fin m) (Fin n) ℝ := Matrix.of fun i j => M.get i j

@[simp] theorem toMatrix_apply (M : Mat ℝ m n) (i : Fin m) (j : Fin n) : toMatrix M i j = M.get i j := rfl

theorem toMatrix_matMul {k : Nat} (A : Mat ℝ m k) (B : Mat ℝ k n) :
    toMatrix (matMul A B) = toMatrix A * toMatrix B := by
  ext i j
  simp [matMul, sumFin_eq, Matrix.mul_apply]

theorem toMatrix_inj {A B : Mat ℝ m n} (h : toMatrix A = toMatrix B) : A = B :=
  Mat.ext fun i j => by have := congrFun (congrFun h i) j; simpa using this

theorem foldl_mul_eq_prod (f : Fin n → ℝ) (c : ℝ) :
    Fin.foldl n (fun d j => d * f j) c = c * ∏ j : Fin n, f j := by
  induction n with
  | zero => simp
  | succ n ih =>
    rw [Fin.foldl_succ_last, Fin.prod_univ_castSucc, ih]
    ring

/-- `det` of the object = `pivsign · Π LU(j,j)` -/
theorem det_eq_prod (s : State ℝ n n) :
    det s = (s.pivsign : ℝ) * ∏ j : Fin n, s.lu.get j j := by
  unfold det
  simp only [Fin.cast_eq_self, ScalarReal.ofInt_eq]
  exact foldl_mul_eq_prod _ _

theorem getL_lowerTriangular (s : State ℝ n n) : (toMatrix (getL s)).IsLowerTriangular := by
  intro i j hij
  have hij' : i.val < j.val := hij
  simp only [toMatrix_apply, getL, Mat.get_ofFn]
  rw [if_neg (by omega), if_neg (by omega)]
  simp

theorem getU_upperTriangular (s : State ℝ n n) : (toMatrix (getU (Nat.le_refl n) s)).IsUpperTriangular := by
  intro i j hij
  have hij' : j.val < i.val := hij
  simp only [toMatrix_apply, getU, Mat.get_ofFn]
  rw [if_neg (by omega)]
  simp

theorem det_getL (s : State ℝ n n) : (toMatrix (getL s)).det = 1 := by
  rw [Matrix.det_of_isLowerTriangular _ (getL_lowerTriangular s)]
  apply Finset.prod_eq_one
  intro i _
  simp [getL]

theorem det_getU (s : State ℝ n n) : (toMatrix (getU (Nat.le_refl n) s)).det = ∏ j : Fin n, s.lu.get j j := by
  rw [Matrix.det_of_isUpperTriangular (getU_upperTriangular s)]
  apply Finset.prod_congr rfl
  intro i _
  simp [getU]

/-- the factorisation as an equation between Mathlib matrices -/
theorem factor_matrix (h : n ≤ m) (A : Mat ℝ m n) :
    ∃ σ : Equiv.Perm (Fin m),
      (∀ i : Fin m, (factor h A).piv[i.val]'i.isLt = σ i) ∧
      (factor h A).pivsign = ((Equiv.Perm.sign σ : ℤˣ) : ℤ) ∧
      (toMatrix A).submatrix σ id = toMatrix (getL (factor h A)) * toMatrix (getU h (factor h A)) := by
  obtain ⟨σ, h1, h2⟩ := permInv_factor h A
  refine ⟨σ, h1, h2, ?_⟩
  rw [← toMatrix_matMul]
  ext i j
  have := factor_entries h A i j
  simp only [permuteRows, Mat.get_ofFn] at this
  simp only [Matrix.submatrix_apply, id_eq, toMatrix_apply, ← h1 i]
  exact this

/-- the determinant computed by the object is the determinant -/
theorem det_factor (A : Mat ℝ n n) : det (factor (Nat.le_refl n) A) = (toMatrix A).det := by
  obtain ⟨σ, _, h2, h3⟩ := factor_matrix (Nat.le_refl n) A
  have hd := congrArg Matrix.det h3
  rw [Matrix.det_permute, Matrix.det_mul, det_getL, det_getU, one_mul] at hd
  rw [det_eq_prod, ← hd, h2, ← mul_assoc]
  have : (((Equiv.Perm.sign σ : ℤˣ) : ℤ) : ℝ) * (((Equiv.Perm.sign σ : ℤˣ) : ℤ) : ℝ) = 1 := by
    rcases Int.units_eq_one_or (Equiv.Perm.sign σ) with e | e <;> simp [e]
  rw [this, one_mul]

end Bridge

/-! ## solve: smallest pivot, forward and back substitution -/
section Solve
variable {n nx : Nat}

theorem threshold_pos : (0 : ℝ) < (threshold : ℝ) := by
  unfold threshold
  simp only [ScalarReal.ofRat_eq, Generated.thresholdNum, Generated.thresholdDen]
  norm_num

/-- a value that passes the guard is positive -/
theorem pos_of_not_below {d : ℝ} (hd : belowThreshold d = false) : 0 < d := by
  unfold belowThreshold at hd
  have := threshold_pos
  split at hd
  · have h' : ¬ d < threshold := by simpa using hd
    linarith [not_lt.mp h']
  · have h' : ¬ d ≤ threshold := by simpa using hd
    linarith [not_le.mp h']

/-- the scan returns the smallest magnitude on the diagonal -/
theorem minDiag_spec (s : State ℝ n n) (h : n = n) (hn : 0 < n) :
    (∀ i : Fin n, minDiag s h hn ≤ |s.lu.get i i|) ∧ ∃ i : Fin n, minDiag s h hn = |s.lu.get i i| := by
  unfold minDiag
  simp only [Fin.cast_eq_self, numAbs_eq, ScalarReal.ltb_iff]
  apply foldl_inv (σ := ℝ)
    (fun t d => (∀ i : Fin n, (i.val < t ∨ i.val = 0) → d ≤ |s.lu.get i i|) ∧ ∃ i : Fin n, d = |s.lu.get i i|) n _ _ ?_ ?_ |>.imp
      (fun hh i => hh i (Or.inl i.isLt)) id
  · refine ⟨?_, ⟨⟨0, hn⟩, rfl⟩⟩
    intro i hi
    rcases hi with hi | hi
    · omega
    · have : i = ⟨0, hn⟩ := Fin.ext hi
      rw [this]
  · intro i0 d ⟨h1, h2⟩
    by_cases hpos : 0 < i0.val
    · simp only [hpos, if_true]
      by_cases hlt : |s.lu.get i0 i0| < d
      · simp only [hlt, if_true]
        refine ⟨?_, ⟨i0, rfl⟩⟩
        intro i hi
        rcases hi with hi | hi
        · by_cases h3 : i.val < i0.val
          · exact le_trans (le_of_lt hlt) (h1 i (Or.inl h3))
          · have : i = i0 := Fin.ext (by omega)
            rw [this]
        · exact le_trans (le_of_lt hlt) (h1 i (Or.inr hi))
      · simp only [hlt, if_false]
        refine ⟨?_, h2⟩
        intro i hi
        rcases hi with hi | hi
        · by_cases h3 : i.val < i0.val
          · exact h1 i (Or.inl h3)
          · have : i = i0 := Fin.ext (by omega)
            rw [this]; exact not_lt.mp hlt
        · exact h1 i (Or.inr hi)
    · simp only [hpos, if_false]
      refine ⟨?_, h2⟩
      intro i hi
      rcases hi with hi | hi
      · by_cases h3 : i.val < i0.val
        · exact h1 i (Or.inl h3)
        · exact h1 i (Or.inr (by omega))
      · exact h1 i (Or.inr hi)

/-- invariant of the forward sweep: `X0(i,j) = Y(i,j) + Σ_{l < min k i} LU(i,l)·Y(l,j)` -/
def FwdInv (s : State ℝ n n) (X0 : Mat ℝ n nx) (k : Nat) (Y : Mat ℝ n nx) : Prop :=
  ∀ (i : Fin n) (j : Fin nx),
    X0.get i j = Y.get i j + psum (min k i.val) (fun l => s.lu.get i l * Y.get l j)

theorem fwdInv_step (s : State ℝ n n) (h : n = n) (X0 : Mat ℝ n nx) (k : Fin n) (Y : Mat ℝ n nx)
    (hY : FwdInv s X0 k.val Y) : FwdInv s X0 (k.val + 1) (fwdStep s h Y k) := by
  intro i j
  rw [hY i j]
  simp only [fwdStep, Mat.get_ofFn, Fin.cast_eq_self]
  by_cases hik : k.val < i.val
  · rw [min_eq_left (le_of_lt hik), min_eq_left (by omega : k.val + 1 ≤ i.val), psum_succ _ k.isLt]
    simp only [Fin.eta, hik, if_true, lt_irrefl, if_false]
    have : psum k.val (fun l => s.lu.get i l * (if k.val < l.val then Y.get l j - Y.get k j * s.lu.get l k else Y.get l j))
        = psum k.val (fun l => s.lu.get i l * Y.get l j) := by
      apply psum_congr
      intro l hl
      rw [if_neg (by omega)]
    rw [this]
    ring
  · have e1 : min k.val i.val = i.val := min_eq_right (by omega)
    have e2 : min (k.val + 1) i.val = i.val := min_eq_right (by omega)
    rw [e1, e2]
    simp only [hik, if_false]
    congr 1
    apply psum_congr
    intro l hl
    rw [if_neg (by omega)]

theorem fwdInv_final (s : State ℝ n n) (h : n = n) (X0 : Mat ℝ n nx) :
    FwdInv s X0 n (Fin.foldl n (fwdStep s h) X0) :=
  foldl_inv (fun k Y => FwdInv s X0 k Y) n (fwdStep s h) X0
    (by intro i j; simp [psum_zero]) (fun k t hk => fwdInv_step s h X0 k t hk)

/-- invariant of the backward sweep, rows `≥ t` final:
`Y(i,j) = [i < t]·Z(i,j) + Σ_{l ≥ t, l ≥ i} LU(i,l)·Z(l,j)` -/
def BackInv (s : State ℝ n n) (Y : Mat ℝ n nx) (t : Nat) (Z : Mat ℝ n nx) : Prop :=
  ∀ (i : Fin n) (j : Fin nx),
    Y.get i j = (if i.val < t then Z.get i j else 0)
      + ∑ l : Fin n, if t ≤ l.val ∧ i.val ≤ l.val then s.lu.get i l * Z.get l j else 0

theorem backInv_step (s : State ℝ n n) (h : n = n) (Y : Mat ℝ n nx) (k : Fin n) (Z : Mat ℝ n nx)
    (hpiv : s.lu.get k k ≠ 0) (hZ : BackInv s Y (k.val + 1) Z) : BackInv s Y k.val (backStep s h k Z) := by
  intro i j
  rw [hZ i j]
  simp only [backStep, Mat.get_ofFn, Fin.cast_eq_self]
  have hsplit : ∀ l : Fin n,
      (if k.val ≤ l.val ∧ i.val ≤ l.val then
          s.lu.get i l * (if l.val = k.val then Z.get k j / s.lu.get k k
            else if l.val < k.val then Z.get l j - Z.get k j / s.lu.get k k * s.lu.get l k else Z.get l j)
        else 0)
      = (if k.val + 1 ≤ l.val ∧ i.val ≤ l.val then s.lu.get i l * Z.get l j else 0)
        + (if l = k then (if i.val ≤ k.val then s.lu.get i k * (Z.get k j / s.lu.get k k) else 0) else 0) := by
    intro l
    by_cases h1 : l = k
    · rw [h1]
      have h0 : ¬ (k.val + 1 ≤ k.val ∧ i.val ≤ k.val) := by omega
      simp only [le_refl, true_and, if_true, h0, if_false, zero_add]
    · have h1' : ¬ l.val = k.val := fun e => h1 (Fin.ext e)
      rw [if_neg h1, add_zero]
      by_cases h2 : k.val ≤ l.val ∧ i.val ≤ l.val
      · have h3 : k.val + 1 ≤ l.val ∧ i.val ≤ l.val := ⟨by omega, h2.2⟩
        have h4 : ¬ l.val < k.val := by omega
        simp only [h2, h3, h1', h4, and_self, if_true, if_false]
      · have h3 : ¬ (k.val + 1 ≤ l.val ∧ i.val ≤ l.val) := fun hh => h2 ⟨by omega, hh.2⟩
        simp only [h2, h3, if_false]
  simp only [hsplit, Finset.sum_add_distrib, Finset.sum_ite_eq', Finset.mem_univ, if_true]
  rcases lt_trichotomy i.val k.val with hik | hik | hik
  · rw [if_pos (by omega), if_pos hik, if_neg (by omega), if_pos hik, if_pos (le_of_lt hik)]
    ring
  · have : i = k := Fin.ext hik
    subst this
    simp only [lt_irrefl, if_false, le_refl, if_true]
    rw [if_pos (by omega)]
    field_simp
    ring
  · rw [if_neg (by omega), if_neg (by omega), if_neg (by omega)]
    ring

theorem backInv_final (s : State ℝ n n) (h : n = n) (Y : Mat ℝ n nx) (hpiv : ∀ k : Fin n, s.lu.get k k ≠ 0) :
    BackInv s Y 0 (Fin.foldr n (backStep s h) Y) :=
  foldr_inv (fun t Z => BackInv s Y t Z) n (backStep s h) Y
    (by
      intro i j
      have : ∀ l : Fin n, ¬ (n ≤ l.val ∧ i.val ≤ l.val) := fun l hh => absurd l.isLt (by omega)
      rw [if_pos i.isLt, Finset.sum_eq_zero (fun l _ => if_neg (this l)), add_zero])
    (fun k t hk => backInv_step s h Y k t (hpiv k) hk)

/-- the two sweeps solve `L·(U·X) = X0` when no pivot is zero -/
theorem substitute_spec (s : State ℝ n n) (h : n = n) (hpiv : ∀ k : Fin n, s.lu.get k k ≠ 0) (X0 : Mat ℝ n nx) :
    matMul (getL s) (matMul (getU (Nat.le_refl n) s) (substitute s h X0)) = X0 := by
  unfold substitute
  have hf := fwdInv_final s h X0
  generalize Fin.foldl n (fwdStep s h) X0 = Y at hf
  have hb := backInv_final s h Y hpiv
  generalize Fin.foldr n (backStep s h) Y = X at hb
  have hUX : matMul (getU (Nat.le_refl n) s) X = Y := by
    apply Mat.ext
    intro l j
    rw [hb l j]
    simp only [matMul, Mat.get_ofFn, sumFin_eq, getU, Fin.castLE_refl, ScalarReal.zero_eq,
      Nat.not_lt_zero, if_false, zero_add, Nat.zero_le, true_and]
    apply Finset.sum_congr rfl
    intro l' _
    by_cases h1 : l.val ≤ l'.val
    · simp [h1]
    · simp [h1]
  rw [hUX]
  apply Mat.ext
  intro i j
  rw [hf i j]
  simp only [matMul, Mat.get_ofFn, sumFin_eq, getL, ScalarReal.zero_eq, ScalarReal.one_eq, psum]
  have hsplit : ∀ l : Fin n,
      (if l.val < i.val then s.lu.get i l else if i.val = l.val then 1 else 0) * Y.get l j
      = (if l = i then Y.get l j else 0) + (if l.val < min n i.val then s.lu.get i l * Y.get l j else 0) := by
    intro l
    by_cases h1 : l.val < i.val
    · have h2 : l.val < min n i.val := lt_min l.isLt h1
      have h3 : ¬ l = i := by intro e; rw [e] at h1; exact lt_irrefl _ h1
      rw [if_pos h1, if_pos h2, if_neg h3, zero_add]
    · have h2 : ¬ l.val < min n i.val := fun hh => h1 (lt_of_lt_of_le hh (min_le_right _ _))
      rw [if_neg h1, if_neg h2, add_zero]
      by_cases h3 : l = i
      · rw [if_pos h3, if_pos (by rw [h3]), one_mul]
      · have h4 : ¬ i.val = l.val := fun e => h3 (Fin.ext e.symm)
        rw [if_neg h3, if_neg h4, zero_mul]
  simp only [hsplit, Finset.sum_add_distrib, Finset.sum_ite_eq', Finset.mem_univ, if_true]

/-- `solve`, when it returns, returns a solution of `A·X = B` together with the smallest pivot magnitude -/
theorem solve_ok (A : Mat ℝ n n) (B : Mat ℝ n nx) (d : ℝ) (X : Mat ℝ n nx)
    (hs : solve (factor (Nat.le_refl n) A) B = .ok (d, X)) :
    matMul A X = B ∧ (∃ hn : 0 < n, d = minDiag (factor (Nat.le_refl n) A) rfl hn) ∧ 0 < d := by
  unfold solve at hs
  rw [dif_pos (rfl : n = n)] at hs
  by_cases hn : 0 < n
  · rw [dif_pos ⟨rfl, hn⟩] at hs
    simp only at hs
    by_cases hbt : belowThreshold (minDiag (factor (Nat.le_refl n) A) rfl hn) = true
    · rw [if_pos hbt] at hs; cases hs
    · rw [if_neg hbt] at hs
      by_cases hnx : 0 < nx
      · rw [if_pos hnx] at hs
        injection hs with hs
        injection hs with hd hX
        have hpos := pos_of_not_below (by simpa using hbt)
        refine ⟨?_, ⟨hn, hd.symm⟩, by rw [← hd]; exact hpos⟩
        -- no zero pivot
        obtain ⟨hmin, _⟩ := minDiag_spec (factor (Nat.le_refl n) A) rfl hn
        have hpiv : ∀ k : Fin n, (factor (Nat.le_refl n) A).lu.get k k ≠ 0 := by
          intro k hk
          have := hmin k
          rw [hk, abs_zero] at this
          linarith
        have hsub := substitute_spec (factor (Nat.le_refl n) A) rfl hpiv
          (permuteCopy B rfl (factor (Nat.le_refl n) A).piv)
        rw [hX] at hsub
        obtain ⟨σ, h1, _, h3⟩ := factor_matrix (Nat.le_refl n) A
        -- as Mathlib matrices: (A X)(σ i, j) = B(σ i, j)
        have hm := congrArg toMatrix hsub
        rw [toMatrix_matMul, toMatrix_matMul, ← Matrix.mul_assoc, ← h3] at hm
        apply toMatrix_inj
        rw [toMatrix_matMul]
        ext i j
        have := congrFun (congrFun hm (σ.symm i)) j
        simp only [Matrix.mul_apply, Matrix.submatrix_apply, id_eq, Equiv.apply_symm_apply, toMatrix_apply,
          permuteCopy, Mat.get_ofFn, Fin.cast_eq_self, h1] at this
        simpa [Matrix.mul_apply] using this
      · rw [if_neg hnx] at hs; cases hs
  · rw [dif_neg (fun hh => hn hh.2)] at hs; cases hs

end Solve

/-! ## the vector overload is the one-column instance of the matrix overload -/
section Vec
variable {n : Nat}

theorem foldl_comm {σ τ : Type} (g : σ → τ) :
    ∀ (n : Nat) (f : σ → Fin n → σ) (f' : τ → Fin n → τ) (x : σ),
      (∀ y k, g (f y k) = f' (g y) k) → g (Fin.foldl n f x) = Fin.foldl n f' (g x) := by
  intro n
  induction n with
  | zero => intro f f' x _; simp
  | succ n ih =>
    intro f f' x hc
    rw [Fin.foldl_succ_last, Fin.foldl_succ_last, hc, ih _ (fun t k => f' t k.castSucc) x (fun y k => hc y k.castSucc)]

theorem foldr_comm {σ τ : Type} (g : σ → τ) :
    ∀ (n : Nat) (f : Fin n → σ → σ) (f' : Fin n → τ → τ) (x : σ),
      (∀ k y, g (f k y) = f' k (g y)) → g (Fin.foldr n f x) = Fin.foldr n f' (g x) := by
  intro n
  induction n with
  | zero => intro f f' x _; simp
  | succ n ih =>
    intro f f' x hc
    rw [Fin.foldr_succ_last, Fin.foldr_succ_last, ih _ (fun k t => f' k.castSucc t) _ (fun k y => hc k.castSucc y), hc]

@[simp] theorem colMat_get (v : Vector ℝ n) (i : Fin n) (j : Fin 1) : (colMat v).get i j = v[i.val]'i.isLt := by
  simp [colMat]

/-- when the vector `solve` returns `(d, x)`, the matrix `solve` on the one-column matrix of `b`
returns `(d, column of x)` -/
theorem solveVec_as_solve (s : State ℝ n n) (b : Vector ℝ n) (d : ℝ) (x : Vector ℝ n)
    (hs : solveVec s b = .ok (d, x)) : solve s (colMat b) = .ok (d, colMat x) := by
  unfold solveVec at hs
  unfold solve
  rw [dif_pos (rfl : n = n)] at hs ⊢
  by_cases hn : 0 < n
  · rw [dif_pos ⟨rfl, hn⟩] at hs ⊢
    simp only at hs ⊢
    by_cases hbt : belowThreshold (minDiag s rfl hn) = true
    · rw [if_pos hbt] at hs; cases hs
    · rw [if_neg hbt] at hs ⊢
      rw [if_pos (by decide : 0 < 1)]
      injection hs with hs
      injection hs with hd hx
      rw [hd, ← hx]
      congr 2
      unfold substitute
      have h0 : colMat (permuteCopyV b rfl s.piv) = permuteCopy (colMat b) rfl s.piv := by
        apply Mat.ext; intro i j; simp [permuteCopyV, permuteCopy]
      rw [← h0]
      rw [← foldl_comm colMat n (fwdStepV s rfl) (fwdStep s rfl) _ (by
        intro y k; apply Mat.ext; intro i j
        simp only [colMat_get, fwdStepV, fwdStep, Mat.get_ofFn, Vector.getElem_ofFn, Fin.cast_eq_self])]
      rw [← foldr_comm colMat n (backStepV s rfl) (backStep s rfl) _ (by
        intro k y; apply Mat.ext; intro i j
        simp only [colMat_get, backStepV, backStep, Mat.get_ofFn, Vector.getElem_ofFn, Fin.cast_eq_self])]
  · rw [dif_neg (fun hh => hn hh.2)] at hs; cases hs

end Vec

end Bpp.LU
