import BppModel.LU
import BppProofs.Lemmas.ScalarReal
import Mathlib.LinearAlgebra.Matrix.Determinant.Basic
/-! Helper lemmas for C05 (LU decomposition).  Property theorems are in `Props/C05.lean`. -/
namespace Bpp.LU
open Bpp

section Basic
variable {α : Type} {m n : Nat}

@[simp] theorem Mat.get_ofFn (f : Fin m → Fin n → α) (i : Fin m) (j : Fin n) :
    (Mat.ofFn f).get i j = f i j := by
  simp [Mat.get, Mat.ofFn]

theorem Mat.ext {A B : Mat α m n} (h : ∀ i j, A.get i j = B.get i j) : A = B := by
  apply Vector.ext; intro i hi
  apply Vector.ext; intro j hj
  exact h ⟨i, hi⟩ ⟨j, hj⟩
end Basic

end Bpp.LU
