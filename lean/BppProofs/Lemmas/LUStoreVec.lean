import BppProofs.Lemmas.LUStoreSolve
/-!
Helper lemmas for C05, storage level: the accessors `getL`/`getU` and the `std::vector` overload of
`solve` of `BppModel/LUStore.lean` (output vector in any prior state) refine `LU.getL`, `LU.getU`,
`LU.solveVec`, for any scalar type.
-/
namespace Bpp.LUS
open Bpp Bpp.Mx Bpp.LU

variable {α : Type} [Scalar α] {n : Nat}

/-! ### `getL`, `getU` -/

theorem getLS_refines {m : Nat} {s : StateS α} {t : LU.State α m n} (hr : Rep s t) (h : n ≤ m) :
    ∃ L, getLS s = .ok L ∧ Is L .row m n (fnOf (getL t)) := by
  obtain ⟨hm, hn, hlu, _, _⟩ := hr
  unfold getLS
  rw [hm, hn]
  have h0 := Is.resize (Store.empty_wf (α := α) .row) m n (by simpa using shape_row_le h)
  simp only [Store.empty_kind] at h0
  obtain ⟨L, e, hL⟩ := fillLoop h0 (Nat.le_refl m) (Nat.le_refl n)
    (fun a b => if b < a then fnOf t.lu a b else if a = b then Scalar.one else Scalar.zero)
    (fun i L => loop n (fun j L =>
      if j < i then do
        let x ← rd s.lu i j
        wr L i j x
      else if i = j then wr L i j Scalar.one
      else wr L i j Scalar.zero) L)
    (by
      intro i hi T
      apply loop_congr
      intro j hj T'
      by_cases h1 : j < i
      · simp only [h1, if_true, hlu.rd hi hj, ok_bind]
      · by_cases h2 : i = j
        · subst h2
          simp
        · simp only [h1, h2, if_false])
  refine ⟨L, e, hL.congr ?_⟩
  intro a b ha hb
  simp only [ha, hb, and_self, if_true, getL]
  rw [fnOf_ofFn _ ha hb]
  by_cases h1 : b < a
  · simp [h1, fnOf_lt _ ha hb]
  · simp [h1]

theorem getUS_refines {m : Nat} {s : StateS α} {t : LU.State α m n} (hr : Rep s t) (h : n ≤ m) :
    ∃ U, getUS s = .ok U ∧ Is U .row n n (fnOf (getU h t)) := by
  obtain ⟨_, hn, hlu, _, _⟩ := hr
  unfold getUS
  rw [hn]
  have h0 := Is.resize (Store.empty_wf (α := α) .row) n n (by simpa using shape_row_le (Nat.le_refl n))
  simp only [Store.empty_kind] at h0
  obtain ⟨U, e, hU⟩ := fillLoop h0 (Nat.le_refl n) (Nat.le_refl n)
    (fun a b => if a ≤ b then fnOf t.lu a b else Scalar.zero)
    (fun i U => loop n (fun j U =>
      if i ≤ j then do
        let x ← rd s.lu i j
        wr U i j x
      else wr U i j Scalar.zero) U)
    (by
      intro i hi T
      apply loop_congr
      intro j hj T'
      by_cases h1 : i ≤ j
      · simp only [h1, if_true, hlu.rd (show i < m by omega) hj, ok_bind]
      · simp only [h1, if_false])
  refine ⟨U, e, hU.congr ?_⟩
  intro a b ha hb
  simp only [ha, hb, and_self, if_true, getU]
  rw [fnOf_ofFn _ ha hb]
  by_cases h1 : a ≤ b
  · simp [h1, fnOf_lt _ (show a < m by omega) hb]
  · simp [h1]

/-! ### vectors -/

/-- `x` has `k` elements, `x[i] = f i` -/
def IsV (x : Array α) (k : Nat) (f : Nat → α) : Prop := x.size = k ∧ ∀ i, i < k → x[i]? = some (f i)

theorem IsV.vrd {x : Array α} {k : Nat} {f : Nat → α} (h : IsV x k f) {i : Nat} (hi : i < k) : vrd x i = .ok (f i) := by
  simp [LUS.vrd, h.2 i hi]

theorem IsV.vwr {x : Array α} {k : Nat} {f : Nat → α} (h : IsV x k f) {i : Nat} (hi : i < k) (v : α) :
    ∃ x', vwr x i v = .ok x' ∧ IsV x' k (fun a => if a = i then v else f a) := by
  refine ⟨x.set! i v, by simp [LUS.vwr, h.1, hi], by simp [h.1], ?_⟩
  intro a ha
  by_cases hai : a = i
  · subst hai
    simp [h.1, ha]
  · have : ¬ i = a := fun e => hai e.symm
    simp [Array.getElem?_setIfInBounds, this, hai, h.2 a ha]

theorem IsV.congr {x : Array α} {k : Nat} {f g : Nat → α} (h : IsV x k f) (hfg : ∀ i, i < k → f i = g i) : IsV x k g :=
  ⟨h.1, fun i hi => by rw [h.2 i hi, hfg i hi]⟩

theorem IsV.eq_toArray {x : Array α} {k : Nat} (v : Vector α k) (h : IsV x k (fun i => if h : i < k then v[i] else default)) :
    x = v.toArray := by
  apply Array.ext
  · simp [h.1]
  · intro i h1 h2
    have hi : i < k := by simpa using h2
    have := h.2 i hi
    simp only [hi, dif_pos] at this
    rw [Array.getElem?_eq_getElem h1] at this
    simpa using this

/-- entry of a vector as a total function -/
def vecFn {k : Nat} (v : Vector α k) (i : Nat) : α := if h : i < k then v[i] else default

/-- **element-wise update of a vector**: iteration `j` of `for (j = c0; j < c1; j++)`, in any state
that still has the original contents outside `c0..j-1`, amounts to `x[j] = new j` -/
theorem vecLoop {x : Array α} {k : Nat} {f : Nat → α} (hx : IsV x k f) {c0 c1 : Nat} (h01 : c0 ≤ c1) (hc1 : c1 ≤ k)
    (new : Nat → α) (body : Nat → Array α → Res (Array α))
    (hbody : ∀ j, c0 ≤ j → j < c1 → ∀ y g, IsV y k g → (∀ a, ¬ (c0 ≤ a ∧ a < j) → g a = f a) →
      body j y = vwr y j (new j)) :
    ∃ x', loopFrom c0 c1 body x = .ok x' ∧ IsV x' k (fun a => if c0 ≤ a ∧ a < c1 then new a else f a) := by
  obtain ⟨x', e, g, hg, h1, h2⟩ := loopFrom_inv
    (fun j y => ∃ g, IsV y k g ∧ (∀ a, ¬ (c0 ≤ a ∧ a < j) → g a = f a) ∧ (∀ a, c0 ≤ a → a < j → g a = new a))
    c0 c1 h01 body x ⟨f, hx, fun _ _ => rfl, fun a h1 h2 => by omega⟩
    (by
      rintro j y hj0 hj1 ⟨g, hg, hout, hin⟩
      obtain ⟨y', e', hy'⟩ := hg.vwr (show j < k by omega) (new j)
      refine ⟨y', by rw [hbody j hj0 hj1 y g hg hout]; exact e', _, hy', ?_, ?_⟩
      · intro a ha
        have : ¬ a = j := by omega
        simp only [this, if_false]
        exact hout a (by omega)
      · intro a ha0 ha1
        by_cases haj : a = j
        · simp [haj]
        · simp only [haj, if_false]
          exact hin a ha0 (by omega))
  refine ⟨x', e, hg.congr ?_⟩
  intro a _
  by_cases ha : c0 ≤ a ∧ a < c1
  · rw [if_pos ha]; exact h2 a ha.1 ha.2
  · rw [if_neg ha]; exact h1 a ha

theorem vecLoop0 {x : Array α} {k : Nat} {f : Nat → α} (hx : IsV x k f) {c1 : Nat} (hc1 : c1 ≤ k)
    (new : Nat → α) (body : Nat → Array α → Res (Array α))
    (hbody : ∀ j, j < c1 → ∀ y g, IsV y k g → (∀ a, ¬ (a < j) → g a = f a) → body j y = vwr y j (new j)) :
    ∃ x', loop c1 body x = .ok x' ∧ IsV x' k (fun a => if a < c1 then new a else f a) := by
  obtain ⟨x', e, h⟩ := vecLoop hx (Nat.zero_le c1) hc1 new body
    (fun j _ hj y g hg hout => hbody j hj y g hg (fun a ha => hout a (fun h => ha h.2)))
  rw [loopFrom_zero] at e
  exact ⟨x', e, h.congr (fun a _ => by simp)⟩

/-- `permuteCopy(b, piv, x)`: whatever `x` was, it becomes `b(piv)` -/
theorem permuteCopyVS_refines (piv : Vector (Fin n) n) (b : Vector α n) (x : Array α) (hb : n = n) :
    ∃ x', permuteCopyVS b.toArray (Array.ofFn (n := n) fun i => (piv[i.val]'i.isLt).val) x = .ok x' ∧
      IsV x' n (vecFn (permuteCopyV b hb piv)) := by
  unfold permuteCopyVS
  simp only [Array.size_ofFn, Vector.size_toArray]
  have h0 : IsV (vresize (if n ≠ n then #[] else x) n (Scalar.zero : α)) n
      (fun i => (if n ≠ n then #[] else x).getD i Scalar.zero) := by
    refine ⟨by simp, fun i hi => ?_⟩
    simp [vresize, hi]
  obtain ⟨x', e, hx'⟩ := vecLoop0 h0 (Nat.le_refl n) (fun a => if h : a < n then b[(piv[a]'h).val] else default)
    (fun i x => do
      let pi ← vrd (Array.ofFn (n := n) fun i => (piv[i.val]'i.isLt).val) i
      let v ← vrd b.toArray pi
      vwr x i v)
    (by
      intro j hj y g hy _
      have h1 : vrd b.toArray (piv[j]'hj).val = .ok b[(piv[j]'hj).val] := by simp [vrd]
      simp only [vrd_ofFn _ hj, ok_bind, h1, hj, dif_pos])
  refine ⟨x', e, hx'.congr ?_⟩
  intro a ha
  simp [ha, vecFn, permuteCopyV]

theorem fwdStepVS_refines {s : StateS α} {t : LU.State α n n} (hr : Rep s t) {x : Array α} (v : Vector α n)
    (hx : IsV x n (vecFn v)) (k : Fin n) :
    ∃ x', loopFrom (k.val + 1) n (fun i x => do
        let xi ← vrd x i
        let xk ← vrd x k.val
        let l ← rd s.lu i k.val
        vwr x i (xi - xk * l)) x = .ok x' ∧ IsV x' n (vecFn (fwdStepV t rfl v k)) := by
  obtain ⟨_, _, hlu, _, _⟩ := hr
  obtain ⟨x', e, hx'⟩ := vecLoop hx (show k.val + 1 ≤ n by omega) (Nat.le_refl n)
    (fun a => vecFn v a - vecFn v k.val * fnOf t.lu a k.val)
    (fun i x => do
      let xi ← vrd x i
      let xk ← vrd x k.val
      let l ← rd s.lu i k.val
      vwr x i (xi - xk * l))
    (by
      intro j hj0 hj1 y g hy hout
      have e1 : g j = vecFn v j := hout j (by omega)
      have e2 : g k.val = vecFn v k.val := hout k.val (by omega)
      simp only [hy.vrd hj1, hy.vrd k.isLt, hlu.rd hj1 k.isLt, ok_bind, e1, e2])
  refine ⟨x', e, hx'.congr ?_⟩
  intro a ha
  simp only [fwdStepV, vecFn, ha, dif_pos, Vector.getElem_ofFn, Fin.cast_eq_self, k.isLt, and_true]
  by_cases hka : k.val < a
  · have : k.val + 1 ≤ a := by omega
    simp [hka, this, fnOf_lt _ ha k.isLt]
  · have : ¬ k.val + 1 ≤ a := by omega
    simp [hka, this]

theorem backStepVS_refines {s : StateS α} {t : LU.State α n n} (hr : Rep s t) {x : Array α} (v : Vector α n)
    (hx : IsV x n (vecFn v)) (k : Fin n) :
    ∃ x', (do
        let xk ← vrd x k.val
        let d ← rd s.lu k.val k.val
        let x1 ← vwr x k.val (xk / d)
        loop k.val (fun i x => do
          let xi ← vrd x i
          let xk ← vrd x k.val
          let l ← rd s.lu i k.val
          vwr x i (xi - xk * l)) x1) = .ok x' ∧ IsV x' n (vecFn (backStepV t rfl k v)) := by
  obtain ⟨_, _, hlu, _, _⟩ := hr
  obtain ⟨x1, e1, hx1⟩ := hx.vwr k.isLt (vecFn v k.val / fnOf t.lu k.val k.val)
  simp only [hx.vrd k.isLt, hlu.rd k.isLt k.isLt, ok_bind, e1]
  set g1 : Nat → α := fun a => if a = k.val then vecFn v k.val / fnOf t.lu k.val k.val else vecFn v a with hg1
  obtain ⟨x', e, hx'⟩ := vecLoop0 hx1 (show k.val ≤ n by omega)
    (fun a => g1 a - g1 k.val * fnOf t.lu a k.val)
    (fun i x => do
      let xi ← vrd x i
      let xk ← vrd x k.val
      let l ← rd s.lu i k.val
      vwr x i (xi - xk * l))
    (by
      intro j hj y g hy hout
      have e1 : g j = g1 j := hout j (by omega)
      have e2 : g k.val = g1 k.val := hout k.val (by omega)
      simp only [hy.vrd (show j < n by omega), hy.vrd k.isLt, hlu.rd (show j < n by omega) k.isLt, ok_bind, e1, e2])
  refine ⟨x', e, hx'.congr ?_⟩
  intro a ha
  simp only [backStepV, vecFn, ha, dif_pos, Vector.getElem_ofFn, Fin.cast_eq_self, k.isLt, hg1, if_true]
  by_cases hak : a = k.val
  · have : ¬ a < k.val := by omega
    simp [hak, fnOf_lt _ k.isLt k.isLt]
  · by_cases hlt : a < k.val
    · simp [hak, hlt, ha, fnOf_lt _ k.isLt k.isLt, fnOf_lt _ ha k.isLt]
    · simp [hak, hlt, ha]

/-- **the vector overload on arrays returns what the abstract `solveVec` returns**, whatever the
output vector contained and however long it was -/
theorem solveVecS_ok {m mb : Nat} {s : StateS α} {t : LU.State α m n} (hr : Rep s t) (b : Vector α mb) (x : Array α)
    {d : α} {y : Vector α m} (h : LU.solveVec t b = .ok (d, y)) :
    solveVecS s b.toArray x = .ok (d, y.toArray) := by
  unfold LU.solveVec at h
  by_cases hb : mb = m
  · rw [dif_pos hb] at h
    subst hb
    by_cases hsq : n = mb ∧ 0 < n
    · rw [dif_pos hsq] at h
      obtain ⟨hnm, hn⟩ := hsq
      subst hnm
      simp only at h
      by_cases hbt : belowThreshold (minDiag t rfl hn) = true
      · rw [if_pos hbt] at h; cases h
      · rw [if_neg hbt] at h
        injection h with h
        injection h with h1 h2
        subst h1
        unfold solveVecS
        have hbm : ¬ b.toArray.size ≠ s.m := by rw [hr.1]; simp
        simp only [hbm, if_false, minDiagS_refines hr hn, ok_bind, hbt]
        rw [hr.2.2.2.2]
        obtain ⟨x1, e1, hx1⟩ := permuteCopyVS_refines t.piv b x rfl
        obtain ⟨x2, e2, hx2⟩ := loop_foldl (fun (y : Array α) (v : Vector α n) => IsV y n (vecFn v)) n
          (fun k x => loopFrom (k + 1) n (fun i x => do
            let xi ← vrd x i
            let xk ← vrd x k
            let l ← rd s.lu i k
            vwr x i (xi - xk * l)) x)
          (fwdStepV t rfl) x1 _ hx1 (fun k y v hy => fwdStepVS_refines hr v hy k)
        obtain ⟨x3, e3, hx3⟩ := loop_foldr (fun (y : Array α) (v : Vector α n) => IsV y n (vecFn v)) n
          (fun t' x => do
            let k := n - 1 - t'
            let xk ← vrd x k
            let d ← rd s.lu k k
            let x1 ← vwr x k (xk / d)
            loop k (fun i x => do
              let xi ← vrd x i
              let xk ← vrd x k
              let l ← rd s.lu i k
              vwr x i (xi - xk * l)) x1)
          (backStepV t rfl) x2 _ hx2 (fun k y v hy => by
            have e : n - 1 - (n - 1 - k.val) = k.val := by omega
            simp only [e]
            exact backStepVS_refines hr v hy k)
        rw [e1]; simp only [ok_bind]
        unfold fwdVS backVS
        rw [hr.2.1, e2]; simp only [ok_bind]
        have : ¬ n = 0 := by omega
        simp only [this, if_false]
        rw [e3]; simp only [ok_bind, pure_eq]
        rw [IsV.eq_toArray _ hx3, h2]
        simp
    · rw [dif_neg hsq] at h; cases h
  · rw [dif_neg hb] at h; cases h

theorem solveVecS_error {m mb : Nat} {s : StateS α} {t : LU.State α m n} (hr : Rep s t) (b : Vector α mb) (x : Array α)
    {e : LU.Err} (h : LU.solveVec t b = .error e) (hne : e ≠ .ub) : solveVecS s b.toArray x = .error e := by
  unfold LU.solveVec at h
  by_cases hb : mb = m
  · rw [dif_pos hb] at h
    subst hb
    by_cases hsq : n = mb ∧ 0 < n
    · rw [dif_pos hsq] at h
      obtain ⟨hnm, hn⟩ := hsq
      subst hnm
      simp only at h
      by_cases hbt : belowThreshold (minDiag t rfl hn) = true
      · rw [if_pos hbt] at h
        injection h with h
        subst h
        unfold solveVecS
        have hbm : ¬ b.toArray.size ≠ s.m := by rw [hr.1]; simp
        simp only [hbm, if_false, minDiagS_refines hr hn, ok_bind, hbt, if_true]
      · rw [if_neg hbt] at h; cases h
    · rw [dif_neg hsq] at h
      injection h with h
      exact absurd h.symm hne
  · rw [dif_neg hb] at h
    injection h with h
    subst h
    unfold solveVecS
    have hbm : b.toArray.size ≠ s.m := by rw [hr.1]; simpa using hb
    rw [if_pos hbm]

end Bpp.LUS
