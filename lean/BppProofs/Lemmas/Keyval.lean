import BppModel.Text.Keyval
/-! Helper lemmas for C17 (key-value procedures: render → parse, render → substitute). -/
namespace Bpp.Text.Keyval
open Bpp.Text

/-- the delimiter test of the default split "," -/
abbrev isC : Char → Bool := fun c => [','].contains c

theorem isC_eq (c : Char) : isC c = (c == ',') := by
  simp [isC, List.contains, List.elem]
  cases (c == ',') <;> rfl

/-- the text of one argument -/
def tokOf (kv : Str × Str) : Str := kv.1 ++ '=' :: kv.2

/-! ### the nested tokenizer on a rendered argument list -/

theorem nested_inTok (tok rest : Str) (b : Int) (h : depthOk b tok = true) :
    nested isC true b (tok ++ ',' :: rest) = (nested isC false 0 rest).map (fun ts => tok :: ts)
    ∧ nested isC true b tok = some [tok] := by
  induction tok generalizing b with
  | nil =>
    have hb : b = 0 := by simpa [depthOk] using h
    subst hb
    constructor
    · simp [nested, isC_eq]
    · simp [nested]
  | cons c t ih =>
    by_cases hc : c = ','
    · subst hc
      simp only [depthOk, if_true, Bool.and_eq_true, bne_iff_ne, ne_eq, beq_self_eq_true] at h
      obtain ⟨hb, ht⟩ := h
      have hb' : (b == 0) = false := by simpa using hb
      obtain ⟨ih1, ih2⟩ := ih b ht
      constructor
      · simp only [List.cons_append, nested, isC_eq, beq_self_eq_true, if_true, hb', Bool.false_eq_true, if_false, ih1]
        cases nested isC false 0 rest <;> simp [pushFront]
      · simp only [nested, isC_eq, beq_self_eq_true, if_true, hb', Bool.false_eq_true, if_false, ih2]
        simp [pushFront]
    · have hc' : (c == ',') = false := by simpa using hc
      simp only [depthOk, hc', Bool.false_eq_true, if_false] at h
      obtain ⟨ih1, ih2⟩ := ih (b + delta c) h
      constructor
      · simp only [List.cons_append, nested, isC_eq, hc', Bool.false_eq_true, if_false, ih1]
        cases nested isC false 0 rest <;> simp [pushFront]
      · simp only [nested, isC_eq, hc', Bool.false_eq_true, if_false, ih2]
        simp [pushFront]

theorem nested_start (c : Char) (t rest : Str) (hc : c ≠ ',') (h : depthOk 0 (c :: t) = true) :
    nested isC false 0 ((c :: t) ++ ',' :: rest) = (nested isC false 0 rest).map (fun ts => (c :: t) :: ts)
    ∧ nested isC false 0 (c :: t) = some [c :: t] := by
  have hc' : (c == ',') = false := by simpa using hc
  simp only [depthOk, hc', Bool.false_eq_true, if_false, Int.zero_add] at h
  obtain ⟨h1, h2⟩ := nested_inTok t rest (delta c) h
  constructor
  · simp only [List.cons_append, nested, isC_eq, hc', Bool.false_eq_true, if_false, h1]
    cases nested isC false 0 rest <;> simp [pushFront]
  · simp only [nested, isC_eq, hc', Bool.false_eq_true, if_false, h2]
    simp [pushFront]

/-! ### facts from the side conditions -/

theorem depthOk_key (k : Str) (hk : k.all (fun c => !structural c) = true) (d : Int) (rest : Str) :
    depthOk d (k ++ rest) = depthOk d rest := by
  induction k with
  | nil => rfl
  | cons c t ih =>
    simp only [List.all_cons, Bool.and_eq_true, Bool.not_eq_true', structural, Bool.or_eq_false_iff,
      beq_eq_false_iff_ne, ne_eq] at hk
    obtain ⟨⟨⟨⟨h1, h2⟩, h3⟩, h4⟩, ht⟩ := hk
    have e1 : (c == ',') = false := by simpa using h1
    have e3 : (c == '(') = false := by simpa using h3
    have e4 : (c == ')') = false := by simpa using h4
    simp only [List.cons_append, depthOk, e1, Bool.false_eq_true, if_false, delta, e3, e4, Int.add_zero]
    exact ih ht

theorem key_no_eq (k : Str) (hk : k.all (fun c => !structural c) = true) : ∀ c ∈ k, c ≠ '=' := by
  intro c hc heq
  have := (List.all_eq_true.mp hk) c hc
  subst heq
  simp [structural] at this

theorem tok_depthOk (kv : Str × Str) (h : PairOk kv = true) : depthOk 0 (tokOf kv) = true := by
  simp only [PairOk, KeyOk, ValOk, Bool.and_eq_true] at h
  obtain ⟨⟨⟨hk, _⟩, ⟨hv, _⟩⟩, _⟩ := h
  unfold tokOf
  rw [depthOk_key kv.1 hk]
  have e1 : ('=' == ',') = false := by decide
  simp only [depthOk, e1, Bool.false_eq_true, if_false]
  have : delta '=' = 0 := by decide
  rw [this, Int.add_zero]; exact hv

theorem tok_head (kv : Str × Str) (h : PairOk kv = true) :
    ∃ c t, tokOf kv = c :: t ∧ c ≠ ',' := by
  simp only [PairOk, KeyOk, Bool.and_eq_true] at h
  obtain ⟨⟨⟨hk, _⟩, _⟩, _⟩ := h
  unfold tokOf
  cases hkk : kv.1 with
  | nil => exact ⟨'=', kv.2, rfl, by decide⟩
  | cons c t =>
    refine ⟨c, t ++ '=' :: kv.2, rfl, ?_⟩
    rw [hkk] at hk
    simp only [List.all_cons, Bool.and_eq_true, Bool.not_eq_true', structural, Bool.or_eq_false_iff,
      beq_eq_false_iff_ne, ne_eq] at hk
    exact hk.1.1.1.1

theorem tok_ne_eq (kv : Str × Str) (h : PairOk kv = true) : (tokOf kv == ['=']) = false := by
  simp only [PairOk, Bool.and_eq_true, Bool.not_eq_true', Bool.and_eq_false_iff] at h
  obtain ⟨_, hne⟩ := h
  unfold tokOf
  cases hk : kv.1 with
  | nil =>
    cases hv : kv.2 with
    | nil => rw [hk, hv] at hne; simp at hne
    | cons a t => simp
  | cons c t =>
    cases t <;> simp

/-- `k1=v1,k2=v2,…` as first token plus comma-prefixed tokens -/
def commaToks (kvs : List (Str × Str)) : Str := kvs.flatMap (fun kv => ',' :: tokOf kv)

theorem renderArgs_cons (a : Str × Str) (rest : List (Str × Str)) :
    renderArgs (a :: rest) = tokOf a ++ commaToks rest := by
  induction rest generalizing a with
  | nil => rcases a with ⟨k, v⟩; simp [renderArgs, tokOf, commaToks]
  | cons b rest ih =>
    rcases a with ⟨k, v⟩
    simp only [renderArgs]
    rw [ih b]
    simp [tokOf, commaToks]

theorem nested_renderArgs (kvs : List (Str × Str)) (h : kvs.all PairOk = true) :
    nested isC false 0 (renderArgs kvs) = some (kvs.map tokOf) := by
  induction kvs with
  | nil => simp [renderArgs, nested]
  | cons a rest ih =>
    simp only [List.all_cons, Bool.and_eq_true] at h
    obtain ⟨c, t, hct, hc⟩ := tok_head a h.1
    have hd := tok_depthOk a h.1
    rw [hct] at hd
    obtain ⟨n1, n2⟩ := nested_start c t (renderArgs rest) hc hd
    cases rest with
    | nil => rw [renderArgs_cons]; simp [commaToks, hct, n2]
    | cons b rest' =>
      have e : renderArgs (a :: b :: rest') = (c :: t) ++ ',' :: renderArgs (b :: rest') := by
        rw [renderArgs_cons, renderArgs_cons, hct]; simp [commaToks]
      rw [e, n1, ih h.2]
      try simp [hct]

theorem mergeEq_plain (toks acc : List Str) (h : ∀ t ∈ toks, (t == ['=']) = false) :
    mergeEq toks acc = some (acc.reverse ++ toks) := by
  induction toks generalizing acc with
  | nil => simp [mergeEq]
  | cons t ts ih =>
    have ht := h t (List.mem_cons_self ..)
    rw [mergeEq.eq_def]
    simp only [ht, Bool.false_eq_true, if_false]
    rw [ih _ (fun x hx => h x (List.mem_cons_of_mem _ hx))]
    simp

theorem isPrefix_single (c : Char) (s : Str) : isPrefix [c] s = match s with
    | [] => false
    | a :: _ => c == a := by
  cases s <;> simp [isPrefix]

theorem find_single (c : Char) (k v : Str) (hk : ∀ a ∈ k, a ≠ c) :
    find [c] (k ++ c :: v) = some k.length := by
  induction k with
  | nil => simp [find, isPrefix]
  | cons a t ih =>
    have ha : (c == a) = false := by
      have := hk a (List.mem_cons_self ..)
      simpa using fun h => this h.symm
    simp only [List.cons_append, find, isPrefix, ha, Bool.false_and, Bool.false_eq_true, if_false]
    rw [ih (fun x hx => hk x (List.mem_cons_of_mem _ hx))]
    simp

theorem singleKeyval_tok (kv : Str × Str) (h : PairOk kv = true) :
    singleKeyval (tokOf kv) ['='] = some kv ∧ trim kv.1 = kv.1 ∧ trim kv.2 = kv.2 := by
  simp only [PairOk, KeyOk, ValOk, Bool.and_eq_true, beq_iff_eq] at h
  obtain ⟨⟨⟨hk, hkt⟩, ⟨_, hvt⟩⟩, _⟩ := h
  refine ⟨?_, hkt, hvt⟩
  unfold singleKeyval tokOf
  rw [find_single '=' kv.1 kv.2 (key_no_eq kv.1 hk)]
  simp

/-! ### the head of a rendered procedure -/

theorem findChar_append (c : Char) (s t : Str) (hs : ∀ a ∈ s, a ≠ c) :
    findChar c (s ++ c :: t) = some s.length := by
  induction s with
  | nil => simp [findChar]
  | cons a s ih =>
    have ha : (a == c) = false := by simpa using hs a (List.mem_cons_self ..)
    simp only [List.cons_append, findChar, ha, Bool.false_eq_true, if_false]
    rw [ih (fun x hx => hs x (List.mem_cons_of_mem _ hx))]; simp

theorem findLastChar_snoc (c : Char) (s : Str) : findLastChar c (s ++ [c]) = some s.length := by
  induction s with
  | nil => simp [findLastChar]
  | cons a s ih => simp [findLastChar, ih]

theorem splitProcedure_render (name : Str) (kvs : List (Str × Str)) (hn : NameOk name = true) :
    splitProcedure (render name kvs) = some (some (name, renderArgs kvs)) := by
  simp only [NameOk, Bool.and_eq_true, beq_iff_eq] at hn
  obtain ⟨hnp, hnt⟩ := hn
  have hno : ∀ a ∈ name, a ≠ '(' := by
    intro a ha
    have := (List.all_eq_true.mp hnp) a ha
    simp at this; exact this.1
  have hr : render name kvs = name ++ '(' :: (renderArgs kvs ++ [')']) := by simp [render]
  have e1 : findChar '(' (render name kvs) = some name.length := by
    rw [hr]; exact findChar_append '(' name _ hno
  have e2 : findLastChar ')' (render name kvs) = some (name.length + 1 + (renderArgs kvs).length) := by
    have : render name kvs = (name ++ '(' :: renderArgs kvs) ++ [')'] := by simp [render]
    rw [this, findLastChar_snoc]; simp; omega
  unfold splitProcedure
  rw [e1, e2]
  have e3 : (render name kvs).drop (name.length + 1 + (renderArgs kvs).length + 1) = [] := by
    apply List.drop_eq_nil_of_le; simp [render]; omega
  simp only [e3, isEmptyStr, List.all_nil, Bool.not_true, Bool.false_eq_true, if_false]
  have e4 : (render name kvs).take name.length = name := by simp [render]
  have e5 : ((render name kvs).drop (name.length + 1)).take (name.length + 1 + (renderArgs kvs).length - name.length - 1)
      = renderArgs kvs := by
    have : (render name kvs).drop (name.length + 1) = renderArgs kvs ++ [')'] := by
      have : render name kvs = (name ++ ['(']) ++ (renderArgs kvs ++ [')']) := by simp [render]
      rw [this, List.drop_left' (by simp)]
    rw [this]
    have : name.length + 1 + (renderArgs kvs).length - name.length - 1 = (renderArgs kvs).length := by omega
    rw [this]; simp
  rw [e4, e5, hnt]

/-! ### the final loops -/

theorem foldlM_tokens (kvs : List (Str × Str)) (h : kvs.all PairOk = true) (m0 : Map) :
    (kvs.map tokOf).foldlM kvStep m0
      = some (kvs.foldl (fun m kv => mapInsert kv.1 kv.2 m) m0) := by
  induction kvs generalizing m0 with
  | nil => rfl
  | cons a rest ih =>
    simp only [List.all_cons, Bool.and_eq_true] at h
    obtain ⟨h1, h2, h3⟩ := singleKeyval_tok a h.1
    simp only [List.map_cons, List.foldlM_cons, kvStep, h1, h2, h3, List.foldl_cons]
    exact ih h.2 _

theorem findChar_none (c : Char) (s : Str) (h : ∀ a ∈ s, a ≠ c) : findChar c s = none := by
  induction s with
  | nil => rfl
  | cons a t ih =>
    have : (a == c) = false := by simpa using h a (List.mem_cons_self ..)
    simp [findChar, this, ih (fun x hx => h x (List.mem_cons_of_mem _ hx))]

theorem findLastChar_none (c : Char) (s : Str) (h : ∀ a ∈ s, a ≠ c) : findLastChar c s = none := by
  induction s with
  | nil => rfl
  | cons a t ih =>
    have : (a == c) = false := by simpa using h a (List.mem_cons_self ..)
    simp [findLastChar, this, ih (fun x hx => h x (List.mem_cons_of_mem _ hx))]

theorem foldlM_change (newkv : Map) (L : List (Str × Str)) (h : L.all PairOk = true) (pre : Str) :
    (L.map tokOf).foldlM (chgStep newkv [',']) (false, pre)
      = some (false, pre ++ commaToks (substArgs newkv L)) := by
  induction L generalizing pre with
  | nil => simp [commaToks, substArgs]
  | cons a rest ih =>
    simp only [List.all_cons, Bool.and_eq_true] at h
    obtain ⟨h1, h2, _⟩ := singleKeyval_tok a h.1
    simp only [List.map_cons, List.foldlM_cons, chgStep, h1, h2]
    cases hf : mapFind a.1 newkv with
    | some nv =>
      simp only [Bool.false_eq_true, if_false, Option.bind_eq_bind, Option.bind_some]
      rw [ih h.2]
      simp [commaToks, substArgs, hf, tokOf]
    | none =>
      simp only [Bool.false_eq_true, if_false, Option.bind_eq_bind, Option.bind_some]
      rw [ih h.2]
      simp [commaToks, substArgs, hf, tokOf]


/-! ### the nested tokenizer never splits inside brackets -/

/-- `(` minus `)` over a text -/
def depthSum (t : Str) : Int := (t.map delta).sum

/-- every delimiter of the text is inside brackets (the count, `d` so far, is not 0 there) -/
def delimsInside (isD : Char → Bool) : Int → Str → Bool
  | _, [] => true
  | d, c :: r => if isD c then d != 0 && delimsInside isD d r else delimsInside isD (d + delta c) r

theorem depthSum_cons (c : Char) (t : Str) : depthSum (c :: t) = delta c + depthSum t := by
  simp [depthSum]

theorem nested_spec (isD : Char → Bool) (hbr : ∀ c, isD c = true → delta c = 0) (s : Str) :
    (∀ b toks, nested isD false b s = some toks →
        ∀ t ∈ toks, depthSum t = 0 ∧ delimsInside isD 0 t = true ∧ t ≠ []) ∧
    (∀ b toks, nested isD true b s = some toks →
        ∃ t ts, toks = t :: ts ∧ b + depthSum t = 0 ∧ delimsInside isD b t = true ∧
          ∀ t' ∈ ts, depthSum t' = 0 ∧ delimsInside isD 0 t' = true ∧ t' ≠ []) := by
  induction s with
  | nil =>
    constructor
    · intro b toks h; simp [nested] at h; subst h; intro t ht; cases ht
    · intro b toks h
      simp only [nested] at h
      split at h
      · rename_i hb; simp at h; subst h
        have : b = 0 := by simpa using hb
        exact ⟨[], [], rfl, by simp [depthSum, this], by simp [delimsInside], fun t' ht' => by cases ht'⟩
      · cases h
  | cons c rest ih =>
    obtain ⟨ihF, ihT⟩ := ih
    constructor
    · intro b toks h
      simp only [nested] at h
      split at h
      · exact ihF b toks h
      · rename_i hc
        cases hn : nested isD true (delta c) rest with
        | none => simp [hn] at h
        | some toks' =>
          simp [hn] at h; subst h
          obtain ⟨t, ts, rfl, h1, h2, h3⟩ := ihT _ _ hn
          intro t' ht'
          simp only [pushFront, List.mem_cons] at ht'
          rcases ht' with rfl | ht'
          · refine ⟨by rw [depthSum_cons]; exact h1, ?_, by simp⟩
            simp only [delimsInside, hc, Bool.false_eq_true, if_false, Int.zero_add]; exact h2
          · exact h3 t' ht'
    · intro b toks h
      simp only [nested] at h
      split at h
      · rename_i hc
        split at h
        · rename_i hb
          have hb0 : b = 0 := by simpa using hb
          cases hn : nested isD false 0 rest with
          | none => simp [hn] at h
          | some toks' =>
            simp [hn] at h; subst h
            exact ⟨[], toks', rfl, by simp [depthSum, hb0], by simp [delimsInside], ihF 0 toks' hn⟩
        · rename_i hb
          cases hn : nested isD true b rest with
          | none => simp [hn] at h
          | some toks' =>
            simp [hn] at h; subst h
            obtain ⟨t, ts, rfl, h1, h2, h3⟩ := ihT _ _ hn
            refine ⟨c :: t, ts, rfl, ?_, ?_, h3⟩
            · rw [depthSum_cons, hbr c hc]; omega
            · simp only [delimsInside, hc, if_true, Bool.and_eq_true, bne_iff_ne, ne_eq]
              exact ⟨by simpa using hb, h2⟩
      · rename_i hc
        cases hn : nested isD true (b + delta c) rest with
        | none => simp [hn] at h
        | some toks' =>
          simp [hn] at h; subst h
          obtain ⟨t, ts, rfl, h1, h2, h3⟩ := ihT _ _ hn
          refine ⟨c :: t, ts, rfl, ?_, ?_, h3⟩
          · rw [depthSum_cons]; omega
          · simp only [delimsInside, hc, Bool.false_eq_true, if_false]; exact h2

end Bpp.Text.Keyval
