import BppProofs.Lemmas.Hmm
/-!
Helper lemmas for C13: the posterior rows of the rescaled class are the exact path marginals.
-/
namespace Bpp.Hmm
open Bpp Finset

/-- `margW` with `List.sum` -/
noncomputable def margS (p : Params ℝ) (prev : Nat) (sites : List (Site ℝ)) (i j : Nat) : ℝ :=
  (((allPaths p.n sites.length).filter (fun ys => ys[i]? == some j)).map (pathW p prev sites)).sum

theorem margW_eq (p : Params ℝ) (prev : Nat) (sites : List (Site ℝ)) (i j : Nat) :
    margW p prev sites i j = margS p prev sites i j := by
  unfold margW margS; rw [sumL_eq_sum]

theorem sum_filter_flatMap {β γ : Type} (L : List β) (f : β → List γ) (q : γ → Bool) (g : γ → ℝ) :
    (((L.flatMap f).filter q).map g).sum = (L.map (fun y => (((f y).filter q).map g).sum)).sum := by
  induction L with
  | nil => simp
  | cons x xs ih => simp [List.flatMap_cons, List.filter_append, ih]

/-- weight of entering state `y` at a site -/
noncomputable def stepW (p : Params ℝ) (b : Bool) (prev y : Nat) : ℝ := if b then initW p y else p.P prev y

theorem margS_zero (p : Params ℝ) (prev : Nat) (b : Bool) (e : Emis ℝ) (rest : List (Site ℝ)) (j : Nat) (hj : j < p.n) :
    margS p prev ((b, e) :: rest) 0 j = stepW p b prev j * e j * tailSum p j rest := by
  unfold margS
  simp only [List.length_cons, allPaths]
  rw [sum_filter_flatMap, sum_map_range]
  have : ∀ y, y ∈ range p.n →
      (((List.map (fun ys => y :: ys) (allPaths p.n rest.length)).filter (fun ys => ys[0]? == some j)).map
        (pathW p prev ((b, e) :: rest))).sum = if y = j then stepW p b prev j * e j * tailSum p j rest else 0 := by
    intro y _
    rw [List.filter_map]
    by_cases hy : y = j
    · subst hy
      have hf : ((fun ys : List Nat => ys[0]? == some y) ∘ fun ys => y :: ys) = fun _ => true := by funext ys; simp
      rw [hf, List.filter_true, List.map_map, if_pos rfl]
      have : (pathW p prev ((b, e) :: rest) ∘ fun ys => y :: ys) = fun ys => (stepW p b prev y * e y) * pathW p y rest ys := by
        funext ys; simp [pathW, stepW]
      rw [this, List.sum_map_mul_left]; rfl
    · have hf : ((fun ys : List Nat => ys[0]? == some j) ∘ fun ys => y :: ys) = fun _ => false := by
        funext ys; simp [hy]
      rw [hf, if_neg hy]; simp
  rw [Finset.sum_congr rfl this, Finset.sum_ite_eq' (range p.n) j]
  simp [hj]

theorem margS_succ (p : Params ℝ) (prev : Nat) (b : Bool) (e : Emis ℝ) (rest : List (Site ℝ)) (i j : Nat) :
    margS p prev ((b, e) :: rest) (i + 1) j = ∑ y ∈ range p.n, stepW p b prev y * e y * margS p y rest i j := by
  unfold margS
  simp only [List.length_cons, allPaths]
  rw [sum_filter_flatMap, sum_map_range]
  apply Finset.sum_congr rfl; intro y _
  rw [List.filter_map, List.map_map]
  have hf : ((fun ys : List Nat => ys[i + 1]? == some j) ∘ fun ys => y :: ys) = fun ys => ys[i]? == some j := by
    funext ys; simp
  have hw : (pathW p prev ((b, e) :: rest) ∘ fun ys => y :: ys) = fun ys => (stepW p b prev y * e y) * pathW p y rest ys := by
    funext ys; simp [pathW, stepW]
  rw [hf, hw, List.sum_map_mul_left]

/-- the next unscaled forward vector, with the total of a finished segment folded in at a restart -/
noncomputable def nextU (p : Params ℝ) (g : Nat → ℝ) (s : Site ℝ) : Nat → ℝ :=
  if s.1 then fun j => (∑ y ∈ range p.n, g y) * restartF p s.2 j else stepF p s.2 g

theorem sum_margS_zero (p : Params ℝ) (g : Nat → ℝ) (s : Site ℝ) (rest : List (Site ℝ)) (j : Nat) (hj : j < p.n) :
    ∑ y ∈ range p.n, g y * margS p y (s :: rest) 0 j = nextU p g s j * tailSum p j rest := by
  obtain ⟨b, e⟩ := s
  simp only [margS_zero p _ b e rest j hj, nextU]
  cases b with
  | true =>
    simp only [stepW, if_true, restartF]
    rw [← Finset.sum_mul]; ring
  | false =>
    simp only [stepW, Bool.false_eq_true, if_false, stepF]
    rw [Finset.mul_sum, Finset.sum_mul]
    apply Finset.sum_congr rfl; intro y _; ring

theorem sum_margS_succ (p : Params ℝ) (g : Nat → ℝ) (s : Site ℝ) (rest : List (Site ℝ)) (i j : Nat) :
    ∑ y ∈ range p.n, g y * margS p y (s :: rest) (i + 1) j = ∑ y' ∈ range p.n, nextU p g s y' * margS p y' rest i j := by
  obtain ⟨b, e⟩ := s
  simp only [margS_succ, nextU]
  cases b with
  | true =>
    simp only [stepW, if_true, restartF]
    simp only [Finset.mul_sum, Finset.sum_mul]
    rw [Finset.sum_comm]
    apply Finset.sum_congr rfl; intro y' _
    apply Finset.sum_congr rfl; intro y _; ring
  | false =>
    simp only [stepW, Bool.false_eq_true, if_false, stepF]
    simp only [Finset.mul_sum, Finset.sum_mul]
    rw [Finset.sum_comm]
    apply Finset.sum_congr rfl; intro y' _
    apply Finset.sum_congr rfl; intro y _; ring

theorem vec_getElem? {α : Type} (n : Nat) (g : Nat → α) (j : Nat) (hj : j < n) : (vec n g)[j]? = some (g j) := by
  simp [vec, hj]

/-- scaling of the next unscaled vector: `nextU (K • ĝ) = (K·c) • normalised`, for `Σ ĝ = 1` -/
theorem nextU_scaled (p : Params ℝ) (K : ℝ) (gh : Nat → ℝ) (hg1 : ∑ j ∈ range p.n, gh j = 1) (b : Bool) (e : Emis ℝ)
    (t : Nat → ℝ) (htb : t = if b then restartF p e else stepF p e gh) (f1 : Nat → ℝ) (c : ℝ)
    (hspec : ∀ j, j < p.n → t j = c * f1 j) (y : Nat) (hy : y < p.n) :
    nextU p (fun k => K * gh k) (b, e) y = (K * c) * f1 y := by
  cases b with
  | true =>
    simp only [nextU, if_true]
    rw [← Finset.mul_sum, hg1, mul_one, mul_assoc, ← hspec y hy, htb]; simp
  | false =>
    simp only [nextU, Bool.false_eq_true, if_false]
    have : stepF p e (fun k => K * gh k) y = K * stepF p e gh y := by
      unfold stepF
      rw [Finset.sum_congr rfl (fun k _ => by rw [show p.P k y * (K * gh k) = K * (p.P k y * gh k) by ring]),
        ← Finset.mul_sum]; ring
    rw [this, mul_assoc, ← hspec y hy, htb]; simp

/-- forward–backward decomposition of the path marginals along the rescaled recursions -/
theorem marginal_rows (p : Params ℝ) (hp : NonNegP p) (rest : List (Site ℝ)) (hs : NonNegS rest)
    (gh : Nat → ℝ) (hgh : ∀ j, j < p.n → 0 ≤ gh j) (hg1 : ∑ j ∈ range p.n, gh j = 1)
    (hpos : ∀ x ∈ rescLoop p rest (vec p.n gh), 0 < x.2) :
    ∃ (B : Nat → ℝ) (tl : List (List ℝ)),
      backAll p (itemsOf rest (rescLoop p rest (vec p.n gh))) = vec p.n B :: tl
      ∧ ∑ j ∈ range p.n, gh j * B j = 1
      ∧ (∀ j, j < p.n → tailSum p j rest = prodScales (rescLoop p rest (vec p.n gh)) * B j)
      ∧ ∀ (K : ℝ) (i : Nat), i < rest.length → ∀ j, j < p.n →
          ∃ (f b' : Nat → ℝ),
            ((rescLoop p rest (vec p.n gh)).map (·.1))[i]? = some (vec p.n f) ∧ tl[i]? = some (vec p.n b')
            ∧ ∑ y ∈ range p.n, (K * gh y) * margS p y rest i j
                = K * prodScales (rescLoop p rest (vec p.n gh)) * (f j * b' j) := by
  induction rest generalizing gh with
  | nil =>
    refine ⟨fun _ => 1, [], by simp [rescLoop, itemsOf, backAll, onesV], by simpa using hg1,
      fun j _ => by simp [tailSum_nil, rescLoop, prodScales], fun K i hi => absurd hi (by simp)⟩
  | cons s rest ih =>
    obtain ⟨b, e⟩ := s
    have he : NonNegE e := hs (b, e) (List.mem_cons_self)
    have hs' : NonNegS rest := fun s hs'' => hs s (List.mem_cons_of_mem _ hs'')
    have hstep : ∃ t : Nat → ℝ, (∀ j, 0 ≤ t j) ∧
        rescLoop p ((b, e) :: rest) (vec p.n gh)
          = (vec p.n (normF t (∑ i ∈ range p.n, t i)), ∑ i ∈ range p.n, t i)
            :: rescLoop p rest (vec p.n (normF t (∑ i ∈ range p.n, t i)))
        ∧ (t = if b then restartF p e else stepF p e gh) := by
      cases b with
      | true => exact ⟨restartF p e, restartF_nonneg p hp e he, rescLoop_cons_true p e rest _, by simp⟩
      | false => exact ⟨stepF p e gh, stepF_nonneg p hp e he gh hgh, rescLoop_cons_false p hp e he rest gh hgh, by simp⟩
    obtain ⟨t, ht, hloop, htb⟩ := hstep
    set c := ∑ i ∈ range p.n, t i with hc
    rw [hloop] at hpos ⊢
    have hcpos : 0 < c := hpos _ (List.mem_cons_self)
    have hf := normF_nonneg t c p.n (fun j _ => ht j)
    have hspec := (normF_spec p.n t (fun j _ => ht j))
    rw [← hc] at hspec
    have hf1 : ∑ j ∈ range p.n, normF t c j = 1 :=
      mul_left_cancel₀ (ne_of_gt hcpos) (by rw [hspec.2, mul_one])
    obtain ⟨B', tl', hback', hsum', htail', hmarg'⟩ :=
      ih hs' (normF t c) hf hf1 (fun x hx => hpos x (List.mem_cons_of_mem _ hx))
    set R' := rescLoop p rest (vec p.n (normF t c)) with hR'
    have hitems : itemsOf ((b, e) :: rest) ((vec p.n (normF t c), c) :: R') = (b, e, c) :: itemsOf rest R' := by
      simp [itemsOf]
    have hprod : prodScales ((vec p.n (normF t c), c) :: R') = c * prodScales R' := by simp [prodScales]
    rw [hitems]
    simp only [backAll, hback']
    -- Σ_k t k · tailSum k rest = c · prodScales R'
    have htot : ∑ k ∈ range p.n, t k * tailSum p k rest = c * prodScales R' := by
      rw [Finset.sum_congr rfl (fun k hk => by
        rw [hspec.1 k (Finset.mem_range.mp hk), htail' k (Finset.mem_range.mp hk)])]
      rw [Finset.sum_congr rfl (fun k _ => by
        rw [show c * normF t c k * (prodScales R' * B' k) = (c * prodScales R') * (normF t c k * B' k) by ring]),
        ← Finset.mul_sum, hsum', mul_one]
    -- the marginals, uniformly in the flag
    have hmarg : ∀ (K : ℝ) (i : Nat), i < ((b, e) :: rest).length → ∀ j, j < p.n →
        ∃ (f b'' : Nat → ℝ),
          ((((vec p.n (normF t c), c) :: R').map (·.1)))[i]? = some (vec p.n f)
          ∧ (vec p.n B' :: tl')[i]? = some (vec p.n b'')
          ∧ ∑ y ∈ range p.n, (K * gh y) * margS p y ((b, e) :: rest) i j
              = K * prodScales ((vec p.n (normF t c), c) :: R') * (f j * b'' j) := by
      intro K i hi j hj
      cases i with
      | zero =>
        refine ⟨normF t c, B', by simp, by simp, ?_⟩
        rw [sum_margS_zero p (fun y => K * gh y) (b, e) rest j hj,
          nextU_scaled p K gh hg1 b e t htb (normF t c) c hspec.1 j hj, htail' j hj, hprod]
        ring
      | succ i =>
        have hi' : i < rest.length := by simpa using hi
        obtain ⟨f, b'', h1, h2, h3⟩ := hmarg' (K * c) i hi' j hj
        refine ⟨f, b'', by simpa using h1, by simpa using h2, ?_⟩
        rw [sum_margS_succ p (fun y => K * gh y) (b, e) rest i j,
          Finset.sum_congr rfl (fun y' hy' => by
            rw [nextU_scaled p K gh hg1 b e t htb (normF t c) c hspec.1 y' (Finset.mem_range.mp hy')]),
          h3, hprod]
        ring
    cases b with
    | true =>
      refine ⟨fun _ => 1, vec p.n B' :: tl', by simp [backStep, onesV], by simpa using hg1, ?_, hmarg⟩
      intro j _
      rw [tailSum_cons, hprod, mul_one]
      simp only [if_true]
      have : t = restartF p e := by simpa using htb
      rw [← htot, this]
      apply Finset.sum_congr rfl; intro k _; unfold restartF; ring
    | false =>
      rw [backStep_false]
      have htk : ∀ k, t k = e k * ∑ j ∈ range p.n, p.P j k * gh j := by
        intro k; have : t = stepF p e gh := by simpa using htb
        rw [this]; rfl
      refine ⟨_, vec p.n B' :: tl', rfl, ?_, ?_, hmarg⟩
      · rw [← hsum']
        have : ∀ k, normF t c k = t k / c := by intro k; simp [normF, hcpos]
        simp only [this, htk]
        simp only [Finset.mul_sum, Finset.sum_div, Finset.sum_mul]
        rw [Finset.sum_comm]
        apply Finset.sum_congr rfl; intro k _
        apply Finset.sum_congr rfl; intro j _
        ring
      · intro j _
        rw [tailSum_cons, hprod]
        simp only [Bool.false_eq_true, if_false]
        rw [Finset.sum_congr rfl (fun k hk => by rw [htail' k (Finset.mem_range.mp hk)])]
        have hc0 : c ≠ 0 := ne_of_gt hcpos
        rw [Finset.sum_div, Finset.mul_sum]
        apply Finset.sum_congr rfl; intro k _
        field_simp

theorem rescPosterior_marginal (p : Params ℝ) (hp : NonNegP p) (e0 : Emis ℝ) (he0 : NonNegE e0)
    (es : List (Emis ℝ)) (hes : ∀ e ∈ es, NonNegE e) (bps : List Nat) (hv : ValidBreaks (es.length + 1) bps)
    (hpos : ∀ c ∈ (rescForward p e0 (mkSites es bps)).scales, 0 < c)
    (i : Nat) (hi : i < es.length + 1) (j : Nat) (hj : j < p.n) :
    ∃ row x, (rescPosterior p e0 es bps)[i]? = some row ∧ row[j]? = some x
      ∧ x * pathSum p e0 (mkSites es bps) = pathMarginal p e0 (mkSites es bps) i j := by
  have hsites : NonNegS (mkSites es bps) := by
    intro s hs
    have : s.2 ∈ (mkSites es bps).map (·.2) := List.mem_map_of_mem hs
    rw [mkSites_snd] at this; exact hes _ this
  set sites := mkSites es bps with hsd
  have ht := restartF_nonneg p hp e0 he0
  set c0 := ∑ i ∈ range p.n, restartF p e0 i with hc0
  set f0 := normF (restartF p e0) c0 with hf0
  have hfw : rescForward p e0 sites
      = { lik := vec p.n f0 :: (rescLoop p sites (vec p.n f0)).map (·.1),
          scales := c0 :: (rescLoop p sites (vec p.n f0)).map (·.2),
          logLik := (rescForward p e0 sites).logLik } := by
    unfold rescForward; simp only [rescLoop_cons_true, List.map_cons]; rfl
  have hscales : (rescForward p e0 sites).scales = c0 :: (rescLoop p sites (vec p.n f0)).map (·.2) := by rw [hfw]
  have hlik : (rescForward p e0 sites).lik = vec p.n f0 :: (rescLoop p sites (vec p.n f0)).map (·.1) := by rw [hfw]
  have hc0pos : 0 < c0 := hpos c0 (by rw [hscales]; exact List.mem_cons_self)
  have hf := normF_nonneg (restartF p e0) c0 p.n (fun j _ => ht j)
  have hspec := normF_spec p.n (restartF p e0) (fun j _ => ht j)
  rw [← hc0] at hspec
  have hf1 : ∑ j ∈ range p.n, f0 j = 1 := mul_left_cancel₀ (ne_of_gt hc0pos) (by rw [hspec.2, mul_one])
  have hRpos : ∀ x ∈ rescLoop p sites (vec p.n f0), 0 < x.2 := by
    intro x hx; apply hpos; rw [hscales]; exact List.mem_cons_of_mem _ (List.mem_map_of_mem hx)
  obtain ⟨B, tl, hback, hsum, htail, hmarg⟩ := marginal_rows p hp sites hsites f0 hf hf1 hRpos
  have hbw : rescBackward p es (rescForward p e0 sites).scales bps = vec p.n B :: tl := by
    unfold rescBackward
    rw [bwd_flags_eq_fwd es bps hv, hscales, List.tail_cons]
    have hsnd : sites.map (·.2) = es := by rw [hsd]; exact mkSites_snd es bps
    have hz := zip_items sites (rescLoop p sites (vec p.n f0))
    rw [hsnd] at hz
    rw [hz]; exact hback
  have hpost : rescPosterior p e0 es bps
      = mulV (vec p.n f0) (vec p.n B) :: List.zipWith mulV ((rescLoop p sites (vec p.n f0)).map (·.1)) tl := by
    unfold rescPosterior posteriorOf
    simp only [← hsd, hbw, hlik, List.zipWith_cons_cons]
  have hps : pathSum p e0 sites = c0 * prodScales (rescLoop p sites (vec p.n f0)) := by
    rw [← fwdU_eq_pathSum, ← scales_prod_eq_fwdU p hp e0 he0 sites hsites, hscales]; simp [prodScales]
  rw [hpost, hps]
  unfold pathMarginal
  rw [margW_eq]
  cases i with
  | zero =>
    refine ⟨mulV (vec p.n f0) (vec p.n B), f0 j * B j, by simp, by rw [mulV_vec, vec_getElem? _ _ _ hj], ?_⟩
    rw [margS_zero p 0 true e0 sites j hj, htail j hj]
    simp only [stepW, if_true]
    have : initW p j * e0 j = c0 * f0 j := by
      have := hspec.1 j hj; unfold restartF at this; rw [mul_comm]; exact this
    rw [this]; ring
  | succ i =>
    have hi' : i < sites.length := by rw [hsd, mkSites_length]; omega
    obtain ⟨f, b', h1, h2, h3⟩ := hmarg c0 i hi' j hj
    refine ⟨mulV (vec p.n f) (vec p.n b'), f j * b' j, ?_, by rw [mulV_vec, vec_getElem? _ _ _ hj], ?_⟩
    · simp only [List.getElem?_cons_succ, List.getElem?_zipWith, h1, h2]
    · rw [margS_succ]
      simp only [stepW, if_true]
      rw [Finset.sum_congr rfl (fun y hy => by
        have := hspec.1 y (Finset.mem_range.mp hy); unfold restartF at this
        rw [show initW p y * e0 y = c0 * f0 y by rw [mul_comm]; exact this])]
      rw [h3]; ring

end Bpp.Hmm
