import BppProofs.Lemmas.NumDerivDeleg
/-!
C12 helper lemmas, part 8: the nominal path of the five-point and two-point schemes.
-/
namespace Bpp.NumDeriv
open Bpp Bpp.Scalar

/-- a five-point probe on the nominal path -/
theorem probe5_free (f : List ℝ → ℝ) {params B : PList ℝ} (hF : Free f params B) {var : Name} {fn : Fn ℝ} {p : PList ℝ}
    (h : RI f params B var fn p) (hhead : ∀ q0 ∈ p.head?, q0.con = none ∧ q0.prec = 0) (x : ℝ) :
    (probe5 f fn p x).2.2 = some (f (values (upd1 B var x))) ∧
    RI f params B var (probe5 f fn p x).1 (probe5 f fn p x).2.1 ∧
    (∀ q0 ∈ (probe5 f fn p x).2.1.head?, q0.con = none ∧ q0.prec = 0) ∧
    (probe5 f fn p x).1.params = upd1 B var x := by
  obtain ⟨hok, q0, rest, rfl, hq0, hnd, hrest, hlen, hD⟩ := h
  obtain ⟨hcon, hprec⟩ := hhead q0 (by simp)
  have hc := hF.ctx
  unfold probe5
  simp only []
  rw [setValue_ok q0 x hprec (violates_nocon q0 hcon x)]
  simp only []
  have hnd' : (names ({ q0 with value := x } :: rest)).Nodup := by
    rw [names_cons]; rw [names_cons] at hnd; exact hnd
  have hav : anyViolation fn.params ({ q0 with value := x } :: rest) = false :=
    anyViolation_nocon _ _ (hD.nocon hF.nocon)
  obtain ⟨fired, heq, hnf⟩ := setParameters_eq f fn ({ q0 with value := x } :: rest) (hc.own hD) hnd' hav
  have hupd : updL ({ q0 with value := x } :: rest) fn.params = upd1 B var x :=
    updL_dev_eq hc var { q0 with value := x } rest hq0 hrest hD
  rw [heq, hupd]
  have hDnew : Dev B (upd1 B var x) (fun n => n = var ∨ n ∈ names rest) := by
    rw [← hupd]
    exact dev_updL _ hD (by
      intro b hb hn
      have := restore_cond2 hc var { q0 with value := x } rest hq0 hrest b hb (fun e => hn (Or.inl e))
      cases hf : find? ({ q0 with value := x } :: rest) b.name with
      | none => rw [hf] at this; exact this
      | some q => rw [hf] at this; exact this)
  cases fired with
  | true =>
    simp only [if_true]
    have hOK : ((fn.withParams (upd1 B var x)).fire f).OK f := fire_OK f _
    refine ⟨rfl, ⟨hOK, _, rest, rfl, hq0, hnd', hrest, hlen, hDnew⟩, ?_, rfl⟩
    intro q hq; simp at hq; subst hq; exact ⟨hcon, hprec⟩
  | false =>
    simp only [Bool.false_eq_true, if_false]
    have hsame := hnf rfl
    rw [hupd] at hsame
    have hOK : (fn.withParams (upd1 B var x)).OK f := by
      unfold Fn.OK; rw [withParams_params, hsame]; exact hok
    refine ⟨?_, ⟨hOK, _, rest, rfl, hq0, hnd', hrest, hlen, hDnew⟩, ?_, rfl⟩
    · show some (fn.withParams (upd1 B var x)).fval = _
      rw [hOK]; rfl
    · intro q hq; simp at hq; subst hq; exact ⟨hcon, hprec⟩

/-- the nested `try`s on the nominal path: the central branch -/
theorem probes5_free (f : List ℝ → ℝ) {params B : PList ℝ} (hF : Free f params B) {var : Name} {fn : Fn ℝ} {p : PList ℝ}
    (h : RI f params B var fn p) (hhead : ∀ q0 ∈ p.head?, q0.con = none ∧ q0.prec = 0) (value hh f3 : ℝ) :
    (probes5 f fn p value hh f3).2.2 = some
      (d1Five (f (values (upd1 B var (value - ofInt 2 * hh)))) (f (values (upd1 B var (value - hh))))
              (f (values (upd1 B var (value + hh)))) (f (values (upd1 B var (value + ofInt 2 * hh)))) hh,
       d2Five (f (values (upd1 B var (value - ofInt 2 * hh)))) (f (values (upd1 B var (value - hh)))) f3
              (f (values (upd1 B var (value + hh)))) (f (values (upd1 B var (value + ofInt 2 * hh)))) hh) := by
  unfold probes5
  simp only []
  obtain ⟨a1, a2, a3, _⟩ := probe5_free f hF h hhead (value - ofInt 2 * hh)
  rcases h1 : probe5 f fn p (value - ofInt 2 * hh) with ⟨fn1, p1, o1⟩
  rw [h1] at a1 a2 a3
  simp only [] at a1 a2 a3
  subst a1
  simp only []
  unfold central5
  simp only []
  obtain ⟨b1, b2, b3, _⟩ := probe5_free f hF a2 a3 (value + ofInt 2 * hh)
  rcases h2 : probe5 f fn1 p1 (value + ofInt 2 * hh) with ⟨fn2, p2, o2⟩
  rw [h2] at b1 b2 b3
  simp only [] at b1 b2 b3
  subst b1
  simp only []
  obtain ⟨c1, c2, c3, _⟩ := probe5_free f hF b2 b3 (value - hh)
  rcases h3 : probe5 f fn2 p2 (value - hh) with ⟨fn3, p3, o3⟩
  rw [h3] at c1 c2 c3
  simp only [] at c1 c2 c3
  subst c1
  simp only []
  obtain ⟨d1, _, _, _⟩ := probe5_free f hF c2 c3 (value + hh)
  rcases h4 : probe5 f fn3 p3 (value + hh) with ⟨fn4, p4, o4⟩
  rw [h4] at d1
  simp only [] at d1
  subst d1
  rfl


theorem sub_ok (f : List ℝ → ℝ) {params B : PList ℝ} (hF : Free f params B) {w0 : W ℝ} {slot : W ℝ → ℝ} {lp : Loop ℝ}
    (hLI : LI f params B w0 slot lp) (var : Name) (hhas : has params var = true) (hlast : lp.lastVar ≠ some var) :
    ∃ p, subNames params (match lp.lastVar with
      | none => [var]
      | some l => [var, l]) = .ok p ∧ ∀ q0 ∈ p.head?, q0.con = none ∧ q0.prec = 0 := by
  obtain ⟨_, _, hl, _, _⟩ := hLI
  obtain ⟨qv, hqv⟩ : ∃ qv, find? params var = some qv := by
    cases hf : find? params var with
    | none => exact absurd ((has_iff params var).mp hhas) (find?_none hf)
    | some q => exact ⟨q, rfl⟩
  have hqvfree := hF.pfree qv (find?_some hqv).1
  cases hlv : lp.lastVar with
  | none =>
    simp only []
    exact ⟨[qv], subNames_one params var qv hqv, fun q hq => by simp at hq; subst hq; exact hqvfree⟩
  | some l =>
    simp only []
    obtain ⟨ql, hql⟩ : ∃ ql, find? params l = some ql := by
      cases hf : find? params l with
      | none => exact absurd ((has_iff params l).mp (hl l hlv)) (find?_none hf)
      | some q => exact ⟨q, rfl⟩
    exact ⟨[qv, ql], subNames_two params var l qv ql hqv hql (fun e => hlast (by rw [hlv, e])),
      fun q hq => by simp at hq; subst hq; exact hqvfree⟩

theorem valueOf_base {f : List ℝ → ℝ} {params B : PList ℝ} {w0 : W ℝ} {slot : W ℝ → ℝ} {lp : Loop ℝ}
    (hLI : LI f params B w0 slot lp) (var : Name) (b : Param ℝ) (hb : find? B var = some b)
    (hlast : lp.lastVar ≠ some var) : lp.w.fn.valueOf var = .ok b.value := by
  obtain ⟨pv, hpv1, _, hpv3⟩ := find?_dev hLI.2.1 var b hb
  unfold Fn.valueOf; rw [hpv1]; simp only []
  rw [hpv3 (fun h => hlast h.symm)]

/-- one iteration of the five-point loop on the nominal path -/
theorem step5_free (f : List ℝ → ℝ) {params B : PList ℝ} (hF : Free f params B) {w0 : W ℝ} (lp : Loop ℝ)
    (hLI : LI f params B w0 (fun w => w.f3) lp) (i : Nat) (var : Name) (b : Param ℝ)
    (hhas : has params var = true) (hb : find? B var = some b) (hlast : lp.lastVar ≠ some var) :
    (step5 f params lp i var).2 = none ∧ (step5 f params lp i var).1.lastVar = some var ∧
    (step5 f params lp i var).1.w.der1 = setAt lp.w.der1 i (some (d1Five
        (f (values (upd1 B var (b.value - ofInt 2 * ((one + Scalar.abs b.value) * lp.w.h)))))
        (f (values (upd1 B var (b.value - (one + Scalar.abs b.value) * lp.w.h))))
        (f (values (upd1 B var (b.value + (one + Scalar.abs b.value) * lp.w.h))))
        (f (values (upd1 B var (b.value + ofInt 2 * ((one + Scalar.abs b.value) * lp.w.h)))))
        ((one + Scalar.abs b.value) * lp.w.h))) ∧
    (step5 f params lp i var).1.w.der2 = setAt lp.w.der2 i (some (d2Five
        (f (values (upd1 B var (b.value - ofInt 2 * ((one + Scalar.abs b.value) * lp.w.h)))))
        (f (values (upd1 B var (b.value - (one + Scalar.abs b.value) * lp.w.h)))) lp.w.f3
        (f (values (upd1 B var (b.value + (one + Scalar.abs b.value) * lp.w.h))))
        (f (values (upd1 B var (b.value + ofInt 2 * ((one + Scalar.abs b.value) * lp.w.h)))))
        ((one + Scalar.abs b.value) * lp.w.h))) ∧
    (step5 f params lp i var).1.w.cross = lp.w.cross := by
  obtain ⟨p, hsub, hhead⟩ := sub_ok f hF hLI var hhas hlast
  have hval := valueOf_base hLI var b hb hlast
  have hri := sub_RI f hLI var p hsub
  have h5 := probes5_free f hF hri hhead b.value ((one + Scalar.abs b.value) * lp.w.h) lp.w.f3
  unfold step5
  have hnh : (!has params var) = false := by rw [hhas]; rfl
  rw [hnh]
  simp only [Bool.false_eq_true, if_false]
  split
  · rename_i e he
    have := hsub.symm.trans he
    cases this
  · rename_i p' hp'
    have hpp : p' = p := by
      have := hsub.symm.trans hp'
      injection this with this; exact this.symm
    subst hpp
    rw [hval]
    simp only []
    rcases hs : probes5 f lp.w.fn p' b.value ((one + Scalar.abs b.value) * lp.w.h) lp.w.f3 with ⟨fn5, p5, o5⟩
    rw [hs] at h5
    simp only [] at h5
    subst h5
    exact ⟨rfl, rfl, rfl, rfl, rfl⟩


/-- the stored derivatives of variable `var` on the nominal path of the five-point scheme -/
noncomputable def five1 (f : List ℝ → ℝ) (B : PList ℝ) (hh : ℝ) (var : Name) : DVal ℝ :=
  match find? B var with
  | some b => some (d1Five
      (f (values (upd1 B var (b.value - ofInt 2 * ((one + Scalar.abs b.value) * hh)))))
      (f (values (upd1 B var (b.value - (one + Scalar.abs b.value) * hh))))
      (f (values (upd1 B var (b.value + (one + Scalar.abs b.value) * hh))))
      (f (values (upd1 B var (b.value + ofInt 2 * ((one + Scalar.abs b.value) * hh)))))
      ((one + Scalar.abs b.value) * hh))
  | none => none
noncomputable def five2 (f : List ℝ → ℝ) (B : PList ℝ) (hh f3 : ℝ) (var : Name) : DVal ℝ :=
  match find? B var with
  | some b => some (d2Five
      (f (values (upd1 B var (b.value - ofInt 2 * ((one + Scalar.abs b.value) * hh)))))
      (f (values (upd1 B var (b.value - (one + Scalar.abs b.value) * hh)))) f3
      (f (values (upd1 B var (b.value + (one + Scalar.abs b.value) * hh))))
      (f (values (upd1 B var (b.value + ofInt 2 * ((one + Scalar.abs b.value) * hh)))))
      ((one + Scalar.abs b.value) * hh))
  | none => none

/-- the five-point loop on the nominal path -/
theorem loop5_free (f : List ℝ → ℝ) {params B : PList ℝ} (hF : Free f params B) {w0 : W ℝ} :
    ∀ (vs : List Name) (i0 : Nat) (lp : Loop ℝ), LI f params B w0 (fun w => w.f3) lp →
      (∀ l, lp.lastVar = some l → l ∉ vs) → vs.Nodup → (∀ v ∈ vs, has params v = true → v ∈ names B) →
      (loopGo (step5 f params) vs i0 lp).2 = none ∧
      LI f params B w0 (fun w => w.f3) (loopGo (step5 f params) vs i0 lp).1 ∧
      (loopGo (step5 f params) vs i0 lp).1.w.der1.length = lp.w.der1.length ∧
      (loopGo (step5 f params) vs i0 lp).1.w.der2.length = lp.w.der2.length ∧
      (∀ j, j < i0 → (loopGo (step5 f params) vs i0 lp).1.w.der1[j]? = lp.w.der1[j]? ∧
                     (loopGo (step5 f params) vs i0 lp).1.w.der2[j]? = lp.w.der2[j]?) ∧
      (∀ k (hk : k < vs.length), has params vs[k] = true →
        (i0 + k < lp.w.der1.length → (loopGo (step5 f params) vs i0 lp).1.w.der1[i0 + k]? = some (five1 f B w0.h vs[k])) ∧
        (i0 + k < lp.w.der2.length → (loopGo (step5 f params) vs i0 lp).1.w.der2[i0 + k]? = some (five2 f B w0.h w0.f3 vs[k]))) := by
  intro vs
  induction vs with
  | nil =>
    intro i0 lp hLI _ _ _
    exact ⟨rfl, hLI, rfl, rfl, fun j _ => ⟨rfl, rfl⟩, fun k hk => by simp at hk⟩
  | cons v vs ih =>
    intro i0 lp hLI hlast hnd hin
    have hnd' := List.nodup_cons.mp hnd
    unfold loopGo
    by_cases hhas : has params v = true
    · obtain ⟨b, hb⟩ : ∃ b, find? B v = some b := by
        cases hf : find? B v with
        | none => exact absurd (hin v (List.mem_cons_self ..) hhas) (find?_none hf)
        | some b => exact ⟨b, rfl⟩
      obtain ⟨s1, s2, s3, s4, _⟩ := step5_free f hF lp hLI i0 v b hhas hb
        (fun e => hlast v e (List.mem_cons_self ..))
      have hLI1 := step5_LI f hF.ctx lp hLI i0 v _ rfl s1
      rcases hs : step5 f params lp i0 v with ⟨lp1, e1⟩
      rw [hs] at s1 s2 s3 s4 hLI1
      simp only [] at s1 s2 s3 s4 hLI1
      subst s1
      simp only []
      obtain ⟨r1, r2, r3, r4, r6, r7⟩ := ih (i0 + 1) lp1 hLI1
        (by intro l hl; rw [s2] at hl; injection hl with hl; subst hl; exact hnd'.1)
        hnd'.2 (fun x hx => hin x (List.mem_cons_of_mem _ hx))
      have hl1 : lp1.w.der1.length = lp.w.der1.length := by rw [s3]; simp [setAt]
      have hl2 : lp1.w.der2.length = lp.w.der2.length := by rw [s4]; simp [setAt]
      refine ⟨r1, r2, r3.trans hl1, r4.trans hl2, ?_, ?_⟩
      · intro j hj
        obtain ⟨a, b'⟩ := r6 j (by omega)
        rw [a, b', s3, s4]
        exact ⟨setAt_get_lt _ _ _ _ hj, setAt_get_lt _ _ _ _ hj⟩
      · intro k hk hhk
        cases k with
        | zero =>
          simp only [List.getElem_cons_zero, Nat.add_zero]
          obtain ⟨a, b'⟩ := r6 i0 (by omega)
          have hslot : lp.w.f3 = w0.f3 := hLI.2.2.2.2
          have hhw : lp.w.h = w0.h := hLI.2.2.2.1.h
          refine ⟨fun hlen => ?_, fun hlen => ?_⟩
          · rw [a, s3, setAt_get_self _ _ _ hlen]
            simp only [five1, hb, hhw]
          · rw [b', s4, setAt_get_self _ _ _ hlen]
            simp only [five2, hb, hhw, hslot]
        | succ k =>
          simp only [List.getElem_cons_succ]
          have := r7 k (by simpa using hk) (by simpa using hhk)
          have e : i0 + (k + 1) = i0 + 1 + k := by omega
          rw [e, ← hl1, ← hl2]
          exact this
    · have hs : step5 f params lp i0 v = (lp, none) := by
        unfold step5
        have : (!has params v) = true := by simpa using hhas
        rw [this]; simp
      rw [hs]
      simp only []
      obtain ⟨r1, r2, r3, r4, r6, r7⟩ := ih (i0 + 1) lp hLI
        (fun l hl hm => hlast l hl (List.mem_cons_of_mem _ hm)) hnd'.2 (fun x hx => hin x (List.mem_cons_of_mem _ hx))
      refine ⟨r1, r2, r3, r4, fun j hj => r6 j (by omega), ?_⟩
      intro k hk hhk
      cases k with
      | zero => simp only [List.getElem_cons_zero] at hhk; exact absurd hhk hhas
      | succ k =>
        simp only [List.getElem_cons_succ]
        have := r7 k (by simpa using hk) (by simpa using hhk)
        have e : i0 + (k + 1) = i0 + 1 + k := by omega
        rw [e]; exact this

/-- `updateDerivatives` of the five-point scheme on the nominal path -/
theorem update5_free (f : List ℝ → ℝ) (w : W ℝ) (params : PList ℝ) (hown : Own w.fn) (hok : w.fn.OK f)
    (hF : Free f params w.fn.params) (hpnd : (names params).Nodup) (hc1 : w.c1 = true)
    (hvars : w.vars.Nodup) (hin : ∀ v ∈ w.vars, has params v = true → v ∈ names w.fn.params)
    (hl1 : w.der1.length = w.vars.length) (hl2 : w.der2.length = w.vars.length) :
    (update5 f w params).2 = none ∧
    ∀ k (hk : k < w.vars.length), has params w.vars[k] = true →
      (update5 f w params).1.der1[k]? = some (five1 f w.fn.params w.h w.vars[k]) ∧
      (update5 f w params).1.der2[k]? = some (five2 f w.fn.params w.h (f (values w.fn.params)) w.vars[k]) := by
  have hc := hF.ctx
  unfold update5
  by_cases hne : w.vars.length > 0
  · have hcond : (w.c1 && decide (w.vars.length > 0)) = true := by simp [hc1, hne]
    rw [if_pos hcond]
    simp only []
    have hown0 : Own ((w.fn.enable1 false).enable2 false) := by unfold Own; simp; exact hown
    have hok0 : ((w.fn.enable1 false).enable2 false).OK f := enable2_OK f _ _ (enable1_OK f _ _ hok)
    have hnc0 : ∀ p ∈ ((w.fn.enable1 false).enable2 false).params, p.con = none := by simpa using hF.nocon
    have h0 := first_set f ((w.fn.enable1 false).enable2 false) hown0 hok0 (by simpa using hc.sync) hpnd
    have hn0 := setParameters_nocon f ((w.fn.enable1 false).enable2 false) params hnc0
    rcases hs1 : ((w.fn.enable1 false).enable2 false).setParameters f params with ⟨fn1, e1⟩
    rw [hs1] at h0 hn0
    simp only [] at hn0
    subst hn0
    obtain ⟨g1, g2, g3, _, _⟩ := h0
    simp only [] at g1 g2 g3
    have hp1 : fn1.params = w.fn.params := by have := g1 trivial; simpa using this
    have hval : fn1.fval = f (values w.fn.params) := by rw [← hp1]; exact g2
    simp only []
    have hLI0 : LI f params w.fn.params { w with fn := fn1, f3 := fn1.fval } (fun w => w.f3)
        { w := { w with fn := fn1, f3 := fn1.fval }, p := [], lastVar := none } :=
      ⟨g2, (by rw [hp1]; exact Dev.refl _ _), (fun l h => by cases h), Frame.refl _, rfl⟩
    obtain ⟨r1, r2, r3, r4, _, r7⟩ := loop5_free f hF (w0 := { w with fn := fn1, f3 := fn1.fval }) w.vars 0 _ hLI0
      (fun l h => by cases h) hvars hin
    rcases hl : loopGo (step5 f params) w.vars 0 { w := { w with fn := fn1, f3 := fn1.fval }, p := [], lastVar := none } with ⟨lp, e⟩
    rw [hl] at r1 r2 r3 r4 r7
    simp only [] at r1 r2 r3 r4 r7
    subst r1
    simp only []
    have hnl : ∀ p ∈ lp.w.fn.params, p.con = none := r2.2.1.nocon hF.nocon
    obtain ⟨q1, q2, q3, _⟩ := finish_free f params lp.lastVar lp.w hnl r2.2.2.1
    refine ⟨q1, ?_⟩
    intro k hk hhk
    obtain ⟨a, b⟩ := r7 k hk hhk
    rw [q2, q3]
    simp only [Nat.zero_add] at a b
    rw [hval] at b
    exact ⟨a (by rw [hl1]; exact hk), b (by rw [hl2]; exact hk)⟩
  · have hcond : (w.c1 && decide (w.vars.length > 0)) = false := by simp [hne]
    rw [hcond]
    simp only [Bool.false_eq_true, if_false]
    have hnc0 : ∀ p ∈ ((w.fn.enable1 w.c1).enable2 w.c2).params, p.con = none := by simpa using hF.nocon
    have hn0 := setParameters_nocon f ((w.fn.enable1 w.c1).enable2 w.c2) params hnc0
    rcases hs1 : ((w.fn.enable1 w.c1).enable2 w.c2).setParameters f params with ⟨fn1, e1⟩
    rw [hs1] at hn0
    simp only [] at hn0
    subst hn0
    simp only []
    exact ⟨trivial, fun k hk => absurd hk (by omega)⟩


/-! ### two-point scheme -/

theorem prepare_free (f : List ℝ → ℝ) {params B : PList ℝ} (hF : Free f params B) {w0 : W ℝ} {slot : W ℝ → ℝ} {lp : Loop ℝ}
    (hLI : LI f params B w0 slot lp) (var : Name) (b : Param ℝ) (hhas : has params var = true)
    (hb : find? B var = some b) (hlast : lp.lastVar ≠ some var) :
    ∃ p, prepare params lp.w.h lp var = .ok (p, b.value, -(one + Scalar.abs b.value) * lp.w.h) ∧
      ∀ q0 ∈ p.head?, q0.con = none ∧ q0.prec = 0 := by
  obtain ⟨p, hsub, hhead⟩ := sub_ok f hF hLI var hhas hlast
  have hval := valueOf_base hLI var b hb hlast
  refine ⟨p, ?_, hhead⟩
  unfold prepare
  simp only []
  split
  · rename_i e he
    have := hsub.symm.trans he
    cases this
  · rename_i p' hp'
    have hpp : p' = p := by
      have := hsub.symm.trans hp'
      injection this with this; exact this.symm
    subst hpp
    rw [hval]
    simp only []
    cases p' with
    | nil =>
      exfalso
      have := subNames_spec params _ [] hsub
      cases hlv : lp.lastVar <;> (rw [hlv] at this; simp [names] at this)
    | cons q0 rest =>
      simp only []
      obtain ⟨_, hp0⟩ := hhead q0 (by simp)
      have : ltb (Scalar.abs (-(one + Scalar.abs b.value) * lp.w.h)) q0.prec = false := by
        rw [hp0, ScalarReal.ltb_false_iff, ScalarReal.abs_eq]; exact abs_nonneg _
      rw [this]; simp

/-- one iteration of the two-point loop on the nominal path -/
theorem step2_free (f : List ℝ → ℝ) {params B : PList ℝ} (hF : Free f params B) {w0 : W ℝ} (lp : Loop ℝ)
    (hLI : LI f params B w0 (fun w => w.f1) lp) (i : Nat) (var : Name) (b : Param ℝ)
    (hhas : has params var = true) (hb : find? B var = some b) (hlast : lp.lastVar ≠ some var) (hh : lp.w.h ≠ 0)
    (hB : BoundedNear f B lp.w.h) :
    (step2 f params lp i var).2 = none ∧ (step2 f params lp i var).1.lastVar = some var ∧
    (step2 f params lp i var).1.w.der1 = setAt lp.w.der1 i (some (d1Two lp.w.f1
        (f (values (upd1 B var (b.value + -(one + Scalar.abs b.value) * lp.w.h))))
        (-(one + Scalar.abs b.value) * lp.w.h))) ∧
    (step2 f params lp i var).1.w.der2 = lp.w.der2 := by
  obtain ⟨p, hprep, hhead⟩ := prepare_free f hF hLI var b hhas hb hlast
  have hri := prepare_RI f hLI var lp.w.h p b.value _ hprep
  have hh0 : -(one + Scalar.abs b.value) * lp.w.h ≠ 0 := by
    simp only [ScalarReal.one_eq, ScalarReal.abs_eq]
    have : (1 + |b.value|) ≠ 0 := by positivity
    exact mul_ne_zero (neg_ne_zero.mpr this) hh
  have hbL : tooBig (f (values (upd1 B var (b.value + -(one + Scalar.abs b.value) * lp.w.h)))) = false := by
    have := hB.at var b hb (-1) (by simp)
    have e : b.value + -1 * ((one + Scalar.abs b.value) * lp.w.h) = b.value + -(one + Scalar.abs b.value) * lp.w.h := by ring
    rw [e] at this; exact this
  obtain ⟨a1, a2, a3, a4, _⟩ := retry_free f hF true b.value 9 lp.w.fn p _ none hri hhead hh0 hbL
  unfold step2
  have hnh : (!has params var) = false := by rw [hhas]; rfl
  rw [hnh]
  simp only [Bool.false_eq_true, if_false, hprep]
  simp only [a1, a2, a3, a4, Option.isSome_none, Bool.false_eq_true, if_false]
  exact ⟨trivial, trivial, trivial, trivial⟩

noncomputable def two1 (f : List ℝ → ℝ) (B : PList ℝ) (hh f1 : ℝ) (var : Name) : DVal ℝ :=
  match find? B var with
  | some b => some (d1Two f1 (f (values (upd1 B var (b.value + -(one + Scalar.abs b.value) * hh))))
      (-(one + Scalar.abs b.value) * hh))
  | none => none

theorem loop2_free (f : List ℝ → ℝ) {params B : PList ℝ} (hF : Free f params B) {w0 : W ℝ} (hh : w0.h ≠ 0)
    (hB : BoundedNear f B w0.h) :
    ∀ (vs : List Name) (i0 : Nat) (lp : Loop ℝ), LI f params B w0 (fun w => w.f1) lp →
      (∀ l, lp.lastVar = some l → l ∉ vs) → vs.Nodup → (∀ v ∈ vs, has params v = true → v ∈ names B) →
      (loopGo (step2 f params) vs i0 lp).2 = none ∧
      LI f params B w0 (fun w => w.f1) (loopGo (step2 f params) vs i0 lp).1 ∧
      (loopGo (step2 f params) vs i0 lp).1.w.der1.length = lp.w.der1.length ∧
      (∀ j, j < i0 → (loopGo (step2 f params) vs i0 lp).1.w.der1[j]? = lp.w.der1[j]?) ∧
      (∀ k (hk : k < vs.length), has params vs[k] = true → i0 + k < lp.w.der1.length →
        (loopGo (step2 f params) vs i0 lp).1.w.der1[i0 + k]? = some (two1 f B w0.h w0.f1 vs[k])) := by
  intro vs
  induction vs with
  | nil =>
    intro i0 lp hLI _ _ _
    exact ⟨rfl, hLI, rfl, fun j _ => rfl, fun k hk => by simp at hk⟩
  | cons v vs ih =>
    intro i0 lp hLI hlast hnd hin
    have hnd' := List.nodup_cons.mp hnd
    unfold loopGo
    by_cases hhas : has params v = true
    · obtain ⟨b, hb⟩ : ∃ b, find? B v = some b := by
        cases hf : find? B v with
        | none => exact absurd (hin v (List.mem_cons_self ..) hhas) (find?_none hf)
        | some b => exact ⟨b, rfl⟩
      have hhl : lp.w.h ≠ 0 := by rw [hLI.2.2.2.1.h]; exact hh
      obtain ⟨s1, s2, s3, _⟩ := step2_free f hF lp hLI i0 v b hhas hb
        (fun e => hlast v e (List.mem_cons_self ..)) hhl (by rw [hLI.2.2.2.1.h]; exact hB)
      have hLI1 := step2_LI f hF.ctx lp hLI i0 v _ rfl s1
      rcases hs : step2 f params lp i0 v with ⟨lp1, e1⟩
      rw [hs] at s1 s2 s3 hLI1
      simp only [] at s1 s2 s3 hLI1
      subst s1
      simp only []
      obtain ⟨r1, r2, r3, r6, r7⟩ := ih (i0 + 1) lp1 hLI1
        (by intro l hl; rw [s2] at hl; injection hl with hl; subst hl; exact hnd'.1)
        hnd'.2 (fun x hx => hin x (List.mem_cons_of_mem _ hx))
      have hl1 : lp1.w.der1.length = lp.w.der1.length := by rw [s3]; simp [setAt]
      refine ⟨r1, r2, r3.trans hl1, ?_, ?_⟩
      · intro j hj
        rw [r6 j (by omega), s3]
        exact setAt_get_lt _ _ _ _ hj
      · intro k hk hhk hlen
        cases k with
        | zero =>
          simp only [List.getElem_cons_zero, Nat.add_zero] at hlen ⊢
          have hslot : lp.w.f1 = w0.f1 := hLI.2.2.2.2
          have hhw : lp.w.h = w0.h := hLI.2.2.2.1.h
          rw [r6 i0 (by omega), s3, setAt_get_self _ _ _ hlen]
          simp only [two1, hb, hhw, hslot]
        | succ k =>
          simp only [List.getElem_cons_succ]
          have e : i0 + (k + 1) = i0 + 1 + k := by omega
          rw [e]
          exact r7 k (by simpa using hk) (by simpa using hhk) (by rw [hl1]; omega)
    · have hs : step2 f params lp i0 v = (lp, none) := by
        unfold step2
        have : (!has params v) = true := by simpa using hhas
        rw [this]; simp
      rw [hs]
      simp only []
      obtain ⟨r1, r2, r3, r6, r7⟩ := ih (i0 + 1) lp hLI
        (fun l hl hm => hlast l hl (List.mem_cons_of_mem _ hm)) hnd'.2 (fun x hx => hin x (List.mem_cons_of_mem _ hx))
      refine ⟨r1, r2, r3, fun j hj => r6 j (by omega), ?_⟩
      intro k hk hhk hlen
      cases k with
      | zero => simp only [List.getElem_cons_zero] at hhk; exact absurd hhk hhas
      | succ k =>
        simp only [List.getElem_cons_succ]
        have e : i0 + (k + 1) = i0 + 1 + k := by omega
        rw [e]; exact r7 k (by simpa using hk) (by simpa using hhk) (by omega)

theorem update2_free (f : List ℝ → ℝ) (w : W ℝ) (params : PList ℝ) (hown : Own w.fn) (hok : w.fn.OK f)
    (hF : Free f params w.fn.params) (hB : BoundedNear f w.fn.params w.h) (hpnd : (names params).Nodup) (hc1 : w.c1 = true)
    (hvars : w.vars.Nodup) (hin : ∀ v ∈ w.vars, has params v = true → v ∈ names w.fn.params) (hh : w.h ≠ 0)
    (hl1 : w.der1.length = w.vars.length) :
    (update2 f w params).2 = none ∧
    ∀ k (hk : k < w.vars.length), has params w.vars[k] = true →
      (update2 f w params).1.der1[k]? = some (two1 f w.fn.params w.h (f (values w.fn.params)) w.vars[k]) := by
  have hc := hF.ctx
  unfold update2
  by_cases hne : w.vars.length > 0
  · have hcond : (w.c1 && decide (w.vars.length > 0)) = true := by simp [hc1, hne]
    rw [if_pos hcond]
    simp only []
    have hown0 : Own (w.fn.enable1 false) := by unfold Own; simp; exact hown
    have hok0 : (w.fn.enable1 false).OK f := enable1_OK f _ _ hok
    have hnc0 : ∀ p ∈ (w.fn.enable1 false).params, p.con = none := by simpa using hF.nocon
    have h0 := first_set f (w.fn.enable1 false) hown0 hok0 (by simpa using hc.sync) hpnd
    have hn0 := setParameters_nocon f (w.fn.enable1 false) params hnc0
    rcases hs1 : (w.fn.enable1 false).setParameters f params with ⟨fn1, e1⟩
    rw [hs1] at h0 hn0
    simp only [] at hn0
    subst hn0
    obtain ⟨g1, g2, g3, _, _⟩ := h0
    simp only [] at g1 g2 g3
    have hp1 : fn1.params = w.fn.params := by have := g1 trivial; simpa using this
    have hval : fn1.fval = f (values w.fn.params) := by rw [← hp1]; exact g2
    simp only []
    have htb : tooBig fn1.fval = false := by rw [hval]; exact hB.base
    rw [htb]
    simp only [Bool.false_eq_true, if_false]
    have hLI0 : LI f params w.fn.params { w with fn := fn1, f1 := fn1.fval } (fun w => w.f1)
        { w := { w with fn := fn1, f1 := fn1.fval }, p := [], lastVar := none } :=
      ⟨g2, (by rw [hp1]; exact Dev.refl _ _), (fun l h => by cases h), Frame.refl _, rfl⟩
    obtain ⟨r1, r2, r3, _, r7⟩ := loop2_free f hF (w0 := { w with fn := fn1, f1 := fn1.fval }) hh hB w.vars 0 _ hLI0
      (fun l h => by cases h) hvars hin
    rcases hl : loopGo (step2 f params) w.vars 0 { w := { w with fn := fn1, f1 := fn1.fval }, p := [], lastVar := none } with ⟨lp, e⟩
    rw [hl] at r1 r2 r3 r7
    simp only [] at r1 r2 r3 r7
    subst r1
    simp only []
    have hnl : ∀ p ∈ lp.w.fn.params, p.con = none := r2.2.1.nocon hF.nocon
    obtain ⟨q1, q2, _, _⟩ := finish_free f params lp.lastVar lp.w hnl r2.2.2.1
    refine ⟨q1, ?_⟩
    intro k hk hhk
    have a := r7 k hk hhk
    rw [q2]
    simp only [Nat.zero_add] at a
    rw [hval] at a
    exact a (by rw [hl1]; exact hk)
  · have hcond : (w.c1 && decide (w.vars.length > 0)) = false := by simp [hne]
    rw [hcond]
    simp only [Bool.false_eq_true, if_false]
    have hnc0 : ∀ p ∈ (({ w with fn := w.fn.enable1 w.c1 } : W ℝ).enable2 w.c2).params, p.con = none := by
      simpa using hF.nocon
    have hn0 := setParameters_nocon f (({ w with fn := w.fn.enable1 w.c1 } : W ℝ).enable2 w.c2) params hnc0
    rcases hs1 : (({ w with fn := w.fn.enable1 w.c1 } : W ℝ).enable2 w.c2).setParameters f params with ⟨fn1, e1⟩
    rw [hs1] at hn0
    simp only [] at hn0
    subst hn0
    simp only []
    exact ⟨trivial, fun k hk => absurd hk (by omega)⟩

end Bpp.NumDeriv
