import BppProofs.Lemmas.GraphIter
import BppProofs.Lemmas.ObserverExt
import BppProofs.Lemmas.ObserverForget
/-! Helper lemmas for `Props/C14Report.lean` and `Props/C14Iter.lean`. -/
set_option linter.unusedSimpArgs false
namespace Bpp.Graph
open Bpp.AL

theorem nodeFromGid_eq_get (o : Obs) (n : Nat) : o.nodeFromGid n = Vec.get o.gN n := by
  unfold Obs.nodeFromGid
  split
  · rename_i h; exact (Vec.get_of_ge h).symm
  · rfl

theorem edgeFromGid_eq_get (o : Obs) (e : Nat) : o.edgeFromGid e = Vec.get o.gE e := by
  unfold Obs.edgeFromGid
  split
  · rename_i h; exact (Vec.get_of_ge h).symm
  · rfl

/-- id → object is the inverse of object → id -/
theorem nodeFromGid_iff {g : G} {o : Obs} (hi : OInv g o) (n A : Nat) : o.nodeFromGid n = some A ↔ find A o.Ng = some n := by
  rw [nodeFromGid_eq_get]; exact ⟨hi.nodes.fwd n A, hi.nodes.bwd A n⟩

theorem edgeFromGid_iff {g : G} {o : Obs} (hi : OInv g o) (e X : Nat) : o.edgeFromGid e = some X ↔ find X o.Eg = some e := by
  rw [edgeFromGid_eq_get]; exact ⟨hi.edges.fwd e X, hi.edges.bwd X e⟩

theorem vec_range (v : Vec) : v.filterMap id = (List.range v.length).filterMap (Vec.get v) := by
  have : v = (List.range v.length).map (fun i => Vec.get v i) := by
    apply List.ext_getElem?
    intro i
    simp only [List.getElem?_map, Vec.get]
    by_cases h : i < v.length
    · simp [h]
    · have h2 : (List.range v.length)[i]? = none := List.getElem?_eq_none (by simp; omega)
      simp [List.getElem?_eq_none (Nat.le_of_not_lt h), h2]
  conv => lhs; rw [this]
  rw [List.filterMap_map]
  rfl

theorem range_pairwise (n : Nat) : (List.range n).Pairwise (· < ·) := by
  simpa using List.pairwise_lt_range (n := n)

/-- the non-null slots of `graphidToN_` in slot order are the objects of the graph's nodes in node order -/
theorem allNodeObjs_eq {g : G} {o : Obs} (hc : Consistent g) (hi : OInv g o) :
    World.allNodeObjs o = o.nodesFromGids g.allNodes := by
  unfold World.allNodeObjs Obs.nodesFromGids
  rw [vec_range]
  have hf : (fun i => Vec.get o.gN i) = o.nodeFromGid := by funext i; exact (nodeFromGid_eq_get o i).symm
  show List.filterMap (fun i => Vec.get o.gN i) _ = _
  rw [hf]
  apply filterMap_asc_eq _ _ _ (range_pairwise _) hc.sorted.nodes
  · intro x hx
    rcases h : o.nodeFromGid x with _ | A
    · simp [h] at hx
    · rw [nodeFromGid_eq_get] at h
      simpa using Vec.get_eq_some_lt h
  · intro x hx
    rcases h : o.nodeFromGid x with _ | A
    · simp [h] at hx
    · exact mem_keys_of_has (hi.n_live A x ((nodeFromGid_iff hi x A).mp h))

theorem allEdgeObjs_eq {g : G} {o : Obs} (hc : Consistent g) (hi : OInv g o) :
    World.allEdgeObjs o = o.edgesFromGids g.allEdges := by
  unfold World.allEdgeObjs Obs.edgesFromGids
  rw [vec_range]
  have hf : (fun i => Vec.get o.gE i) = o.edgeFromGid := by funext i; exact (edgeFromGid_eq_get o i).symm
  show List.filterMap (fun i => Vec.get o.gE i) _ = _
  rw [hf]
  apply filterMap_asc_eq _ _ _ (range_pairwise _) hc.sorted.edges
  · intro x hx
    rcases h : o.edgeFromGid x with _ | A
    · simp [h] at hx
    · rw [edgeFromGid_eq_get] at h
      simpa using Vec.get_eq_some_lt h
  · intro x hx
    rcases h : o.edgeFromGid x with _ | A
    · simp [h] at hx
    · exact mem_keys_of_has (hi.e_live A x ((edgeFromGid_iff hi x A).mp h))

end Bpp.Graph
