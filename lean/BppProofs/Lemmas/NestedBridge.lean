import BppProofs.Lemmas.NestedRT
import BppProofs.Lemmas.TokBridge
/-! The two transcriptions of `NestedStringTokenizer(s, "(", ")", delimiters)` (non-solid) agree when
the constructor returns: the character-level recursion `Keyval.nested` used by the KeyvalTools model
returns the tokens of the position-level `mkNested` of `TokenizerU.lean`. -/
namespace Bpp.Text.RT
open Bpp.Text Bpp.Text.U

theorem kdelta_eq (x : Char) : Keyval.delta x = delta '(' ')' x := by
  unfold Keyval.delta delta
  by_cases h1 : (x == '(') = true
  · have : x = '(' := by simpa using h1
    subst this; decide
  · by_cases h2 : (x == ')') = true
    · have : x = ')' := by simpa using h2
      subst this; decide
    · simp [h1, h2]

/-- the token under construction gets `t` in front -/
def prepend (t : Str) (l : List Str) : List Str := t.foldr Keyval.pushFront l

theorem prepend_cons (t x : Str) (xs : List Str) : prepend t (x :: xs) = (t ++ x) :: xs := by
  induction t with
  | nil => rfl
  | cons c t ih => simp only [prepend, List.foldr_cons] at ih ⊢; rw [ih]; rfl

theorem nested_skip (isD : Char → Bool) (b : Int) (l r : Str) (h : ∀ c ∈ l, isD c = true) :
    Keyval.nested isD false b (l ++ r) = Keyval.nested isD false b r := by
  induction l with
  | nil => rfl
  | cons c l ih =>
    have hc := h c (by simp)
    simp only [List.cons_append, Keyval.nested, hc, if_true]
    exact ih (fun x hx => h x (by simp [hx]))

theorem nested_all_delims (isD : Char → Bool) (b : Int) (l : Str) (h : ∀ c ∈ l, isD c = true) :
    Keyval.nested isD false b l = some [] := by
  have := nested_skip isD b l [] h
  simpa [Keyval.nested] using this

/-- inside a token: characters are taken as long as no delimiter is at depth 0 -/
theorem nested_inside (d : Str) (ho : d.contains '(' = false) (hc : d.contains ')' = false)
    (t rest : Str) (b : Int) (h : noTopDelim d '(' ')' b t = true) :
    Keyval.nested (inSet d) true b (t ++ rest)
      = (Keyval.nested (inSet d) true (b + depth '(' ')' t) rest).map (prepend t) := by
  induction t generalizing b with
  | nil =>
    have : prepend [] = (id : List Str → List Str) := by funext l; rfl
    simp [depth, this]
  | cons c t ih =>
    simp only [noTopDelim, Bool.and_eq_true, Bool.or_eq_true, Bool.not_eq_true', bne_iff_ne, ne_eq] at h
    obtain ⟨h1, h2⟩ := h
    have hd : b + depth '(' ')' (c :: t) = b + delta '(' ')' c + depth '(' ')' t := by
      simp only [depth]; omega
    rw [hd]
    by_cases hcd : inSet d c = true
    · have hb : b ≠ 0 := by
        rcases h1 with h | h
        · rw [h] at hcd; cases hcd
        · exact h
      have hdz := delta_delim ho hc hcd
      have hbz : (b == 0) = false := by simpa using hb
      simp only [List.cons_append, Keyval.nested, hcd, if_true, hbz, Bool.false_eq_true, if_false]
      rw [hdz, Int.add_zero] at h2 ⊢
      rw [ih b h2, Option.map_map]
      rfl
    · have hcd' : inSet d c = false := by simpa using hcd
      simp only [List.cons_append, Keyval.nested, hcd', Bool.false_eq_true, if_false, kdelta_eq]
      rw [ih _ h2, Option.map_map]
      rfl

/-- one balanced token without delimiter at depth 0, then the end or a delimiter -/
theorem nested_token (d : Str) (ho : d.contains '(' = false) (hc : d.contains ')' = false)
    (t : Str) (hne : t ≠ []) (hdep : depth '(' ')' t = 0) (htop : noTopDelim d '(' ')' 0 t = true) (b0 : Int) :
    Keyval.nested (inSet d) false b0 t = some [t] ∧
    ∀ d0 r, inSet d d0 = true →
      Keyval.nested (inSet d) false b0 (t ++ d0 :: r) = (Keyval.nested (inSet d) false 0 r).map (t :: ·) := by
  obtain ⟨c, t', rfl⟩ : ∃ c t', t = c :: t' := by
    cases t with
    | nil => exact absurd rfl hne
    | cons c t' => exact ⟨c, t', rfl⟩
  simp only [noTopDelim, Bool.and_eq_true, Bool.or_eq_true, Bool.not_eq_true', bne_iff_ne, ne_eq,
    not_true_eq_false, or_false, Int.zero_add] at htop
  obtain ⟨hcf, htop'⟩ := htop
  have hdep' : delta '(' ')' c + depth '(' ')' t' = 0 := by simpa [depth] using hdep
  constructor
  · have := nested_inside d ho hc t' [] (delta '(' ')' c) htop'
    simp only [List.append_nil] at this
    simp only [Keyval.nested, hcf, Bool.false_eq_true, if_false, kdelta_eq, this, hdep']
    simp [Keyval.nested, prepend_cons, Keyval.pushFront]
  · intro d0 r hd0
    have := nested_inside d ho hc t' (d0 :: r) (delta '(' ')' c) htop'
    simp only [List.cons_append, Keyval.nested, hcf, Bool.false_eq_true, if_false, kdelta_eq, this, hdep', hd0,
      if_true, beq_self_eq_true, Option.map_map]
    congr 1
    funext l
    simp [Function.comp, prepend_cons, Keyval.pushFront]

/-- a text made of such tokens separated (and possibly followed) by runs of delimiters -/
theorem nested_interleave (d : Str) (ho : d.contains '(' = false) (hc : d.contains ')' = false)
    (ts ss : List Str)
    (hts : ∀ t ∈ ts, t ≠ [] ∧ depth '(' ')' t = 0 ∧ noTopDelim d '(' ')' 0 t = true)
    (hss : ∀ sp ∈ ss, sp ≠ [] ∧ ∀ c ∈ sp, inSet d c = true)
    (hcount : ts.length = ss.length + 1 ∨ ts.length = ss.length) (b0 : Int) :
    Keyval.nested (inSet d) false b0 (interleave ts ss) = some ts := by
  induction ts generalizing ss b0 with
  | nil => simp [Keyval.nested]
  | cons t ts ih =>
    obtain ⟨htne, hdep, htop⟩ := hts t (by simp)
    obtain ⟨k1, k2⟩ := nested_token d ho hc t htne hdep htop b0
    cases ss with
    | nil =>
      have : ts = [] := by
        cases ts with
        | nil => rfl
        | cons _ _ => simp at hcount
      subst this
      simpa [interleave] using k1
    | cons sp ss =>
      obtain ⟨hspne, hspall⟩ := hss sp (by simp)
      obtain ⟨d0, sp', hsp⟩ : ∃ d0 sp', sp = d0 :: sp' := by
        cases sp with
        | nil => exact absurd rfl hspne
        | cons a b => exact ⟨a, b, rfl⟩
      subst hsp
      simp only [interleave, List.append_assoc, List.cons_append]
      rw [k2 d0 _ (hspall d0 (by simp))]
      rw [nested_skip (inSet d) 0 sp' _ (fun c hc' => hspall c (by simp [hc']))]
      rw [ih ss (fun t ht => hts t (by simp [ht])) (fun sp hsp => hss sp (by simp [hsp]))
        (by simp only [List.length_cons] at hcount; omega) 0]
      rfl


/-- **the bridge** for the nested tokenizer, when the constructor returns -/
theorem nested_eq_mkNested (s d : Str) (ho : d.contains '(' = false) (hc : d.contains ')' = false)
    (hs : s.length < 2147483648) (T : Tokenizer) (h : mkNested s ['('] [')'] d false = .ok T) :
    Keyval.nested (fun c => d.contains c) false 0 s = some T.tokens := by
  obtain ⟨_, hwf, _, _⟩ := (mkNested_spec s ['('] [')'] d false hs).2 T h
  obtain ⟨u, _, hrt⟩ := mkNested_rt s ['('] [')'] d false (strOk_of_int hs) T h hwf
  have hdep := mkNested_depth s d '(' ')' false ho hc (strOk_of_int hs) T h
  simp only [nestedRtOk, Bool.false_eq_true, if_false, Bool.and_eq_true, beq_iff_eq, Bool.not_false,
    Bool.true_and, Bool.or_eq_true, List.all_eq_true, Bool.false_or, Bool.not_eq_true',
    List.isEmpty_eq_false_iff] at hrt
  obtain ⟨⟨⟨⟨hjoin, _⟩, hcount⟩, hsplits⟩, htoks⟩ := hrt
  simp only [nestedDepthOk, List.all_eq_true, Bool.and_eq_true, beq_iff_eq, Bool.false_or] at hdep
  have hlead : ∀ c ∈ s.takeWhile (inSet d), inSet d c = true := by
    have key : ∀ (l : Str), ∀ c ∈ l.takeWhile (inSet d), inSet d c = true := by
      intro l
      induction l with
      | nil => intro c hc; cases hc
      | cons a r ih =>
        intro c hc
        by_cases ha : inSet d a = true
        · simp only [List.takeWhile_cons, ha, if_true, List.mem_cons] at hc
          rcases hc with rfl | hc
          · exact ha
          · exact ih c hc
        · simp [List.takeWhile_cons, ha] at hc
    exact key s
  rw [← hjoin]
  show Keyval.nested (inSet d) false 0 _ = _
  rw [nested_skip _ _ _ _ hlead]
  exact nested_interleave d ho hc T.tokens T.splits
    (fun t ht => ⟨htoks t ht, (hdep t ht).1, (hdep t ht).2⟩)
    (fun sp hsp => hsplits sp hsp) hcount 0

end Bpp.Text.RT
