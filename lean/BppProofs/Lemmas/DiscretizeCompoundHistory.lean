import BppProofs.Lemmas.DiscretizeCompound
/-!
C09: the user-specified distribution over histories (constructor establishes the invariant, every
accepted update keeps it and leaves a normalised distribution).
-/
namespace Bpp.Discretize
open Bpp

theorem thetasOf_length (ps : List ℝ) (y : ℝ) : (thetasOf ps y).length = ps.length - 1 := by
  induction ps generalizing y with
  | nil => rfl
  | cons p t ih =>
    cases t with
    | nil => rfl
    | cons q u => simp only [thetasOf, List.length_cons, ih]; omega

/-- the invariant of a user-specified distribution: one theta less than values, thetas in `[0,1]` -/
def SimpleInv (s : SimpleSt ℝ) : Prop :=
  s.thetas.length + 1 = s.vs.length ∧ ∀ t ∈ s.thetas, 0 ≤ t ∧ t ≤ 1

theorem simple_make_ins_vals (prec : ℝ) (l : List (ℝ × ℝ)) (m m' : TMap ℝ) (h : SimpleSt.make.ins prec l m = some m') :
    (TMap.vals m').sum = (TMap.vals m).sum + (l.map (·.2)).sum := by
  induction l generalizing m with
  | nil => simp [SimpleSt.make.ins] at h; subst h; simp
  | cons a t ih =>
    obtain ⟨v, p⟩ := a
    simp only [SimpleSt.make.ins] at h
    split at h
    · cases h
    · rename_i hnf
      have hnf' : TMap.find? prec v m = none := by
        cases hh : TMap.find? prec v m with
        | none => rfl
        | some x => simp [hh] at hnf
      rw [ih _ h, (vals_assign_not_found prec v p m hnf').1]
      simp; ring

/-- the constructor establishes the invariant, and its classes carry the given probabilities:
normalised *up to the precision* (the constructor accepts `|1 − Σp| ≤ precision`) -/
theorem simple_make_spec (values probas : List ℝ) (prec : ℝ) (s : SimpleSt ℝ) (hne : values ≠ [])
    (h : SimpleSt.make values probas prec = .ok s) :
    SimpleInv s ∧ |1 - (TMap.vals s.dd.dist).sum| ≤ prec := by
  unfold SimpleSt.make at h
  by_cases hlen : (values.length != probas.length) = true
  · rw [if_pos hlen] at h; cases h
  · rw [if_neg hlen] at h
    have hlen' : values.length = probas.length := by simpa using hlen
    cases hm : SimpleSt.make.ins prec (values.zip probas) [] with
    | none => rw [hm] at h; cases h
    | some m =>
      rw [hm] at h
      simp only at h
      by_cases hsum : Scalar.gtb (Scalar.abs (Scalar.one - sumL probas)) prec = true
      · rw [if_pos hsum] at h; cases h
      · rw [if_neg hsum] at h
        by_cases hth : ((thetasOf probas Scalar.one).any fun t => !(unitC : Interval ℝ).isCorrect t) = true
        · rw [if_pos hth] at h; cases h
        · rw [if_neg hth] at h
          injection h with h; subst h
          have hvl : 0 < values.length := List.length_pos_iff.2 hne
          refine ⟨⟨?_, ?_⟩, ?_⟩
          · simp only [thetasOf_length]; omega
          · intro t ht
            simp only [List.any_eq_true, not_exists, not_and, Bool.not_eq_true'] at hth
            have : (unitC : Interval ℝ).isCorrect t = true := by simpa using hth t ht
            exact (unitC_iff t).1 this
          · have hv := simple_make_ins_vals prec _ [] m hm
            simp only [TMap.vals, List.map_nil, List.sum_nil, zero_add] at hv
            have hz : (values.zip probas).map (·.2) = probas := by
              rw [List.map_snd_zip]; omega
            simp only [TMap.vals]
            rw [hv, hz]
            have : ¬ (|1 - probas.sum| > prec) := by
              simpa [Scalar.gtb, ScalarReal.ltb_iff, ScalarReal.abs_eq, ScalarReal.one_eq, sumL_eq] using hsum
            linarith [not_lt.1 this]

/-- writing an accepted value keeps the invariant -/
theorem simple_write_inv (s : SimpleSt ℝ) (sl : Bool × Nat) (v : ℝ) (hi : SimpleInv s)
    (hv : sl.1 = false → 0 ≤ v ∧ v ≤ 1) : SimpleInv (SimpleSt.write s sl v) := by
  obtain ⟨b, i⟩ := sl
  cases b with
  | true => exact ⟨by simp [SimpleSt.write, hi.1], by simpa [SimpleSt.write] using hi.2⟩
  | false =>
    refine ⟨by simp [SimpleSt.write, hi.1], ?_⟩
    intro t ht
    simp only [SimpleSt.write, Bool.false_eq_true, if_false] at ht
    rcases List.mem_or_eq_of_mem_set ht with h1 | h1
    · exact hi.2 t h1
    · rw [h1]; exact hv rfl

theorem simple_rebuild_params (s s' : SimpleSt ℝ) (h : s.rebuild = .ok s') : s'.vs = s.vs ∧ s'.thetas = s.thetas := by
  unfold SimpleSt.rebuild at h
  simp only at h
  cases hg : SimpleSt.rebuild.go s (s.vs.zip (probsOfThetas s.thetas Scalar.one)) [] with
  | none => rw [hg] at h; cases h
  | some m => rw [hg] at h; injection h with h; subst h; exact ⟨rfl, rfl⟩

/-- an accepted `setParameterValue` keeps the invariant and leaves a normalised distribution -/
theorem simple_setP_inv (s s' : SimpleSt ℝ) (name : String) (v : ℝ) (hi : SimpleInv s) (h : s.setP name v = .ok s') :
    SimpleInv s' ∧ Normalised s'.dd.dist := by
  unfold SimpleSt.setP at h
  cases hsl : SimpleSt.slotOf s name with
  | none => rw [hsl] at h; cases h
  | some sl =>
    rw [hsl] at h
    simp only at h
    -- the written value is an old theta or an accepted one
    have key : (SimpleSt.write s sl v).rebuild = .ok s' ∧ (sl.1 = false → 0 ≤ v ∧ v ≤ 1) := by
      cases hcur : SimpleSt.current s sl with
      | none =>
        simp only [hcur, Bool.not_false, Bool.true_and] at h
        split at h
        · simp at h
        · rename_i hr
          refine ⟨h, fun hb => ?_⟩
          obtain ⟨b, i⟩ := sl
          simp only at hb; subst hb
          simp only [SimpleSt.rejects, Bool.false_eq_true, if_false, Bool.not_eq_true', Bool.not_eq_false'] at hr
          exact (unitC_iff v).1 (by simpa using hr)
      | some c =>
        simp only [hcur] at h
        split at h
        · simp at h
        · rename_i hr
          refine ⟨h, fun hb => ?_⟩
          obtain ⟨b, i⟩ := sl
          simp only at hb; subst hb
          by_cases hcv : Scalar.eqb c v = true
          · have : c = v := (ScalarReal.eqb_iff _ _).1 hcv
            simp only [SimpleSt.current, Bool.false_eq_true, if_false] at hcur
            rw [← this]; exact hi.2 c (List.mem_of_getElem? hcur)
          · simp only [hcv, Bool.not_false, Bool.true_and, SimpleSt.rejects, Bool.false_eq_true, if_false,
              Bool.not_eq_true', Bool.not_eq_false'] at hr
            exact (unitC_iff v).1 (by simpa using hr)
    have hw := simple_write_inv s sl v hi key.2
    have hn := simple_rebuild_normalised _ s' hw.1 hw.2 key.1
    obtain ⟨e1, e2⟩ := simple_rebuild_params _ s' key.1
    exact ⟨⟨by rw [e1, e2]; exact hw.1, by rw [e2]; exact hw.2⟩, hn⟩

/-- the public operations of a user-specified distribution -/
inductive SimpleOp where
  | setP (name : String) (v : ℝ)
  | restrict (c : Interval ℝ)
  | setMed (b : Bool)
  | rediscretize

/-- one operation; a refused one leaves the object as it is (`restrict`: as the C++ leaves it) -/
noncomputable def simpleStep (s : SimpleSt ℝ) : SimpleOp → SimpleSt ℝ
  | .setP name v => match s.setP name v with | .ok s' => s' | .error _ => s
  | .restrict c => (s.restrict c).1
  | .setMed b => s.setMed b
  | .rediscretize => s.rediscretize

theorem simple_restrict_same (s : SimpleSt ℝ) (c : Interval ℝ) :
    (s.restrict c).1.dd.dist = s.dd.dist ∧ (s.restrict c).1.vs = s.vs ∧ (s.restrict c).1.thetas = s.thetas := by
  unfold SimpleSt.restrict
  split
  · exact ⟨rfl, rfl, rfl⟩
  · split
    · exact ⟨rfl, rfl, rfl⟩
    · rename_i d changed _
      cases changed <;> simp only [Bool.false_eq_true, if_false, if_true] <;> split <;> exact ⟨rfl, rfl, rfl⟩

/-- what every history keeps: the invariant, and normalisation up to `prec` (exact after the first
accepted parameter update) -/
def SimpleGood (prec : ℝ) (s : SimpleSt ℝ) : Prop :=
  SimpleInv s ∧ |1 - (TMap.vals s.dd.dist).sum| ≤ prec

theorem simpleStep_good (prec : ℝ) (hp : 0 ≤ prec) (s : SimpleSt ℝ) (op : SimpleOp) (hg : SimpleGood prec s) :
    SimpleGood prec (simpleStep s op) := by
  cases op with
  | setP name v =>
    simp only [simpleStep]
    cases h : s.setP name v with
    | error e => exact hg
    | ok s' =>
      obtain ⟨a, b⟩ := simple_setP_inv s s' name v hg.1 h
      exact ⟨a, by rw [b.2]; simpa using hp⟩
  | restrict c =>
    obtain ⟨e1, e2, e3⟩ := simple_restrict_same s c
    simp only [simpleStep, SimpleGood, SimpleInv, e1, e2, e3]; exact hg
  | setMed b =>
    simp only [simpleStep, SimpleSt.setMed]
    split <;> exact hg
  | rediscretize => exact hg

theorem simpleRun_good (prec : ℝ) (hp : 0 ≤ prec) (ops : List SimpleOp) (s : SimpleSt ℝ) (hg : SimpleGood prec s) :
    SimpleGood prec (ops.foldl simpleStep s) := by
  induction ops generalizing s with
  | nil => exact hg
  | cons op rest ih => exact ih _ (simpleStep_good prec hp s op hg)

end Bpp.Discretize
