import BppProofs.Lemmas.MatrixOps
/-! Helper lemmas for C04 (continued): tridiagonal product, block writes, copyUp/Down, fillDiag,
direct sum, Kronecker products, element sum, complex pairs with a diagonal factor. -/
namespace Bpp.Mx
open Bpp Store

section Ops2
variable {α : Type} [Scalar α]

theorem vget_getD {v : Array α} {i : Nat} (h : i < v.size) (d : α) : vget v i = .ok (v.getD i d) := by
  simp [vget_ok h, h]

/-- `x + t 0 + t 1 + … + t (n-1)`, added in this order -/
def accFrom (x : α) (n : Nat) (t : Nat → α) : α := (List.range n).foldl (fun acc k => acc + t k) x

theorem accFrom_succ (x : α) (n : Nat) (t : Nat → α) : accFrom x (n + 1) t = accFrom x n t + t n := by
  simp [accFrom, List.range_succ, List.foldl_append]

theorem loopM_addR {n : Nat} {g : Nat → Res α} {v : Nat → α} (x : α) (h : ∀ t, t < n → g t = .ok (v t)) :
    loopM n (fun t acc => addR acc (g t)) x = .ok (accFrom x n v) := by
  induction n with
  | zero => rfl
  | succ n ih => rw [loopM_succ, ih (fun t ht => h t (by omega)), h n (by omega), accFrom_succ]; rfl

theorem addR_ok (x t : α) : addR x (.ok t) = .ok (x + t) := rfl
theorem prod3_ok (a b c : α) : prod3 (.ok a) (.ok b) (.ok c) = .ok (a * b * c) := rfl

/-- the entry of the tridiagonal product as the (repaired) code computes it -/
def triCode (a b : Nat → Nat → α) (d u l : Nat → α) (n i j : Nat) : α :=
  if n ≥ 2 then
    accFrom (a i 0 * d 0 * b 0 j + a i 0 * u 0 * b 1 j) (n - 2)
        (fun t => a i (t + 1) * (l t * b t j + d (t + 1) * b (t + 1) j + u (t + 1) * b (t + 2) j))
      + a i (n - 1) * l (n - 2) * b (n - 2) j + a i (n - 1) * d (n - 1) * b (n - 1) j
  else a i 0 * d 0 * b 0 j

theorem triEntry_ok {A B : Store α} (hA : A.WF) (hB : B.WF) {D U L : Array α}
    (h : A.ncols = B.nrows) (hD : A.ncols = D.size) (hU : A.ncols = U.size + 1) (hL : A.ncols = L.size + 1)
    {i j : Nat} (hi : i < A.nrows) (hj : j < B.ncols) :
    triEntry false A D U L B i j =
      .ok (triCode A.entry B.entry (fun k => D.getD k Scalar.zero) (fun k => U.getD k Scalar.zero)
        (fun k => L.getD k Scalar.zero) A.ncols i j) := by
  have z := (Scalar.zero : α)
  have ga : ∀ k, k < A.ncols → A.get i k = .ok (A.entry i k) := fun k hk => get_eq_entry hA hi hk
  have gb : ∀ k, k < A.ncols → B.get k j = .ok (B.entry k j) := fun k hk => get_eq_entry hB (h ▸ hk) hj
  have gd : ∀ k, k < A.ncols → vget D k = .ok (D.getD k Scalar.zero) := fun k hk => vget_getD (hD ▸ hk) _
  have gu : ∀ k, k + 1 < A.ncols → vget U k = .ok (U.getD k Scalar.zero) := fun k hk => vget_getD (by omega) _
  have gl : ∀ k, k + 1 < A.ncols → vget L k = .ok (L.getD k Scalar.zero) := fun k hk => vget_getD (by omega) _
  unfold triEntry triCode
  by_cases hn : A.ncols ≥ 2
  · have h1 : B.nrows > 1 := by omega
    have hmid : ∀ t, t < A.ncols - 2 → triMid A D U L B i j (t + 1) =
        .ok (A.entry i (t + 1) * (L.getD t Scalar.zero * B.entry t j + D.getD (t + 1) Scalar.zero * B.entry (t + 1) j
          + U.getD (t + 1) Scalar.zero * B.entry (t + 2) j)) := by
      intro t ht
      simp only [triMid, Nat.add_sub_cancel]
      rw [ga (t + 1) (by omega), gl t (by omega), gb t (by omega), gd (t + 1) (by omega), gb (t + 1) (by omega),
        gu (t + 1) (by omega), gb (t + 1 + 1) (by omega)]
    simp only [ga 0 (by omega), gd 0 (by omega), gb 0 (by omega), prod3_ok, h1, if_true, gu 0 (by omega), gb 1 (by omega), addR_ok,
      loopM_addR _ hmid, hn, ga (A.ncols - 1) (by omega), gl (A.ncols - 2) (by omega), gb (A.ncols - 2) (by omega),
      gd (A.ncols - 1) (by omega), gb (A.ncols - 1) (by omega)]
  · have h1 : ¬ B.nrows > 1 := by omega
    have h0 : A.ncols - 2 = 0 := by omega
    simp only [ga 0 (by omega), gd 0 (by omega), gb 0 (by omega), prod3_ok, h1, if_false, h0, loopM, hn, Bool.false_eq_true]

/-- the unrepaired text on operands with one inner dimension: the only term is added twice -/
theorem triEntry_dbl_one {A B : Store α} (hA : A.WF) (hB : B.WF) {D U L : Array α}
    (h : A.ncols = B.nrows) (hD : A.ncols = D.size) (h1 : A.ncols = 1)
    {i j : Nat} (hi : i < A.nrows) (hj : j < B.ncols) :
    triEntry true A D U L B i j =
      .ok (A.entry i 0 * D.getD 0 Scalar.zero * B.entry 0 j + A.entry i 0 * D.getD 0 Scalar.zero * B.entry 0 j) := by
  have ga : A.get i 0 = .ok (A.entry i 0) := get_eq_entry hA hi (by omega)
  have gb : B.get 0 j = .ok (B.entry 0 j) := get_eq_entry hB (by omega) hj
  have gd : vget D 0 = .ok (D.getD 0 Scalar.zero) := vget_getD (by omega) _
  have hb1 : ¬ B.nrows > 1 := by omega
  have hn2 : ¬ A.ncols ≥ 2 := by omega
  unfold triEntry
  simp only [h1, ga, gd, gb, prod3_ok, hb1, if_false, loopM, Nat.sub_self, addR_ok, ge_iff_le,
    show ¬ (2 ≤ 1) by omega, if_true]
  rfl

theorem multTOrig_one {A B : Store α} (hA : A.WF) (hB : B.WF) (D U L : Array α) (O : Store α)
    (h : A.ncols = B.nrows) (hD : A.ncols = D.size) (hU : A.ncols = U.size + 1) (hL : A.ncols = L.size + 1)
    (h1 : A.ncols = 1) :
    ∃ O', multTOrig A D U L B O = .ok O' ∧
      O'.Holds A.nrows B.ncols (fun i j =>
        A.entry i 0 * D.getD 0 Scalar.zero * B.entry 0 j + A.entry i 0 * D.getD 0 Scalar.zero * B.entry 0 j) := by
  unfold multTOrig multTGen
  rw [if_neg (by simpa using h), if_neg (by simpa using hD), if_neg (by simpa using hU), if_neg (by simpa using hL)]
  obtain ⟨O', e, _, hh⟩ := fill_resize_holds O (r := A.nrows) (c := B.ncols) (f := fun i j => triEntry true A D U L B i j)
    (fun i j hi hj => triEntry_dbl_one hA hB h hD h1 hi hj)
  exact ⟨O', e, hh⟩

theorem multT_holds {A B : Store α} (hA : A.WF) (hB : B.WF) (D U L : Array α) (O : Store α)
    (h : A.ncols = B.nrows) (hD : A.ncols = D.size) (hU : A.ncols = U.size + 1) (hL : A.ncols = L.size + 1) :
    ∃ O', multT A D U L B O = .ok O' ∧ O'.kind = O.kind ∧
      O'.Holds A.nrows B.ncols (triCode A.entry B.entry (fun k => D.getD k Scalar.zero) (fun k => U.getD k Scalar.zero)
        (fun k => L.getD k Scalar.zero) A.ncols) := by
  unfold multT multTGen
  rw [if_neg (by simpa using h), if_neg (by simpa using hD), if_neg (by simpa using hU), if_neg (by simpa using hL)]
  exact fill_resize_holds O (fun i j hi hj => triEntry_ok hA hB h hD hU hL hi hj)

theorem multT_nonconformable {A B : Store α} (D U L : Array α) (O : Store α)
    (h : A.ncols ≠ B.nrows ∨ A.ncols ≠ D.size ∨ A.ncols ≠ U.size + 1 ∨ A.ncols ≠ L.size + 1) :
    multT A D U L B O = .error .dimension := by
  unfold multT multTGen
  by_cases h0 : A.ncols ≠ B.nrows
  · rw [if_pos h0]
  · rw [if_neg h0]
    by_cases h1 : A.ncols ≠ D.size
    · rw [if_pos h1]
    · rw [if_neg h1]
      by_cases h2 : A.ncols ≠ U.size + 1
      · rw [if_pos h2]
      · rw [if_neg h2, if_pos (by tauto)]

/-! ### composing block writes -/
namespace Store

theorem Written.trans {O O1 O2 : Store α} {W1 W2 : Nat → Nat → Prop} {val val2 : Nat → Nat → α}
    (h1 : Written O O1 W1 val) (h2 : Written O1 O2 W2 val2)
    (hv : ∀ p q, p < O.nrows → q < O.ncols → W2 p q → val2 p q = val p q) :
    Written O O2 (fun p q => W1 p q ∨ W2 p q) val := by
  refine ⟨h1.1.trans h2.1, ?_⟩
  intro p q hp hq
  have hp1 : p < O1.nrows := h1.1.2.2.1 ▸ hp
  have hq1 : q < O1.ncols := h1.1.2.2.2 ▸ hq
  by_cases hw2 : W2 p q
  · exact ⟨fun _ => by rw [(h2.2 p q hp1 hq1).1 hw2, hv p q hp hq hw2], fun hn => absurd (Or.inr hw2) hn⟩
  · have e := (h2.2 p q hp1 hq1).2 hw2
    exact ⟨fun hw => by
        rcases hw with hw | hw
        · rw [e]; exact (h1.2 p q hp hq).1 hw
        · exact absurd hw hw2,
      fun hn => by rw [e]; exact (h1.2 p q hp hq).2 (fun hw => hn (Or.inl hw))⟩

theorem Written.change_val {O O' : Store α} {W : Nat → Nat → Prop} {val val' : Nat → Nat → α}
    (h : Written O O' W val) (hv : ∀ p q, p < O.nrows → q < O.ncols → W p q → val p q = val' p q) :
    Written O O' W val' :=
  ⟨h.1, fun p q hp hq => ⟨fun hw => by rw [(h.2 p q hp hq).1 hw, hv p q hp hq hw], (h.2 p q hp hq).2⟩⟩

end Store

/-- `fillBlock` also when the block is empty (then nothing is required of the position) -/
theorem fillBlock_written' {O : Store α} (hw : O.WF) {r0 c0 r c : Nat}
    (hin : (r = 0 ∨ c = 0) ∨ (r0 + r ≤ O.nrows ∧ c0 + c ≤ O.ncols))
    {f : Nat → Nat → Res α} {g : Nat → Nat → α} (hf : ∀ i j, i < r → j < c → f i j = .ok (g i j)) :
    ∃ O', fillBlock O r0 c0 r c f = .ok O' ∧
      Written O O' (fun p q => r0 ≤ p ∧ p < r0 + r ∧ c0 ≤ q ∧ q < c0 + c) (fun p q => g (p - r0) (q - c0)) := by
  by_cases h0 : r = 0 ∨ c = 0
  · refine ⟨O, fillBlock_empty O r0 c0 r c f h0, (Written.init hw _).mono ?_⟩
    intro p q _ _
    constructor
    · exact fun h => h.elim
    · intro h; omega
  · rcases hin with hin | hin
    · exact absurd hin h0
    · exact fillBlock_written hw hin.1 hin.2 hf

/-- a `Written` store holds the matrix `val` when everything has been written -/
theorem Store.Written.holds {O O' : Store α} {W : Nat → Nat → Prop} {val : Nat → Nat → α} {r c : Nat}
    (h : Written O O' W val) (hd : (O.nrows, O.ncols) = O.kind.shape r c)
    (hall : ∀ p q, p < r → q < c → W p q) : O'.kind = O.kind ∧ O'.Holds r c val := by
  obtain ⟨⟨hw, hk, hr, hc⟩, hget⟩ := h
  refine ⟨hk, hw, by rw [hr, hc, hk]; exact hd, ?_⟩
  intro i j hi hj
  have hr0 : 0 < r := by omega
  have hc0 : 0 < c := by omega
  rw [shape_pos _ hr0 hc0] at hd
  have h1 : O.nrows = r := (Prod.mk.inj hd).1
  have h2 : O.ncols = c := (Prod.mk.inj hd).2
  exact (hget i j (by omega) (by omega)).1 (hall i j hi hj)

/-- positions of an `r × c` matrix lie inside a store reporting the dimensions of an `r × c` matrix,
unless the matrix is empty -/
theorem block_in {O : Store α} {R C : Nat} (hd : (O.nrows, O.ncols) = O.kind.shape R C) {r0 c0 r c : Nat}
    (hr : r0 + r ≤ R) (hc : c0 + c ≤ C) : (r = 0 ∨ c = 0) ∨ (r0 + r ≤ O.nrows ∧ c0 + c ≤ O.ncols) := by
  by_cases h0 : r = 0 ∨ c = 0
  · exact Or.inl h0
  · right
    have hR : 0 < R := by omega
    have hC : 0 < C := by omega
    rw [shape_pos _ hR hC] at hd
    have h1 : O.nrows = R := (Prod.mk.inj hd).1
    have h2 : O.ncols = C := (Prod.mk.inj hd).2
    omega

/-! ### copyUp / copyDown / fillDiag -/

theorem copyUp_holds {A : Store α} (hA : A.WF) (O : Store α) :
    ∃ O', copyUp A O = .ok O' ∧ O'.kind = O.kind ∧
      O'.Holds A.nrows A.ncols (fun i j => if i + 1 < A.nrows then A.entry (i + 1) j else Scalar.zero) := by
  unfold copyUp
  simp only
  have hd := resize_dims O A.nrows A.ncols
  rw [← resize_kind O A.nrows A.ncols] at hd
  by_cases h0 : A.nrows = 0
  · rw [if_pos h0]
    exact ⟨_, rfl, resize_kind _ _ _, resize_wf _ _ _, hd, fun i j hi _ => by omega⟩
  · rw [if_neg h0]
    obtain ⟨O1, e1, w1⟩ := fillBlock_written' (resize_wf O A.nrows A.ncols) (r0 := 0) (c0 := 0) (r := A.nrows - 1) (c := A.ncols)
      (block_in hd (by omega) (by omega)) (f := fun i j => A.get (i + 1) j) (g := fun i j => A.entry (i + 1) j)
      (fun i j hi hj => get_eq_entry hA (by omega) hj)
    have hd1 : (O1.nrows, O1.ncols) = O1.kind.shape A.nrows A.ncols := by rw [w1.1.2.2.1, w1.1.2.2.2, w1.1.2.1]; exact hd
    obtain ⟨O2, e2, w2⟩ := fillBlock_written' w1.1.1 (r0 := A.nrows - 1) (c0 := 0) (r := 1) (c := A.ncols)
      (block_in hd1 (by omega) (by omega)) (f := fun _ _ => .ok Scalar.zero) (g := fun _ _ => (Scalar.zero : α))
      (fun _ _ _ _ => rfl)
    have w1' : Written (O.resize A.nrows A.ncols) O1 (fun p q => 0 ≤ p ∧ p < 0 + (A.nrows - 1) ∧ 0 ≤ q ∧ q < 0 + A.ncols)
        (fun p q => if p + 1 < A.nrows then A.entry (p + 1) q else Scalar.zero) :=
      Written.change_val w1 (by
        intro p q _ _ hW
        have : p + 1 < A.nrows := by omega
        simp [this])
    have w := Written.trans w1' w2 (by
      intro p q _ _ hW
      have : ¬ p + 1 < A.nrows := by omega
      simp [this])
    obtain ⟨hk, hh⟩ := w.holds hd (by intro p q hp hq; by_cases h : p < A.nrows - 1 <;> [left; right] <;> omega)
    exact ⟨O2, by simp only [e1, e2], by rw [hk, resize_kind], hh⟩

theorem copyDown_holds {A : Store α} (hA : A.WF) (O : Store α) :
    ∃ O', copyDown A O = .ok O' ∧ O'.kind = O.kind ∧
      O'.Holds A.nrows A.ncols (fun i j => if i = 0 then Scalar.zero else A.entry (i - 1) j) := by
  unfold copyDown
  simp only
  have hd := resize_dims O A.nrows A.ncols
  rw [← resize_kind O A.nrows A.ncols] at hd
  by_cases h0 : A.nrows = 0
  · rw [if_pos h0]
    exact ⟨_, rfl, resize_kind _ _ _, resize_wf _ _ _, hd, fun i j hi _ => by omega⟩
  · rw [if_neg h0]
    obtain ⟨O1, e1, w1⟩ := fillBlock_written' (resize_wf O A.nrows A.ncols) (r0 := 1) (c0 := 0) (r := A.nrows - 1) (c := A.ncols)
      (block_in hd (by omega) (by omega)) (f := fun i j => A.get i j) (g := fun i j => A.entry i j)
      (fun i j hi hj => get_eq_entry hA (by omega) hj)
    have hd1 : (O1.nrows, O1.ncols) = O1.kind.shape A.nrows A.ncols := by rw [w1.1.2.2.1, w1.1.2.2.2, w1.1.2.1]; exact hd
    obtain ⟨O2, e2, w2⟩ := fillBlock_written' w1.1.1 (r0 := 0) (c0 := 0) (r := 1) (c := A.ncols)
      (block_in hd1 (by omega) (by omega)) (f := fun _ _ => .ok Scalar.zero) (g := fun _ _ => (Scalar.zero : α))
      (fun _ _ _ _ => rfl)
    have w1' : Written (O.resize A.nrows A.ncols) O1 (fun p q => 1 ≤ p ∧ p < 1 + (A.nrows - 1) ∧ 0 ≤ q ∧ q < 0 + A.ncols)
        (fun p q => if p = 0 then Scalar.zero else A.entry (p - 1) q) :=
      Written.change_val w1 (by
        intro p q _ _ hW
        have : p ≠ 0 := by omega
        simp [this])
    have w := Written.trans w1' w2 (by
      intro p q _ _ hW
      have : p = 0 := by omega
      simp [this])
    obtain ⟨hk, hh⟩ := w.holds hd (by intro p q hp hq; by_cases h : p = 0 <;> [right; left] <;> omega)
    exact ⟨O2, by simp only [e1, e2], by rw [hk, resize_kind], hh⟩

theorem fillDiag_holds {A : Store α} (hA : A.WF) (x : α) :
    ∃ A', fillDiag A x = .ok A' ∧ A'.kind = A.kind ∧
      A'.Holds A.nrows A.ncols (fun i j => if i = j then x else A.entry i j) := by
  unfold fillDiag
  obtain ⟨A', e, w⟩ := loopM_inv
    (fun i (M : Store α) => Written A M (fun p q => p = q ∧ p < i) (fun _ _ => x))
    (Nat.min A.nrows A.ncols) (fun i M => M.set i i x) A
    ((Written.init hA _).mono (by intro p q _ _; constructor; exact fun h => h.elim; intro h; omega))
    (by
      intro i M hi hinv
      have hm1 : Nat.min A.nrows A.ncols ≤ A.nrows := Nat.min_le_left _ _
      have hm2 : Nat.min A.nrows A.ncols ≤ A.ncols := Nat.min_le_right _ _
      have hi1 : i < A.nrows := by omega
      have hi2 : i < A.ncols := by omega
      obtain ⟨M', hset, hw⟩ := hinv.step (i := i) (j := i) hi1 hi2
      refine ⟨M', hset, hw.mono ?_⟩
      intro p q _ _
      constructor
      · intro h
        rcases h with h | h
        · exact ⟨h.1, by omega⟩
        · exact ⟨by omega, by omega⟩
      · intro h
        by_cases hp : p = i
        · exact Or.inr ⟨hp, by omega⟩
        · exact Or.inl ⟨h.1, by omega⟩)
  refine ⟨A', e, w.1.2.1, w.1.1, by rw [w.1.2.2.1, w.1.2.2.2, w.1.2.1]; exact dims_shape_self A, ?_⟩
  intro i j hi hj
  by_cases hij : i = j
  · subst hij
    have hm : i < Nat.min A.nrows A.ncols := Nat.lt_min.mpr ⟨hi, hj⟩
    rw [(w.2 i i hi hj).1 ⟨rfl, hm⟩]; simp
  · rw [(w.2 i j hi hj).2 (fun h => hij h.1), get_eq_entry hA hi hj]; simp [hij]

/-! ### direct sum -/

theorem dsum_holds {A B : Store α} (hA : A.WF) (hB : B.WF) (O : Store α) :
    ∃ O', dsum A B O = .ok O' ∧ O'.kind = O.kind ∧
      O'.Holds (A.nrows + B.nrows) (A.ncols + B.ncols) (Spec.dsum A.entry B.entry A.nrows A.ncols B.nrows B.ncols) := by
  unfold dsum
  simp only
  have hd := resize_dims O (A.nrows + B.nrows) (A.ncols + B.ncols)
  rw [← resize_kind O (A.nrows + B.nrows) (A.ncols + B.ncols)] at hd
  let V := Spec.dsum A.entry B.entry A.nrows A.ncols B.nrows B.ncols
  obtain ⟨O1, e1, w1⟩ := fillBlock_written' (resize_wf O _ _) (r0 := 0) (c0 := 0) (r := A.nrows) (c := A.ncols)
    (block_in hd (by omega) (by omega)) (f := fun i j => A.get i j) (g := A.entry)
    (fun i j hi hj => get_eq_entry hA hi hj)
  have hd1 : (O1.nrows, O1.ncols) = O1.kind.shape (A.nrows + B.nrows) (A.ncols + B.ncols) := by
    rw [w1.1.2.2.1, w1.1.2.2.2, w1.1.2.1]; exact hd
  obtain ⟨O2, e2, w2⟩ := fillBlock_written' w1.1.1 (r0 := 0) (c0 := A.ncols) (r := A.nrows) (c := B.ncols)
    (block_in hd1 (by omega) (by omega)) (f := fun _ _ => .ok Scalar.zero) (g := fun _ _ => (Scalar.zero : α))
    (fun _ _ _ _ => rfl)
  have hd2 : (O2.nrows, O2.ncols) = O2.kind.shape (A.nrows + B.nrows) (A.ncols + B.ncols) := by
    rw [w2.1.2.2.1, w2.1.2.2.2, w2.1.2.1]; exact hd1
  obtain ⟨O3, e3, w3⟩ := fillBlock_written' w2.1.1 (r0 := A.nrows) (c0 := 0) (r := B.nrows) (c := A.ncols)
    (block_in hd2 (by omega) (by omega)) (f := fun _ _ => .ok Scalar.zero) (g := fun _ _ => (Scalar.zero : α))
    (fun _ _ _ _ => rfl)
  have hd3 : (O3.nrows, O3.ncols) = O3.kind.shape (A.nrows + B.nrows) (A.ncols + B.ncols) := by
    rw [w3.1.2.2.1, w3.1.2.2.2, w3.1.2.1]; exact hd2
  obtain ⟨O4, e4, w4⟩ := fillBlock_written' w3.1.1 (r0 := A.nrows) (c0 := A.ncols) (r := B.nrows) (c := B.ncols)
    (block_in hd3 (by omega) (by omega)) (f := fun i j => B.get i j) (g := B.entry)
    (fun i j hi hj => get_eq_entry hB hi hj)
  have w1' : Written (O.resize (A.nrows + B.nrows) (A.ncols + B.ncols)) O1 _ V := Written.change_val w1 (by
    intro p q _ _ hW
    have h1 : p < A.nrows := by omega
    have h2 : q < A.ncols := by omega
    simp [V, Spec.dsum, h1, h2])
  have w12 := Written.trans w1' w2 (by
    intro p q _ _ hW
    have h1 : p < A.nrows := by omega
    have h2 : ¬ q < A.ncols := by omega
    simp [V, Spec.dsum, h1, h2])
  have w123 := Written.trans w12 w3 (by
    intro p q _ _ hW
    have h1 : ¬ p < A.nrows := by omega
    have h2 : q < A.ncols := by omega
    simp [V, Spec.dsum, h1, h2])
  have w1234 := Written.trans w123 w4 (by
    intro p q _ _ hW
    have h1 : ¬ p < A.nrows := by omega
    have h2 : ¬ q < A.ncols := by omega
    have h3 : p - A.nrows < B.nrows ∧ q - A.ncols < B.ncols := by omega
    simp [V, Spec.dsum, h1, h2, h3])
  obtain ⟨hk, hh⟩ := w1234.holds hd (by
    intro p q hp hq
    by_cases h1 : p < A.nrows <;> by_cases h2 : q < A.ncols
    · left; left; left; omega
    · left; left; right; omega
    · left; right; omega
    · right; omega)
  exact ⟨O4, by simp only [e1, e2, e3, e4], by rw [hk, resize_kind], hh⟩

/-! ### Kronecker products -/

theorem kronLoop_written {O : Store α} (hw : O.WF) {nrA ncA nrB ncB : Nat}
    (hR : nrA * nrB ≤ O.nrows) (hC : ncA * ncB ≤ O.ncols)
    {a b : Nat → Nat → Res α} {av bv : Nat → Nat → α}
    (ha : ∀ ia ja, ia < nrA → ja < ncA → a ia ja = .ok (av ia ja))
    (hb : ∀ ib jb, ib < nrB → jb < ncB → b ib jb = .ok (bv ib jb)) :
    ∃ O', kronLoop O nrA ncA nrB ncB a b = .ok O' ∧
      Written O O' (fun p q => p < nrA * nrB ∧ q < ncA * ncB)
        (fun p q => av (p / nrB) (q / ncB) * bv (p % nrB) (q % ncB)) := by
  unfold kronLoop
  let V : Nat → Nat → α := fun p q => av (p / nrB) (q / ncB) * bv (p % nrB) (q % ncB)
  apply loopM_inv (fun ia (O' : Store α) => Written O O' (fun p q => p < ia * nrB ∧ q < ncA * ncB) V)
  · exact (Written.init hw _).mono (by intro p q _ _; constructor; exact fun h => h.elim; intro h; omega)
  · intro ia Oi hia hinv
    have hmul1 : (ia + 1) * nrB = ia * nrB + nrB := Nat.succ_mul _ _
    have hle1 : (ia + 1) * nrB ≤ nrA * nrB := Nat.mul_le_mul_right _ (by omega)
    obtain ⟨O'', h3, h4⟩ := loopM_inv
      (fun ja (O' : Store α) => Written O O'
        (fun p q => (p < ia * nrB ∧ q < ncA * ncB) ∨ (ia * nrB ≤ p ∧ p < ia * nrB + nrB ∧ q < ja * ncB)) V)
      ncA (fun ja O =>
        match a ia ja with
        | .error e => .error e
        | .ok aij =>
          fillBlock O (ia * nrB) (ja * ncB) nrB ncB fun ib jb =>
            match b ib jb with
            | .ok x => .ok (aij * x)
            | .error e => .error e) Oi
      (hinv.mono (by intro p q _ _; constructor; exact fun h => Or.inl h; intro h; rcases h with h | h; exact h; omega))
      (by
        intro ja Oj hja hinv2
        have hmul2 : (ja + 1) * ncB = ja * ncB + ncB := Nat.succ_mul _ _
        have hle2 : (ja + 1) * ncB ≤ ncA * ncB := Nat.mul_le_mul_right _ (by omega)
        simp only [ha ia ja hia hja]
        obtain ⟨O3, e3, w3⟩ := fillBlock_written' hinv2.1.1 (r0 := ia * nrB) (c0 := ja * ncB) (r := nrB) (c := ncB)
          (Or.inr ⟨by rw [hinv2.1.2.2.1]; omega, by rw [hinv2.1.2.2.2]; omega⟩)
          (f := fun ib jb =>
            match b ib jb with
            | .ok x => .ok (av ia ja * x)
            | .error e => .error e)
          (g := fun ib jb => av ia ja * bv ib jb)
          (fun ib jb hib hjb => by simp only [hb ib jb hib hjb])
        refine ⟨O3, e3, (Written.trans hinv2 w3 ?_).mono ?_⟩
        · intro p q _ _ hW
          obtain ⟨h1, h2, h3, h4⟩ := hW
          have hnrB : 0 < nrB := by omega
          have hncB : 0 < ncB := by omega
          have ep : p = nrB * ia + (p - ia * nrB) := by rw [Nat.mul_comm]; omega
          have eq : q = ncB * ja + (q - ja * ncB) := by rw [Nat.mul_comm]; omega
          have d1 : p / nrB = ia := by
            rw [ep, Nat.mul_add_div hnrB, Nat.div_eq_of_lt (by omega)]; simp
          have m1 : p % nrB = p - ia * nrB := by
            rw [ep, Nat.mul_add_mod, Nat.mod_eq_of_lt (by omega)]; omega
          have d2 : q / ncB = ja := by
            rw [eq, Nat.mul_add_div hncB, Nat.div_eq_of_lt (by omega)]; simp
          have m2 : q % ncB = q - ja * ncB := by
            rw [eq, Nat.mul_add_mod, Nat.mod_eq_of_lt (by omega)]; omega
          simp only [V, d1, d2, m1, m2]
        · intro p q _ _
          constructor
          · intro h
            rcases h with (h | h) | h
            · exact Or.inl h
            · exact Or.inr ⟨h.1, h.2.1, by omega⟩
            · exact Or.inr ⟨h.1, h.2.1, by omega⟩
          · intro h
            rcases h with h | h
            · exact Or.inl (Or.inl h)
            · by_cases hq : q < ja * ncB
              · exact Or.inl (Or.inr ⟨h.1, h.2.1, hq⟩)
              · exact Or.inr ⟨h.1, h.2.1, by omega, by omega⟩)
    refine ⟨O'', h3, h4.mono ?_⟩
    intro p q _ _
    constructor
    · intro h
      rcases h with h | h
      · exact ⟨by omega, h.2⟩
      · exact ⟨by omega, by omega⟩
    · intro h
      by_cases hp : p < ia * nrB
      · exact Or.inl ⟨hp, h.2⟩
      · exact Or.inr ⟨by omega, by omega, h.2⟩

theorem kronLoop_empty (O : Store α) {nrA ncA nrB ncB : Nat} {a b : Nat → Nat → Res α} {av : Nat → Nat → α}
    (ha : ∀ ia ja, ia < nrA → ja < ncA → a ia ja = .ok (av ia ja))
    (h0 : nrA = 0 ∨ ncA = 0 ∨ nrB = 0 ∨ ncB = 0) : kronLoop O nrA ncA nrB ncB a b = .ok O := by
  unfold kronLoop
  apply loopM_id
  intro ia t hia
  apply loopM_id
  intro ja t' hja
  simp only [ha ia ja hia hja]
  exact fillBlock_empty _ _ _ _ _ _ (by omega)

/-- the block loop nest into a freshly resized output -/
theorem kronLoop_resize_holds (O : Store α) {nrA ncA nrB ncB : Nat}
    {a b : Nat → Nat → Res α} {av bv : Nat → Nat → α}
    (ha : ∀ ia ja, ia < nrA → ja < ncA → a ia ja = .ok (av ia ja))
    (hb : ∀ ib jb, ib < nrB → jb < ncB → b ib jb = .ok (bv ib jb)) :
    ∃ O', kronLoop (O.resize (nrA * nrB) (ncA * ncB)) nrA ncA nrB ncB a b = .ok O' ∧ O'.kind = O.kind ∧
      O'.Holds (nrA * nrB) (ncA * ncB) (fun p q => av (p / nrB) (q / ncB) * bv (p % nrB) (q % ncB)) := by
  have hd := resize_dims O (nrA * nrB) (ncA * ncB)
  rw [← resize_kind O (nrA * nrB) (ncA * ncB)] at hd
  by_cases h0 : nrA = 0 ∨ ncA = 0 ∨ nrB = 0 ∨ ncB = 0
  · refine ⟨_, kronLoop_empty _ ha h0, resize_kind _ _ _, resize_wf _ _ _, hd, ?_⟩
    intro i j hi hj
    exfalso
    rcases h0 with h | h | h | h <;> subst h <;> simp at hi hj
  · have h1 : 0 < nrA * nrB := Nat.mul_pos (by omega) (by omega)
    have h2 : 0 < ncA * ncB := Nat.mul_pos (by omega) (by omega)
    have hd' := hd
    rw [shape_pos _ h1 h2] at hd'
    obtain ⟨O', e, w⟩ := kronLoop_written (resize_wf O (nrA * nrB) (ncA * ncB)) (nrA := nrA) (ncA := ncA) (nrB := nrB) (ncB := ncB)
      (by rw [(Prod.mk.inj hd').1]) (by rw [(Prod.mk.inj hd').2]) ha hb
    obtain ⟨hk, hh⟩ := w.holds hd (fun p q hp hq => ⟨hp, hq⟩)
    exact ⟨O', e, by rw [hk, resize_kind], hh⟩

theorem kron_holds {A B : Store α} (hA : A.WF) (hB : B.WF) (O : Store α) :
    ∃ O', kron A B O true = .ok O' ∧ O'.kind = O.kind ∧
      O'.Holds (A.nrows * B.nrows) (A.ncols * B.ncols) (Spec.kron A.entry B.entry B.nrows B.ncols) := by
  unfold kron
  simp only [if_true]
  exact kronLoop_resize_holds O (fun _ _ hi hj => get_eq_entry hA hi hj) (fun _ _ hi hj => get_eq_entry hB hi hj)

/-- without `check`: into a sufficiently large output, whose other entries are left alone -/
theorem kron_nocheck {A B O : Store α} (hA : A.WF) (hB : B.WF) (hO : O.WF)
    (hR : A.nrows * B.nrows ≤ O.nrows) (hC : A.ncols * B.ncols ≤ O.ncols) :
    ∃ O', kron A B O false = .ok O' ∧
      Written O O' (fun p q => p < A.nrows * B.nrows ∧ q < A.ncols * B.ncols) (Spec.kron A.entry B.entry B.nrows B.ncols) := by
  unfold kron
  simp only [Bool.false_eq_true, if_false]
  exact kronLoop_written hO hR hC (fun _ _ hi hj => get_eq_entry hA hi hj) (fun _ _ hi hj => get_eq_entry hB hi hj)

theorem kronD_holds {A : Store α} (hA : A.WF) (dim : Nat) (v : α) (O : Store α) :
    ∃ O', kronD A dim v O true = .ok O' ∧ O'.kind = O.kind ∧
      O'.Holds (A.nrows * dim) (A.ncols * dim) (Spec.kron A.entry (Spec.diag fun _ => v) dim dim) := by
  unfold kronD
  simp only [if_true]
  exact kronLoop_resize_holds O (fun _ _ hi hj => get_eq_entry hA hi hj) (fun _ _ _ _ => rfl)

theorem kron2_holds {A B : Store α} (hA : A.WF) (hB : B.WF) (dA dB : α) (O : Store α) :
    ∃ O', kron2 A B dA dB O true = .ok O' ∧ O'.kind = O.kind ∧
      O'.Holds (A.nrows * B.nrows) (A.ncols * B.ncols)
        (Spec.kron (fun i j => if i = j then dA else A.entry i j) (fun i j => if i = j then dB else B.entry i j) B.nrows B.ncols) := by
  unfold kron2
  simp only [if_true]
  exact kronLoop_resize_holds O (nrA := A.nrows) (ncA := A.ncols) (nrB := B.nrows) (ncB := B.ncols)
    (a := fun ia ja => if ia = ja then Except.ok dA else A.get ia ja)
    (b := fun ib jb => if ib = jb then Except.ok dB else B.get ib jb)
    (av := fun i j => if i = j then dA else A.entry i j) (bv := fun i j => if i = j then dB else B.entry i j)
    (fun i j hi hj => by
      by_cases h : i = j
      · simp [h]
      · simp only [h, if_false]; exact get_eq_entry hA hi hj)
    (fun i j hi hj => by
      by_cases h : i = j
      · simp [h]
      · simp only [h, if_false]; exact get_eq_entry hB hi hj)

/-! ### element sum -/

theorem loopM_fold {σ : Type} {n : Nat} {f : Nat → σ → Res σ} {h : Nat → σ → σ} (s : σ)
    (hf : ∀ k t, k < n → f k t = .ok (h k t)) :
    loopM n f s = .ok ((List.range n).foldl (fun t k => h k t) s) := by
  induction n with
  | zero => rfl
  | succ n ih =>
    rw [loopM_succ, ih (fun k t hk => hf k t (by omega))]
    simp [List.range_succ, List.foldl_append, hf n _ (by omega)]

theorem sumElements_eq {M : Store α} (hM : M.WF) :
    sumElements M = .ok (Spec.total M.entry M.nrows M.ncols) := by
  unfold sumElements Spec.total
  apply loopM_fold
  intro i s hi
  exact loopM_fold s (fun j t hj => by rw [get_eq_entry hM hi hj]; rfl)

/-! ### complex pairs with a diagonal middle factor -/

theorem multCD_holds {A iA B iB : Store α} (hA : A.WF) (hiA : iA.WF) (hB : B.WF) (hiB : iB.WF) (D iD : Array α) (O iO : Store α)
    (h : A.ncols = B.nrows) (hD : A.ncols = D.size) (hiD : A.ncols = iD.size)
    (h1 : iA.nrows = A.nrows ∧ iA.ncols = A.ncols) (h2 : iB.nrows = B.nrows ∧ iB.ncols = B.ncols) :
    ∃ O' iO', multCD A iA D iD B iB O iO = .ok (O', iO') ∧ O'.kind = O.kind ∧ iO'.kind = iO.kind ∧
      O'.Holds A.nrows B.ncols (fun i j => Spec.sumTo A.ncols fun k =>
        (A.entry i k * B.entry k j - iA.entry i k * iB.entry k j) * D.getD k Scalar.zero
          - (A.entry i k * iB.entry k j + iA.entry i k * B.entry k j) * iD.getD k Scalar.zero) ∧
      iO'.Holds A.nrows B.ncols (fun i j => Spec.sumTo A.ncols fun k =>
        (A.entry i k * B.entry k j - iA.entry i k * iB.entry k j) * iD.getD k Scalar.zero
          + (A.entry i k * iB.entry k j + iA.entry i k * B.entry k j) * D.getD k Scalar.zero) := by
  unfold multCD
  rw [if_neg (by simpa using h), if_neg (by simpa using hD), if_neg (by simpa using hiD),
    if_neg (by simp [sameDims_iff, h1]), if_neg (by simp [sameDims_iff, h2])]
  have hq : ∀ i j k, i < A.nrows → j < B.ncols → k < A.ncols →
      quad A iA B iB i j k = .ok (A.entry i k, iA.entry i k, B.entry k j, iB.entry k j) := fun i j k hi hj hk =>
    quad_ok hA hiA hB hiB hi hk (h1.1 ▸ hi) (h1.2 ▸ hk) (h ▸ hk) hj (h2.1 ▸ h ▸ hk) (h2.2 ▸ hj)
  have ht : ∀ re i j k, i < A.nrows → j < B.ncols → k < A.ncols → multCDTerm re A iA D iD B iB i j k =
      .ok (if re then (A.entry i k * B.entry k j - iA.entry i k * iB.entry k j) * D.getD k Scalar.zero
          - (A.entry i k * iB.entry k j + iA.entry i k * B.entry k j) * iD.getD k Scalar.zero
        else (A.entry i k * B.entry k j - iA.entry i k * iB.entry k j) * iD.getD k Scalar.zero
          + (A.entry i k * iB.entry k j + iA.entry i k * B.entry k j) * D.getD k Scalar.zero) := by
    intro re i j k hi hj hk
    simp only [multCDTerm, hq i j k hi hj hk, vget_getD (hD ▸ hk) Scalar.zero, vget_getD (hiD ▸ hk) Scalar.zero]
  obtain ⟨O', e1, k1, H1⟩ := fill_resize_holds O (r := A.nrows) (c := B.ncols) (f := multCDAt true A iA D iD B iB)
    (g := fun i j => Spec.sumTo A.ncols fun k =>
        (A.entry i k * B.entry k j - iA.entry i k * iB.entry k j) * D.getD k Scalar.zero
          - (A.entry i k * iB.entry k j + iA.entry i k * B.entry k j) * iD.getD k Scalar.zero)
    (fun i j hi hj => dot_ok (fun k hk => by rw [ht true i j k hi hj hk]; rfl))
  obtain ⟨iO', e2, k2, H2⟩ := fill_resize_holds iO (r := A.nrows) (c := B.ncols) (f := multCDAt false A iA D iD B iB)
    (g := fun i j => Spec.sumTo A.ncols fun k =>
        (A.entry i k * B.entry k j - iA.entry i k * iB.entry k j) * iD.getD k Scalar.zero
          + (A.entry i k * iB.entry k j + iA.entry i k * B.entry k j) * D.getD k Scalar.zero)
    (fun i j hi hj => dot_ok (fun k hk => by rw [ht false i j k hi hj hk]; rfl))
  exact ⟨O', iO', by simp only [e1, e2], k1, k2, H1, H2⟩

theorem multCD_nonconformable {A iA B iB : Store α} (D iD : Array α) (O iO : Store α)
    (h : A.ncols ≠ B.nrows ∨ A.ncols ≠ D.size ∨ A.ncols ≠ iD.size ∨ ¬ (iA.nrows = A.nrows ∧ iA.ncols = A.ncols) ∨
      ¬ (iB.nrows = B.nrows ∧ iB.ncols = B.ncols)) :
    multCD A iA D iD B iB O iO = .error .dimension := by
  unfold multCD
  by_cases h0 : A.ncols ≠ B.nrows
  · rw [if_pos h0]
  · rw [if_neg h0]
    by_cases h1 : A.ncols ≠ D.size
    · rw [if_pos h1]
    · rw [if_neg h1]
      by_cases h2 : A.ncols ≠ iD.size
      · rw [if_pos h2]
      · rw [if_neg h2]
        by_cases h3 : sameDims iA A = true
        · have h4 : sameDims iB B = false := by
            rw [Bool.eq_false_iff]; intro h4
            rw [sameDims_iff] at h3 h4
            tauto
          simp [h3, h4]
        · simp [h3]

end Ops2
end Bpp.Mx
