import BppModel.LapFull
import BppProofs.Lemmas.LapEasy
/-! Helper lemmas for C04 (`lap`, the whole routine `Lap.lapFull`): vectors as functions, checked
accesses, the integer conversions, loops. -/
namespace Bpp.Mx.Lap
open Bpp Bpp.Mx

section Vec
variable {β : Type}

@[simp] theorem upd_same (f : Nat → β) (i : Nat) (x : β) : upd f i x i = x := by simp [upd]
theorem upd_ne (f : Nat → β) {i j : Nat} (x : β) (h : j ≠ i) : upd f i x j = f j := by simp [upd, h]
theorem upd_apply (f : Nat → β) (i j : Nat) (x : β) : upd f i x j = if j = i then x else f j := rfl

theorem rd_ok_iff {n : Nat} {f : Nat → β} {i : Nat} {x : β} : rd n f i = .ok x ↔ i < n ∧ x = f i := by
  unfold rd
  split
  · next h => simp [h, eq_comm]
  · next h => simp [h]

theorem wr_ok_iff {n : Nat} {f g : Nat → β} {i : Nat} {x : β} : wr n f i x = .ok g ↔ i < n ∧ g = upd f i x := by
  unfold wr
  split
  · next h => simp [h, eq_comm]
  · next h => simp [h]

theorem rd_of_lt {n : Nat} (f : Nat → β) {i : Nat} (h : i < n) : rd n f i = .ok (f i) := by simp [rd, h]
theorem wr_of_lt {n : Nat} (f : Nat → β) {i : Nat} (x : β) (h : i < n) : wr n f i x = .ok (upd f i x) := by simp [wr, h]
end Vec

theorem szOfInt_ofNat (i : Nat) (h : i < 2 ^ 64) : szOfInt (i : Int) = i := by
  unfold szOfInt
  have : ((i : Int) % (2 ^ 64 : Int)) = (i : Int) := Int.emod_eq_of_lt (by omega) (by exact_mod_cast h)
  rw [this]; simp

theorem toShort_eq_one {m : Nat} (h : m < 32768) : toShort m = 1 ↔ m = 1 := by
  unfold toShort; omega

theorem toShort_eq_zero {m : Nat} (h : m < 32768) : toShort m = 0 ↔ m = 0 := by
  unfold toShort; omega

@[simp] theorem ltExt_none (x : ℝ) : ltExt x none = true := rfl
@[simp] theorem ltExt_some (x y : ℝ) : ltExt x (some y) = true ↔ x < y := by simp [ltExt]

/-- a loop that returns normally: an invariant carried through its iterations -/
theorem loopM_ok_inv {σ : Type} (P : Nat → σ → Prop) (n : Nat) (f : Nat → σ → Res σ) (s t : σ)
    (h : loopM n f s = .ok t) (h0 : P 0 s)
    (hstep : ∀ k a b, k < n → P k a → f k a = .ok b → P (k + 1) b) : P n t := by
  induction n generalizing t with
  | zero => simp only [loopM] at h; cases h; exact h0
  | succ n ih =>
    rw [loopM_succ] at h
    cases hl : loopM n f s with
    | error e => rw [hl] at h; cases h
    | ok a =>
      rw [hl] at h
      exact hstep n a t (by omega) (ih a hl (fun k a b hk => hstep k a b (by omega))) h

/-- fold over `List.range n` with an invariant (the step function takes the index second) -/
theorem foldl_range_inv' {σ : Type} (P : Nat → σ → Prop) (n : Nat) (f : σ → Nat → σ) (s : σ) (h0 : P 0 s)
    (hstep : ∀ k t, k < n → P k t → P (k + 1) (f t k)) : P n ((List.range n).foldl f s) :=
  foldl_range_inv P n f s h0 hstep

/-- the outcome is fuel exhaustion / a normal return (for witnesses evaluated by the kernel) -/
def outOfFuel {β : Type} : Res β → Bool
  | .error .fuel => true
  | _ => false

def returns {β : Type} : Res β → Bool
  | .ok _ => true
  | _ => false

theorem outOfFuel_iff {β : Type} (r : Res β) : outOfFuel r = true ↔ r = .error .fuel := by
  cases r with
  | ok a => simp [outOfFuel]
  | error e => cases e <;> simp [outOfFuel]

theorem returns_iff {β : Type} (r : Res β) : returns r = true ↔ ∃ a, r = .ok a := by
  cases r with
  | ok a => simp [returns]
  | error e => simp [returns]

end Bpp.Mx.Lap
