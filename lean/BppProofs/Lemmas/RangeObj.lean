import BppModel.RangeObj
/-! Helper lemmas for the ownership model of the range collections (`BppModel/RangeObj.lean`).
Property theorems are in `Props/C20Obj.lean`. -/
namespace Bpp.RangeObj
variable {α : Type}

/-- separation: every object owns live, distinct cells below the allocation pointer, and no cell
is owned by two objects -/
def Sep (w : World α) : Prop :=
  ∀ i, (w.regs i).Nodup ∧ (∀ a ∈ w.regs i, a < w.next ∧ (w.heap a).isSome) ∧
       ∀ j, j ≠ i → ∀ a ∈ w.regs i, a ∉ w.regs j

/-- a step that is local to object `k`: other vectors untouched, cells not owned by `k` untouched,
`k` ends up owning some of its old cells and fresh ones, all live and distinct -/
structure LocalStep (w w' : World α) (k : Nat) : Prop where
  others : ∀ i, i ≠ k → w'.regs i = w.regs i
  frame : ∀ a, a < w.next → a ∉ w.regs k → w'.heap a = w.heap a
  grow : w.next ≤ w'.next
  owned : ∀ a ∈ w'.regs k, (a ∈ w.regs k ∨ w.next ≤ a) ∧ a < w'.next ∧ (w'.heap a).isSome
  nodup : (w'.regs k).Nodup

theorem find_of_nodup {β : Type} (l : List (Nat × β)) (h : (l.map Prod.fst).Nodup) (p : Nat × β)
    (hp : p ∈ l) : l.find? (fun q => q.1 == p.1) = some p := by
  induction l with
  | nil => cases hp
  | cons q qs ih =>
    rw [List.map_cons, List.nodup_cons] at h
    rcases List.mem_cons.mp hp with e | e
    · subst e; simp [List.find?_cons]
    · have hne : q.1 ≠ p.1 := by
        intro heq
        exact h.1 (by rw [heq]; exact List.mem_map_of_mem e)
      rw [List.find?_cons]
      have : (q.1 == p.1) = false := by simpa using hne
      rw [this]
      exact ih h.2 e

theorem keep_sublist {β : Type} (l : List (Nat × Option β)) :
    (l.filterMap (fun p => p.2.map (fun _ => p.1))).Sublist (l.map Prod.fst) := by
  induction l with
  | nil => simp
  | cons q qs ih =>
    obtain ⟨a, o⟩ := q
    cases o with
    | none => simpa [List.filterMap_cons] using ih.cons a
    | some y => simpa [List.filterMap_cons] using ih.cons₂ a

theorem filterMap_congr_mem {β γ : Type} (l : List β) (f g : β → Option γ) (h : ∀ a ∈ l, f a = g a) :
    l.filterMap f = l.filterMap g := by
  induction l with
  | nil => rfl
  | cons a as ih =>
    rw [List.filterMap_cons, List.filterMap_cons, h a (by simp), ih (fun b hb => h b (by simp [hb]))]

end Bpp.RangeObj
