import BppProofs.Lemmas.DiscretizeFamHistory
/-!
C09: the exponential, uniform and truncated exponential families: every history of public
operations inside the regular range keeps the object a valid partition (unconditionally: `H` is
proved from the closed forms).
-/
namespace Bpp.Discretize
open Bpp

theorem TINY_pos : (0 : ℝ) < (Constants.TINY : ℝ) := by simp [Constants.TINY]
theorem VERY_BIG_pos : (0 : ℝ) < (VERY_BIG : ℝ) := by simp [VERY_BIG, Gen.VERY_BIG]

theorem geC_zero_iff (v : ℝ) : (geC (0 : ℝ)).isCorrect v = true ↔ 0 ≤ v := by
  simp [geC, Interval.halfLine, Interval.isCorrect, Interval.isCorrectB, Bound.geb, Bound.leb, Bound.ltb]

/-- what `setP` can do: nothing (unknown name, refused value, discretisation not completed), or
`fire` -/
theorem setP_cases (orc : Parent ℝ) (f : FamSt ℝ) (name : String) (v : ℝ) :
    (setP orc f name v).st = f ∨
    ∃ slot, paramSlot f name = some slot ∧
      (paramValue f slot = v ∨ rejects f slot v = false) ∧
      (setP orc f name v).st = (stepOf f (fire orc f slot v)).st := by
  unfold setP setParameterValue
  cases hs : paramSlot f name with
  | none => left; rfl
  | some slot =>
    simp only
    by_cases hc : (!(Scalar.eqb (paramValue f slot) v) && rejects f slot v) = true
    · left; rw [if_pos hc]; rfl
    · right
      rw [if_neg hc]
      refine ⟨slot, rfl, ?_, rfl⟩
      by_cases he : paramValue f slot = v
      · exact Or.inl he
      · right
        have he' : Scalar.eqb (paramValue f slot) v = false := by
          cases hh : Scalar.eqb (paramValue f slot) v with
          | false => rfl
          | true => exact absurd ((ScalarReal.eqb_iff _ _).1 hh) he
        simpa [he'] using hc

/-! ## exponential -/

structure ExpInv (orc : Parent ℝ) (f : FamSt ℝ) : Prop where
  fam : f.fam = .exp
  rate : 0 < f.p1
  good : FamGood orc f

theorem exp_parent (orc : Parent ℝ) (f : FamSt ℝ) (h : f.fam = .exp) : f.parent orc = expParent f.p1 := by
  unfold FamSt.parent; rw [h]

theorem exp_step (orc : Parent ℝ) (f : FamSt ℝ) (op : FOp) (hreg : op.regular) (h : ExpInv orc f) :
    ExpInv orc (fstep orc f op) := by
  cases op with
  | setN n =>
    obtain ⟨⟨a, b, _⟩, _⟩ := shape_generic orc f (.setN n) trivial
    exact ⟨a.trans h.fam, by rw [b]; exact h.rate, famgood_setN orc f n hreg h.good⟩
  | setMed b' =>
    obtain ⟨⟨a, b, _⟩, _⟩ := shape_generic orc f (.setMed b') trivial
    exact ⟨a.trans h.fam, by rw [b]; exact h.rate, famgood_setMed orc f b' h.good⟩
  | rediscretize =>
    obtain ⟨⟨a, b, _⟩, _⟩ := shape_generic orc f .rediscretize trivial
    exact ⟨a.trans h.fam, by rw [b]; exact h.rate, famgood_rediscretize orc f h.good⟩
  | restrict c =>
    obtain ⟨g, _, _, p1, _, _, fm⟩ := famgood_restrict orc f c h.good
    exact ⟨fm.trans h.fam, by simp only [fstep]; rw [p1]; exact h.rate, g⟩
  | setP name v =>
    simp only [fstep]
    rcases setP_cases orc f name v with hh | ⟨slot, _, _, hh⟩
    · rw [hh]; exact h
    · rw [hh]
      have hfire : fire orc f slot v = (({ f with p1 := v } : FamSt ℝ)).discretize orc := by
        unfold fire; rw [h.fam]
      rw [hfire]
      have hv : 0 < v := hreg
      have hpar : ∀ lo hi, f.dd.dom.lo ≤ lo → lo ≤ hi → hi ≤ f.dd.dom.hi →
          ParentOK (({ f with p1 := v } : FamSt ℝ).parent orc) lo hi := by
        intro lo hi _ _ _
        rw [exp_parent orc _ (by exact h.fam)]
        exact exponential_parentOK v lo hi hv
      obtain ⟨g, sh⟩ := famgood_discretize orc f { f with p1 := v } h.good.pre h.good.scheme hpar h.good
      rcases sh with sh | ⟨d, _, sh⟩
      · rw [sh]; exact h
      · refine ⟨by rw [sh]; exact h.fam, by rw [sh]; exact hv, g⟩

theorem exp_run (orc : Parent ℝ) (f : FamSt ℝ) (ops : List FOp) (hreg : ∀ op ∈ ops, op.regular) (h : ExpInv orc f) :
    ExpInv orc (frun orc f ops) := by
  induction ops generalizing f with
  | nil => exact h
  | cons op ops ih =>
    exact ih (fstep orc f op) (fun o ho => hreg o (by simp [ho])) (exp_step orc f op (hreg op (by simp)) h)

/-- the constructor establishes the invariant -/
theorem exp_construct (orc : Parent ℝ) (n : Nat) (lam : ℝ) (f : FamSt ℝ) (hn : 1 ≤ n) (hl : 0 < lam)
    (h : construct orc .exp n lam 0 0 false 1 = .ok f) : ExpInv orc f := by
  unfold construct at h
  simp only at h
  split at h
  · simp at h
  · unfold FamSt.discretize at h
    simp only [bind, Except.bind, pure, Except.pure] at h
    split at h
    · simp at h
    · rename_i d hd
      injection h with h; subst h
      have hpar0 : FamSt.parent orc
          { fam := .exp, p1 := lam, p2 := Scalar.zero, p3 := Scalar.zero, hasOffset := false, tpTied := false,
            dd := freshDD n Constants.TINY 1 ((Dom.full).setLowerBound Scalar.zero true) } = expParent lam := rfl
      rw [hpar0] at hd
      have hpre : Pre (freshDD n (Constants.TINY : ℝ) 1 ((Dom.full).setLowerBound Scalar.zero true)) :=
        ⟨hn, TINY_pos.le, by simp [freshDD, Dom.setLowerBound, Dom.full]; exact VERY_BIG_pos.le⟩
      obtain ⟨hv, e5, e6, e7, _, e9⟩ := discretize_valid (expParent lam) _ d hpre
        (exponential_parentOK lam _ _ hl) (fun hh => absurd rfl hh) hd
      refine ⟨rfl, hl, ⟨by rw [e5]; exact hpre.n_pos, by rw [e7]; exact hpre.prec_nonneg, by rw [e6]; exact hpre.dom_ordered⟩,
        hv, by rw [e9]; rfl, ?_⟩
      intro lo hi _ _ _
      exact exponential_parentOK lam lo hi hl

/-! ## uniform -/

structure UnifInv (orc : Parent ℝ) (f : FamSt ℝ) : Prop where
  fam : f.fam = .unif
  width : f.p1 < f.p2
  lo : f.p1 ≤ f.dd.dom.lo
  hi : f.dd.dom.hi ≤ f.p2
  good : FamGood orc f

theorem unif_step (orc : Parent ℝ) (f : FamSt ℝ) (op : FOp) (hreg : op.regular) (h : UnifInv orc f) :
    UnifInv orc (fstep orc f op) := by
  cases op with
  | setN n =>
    obtain ⟨⟨a, b, c, _⟩, d, _⟩ := shape_generic orc f (.setN n) trivial
    exact ⟨a.trans h.fam, by rw [b, c]; exact h.width, by rw [b, d]; exact h.lo, by rw [c, d]; exact h.hi, famgood_setN orc f n hreg h.good⟩
  | setMed b' =>
    obtain ⟨⟨a, b, c, _⟩, d, _⟩ := shape_generic orc f (.setMed b') trivial
    exact ⟨a.trans h.fam, by rw [b, c]; exact h.width, by rw [b, d]; exact h.lo, by rw [c, d]; exact h.hi, famgood_setMed orc f b' h.good⟩
  | rediscretize =>
    obtain ⟨⟨a, b, c, _⟩, d, _⟩ := shape_generic orc f .rediscretize trivial
    exact ⟨a.trans h.fam, by rw [b, c]; exact h.width, by rw [b, d]; exact h.lo, by rw [c, d]; exact h.hi, famgood_rediscretize orc f h.good⟩
  | restrict c =>
    obtain ⟨g, dl, dh, p1, p2, _, fm⟩ := famgood_restrict orc f c h.good
    simp only [fstep]
    exact ⟨fm.trans h.fam, by rw [p1, p2]; exact h.width, by rw [p1]; exact h.lo.trans dl, by rw [p2]; exact dh.trans h.hi, g⟩
  | setP name v =>
    simp only [fstep]
    rcases setP_cases orc f name v with hh | ⟨slot, _, _, hh⟩
    · rw [hh]; exact h
    · rw [hh]
      have hfire : fire orc f slot v = .ok f := by unfold fire; rw [h.fam]
      rw [hfire]; exact h

theorem unif_run (orc : Parent ℝ) (f : FamSt ℝ) (ops : List FOp) (hreg : ∀ op ∈ ops, op.regular) (h : UnifInv orc f) :
    UnifInv orc (frun orc f ops) := by
  induction ops generalizing f with
  | nil => exact h
  | cons op ops ih =>
    exact ih (fstep orc f op) (fun o ho => hreg o (by simp [ho])) (unif_step orc f op (hreg op (by simp)) h)

theorem unif_construct (orc : Parent ℝ) (n : Nat) (a b : ℝ) (f : FamSt ℝ) (hn : 1 ≤ n) (hab : a ≠ b)
    (h : construct orc .unif n a b 0 false 1 = .ok f) : UnifInv orc f := by
  unfold construct at h
  simp only at h
  unfold FamSt.discretize at h
  simp only [bind, Except.bind, pure, Except.pure] at h
  split at h
  · simp at h
  · rename_i d hd
    injection h with h; subst h
    set mn : ℝ := if Scalar.ltb a b then a else b with hmn
    set mx : ℝ := if Scalar.ltb a b then b else a with hmx
    have hw : mn < mx := by
      simp only [hmn, hmx, ScalarReal.ltb_iff]
      rcases lt_or_gt_of_ne hab with h1 | h1
      · simp [h1]
      · simp [not_lt.2 h1.le, h1]
    have hpar0 : FamSt.parent orc
        { fam := .unif, p1 := mn, p2 := mx, p3 := Scalar.zero, hasOffset := false, tpTied := false,
          dd := freshDD n Constants.TINY 1 (((Dom.full).setLowerBound mn false).setUpperBound mx false) } = unifParent mn mx := rfl
    rw [hpar0] at hd
    have hpre : Pre (freshDD n (Constants.TINY : ℝ) 1 (((Dom.full).setLowerBound mn false).setUpperBound mx false)) :=
      ⟨hn, TINY_pos.le, by simp [freshDD, Dom.setLowerBound, Dom.setUpperBound, Dom.full]; exact hw.le⟩
    obtain ⟨hv, e5, e6, e7, _, e9⟩ := discretize_valid (unifParent mn mx) _ d hpre
      (uniform_parentOK mn mx _ _ hw le_rfl le_rfl hw.le) (fun hh => absurd rfl hh) hd
    refine ⟨rfl, hw, by rw [e6]; exact le_rfl, by rw [e6]; exact le_rfl,
      ⟨by rw [e5]; exact hpre.n_pos, by rw [e7]; exact hpre.prec_nonneg, by rw [e6]; exact hpre.dom_ordered⟩,
      hv, by rw [e9]; rfl, ?_⟩
    intro lo hi h1 h2 h3
    rw [e6] at h1 h3
    exact uniform_parentOK mn mx lo hi hw h1 h3 h2

end Bpp.Discretize
