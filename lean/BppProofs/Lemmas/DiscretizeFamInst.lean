import BppProofs.Lemmas.DiscretizeFamHistory
/-!
C09: the exponential, uniform and truncated exponential families: every history of public
operations inside the regular range keeps the object a valid partition (unconditionally: `H` is
proved from the closed forms).
-/
namespace Bpp.Discretize
open Bpp

theorem TINY_pos : (0 : ℝ) < (Constants.TINY : ℝ) := by simp [Constants.TINY]
theorem VERY_BIG_pos : (0 : ℝ) < (VERY_BIG : ℝ) := by simp [VERY_BIG, Gen.VERY_BIG]

theorem geC_zero_iff (v : ℝ) : (geC (0 : ℝ)).isCorrect v = true ↔ 0 ≤ v := by
  simp [geC, Interval.halfLine, Interval.isCorrect, Interval.isCorrectB, Bound.geb, Bound.leb, Bound.ltb]

/-- what `setP` can do: nothing (unknown name, refused value, discretisation not completed), or
`fire` -/
theorem setP_cases (orc : Parent ℝ) (f : FamSt ℝ) (name : String) (v : ℝ) :
    (setP orc f name v).st = f ∨
    ∃ slot, paramSlot f name = some slot ∧
      (paramValue f slot = v ∨ rejects f slot v = false) ∧
      (setP orc f name v).st = (stepOf f (fire orc f slot v)).st := by
  unfold setP setParameterValue
  cases hs : paramSlot f name with
  | none => left; rfl
  | some slot =>
    simp only
    by_cases hc : (!(Scalar.eqb (paramValue f slot) v) && rejects f slot v) = true
    · left; rw [if_pos hc]; rfl
    · right
      rw [if_neg hc]
      refine ⟨slot, rfl, ?_, rfl⟩
      by_cases he : paramValue f slot = v
      · exact Or.inl he
      · right
        have he' : Scalar.eqb (paramValue f slot) v = false := by
          cases hh : Scalar.eqb (paramValue f slot) v with
          | false => rfl
          | true => exact absurd ((ScalarReal.eqb_iff _ _).1 hh) he
        simpa [he'] using hc

/-! ## exponential -/

structure ExpInv (orc : Parent ℝ) (f : FamSt ℝ) : Prop where
  fam : f.fam = .exp
  rate : 0 < f.p1
  good : FamGood orc f

theorem exp_parent (orc : Parent ℝ) (f : FamSt ℝ) (h : f.fam = .exp) : f.parent orc = expParent f.p1 := by
  unfold FamSt.parent; rw [h]

theorem exp_step (orc : Parent ℝ) (f : FamSt ℝ) (op : FOp) (hreg : op.regular) (h : ExpInv orc f) :
    ExpInv orc (fstep orc f op) := by
  cases op with
  | setN n =>
    obtain ⟨⟨a, b, _⟩, _⟩ := shape_generic orc f (.setN n) trivial
    exact ⟨a.trans h.fam, by rw [b]; exact h.rate, famgood_setN orc f n hreg h.good⟩
  | setMed b' =>
    obtain ⟨⟨a, b, _⟩, _⟩ := shape_generic orc f (.setMed b') trivial
    exact ⟨a.trans h.fam, by rw [b]; exact h.rate, famgood_setMed orc f b' h.good⟩
  | rediscretize =>
    obtain ⟨⟨a, b, _⟩, _⟩ := shape_generic orc f .rediscretize trivial
    exact ⟨a.trans h.fam, by rw [b]; exact h.rate, famgood_rediscretize orc f h.good⟩
  | restrict c =>
    obtain ⟨g, _, _, p1, _, _, fm⟩ := famgood_restrict orc f c h.good
    exact ⟨fm.trans h.fam, by simp only [fstep]; rw [p1]; exact h.rate, g⟩
  | setP name v =>
    simp only [fstep]
    rcases setP_cases orc f name v with hh | ⟨slot, _, _, hh⟩
    · rw [hh]; exact h
    · rw [hh]
      have hfire : fire orc f slot v = (({ f with p1 := v } : FamSt ℝ)).discretize orc := by
        unfold fire; rw [h.fam]
      rw [hfire]
      have hv : 0 < v := hreg
      have hpar : ∀ lo hi, f.dd.dom.lo ≤ lo → lo ≤ hi → hi ≤ f.dd.dom.hi →
          ParentOK (({ f with p1 := v } : FamSt ℝ).parent orc) lo hi := by
        intro lo hi _ _ _
        rw [exp_parent orc _ (by exact h.fam)]
        exact exponential_parentOK v lo hi hv
      obtain ⟨g, sh⟩ := famgood_discretize orc f { f with p1 := v } h.good.pre h.good.scheme hpar h.good
      rcases sh with sh | ⟨d, _, sh⟩
      · rw [sh]; exact h
      · refine ⟨by rw [sh]; exact h.fam, by rw [sh]; exact hv, g⟩

theorem exp_run (orc : Parent ℝ) (f : FamSt ℝ) (ops : List FOp) (hreg : ∀ op ∈ ops, op.regular) (h : ExpInv orc f) :
    ExpInv orc (frun orc f ops) := by
  induction ops generalizing f with
  | nil => exact h
  | cons op ops ih =>
    exact ih (fstep orc f op) (fun o ho => hreg o (by simp [ho])) (exp_step orc f op (hreg op (by simp)) h)

/-- the constructor establishes the invariant -/
theorem exp_construct (orc : Parent ℝ) (n : Nat) (lam : ℝ) (f : FamSt ℝ) (hn : 1 ≤ n) (hl : 0 < lam)
    (h : construct orc .exp n lam 0 0 false 1 = .ok f) : ExpInv orc f := by
  unfold construct at h
  simp only at h
  split at h
  · simp at h
  · unfold FamSt.discretize at h
    simp only [bind, Except.bind, pure, Except.pure] at h
    split at h
    · simp at h
    · rename_i d hd
      injection h with h; subst h
      have hpar0 : FamSt.parent orc
          { fam := .exp, p1 := lam, p2 := Scalar.zero, p3 := Scalar.zero, hasOffset := false, tpTied := false,
            dd := freshDD n Constants.TINY 1 ((Dom.full).setLowerBound Scalar.zero true) } = expParent lam := rfl
      rw [hpar0] at hd
      have hpre : Pre (freshDD n (Constants.TINY : ℝ) 1 ((Dom.full).setLowerBound Scalar.zero true)) :=
        ⟨hn, TINY_pos.le, by simp [freshDD, Dom.setLowerBound, Dom.full]; exact VERY_BIG_pos.le⟩
      obtain ⟨hv, e5, e6, e7, _, e9⟩ := discretize_valid (expParent lam) _ d hpre
        (exponential_parentOK lam _ _ hl) hd
      refine ⟨rfl, hl, ⟨by rw [e5]; exact hpre.n_pos, by rw [e7]; exact hpre.prec_nonneg, by rw [e6]; exact hpre.dom_ordered⟩,
        hv, by rw [e9]; rfl, ?_⟩
      intro lo hi _ _ _
      exact exponential_parentOK lam lo hi hl

/-! ## uniform -/

structure UnifInv (orc : Parent ℝ) (f : FamSt ℝ) : Prop where
  fam : f.fam = .unif
  width : f.p1 < f.p2
  lo : f.p1 ≤ f.dd.dom.lo
  hi : f.dd.dom.hi ≤ f.p2
  good : FamGood orc f

theorem unif_step (orc : Parent ℝ) (f : FamSt ℝ) (op : FOp) (hreg : op.regular) (h : UnifInv orc f) :
    UnifInv orc (fstep orc f op) := by
  cases op with
  | setN n =>
    obtain ⟨⟨a, b, c, _⟩, d, _⟩ := shape_generic orc f (.setN n) trivial
    exact ⟨a.trans h.fam, by rw [b, c]; exact h.width, by rw [b, d]; exact h.lo, by rw [c, d]; exact h.hi, famgood_setN orc f n hreg h.good⟩
  | setMed b' =>
    obtain ⟨⟨a, b, c, _⟩, d, _⟩ := shape_generic orc f (.setMed b') trivial
    exact ⟨a.trans h.fam, by rw [b, c]; exact h.width, by rw [b, d]; exact h.lo, by rw [c, d]; exact h.hi, famgood_setMed orc f b' h.good⟩
  | rediscretize =>
    obtain ⟨⟨a, b, c, _⟩, d, _⟩ := shape_generic orc f .rediscretize trivial
    exact ⟨a.trans h.fam, by rw [b, c]; exact h.width, by rw [b, d]; exact h.lo, by rw [c, d]; exact h.hi, famgood_rediscretize orc f h.good⟩
  | restrict c =>
    obtain ⟨g, dl, dh, p1, p2, _, fm⟩ := famgood_restrict orc f c h.good
    simp only [fstep]
    exact ⟨fm.trans h.fam, by rw [p1, p2]; exact h.width, by rw [p1]; exact h.lo.trans dl, by rw [p2]; exact dh.trans h.hi, g⟩
  | setP name v =>
    simp only [fstep]
    rcases setP_cases orc f name v with hh | ⟨slot, _, _, hh⟩
    · rw [hh]; exact h
    · rw [hh]
      have hfire : fire orc f slot v = .ok f := by unfold fire; rw [h.fam]
      rw [hfire]; exact h

theorem unif_run (orc : Parent ℝ) (f : FamSt ℝ) (ops : List FOp) (hreg : ∀ op ∈ ops, op.regular) (h : UnifInv orc f) :
    UnifInv orc (frun orc f ops) := by
  induction ops generalizing f with
  | nil => exact h
  | cons op ops ih =>
    exact ih (fstep orc f op) (fun o ho => hreg o (by simp [ho])) (unif_step orc f op (hreg op (by simp)) h)

theorem unif_construct (orc : Parent ℝ) (n : Nat) (a b : ℝ) (f : FamSt ℝ) (hn : 1 ≤ n) (hab : a ≠ b)
    (h : construct orc .unif n a b 0 false 1 = .ok f) : UnifInv orc f := by
  unfold construct at h
  simp only at h
  unfold FamSt.discretize at h
  simp only [bind, Except.bind, pure, Except.pure] at h
  split at h
  · simp at h
  · rename_i d hd
    injection h with h; subst h
    set mn : ℝ := if Scalar.ltb a b then a else b with hmn
    set mx : ℝ := if Scalar.ltb a b then b else a with hmx
    have hw : mn < mx := by
      simp only [hmn, hmx, ScalarReal.ltb_iff]
      rcases lt_or_gt_of_ne hab with h1 | h1
      · simp [h1]
      · simp [not_lt.2 h1.le, h1]
    have hpar0 : FamSt.parent orc
        { fam := .unif, p1 := mn, p2 := mx, p3 := Scalar.zero, hasOffset := false, tpTied := false,
          dd := freshDD n Constants.TINY 1 (((Dom.full).setLowerBound mn false).setUpperBound mx false) } = unifParent mn mx := rfl
    rw [hpar0] at hd
    have hpre : Pre (freshDD n (Constants.TINY : ℝ) 1 (((Dom.full).setLowerBound mn false).setUpperBound mx false)) :=
      ⟨hn, TINY_pos.le, by simp [freshDD, Dom.setLowerBound, Dom.setUpperBound, Dom.full]; exact hw.le⟩
    obtain ⟨hv, e5, e6, e7, _, e9⟩ := discretize_valid (unifParent mn mx) _ d hpre
      (uniform_parentOK mn mx _ _ hw le_rfl le_rfl hw.le) hd
    refine ⟨rfl, hw, by rw [e6]; exact le_rfl, by rw [e6]; exact le_rfl,
      ⟨by rw [e5]; exact hpre.n_pos, by rw [e7]; exact hpre.prec_nonneg, by rw [e6]; exact hpre.dom_ordered⟩,
      hv, by rw [e9]; rfl, ?_⟩
    intro lo hi h1 h2 h3
    rw [e6] at h1 h3
    exact uniform_parentOK mn mx lo hi hw h1 h3 h2


/-! ## truncated exponential -/

structure TexpInv (orc : Parent ℝ) (f : FamSt ℝ) : Prop where
  fam : f.fam = .texp
  rate : 0 < f.p1
  tp : 0 < f.p2
  cond : f.p3 = texpCond f.p1 f.p2
  hi : f.dd.dom.hi ≤ f.p2
  tpIn : f.dd.dom.isCorrect f.p2 = true
  lo0 : f.tpTied = false → f.dd.dom.lo = 0
  good : FamGood orc f

theorem texp_slot (f : FamSt ℝ) (name : String) (slot : Nat) (hfam : f.fam = .texp) (h : paramSlot f name = some slot) :
    slot = 1 ∨ slot = 2 := by
  unfold paramSlot at h
  rw [hfam] at h
  split at h <;> simp_all

theorem texp_parent (orc : Parent ℝ) (f : FamSt ℝ) (h : f.fam = .texp) : f.parent orc = texpParent f.p1 f.p2 f.p3 := by
  unfold FamSt.parent; rw [h]

/-- what a restriction of a truncated exponential can leave -/
theorem texp_restrict_cases (orc : Parent ℝ) (f : FamSt ℝ) (c : Interval ℝ) (hfam : f.fam = .texp)
    (htp : f.dd.dom.isCorrect f.p2 = true) :
    (restrict orc f c).st = f ∨
    ∃ d', (restrict orc f c).st = { f with dd := d', tpTied := true } ∧ d'.dom.isCorrect f.p2 = true := by
  unfold restrict
  split
  · left; rfl
  · rename_i hpre
    have hc : c.isCorrect f.p2 = true := by
      simp only [hfam, beq_self_eq_true, Bool.true_and, Bool.not_eq_true', Bool.not_eq_false] at hpre
      cases hh : c.isCorrect f.p2 with
      | true => rfl
      | false => simp [hh] at hpre
    cases hr : restrictToConstraint (f.parent orc) f.dd c with
    | error e => left; rfl
    | ok d =>
      simp only [hfam]
      have hd : d.dom.isCorrect f.p2 = true := by
        unfold restrictToConstraint at hr
        cases hrd : restrictDom f.dd.dom c with
        | error e => simp [hrd, bind, Except.bind] at hr
        | ok dc =>
          obtain ⟨dm, ch⟩ := dc
          obtain ⟨_, _, _, _, hiff, _⟩ := (restrictDom_spec f.dd.dom c).2 dm ch hrd
          simp only [hrd, bind, Except.bind] at hr
          cases ch with
          | false =>
            simp only [Bool.false_eq_true, if_false] at hr
            injection hr with hr; subst hr; exact htp
          | true =>
            simp only [if_true] at hr
            have := (discretize_cfg _ _ _ hr).2.1
            rw [this]
            exact (hiff f.p2).2 ⟨htp, hc⟩
      right
      exact ⟨d, by simp [hd], hd⟩

theorem texp_step (orc : Parent ℝ) (f : FamSt ℝ) (op : FOp) (hreg : op.regular) (h : TexpInv orc f) :
    TexpInv orc (fstep orc f op) := by
  have hgen : ∀ op', (match op' with | FOp.setN _ => True | .setMed _ => True | .rediscretize => True | _ => False) →
      FamGood orc (fstep orc f op') → TexpInv orc (fstep orc f op') := by
    intro op' hop hg
    obtain ⟨⟨a, b, c, d, _⟩, e, t⟩ := shape_generic orc f op' hop
    exact ⟨a.trans h.fam, by rw [b]; exact h.rate, by rw [c]; exact h.tp, by rw [d, b, c]; exact h.cond,
      by rw [e, c]; exact h.hi, by rw [e, c]; exact h.tpIn, by rw [t, e]; exact h.lo0, hg⟩
  cases op with
  | setN n => exact hgen (.setN n) trivial (famgood_setN orc f n hreg h.good)
  | setMed b => exact hgen (.setMed b) trivial (famgood_setMed orc f b h.good)
  | rediscretize => exact hgen .rediscretize trivial (famgood_rediscretize orc f h.good)
  | restrict c =>
    obtain ⟨g, dl, dh, p1, p2, p3, fm⟩ := famgood_restrict orc f c h.good
    simp only [fstep]
    rcases texp_restrict_cases orc f c h.fam h.tpIn with hh | ⟨d', hh, hin⟩
    · rw [hh]; exact h
    · refine ⟨fm.trans h.fam, by rw [p1]; exact h.rate, by rw [p2]; exact h.tp, by rw [p3, p1, p2]; exact h.cond,
        by rw [p2]; exact dh.trans h.hi, ?_, ?_, g⟩
      · rw [hh]; exact hin
      · rw [hh]; intro hf; simp at hf
  | setP name v =>
    simp only [fstep]
    have hv : 0 < v := hreg
    rcases setP_cases orc f name v with hh | ⟨slot, hslot, hacc, hh⟩
    · rw [hh]; exact h
    · rw [hh]
      rcases texp_slot f name slot h.fam hslot with rfl | rfl
      · -- lambda := v
        have hfire : fire orc f 1 v = FamSt.discretize orc { f with p1 := v, p3 := texpCond v f.p2, dd := { f.dd with dom := f.dd.dom.setUpperBound f.p2 false } } := by
          unfold fire; rw [h.fam]; rfl
        rw [hfire]
        have hlo : f.dd.dom.lo ≤ f.p2 := by
          have := (dom_isCorrect_iff f.dd.dom f.p2).1 h.tpIn
          cases hi : f.dd.dom.inclLo <;> simp [hi] at this <;> linarith [this.1]
        set g : FamSt ℝ := { f with p1 := v, p3 := texpCond v f.p2, dd := { f.dd with dom := f.dd.dom.setUpperBound f.p2 false } } with hgdef
        have hpre : Pre g.dd := ⟨h.good.pre.n_pos, h.good.pre.prec_nonneg, hlo⟩
        have hpar : ∀ lo hi, g.dd.dom.lo ≤ lo → lo ≤ hi → hi ≤ g.dd.dom.hi → ParentOK (g.parent orc) lo hi := by
          intro lo hi _ h2 h3
          rw [texp_parent orc g h.fam]
          exact truncated_exponential_parentOK v f.p2 lo hi hv h.tp h2 h3
        obtain ⟨gg, sh⟩ := famgood_discretize orc f g hpre h.good.scheme hpar h.good
        rcases sh with sh | ⟨d, hd, sh⟩
        · rw [sh]; exact h
        · rw [sh]
          have hdom : d.dom = f.dd.dom.setUpperBound f.p2 false := hd
          refine ⟨h.fam, hv, h.tp, rfl, ?_, ?_, ?_, by rw [← sh]; exact gg⟩
          · show d.dom.hi ≤ f.p2
            simp [hdom, Dom.setUpperBound]
          · show d.dom.isCorrect f.p2 = true
            have := (dom_isCorrect_iff f.dd.dom f.p2).1 h.tpIn
            rw [hdom, dom_isCorrect_iff]
            simp only [Dom.setUpperBound, Bool.not_false, if_true, le_refl, and_true]
            exact this.1
          · show f.tpTied = false → d.dom.lo = 0
            intro ht; simp only [hdom, Dom.setUpperBound]; exact h.lo0 ht
      · -- tp := v
        have hfire : fire orc f 2 v = FamSt.discretize orc { f with p2 := v, p3 := texpCond f.p1 v, dd := { f.dd with dom := f.dd.dom.setUpperBound v false } } := by
          unfold fire; rw [h.fam]; rfl
        rw [hfire]
        -- the accepted value lies in the domain (up to its upper end)
        have hin : (if f.dd.dom.inclLo then f.dd.dom.lo ≤ v else f.dd.dom.lo < v) := by
          rcases hacc with he | hr
          · have he' : f.p2 = v := by simpa [paramValue, h.fam] using he
            rw [← he']
            exact ((dom_isCorrect_iff f.dd.dom f.p2).1 h.tpIn).1
          · simp only [rejects, paramConstraint, h.fam] at hr
            by_cases ht : f.tpTied = true
            · simp only [ht, if_true, Bool.not_eq_false'] at hr
              exact ((dom_isCorrect_iff f.dd.dom v).1 hr).1
            · have ht' : f.tpTied = false := by simpa using ht
              have := h.lo0 ht'
              rw [this]
              cases f.dd.dom.inclLo <;> simp [hv, hv.le]
        have hlo : f.dd.dom.lo ≤ v := by
          cases hi : f.dd.dom.inclLo <;> simp [hi] at hin <;> linarith
        set g : FamSt ℝ := { f with p2 := v, p3 := texpCond f.p1 v, dd := { f.dd with dom := f.dd.dom.setUpperBound v false } } with hgdef
        have hpre : Pre g.dd := ⟨h.good.pre.n_pos, h.good.pre.prec_nonneg, hlo⟩
        have hpar : ∀ lo hi, g.dd.dom.lo ≤ lo → lo ≤ hi → hi ≤ g.dd.dom.hi → ParentOK (g.parent orc) lo hi := by
          intro lo hi _ h2 h3
          rw [texp_parent orc g h.fam]
          exact truncated_exponential_parentOK f.p1 v lo hi h.rate hv h2 h3
        obtain ⟨gg, sh⟩ := famgood_discretize orc f g hpre h.good.scheme hpar h.good
        rcases sh with sh | ⟨d, hd, sh⟩
        · rw [sh]; exact h
        · rw [sh]
          have hdom : d.dom = f.dd.dom.setUpperBound v false := hd
          refine ⟨h.fam, h.rate, hv, rfl, ?_, ?_, ?_, by rw [← sh]; exact gg⟩
          · show d.dom.hi ≤ v
            simp [hdom, Dom.setUpperBound]
          · show d.dom.isCorrect v = true
            rw [hdom, dom_isCorrect_iff]
            simp only [Dom.setUpperBound, Bool.not_false, if_true, le_refl, and_true]
            exact hin
          · show f.tpTied = false → d.dom.lo = 0
            intro ht; simp only [hdom, Dom.setUpperBound]; exact h.lo0 ht

theorem texp_run (orc : Parent ℝ) (f : FamSt ℝ) (ops : List FOp) (hreg : ∀ op ∈ ops, op.regular) (h : TexpInv orc f) :
    TexpInv orc (frun orc f ops) := by
  induction ops generalizing f with
  | nil => exact h
  | cons op ops ih =>
    exact ih (fstep orc f op) (fun o ho => hreg o (by simp [ho])) (texp_step orc f op (hreg op (by simp)) h)


theorem texp_construct (orc : Parent ℝ) (n : Nat) (lam tp : ℝ) (f : FamSt ℝ) (hn : 1 ≤ n) (hl : 0 < lam) (ht : 0 < tp)
    (h : construct orc .texp n lam tp 0 false 1 = .ok f) : TexpInv orc f := by
  unfold construct at h
  simp only at h
  split at h
  · simp at h
  · unfold FamSt.discretize at h
    simp only [bind, Except.bind, pure, Except.pure] at h
    split at h
    · simp at h
    · rename_i d hd
      injection h with h; subst h
      have hpar0 : FamSt.parent orc
          { fam := .texp, p1 := lam, p2 := tp, p3 := texpCond lam tp, hasOffset := false, tpTied := false,
            dd := freshDD n Constants.TINY 1 (((Dom.full).setLowerBound Scalar.zero true).setUpperBound tp false) }
          = texpParent lam tp (texpCond lam tp) := rfl
      rw [hpar0] at hd
      have hdom : (freshDD n (Constants.TINY : ℝ) 1 (((Dom.full).setLowerBound Scalar.zero true).setUpperBound tp false)).dom
          = ⟨0, tp, false, true, Constants.TINY⟩ := by
        simp [freshDD, Dom.setLowerBound, Dom.setUpperBound, Dom.full]
      have hpre : Pre (freshDD n (Constants.TINY : ℝ) 1 (((Dom.full).setLowerBound Scalar.zero true).setUpperBound tp false)) :=
        ⟨hn, TINY_pos.le, by rw [hdom]; exact ht.le⟩
      obtain ⟨hv, e5, e6, e7, _, e9⟩ := discretize_valid (texpParent lam tp (texpCond lam tp)) _ d hpre
        (by rw [hdom]; exact truncated_exponential_parentOK lam tp 0 tp hl ht ht.le le_rfl) hd
      have e6' : d.dom = ⟨0, tp, false, true, Constants.TINY⟩ := by rw [e6, hdom]
      refine ⟨rfl, hl, ht, rfl, ?_, ?_, ?_,
        ⟨by rw [e5]; exact hpre.n_pos, by rw [e7]; exact hpre.prec_nonneg, by rw [e6]; exact hpre.dom_ordered⟩,
        hv, by rw [e9]; rfl, ?_⟩
      · show d.dom.hi ≤ tp; rw [e6']
      · show d.dom.isCorrect tp = true
        rw [e6', dom_isCorrect_iff]; simp [ht]
      · intro _; show d.dom.lo = 0; rw [e6']
      · intro lo hi h1 h2 h3
        show ParentOK (texpParent lam tp (texpCond lam tp)) lo hi
        rw [e6'] at h3
        exact truncated_exponential_parentOK lam tp lo hi hl ht h2 h3

end Bpp.Discretize
