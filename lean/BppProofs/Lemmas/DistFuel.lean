import BppModel.Text.DistU
import BppProofs.Lemmas.Number
/-! The fuel of `nestedDists` (`BppModel/Text/DistU.lean`): the loop
`while (args.find("dist" + toString(++nbd)) != args.end())` is ended by a missing key, never by the
fuel `args.length + 1` that `mixtureStage` gives it.  The keys `dist1`, `dist2`, … are pairwise
different and each one that is found is the key of an entry of the map: pigeonhole. -/
namespace Bpp.Text.U
open Bpp.Text Bpp.Text.Keyval

/-- the key the `k`-th round looks for -/
def distKey (k : Nat) : Str := "dist".toList ++ Number.natDigits k

theorem natDigits_inj {a b : Nat} (h : Number.natDigits a = Number.natDigits b) : a = b := by
  have ha := (Number.natDigits_spec a).2.2
  have hb := (Number.natDigits_spec b).2.2
  rw [h] at ha; omega

theorem distKey_inj {a b : Nat} (h : distKey a = distKey b) : a = b :=
  natDigits_inj (List.append_cancel_left h)

/-! ### pigeonhole on the keys of a map -/

/-- removing one value from a list without repetition removes at most one element -/
theorem length_le_filter_ne_succ (a : Str) (ks : List Str) (hn : ks.Nodup) :
    ks.length ≤ (ks.filter (fun k => k != a)).length + 1 := by
  induction ks with
  | nil => simp
  | cons x xs ih =>
    rw [List.nodup_cons] at hn
    by_cases hx : x = a
    · subst hx
      have hself : xs.filter (fun k => k != x) = xs := by
        rw [List.filter_eq_self]
        intro k hk
        simp only [bne_iff_ne, ne_eq]
        intro hkx; subst hkx; exact hn.1 hk
      simp [hself]
    · have hb : (x != a) = true := by simpa using hx
      simp only [List.filter_cons, hb, if_true, List.length_cons]
      have := ih hn.2
      omega

/-- **pigeonhole**: pairwise different keys that are all found in a map are not more than its
entries -/
theorem found_keys_le (m : Map) : ∀ (ks : List Str), ks.Nodup →
    (∀ k ∈ ks, mapFind k m ≠ none) → ks.length ≤ m.length := by
  induction m with
  | nil =>
    intro ks _ hf
    cases ks with
    | nil => simp
    | cons k r => exact absurd rfl (hf k (by simp))
  | cons e m ih =>
    intro ks hn hf
    obtain ⟨k', v'⟩ := e
    have h1 := length_le_filter_ne_succ k' ks hn
    have h2 : (ks.filter (fun k => k != k')).length ≤ m.length := by
      apply ih
      · exact hn.filter _
      · intro k hk
        rw [List.mem_filter] at hk
        have hne : (k == k') = false := by
          have := hk.2
          simp only [bne_iff_ne, ne_eq] at this
          simpa using this
        have := hf k hk.1
        simpa only [mapFind, hne, if_false, Bool.false_eq_true] using this
    simp only [List.length_cons]
    omega

/-- among `dist<k>`, …, `dist<k + m.length>` one key is missing -/
theorem exists_missing (m : Map) (k : Nat) :
    ∃ j, j < m.length + 1 ∧ mapFind (distKey (k + j)) m = none := by
  apply Classical.byContradiction
  intro hno
  have hall : ∀ j, j < m.length + 1 → mapFind (distKey (k + j)) m ≠ none := by
    intro j hj hnone
    exact hno ⟨j, hj, hnone⟩
  have hn : ((List.range (m.length + 1)).map (fun j => distKey (k + j))).Nodup := by
    rw [List.nodup_iff_pairwise_ne, List.pairwise_map]
    refine List.Pairwise.imp ?_ (List.nodup_iff_pairwise_ne.mp List.nodup_range)
    intro a b hab he
    have := distKey_inj he
    omega
  have hle := found_keys_le m _ hn (by
    intro key hk
    rw [List.mem_map] at hk
    obtain ⟨j, hj, rfl⟩ := hk
    exact hall j (List.mem_range.mp hj))
  simp only [List.length_map, List.length_range] at hle
  omega

/-! ### the fuel -/

/-- more fuel than the distance to the first missing key changes nothing -/
theorem nestedDists_fuel_irrel (args : Map) : ∀ (fuel k : Nat),
    (∃ j, j < fuel ∧ mapFind (distKey (k + j)) args = none) →
    ∀ fuel', fuel ≤ fuel' → nestedDists args fuel' k = nestedDists args fuel k := by
  intro fuel
  induction fuel with
  | zero => intro k ⟨j, hj, _⟩; omega
  | succ fuel ih =>
    intro k ⟨j, hj, hnone⟩ fuel' hle
    cases fuel' with
    | zero => omega
    | succ f' =>
      simp only [nestedDists]
      cases hfind : mapFind ("dist".toList ++ Number.natDigits k) args with
      | none => rfl
      | some d =>
        simp only
        congr 1
        apply ih (k + 1) _ f' (by omega)
        cases j with
        | zero =>
          rw [Nat.add_zero] at hnone
          unfold distKey at hnone
          rw [hnone] at hfind; cases hfind
        | succ j' =>
          refine ⟨j', by omega, ?_⟩
          rw [← hnone]; congr 2; omega

/-- **the fuel `mixtureStage` gives always suffices**: the loop is ended by a missing key
`dist<k>`, never by the fuel -/
theorem nestedDists_fuel_suffices_lem (args : Map) (fuel : Nat) (h : args.length + 1 ≤ fuel) :
    nestedDists args fuel 1 = nestedDists args (args.length + 1) 1 :=
  nestedDists_fuel_irrel args (args.length + 1) 1 (exists_missing args 1) fuel h

/-- the result has at most one description per entry of the map -/
theorem nestedDists_length_le (args : Map) : ∀ (fuel k : Nat),
    (nestedDists args fuel k).length ≤ fuel := by
  intro fuel
  induction fuel with
  | zero => intro k; simp [nestedDists]
  | succ fuel ih =>
    intro k
    simp only [nestedDists]
    split
    · simp
    · simp only [List.length_cons]; have := ih (k + 1); omega

/-- with enough fuel the loop stops on a missing key: the key after the last description -/
theorem nestedDists_stops_missing (args : Map) : ∀ (fuel k : Nat),
    (∃ j, j < fuel ∧ mapFind (distKey (k + j)) args = none) →
    mapFind (distKey (k + (nestedDists args fuel k).length)) args = none := by
  intro fuel
  induction fuel with
  | zero => intro k ⟨j, hj, _⟩; omega
  | succ fuel ih =>
    intro k ⟨j, hj, hnone⟩
    simp only [nestedDists]
    cases hfind : mapFind ("dist".toList ++ Number.natDigits k) args with
    | none => simpa [distKey] using hfind
    | some d =>
      simp only [List.length_cons]
      have hj' : ∃ j, j < fuel ∧ mapFind (distKey (k + 1 + j)) args = none := by
        cases j with
        | zero =>
          rw [Nat.add_zero] at hnone
          unfold distKey at hnone
          rw [hnone] at hfind; cases hfind
        | succ j' =>
          refine ⟨j', by omega, ?_⟩
          rw [← hnone]; congr 2; omega
      have := ih (k + 1) hj'
      rw [← this]; congr 2; omega

/-- every description returned is the value of its key -/
theorem nestedDists_getElem? (args : Map) : ∀ (fuel k i : Nat) (d : Str),
    (nestedDists args fuel k)[i]? = some d → mapFind (distKey (k + i)) args = some d := by
  intro fuel
  induction fuel with
  | zero => intro k i d h; simp [nestedDists] at h
  | succ fuel ih =>
    intro k i d h
    rw [nestedDists] at h
    cases hfind : mapFind ("dist".toList ++ Number.natDigits k) args with
    | none => rw [hfind] at h; simp at h
    | some d0 =>
      rw [hfind] at h
      simp only at h
      cases i with
      | zero =>
        simp only [List.getElem?_cons_zero, Option.some.injEq] at h
        subst h
        simpa [distKey] using hfind
      | succ i' =>
        simp only [List.getElem?_cons_succ] at h
        have := ih (k + 1) i' d h
        rw [← this]; congr 2; omega

end Bpp.Text.U
