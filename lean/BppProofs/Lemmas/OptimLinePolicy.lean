import BppProofs.Lemmas.OptimPolicy
import BppModel.OptimLine
/-!
Helper lemmas for C10: the constraint policy of the optimisers built on line searches
(`PowellMultiDimensions`, `ConjugateGradientMultiDimensions`, `BfgsMultiDimensions`).

* `SafeSet I Q T`: the companion of `Safe` for `setParameters` (which `DirectionFunction` and the
  `doInit` of the conjugate gradient / BFGS optimisers call instead of `f`);
* `dirfn_safe`: a `DirectionFunction` around a safe function, whose auto-correcting copies `xt` are tied
  to the constraints, is itself safe for *every* one-dimensional list it is given;
* `nback_safeAlgo'`: the Newton backtracking search is a `SafeAlgo`;
* `lineMinimization_safe`, `lineSearch_safe`: both searches keep the function feasible and the
  optimiser's list tied, however they end;
* `SafeStep`: `SafeAlgo` without the `doInit` field (that of CG / BFGS evaluates at the list *given to
  `init`*, which is tied only for the particular list), with `init_safeS`, `step_safeS`, `loop_safeS`,
  `optimize_safeS`;
* `powell_safeAlgo`, `cg_safeStep`, `bfgs_safeStep`, `cgDoInit_safe`, `bfgsDoInit_safe`, `powellOptimize_safe`.
-/
set_option linter.unusedSectionVars false
namespace Bpp.Optim
open Bpp

variable {F : Type}

/-- the companion of `Safe` for `setParameters` -/
structure SafeSet (I : FunI F ℝ) (Q : F → Prop) (T : PList ℝ → Prop) : Prop where
  set_ok : ∀ fn pl fn', Q fn → T pl → I.setParameters fn pl = .ok fn' → Q fn'
  set_err : ∀ fn pl e fn', Q fn → T pl → I.setParameters fn pl = .error (e, fn') → Q fn'

/-! ### tied lists -/

theorem Tied.nil (cons : Spec.Cons ℝ) : Tied cons [] := fun _ h => by cases h

theorem Tied.tail {cons : Spec.Cons ℝ} {q : NP ℝ} {r : PList ℝ} (h : Tied cons (q :: r)) : Tied cons r :=
  fun q' hq' => h q' (List.mem_cons_of_mem _ hq')

theorem Tied.head {cons : Spec.Cons ℝ} {q : NP ℝ} {r : PList ℝ} (h : Tied cons (q :: r)) :
    q.p.invOk = true ∧ ∀ c, (q.name, c) ∈ cons → q.p.constraint = c :=
  h q (List.mem_cons_self ..)

theorem Tied.cons' {cons : Spec.Cons ℝ} {q : NP ℝ} {r : PList ℝ}
    (hq : q.p.invOk = true ∧ ∀ c, (q.name, c) ∈ cons → q.p.constraint = c) (hr : Tied cons r) : Tied cons (q :: r) := by
  intro q' hq'
  rcases List.mem_cons.1 hq' with rfl | hm
  · exact hq
  · exact hr q' hm

/-- one element moved by `setValue` stays tied -/
theorem setValue_tied_np {cons : Spec.Cons ℝ} {q : NP ℝ} {p' : Param ℝ} {x : ℝ}
    (hq : q.p.invOk = true ∧ ∀ c, (q.name, c) ∈ cons → q.p.constraint = c) (h : q.p.setValue x = .ok p') :
    ({ q with p := p' } : NP ℝ).p.invOk = true ∧ ∀ c, (({ q with p := p' } : NP ℝ).name, c) ∈ cons → ({ q with p := p' } : NP ℝ).p.constraint = c := by
  obtain ⟨h1, h2⟩ := setValue_tied h hq.1
  exact ⟨h1, fun c hc => by show p'.constraint = c; rw [h2]; exact hq.2 c hc⟩

/-- `autoParameter` changes neither values nor constraints -/
theorem toAuto_tied (cons : Spec.Cons ℝ) (pl : PList ℝ) (h : Tied cons pl) : Tied cons (applyPolicy .auto pl) := by
  intro q' hq'
  simp only [applyPolicy] at hq'
  obtain ⟨q, hq, rfl⟩ := List.mem_map.1 hq'
  exact h q hq

theorem dirMove_tied (cons : Spec.Cons ℝ) (x : ℝ) : ∀ (p xt : PList ℝ) (xi : List ℝ) (xt' : PList ℝ),
    Tied cons xt → dirMove x p xt xi = .ok xt' → Tied cons xt' := by
  intro p
  induction p with
  | nil => intro xt xi xt' hT h; rw [dirMove] at h; simp only [Except.ok.injEq] at h; subst h; exact hT
  | cons pj pr ih =>
    intro xt xi xt' hT h
    cases xt with
    | nil => rw [dirMove] at h; cases h
    | cons tj tr =>
      cases xi with
      | nil => rw [dirMove] at h; cases h
      | cons xj xr =>
        rw [dirMove] at h
        split at h
        · cases h
        · rename_i t' hs
          split at h
          · cases h
          · rename_i tr' hr'
            simp only [Except.ok.injEq] at h
            subst h
            exact Tied.cons' (setValue_tied_np hT.head hs) (ih tr xr tr' hT.tail hr')

theorem moveAlong_tied (cons : Spec.Cons ℝ) (xmin : ℝ) : ∀ (pl : PList ℝ) (xi : List ℝ) (r : PList ℝ × List ℝ),
    Tied cons pl → moveAlong xmin pl xi = .ok r → Tied cons r.1 := by
  intro pl
  induction pl with
  | nil => intro xi r _ h; rw [moveAlong] at h; simp only [Except.ok.injEq] at h; subst h; exact Tied.nil cons
  | cons q rest ih =>
    intro xi r hT h
    cases xi with
    | nil => rw [moveAlong] at h; cases h
    | cons x xs =>
      rw [moveAlong] at h
      try dsimp only at h
      split at h
      · cases h
      · rename_i p' hs
        split at h
        · cases h
        · rename_i r' xs' hr'
          simp only [Except.ok.injEq] at h
          subst h
          exact Tied.cons' (setValue_tied_np hT.head hs) (ih xs (r', xs') hT.tail hr')

theorem setAll_tied (cons : Spec.Cons ℝ) : ∀ (pl : PList ℝ) (vs : List ℝ) (pl' : PList ℝ),
    Tied cons pl → setAll pl vs = .ok pl' → Tied cons pl' := by
  intro pl
  induction pl with
  | nil => intro vs pl' _ h; rw [setAll] at h; simp only [Except.ok.injEq] at h; subst h; exact Tied.nil cons
  | cons q rest ih =>
    intro vs pl' hT h
    cases vs with
    | nil => rw [setAll] at h; simp only [Except.ok.injEq] at h; subst h; exact hT
    | cons v vs =>
      rw [setAll] at h
      split at h
      · cases h
      · rename_i p' hs
        split at h
        · cases h
        · rename_i r' hr'
          simp only [Except.ok.injEq] at h
          subst h
          exact Tied.cons' (setValue_tied_np hT.head hs) (ih vs r' hT.tail hr')

/-- `ptt` of Powell's extrapolation is a copy of the optimiser's list moved by `setValue` -/
theorem powellExtrapolate_tied (cons : Spec.Cons ℝ) : ∀ (pl pt : PList ℝ) (r : PList ℝ × List ℝ × PList ℝ),
    Tied cons pl → powellExtrapolate pl pt = .ok r → Tied cons r.1 := by
  intro pl
  induction pl with
  | nil => intro pt r _ h; rw [powellExtrapolate] at h; simp only [Except.ok.injEq] at h; subst h; exact Tied.nil cons
  | cons q rest ih =>
    intro pt r hT h
    cases pt with
    | nil => rw [powellExtrapolate] at h; cases h
    | cons t tr =>
      rw [powellExtrapolate] at h
      split at h
      · cases h
      · rename_i q' hs
        try dsimp only at h
        split at h
        · cases h
        · rename_i t' hs'
          split at h
          · cases h
          · rename_i r' xs tr' hr'
            simp only [Except.ok.injEq] at h
            subst h
            exact Tied.cons' (setValue_tied_np hT.head hs) (ih tr (r', xs, tr') hT.tail hr')

/-! ### a `DirectionFunction` around a safe function -/

variable {I : FunI F ℝ} {Q : F → Prop}

/-- what a `DirectionFunction` keeps: the wrapped function is fine and the auto-correcting copies are tied -/
def DirOk (Q : F → Prop) (cons : Spec.Cons ℝ) (df : DirFn F ℝ) : Prop := Q df.inner ∧ Tied cons df.xt

theorem dirfn_setParameters_safe {cons : Spec.Cons ℝ} (hss : SafeSet I Q (Tied cons)) (df : DirFn F ℝ) (pl : PList ℝ)
    (hd : DirOk Q cons df) :
    ROk (DirOk Q cons) (DirOk Q cons) (df.setParameters I pl) := by
  unfold DirFn.setParameters
  dsimp only
  split
  · exact hd
  · rename_i x hx
    split
    · exact hd
    · rename_i xt' hm
      have hT' := dirMove_tied cons x _ _ _ _ hd.2 hm
      try dsimp only
      split
      · rename_i e fn he
        exact ⟨hss.set_err _ _ _ _ hd.1 hT' he, hT'⟩
      · rename_i fn he
        exact ⟨hss.set_ok _ _ _ hd.1 hT' he, hT'⟩

/-- a `DirectionFunction` whose copies are tied is safe for every one-dimensional list -/
theorem dirfn_safe {cons : Spec.Cons ℝ} (hss : SafeSet I Q (Tied cons)) :
    Safe (DirFn.iface I) (DirOk Q cons) (fun _ => True) := by
  refine ⟨?_, ?_, fun _ _ _ _ _ _ => trivial⟩
  · intro df pl df' v hd _ h
    have := dirfn_setParameters_safe hss df pl hd
    simp only [DirFn.iface] at h
    split at h
    · cases h
    · rename_i df1 h1
      rw [h1] at this
      simp only [Except.ok.injEq, Prod.mk.injEq] at h
      rw [← h.1]; exact this
  · intro df pl e df' hd _ h
    have := dirfn_setParameters_safe hss df pl hd
    simp only [DirFn.iface] at h
    split at h
    · rename_i e1 h1
      rw [h1] at this
      simp only [Except.error.injEq] at h
      rw [h] at this; exact this
    · cases h

/-! ### the Newton backtracking search -/

section
variable {F' : Type} {I' : FunI F' ℝ} {Q' : F' → Prop} {T : PList ℝ → Prop}

theorem nbackDoInit_safe' (hs : Safe I' Q' T) (s : St F' (NBack ℝ) ℝ) (params : PList ℝ) (hQ : Q' s.fn) (hT : T s.core.params) :
    ROk Q' (fun r => Q' r.fn ∧ T r.core.params) (nbackDoInit I' s params) := by
  unfold nbackDoInit
  split
  · exact hQ
  · split
    · rename_i e he; obtain ⟨e1, fn1⟩ := e; exact hs.f_err _ _ _ _ hQ hT he
    · rename_i fn v he; exact ⟨hs.f_ok _ _ _ _ hQ hT he, hT⟩

theorem nbackDoStep_safe' (hs : Safe I' Q' T) (s : St F' (NBack ℝ) ℝ) (hQ : Q' s.fn) (hT : T s.core.params) :
    ROk Q' (fun r => Q' r.1.fn ∧ T r.1.core.params) (nbackDoStep I' s) := by
  unfold nbackDoStep
  dsimp only
  split
  · split
    · rename_i e he; exact evalOwn_safe' hs he hQ hT
    · rename_i s1 v he; have := evalOwn_safe' hs he hQ hT; exact ⟨this.1, this.2.1⟩
  · split
    · rename_i e he; exact evalOwn_safe' hs he hQ hT
    · rename_i s1 f he
      have := evalOwn_safe' hs he hQ hT
      split
      · exact ⟨this.1, this.2.1⟩
      · split <;> exact ⟨this.1, this.2.1⟩

theorem nback_safeAlgo' (hs : Safe I' Q' T) : SafeAlgo (nbackAlgo I') Q' T :=
  { doInit := fun s params hQ hT => nbackDoInit_safe' hs s params hQ hT,
    doStep := fun s hQ hT => nbackDoStep_safe' hs s hQ hT,
    stopInit := fun _ => ⟨rfl, rfl⟩,
    stop := fun _ => ⟨rfl, rfl⟩ }

end

/-! ### the two searches along a direction -/

/-- `lineMinimization` (Brent's method on a `DirectionFunction` under the automatic policy): the
function stays fine and the optimiser's list stays tied, however the search ends -/
theorem lineMinimization_safe {cons : Spec.Cons ℝ} (hss : SafeSet I Q (Tied cons)) (fuel : Nat) (fn : F)
    (parameters : PList ℝ) (xi : List ℝ) (hQ : Q fn) (hT : Tied cons parameters) :
    ROk Q (fun r => Q r.1 ∧ Tied cons r.2.1) (lineMinimization I fuel fn parameters xi) := by
  unfold lineMinimization
  dsimp only
  have hJ := dirfn_safe hss (cons := cons)
  have hd0 : DirOk Q cons (DirFn.init fn .auto parameters xi) := ⟨hQ, toAuto_tied cons parameters hT⟩
  have hi := init_safe (brent_safeAlgo hJ fuel) (lineBrent (DirFn.init fn .auto parameters xi)) xParam hd0 trivial
  split
  · rename_i e df he; rw [he] at hi; exact hi.1
  · rename_i bod he
    rw [he] at hi
    have ho := brentOptimize_safe hJ fuel bod hi.1 trivial
    split
    · rename_i e df he2; rw [he2] at ho; exact ho.1
    · rename_i bod2 v he2
      rw [he2] at ho
      split
      · exact ho.1.1
      · rename_i xmin hx
        split
        · exact ho.1.1
        · rename_i pl xi' hm
          exact ⟨ho.1.1, moveAlong_tied cons xmin _ _ _ hT hm⟩

/-- `lineSearch` (Newton backtracking on a `DirectionFunction` under the automatic policy) -/
theorem lineSearch_safe {cons : Spec.Cons ℝ} (hss : SafeSet I Q (Tied cons)) (fuel : Nat) (fn : F)
    (parameters : PList ℝ) (xi gradient : List ℝ) (hQ : Q fn) (hT : Tied cons parameters) :
    ROk Q (fun r => Q r.1 ∧ Tied cons r.2.1) (lineSearch I fuel fn parameters xi gradient) := by
  unfold lineSearch
  dsimp only
  have hJ := dirfn_safe hss (cons := cons)
  have hd0 : DirOk Q cons (DirFn.init fn .auto parameters xi) := ⟨hQ, toAuto_tied cons parameters hT⟩
  have hi := init_safe (nback_safeAlgo' hJ)
    (lineNBack (DirFn.init fn .auto parameters xi) (dotFrom Scalar.zero xi gradient) (lsTest Scalar.zero parameters xi)) xParam hd0 trivial
  split
  · rename_i e df he; rw [he] at hi; exact hi.1
  · rename_i nb he
    rw [he] at hi
    have ho := optimize_safe (nback_safeAlgo' hJ) fuel nb hi.1 trivial
    split
    · rename_i e df he2; rw [he2] at ho; exact ho.1
    · rename_i nb2 v he2
      rw [he2] at ho
      split
      · exact ho.1.1
      · rename_i xmin hx
        split
        · exact ho.1.1
        · rename_i pl xi' hm
          exact ⟨ho.1.1, moveAlong_tied cons xmin _ _ _ hT hm⟩

theorem lineMinimization_safe' {cons : Spec.Cons ℝ} (hss : SafeSet I Q (Tied cons)) {fuel : Nat} {fn : F}
    {parameters : PList ℝ} {xi : List ℝ} {r : Except (Exc × F) (F × PList ℝ × List ℝ × Nat)}
    (he : lineMinimization I fuel fn parameters xi = r) (hQ : Q fn) (hT : Tied cons parameters) :
    ROk Q (fun r => Q r.1 ∧ Tied cons r.2.1) r :=
  he ▸ lineMinimization_safe hss fuel fn parameters xi hQ hT

theorem lineSearch_safe' {cons : Spec.Cons ℝ} (hss : SafeSet I Q (Tied cons)) {fuel : Nat} {fn : F}
    {parameters : PList ℝ} {xi gradient : List ℝ} {r : Except (Exc × F) (F × PList ℝ × List ℝ × Nat)}
    (he : lineSearch I fuel fn parameters xi gradient = r) (hQ : Q fn) (hT : Tied cons parameters) :
    ROk Q (fun r => Q r.1 ∧ Tied cons r.2.1) r :=
  he ▸ lineSearch_safe hss fuel fn parameters xi gradient hQ hT

/-! ### the template without `doInit` -/

/-- `SafeAlgo` without its `doInit` field: the `doInit` of the conjugate gradient and BFGS optimisers
sets the function to the list *given to `init`*, which is tied for the particular list only -/
structure SafeStep {τ : Type} (A : Algo F τ ℝ) (Q : F → Prop) (T : PList ℝ → Prop) : Prop where
  doStep : ∀ s, Q s.fn → T s.core.params → ROk Q (fun r => Q r.1.fn ∧ T r.1.core.params) (A.doStep s)
  stopInit : ∀ s, (A.stopInit s).fn = s.fn ∧ (A.stopInit s).core.params = s.core.params
  stop : ∀ s, (A.stop s).1.fn = s.fn ∧ (A.stop s).1.core.params = s.core.params

section
variable {τ : Type} {A : Algo F τ ℝ} {T : PList ℝ → Prop}

theorem SafeAlgo.toStep (ha : SafeAlgo A Q T) : SafeStep A Q T := ⟨ha.doStep, ha.stopInit, ha.stop⟩

/-- `init`, given what `doInit` does on the particular list -/
theorem init_safeS (ha : SafeStep A Q T) (s : St F τ ℝ) (params : PList ℝ)
    (hd : ROk Q (fun r => Q r.fn ∧ T r.core.params)
      (A.doInit ({ s with core := { s.core with params := applyPolicy s.core.policy params } } : St F τ ℝ) params)) :
    ROk Q (fun r => Q r.fn ∧ T r.core.params) (A.init s params) := by
  unfold Algo.init
  dsimp only
  split
  · rename_i e he; rw [he] at hd; exact hd
  · rename_i s2 he
    rw [he] at hd
    have hsi := ha.stopInit ({ s2 with core := { s2.core with nbEval := 0, tol := false, initialized := true, cur := A.value s2.fn } } : St F τ ℝ)
    show Q (A.stopInit _).fn ∧ T (A.stopInit _).core.params
    rw [hsi.1, hsi.2]; exact hd

theorem step_safeS (ha : SafeStep A Q T) (s : St F τ ℝ) (hQ : Q s.fn) (hT : T s.core.params) :
    ROk Q (fun r => Q r.1.fn ∧ T r.1.core.params) (A.step s) := by
  unfold Algo.step
  have := ha.doStep s hQ hT
  split
  · rename_i e he; rw [he] at this; exact this
  · rename_i s1 v he
    rw [he] at this
    dsimp only
    split
    · exact this
    · have hst := ha.stop ({ s1 with core := { s1.core with cur := v } } : St F τ ℝ)
      show Q (A.stop _).1.fn ∧ T (A.stop _).1.core.params
      rw [hst.1, hst.2]; exact this

theorem loop_safeS (ha : SafeStep A Q T) : ∀ (fuel : Nat) (s : St F τ ℝ), Q s.fn → T s.core.params →
    ROk Q (fun r => Q r.fn ∧ T r.core.params) (A.loop fuel s) := by
  intro fuel
  induction fuel with
  | zero =>
    intro s hQ hT
    rw [loop_zero]
    split
    · exact hQ
    · exact ⟨hQ, hT⟩
  | succ fuel ih =>
    intro s hQ hT
    rw [loop_succ]
    split
    · have := step_safeS ha s hQ hT
      split
      · rename_i e he; rw [he] at this; exact this
      · rename_i s1 v he; rw [he] at this; exact ih (bump s1) this.1 this.2
    · exact ⟨hQ, hT⟩

theorem optimize_safeS (ha : SafeStep A Q T) (fuel : Nat) (s : St F τ ℝ) (hQ : Q s.fn) (hT : T s.core.params) :
    ROk Q (fun r => Q r.1.fn ∧ T r.1.core.params) (A.optimize fuel s) := by
  unfold Algo.optimize
  split
  · exact hQ
  · have := loop_safeS ha fuel ({ s with core := { s.core with tol := false, nbEval := 1 } } : St F τ ℝ) hQ hT
    split
    · rename_i e he; rw [he] at this; exact this
    · rename_i s' he; rw [he] at this; exact this

theorem fscStop_same' (s : St F τ ℝ) : (fscStop s).1.fn = s.fn ∧ (fscStop s).1.core.params = s.core.params := by
  unfold fscStop; simp only []; split <;> exact ⟨rfl, rfl⟩

end

/-! ### Powell -/

theorem powellStop_same' (s : St F (Powell ℝ) ℝ) : (powellStop s).1.fn = s.fn ∧ (powellStop s).1.core.params = s.core.params := by
  unfold powellStop; simp only []; split <;> exact ⟨rfl, rfl⟩

theorem powellDoInit_safe {T : PList ℝ → Prop} (hs : Safe I Q T) (s : St F (Powell ℝ) ℝ) (params : PList ℝ)
    (hQ : Q s.fn) (hT : T s.core.params) :
    ROk Q (fun r => Q r.fn ∧ T r.core.params) (powellDoInit I s params) := by
  unfold powellDoInit
  dsimp only
  split
  · rename_i e he; obtain ⟨e1, fn1⟩ := e; exact hs.f_err _ _ _ _ hQ hT he
  · rename_i fn v he; exact ⟨hs.f_ok _ _ _ _ hQ hT he, hT⟩

theorem powellDirs_safe {cons : Spec.Cons ℝ} (hs : Safe I Q (Tied cons)) (hss : SafeSet I Q (Tied cons)) (fuel : Nat) :
    ∀ (is : List Nat) (s : St F (Powell ℝ) ℝ) (del : ℝ) (ibig : Nat), Q s.fn → Tied cons s.core.params →
    ROk Q (fun r => Q r.1.fn ∧ Tied cons r.1.core.params) (powellDirs I fuel is s del ibig) := by
  intro is
  induction is with
  | nil => intro s del ibig hQ hT; rw [powellDirs]; exact ⟨hQ, hT⟩
  | cons i r ih =>
    intro s del ibig hQ hT
    rw [powellDirs]
    split
    · exact hQ
    · rename_i xit hx
      try dsimp only
      have hl := lineMinimization_safe hss fuel s.fn s.core.params xit hQ hT
      split
      · rename_i e he; rw [he] at hl; exact hl
      · rename_i fn pl xi' k he
        rw [he] at hl
        try dsimp only
        split
        · rename_i e he2; obtain ⟨e1, fn1⟩ := e; exact hs.f_err _ _ _ _ hl.1 hl.2 he2
        · rename_i fn2 fret he2
          have hQ2 := hs.f_ok _ _ _ _ hl.1 hl.2 he2
          try dsimp only
          split
          · exact hQ2
          · split
            · exact ih _ _ _ hQ2 hl.2
            · exact ih _ _ _ hQ2 hl.2

theorem powellDirs_safe' {cons : Spec.Cons ℝ} (hs : Safe I Q (Tied cons)) (hss : SafeSet I Q (Tied cons)) {fuel : Nat}
    {is : List Nat} {s : St F (Powell ℝ) ℝ} {del : ℝ} {ibig : Nat} {r : Except (Exc × F) (St F (Powell ℝ) ℝ × ℝ × Nat)}
    (he : powellDirs I fuel is s del ibig = r) (hQ : Q s.fn) (hT : Tied cons s.core.params) :
    ROk Q (fun r => Q r.1.fn ∧ Tied cons r.1.core.params) r :=
  he ▸ powellDirs_safe hs hss fuel is s del ibig hQ hT

theorem powellDoStep_safe {cons : Spec.Cons ℝ} (hs : Safe I Q (Tied cons)) (hss : SafeSet I Q (Tied cons)) (fuel : Nat)
    (s : St F (Powell ℝ) ℝ) (hQ : Q s.fn) (hT : Tied cons s.core.params) :
    ROk Q (fun r => Q r.1.fn ∧ Tied cons r.1.core.params) (powellDoStep I fuel s) := by
  unfold powellDoStep
  dsimp only
  split
  · rename_i e he; exact powellDirs_safe' hs hss he hQ hT
  · rename_i s1 del ibig he
    have h1 := powellDirs_safe' hs hss he hQ hT
    split
    · exact h1.1
    · rename_i ptt xit pt' hx
      have hTp := powellExtrapolate_tied cons _ _ _ h1.2 hx
      try dsimp only
      split
      · rename_i e he2; obtain ⟨e1, fn1⟩ := e; exact hs.f_err _ _ _ _ h1.1 hTp he2
      · rename_i fn2 fptt he2
        have hQ2 := hs.f_ok _ _ _ _ h1.1 hTp he2
        try dsimp only
        split
        · split
          · split
            · rename_i e he3; exact lineMinimization_safe' hss he3 hQ2 h1.2
            · rename_i fn3 pl xit' k he3
              have h3 := lineMinimization_safe' hss he3 hQ2 h1.2
              try dsimp only
              split
              · rename_i e he4; obtain ⟨e1, fn1⟩ := e; exact hs.f_err _ _ _ _ h3.1 h3.2 he4
              · rename_i fn4 fret he4
                have hQ4 := hs.f_ok _ _ _ _ h3.1 h3.2 he4
                try dsimp only
                split
                · exact hQ4
                · exact ⟨hQ4, h3.2⟩
          · split
            · rename_i e he3; obtain ⟨e1, fn1⟩ := e; exact hss.set_err _ _ _ _ hQ2 h1.2 he3
            · rename_i fn3 he3; exact ⟨hss.set_ok _ _ _ hQ2 h1.2 he3, h1.2⟩
        · split
          · rename_i e he3; obtain ⟨e1, fn1⟩ := e; exact hss.set_err _ _ _ _ hQ2 h1.2 he3
          · rename_i fn3 he3; exact ⟨hss.set_ok _ _ _ hQ2 h1.2 he3, h1.2⟩

theorem powell_safeAlgo {cons : Spec.Cons ℝ} (hs : Safe I Q (Tied cons)) (hss : SafeSet I Q (Tied cons)) (fuel : Nat) :
    SafeAlgo (powellAlgo I fuel) Q (Tied cons) :=
  { doInit := fun s params hQ hT => powellDoInit_safe hs s params hQ hT,
    doStep := fun s hQ hT => powellDoStep_safe hs hss fuel s hQ hT,
    stopInit := fun _ => ⟨rfl, rfl⟩,
    stop := fun s => powellStop_same' s }

theorem powellOptimize_safe {cons : Spec.Cons ℝ} (hs : Safe I Q (Tied cons)) (hss : SafeSet I Q (Tied cons)) (fuel : Nat)
    (s : St F (Powell ℝ) ℝ) (hQ : Q s.fn) (hT : Tied cons s.core.params) :
    ROk Q (fun r => Q r.1.fn ∧ Tied cons r.1.core.params) (powellOptimize I fuel s) := by
  unfold powellOptimize
  have := optimize_safe (powell_safeAlgo hs hss fuel) fuel s hQ hT
  split
  · rename_i e he; rw [he] at this; exact this
  · rename_i s1 v he
    rw [he] at this
    try dsimp only
    split
    · rename_i e he2; obtain ⟨e1, fn1⟩ := e; exact hs.f_err _ _ _ _ this.1 this.2 he2
    · rename_i fn2 v2 he2
      exact ⟨hs.f_ok _ _ _ _ this.1 this.2 he2, this.2⟩

/-! ### conjugate gradient -/

/-- `doInit` sets the function to the list given to `init`: `hp` says that this list is tied -/
theorem cgDoInit_safe {T : PList ℝ → Prop} (hss : SafeSet I Q T) (s : St F (Cg ℝ) ℝ) (params : PList ℝ)
    (hQ : Q s.fn) (hT : T s.core.params) (hp : T params) :
    ROk Q (fun r => Q r.fn ∧ T r.core.params) (cgDoInit I s params) := by
  unfold cgDoInit
  split
  · rename_i e he; obtain ⟨e1, fn1⟩ := e; exact hss.set_err _ _ _ _ hQ hp he
  · rename_i fn he
    have hQ1 := hss.set_ok _ _ _ hQ hp he
    split
    · exact hQ1
    · exact ⟨hQ1, hT⟩

theorem cgDoStep_safe {cons : Spec.Cons ℝ} (hs : Safe I Q (Tied cons)) (hss : SafeSet I Q (Tied cons)) (fuel : Nat)
    (s : St F (Cg ℝ) ℝ) (hQ : Q s.fn) (hT : Tied cons s.core.params) :
    ROk Q (fun r => Q r.1.fn ∧ Tied cons r.1.core.params) (cgDoStep I fuel s) := by
  unfold cgDoStep
  split
  · rename_i e he; exact lineMinimization_safe' hss he hQ hT
  · rename_i fn pl xi' k he
    have h1 := lineMinimization_safe' hss he hQ hT
    try dsimp only
    split
    · rename_i e he2; obtain ⟨e1, fn1⟩ := e; exact hs.f_err _ _ _ _ h1.1 h1.2 he2
    · rename_i fn2 f he2
      have hQ2 := hs.f_ok _ _ _ _ h1.1 h1.2 he2
      try dsimp only
      split
      · exact ⟨hQ2, h1.2⟩
      · split
        · exact hQ2
        · rename_i grad hg
          try dsimp only
          split
          · exact ⟨hQ2, h1.2⟩
          · split
            · exact ⟨hQ2, h1.2⟩
            · exact ⟨hQ2, h1.2⟩

theorem cg_safeStep {cons : Spec.Cons ℝ} (hs : Safe I Q (Tied cons)) (hss : SafeSet I Q (Tied cons)) (fuel : Nat) :
    SafeStep (cgAlgo I fuel) Q (Tied cons) :=
  { doStep := fun s hQ hT => cgDoStep_safe hs hss fuel s hQ hT,
    stopInit := fun _ => ⟨rfl, rfl⟩,
    stop := fun s => fscStop_same' s }

/-! ### BFGS -/

/-- `doInit` reads the bounds of the optimiser's own list and sets the function to the list given to
`init`: `hp` says that this list is tied -/
theorem bfgsDoInit_safe {T : PList ℝ → Prop} (hss : SafeSet I Q T) (s : St F (Bfgs ℝ) ℝ) (params : PList ℝ)
    (hQ : Q s.fn) (hT : T s.core.params) (hp : T params) :
    ROk Q (fun r => Q r.fn ∧ T r.core.params) (bfgsDoInit I s params) := by
  unfold bfgsDoInit
  dsimp only
  split
  · exact hQ
  · rename_i up lo hb
    split
    · exact hQ
    · split
      · rename_i e he; obtain ⟨e1, fn1⟩ := e; exact hss.set_err _ _ _ _ hQ hp he
      · rename_i fn he
        have hQ1 := hss.set_ok _ _ _ hQ hp he
        split
        · exact hQ1
        · exact ⟨hQ1, hT⟩

theorem bfgsDoStep_safe {cons : Spec.Cons ℝ} (hs : Safe I Q (Tied cons)) (hss : SafeSet I Q (Tied cons)) (fuel : Nat)
    (s : St F (Bfgs ℝ) ℝ) (hQ : Q s.fn) (hT : Tied cons s.core.params) :
    ROk Q (fun r => Q r.1.fn ∧ Tied cons r.1.core.params) (bfgsDoStep I fuel s) := by
  unfold bfgsDoStep
  dsimp only
  split
  · rename_i e he; exact lineSearch_safe' hss he hQ hT
  · rename_i fn pl xi' k he
    have h1 := lineSearch_safe' hss he hQ hT
    try dsimp only
    split
    · rename_i e he2; obtain ⟨e1, fn1⟩ := e; exact hs.f_err _ _ _ _ h1.1 h1.2 he2
    · rename_i fn2 f he2
      have hQ2 := hs.f_ok _ _ _ _ h1.1 h1.2 he2
      try dsimp only
      split
      · split
        · exact hQ2
        · rename_i pl0 hset
          have hT0 := setAll_tied cons _ _ _ h1.2 hset
          try dsimp only
          split
          · rename_i e he3; obtain ⟨e1, fn1⟩ := e; exact hs.f_err _ _ _ _ hQ2 hT0 he3
          · rename_i fn3 f0 he3; exact ⟨hs.f_ok _ _ _ _ hQ2 hT0 he3, hT0⟩
      · split
        · exact ⟨hQ2, h1.2⟩
        · split
          · exact hQ2
          · try dsimp only
            split <;> exact ⟨hQ2, h1.2⟩

theorem bfgs_safeStep {cons : Spec.Cons ℝ} (hs : Safe I Q (Tied cons)) (hss : SafeSet I Q (Tied cons)) (fuel : Nat) :
    SafeStep (bfgsAlgo I fuel) Q (Tied cons) :=
  { doStep := fun s hQ hT => bfgsDoStep_safe hs hss fuel s hQ hT,
    stopInit := fun _ => ⟨rfl, rfl⟩,
    stop := fun s => fscStop_same' s }

/-! ### the objective of the harness -/

/-- `setParameters` of the harness objective with a tied list leaves it at (and logs) a feasible point -/
theorem objective_safeSet (obj : List ℝ → ℝ) (D : Deriv ℝ) (cap : Option Nat) (cons : Spec.Cons ℝ) :
    SafeSet (Fn.iface obj D cap) (FeasFn cons) (Tied cons) := by
  refine ⟨?_, ?_⟩
  · intro fn pl fn' hQ hT h
    simp only [Fn.iface] at h
    split at h
    · cases h
    · simp only [Except.ok.injEq] at h
      rw [← h]; exact setParameters_feasible cons fn pl hQ hT
  · intro fn pl e fn' hQ hT h
    simp only [Fn.iface] at h
    split at h
    · simp only [Except.error.injEq, Prod.mk.injEq] at h
      rw [← h.2]; exact setParameters_feasible cons fn pl hQ hT
    · cases h

/-- a tied list is a feasible report -/
theorem Tied.report {cons : Spec.Cons ℝ} {pl : PList ℝ} (hT : Tied cons pl) : Spec.feasibleReport pl = true := by
  unfold Spec.feasibleReport feasibleList
  rw [List.all_eq_true]
  exact fun q hq => (hT q hq).1

end Bpp.Optim
