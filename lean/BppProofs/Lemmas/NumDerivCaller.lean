import BppProofs.Lemmas.NumDerivSided
/-!
C12 helper lemmas, part 11: the probes also respect the constraints of the list the caller passed.
Every list the wrappers hand to `function_->setParameters` consists of parameters of the caller's
list whose value was either left alone or changed through `Parameter::setValue`, which checks the
(copied) constraint first.
-/
namespace Bpp.NumDeriv
open Bpp Bpp.Scalar

/-- the element is a copy of a parameter of `params` (same name and constraint) holding a value
its constraint accepts -/
def PWelem (params : PList ℝ) (x : Param ℝ) : Prop :=
  ∃ q, find? params x.name = some q ∧ x.con = q.con ∧ x.violates x.value = false

def PW (params p : PList ℝ) : Prop := ∀ x ∈ p, PWelem params x

/-- the values of `l` (those that the caller's list constrains) are accepted by the caller's list -/
def CF (params l : PList ℝ) : Prop := ∀ b ∈ l, ∀ q, find? params b.name = some q → q.violates b.value = false

/-- … and so was every point at which `f` was evaluated -/
def CFpt (params ref : PList ℝ) (pt : List ℝ) : Prop :=
  List.Forall₂ (fun b x => ∀ q, find? params b.name = some q → q.violates x = false) ref pt

/-- the caller's list is well formed: every parameter satisfies its own constraint (`Parameter`'s
constructor and `setValue` guarantee it), names are unique -/
def CallerWF (params : PList ℝ) : Prop := (names params).Nodup ∧ Feas params

theorem PW_of_mem {params : PList ℝ} (h : CallerWF params) {p : PList ℝ} (hp : ∀ x ∈ p, x ∈ params) : PW params p := by
  intro x hx
  exact ⟨x, find?_of_mem h.1 (hp x hx), rfl, h.2 x (hp x hx)⟩

theorem PWelem_setValue {params : PList ℝ} {x x' : Param ℝ} {v : ℝ} (h : PWelem params x) (hs : x.setValue v = .ok x') :
    PWelem params x' := by
  obtain ⟨q, h1, h2, h3⟩ := h
  obtain ⟨a, b⟩ := setValue_cases x x' v hs
  refine ⟨q, by rw [a.1]; exact h1, by rw [a.2.2]; exact h2, ?_⟩
  rcases b with b | ⟨b1, b2⟩
  · rw [b]; exact h3
  · rw [b1, violates_skel a]; exact b2

theorem setValueOf_CF {params : PList ℝ} : ∀ (l l' : PList ℝ) (n : Name) (v : ℝ), setValueOf l n v = .ok l' →
    (∀ q, find? params n = some q → q.violates v = false) → CF params l → CF params l' := by
  intro l
  induction l with
  | nil => intro l' n v h; simp [setValueOf] at h
  | cons p r ih =>
    intro l' n v h hv hcf
    unfold setValueOf at h
    split at h
    · rename_i hn
      have hn' : p.name = n := by simpa using hn
      split at h
      · rename_i p' hp'
        injection h with h; subst h
        obtain ⟨a, b⟩ := setValue_cases p p' v hp'
        intro x hx q hq
        rcases List.mem_cons.mp hx with rfl | hx
        · rcases b with b | ⟨b1, _⟩
          · rw [b] at hq ⊢; exact hcf p (List.mem_cons_self ..) q hq
          · rw [b1]; rw [a.1, hn'] at hq; exact hv q hq
        · exact hcf x (List.mem_cons_of_mem _ hx) q hq
      · cases h
    · split at h
      · rename_i r' hr'
        injection h with h; subst h
        have := ih r' n v hr' hv (fun x hx => hcf x (List.mem_cons_of_mem _ hx))
        intro x hx q hq
        rcases List.mem_cons.mp hx with rfl | hx
        · exact hcf x (List.mem_cons_self ..) q hq
        · exact this x hx q hq
      · cases h

theorem matchLoop_CF {params : PList ℝ} (pl : PList ℝ) : ∀ (own own' : PList ℝ) (ch0 ch : Bool),
    matchLoop own pl ch0 = .ok (own', ch) → PW params pl → CF params own → CF params own' := by
  induction pl with
  | nil => intro own own' ch0 ch h _ hcf; simp [matchLoop] at h; rw [← h.1]; exact hcf
  | cons q qs ih =>
    intro own own' ch0 ch h hpw hcf
    have hpw' : PW params qs := fun x hx => hpw x (List.mem_cons_of_mem _ hx)
    unfold matchLoop at h
    split at h
    · exact ih _ _ _ _ h hpw' hcf
    · split at h
      · split at h
        · rename_i own1 hs1
          obtain ⟨q', h1, h2, h3⟩ := hpw q (List.mem_cons_self ..)
          have hv : ∀ c, find? params q.name = some c → c.violates q.value = false := by
            intro c hc; rw [h1] at hc; injection hc with hc; subst hc
            unfold Param.violates at h3 ⊢; rw [← h2]; exact h3
          exact ih _ _ _ _ h hpw' (setValueOf_CF own own1 q.name q.value hs1 hv hcf)
        · cases h
      · exact ih _ _ _ _ h hpw' hcf

/-- invariant of the wrapped function with respect to the caller's list -/
structure InvC (params ref : PList ℝ) (fn : Fn ℝ) : Prop where
  skel : Skel fn.params ref
  cf : CF params fn.params
  log : ∀ pt ∈ fn.log, CFpt params ref pt

theorem CFpt_values {params l ref : PList ℝ} (hs : Skel l ref) (hcf : CF params l) : CFpt params ref (values l) := by
  unfold Skel at hs
  unfold CFpt values
  induction hs with
  | nil => exact List.Forall₂.nil
  | @cons a b l' B' hab _ ih =>
    rw [List.map_cons]
    refine List.Forall₂.cons ?_ (ih (fun p hp => hcf p (List.mem_cons_of_mem _ hp)))
    intro q hq
    exact hcf a (List.mem_cons_self ..) q (by rw [hab.1]; exact hq)

theorem InvC.setParameters {f : List ℝ → ℝ} {params ref : PList ℝ} {fn : Fn ℝ} (h : InvC params ref fn) (pl : PList ℝ)
    (hpw : PW params pl) : InvC params ref (fn.setParameters f pl).1 := by
  simp only [Fn.setParameters, Fn.matchPV]
  cases hv : anyViolation fn.params pl with
  | true => simp; exact h
  | false =>
    simp only [Bool.false_eq_true, if_false]
    cases hm : matchLoop fn.params pl false with
    | error e => simp; exact h
    | ok r =>
      rcases r with ⟨own, ch⟩
      obtain ⟨a, _, c⟩ := matchLoop_gen pl fn.params own false ch hm (noViol_of_any hv)
      have hcf := matchLoop_CF pl fn.params own false ch hm hpw h.cf
      cases ch with
      | true =>
        simp only [if_true]
        refine ⟨a.trans h.skel, hcf, ?_⟩
        intro pt hpt
        simp only [Fn.fire, List.mem_cons] at hpt
        rcases hpt with rfl | hpt
        · exact CFpt_values (a.trans h.skel) hcf
        · exact h.log pt hpt
      | false =>
        simp only [Bool.false_eq_true, if_false]
        have := c rfl; subst this
        exact h


/-- reachable through `setParameters` calls whose lists are copies of the caller's parameters with
accepted values (and switches of the analytical derivatives) -/
inductive ReachC (f : List ℝ → ℝ) (params : PList ℝ) : Fn ℝ → Fn ℝ → Prop
  | refl (a : Fn ℝ) : ReachC f params a a
  | setp {a b : Fn ℝ} (pl : PList ℝ) (hpw : PW params pl) : ReachC f params a b → ReachC f params a (b.setParameters f pl).1
  | en1 {a b : Fn ℝ} (x : Bool) : ReachC f params a b → ReachC f params a (b.enable1 x)
  | en2 {a b : Fn ℝ} (x : Bool) : ReachC f params a b → ReachC f params a (b.enable2 x)

theorem ReachC.trans {f : List ℝ → ℝ} {params : PList ℝ} {a b c : Fn ℝ} (h1 : ReachC f params a b)
    (h2 : ReachC f params b c) : ReachC f params a c := by
  induction h2 with
  | refl => exact h1
  | setp pl hpw _ ih => exact ReachC.setp pl hpw ih
  | en1 x _ ih => exact ReachC.en1 x ih
  | en2 x _ ih => exact ReachC.en2 x ih

theorem ReachC.of_set {f : List ℝ → ℝ} {params : PList ℝ} {a b b' : Fn ℝ} {pl : PList ℝ} {e : Option Exc}
    (h : ReachC f params a b) (hpw : PW params pl) (he : b.setParameters f pl = (b', e)) : ReachC f params a b' := by
  have : b' = (b.setParameters f pl).1 := by rw [he]
  rw [this]; exact ReachC.setp pl hpw h

theorem InvC.reach {f : List ℝ → ℝ} {params ref : PList ℝ} {a b : Fn ℝ} (h : InvC params ref a)
    (hr : ReachC f params a b) : InvC params ref b := by
  induction hr with
  | refl => exact h
  | setp pl hpw _ ih => exact ih.setParameters pl hpw
  | en1 x _ ih =>
    unfold Fn.enable1; split
    · exact ⟨ih.skel, ih.cf, ih.log⟩
    · exact ih
  | en2 x _ ih =>
    unfold Fn.enable2; split
    · exact ⟨ih.skel, ih.cf, ih.log⟩
    · exact ih

theorem PW.cons {params : PList ℝ} {x : Param ℝ} {l : PList ℝ} (hx : PWelem params x) (hl : PW params l) :
    PW params (x :: l) := by
  intro y hy
  rcases List.mem_cons.mp hy with rfl | hy
  · exact hx
  · exact hl y hy

theorem PW.tail {params : PList ℝ} {x : Param ℝ} {l : PList ℝ} (h : PW params (x :: l)) : PW params l :=
  fun y hy => h y (List.mem_cons_of_mem _ hy)

theorem attempt_reachC (f : List ℝ → ℝ) (params : PList ℝ) (fn : Fn ℝ) (p : PList ℝ) (x : ℝ) (hp : PW params p) :
    ReachC f params fn (attempt f fn p x).fn ∧ PW params (attempt f fn p x).p := by
  unfold attempt
  split
  · exact ⟨ReachC.refl _, hp⟩
  · rename_i p0 rest
    split
    · exact ⟨ReachC.refl _, hp⟩
    · rename_i p0' hs
      have h0 : PWelem params p0' := PWelem_setValue (hp p0 (List.mem_cons_self ..)) hs
      have hp' : PW params (p0' :: rest) := PW.cons h0 hp.tail
      simp only []
      split
      · rename_i h; exact ⟨(ReachC.refl fn).of_set hp' h, hp'⟩
      · rename_i h
        have h1 : PW params [p0'] := PW.cons h0 (fun _ hy => by cases hy)
        split <;> exact ⟨(ReachC.refl fn).of_set hp' h, h1⟩

theorem subIdx_PW {params p : PList ℝ} (hp : PW params p) (k : Nat) : PW params (subIdx p k) := by
  unfold subIdx
  split
  · rename_i q hq
    intro x hx; simp at hx; subst hx
    exact hp _ (List.mem_of_getElem? hq)
  · intro x hx; cases hx

theorem retry_reachC (f : List ℝ → ℝ) (params : PList ℝ) (rp : Bool) (value : ℝ) :
    ∀ (n : Nat) (fn : Fn ℝ) (p : PList ℝ) (h : ℝ) (fv : Option ℝ), PW params p →
      ReachC f params fn (retry f rp n fn p value h fv).fn ∧ PW params (retry f rp n fn p value h fv).p := by
  intro n
  induction n with
  | zero => intro fn p h fv hp; unfold retry; exact ⟨ReachC.refl _, hp⟩
  | succ n ih =>
    intro fn p h fv hp
    obtain ⟨a1, a2⟩ := attempt_reachC f params fn p (value + h) hp
    unfold retry
    simp only []
    split
    · split <;> exact ⟨a1, a2⟩
    · split
      · split
        · exact ⟨ReachC.setp _ (subIdx_PW a2 1) a1, a2⟩
        · exact ⟨a1, a2⟩
      · obtain ⟨b1, b2⟩ := ih (attempt f fn p (value + h)).fn (attempt f fn p (value + h)).p _ _ a2
        exact ⟨a1.trans b1, b2⟩

theorem prepare_PW {params : PList ℝ} (hwf : CallerWF params) (hh : ℝ) (lp : Loop ℝ) (var : Name) (p : PList ℝ)
    (value h : ℝ) (hprep : prepare params hh lp var = .ok (p, value, h)) : PW params p := by
  unfold prepare at hprep
  simp only [] at hprep
  split at hprep
  · cases hprep
  · rename_i p' hsub
    split at hprep
    · cases hprep
    · split at hprep
      · cases hprep
      · injection hprep with hprep
        injection hprep with hp _
        subst hp
        exact PW_of_mem hwf (subNames_spec params _ _ hsub).2.1


theorem step2_reachC (f : List ℝ → ℝ) {params : PList ℝ} (hwf : CallerWF params) (lp : Loop ℝ) (i : Nat) (var : Name) :
    ReachC f params lp.w.fn (step2 f params lp i var).1.w.fn := by
  unfold step2
  split
  · exact ReachC.refl _
  · split
    · exact ReachC.refl _
    · rename_i p value h hprep
      have hp := prepare_PW hwf _ lp var p value h hprep
      simp only []
      split <;> exact (retry_reachC f params _ _ _ _ _ _ _ hp).1

theorem step3_reachC (f : List ℝ → ℝ) {params : PList ℝ} (hwf : CallerWF params) (lp : Loop ℝ) (i : Nat) (var : Name) :
    ReachC f params lp.w.fn (step3 f params lp i var).1.w.fn := by
  unfold step3
  split
  · exact ReachC.refl _
  · split
    · exact ReachC.refl _
    · rename_i p value h hprep
      have hp := prepare_PW hwf _ lp var p value h hprep
      have r1 := retry_reachC f params true value 10 lp.w.fn p h none hp
      have r3 := fun h3 => retry_reachC f params false value 10 (retry f true 10 lp.w.fn p value h none).fn
        (retry f true 10 lp.w.fn p value h none).p h3 none r1.2
      simp only []
      repeat' split
      all_goals first
        | exact r1.1
        | exact r1.1.trans (r3 _).1

theorem probe5_reachC (f : List ℝ → ℝ) (params : PList ℝ) (fn : Fn ℝ) (p : PList ℝ) (x : ℝ) (hp : PW params p) :
    ReachC f params fn (probe5 f fn p x).1 ∧ PW params (probe5 f fn p x).2.1 := by
  unfold probe5
  split
  · exact ⟨ReachC.refl _, hp⟩
  · rename_i p0 rest
    split
    · exact ⟨ReachC.refl _, hp⟩
    · rename_i p0' hs
      have h0 : PWelem params p0' := PWelem_setValue (hp p0 (List.mem_cons_self ..)) hs
      have hp' : PW params (p0' :: rest) := PW.cons h0 hp.tail
      simp only []
      split <;> (rename_i h; exact ⟨(ReachC.refl fn).of_set hp' h, hp'⟩)

theorem central5_reachC (f : List ℝ → ℝ) (params : PList ℝ) (fn : Fn ℝ) (p : PList ℝ) (value h f1 f3 : ℝ) (hp : PW params p) :
    ReachC f params fn (central5 f fn p value h f1 f3).1 ∧ PW params (central5 f fn p value h f1 f3).2.1 := by
  unfold central5
  simp only []
  have h1 := probe5_reachC f params fn p (value + ofInt 2 * h) hp
  rcases hs1 : probe5 f fn p (value + ofInt 2 * h) with ⟨fn1, p1, o1⟩
  rw [hs1] at h1
  cases o1 with
  | none => exact h1
  | some v1 =>
    simp only [] at h1 ⊢
    have h2 := probe5_reachC f params fn1 p1 (value - h) h1.2
    rcases hs2 : probe5 f fn1 p1 (value - h) with ⟨fn2, p2, o2⟩
    rw [hs2] at h2
    cases o2 with
    | none => exact ⟨h1.1.trans h2.1, h2.2⟩
    | some v2 =>
      simp only [] at h2 ⊢
      have h3 := probe5_reachC f params fn2 p2 (value + h) h2.2
      rcases hs3 : probe5 f fn2 p2 (value + h) with ⟨fn3, p3, o3⟩
      rw [hs3] at h3
      cases o3 <;> exact ⟨(h1.1.trans h2.1).trans h3.1, h3.2⟩

theorem backward5_reachC (f : List ℝ → ℝ) (params : PList ℝ) (fn : Fn ℝ) (p : PList ℝ) (value h f3 : ℝ) (hp : PW params p) :
    ReachC f params fn (backward5 f fn p value h f3).1 ∧ PW params (backward5 f fn p value h f3).2.1 := by
  unfold backward5
  simp only []
  have h1 := probe5_reachC f params fn p (value - h) hp
  rcases hs1 : probe5 f fn p (value - h) with ⟨fn1, p1, o1⟩
  rw [hs1] at h1
  cases o1 with
  | none => exact h1
  | some v1 =>
    simp only [] at h1 ⊢
    have h2 := probe5_reachC f params fn1 p1 (value - ofInt 2 * h) h1.2
    rcases hs2 : probe5 f fn1 p1 (value - ofInt 2 * h) with ⟨fn2, p2, o2⟩
    rw [hs2] at h2
    cases o2 <;> exact ⟨h1.1.trans h2.1, h2.2⟩

theorem forward5_reachC (f : List ℝ → ℝ) (params : PList ℝ) (fn : Fn ℝ) (p : PList ℝ) (value h f3 : ℝ) (hp : PW params p) :
    ReachC f params fn (forward5 f fn p value h f3).1 ∧ PW params (forward5 f fn p value h f3).2.1 := by
  unfold forward5
  simp only []
  have h1 := probe5_reachC f params fn p (value + h) hp
  rcases hs1 : probe5 f fn p (value + h) with ⟨fn1, p1, o1⟩
  rw [hs1] at h1
  cases o1 with
  | none => exact h1
  | some v1 =>
    simp only [] at h1 ⊢
    have h2 := probe5_reachC f params fn1 p1 (value + ofInt 2 * h) h1.2
    rcases hs2 : probe5 f fn1 p1 (value + ofInt 2 * h) with ⟨fn2, p2, o2⟩
    rw [hs2] at h2
    cases o2 <;> exact ⟨h1.1.trans h2.1, h2.2⟩

theorem probes5_reachC (f : List ℝ → ℝ) (params : PList ℝ) (fn : Fn ℝ) (p : PList ℝ) (value h f3 : ℝ) (hp : PW params p) :
    ReachC f params fn (probes5 f fn p value h f3).1 ∧ PW params (probes5 f fn p value h f3).2.1 := by
  unfold probes5
  simp only []
  have h1 := probe5_reachC f params fn p (value - ofInt 2 * h) hp
  rcases hs1 : probe5 f fn p (value - ofInt 2 * h) with ⟨fn1, p1, o1⟩
  rw [hs1] at h1
  cases o1 with
  | none =>
    have h4 := forward5_reachC f params fn1 p1 value h f3 h1.2
    exact ⟨h1.1.trans h4.1, h4.2⟩
  | some v1 =>
    simp only [] at h1 ⊢
    have h2 := central5_reachC f params fn1 p1 value h v1 f3 h1.2
    rcases hs2 : central5 f fn1 p1 value h v1 f3 with ⟨fn2, p2, o2⟩
    rw [hs2] at h2
    cases o2 with
    | some d => exact ⟨h1.1.trans h2.1, h2.2⟩
    | none =>
      simp only [] at h2 ⊢
      have h3 := backward5_reachC f params fn2 p2 value h f3 h2.2
      rcases hs3 : backward5 f fn2 p2 value h f3 with ⟨fn3, p3, o3⟩
      rw [hs3] at h3
      cases o3 with
      | some d => exact ⟨(h1.1.trans h2.1).trans h3.1, h3.2⟩
      | none =>
        have h4 := forward5_reachC f params fn3 p3 value h f3 h3.2
        exact ⟨((h1.1.trans h2.1).trans h3.1).trans h4.1, h4.2⟩

theorem step5_reachC (f : List ℝ → ℝ) {params : PList ℝ} (hwf : CallerWF params) (lp : Loop ℝ) (i : Nat) (var : Name) :
    ReachC f params lp.w.fn (step5 f params lp i var).1.w.fn := by
  unfold step5
  split
  · exact ReachC.refl _
  · simp only []
    split
    next => exact ReachC.refl _
    next p hsub =>
      have hp : PW params p := PW_of_mem hwf (subNames_spec params _ _ hsub).2.1
      split
      next => exact ReachC.refl _
      next value _ =>
        have h5 := probes5_reachC f params lp.w.fn p value ((one + Scalar.abs value) * lp.w.h) lp.w.f3 hp
        rcases hs : probes5 f lp.w.fn p value ((one + Scalar.abs value) * lp.w.h) lp.w.f3 with ⟨fn5, p5, o5⟩
        rw [hs] at h5
        cases o5 with
        | none =>
          simp only [] at h5 ⊢
          have hg : ReachC f params lp.w.fn (if decide (p5.length > 1) then fn5.setParameters f (subIdx p5 1) else (fn5, none)).1 := by
            split
            · exact ReachC.setp _ (subIdx_PW h5.2 1) h5.1
            · exact h5.1
          split <;> exact hg
        | some d => rcases d with ⟨d1, d2⟩; exact h5.1

theorem loopGo_reachC (f : List ℝ → ℝ) (params : PList ℝ) (step : Loop ℝ → Nat → Name → Loop ℝ × Option Exc)
    (hstep : ∀ lp i var, ReachC f params lp.w.fn (step lp i var).1.w.fn) :
    ∀ (vs : List Name) (i : Nat) (lp : Loop ℝ), ReachC f params lp.w.fn (loopGo step vs i lp).1.w.fn := by
  intro vs
  induction vs with
  | nil => intro i lp; exact ReachC.refl _
  | cons v vs ih =>
    intro i lp
    unfold loopGo
    have h := hstep lp i v
    rcases hs : step lp i v with ⟨lp', e⟩
    rw [hs] at h
    cases e with
    | some e => exact h
    | none => exact h.trans (ih (i + 1) lp')

theorem setEval_reachC (f : List ℝ → ℝ) (params : PList ℝ) (fn : Fn ℝ) (q : Param ℝ) (x : ℝ) (hq : PWelem params q) :
    ReachC f params fn (setEval f fn q x).1 ∧ ∀ q' v, (setEval f fn q x).2 = some (q', v) → PWelem params q' := by
  unfold setEval
  split
  · exact ⟨ReachC.refl _, fun _ _ h => by cases h⟩
  · rename_i q1 hs
    have h1 : PWelem params q1 := PWelem_setValue hq hs
    have hpw : PW params [q1] := PW.cons h1 (fun _ hy => by cases hy)
    split
    · rename_i h; exact ⟨(ReachC.refl fn).of_set hpw h, fun _ _ h => by cases h⟩
    · rename_i h
      refine ⟨(ReachC.refl fn).of_set hpw h, ?_⟩
      intro q' v he; injection he with he; injection he with he _; rw [← he]; exact h1

theorem ReachC.of_setEval {f : List ℝ → ℝ} {params : PList ℝ} {a b b' : Fn ℝ} {q : Param ℝ} {x : ℝ} {o : Option (Param ℝ × ℝ)}
    (h : ReachC f params a b) (hq : PWelem params q) (he : setEval f b q x = (b', o)) : ReachC f params a b' := by
  have : b' = (setEval f b q x).1 := by rw [he]
  rw [this]; exact h.trans (setEval_reachC f params b q x hq).1

theorem crossFail_reachC (f : List ℝ → ℝ) {params : PList ℝ} (hwf : CallerWF params) (cl : CLoop ℝ) {a : Fn ℝ} (fn : Fn ℝ)
    (h : ReachC f params a fn) : ReachC f params a (crossFail f params cl fn).1.w.fn := by
  unfold crossFail
  exact ReachC.setp _ (PW_of_mem hwf (fun _ hx => hx)) (ReachC.en2 _ (ReachC.en1 _ h))

theorem crossPair_reachC (f : List ℝ → ℝ) {params : PList ℝ} (hwf : CallerWF params) (cl : CLoop ℝ) (i j : Nat) (var1 var2 : Name) :
    ReachC f params cl.w.fn (crossPair f params cl i j var1 var2).1.w.fn := by
  unfold crossPair
  simp only []
  split
  next => exact ReachC.refl _
  next p hsub =>
    have hp : PW params p := PW_of_mem hwf (subNames_spec params _ _ hsub).2.1
    split
    next p0 p1 rest =>
      have e0 : PWelem params p0 := hp p0 (by simp)
      have e1 : PWelem params p1 := hp p1 (by simp)
      have er : PW params rest := fun x hx => hp x (by simp [hx])
      split
      next => exact crossFail_reachC f hwf cl _ (ReachC.refl _)
      next p0a hs0 =>
        have e0a := PWelem_setValue e0 hs0
        split
        next => exact crossFail_reachC f hwf cl _ (ReachC.refl _)
        next p1a hs1 =>
          have e1a := PWelem_setValue e1 hs1
          have hpw : PW params (p0a :: p1a :: rest) := PW.cons e0a (PW.cons e1a er)
          split
          next fn1 _ h => exact crossFail_reachC f hwf cl _ ((ReachC.refl _).of_set hpw h)
          next fn1 h =>
            have r1 : ReachC f params cl.w.fn fn1 := (ReachC.refl _).of_set hpw h
            split
            next fn2 h2 => exact crossFail_reachC f hwf cl _ (r1.of_setEval e1a h2)
            next fn2 p1b f12 h2 =>
              have r2 : ReachC f params cl.w.fn fn2 := r1.of_setEval e1a h2
              have e1b : PWelem params p1b := by
                have := (setEval_reachC f params fn1 p1a _ e1a).2 p1b f12 (by rw [h2])
                exact this
              split
              next fn3 h3 => exact crossFail_reachC f hwf cl _ (r2.of_setEval e0a h3)
              next fn3 _ f22 h3 =>
                have r3 : ReachC f params cl.w.fn fn3 := r2.of_setEval e0a h3
                split
                next fn4 h4 => exact crossFail_reachC f hwf cl _ (r3.of_setEval e1b h4)
                next fn4 _ f21 h4 => exact r3.of_setEval e1b h4
    next => exact ReachC.refl _

theorem crossRow_reachC (f : List ℝ → ℝ) {params : PList ℝ} (hwf : CallerWF params) (i : Nat) (var1 : Name) :
    ∀ (vs : List Name) (j : Nat) (cl : CLoop ℝ), ReachC f params cl.w.fn (crossRow f params i var1 vs j cl).1.w.fn := by
  intro vs
  induction vs with
  | nil => intro j cl; exact ReachC.refl _
  | cons v vs ih =>
    intro j cl
    unfold crossRow
    split
    · split
      · exact ReachC.refl _
      · exact (ih (j + 1) { cl with w := { cl.w with cross := setAt2 cl.w.cross i j _ } })
    · split
      · exact ih _ _
      · have h := crossPair_reachC f hwf cl i j var1 v
        rcases hs : crossPair f params cl i j var1 v with ⟨cl', e⟩
        rw [hs] at h
        cases e with
        | some e => exact h
        | none => exact h.trans (ih _ _)

theorem crossGo_reachC (f : List ℝ → ℝ) {params : PList ℝ} (hwf : CallerWF params) (all : List Name) :
    ∀ (vs : List Name) (i : Nat) (cl : CLoop ℝ), ReachC f params cl.w.fn (crossGo f params all vs i cl).1.w.fn := by
  intro vs
  induction vs with
  | nil => intro i cl; exact ReachC.refl _
  | cons v vs ih =>
    intro i cl
    unfold crossGo
    split
    · exact ih _ _
    · have h := crossRow_reachC f hwf i v all 0 cl
      rcases hs : crossRow f params i v all 0 cl with ⟨cl', e⟩
      rw [hs] at h
      cases e with
      | some e => exact h
      | none => exact h.trans (ih _ _)

theorem finish_reachC (f : List ℝ → ℝ) {params : PList ℝ} (hwf : CallerWF params) (lastVar : Option Name) (all : Bool) (w : W ℝ) :
    ReachC f params w.fn (finish f params lastVar all w).1.fn := by
  have h0 : ReachC f params w.fn (({ w with fn := w.fn.enable1 w.c1 } : W ℝ).enable2 w.c2) := by
    unfold W.enable2
    split
    · exact ReachC.en1 w.c1 (ReachC.refl w.fn)
    · exact ReachC.en2 w.c2 (ReachC.en1 w.c1 (ReachC.refl w.fn))
  have hpar : PW params params := PW_of_mem hwf (fun _ h => h)
  unfold finish
  simp only []
  split
  · exact h0
  · split
    · exact ReachC.setp _ hpar h0
    · split
      · exact h0
      · rename_i q hsub
        exact ReachC.setp _ (PW_of_mem hwf (subNames_spec params _ _ hsub).2.1) h0


theorem update2_reachC (f : List ℝ → ℝ) {params : PList ℝ} (hwf : CallerWF params) (w : W ℝ) :
    ReachC f params w.fn (update2 f w params).1.fn := by
  have hpar : PW params params := PW_of_mem hwf (fun _ h => h)
  unfold update2
  split
  · simp only []
    split
    next fn1 _ h => exact (ReachC.en1 false (ReachC.refl w.fn)).of_set hpar h
    next fn1 h =>
      have r1 : ReachC f params w.fn fn1 := (ReachC.en1 false (ReachC.refl w.fn)).of_set hpar h
      split
      · exact ReachC.en1 _ r1
      · have hl := loopGo_reachC f params (step2 f params) (step2_reachC f hwf) w.vars 0
          { w := { w with fn := fn1, f1 := fn1.fval }, p := [], lastVar := none }
        rcases hs : loopGo (step2 f params) w.vars 0 { w := { w with fn := fn1, f1 := fn1.fval }, p := [], lastVar := none } with ⟨lp, e⟩
        rw [hs] at hl
        cases e with
        | some e => exact r1.trans hl
        | none => exact (r1.trans hl).trans (finish_reachC f hwf lp.lastVar false lp.w)
  · simp only []
    have r0 : ReachC f params w.fn (({ w with fn := w.fn.enable1 w.c1 } : W ℝ).enable2 w.c2) := by
      unfold W.enable2
      split
      · exact ReachC.en1 w.c1 (ReachC.refl w.fn)
      · exact ReachC.en2 w.c2 (ReachC.en1 w.c1 (ReachC.refl w.fn))
    split
    next fn1 _ h => exact r0.of_set hpar h
    next fn1 h => exact r0.of_set hpar h

theorem update3_reachC (f : List ℝ → ℝ) {params : PList ℝ} (hwf : CallerWF params) (w : W ℝ) :
    ReachC f params w.fn (update3 f w params).1.fn := by
  have hpar : PW params params := PW_of_mem hwf (fun _ h => h)
  unfold update3
  split
  · simp only []
    have r0 : ReachC f params w.fn ((w.fn.enable1 false).enable2 false) := ReachC.en2 false (ReachC.en1 false (ReachC.refl w.fn))
    split
    next fn1 _ h => exact r0.of_set hpar h
    next fn1 h =>
      have r1 : ReachC f params w.fn fn1 := r0.of_set hpar h
      split
      · exact ReachC.en2 _ (ReachC.en1 _ r1)
      · have hl := loopGo_reachC f params (step3 f params) (step3_reachC f hwf) w.vars 0
          { w := { w with fn := fn1, f2 := fn1.fval }, p := [], lastVar := none }
        rcases hs : loopGo (step3 f params) w.vars 0 { w := { w with fn := fn1, f2 := fn1.fval }, p := [], lastVar := none } with ⟨lp, e⟩
        rw [hs] at hl
        cases e with
        | some e => exact r1.trans hl
        | none =>
          simp only []
          split
          · split
            · exact (r1.trans hl).trans (finish_reachC f hwf lp.lastVar true lp.w)
            · rename_i l _
              have hc := crossGo_reachC f hwf lp.w.vars lp.w.vars 0 { w := lp.w, l1 := l, l2 := l }
              rcases hcs : crossGo f params lp.w.vars lp.w.vars 0 { w := lp.w, l1 := l, l2 := l } with ⟨cl, e⟩
              rw [hcs] at hc
              cases e with
              | some e => exact (r1.trans hl).trans hc
              | none => exact ((r1.trans hl).trans hc).trans (finish_reachC f hwf lp.lastVar true cl.w)
          · exact (r1.trans hl).trans (finish_reachC f hwf lp.lastVar false lp.w)
  · simp only []
    have r0 : ReachC f params w.fn ((w.fn.enable1 w.c1).enable2 w.c2) := ReachC.en2 _ (ReachC.en1 _ (ReachC.refl w.fn))
    split
    next fn1 _ h => exact r0.of_set hpar h
    next fn1 h => exact r0.of_set hpar h

theorem update5_reachC (f : List ℝ → ℝ) {params : PList ℝ} (hwf : CallerWF params) (w : W ℝ) :
    ReachC f params w.fn (update5 f w params).1.fn := by
  have hpar : PW params params := PW_of_mem hwf (fun _ h => h)
  unfold update5
  split
  · simp only []
    have r0 : ReachC f params w.fn ((w.fn.enable1 false).enable2 false) := ReachC.en2 false (ReachC.en1 false (ReachC.refl w.fn))
    split
    next fn1 _ h => exact r0.of_set hpar h
    next fn1 h =>
      have r1 : ReachC f params w.fn fn1 := r0.of_set hpar h
      have hl := loopGo_reachC f params (step5 f params) (step5_reachC f hwf) w.vars 0
        { w := { w with fn := fn1, f3 := fn1.fval }, p := [], lastVar := none }
      rcases hs : loopGo (step5 f params) w.vars 0 { w := { w with fn := fn1, f3 := fn1.fval }, p := [], lastVar := none } with ⟨lp, e⟩
      rw [hs] at hl
      cases e with
      | some e => exact r1.trans hl
      | none => exact (r1.trans hl).trans (finish_reachC f hwf lp.lastVar false lp.w)
  · simp only []
    have r0 : ReachC f params w.fn ((w.fn.enable1 w.c1).enable2 w.c2) := ReachC.en2 _ (ReachC.en1 _ (ReachC.refl w.fn))
    split
    next fn1 _ h => exact r0.of_set hpar h
    next fn1 h => exact r0.of_set hpar h

theorem update_reachC (f : List ℝ → ℝ) {params : PList ℝ} (hwf : CallerWF params) (w : W ℝ) :
    ReachC f params w.fn (w.update f params).1.fn := by
  unfold W.update
  split
  · exact update2_reachC f hwf w
  · exact update3_reachC f hwf w
  · exact update5_reachC f hwf w

/-- the wrapped function holds the values of a well-formed list: its point is accepted by the
constraints of that list -/
theorem CF_of_synced {params l : PList ℝ} (hwf : CallerWF params) (hs : Synced params l) : CF params l := by
  intro b hb q hq
  have hq' := find?_some hq
  rw [hs q hq'.1 b hb hq'.2.symm]
  exact hwf.2 q hq'.1

end Bpp.NumDeriv
