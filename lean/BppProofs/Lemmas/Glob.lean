import BppModel.Text.Glob
/-! Helper lemmas for C17 (wildcard matcher = textbook glob). -/
namespace Bpp.Text.Glob
open Bpp.Text

/-! ### `isPrefix`, `find`, `rfind` -/

theorem isPrefix_iff {g s : Str} : isPrefix g s = true ↔ ∃ t, s = g ++ t := by
  induction g generalizing s with
  | nil => simp [isPrefix]
  | cons a g ih =>
    cases s with
    | nil => simp [isPrefix]
    | cons b s =>
      simp only [isPrefix, Bool.and_eq_true, beq_iff_eq, ih, List.cons_append, List.cons.injEq]
      constructor
      · rintro ⟨rfl, t, rfl⟩; exact ⟨t, rfl, rfl⟩
      · rintro ⟨t, rfl, rfl⟩; exact ⟨rfl, t, rfl⟩

theorem isPrefix_length {g s : Str} (h : isPrefix g s = true) : g.length ≤ s.length := by
  obtain ⟨t, rfl⟩ := isPrefix_iff.mp h; simp

theorem isPrefix_drop {g s : Str} (h : isPrefix g s = true) : s = g ++ s.drop g.length := by
  obtain ⟨t, rfl⟩ := isPrefix_iff.mp h; simp

theorem find_zero_iff {g s : Str} : find g s = some 0 ↔ isPrefix g s = true := by
  cases s with
  | nil => cases g <;> simp [find, isPrefix]
  | cons c s =>
    simp only [find]
    by_cases h : isPrefix g (c :: s) = true
    · simp [h]
    · simp only [h, Bool.false_eq_true, if_false, iff_false]
      cases find g s <;> simp

theorem find_some {g s : Str} {k : Nat} (h : find g s = some k) :
    isPrefix g (s.drop k) = true ∧ k ≤ s.length ∧ ∀ j, j < k → isPrefix g (s.drop j) = false := by
  induction s generalizing k with
  | nil =>
    simp only [find] at h
    split at h
    · simp at h; subst h; rename_i hg; simp at hg; subst hg; simp [isPrefix]
    · cases h
  | cons c s ih =>
    simp only [find] at h
    split at h
    · simp at h; subst h; rename_i hp; simp [hp]
    · rename_i hp
      cases hf : find g s with
      | none => simp [hf] at h
      | some k' =>
        simp [hf] at h; subst h
        obtain ⟨h1, h2, h3⟩ := ih hf
        refine ⟨by simpa using h1, by simp; omega, ?_⟩
        intro j hj
        cases j with
        | zero => simpa using hp
        | succ j => simpa using h3 j (by omega)

theorem find_none {g s : Str} (h : find g s = none) :
    ∀ j, j ≤ s.length → isPrefix g (s.drop j) = false := by
  induction s with
  | nil =>
    intro j _
    simp only [find] at h
    split at h
    · cases h
    · rename_i hg; cases g with
      | nil => simp at hg
      | cons a g => simp [isPrefix]
  | cons c s ih =>
    simp only [find] at h
    split at h
    · cases h
    · rename_i hp
      cases hf : find g s with
      | some k' => simp [hf] at h
      | none =>
        intro j hj
        cases j with
        | zero => simpa using hp
        | succ j => simpa using ih hf j (by simpa using hj)

theorem rfind_some {g s : Str} {k : Nat} (h : rfind g s = some k) :
    isPrefix g (s.drop k) = true ∧ k ≤ s.length ∧
      ∀ j, k < j → j ≤ s.length → isPrefix g (s.drop j) = false := by
  induction s generalizing k with
  | nil =>
    simp only [rfind] at h
    split at h
    · simp at h; subst h; rename_i hg; simp at hg; subst hg
      exact ⟨by simp [isPrefix], by simp, fun j h1 h2 => by simp at h2; omega⟩
    · cases h
  | cons c s ih =>
    simp only [rfind] at h
    cases hf : rfind g s with
    | some k' =>
      simp [hf] at h; subst h
      obtain ⟨h1, h2, h3⟩ := ih hf
      refine ⟨by simpa using h1, by simp; omega, ?_⟩
      intro j hj hj2
      cases j with
      | zero => omega
      | succ j => simpa using h3 j (by omega) (by simpa using hj2)
    | none =>
      simp only [hf] at h
      split at h
      · simp at h; subst h; rename_i hp
        refine ⟨by simpa using hp, by simp, ?_⟩
        intro j hj hj2
        cases j with
        | zero => omega
        | succ j =>
          -- no occurrence in the tail
          have : ∀ (s : Str), rfind g s = none → ∀ j, j ≤ s.length → isPrefix g (s.drop j) = false := by
            intro s
            induction s with
            | nil =>
              intro h j _
              simp only [rfind] at h
              split at h
              · cases h
              · rename_i hg; cases g with
                | nil => simp at hg
                | cons a g => simp [isPrefix]
            | cons c s ih2 =>
              intro h j hj
              simp only [rfind] at h
              cases hf2 : rfind g s with
              | some k2 => simp [hf2] at h
              | none =>
                simp only [hf2] at h
                split at h
                · cases h
                · rename_i hp2
                  cases j with
                  | zero => simpa using hp2
                  | succ j => simpa using ih2 hf2 j (by simpa using hj)
          simpa using this s hf j (by simpa using hj2)
      · cases h

theorem rfind_none {g s : Str} (h : rfind g s = none) :
    ∀ j, j ≤ s.length → isPrefix g (s.drop j) = false := by
  induction s with
  | nil =>
    intro j _
    simp only [rfind] at h
    split at h
    · cases h
    · rename_i hg; cases g with
      | nil => simp at hg
      | cons a g => simp [isPrefix]
  | cons c s ih =>
    intro j hj
    simp only [rfind] at h
    cases hf : rfind g s with
    | some k => simp [hf] at h
    | none =>
      simp only [hf] at h
      split at h
      · cases h
      · rename_i hp
        cases j with
        | zero => simpa using hp
        | succ j => simpa using ih hf j (by simpa using hj)

/-- an occurrence of `g` as a suffix, by position -/
theorem suffix_iff_occ {g s : Str} :
    g <:+ s ↔ g.length ≤ s.length ∧ isPrefix g (s.drop (s.length - g.length)) = true := by
  constructor
  · rintro ⟨t, rfl⟩
    refine ⟨by simp, ?_⟩
    have : (t ++ g).length - g.length = t.length := by simp
    rw [this, List.drop_left]
    exact isPrefix_iff.mpr ⟨[], by simp⟩
  · rintro ⟨hl, hp⟩
    obtain ⟨t, ht⟩ := isPrefix_iff.mp hp
    have hlen : (s.drop (s.length - g.length)).length = g.length := by simp; omega
    have : t = [] := by
      have := congrArg List.length ht
      rw [hlen] at this; simp at this; exact this
    subst this
    refine ⟨s.take (s.length - g.length), ?_⟩
    have := List.take_append_drop (s.length - g.length) s
    rw [ht] at this; simpa using this

/-- `name.rfind(g) == name.length() - g.length()` says "`g` is a suffix", except for the
wrap-around when `g` is exactly one longer than the name -/
theorem rfindEqEnd_iff {g s : Str} :
    rfindEqEnd g s = true ↔ (g <:+ s ∨ g.length = s.length + 1) := by
  unfold rfindEqEnd
  cases hf : rfind g s with
  | some k =>
    obtain ⟨h1, h2, h3⟩ := rfind_some hf
    have hl := isPrefix_length h1
    simp only [List.length_drop] at hl
    simp only [decide_eq_true_eq]
    constructor
    · intro hk
      left
      rw [suffix_iff_occ]
      refine ⟨by omega, ?_⟩
      have : s.length - g.length = k := by omega
      rw [this]; exact h1
    · rintro (hsuf | hq)
      · obtain ⟨hle, hp⟩ := suffix_iff_occ.mp hsuf
        by_cases hk : k < s.length - g.length
        · have := h3 _ hk (by omega)
          rw [this] at hp; cases hp
        · omega
      · omega
  | none =>
    simp only [decide_eq_true_eq]
    constructor
    · intro h; right; exact h
    · rintro (hsuf | hq)
      · obtain ⟨hle, hp⟩ := suffix_iff_occ.mp hsuf
        have := rfind_none hf _ (by omega : s.length - g.length ≤ s.length)
        rw [this] at hp; cases hp
      · exact hq

/-! ### textbook glob -/

def NoStar (g : Str) : Prop := ∀ c ∈ g, c ≠ '*'

theorem globMatch_nil (n : Str) : globMatch [] n = true ↔ n = [] := by
  cases n <;> simp [globMatch]

/-- `*` followed by `p` matches `n` iff `p` matches some suffix of `n` -/
theorem globMatch_star {p n : Str} :
    globMatch ('*' :: p) n = true ↔ ∃ k, k ≤ n.length ∧ globMatch p (n.drop k) = true := by
  induction n with
  | nil =>
    rw [globMatch]
    simp
  | cons c n ih =>
    rw [globMatch]
    simp only [beq_self_eq_true, if_true, Bool.or_eq_true, ih]
    constructor
    · rintro (h | ⟨k, hk, h⟩)
      · exact ⟨0, by simp, h⟩
      · exact ⟨k + 1, by simp; omega, by simpa using h⟩
    · rintro ⟨k, hk, h⟩
      cases k with
      | zero => left; simpa using h
      | succ k => right; exact ⟨k, by simpa using hk, by simpa using h⟩

/-- dropping a prefix of the text cannot help a pattern that starts with `*` -/
theorem globMatch_star_mono {p n : Str} (d : Nat) (h : globMatch ('*' :: p) (n.drop d) = true) :
    globMatch ('*' :: p) n = true := by
  obtain ⟨k, hk, h⟩ := globMatch_star.mp h
  rw [List.drop_drop] at h
  by_cases hd : d ≤ n.length
  · exact globMatch_star.mpr ⟨d + k, by simp at hk; omega, h⟩
  · have : n.drop d = [] := List.drop_eq_nil_of_le (by omega)
    refine globMatch_star.mpr ⟨n.length, Nat.le_refl _, ?_⟩
    have h2 : n.drop (d + k) = [] := List.drop_eq_nil_of_le (by omega)
    rw [h2] at h; simpa using h

theorem globMatch_star_congr {p q : Str} (h : ∀ m, globMatch p m = globMatch q m) (n : Str) :
    globMatch ('*' :: p) n = globMatch ('*' :: q) n := by
  rw [Bool.eq_iff_iff, globMatch_star, globMatch_star]
  simp only [h]

theorem globMatch_star_star (p n : Str) :
    globMatch ('*' :: '*' :: p) n = globMatch ('*' :: p) n := by
  rw [Bool.eq_iff_iff]
  constructor
  · intro h
    obtain ⟨k, _, h⟩ := globMatch_star.mp h
    exact globMatch_star_mono k h
  · intro h
    exact globMatch_star.mpr ⟨0, by omega, by simpa using h⟩

theorem globMatch_cons_ne {a : Char} (ha : a ≠ '*') (p n : Str) :
    globMatch (a :: p) n = true ↔ ∃ t, n = a :: t ∧ globMatch p t = true := by
  have ha' : (a == '*') = false := by simpa using ha
  cases n with
  | nil => rw [globMatch]; simp [ha']
  | cons c n =>
    rw [globMatch]
    simp only [ha', Bool.false_eq_true, if_false, Bool.and_eq_true, beq_iff_eq, List.cons.injEq]
    constructor
    · rintro ⟨rfl, h⟩; exact ⟨n, ⟨rfl, rfl⟩, h⟩
    · rintro ⟨t, ⟨rfl, rfl⟩, h⟩; exact ⟨rfl, h⟩

/-- a star-free piece matches itself as a prefix, the rest of the pattern the rest of the text -/
theorem globMatch_append {g : Str} (hg : NoStar g) (q n : Str) :
    globMatch (g ++ q) n = true ↔ ∃ t, n = g ++ t ∧ globMatch q t = true := by
  induction g generalizing n with
  | nil => simp
  | cons a g ih =>
    have ha : a ≠ '*' := hg a (List.mem_cons_self ..)
    have hg' : NoStar g := fun c hc => hg c (List.mem_cons_of_mem _ hc)
    rw [List.cons_append, globMatch_cons_ne ha]
    constructor
    · rintro ⟨t, rfl, h⟩
      obtain ⟨u, rfl, hu⟩ := (ih hg' t).mp h
      exact ⟨u, rfl, hu⟩
    · rintro ⟨u, rfl, hu⟩
      exact ⟨g ++ u, rfl, (ih hg' _).mpr ⟨u, rfl, hu⟩⟩

theorem globMatch_noStar {g : Str} (hg : NoStar g) (n : Str) : globMatch g n = true ↔ n = g := by
  have := globMatch_append hg [] n
  rw [List.append_nil] at this
  rw [this]
  constructor
  · rintro ⟨t, rfl, h⟩; rw [(globMatch_nil t).mp h]; simp
  · rintro rfl; exact ⟨[], by simp, by simp [globMatch]⟩

/-- `*g` (last piece) matches exactly the texts that end with `g` -/
theorem globMatch_star_last {g : Str} (hg : NoStar g) (m : Str) :
    globMatch ('*' :: g) m = true ↔ g <:+ m := by
  rw [globMatch_star]
  constructor
  · rintro ⟨k, _, h⟩
    rw [globMatch_noStar hg] at h
    exact ⟨m.take k, by rw [← h]; exact List.take_append_drop k m⟩
  · rintro ⟨t, rfl⟩
    exact ⟨t.length, by simp, by rw [List.drop_left, globMatch_noStar hg]⟩

/-! ### the pattern rebuilt from its tokens -/

/-- `*t1*t2…*tk` -/
def stars : List Str → Str
  | [] => []
  | t :: ts => '*' :: (t ++ stars ts)

/-- `g*t1*…*tk` -/
def untok (g : Str) (ts : List Str) : Str := g ++ stars ts

theorem starTokens_ne_nil (b : Bool) (p : Str) : starTokens b p ≠ [] := by
  induction p generalizing b with
  | nil => simp [starTokens]
  | cons c rest ih =>
    simp only [starTokens]
    split
    · split
      · exact ih true
      · simp
    · split <;> simp

/-- cutting at runs of `*` does not change what the pattern matches; `skip = true` is the state
"just after a `*`". -/
theorem globMatch_tokens (p : Str) :
    (∀ g ts, starTokens false p = g :: ts → ∀ n, globMatch p n = globMatch (untok g ts) n) ∧
    (∀ g ts, starTokens true p = g :: ts → ∀ n, globMatch ('*' :: p) n = globMatch ('*' :: untok g ts) n) := by
  induction p with
  | nil =>
    constructor
    · intro g ts h n; simp [starTokens] at h; rcases h with ⟨rfl, rfl⟩; simp [untok, stars]
    · intro g ts h n; simp [starTokens] at h; rcases h with ⟨rfl, rfl⟩; simp [untok, stars]
  | cons c rest ih =>
    by_cases hc : c = '*'
    · subst hc
      constructor
      · intro g ts h n
        simp only [starTokens, beq_self_eq_true, if_true, Bool.false_eq_true, if_false, List.cons.injEq] at h
        rcases h with ⟨rfl, hts⟩
        cases ts with
        | nil => exact absurd hts (starTokens_ne_nil true rest)
        | cons g' ts' =>
          have := ih.2 g' ts' hts n
          simpa [untok, stars] using this
      · intro g ts h n
        simp only [starTokens, beq_self_eq_true, if_true] at h
        rw [globMatch_star_star]
        exact ih.2 g ts h n
    · have hc' : (c == '*') = false := by simpa using hc
      have key : ∀ g ts, starTokens false (c :: rest) = g :: ts →
          ∃ t, g = c :: t ∧ starTokens false rest = t :: ts := by
        intro g ts h
        simp only [starTokens, hc', Bool.false_eq_true, if_false] at h
        cases hr : starTokens false rest with
        | nil => exact absurd hr (starTokens_ne_nil false rest)
        | cons t ts' =>
          rw [hr] at h; simp at h
          exact ⟨t, h.1.symm, by rw [h.2]⟩
      have first : ∀ g ts, starTokens false (c :: rest) = g :: ts →
          ∀ n, globMatch (c :: rest) n = globMatch (untok g ts) n := by
        intro g ts h n
        obtain ⟨t, rfl, ht⟩ := key g ts h
        rw [Bool.eq_iff_iff]
        show _ ↔ globMatch (c :: untok t ts) n = true
        rw [globMatch_cons_ne hc, globMatch_cons_ne hc]
        simp only [ih.1 t ts ht]
      constructor
      · exact first
      · intro g ts h n
        have h' : starTokens false (c :: rest) = g :: ts := by
          simp only [starTokens, hc', Bool.false_eq_true, if_false] at h ⊢; exact h
        exact globMatch_star_congr (first g ts h') n

theorem starTokens_noStar (b : Bool) (p : Str) : ∀ t ∈ starTokens b p, NoStar t := by
  induction p generalizing b with
  | nil => intro t ht; simp [starTokens] at ht; subst ht; intro c hc; simp at hc
  | cons c rest ih =>
    intro t ht
    simp only [starTokens] at ht
    split at ht
    · split at ht
      · exact ih true t ht
      · rcases List.mem_cons.mp ht with rfl | h
        · intro c hc; simp at hc
        · exact ih true t h
    · rename_i hc
      have hc' : c ≠ '*' := by simpa using hc
      split at ht
      · rename_i t0 ts hr
        rcases List.mem_cons.mp ht with rfl | h
        · intro d hd
          rcases List.mem_cons.mp hd with rfl | hd
          · exact hc'
          · exact ih false t0 (by rw [hr]; exact List.mem_cons_self ..) d hd
        · exact ih false t (by rw [hr]; exact List.mem_cons_of_mem _ h)
      · simp at ht; subst ht
        intro d hd; simp at hd; subst hd; exact hc'

/-! ### the greedy loop on suffixes -/

/-- the loop of the matcher, on the not-yet-consumed suffix of the name, with the final test folded
in: every piece but the last is looked up leftmost, the last must be a suffix -/
def starLoop : Str → List Str → Bool
  | _, [] => true
  | m, [g] => decide (g <:+ m)
  | m, g :: t :: ts =>
    match find g m with
    | none => false
    | some k => starLoop (m.drop (k + g.length)) (t :: ts)

theorem stars_cons_cons (g t : Str) (ts : List Str) :
    stars (g :: t :: ts) = '*' :: (g ++ ('*' :: (t ++ stars ts))) := rfl

/-- greedy leftmost matching is complete for `*`-only patterns -/
theorem starLoop_eq_glob (ts : List Str) (hne : ts ≠ []) (hts : ∀ t ∈ ts, NoStar t) (m : Str) :
    starLoop m ts = globMatch (stars ts) m := by
  induction ts generalizing m with
  | nil => exact absurd rfl hne
  | cons g ts ih =>
    have hg : NoStar g := hts g (List.mem_cons_self ..)
    cases ts with
    | nil =>
      rw [Bool.eq_iff_iff]
      simp only [starLoop, stars, List.append_nil, decide_eq_true_eq]
      exact (globMatch_star_last hg m).symm
    | cons t ts' =>
      have ih' := ih (by simp) (fun x hx => hts x (List.mem_cons_of_mem _ hx))
      rw [Bool.eq_iff_iff, stars_cons_cons, globMatch_star]
      simp only [starLoop]
      constructor
      · intro h
        cases hf : find g m with
        | none => simp [hf] at h
        | some k0 =>
          simp only [hf] at h
          obtain ⟨h1, h2, _⟩ := find_some hf
          refine ⟨k0, h2, (globMatch_append hg _ _).mpr ⟨(m.drop k0).drop g.length, isPrefix_drop h1, ?_⟩⟩
          rw [List.drop_drop]
          have e := ih' (m.drop (k0 + g.length))
          rw [h] at e
          exact e.symm
      · rintro ⟨k, hk, h⟩
        obtain ⟨u, hu, hm⟩ := (globMatch_append hg _ _).mp h
        have hocc : isPrefix g (m.drop k) = true := isPrefix_iff.mpr ⟨u, hu⟩
        cases hf : find g m with
        | none => have := find_none hf k hk; rw [this] at hocc; cases hocc
        | some k0 =>
          simp only
          obtain ⟨h1, h2, h3⟩ := find_some hf
          have hle : k0 ≤ k := by
            by_cases hlt : k < k0
            · have := h3 k hlt; rw [this] at hocc; cases hocc
            · omega
          rw [ih']
          -- u = drop (k + |g|) m = drop (k - k0) (drop (k0 + |g|) m)
          have hu' : u = (m.drop (k0 + g.length)).drop (k - k0) := by
            have : u = (m.drop k).drop g.length := by rw [hu]; simp
            rw [this, List.drop_drop, List.drop_drop]; congr 1; omega
          rw [hu'] at hm
          exact globMatch_star_mono (k - k0) hm

/-! ### the index-based loop of the code computes `starLoop` -/

def tailOk (name : Str) (pos1 : Nat) (g : Str) (ts : List Str) : Bool :=
  match matchLoop name pos1 g ts with
  | none => false
  | some (p, gl) => finalTest name p gl

theorem tailOk_nil (name : Str) (pos1 : Nat) (g : Str) : tailOk name pos1 g [] = finalTest name pos1 g := by
  simp [tailOk, matchLoop]

theorem tailOk_cons (name : Str) (pos1 : Nat) (g g' : Str) (ts : List Str) :
    tailOk name pos1 g (g' :: ts) =
      match findFrom g' name pos1 with
      | none => false
      | some pos2 => tailOk name (pos2 + g'.length) g' ts := by
  unfold tailOk
  rw [matchLoop]
  cases findFrom g' name pos1 <;> simp

theorem findFrom_eq {g s : Str} {pos : Nat} (h : pos ≤ s.length) :
    findFrom g s pos = (find g (s.drop pos)).map (· + pos) := by
  simp [findFrom, h]

theorem suffix_of_drop {g s : Str} {pos : Nat} (h : g <:+ s.drop pos) : g <:+ s := by
  obtain ⟨t, ht⟩ := h
  exact ⟨s.take pos ++ t, by rw [List.append_assoc, ht, List.take_append_drop]⟩

theorem suffix_drop_of_le {g s : Str} {pos : Nat} (h : g <:+ s) (hl : g.length + pos ≤ s.length) :
    g <:+ s.drop pos := by
  obtain ⟨t, rfl⟩ := h
  have : pos ≤ t.length := by simp at hl; omega
  rw [List.drop_append_of_le_length this]
  exact ⟨t.drop pos, rfl⟩

theorem tailOk_eq_starLoop (name : Str) (ts : List Str) (hne : ts ≠ []) (pos1 : Nat) (g : Str)
    (hpos : pos1 ≤ name.length) : tailOk name pos1 g ts = starLoop (name.drop pos1) ts := by
  induction ts generalizing pos1 g with
  | nil => exact absurd rfl hne
  | cons g' ts ih =>
    cases ts with
    | nil =>
      rw [tailOk_cons]
      simp only [tailOk_nil, starLoop, findFrom_eq hpos]
      cases hf : find g' (name.drop pos1) with
      | none =>
        simp only [Option.map_none]
        symm; rw [decide_eq_false_iff_not]
        intro hsuf
        obtain ⟨hle, hp⟩ := suffix_iff_occ.mp hsuf
        have := find_none hf _ (by omega : (name.drop pos1).length - g'.length ≤ (name.drop pos1).length)
        rw [this] at hp; cases hp
      | some k =>
        obtain ⟨h1, h2, _⟩ := find_some hf
        have hl := isPrefix_length h1
        simp only [List.length_drop] at hl h2
        simp only [Option.map_some, finalTest]
        rw [Bool.eq_iff_iff]
        simp only [Bool.or_eq_true, beq_iff_eq, decide_eq_true_eq, rfindEqEnd_iff]
        constructor
        · rintro ((h0 | hend) | (hsuf | hq))
          · have : g' = [] := List.eq_nil_of_length_eq_zero h0
            subst this; exact List.nil_suffix
          · -- the occurrence found is at the very end
            rw [suffix_iff_occ]
            simp only [List.length_drop]
            refine ⟨by omega, ?_⟩
            have : name.length - pos1 - g'.length = k := by omega
            rw [this]; exact h1
          · exact suffix_drop_of_le hsuf (by omega)
          · omega
        · intro hsuf
          right; left; exact suffix_of_drop hsuf
    | cons t ts' =>
      rw [tailOk_cons]
      simp only [starLoop, findFrom_eq hpos]
      cases hf : find g' (name.drop pos1) with
      | none => simp
      | some k =>
        obtain ⟨h1, h2, _⟩ := find_some hf
        have hl := isPrefix_length h1
        simp only [List.length_drop] at hl h2
        simp only [Option.map_some]
        have := ih (by simp) (k + pos1 + g'.length) g' (by omega)
        rw [this, List.drop_drop]
        congr 2; omega

/-- the repaired matcher, in terms of the token list -/
theorem matcher_eq (p n : Str) (g : Str) (ts : List Str) (h : starTokens false p = g :: ts) :
    matcher p n = if ts = [] then decide (n = g) else (isPrefix g n && starLoop (n.drop g.length) ts) := by
  unfold matcher
  rw [h]
  simp only
  by_cases hp : isPrefix g n = true
  · have hf : find g n = some 0 := find_zero_iff.mpr hp
    have hl := isPrefix_length hp
    simp only [hf, bne_self_eq_false, Bool.false_eq_true, if_false]
    cases ts with
    | nil =>
      simp only [List.isEmpty_nil, Bool.true_and, if_true]
      by_cases hn : n = g
      · subst hn; simp [matchLoop, finalTest]
      · simp [hn]
    | cons t ts' =>
      have := tailOk_eq_starLoop n (t :: ts') (by simp) g.length g hl
      simp only [tailOk] at this
      simp [hp]
      exact this
  · have hf : find g n ≠ some 0 := fun hh => hp (find_zero_iff.mp hh)
    have hb : (find g n != some 0) = true := by simpa using hf
    simp only [hb, if_true]
    cases ts with
    | nil =>
      simp only [if_true]
      symm; rw [decide_eq_false_iff_not]
      rintro rfl
      exact hp (isPrefix_iff.mpr ⟨[], by simp⟩)
    | cons t ts' => simp [hp]

end Bpp.Text.Glob
