import BppProofs.Lemmas.TreeRooted
/-
The declarative reading of `IsTreeFrom` for directed graphs: every node is joined to the root by
exactly one directed path.  A path from the root to `n` is listed from `n` back to the root
(`UpWalk`): `[n, father of n, ..., root]`, each step a relation father -> son of the graph.
-/
namespace Bpp.Graph
open AL

/-- `w = [n, ..., root]` lists backwards a directed path from `root` to `n` -/
inductive UpWalk (g : G) (root : Nat) : Nat → List Nat → Prop
  | root : UpWalk g root root [root]
  | step {n p : Nat} {w : List Nat} : Arc g p n → UpWalk g root p w → UpWalk g root n (n :: w)

theorem UpWalk.head {g : G} {root n : Nat} {w : List Nat} (h : UpWalk g root n w) : w.head? = some n := by
  cases h <;> rfl

theorem UpWalk.ne_nil {g : G} {root n : Nat} {w : List Nat} (h : UpWalk g root n w) : w ≠ [] := by
  cases h <;> simp

namespace DTree
variable {g : G} {P : PTree}

/-- the ancestor line is a path from the root -/
theorem upWalk_line (h : DTree g P) : ∀ (k n : Nat), P.rank n = k → n ∈ P.nodes → UpWalk g P.root n (lineOf P.par (P.rank n) n) := by
  intro k
  induction k with
  | zero =>
    intro n hk hn
    by_cases hr : n = P.root
    · subst hr; rw [h.wf.rank_root]; exact .root
    · obtain ⟨p, _, _, hrk⟩ := h.wf.par_some n hn hr; omega
  | succ k ih =>
    intro n hk hn
    by_cases hr : n = P.root
    · subst hr; rw [h.wf.rank_root]; exact .root
    · obtain ⟨p, hp, hpm, hrk⟩ := h.wf.par_some n hn hr
      have : lineOf P.par (P.rank n) n = n :: lineOf P.par (P.rank p) p := by rw [hrk]; simp [lineOf, hp]
      rw [this]
      exact .step ((h.arc p n).2 hp) (ih p (by omega) hpm)

/-- and the only one -/
theorem upWalk_unique (h : DTree g P) {n : Nat} {w : List Nat} (hw : UpWalk g P.root n w) : w = lineOf P.par (P.rank n) n := by
  induction hw with
  | root => rw [h.wf.rank_root]; rfl
  | @step n p w ha _ ih =>
    have hp := (h.arc p n).1 ha
    have hrk := (h.wf.par_mem hp).2.2.2
    rw [ih, hrk]; simp [lineOf, hp]

end DTree

/-- **unique directed path**: on a consistent directed graph, `IsTreeFrom` says that every node is
joined to the root by exactly one directed path -/
theorem isTreeFrom_iff_unique_path {g : G} (hc : Consistent g) (hd : g.directed = true) :
    IsTreeFrom g ↔ (g.hasNode g.root = true ∧ ∀ n, g.hasNode n = true → ∃ w, UpWalk g g.root n w ∧ ∀ w', UpWalk g g.root n w' → w' = w) := by
  constructor
  · rintro ⟨P, hw, hm, hr⟩
    have h := DTree.of_matches hc hd hw hm
    refine ⟨(h.nodes _).1 (hr ▸ hw.root_mem), fun n hn => ?_⟩
    have hnP := (h.nodes n).2 hn
    exact ⟨lineOf P.par (P.rank n) n, hr ▸ h.upWalk_line _ n rfl hnP, fun w' hw' => h.upWalk_unique (hr ▸ hw')⟩
  · rintro ⟨hroot, hu⟩
    -- the chosen path of every node
    let W : Nat → List Nat := fun n => if hn : g.hasNode n = true then Classical.choose (hu n hn) else []
    have hW : ∀ n (hn : g.hasNode n = true), UpWalk g g.root n (W n) ∧ ∀ w', UpWalk g g.root n w' → w' = W n := by
      intro n hn
      have := Classical.choose_spec (hu n hn)
      simp only [W, hn, dif_pos]
      exact this
    have hWroot : W g.root = [g.root] := ((hW g.root hroot).2 _ .root).symm
    -- a node other than the root: its path goes through a father, whose path is the rest
    have hstep : ∀ n, g.hasNode n = true → n ≠ g.root → ∃ p, Arc g p n ∧ g.hasNode p = true ∧ W n = n :: W p := by
      intro n hn hne
      have hwn := (hW n hn).1
      cases hcase : W n with
      | nil => exact absurd hcase hwn.ne_nil
      | cons x w' =>
        rw [hcase] at hwn
        cases hwn with
        | root => exact absurd rfl hne
        | @step _ p _ ha hp' =>
          have hpn := (G.arc_nodes hc ha).1
          exact ⟨p, ha, hpn, by rw [(hW p hpn).2 _ hp']⟩
    let P : PTree := { root := g.root, nodes := AL.keys g.nodes,
                       par := fun n => if g.hasNode n = true ∧ n ≠ g.root then (W n)[1]? else none,
                       rank := fun n => (W n).length - 1 }
    have hpar : ∀ n p, g.hasNode n = true → n ≠ g.root → W n = n :: W p → g.hasNode p = true → P.par n = some p := by
      intro n p hn hne hWn hp
      show (if g.hasNode n = true ∧ n ≠ g.root then (W n)[1]? else none) = some p
      rw [if_pos ⟨hn, hne⟩, hWn]
      have := (hW p hp).1.head
      simp only [List.getElem?_cons_succ]
      rw [← List.head?_eq_getElem?]; exact this
    refine ⟨P, ⟨(G.mem_keys_hasNode g _).2 hroot, ?_, ?_, ?_, ?_⟩, ⟨fun n => G.mem_keys_hasNode g n, ?_⟩, rfl⟩
    · show (if g.hasNode g.root = true ∧ g.root ≠ g.root then _ else none) = none
      simp
    · show (W g.root).length - 1 = 0
      rw [hWroot]; rfl
    · intro n hn hne
      have hnn := (G.mem_keys_hasNode g n).1 hn
      obtain ⟨p, _, hp, hWn⟩ := hstep n hnn hne
      refine ⟨p, hpar n p hnn hne hWn hp, (G.mem_keys_hasNode g p).2 hp, ?_⟩
      show (W n).length - 1 = (W p).length - 1 + 1
      rw [hWn]
      have : 0 < (W p).length := List.length_pos_iff.2 (hW p hp).1.ne_nil
      simp only [List.length_cons]; omega
    · intro n hn
      have : ¬ g.hasNode n = true := fun hh => hn ((G.mem_keys_hasNode g n).2 hh)
      show (if g.hasNode n = true ∧ n ≠ g.root then _ else none) = none
      rw [if_neg (fun hh => this hh.1)]
    · intro a b
      simp only [hd, Bool.true_eq_false, false_and, or_false]
      constructor
      · intro hab
        obtain ⟨ha, hb⟩ := G.arc_nodes hc hab
        have hwalk : UpWalk g g.root b (b :: W a) := .step hab (hW a ha).1
        have hWb := ((hW b hb).2 _ hwalk).symm
        have hbr : b ≠ g.root := by
          intro e
          rw [e, hWroot] at hWb
          have := (List.cons.inj hWb).2
          exact (hW a ha).1.ne_nil this.symm
        exact hpar b a hb hbr hWb ha
      · intro hp
        have hp' : (if g.hasNode b = true ∧ b ≠ g.root then (W b)[1]? else none) = some a := hp
        by_cases hcond : g.hasNode b = true ∧ b ≠ g.root
        · obtain ⟨p, hpa, hpn, hWb⟩ := hstep b hcond.1 hcond.2
          have := hpar b p hcond.1 hcond.2 hWb hpn
          rw [hp] at this; cases this
          exact hpa
        · rw [if_neg hcond] at hp'; cases hp'

end Bpp.Graph
