import BppProofs.Lemmas.AliasCheck
/-! C03 (audit, F1): an update whose value is accepted by every parameter it reaches through the
listeners *returns*; the tracking theorems can therefore be stated under the property's input guard
("values inside the (intersected) constraints") instead of the output condition `err = none`. -/
namespace Bpp.Alias
open Bpp.ParamList (Bnd Con Par Store ObjId nameOf find? hasParameter names startsWith)

/-- a listener attached to `a` writes to `b` -/
def Edge (w : World) (a b : ObjId) : Prop := ∃ l ∈ w.lsn a, tgt w l = some b

/-- `t` is `i` or is reached from `i` through listeners (a chain of aliases of any length) -/
def Reach (w : World) : ObjId → ObjId → Prop := Relation.ReflTransGen (Edge w)

theorem Edge.sameBut {w w' : World} (s : SameBut w w') {a b : ObjId} : Edge w' a b ↔ Edge w a b := by
  simp only [Edge, s.lsn, s.tgt]

theorem Reach.sameBut {w w' : World} (s : SameBut w w') {a b : ObjId} : Reach w' a b ↔ Reach w a b := by
  have : Edge w' = Edge w := by funext a b; exact propext (Edge.sameBut s)
  simp only [Reach, this]

/-- what can make `Parameter::setValue(v)` raise at parameter `x`: its constraint rejects `v`
(`ConstraintException`), or a listener attached to it finds another name than it expects at its
position (`Exception` of `parameterValueChanged`) -/
def Bad (w : World) (v : Rat) (e : Err) (x : ObjId) : Prop :=
  ((w.heap.get x).rejects v = true ∧ e = .constraint) ∨
  (e = .bpp ∧ ∃ l ∈ w.lsn x, ∃ t, tgt w l = some t ∧ nameOf w.heap t ≠ (w.lis l).name)

theorem Bad.sameBut {w w' : World} (s : SameBut w w') {v : Rat} {e : Err} {x : ObjId} : Bad w' v e x ↔ Bad w v e x := by
  simp only [Bad, s.rejects, s.lsn, s.tgt, s.nameOf, s.lis]

theorem fireList_bad {k : World → ObjId → Rat → WR} {v : Rat}
    (hk : ∀ w t u, (k w t u).err = none → Step u w (k w t u).w ∧ val (k w t u).w t = u)
    (hb : ∀ w t e, (k w t v).err = some e → e ≠ .hang → e ≠ .ub → ∃ x, Reach w t x ∧ Bad w v e x) (src : ObjId) :
    ∀ (ls : List Nat) (w : World), val w src = v → ∀ e, (fireList k src w ls).err = some e → e ≠ .hang → e ≠ .ub →
      (e = .bpp ∧ ∃ l ∈ ls, ∃ t, tgt w l = some t ∧ nameOf w.heap t ≠ (w.lis l).name) ∨
      (∃ l ∈ ls, ∃ t, tgt w l = some t ∧ ∃ x, Reach w t x ∧ Bad w v e x)
  | [], w, _, e, he, _, _ => by simp [fireList] at he
  | l :: rest, w, hv, e, he, h1, h2 => by
    have hv' : (w.heap.get src).value = v := hv
    simp only [fireList] at he
    cases ho : w.objs (w.lis l).pl with
    | none => simp only [ho] at he; cases he; exact absurd rfl h2
    | some o =>
      simp only [ho] at he
      cases ht : o.params[(w.lis l).alias]? with
      | none => simp only [ht] at he; cases he; exact absurd rfl h2
      | some t =>
        simp only [ht] at he
        have htg : tgt w l = some t := by simp only [tgt, ho, ht]
        by_cases hname : (nameOf w.heap t != (w.lis l).name) = true
        · left
          simp only [hname, if_true] at he
          cases he
          exact ⟨rfl, l, List.mem_cons_self .., t, htg, by simpa using hname⟩
        · have hname' : (nameOf w.heap t != (w.lis l).name) = false := by simpa using hname
          simp only [hname', hv', Bool.false_eq_true, if_false] at he
          cases hnone : (k w t v).err with
          | some e' =>
            simp only [hnone] at he
            cases he
            right
            exact ⟨l, List.mem_cons_self .., t, htg, hb w t e hnone h1 h2⟩
          | none =>
            simp only [hnone] at he
            obtain ⟨s1, _⟩ := hk w t v hnone
            have sb := s1.toSameBut
            have hsrc : val (k w t v).w src = v := by
              rcases s1.onlyV src with h | h
              · rw [h]; exact hv
              · exact h
            rcases fireList_bad hk hb src rest _ hsrc e he h1 h2 with ⟨hb', l', hl', t', ht', hn'⟩ | ⟨l', hl', t', ht', x, hx, hbad⟩
            · left
              exact ⟨hb', l', List.mem_cons_of_mem _ hl', t', by rw [← sb.tgt]; exact ht', by rw [← sb.nameOf, ← sb.lis]; exact hn'⟩
            · right
              exact ⟨l', List.mem_cons_of_mem _ hl', t', by rw [← sb.tgt]; exact ht', x, (Reach.sameBut sb).1 hx,
                (Bad.sameBut sb).1 hbad⟩

/-- **why `Parameter::setValue` raises**: whenever `setValue(v)` on `i` ends in an exception (other than
the model's two impossible outcomes), some parameter reached from `i` through listeners rejects `v`
or carries a listener whose name check fails -/
theorem setV_bad : ∀ (f : Nat) (w : World) (i : ObjId) (v : Rat) (e : Err), (setV f w i v).err = some e →
    e ≠ .hang → e ≠ .ub → ∃ x, Reach w i x ∧ Bad w v e x
  | 0, w, i, v, e, he, h1, _ => by simp only [setV] at he; cases he; exact absurd rfl h1
  | f + 1, w, i, v, e, he, h1, h2 => by
    simp only [setV] at he
    by_cases hsame : v = (w.heap.get i).value
    · simp [hsame] at he
    simp only [hsame, if_false] at he
    by_cases hrej : (w.heap.get i).rejects v = true
    · simp only [hrej, if_true] at he
      cases he
      exact ⟨i, Relation.ReflTransGen.refl, Or.inl ⟨hrej, rfl⟩⟩
    simp only [hrej, Bool.false_eq_true, if_false] at he
    have sb := sameBut_putValue w i v
    have hvi : val (w.putValue i v) i = v := by simp [val, World.putValue, Store.get, Store.put]
    rcases fireList_bad (fun w t u => setV_step f w t u) (fun w t e he => setV_bad f w t v e he) i (w.lsn i) _ hvi e he h1 h2
      with ⟨hb', l, hl, t, ht, hn⟩ | ⟨l, hl, t, ht, x, hx, hbad⟩
    · refine ⟨i, Relation.ReflTransGen.refl, Or.inr ⟨hb', l, hl, t, by rw [← sb.tgt]; exact ht, ?_⟩⟩
      rw [← sb.nameOf, ← sb.lis]; exact hn
    · refine ⟨x, Relation.ReflTransGen.head ⟨l, hl, by rw [← sb.tgt]; exact ht⟩ ((Reach.sameBut sb).1 hx), (Bad.sameBut sb).1 hbad⟩

/-- the parameters reached from a parameter of an object are parameters of that object -/
theorem Reach.mem {w : World} {k : Nat} {o : Obj} (h : ObjInv w k o) (ho : w.objs k = some o) {i x : ObjId}
    (hi : i ∈ o.params) (hr : Reach w i x) : x ∈ o.params := by
  induction hr with
  | refl => exact hi
  | tail _ he ih =>
    obtain ⟨l, hl, ht⟩ := he
    exact h.closed ho _ ih l hl _ ht

/-- in an object satisfying the invariant the name check of `parameterValueChanged` never fails -/
theorem ObjInv.nameCheck {w : World} {k : Nat} {o : Obj} (h : ObjInv w k o) (ho : w.objs k = some o) {x : ObjId}
    (hx : x ∈ o.params) {l : Nat} (hl : l ∈ w.lsn x) {t : ObjId} (ht : tgt w l = some t) :
    nameOf w.heap t = (w.lis l).name := by
  obtain ⟨hreg, _⟩ := h.lsnOk x hx l hl
  obtain ⟨_, _, r3, _, ⟨t', y, ht', htn, hnm, _⟩⟩ := h.regOk _ hreg
  simp only at r3 ht' hnm
  simp only [tgt, r3, ho] at ht
  rw [ht] at ht'; cases ht'
  rw [htn, hnm]

/-- **update_returns, one write**: in an object satisfying the invariant, `Parameter::setValue(v)` on one
of its parameters returns normally when every parameter reached through the listeners accepts `v`
(the value is inside the constraints of the parameter and of everything that follows it) — and it can
only raise `ConstraintException` otherwise -/
theorem setValue_returns {w : World} (h : Inv w) {k : Nat} {o : Obj} (ho : w.objs k = some o) {i : ObjId}
    (hi : i ∈ o.params) (v : Rat) :
    ((∀ t, Reach w i t → (w.heap.get t).rejects v = false) → (setValue w i v).err = none) ∧
    (∀ e, (setValue w i v).err = some e → e = .constraint ∧ ∃ t, Reach w i t ∧ (w.heap.get t).rejects v = true) := by
  have hob := h.obj k o ho
  have key : ∀ e, (setValue w i v).err = some e → e = .constraint ∧ ∃ t, Reach w i t ∧ (w.heap.get t).rejects v = true := by
    intro e he
    have h1 : e ≠ .hang := fun hh => setValue_no_hang w i v h.paramsValid (hob.valid i hi) (hh ▸ he)
    have h2 : e ≠ .ub := fun hh => setValue_no_ub (S := fun j => j ∈ o.params) w i v hi (hob.tgtOk ho) (hh ▸ he)
    obtain ⟨x, hx, hbad⟩ := setV_bad _ w i v e he h1 h2
    rcases hbad with ⟨hr, hc⟩ | ⟨_, l, hl, t, ht, hn⟩
    · exact ⟨hc, x, hx, hr⟩
    · exact absurd (hob.nameCheck ho (hx.mem hob ho hi) hl ht) hn
  refine ⟨fun hacc => ?_, key⟩
  cases he : (setValue w i v).err with
  | none => rfl
  | some e =>
    obtain ⟨_, t, ht, hr⟩ := key e he
    rw [hacc t ht] at hr; cases hr

/-! ## The four update routes under the input guard -/

/-- the property's input guard for writing `v` to `i`: `v` lies inside the constraint of `i` and of every
parameter that follows `i`, directly or through a chain -/
def AcceptedBelow (w : World) (i : ObjId) (v : Rat) : Prop := ∀ t, Reach w i t → (w.heap.get t).rejects v = false

theorem AcceptedBelow.sameBut {w w' : World} (s : SameBut w w') {i : ObjId} {v : Rat} (a : AcceptedBelow w i v) :
    AcceptedBelow w' i v := fun t ht => by rw [s.rejects]; exact a t ((Reach.sameBut s).1 ht)

/-- every entry of the source that names a parameter of the object gives it a value accepted below it -/
def GuardSome (w : World) (o : Obj) (src : List (String × Rat)) : Prop :=
  ∀ e ∈ src, ∀ t, find? w.heap o.params e.1 = some t → AcceptedBelow w t e.2

/-- the source names every parameter of the object and gives it a value accepted below it -/
def GuardAll (w : World) (o : Obj) (src : List (String × Rat)) : Prop :=
  ∀ i ∈ o.params, ∃ v, srcFind? src (nameOf w.heap i) = some v ∧ AcceptedBelow w i v

theorem checkSome_guard {w : World} {o : Obj} : ∀ (src : List (String × Rat)), GuardSome w o src → checkSome w o.params src = none
  | [], _ => rfl
  | (n, v) :: rest, hg => by
    have hr : GuardSome w o rest := fun e he => hg e (List.mem_cons_of_mem _ he)
    simp only [checkSome]
    cases hf : find? w.heap o.params n with
    | none => exact checkSome_guard rest hr
    | some t =>
      simp only [hg (n, v) (List.mem_cons_self ..) t hf t Relation.ReflTransGen.refl, Bool.false_eq_true, if_false]
      exact checkSome_guard rest hr

theorem applySome_returns {k : Nat} {o : Obj} : ∀ (src : List (String × Rat)) (w : World), Inv w → w.objs k = some o →
    GuardSome w o src → (applySome o.params w src).err = none
  | [], _, _, _, _ => rfl
  | (n, v) :: rest, w, h, ho, hg => by
    have hr : GuardSome w o rest := fun e he => hg e (List.mem_cons_of_mem _ he)
    simp only [applySome]
    cases hf : find? w.heap o.params n with
    | none => exact applySome_returns rest w h ho hr
    | some t =>
      have hret := (setValue_returns h ho (ParamList.find?_some hf).1 v).1 (hg (n, v) (List.mem_cons_self ..) t hf)
      simp only [hret]
      have sb := setValue_sameBut w t v
      refine applySome_returns rest _ (h.sameShape sb.sameShape) (by rw [sb.objs]; exact ho) ?_
      intro e he t' ht'
      rw [sb.find?] at ht'
      exact (hr e he t' ht').sameBut sb

theorem matchSome_returns {k : Nat} {o : Obj} : ∀ (src : List (String × Rat)) (w : World), Inv w → w.objs k = some o →
    GuardSome w o src → (matchSome o.params w src).1.err = none
  | [], _, _, _, _ => rfl
  | (n, v) :: rest, w, h, ho, hg => by
    have hr : GuardSome w o rest := fun e he => hg e (List.mem_cons_of_mem _ he)
    simp only [matchSome]
    cases hf : find? w.heap o.params n with
    | none => exact matchSome_returns rest w h ho hr
    | some t =>
      simp only []
      by_cases hne : (w.heap.get t).value ≠ v
      · rw [if_pos hne]
        have hret := (setValue_returns h ho (ParamList.find?_some hf).1 v).1 (hg (n, v) (List.mem_cons_self ..) t hf)
        simp only [hret]
        have sb := setValue_sameBut w t v
        refine matchSome_returns rest _ (h.sameShape sb.sameShape) (by rw [sb.objs]; exact ho) ?_
        intro e he t' ht'
        rw [sb.find?] at ht'
        exact (hr e he t' ht').sameBut sb
      · rw [if_neg hne]
        exact matchSome_returns rest w h ho hr

theorem applyAll_returns {k : Nat} {o : Obj} {src : List (String × Rat)} : ∀ (l : List ObjId) (w : World), Inv w →
    w.objs k = some o → (∀ i ∈ l, i ∈ o.params) → GuardAll w o src → (applyAll src w l).err = none
  | [], _, _, _, _, _ => rfl
  | i :: rest, w, h, ho, hl, hg => by
    obtain ⟨v, hv, hacc⟩ := hg i (hl i (List.mem_cons_self ..))
    simp only [applyAll, hv]
    have hret := (setValue_returns h ho (hl i (List.mem_cons_self ..)) v).1 hacc
    simp only [hret]
    have sb := setValue_sameBut w i v
    refine applyAll_returns rest _ (h.sameShape sb.sameShape) (by rw [sb.objs]; exact ho)
      (fun j hj => hl j (List.mem_cons_of_mem _ hj)) ?_
    intro j hj
    obtain ⟨v', hv', hacc'⟩ := hg j hj
    exact ⟨v', by rw [sb.nameOf]; exact hv', hacc'.sameBut sb⟩

theorem checkAll_guard {w : World} {o : Obj} {src : List (String × Rat)} (hg : GuardAll w o src) :
    ∀ (l : List ObjId), (∀ i ∈ l, i ∈ o.params) → checkAll w src l = none
  | [], _ => rfl
  | i :: rest, hl => by
    obtain ⟨v, hv, hacc⟩ := hg i (hl i (List.mem_cons_self ..))
    simp only [checkAll, hv, hacc i Relation.ReflTransGen.refl, Bool.false_eq_true, if_false]
    exact checkAll_guard hg rest (fun j hj => hl j (List.mem_cons_of_mem _ hj))

/-- **update_returns**: in a world satisfying the invariant (every reachable world), each of the four
update routes returns normally when the values it is given lie inside the constraints of the
parameters they are written to and of all the parameters that follow those (the property's input
guard) — no `ConstraintException`, no `Exception` from a listener's name check, no
`ParameterNotFoundException` -/
theorem update_returns {w : World} (h : Inv w) {k : Nat} {o : Obj} (ho : w.objs k = some o) :
    (∀ n v i, find? w.heap o.params (o.pre ++ n) = some i → AcceptedBelow w i v → (apSetParameterValue w k n v).err = none) ∧
    (∀ src, GuardSome w o src → (apSetParametersValues w k src).err = none) ∧
    (∀ src, GuardSome w o src → (apMatchParametersValues w k src).1.err = none) ∧
    (∀ src, GuardAll w o src → (apSetAllParametersValues w k src).err = none) := by
  refine ⟨fun n v i hf hacc => ?_, fun src hg => ?_, fun src hg => ?_, fun src hg => ?_⟩
  · simp only [apSetParameterValue, ho, setParameterValue, hf]
    exact (setValue_returns h ho (ParamList.find?_some hf).1 v).1 hacc
  · simp only [apSetParametersValues, ho, setParametersValues, checkSome_guard src hg]
    exact applySome_returns src w h ho hg
  · simp only [apMatchParametersValues, ho, matchParametersValues, checkSome_guard src hg]
    exact matchSome_returns src w h ho hg
  · simp only [apSetAllParametersValues, ho, setAllParametersValues, checkAll_guard hg o.params (fun i hi => hi)]
    exact applyAll_returns o.params w h ho (fun i hi => hi) hg

/-- … and the only exceptions `setParameterValue` can raise are `ParameterNotFoundException` (unknown
name) and `ConstraintException` (a parameter at or below the named one rejects the value) -/
theorem setParameterValue_raises {w : World} (h : Inv w) {k : Nat} {o : Obj} (ho : w.objs k = some o) (n : String) (v : Rat)
    {e : Err} (he : (apSetParameterValue w k n v).err = some e) :
    (e = .notfound ∧ find? w.heap o.params (o.pre ++ n) = none) ∨
    (e = .constraint ∧ ∃ i t, find? w.heap o.params (o.pre ++ n) = some i ∧ Reach w i t ∧ (w.heap.get t).rejects v = true) := by
  simp only [apSetParameterValue, ho, setParameterValue] at he
  cases hf : find? w.heap o.params (o.pre ++ n) with
  | none => simp only [hf] at he; cases he; exact Or.inl ⟨rfl, rfl⟩
  | some i =>
    simp only [hf] at he
    obtain ⟨hc, t, ht, hr⟩ := (setValue_returns h ho (ParamList.find?_some hf).1 v).2 e he
    exact Or.inr ⟨hc, i, t, rfl, ht, hr⟩

/-! ## Links in sync, read on the view -/

/-- the Boolean `allSynced` of the view says exactly that every registered link is in sync -/
theorem allSynced_view {w : World} {k : Nat} {o : Obj} (h : ObjInv w k o) (ho : w.objs k = some o) :
    (svOf w o).allSynced = true ↔ AllSynced w o := by
  rw [allSynced_iff h ho]
  simp only [SV.allSynced, List.all_eq_true]
  constructor
  · intro hv s t lk
    obtain ⟨x, y, hl, hs, ht⟩ := lk_view h ho lk
    have := hv (x, y) hl
    simp only [SV.synced, value?_svOf, (find?_iff h.nodup).2 ⟨lk.1, hs⟩, (find?_iff h.nodup).2 ⟨lk.target_mem h ho, ht⟩,
      Option.map_some, beq_iff_eq, Option.some.injEq] at this
    exact this.symm
  · intro hall l hl
    obtain ⟨x, y⟩ := l
    obtain ⟨s, t, lk, hs, ht⟩ := view_lk h ho hl
    simp only [SV.synced, value?_svOf, (find?_iff h.nodup).2 ⟨lk.1, hs⟩, (find?_iff h.nodup).2 ⟨lk.target_mem h ho, ht⟩,
      Option.map_some, beq_iff_eq, Option.some.injEq]
    exact (hall s t lk).symm

/-- every object of the world has all its links in sync -/
def WSynced (w : World) : Prop := ∀ k o, w.objs k = some o → AllSynced w o

/-- an operation on another slot leaves the links of this object as they are -/
theorem allSynced_frame {w : World} (h : Inv w) (op : Op) (hwf : op.wf w) {j : Nat} (hj : j ≠ op.slot) (hs : WSynced w)
    {o' : Obj} (ho' : (step w op).1.objs j = some o') : AllSynced (step w op).1 o' := by
  have hI : Inv (step w op).1 := inv_step h op hwf
  have hfr := step_view_frame h op hwf j hj
  rw [ho'] at hfr
  cases ho : w.objs j with
  | none => rw [ho] at hfr; cases hfr
  | some o =>
    rw [ho] at hfr
    simp only [Option.map_some, Option.some.injEq] at hfr
    rw [← allSynced_view (hI.obj j o' ho') ho', hfr, allSynced_view (h.obj j o ho) ho]
    exact hs j o ho

/-! ## The links after the bulk form are the links of before and the links of the map -/

/-- `W` has, in slot `k`, only the links `w` had and links between the parameters the entries of `D` name -/
def OnlyNew (k : Nat) (w W : World) (D : List (String × String)) : Prop :=
  ∀ o, w.objs k = some o → ∀ o', W.objs k = some o' → ∀ s t, Lk W o' s t →
    Lk w o s t ∨ ∃ e ∈ D, nameOf w.heap s = o.pre ++ e.2 ∧ nameOf w.heap t = o.pre ++ e.1

theorem OnlyNew.refl (k : Nat) (w : World) : OnlyNew k w w [] := by
  intro o ho o' ho' s t lk
  rw [ho] at ho'; cases ho'
  exact Or.inl lk

theorem OnlyNew.trans {k : Nat} {a b c : World} {D1 D2 : List (String × String)} (g : Grow k a b)
    (x : OnlyNew k a b D1) (y : OnlyNew k b c D2) : OnlyNew k a c (D1 ++ D2) := by
  intro o ho o'' ho'' s t lk
  obtain ⟨o', ho', _, hp, _⟩ := g.obj o ho
  rcases y o' ho' o'' ho'' s t lk with h | ⟨e, he, hs, ht⟩
  · rcases x o ho o' ho' s t h with h' | ⟨e, he, hs, ht⟩
    · exact Or.inl h'
    · exact Or.inr ⟨e, List.mem_append_left _ he, hs, ht⟩
  · exact Or.inr ⟨e, List.mem_append_right _ he, by rw [← g.name, ← hp]; exact hs, by rw [← g.name, ← hp]; exact ht⟩

theorem aliasPair_onlyNew {w : World} (h : Inv w) (k : Nat) (p1 p2 : String) (ok : (aliasPair w k p1 p2).err = none) :
    OnlyNew k w (aliasPair w k p1 p2).w [(p2, p1)] := by
  intro o ho o' ho' s t ⟨hs, l, hl, ht⟩
  have hi := h.obj k o ho
  obtain ⟨⟨i1, i2, pos1, pos2, hi1, hi2, hn1, hn2, hind, _, heq, _, _⟩⟩ := aliasPair_done hi ho ok
  have hss := aliasConstraints_sameShape w i1 i2
  have hobj : (aliasPair w k p1 p2).w.objs k = some (aliasedObj o p1 p2 i2 w.lnext) := by
    rw [heq]; simp [aliased, hss.lnext]
  rw [hobj] at ho'; cases ho'
  have hlsn : ∀ j, (aliasPair w k p1 p2).w.lsn j = if j = i1 then w.lsn i1 ++ [w.lnext] else w.lsn j := by
    intro j; rw [heq]; simp [aliased, hss.lsn, hss.lnext]
  have htgt_old : ∀ l, l < w.lnext → tgt (aliasPair w k p1 p2).w l = tgt w l := by
    intro l hl
    have hne : l ≠ (aliasConstraints w i1 i2).w.lnext := by rw [hss.lnext]; exact Nat.ne_of_lt hl
    rw [heq]
    simp only [tgt, aliased, setObj_lis, setLsn_lis, allocLis_lis, hne, if_false, hss.lis, setObj_objs]
    by_cases hk : (w.lis l).pl = k
    · simp [hk, ho]
    · simp only [hk, if_false, setLsn_objs, allocLis_objs, hss.objs]
  have htgt_new : tgt (aliasPair w k p1 p2).w w.lnext = some i2 := by
    rw [heq]
    simp only [tgt, aliased, setObj_lis, setLsn_lis, allocLis_lis, hss.lnext, if_true, setObj_objs]
    exact hi2
  have hs' : s ∈ o.params := hs
  rw [hlsn] at hl
  have hold : l ∈ w.lsn s → Lk w o s t := fun hlw => by
    have hlt : l < w.lnext := (hi.regOk _ (hi.lsnOk s hs' l hlw).1).lt
    rw [htgt_old l hlt] at ht
    exact ⟨hs', l, hlw, ht⟩
  by_cases hsi : s = i1
  · subst hsi
    simp only [if_true] at hl
    rcases List.mem_append.1 hl with hlw | hnew
    · exact Or.inl (hold hlw)
    · simp only [List.mem_singleton] at hnew
      subst hnew
      rw [htgt_new] at ht; cases ht
      exact Or.inr ⟨(p2, p1), List.mem_singleton_self _, hn1, hn2⟩
  · simp only [hsi, if_false] at hl
    exact Or.inl (hold hl)

theorem bulkPass_onlyNew (k : Nat) : ∀ (todo : List (String × String)) (w : World) (pl : List Par) (kept : List (String × String)),
    Inv w → (bulkPass true k w pl kept todo).err = none →
      OnlyNew k w (bulkPass true k w pl kept todo).w (bulkPass true k w pl kept todo).done
  | [], w, pl, kept, _, _ => OnlyNew.refl k w
  | (key, val) :: todo, w, pl, kept, h, ok => by
    simp only [bulkPass] at ok ⊢
    cases hf : plFind? pl val with
    | none =>
      simp only [hf] at ok ⊢
      cases ho : w.objs k with
      | none => simp [ho] at ok
      | some o =>
      simp only [ho] at ok ⊢
      by_cases hh : hasParameter w.heap o.params val = true
      swap
      · have hh' : hasParameter w.heap o.params val = false := by simpa using hh
        simp [hh'] at ok
      · simp only [hh, Bool.not_true, Bool.false_eq_true, if_false] at ok ⊢
        exact bulkPass_onlyNew k todo w pl (kept ++ [(key, val)]) h ok
    | some pp =>
      simp only [hf] at ok ⊢
      generalize (plFind? pl key).isSome = bb at ok ⊢
      cases bb
      swap
      · simp at ok
      · simp only [Bool.false_eq_true, if_false] at ok ⊢
        cases hok : (aliasPairG true w k val key).err with
        | some e => simp [hok] at ok
        | none =>
          simp only [hok] at ok ⊢
          have hi : Inv (aliasPairG true w k val key).w := inv_aliasPair h k val key
          obtain ⟨g1, _⟩ := aliasPair_grow h k val key hok
          have a := aliasPair_onlyNew h k val key hok
          have b := bulkPass_onlyNew k todo _ (pl ++ [{ pp with name := key }]) kept hi ok
          exact OnlyNew.trans g1 a b

theorem bulkLoop_onlyNew (k : Nat) : ∀ (f : Nat) (w : World) (pl : List Par) (m : List (String × String)),
    Inv w → (bulkLoop k f w pl m).err = none → OnlyNew k w (bulkLoop k f w pl m).w (bulkLoop k f w pl m).done
  | 0, w, pl, m, _, ok => by simp [bulkLoop] at ok
  | f + 1, w, pl, m, h, ok => by
    simp only [bulkLoop] at ok ⊢
    by_cases hm : m.length = 0
    · simp only [hm, if_true]
      exact OnlyNew.refl k w
    · simp only [hm, if_false] at ok ⊢
      cases hp : (bulkPass true k w pl [] m).err with
      | some e => simp [hp] at ok
      | none =>
        simp only [hp] at ok ⊢
        obtain ⟨g, _, _⟩ := bulkPass_done k m w pl [] h hp
        have a := bulkPass_onlyNew k m w pl [] h hp
        have hi := inv_bulkPass k m w pl [] h
        split at ok
        · cases ok
        · rename_i hne
          simp only [hne, if_false]
          exact OnlyNew.trans g a (bulkLoop_onlyNew k f _ _ _ hi ok)

/-- **after the bulk form (empty namespace, normal return) every link of the object is in sync, if every
link of before was**: the links are those of before (tracked across the call) and those of the map
(given their source's value) -/
theorem bulkAlias_allSynced {w : World} (h : Inv w) {k : Nat} {o : Obj} (ho : w.objs k = some o) (hpre : o.pre = "")
    (hsy : AllSynced w o) (es : List (String × String)) (ok : (bulkAlias w k es).err = none) :
    ∀ o', (bulkAlias w k es).w.objs k = some o' → AllSynced (bulkAlias w k es).w o' := by
  have hi := h.obj k o ho
  have hsy' := (allSynced_iff hi ho).1 hsy
  simp only [bulkAlias, bulkAliasG, ho] at ok ⊢
  cases hl : (bulkLoop k ((mkMap es).length + 1) w
      ((o.params.filter (fun i => (mapFind? (nameOf w.heap i) (mkMap es)).isNone)).map w.heap.get) (mkMap es)).err with
  | some e => simp [hl] at ok
  | none =>
    simp only [hl] at ok ⊢
    obtain ⟨g, hdone, _⟩ := bulkLoop_done k _ w _ (mkMap es) h hl
    have hnew := bulkLoop_onlyNew k _ w _ (mkMap es) h hl
    have hI := inv_bulkLoop k ((mkMap es).length + 1) w
      ((o.params.filter (fun i => (mapFind? (nameOf w.heap i) (mkMap es)).isNone)).map w.heap.get) (mkMap es) h
    obtain ⟨o1, ho1, hp, hq, hlk⟩ := g.obj o ho
    simp only [ho1, if_true] at ok ⊢
    have hi1 := hI.obj k o1 ho1
    obtain ⟨tr, hsyn⟩ := tr_syncLinks _ _ hi1 ho1 (hq.trans hpre) hdone ok
    have sb := tr.sb
    intro o' ho'
    rw [sb.objs, ho1] at ho'; cases ho'
    refine (allSynced_iff (hi1.transport sb) (by rw [sb.objs]; exact ho1)).2 fun s t lk => ?_
    have lk1 := (Lk.sameBut sb).1 lk
    rcases hnew o ho o1 ho1 s t lk1 with hold | ⟨e, he, hs, ht⟩
    · exact tr.keep s t lk1 (fun x => x) (Or.inr (by rw [g.val, g.val]; exact hsy' s t hold))
    · simp only [hpre, String.empty_append] at hs ht
      exact hsyn e he s t lk1 (by rw [g.name]; exact hs) (by rw [g.name]; exact ht)

end Bpp.Alias
