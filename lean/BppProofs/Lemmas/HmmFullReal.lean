import BppModel.HmmFull
import BppProofs.Lemmas.Hmm
import BppProofs.Lemmas.Simplex
import BppProofs.Lemmas.MatrixReal
import BppProofs.Lemmas.MatrixOfFn
import BppProofs.Lemmas.HmmStationary
import BppProofs.Lemmas.HmmFullCache
/-!
Helper lemmas for C13: `FullHmmTransitionMatrix` read at `ℝ` — the rows are probability vectors in every
history (C19's invariant of the simplices), and the equilibrium vector (row 0 of `P^256`, C04's `pow`) is
a probability vector that is stationary up to the explicit remainder `2·(1 − n·δ)^256`.
-/
namespace Bpp.Hmm
open Bpp Finset Matrix

/-! ### the rows -/

/-- every simplex satisfies C19's invariant (parameters in ]0,1[, probabilities = image of the
parameters) and is a strict method-1 simplex of dimension `n` -/
def FullTM.RowsInv (m : FullTM ℝ) : Prop :=
  m.rows.length = m.n ∧ ∀ r ∈ m.rows, Simplex.Inv r ∧ r.allowNull = false ∧ r.dim = m.n

theorem FullTM.build_rowsInv (n : Nat) (hn : 0 < n) (h31 : n < 2 ^ 31) :
    ∃ m, FullTM.build (α := ℝ) n = some m ∧ m.RowsInv ∧ m.n = n := by
  obtain ⟨s, e, _, hi, ha, hd, _⟩ := Simplex.constructDim_ok n 1 false (Or.inl rfl) hn h31
  have hb : FullTM.build (α := ℝ) n = some
      { n := n, rows := List.replicate n s, pij := List.replicate n (List.replicate n Scalar.zero),
        eq := List.replicate n Scalar.zero, upToDate := false, eqUpToDate := false } := by
    simp only [FullTM.build, e]
  refine ⟨_, hb, ⟨by simp, ?_⟩, rfl⟩
  intro r hr
  rw [List.mem_replicate] at hr
  rw [hr.2]; exact ⟨hi, ha, hd⟩

theorem inOpen_set (l : List ℝ) (h : Simplex.InOpen l) (k : Nat) (v : ℝ) (hv : 0 < v ∧ v < 1) :
    Simplex.InOpen (l.set k v) := by
  intro x hx
  rcases List.mem_or_eq_of_mem_set hx with h1 | h1
  · exact h x h1
  · rw [h1]; exact hv

theorem simplexMatchOne_inv (r r' : Simplex.St ℝ) (hi : Simplex.Inv r) (ha : r.allowNull = false) (k : Nat) (v : ℝ)
    (e : simplexMatchOne r k v = .ok r') : Simplex.Inv r' ∧ r'.allowNull = false ∧ r'.dim = r.dim := by
  unfold simplexMatchOne at e
  cases hk : r.params[k]? with
  | none => simp only [hk] at e; cases e; exact ⟨hi, ha, rfl⟩
  | some cur =>
    simp only [hk] at e
    by_cases hc : Simplex.inConstraint r.allowNull v = true
    · simp only [hc, Bool.not_true, Bool.false_eq_true, if_false] at e
      by_cases heq : Scalar.eqb cur v = true
      · simp only [heq, if_true] at e; cases e; exact ⟨hi, ha, rfl⟩
      · simp only [heq, Bool.false_eq_true, if_false] at e
        cases e
        have hv : 0 < v ∧ v < 1 := (Simplex.inConstraint_open v).mp (ha ▸ hc)
        have hs := Simplex.fire_same ({ r with params := r.params.set k v })
        refine ⟨Simplex.fire_inv _ hi.method hi.dim_pos hi.dim_lt (by simp [hi.len]) (inOpen_set _ hi.inOpen k v hv), ?_, ?_⟩
        · rw [hs.2.2]; exact ha
        · rw [hs.1]
    · simp only [hc, Bool.not_false, if_true] at e
      cases e

theorem setRowsLoop_inv (n : Nat) (rows rows' : List (Simplex.St ℝ)) (mat : List (List ℝ))
    (h : ∀ r ∈ rows, Simplex.Inv r ∧ r.allowNull = false ∧ r.dim = n) (e : setRowsLoop rows mat = .ok rows') :
    rows'.length = rows.length ∧ ∀ r ∈ rows', Simplex.Inv r ∧ r.allowNull = false ∧ r.dim = n := by
  induction rows generalizing rows' mat with
  | nil => simp only [setRowsLoop] at e; cases e; exact ⟨rfl, fun r hr => absurd hr (by simp)⟩
  | cons r rs ih =>
    cases mat with
    | nil => simp [setRowsLoop] at e
    | cons p ps =>
      simp only [setRowsLoop] at e
      cases h1 : Simplex.setFrequencies r p with
      | error err => simp [h1] at e
      | ok r1 =>
        cases h2 : setRowsLoop rs ps with
        | error err => simp [h1, h2] at e
        | ok rs1 =>
          simp only [h1, h2] at e
          cases e
          obtain ⟨hr, ha, hd⟩ := h r (by simp)
          obtain ⟨l, hall⟩ := ih rs1 ps (fun x hx => h x (by simp [hx])) h2
          have hs := Simplex.applyOp_same r r1 (.setFreq p) h1
          refine ⟨by simp [l], ?_⟩
          intro x hx
          rcases List.mem_cons.mp hx with rfl | hx
          · exact ⟨Simplex.setFrequencies_inv r hr ha p _ h1, by rw [hs.2.2]; exact ha, by rw [hs.1]; exact hd⟩
          · exact hall x hx

theorem FullTM.step_rowsInv (m : FullTM ℝ) (h : m.RowsInv) (op : FullOp ℝ) :
    (m.step op).1.RowsInv ∧ (m.step op).1.n = m.n := by
  obtain ⟨hl, hr⟩ := h
  cases op with
  | setRows mat =>
    simp only [FullTM.step, FullTM.setRows]
    by_cases hlen : mat.length ≠ m.rows.length
    · rw [if_pos hlen]; exact ⟨⟨hl, hr⟩, rfl⟩
    · rw [if_neg hlen]
      cases hloop : setRowsLoop m.rows mat with
      | error e => exact ⟨⟨hl, hr⟩, rfl⟩
      | ok rows' =>
        obtain ⟨l, hall⟩ := setRowsLoop_inv m.n m.rows rows' mat hr hloop
        simp only
        split
        · exact ⟨⟨by simp only; rw [l, hl], hall⟩, rfl⟩
        · exact ⟨⟨by simp only; rw [l, hl], hall⟩, rfl⟩
  | setTheta i k v =>
    have hfire : ∀ w, (m.fireOne i k w).1.RowsInv ∧ (m.fireOne i k w).1.n = m.n := by
      intro w
      unfold FullTM.fireOne
      cases hri : m.rows[i]? with
      | none => exact ⟨⟨hl, hr⟩, rfl⟩
      | some r =>
        simp only
        cases hm : simplexMatchOne r k w with
        | error e => exact ⟨⟨hl, hr⟩, rfl⟩
        | ok r' =>
          have hmem : r ∈ m.rows := List.mem_of_getElem? hri
          obtain ⟨hi, ha, hd⟩ := hr r hmem
          obtain ⟨hi', ha', hd'⟩ := simplexMatchOne_inv r r' hi ha k w hm
          refine ⟨⟨by simp only [List.length_set]; exact hl, ?_⟩, rfl⟩
          intro x hx
          rcases List.mem_or_eq_of_mem_set hx with h1 | h1
          · exact hr x h1
          · rw [h1]; exact ⟨hi', ha', by rw [hd']; exact hd⟩
    simp only [FullTM.step, FullTM.setTheta]
    cases hri : m.rows[i]? with
    | none => exact ⟨⟨hl, hr⟩, rfl⟩
    | some r =>
      simp only
      cases hk : r.params[k]? with
      | none => exact ⟨⟨hl, hr⟩, rfl⟩
      | some cur =>
        simp only
        split
        · split
          · exact hfire v
          · exact ⟨⟨hl, hr⟩, rfl⟩
        · exact hfire cur
  | getPij =>
    simp only [FullTM.step, FullTM.getPij]
    split <;> exact ⟨⟨hl, hr⟩, rfl⟩
  | entry i j => exact ⟨⟨hl, hr⟩, rfl⟩
  | getEq =>
    simp only [FullTM.step, FullTM.getEq, FullTM.getPij]
    split
    · exact ⟨⟨hl, hr⟩, rfl⟩
    · split <;> (split <;> exact ⟨⟨hl, hr⟩, rfl⟩)

/-- the state after a history -/
noncomputable def FullTM.after (m : FullTM ℝ) : List (FullOp ℝ) → FullTM ℝ
  | [] => m
  | op :: ops => FullTM.after (m.step op).1 ops

theorem FullTM.after_rowsInv (m : FullTM ℝ) (h : m.RowsInv) (ops : List (FullOp ℝ)) :
    (m.after ops).RowsInv ∧ (m.after ops).n = m.n := by
  induction ops generalizing m with
  | nil => exact ⟨h, rfl⟩
  | cons op ops ih =>
    obtain ⟨h1, h2⟩ := FullTM.step_rowsInv m h op
    obtain ⟨h3, h4⟩ := ih _ h1
    exact ⟨h3, h4.trans h2⟩

theorem list_eq_vec (l : List ℝ) (n : Nat) (h : l.length = n) : l = vec n (fun j => l.getD j 0) := by
  apply List.ext_getElem
  · simp [vec, h]
  · intro i h1 h2
    simp [vec, List.getD_eq_getElem?_getD, List.getElem?_eq_getElem h1]

/-- the matrix of an object satisfying the invariant: `n` rows of `n` positive entries summing to one -/
theorem FullTM.rows_stochastic (m : FullTM ℝ) (h : m.RowsInv) :
    ∃ Pf : Nat → Nat → ℝ, fullMatrix m.rows = vec m.n (fun i => vec m.n (Pf i))
      ∧ (∀ i j, i < m.n → j < m.n → 0 < Pf i j) ∧ ∀ i, i < m.n → ∑ j ∈ range m.n, Pf i j = 1 := by
  obtain ⟨hl, hr⟩ := h
  refine ⟨fun i j => ((m.rows.map (·.probs)).getD i []).getD j 0, ?_, ?_, ?_⟩
  · apply List.ext_getElem
    · simp [fullMatrix, vec, hl]
    · intro i h1 h2
      have hi : i < m.rows.length := by simpa [fullMatrix] using h1
      have hmem : m.rows[i] ∈ m.rows := List.getElem_mem hi
      obtain ⟨hinv, _, hd⟩ := hr _ hmem
      have hlen : m.rows[i].probs.length = m.n := by rw [hinv.sum_one.2.2, hd]
      simp only [fullMatrix, List.getElem_map, vec, List.getElem_range]
      rw [list_eq_vec _ m.n hlen]
      apply vec_congr; intro j _
      simp [List.getD_eq_getElem?_getD, List.getElem?_eq_getElem hi, vec]
  · intro i j hi hj
    have hi' : i < m.rows.length := by rw [hl]; exact hi
    have hmem : m.rows[i] ∈ m.rows := List.getElem_mem hi'
    obtain ⟨hinv, _, hd⟩ := hr _ hmem
    have hlen : m.rows[i].probs.length = m.n := by rw [hinv.sum_one.2.2, hd]
    have hj' : j < m.rows[i].probs.length := by rw [hlen]; exact hj
    simp only [List.getD_eq_getElem?_getD, List.getElem?_map, List.getElem?_eq_getElem hi', Option.map_some,
      Option.getD_some, List.getElem?_eq_getElem hj']
    exact hinv.sum_one.2.1 _ (List.getElem_mem hj')
  · intro i hi
    have hi' : i < m.rows.length := by rw [hl]; exact hi
    have hmem : m.rows[i] ∈ m.rows := List.getElem_mem hi'
    obtain ⟨hinv, _, hd⟩ := hr _ hmem
    have hlen : m.rows[i].probs.length = m.n := by rw [hinv.sum_one.2.2, hd]
    have : ∀ j, ((m.rows.map (·.probs)).getD i []).getD j 0 = m.rows[i].probs.getD j 0 := by
      intro j
      simp [List.getD_eq_getElem?_getD, List.getElem?_eq_getElem hi']
    simp only [this]
    rw [← sum_vec, ← list_eq_vec _ m.n hlen]
    exact hinv.sum_one.1

/-! ### the equilibrium vector -/

theorem mapM_some_of_forall {β γ : Type} (l : List β) (f : β → Option γ) (h : β → γ)
    (hf : ∀ x ∈ l, f x = some (h x)) : l.mapM f = some (l.map h) := by
  induction l with
  | nil => rfl
  | cons x xs ih =>
    rw [List.mapM_cons, hf x (by simp), ih (fun y hy => hf y (by simp [hy]))]
    rfl

open Matrix in
theorem rowStore_vec (n : Nat) (Pf : Nat → Nat → ℝ) :
    rowStore (vec n (fun i => vec n (Pf i))) = Mx.Store.ofFn .row n n Pf := by
  simp only [rowStore, Mx.Store.ofFn, vec]
  congr 1
  apply Array.ext
  · simp
  · intro i h1 h2
    simp only [List.getElem_toArray, List.getElem_map, List.getElem_range, Array.getElem_ofFn]
    apply Array.ext
    · simp
    · intro j h3 h4
      simp

/-- for an `n × n` matrix with entries `≥ δ ≥ 0` and unit row sums the equilibrium vector exists, is a
probability vector and satisfies `|Σ_k π_k·P(k,j) − π_j| ≤ 2·(1 − n·δ)^256` -/
theorem fullEqOf_stationary (n : Nat) (hn : 0 < n) (Pf : Nat → Nat → ℝ) (δ : ℝ) (hδ0 : 0 ≤ δ)
    (hδ : ∀ i j, i < n → j < n → δ ≤ Pf i j) (hsum : ∀ i, i < n → ∑ j ∈ range n, Pf i j = 1) :
    ∃ π : Nat → ℝ, fullEqOf n (vec n (fun i => vec n (Pf i))) = some (vec n π)
      ∧ (∀ j, j < n → 0 ≤ π j) ∧ ∑ j ∈ range n, π j = 1
      ∧ ∀ j, j < n → |∑ k ∈ range n, π k * Pf k j - π j| ≤ 2 * (1 - n * δ) ^ 256 := by
  set X : Matrix (Fin n) (Fin n) ℝ := Mx.toMat n n Pf with hX
  have hA : Mx.HoldsSq (Mx.Store.ofFn .row n n Pf) n X := ⟨Pf, Mx.ofFn_holds .row n n Pf, rfl⟩
  obtain ⟨O', e, _, g, hg, eg⟩ := Mx.pow_holdsSq 256 hA (Mx.Store.ofFn .row n n Pf)
  have hX0 : ∀ i j, 0 ≤ X i j := fun i j => le_trans hδ0 (hδ i j i.isLt j.isLt)
  have hXs : ∀ i, ∑ j, X i j = 1 := by
    intro i
    have := hsum i i.isLt
    rw [Finset.sum_range] at this
    exact this
  have hXδ : ∀ i j, δ ≤ X i j := fun i j => hδ i j i.isLt j.isLt
  have hc : 0 ≤ 1 - (n : ℝ) * δ := by
    have h1 : ∑ _j : Fin n, δ ≤ ∑ j, X ⟨0, hn⟩ j := Finset.sum_le_sum (fun j _ => hXδ _ j)
    rw [hXs] at h1
    simp only [Finset.sum_const, Finset.card_univ, Fintype.card_fin, nsmul_eq_mul] at h1
    linarith
  have hmem : X ∈ Matrix.rowStochastic ℝ (Fin n) := Matrix.mem_rowStochastic_iff_sum.mpr ⟨hX0, hXs⟩
  have hpow := Matrix.mem_rowStochastic_iff_sum.mp (pow_mem hmem 256)
  have hgX : ∀ i j (hi : i < n) (hj : j < n), g i j = (X ^ 256) ⟨i, hi⟩ ⟨j, hj⟩ :=
    fun i j hi hj => congrFun (congrFun eg ⟨i, hi⟩) ⟨j, hj⟩
  refine ⟨g 0, ?_, ?_, ?_, ?_⟩
  · unfold fullEqOf
    rw [rowStore_vec, e]
    simp only
    apply mapM_some_of_forall
    intro i hi
    rw [hg.2.2 0 i hn (List.mem_range.mp hi)]
  · intro j hj
    rw [hgX 0 j hn hj]; exact hpow.1 _ _
  · rw [Finset.sum_range]
    have : ∀ j : Fin n, g 0 j = (X ^ 256) ⟨0, hn⟩ j := fun j => hgX 0 j hn j.isLt
    simp only [this]
    exact hpow.2 _
  · intro j hj
    set μ : Fin n → ℝ := Pi.single ⟨0, hn⟩ 1 with hμ
    have hμ0 : ∀ i, 0 ≤ μ i := by
      intro i; rw [hμ, Pi.single_apply]; split <;> norm_num
    have hμ1 : ∑ i, μ i = 1 := by rw [hμ]; simp
    have hrow : μ ᵥ* X ^ 256 = fun j => (X ^ 256) ⟨0, hn⟩ j := by
      rw [hμ, Matrix.single_one_vecMul]; rfl
    have hrem := stationary_remainder X hX0 hXs δ hXδ hc μ hμ0 hμ1 256 ⟨j, hj⟩
    rw [hrow] at hrem
    have h1 : ∑ k ∈ range n, g 0 k * Pf k j = ((fun j => (X ^ 256) ⟨0, hn⟩ j) ᵥ* X) ⟨j, hj⟩ := by
      rw [Finset.sum_range]
      simp only [Matrix.vecMul, dotProduct]
      apply Finset.sum_congr rfl
      intro k _
      rw [hgX 0 k hn k.isLt]; rfl
    rw [h1, hgX 0 j hn hj]
    exact hrem

end Bpp.Hmm
