import BppModel.HmmFull
import BppProofs.Lemmas.Hmm
import BppProofs.Lemmas.Simplex
import BppProofs.Lemmas.HmmStationary
import BppProofs.Lemmas.HmmFullCache
/-!
Helper lemmas for C13: `FullHmmTransitionMatrix` read at `ℝ` — the rows are probability vectors in every
history (C19's invariant of the simplices), and the equilibrium vector (row 0 of `P^256`, C04's `pow`) is
a probability vector that is stationary up to the explicit remainder `2·(1 − n·δ)^256`.
-/
namespace Bpp.Hmm
open Bpp Finset Matrix

/-! ### the rows -/

/-- every simplex satisfies C19's invariant (parameters in ]0,1[, probabilities = image of the
parameters) and is a strict method-1 simplex of dimension `n` -/
def FullTM.RowsInv (m : FullTM ℝ) : Prop :=
  m.rows.length = m.n ∧ ∀ r ∈ m.rows, Simplex.Inv r ∧ r.allowNull = false ∧ r.dim = m.n

theorem FullTM.build_rowsInv (n : Nat) (hn : 0 < n) (h31 : n < 2 ^ 31) :
    ∃ m, FullTM.build (α := ℝ) n = some m ∧ m.RowsInv ∧ m.n = n := by
  obtain ⟨s, e, _, hi, ha, hd, _⟩ := Simplex.constructDim_ok n 1 false (Or.inl rfl) hn h31
  have hb : FullTM.build (α := ℝ) n = some
      { n := n, rows := List.replicate n s, pij := List.replicate n (List.replicate n Scalar.zero),
        eq := List.replicate n Scalar.zero, upToDate := false, eqUpToDate := false } := by
    simp only [FullTM.build, e]
  refine ⟨_, hb, ⟨by simp, ?_⟩, rfl⟩
  intro r hr
  rw [List.mem_replicate] at hr
  rw [hr.2]; exact ⟨hi, ha, hd⟩

theorem inOpen_set (l : List ℝ) (h : Simplex.InOpen l) (k : Nat) (v : ℝ) (hv : 0 < v ∧ v < 1) :
    Simplex.InOpen (l.set k v) := by
  intro x hx
  rcases List.mem_or_eq_of_mem_set hx with h1 | h1
  · exact h x h1
  · rw [h1]; exact hv

theorem simplexMatchOne_inv (r r' : Simplex.St ℝ) (hi : Simplex.Inv r) (ha : r.allowNull = false) (k : Nat) (v : ℝ)
    (e : simplexMatchOne r k v = .ok r') : Simplex.Inv r' ∧ r'.allowNull = false ∧ r'.dim = r.dim := by
  unfold simplexMatchOne at e
  cases hk : r.params[k]? with
  | none => simp only [hk] at e; cases e; exact ⟨hi, ha, rfl⟩
  | some cur =>
    simp only [hk] at e
    by_cases hc : Simplex.inConstraint r.allowNull v = true
    · simp only [hc, Bool.not_true, Bool.false_eq_true, if_false] at e
      by_cases heq : Scalar.eqb cur v = true
      · simp only [heq, if_true] at e; cases e; exact ⟨hi, ha, rfl⟩
      · simp only [heq, Bool.false_eq_true, if_false] at e
        cases e
        have hv : 0 < v ∧ v < 1 := (Simplex.inConstraint_open v).mp (ha ▸ hc)
        have hs := Simplex.fire_same ({ r with params := r.params.set k v })
        refine ⟨Simplex.fire_inv _ hi.method hi.dim_pos hi.dim_lt (by simp [hi.len]) (inOpen_set _ hi.inOpen k v hv), ?_, ?_⟩
        · rw [hs.2.2]; exact ha
        · rw [hs.1]
    · simp only [hc, Bool.not_false, if_true] at e
      cases e

theorem setRowsLoop_inv (n : Nat) (rows rows' : List (Simplex.St ℝ)) (mat : List (List ℝ))
    (h : ∀ r ∈ rows, Simplex.Inv r ∧ r.allowNull = false ∧ r.dim = n) (e : setRowsLoop rows mat = .ok rows') :
    rows'.length = rows.length ∧ ∀ r ∈ rows', Simplex.Inv r ∧ r.allowNull = false ∧ r.dim = n := by
  induction rows generalizing rows' mat with
  | nil => simp only [setRowsLoop] at e; cases e; exact ⟨rfl, fun r hr => absurd hr (by simp)⟩
  | cons r rs ih =>
    cases mat with
    | nil => simp [setRowsLoop] at e
    | cons p ps =>
      simp only [setRowsLoop] at e
      cases h1 : Simplex.setFrequencies r p with
      | error err => simp [h1] at e
      | ok r1 =>
        cases h2 : setRowsLoop rs ps with
        | error err => simp [h1, h2] at e
        | ok rs1 =>
          simp only [h1, h2] at e
          cases e
          obtain ⟨hr, ha, hd⟩ := h r (by simp)
          obtain ⟨l, hall⟩ := ih rs1 ps (fun x hx => h x (by simp [hx])) h2
          have hs := Simplex.applyOp_same r r1 (.setFreq p) h1
          refine ⟨by simp [l], ?_⟩
          intro x hx
          rcases List.mem_cons.mp hx with rfl | hx
          · exact ⟨Simplex.setFrequencies_inv r hr ha p _ h1, by rw [hs.2.2]; exact ha, by rw [hs.1]; exact hd⟩
          · exact hall x hx

theorem FullTM.step_rowsInv (m : FullTM ℝ) (h : m.RowsInv) (op : FullOp ℝ) :
    (m.step op).1.RowsInv ∧ (m.step op).1.n = m.n := by
  obtain ⟨hl, hr⟩ := h
  cases op with
  | setRows mat =>
    simp only [FullTM.step, FullTM.setRows]
    by_cases hlen : mat.length ≠ m.rows.length
    · rw [if_pos hlen]; exact ⟨⟨hl, hr⟩, rfl⟩
    · rw [if_neg hlen]
      cases hloop : setRowsLoop m.rows mat with
      | error e => exact ⟨⟨hl, hr⟩, rfl⟩
      | ok rows' =>
        obtain ⟨l, hall⟩ := setRowsLoop_inv m.n m.rows rows' mat hr hloop
        simp only
        split
        · exact ⟨⟨by simp only; rw [l, hl], hall⟩, rfl⟩
        · exact ⟨⟨by simp only; rw [l, hl], hall⟩, rfl⟩
  | setTheta i k v =>
    have hfire : ∀ w, (m.fireOne i k w).1.RowsInv ∧ (m.fireOne i k w).1.n = m.n := by
      intro w
      unfold FullTM.fireOne
      cases hri : m.rows[i]? with
      | none => exact ⟨⟨hl, hr⟩, rfl⟩
      | some r =>
        simp only
        cases hm : simplexMatchOne r k w with
        | error e => exact ⟨⟨hl, hr⟩, rfl⟩
        | ok r' =>
          have hmem : r ∈ m.rows := List.mem_of_getElem? hri
          obtain ⟨hi, ha, hd⟩ := hr r hmem
          obtain ⟨hi', ha', hd'⟩ := simplexMatchOne_inv r r' hi ha k w hm
          refine ⟨⟨by simp only [List.length_set]; exact hl, ?_⟩, rfl⟩
          intro x hx
          rcases List.mem_or_eq_of_mem_set hx with h1 | h1
          · exact hr x h1
          · rw [h1]; exact ⟨hi', ha', by rw [hd']; exact hd⟩
    simp only [FullTM.step, FullTM.setTheta]
    cases hri : m.rows[i]? with
    | none => exact ⟨⟨hl, hr⟩, rfl⟩
    | some r =>
      simp only
      cases hk : r.params[k]? with
      | none => exact ⟨⟨hl, hr⟩, rfl⟩
      | some cur =>
        simp only
        split
        · split
          · exact hfire v
          · exact ⟨⟨hl, hr⟩, rfl⟩
        · exact hfire cur
  | getPij =>
    simp only [FullTM.step, FullTM.getPij]
    split <;> exact ⟨⟨hl, hr⟩, rfl⟩
  | entry i j => exact ⟨⟨hl, hr⟩, rfl⟩
  | getEq =>
    simp only [FullTM.step, FullTM.getEq, FullTM.getPij]
    split
    · exact ⟨⟨hl, hr⟩, rfl⟩
    · split <;> (split <;> exact ⟨⟨hl, hr⟩, rfl⟩)

/-- the state after a history -/
noncomputable def FullTM.after (m : FullTM ℝ) : List (FullOp ℝ) → FullTM ℝ
  | [] => m
  | op :: ops => FullTM.after (m.step op).1 ops

theorem FullTM.after_rowsInv (m : FullTM ℝ) (h : m.RowsInv) (ops : List (FullOp ℝ)) :
    (m.after ops).RowsInv ∧ (m.after ops).n = m.n := by
  induction ops generalizing m with
  | nil => exact ⟨h, rfl⟩
  | cons op ops ih =>
    obtain ⟨h1, h2⟩ := FullTM.step_rowsInv m h op
    obtain ⟨h3, h4⟩ := ih _ h1
    exact ⟨h3, h4.trans h2⟩

theorem list_eq_vec (l : List ℝ) (n : Nat) (h : l.length = n) : l = vec n (fun j => l.getD j 0) := by
  apply List.ext_getElem
  · simp [vec, h]
  · intro i h1 h2
    simp [vec, List.getD_eq_getElem?_getD, List.getElem?_eq_getElem h1]

/-- the matrix of an object satisfying the invariant: `n` rows of `n` positive entries summing to one -/
theorem FullTM.rows_stochastic (m : FullTM ℝ) (h : m.RowsInv) :
    ∃ Pf : Nat → Nat → ℝ, fullMatrix m.rows = vec m.n (fun i => vec m.n (Pf i))
      ∧ (∀ i j, i < m.n → j < m.n → 0 < Pf i j) ∧ ∀ i, i < m.n → ∑ j ∈ range m.n, Pf i j = 1 := by
  obtain ⟨hl, hr⟩ := h
  refine ⟨fun i j => ((m.rows.map (·.probs)).getD i []).getD j 0, ?_, ?_, ?_⟩
  · apply List.ext_getElem
    · simp [fullMatrix, vec, hl]
    · intro i h1 h2
      have hi : i < m.rows.length := by simpa [fullMatrix] using h1
      have hmem : m.rows[i] ∈ m.rows := List.getElem_mem hi
      obtain ⟨hinv, _, hd⟩ := hr _ hmem
      have hlen : m.rows[i].probs.length = m.n := by rw [hinv.sum_one.2.2, hd]
      simp only [fullMatrix, List.getElem_map, vec, List.getElem_range]
      rw [list_eq_vec _ m.n hlen]
      apply vec_congr; intro j _
      simp [List.getD_eq_getElem?_getD, List.getElem?_eq_getElem hi, vec]
  · intro i j hi hj
    have hi' : i < m.rows.length := by rw [hl]; exact hi
    have hmem : m.rows[i] ∈ m.rows := List.getElem_mem hi'
    obtain ⟨hinv, _, hd⟩ := hr _ hmem
    have hlen : m.rows[i].probs.length = m.n := by rw [hinv.sum_one.2.2, hd]
    have hj' : j < m.rows[i].probs.length := by rw [hlen]; exact hj
    simp only [List.getD_eq_getElem?_getD, List.getElem?_map, List.getElem?_eq_getElem hi', Option.map_some,
      Option.getD_some, List.getElem?_eq_getElem hj']
    exact hinv.sum_one.2.1 _ (List.getElem_mem hj')
  · intro i hi
    have hi' : i < m.rows.length := by rw [hl]; exact hi
    have hmem : m.rows[i] ∈ m.rows := List.getElem_mem hi'
    obtain ⟨hinv, _, hd⟩ := hr _ hmem
    have hlen : m.rows[i].probs.length = m.n := by rw [hinv.sum_one.2.2, hd]
    have : ∀ j, ((m.rows.map (·.probs)).getD i []).getD j 0 = m.rows[i].probs.getD j 0 := by
      intro j
      simp [List.getD_eq_getElem?_getD, List.getElem?_eq_getElem hi']
    simp only [this]
    rw [← sum_vec, ← list_eq_vec _ m.n hlen]
    exact hinv.sum_one.1

/-! ### the equilibrium vector (the repaired loop: squaring until the rows agree) -/

/-- the list form of an `n × n` matrix of entries `f i j` -/
noncomputable def matL (n : Nat) (f : Nat → Nat → ℝ) : List (List ℝ) := vec n (fun i => vec n (f i))

theorem colOf_matL (n : Nat) (f : Nat → Nat → ℝ) (j : Nat) (hj : j < n) : colOf (matL n f) j = vec n (fun k => f k j) := by
  unfold colOf matL vec
  rw [List.filterMap_map]
  have : ((fun r : List ℝ => r[j]?) ∘ fun i => List.map (f i) (List.range n)) = fun i => some (f i j) := by
    funext i; simp [hj]
  rw [this]
  induction (List.range n) with
  | nil => rfl
  | cons x xs ih => simp [List.filterMap_cons, ih]

theorem sqRows_matL (n : Nat) (f : Nat → Nat → ℝ) :
    sqRows n (matL n f) = matL n (fun i j => ∑ k ∈ range n, f i k * f k j) := by
  unfold sqRows
  conv_lhs => rw [show matL n f = vec n (fun i => vec n (f i)) from rfl]
  unfold vec
  rw [List.map_map]
  apply List.map_congr_left; intro i _
  apply List.map_congr_left; intro j hj
  have hj' : j < n := List.mem_range.mp hj
  simp only [Function.comp]
  rw [show (List.map (fun i => List.map (f i) (List.range n)) (List.range n)) = matL n f from rfl, colOf_matL n f j hj']
  exact dot_vec n (f i) (fun k => f k j)

theorem normRows_matL (n : Nat) (f : Nat → Nat → ℝ) (h : ∀ i, i < n → ∑ j ∈ range n, f i j = 1) :
    normRows (matL n f) = matL n f := by
  unfold normRows matL
  conv_lhs => unfold vec
  rw [List.map_map]
  unfold vec
  apply List.map_congr_left; intro i hi
  simp only [Function.comp]
  rw [show List.map (f i) (List.range n) = vec n (f i) from rfl, sumL_vec, h i (List.mem_range.mp hi)]
  simp

theorem zip_map_same {β γ δ : Type} (g : β → γ) (h : β → δ) (l : List β) :
    List.zip (l.map g) (l.map h) = l.map (fun j => (g j, h j)) := by
  induction l with
  | nil => rfl
  | cons x xs ih => simp [ih]

theorem vecMul_pow_fixed {n : Nat} (Y : Matrix (Fin n) (Fin n) ℝ) (μ : Fin n → ℝ) (hst : μ ᵥ* Y = μ) (m : Nat) :
    μ ᵥ* Y ^ m = μ := by
  induction m with
  | zero => simp
  | succ m ih => rw [pow_succ', ← Matrix.vecMul_vecMul, hst, ih]

/-- the running maximum of the inner loop -/
theorem foldMax_spec (l : List (ℝ × ℝ)) (s0 : ℝ) :
    let r := l.foldl (fun s (x : ℝ × ℝ) => let d := Scalar.abs (x.1 - x.2); if Scalar.gtb d s then d else s) s0
    s0 ≤ r ∧ (∀ x ∈ l, |x.1 - x.2| ≤ r) ∧ ∀ c, s0 ≤ c → (∀ x ∈ l, |x.1 - x.2| ≤ c) → r ≤ c := by
  induction l generalizing s0 with
  | nil => exact ⟨le_refl _, fun x hx => absurd hx (by simp), fun c h _ => h⟩
  | cons x xs ih =>
    simp only [List.foldl_cons]
    set s1 : ℝ := if Scalar.gtb (Scalar.abs (x.1 - x.2)) s0 then Scalar.abs (x.1 - x.2) else s0 with hs1
    have h1 : s0 ≤ s1 ∧ |x.1 - x.2| ≤ s1 := by
      simp only [hs1, ScalarReal.gtb_iff, ScalarReal.abs_eq, sub_eq]
      split
      · exact ⟨by linarith, le_refl _⟩
      · rename_i hlt; exact ⟨le_refl _, by linarith [not_lt.mp hlt]⟩
    obtain ⟨i1, i2, i3⟩ := ih s1
    refine ⟨le_trans h1.1 i1, ?_, ?_⟩
    · intro y hy
      rcases List.mem_cons.mp hy with rfl | hy
      · exact le_trans h1.2 i1
      · exact i2 y hy
    · intro c hc hall
      apply i3 c
      · simp only [hs1, ScalarReal.gtb_iff, ScalarReal.abs_eq, sub_eq]
        split
        · exact hall x (by simp)
        · exact hc
      · exact fun y hy => hall y (by simp [hy])

theorem spreadOf_matL (n : Nat) (hn : 0 < n) (f : Nat → Nat → ℝ) :
    (∀ i j, i < n → j < n → |f i j - f 0 j| ≤ spreadOf (matL n f))
    ∧ ∀ c, 0 ≤ c → (∀ i j, i < n → j < n → |f i j - f 0 j| ≤ c) → spreadOf (matL n f) ≤ c := by
  obtain ⟨m, rfl⟩ : ∃ m, n = m + 1 := ⟨n - 1, by omega⟩
  have hm : matL (m + 1) f = vec (m + 1) (f 0) :: ((List.range m).map (fun i => vec (m + 1) (f (i + 1)))) := by
    unfold matL; rw [vec_succ']; rfl
  -- generic statement about the outer fold over any list of rows `vec n (f i)`, i ∈ is
  have outer : ∀ (is : List Nat) (s0 : ℝ),
      let r := (is.map (fun i => vec (m + 1) (f i))).foldl (fun s r => (List.zip r (vec (m + 1) (f 0))).foldl
        (fun s (x : ℝ × ℝ) => let d := Scalar.abs (x.1 - x.2); if Scalar.gtb d s then d else s) s) s0
      s0 ≤ r ∧ (∀ i ∈ is, ∀ j, j < m + 1 → |f i j - f 0 j| ≤ r)
        ∧ ∀ c, s0 ≤ c → (∀ i ∈ is, ∀ j, j < m + 1 → |f i j - f 0 j| ≤ c) → r ≤ c := by
    intro is
    induction is with
    | nil => intro s0; exact ⟨le_refl _, fun i hi => absurd hi (by simp), fun c h _ => h⟩
    | cons i is ih =>
      intro s0
      simp only [List.map_cons, List.foldl_cons]
      have hz : List.zip (vec (m + 1) (f i)) (vec (m + 1) (f 0)) = vec (m + 1) (fun j => (f i j, f 0 j)) := by
        unfold vec; exact zip_map_same _ _ _
      obtain ⟨a1, a2, a3⟩ := foldMax_spec (List.zip (vec (m + 1) (f i)) (vec (m + 1) (f 0))) s0
      obtain ⟨b1, b2, b3⟩ := ih ((List.zip (vec (m + 1) (f i)) (vec (m + 1) (f 0))).foldl
        (fun s (x : ℝ × ℝ) => let d := Scalar.abs (x.1 - x.2); if Scalar.gtb d s then d else s) s0)
      have hmem : ∀ j, j < m + 1 → (f i j, f 0 j) ∈ List.zip (vec (m + 1) (f i)) (vec (m + 1) (f 0)) := by
        intro j hj; rw [hz]; unfold vec; exact List.mem_map.mpr ⟨j, List.mem_range.mpr hj, rfl⟩
      refine ⟨le_trans a1 b1, ?_, ?_⟩
      · intro k hk j hj
        rcases List.mem_cons.mp hk with rfl | hk
        · exact le_trans (a2 _ (hmem j hj)) b1
        · exact b2 k hk j hj
      · intro c hc hall
        apply b3 c
        · apply a3 c hc
          intro x hx
          rw [hz] at hx; unfold vec at hx
          obtain ⟨j, hj, rfl⟩ := List.mem_map.mp hx
          exact hall i (by simp) j (List.mem_range.mp hj)
        · exact fun k hk j hj => hall k (by simp [hk]) j hj
  have hsp : spreadOf (matL (m + 1) f) = ((List.range (m + 1)).map (fun i => vec (m + 1) (f i))).foldl (fun s r =>
      (List.zip r (vec (m + 1) (f 0))).foldl
        (fun s (x : ℝ × ℝ) => let d := Scalar.abs (x.1 - x.2); if Scalar.gtb d s then d else s) s) Scalar.zero := by
    unfold spreadOf
    rw [hm]
    simp only
    rw [← hm]; rfl
  obtain ⟨o1, o2, o3⟩ := outer (List.range (m + 1)) Scalar.zero
  rw [hsp]
  exact ⟨fun i j hi hj => o2 i (List.mem_range.mpr hi) j hj,
    fun c hc hall => o3 c (by simpa using hc) (fun i hi j hj => hall i j (List.mem_range.mp hi) hj)⟩

/-- entries of a Mathlib matrix as a function of two naturals -/
noncomputable def fM {n : Nat} (X : Matrix (Fin n) (Fin n) ℝ) : Nat → Nat → ℝ :=
  fun i j => if h : i < n ∧ j < n then X ⟨i, h.1⟩ ⟨j, h.2⟩ else 0

theorem fM_apply {n : Nat} (X : Matrix (Fin n) (Fin n) ℝ) (i j : Fin n) : fM X i j = X i j := by
  simp [fM, i.isLt, j.isLt]

theorem matL_congr (n : Nat) (f g : Nat → Nat → ℝ) (h : ∀ i j, i < n → j < n → f i j = g i j) : matL n f = matL n g := by
  unfold matL; apply vec_congr; intro i hi; apply vec_congr; intro j hj; exact h i j hi hj

theorem sq_fM {n : Nat} (X : Matrix (Fin n) (Fin n) ℝ) :
    matL n (fun i j => ∑ k ∈ range n, fM X i k * fM X k j) = matL n (fM (X * X)) := by
  apply matL_congr; intro i j hi hj
  rw [Finset.sum_range]
  have : fM (X * X) i j = (X * X) ⟨i, hi⟩ ⟨j, hj⟩ := fM_apply (X * X) ⟨i, hi⟩ ⟨j, hj⟩
  rw [this, Matrix.mul_apply]
  apply Finset.sum_congr rfl; intro k _
  rw [show fM X i k = X ⟨i, hi⟩ k from fM_apply X ⟨i, hi⟩ k, show fM X k j = X k ⟨j, hj⟩ from fM_apply X k ⟨j, hj⟩]

theorem rowsum_fM {n : Nat} (X : Matrix (Fin n) (Fin n) ℝ) (hX : ∀ i, ∑ j, X i j = 1) (i : Nat) (hi : i < n) :
    ∑ j ∈ range n, fM X i j = 1 := by
  rw [Finset.sum_range, ← hX ⟨i, hi⟩]
  apply Finset.sum_congr rfl; intro j _; exact fM_apply X ⟨i, hi⟩ j

/-- the loop ends on `Y^(2^K)`; it has either converged there or used all its iterations -/
theorem eqLoop_pow {n : Nat} (hn : 0 < n) (fuel : Nat) (Y : Matrix (Fin n) (Fin n) ℝ)
    (hY : Y ∈ Matrix.rowStochastic ℝ (Fin n)) :
    ∃ K, K ≤ fuel ∧ eqLoop n fuel (matL n (fM Y)) = matL n (fM (Y ^ (2 ^ K)))
      ∧ (spreadOf (matL n (fM (Y ^ (2 ^ K)))) ≤ (eqTol : ℝ) ∨ (K = fuel ∧ (eqTol : ℝ) < spreadOf (matL n (fM (Y ^ (2 ^ K)))))) := by
  induction fuel generalizing Y with
  | zero =>
    refine ⟨0, le_refl _, by simp [eqLoop], ?_⟩
    by_cases h : spreadOf (matL n (fM (Y ^ (2 ^ 0)))) ≤ (eqTol : ℝ)
    · exact Or.inl h
    · exact Or.inr ⟨rfl, not_le.mp h⟩
  | succ fuel ih =>
    by_cases hconv : spreadOf (matL n (fM Y)) ≤ (eqTol : ℝ)
    · refine ⟨0, Nat.zero_le _, ?_, Or.inl (by simpa using hconv)⟩
      simp only [eqLoop, ScalarReal.leb_iff, hconv, if_true, pow_zero, pow_one]
    · have hY2 : Y * Y ∈ Matrix.rowStochastic ℝ (Fin n) := mul_mem hY hY
      obtain ⟨K, hK, he, hc⟩ := ih (Y * Y) hY2
      have hstep : normRows (sqRows n (matL n (fM Y))) = matL n (fM (Y * Y)) := by
        rw [sqRows_matL, sq_fM, normRows_matL _ _ (rowsum_fM (Y * Y) (Matrix.mem_rowStochastic_iff_sum.mp hY2).2)]
      have hpow : (Y * Y) ^ (2 ^ K) = Y ^ (2 ^ (K + 1)) := by rw [← pow_two, ← pow_mul, pow_succ']
      refine ⟨K + 1, by omega, ?_, ?_⟩
      · simp only [eqLoop, ScalarReal.leb_iff, hconv, if_false]
        rw [hstep, he, hpow]
      · rw [← hpow]
        rcases hc with h | ⟨h1, h2⟩
        · exact Or.inl h
        · exact Or.inr ⟨by omega, h2⟩

/-- rows that agree within `c`: row 0 is within `c` of every stationary distribution, and stationary up to `c` -/
theorem rows_agree_stationary {n : Nat} (hn : 0 < n) (Y : Matrix (Fin n) (Fin n) ℝ)
    (hY : Y ∈ Matrix.rowStochastic ℝ (Fin n)) (m : Nat) (c : ℝ)
    (hc : ∀ i j, |(Y ^ m) i j - (Y ^ m) ⟨0, hn⟩ j| ≤ c) :
    (∀ μ : Fin n → ℝ, (∀ i, 0 ≤ μ i) → ∑ i, μ i = 1 → μ ᵥ* Y = μ → ∀ j, |(Y ^ m) ⟨0, hn⟩ j - μ j| ≤ c)
    ∧ ∀ j, |∑ k, (Y ^ m) ⟨0, hn⟩ k * Y k j - (Y ^ m) ⟨0, hn⟩ j| ≤ c := by
  have avg : ∀ (w : Fin n → ℝ), (∀ i, 0 ≤ w i) → ∑ i, w i = 1 → ∀ j,
      |∑ i, w i * (Y ^ m) i j - (Y ^ m) ⟨0, hn⟩ j| ≤ c := by
    intro w hw0 hw1 j
    have : ∑ i, w i * (Y ^ m) i j - (Y ^ m) ⟨0, hn⟩ j = ∑ i, w i * ((Y ^ m) i j - (Y ^ m) ⟨0, hn⟩ j) := by
      simp only [mul_sub, Finset.sum_sub_distrib, ← Finset.sum_mul, hw1, one_mul]
    rw [this]
    calc |∑ i, w i * ((Y ^ m) i j - (Y ^ m) ⟨0, hn⟩ j)| ≤ ∑ i, |w i * ((Y ^ m) i j - (Y ^ m) ⟨0, hn⟩ j)| :=
          Finset.abs_sum_le_sum_abs _ _
      _ ≤ ∑ i, w i * c := Finset.sum_le_sum (fun i _ => by
          rw [abs_mul, abs_of_nonneg (hw0 i)]; exact mul_le_mul_of_nonneg_left (hc i j) (hw0 i))
      _ = c := by rw [← Finset.sum_mul, hw1, one_mul]
  constructor
  · intro μ hμ0 hμ1 hst j
    have hpow : μ ᵥ* Y ^ m = μ := vecMul_pow_fixed Y μ hst m
    have h1 := avg μ hμ0 hμ1 j
    have h2 : ∑ i, μ i * (Y ^ m) i j = μ j := by
      have := congrFun hpow j
      simpa [Matrix.vecMul, dotProduct] using this
    rw [h2] at h1
    rw [abs_sub_comm]; exact h1
  · intro j
    obtain ⟨hY0, hY1⟩ := Matrix.mem_rowStochastic_iff_sum.mp hY
    have h1 := avg (fun k => Y ⟨0, hn⟩ k) (fun k => hY0 _ k) (hY1 _) j
    have hcomm : ∑ k, (Y ^ m) ⟨0, hn⟩ k * Y k j = ∑ k, Y ⟨0, hn⟩ k * (Y ^ m) k j := by
      have : (Y ^ m * Y) ⟨0, hn⟩ j = (Y * Y ^ m) ⟨0, hn⟩ j := by rw [← pow_succ, ← pow_succ']
      simpa [Matrix.mul_apply] using this
    rw [hcomm]; exact h1

/-- the rows of `Y^m` agree within `2(1 − n·δ)^m` (Dobrushin) -/
theorem rows_agree_bound {n : Nat} (hn : 0 < n) (Y : Matrix (Fin n) (Fin n) ℝ) (hY : ∀ i, ∑ j, Y i j = 1) (δ : ℝ)
    (hδ : ∀ i j, δ ≤ Y i j) (hcδ : 0 ≤ 1 - (n : ℝ) * δ) (m : Nat) (i j : Fin n) :
    |(Y ^ m) i j - (Y ^ m) ⟨0, hn⟩ j| ≤ 2 * (1 - n * δ) ^ m := by
  set v : Fin n → ℝ := Pi.single i 1 - Pi.single ⟨0, hn⟩ 1 with hv
  have hz : ∑ k, v k = 0 := by simp [hv, Finset.sum_sub_distrib]
  have hl : l1 v ≤ 2 := by
    calc l1 v ≤ ∑ k, (|(Pi.single i (1:ℝ) : Fin n → ℝ) k| + |(Pi.single (⟨0, hn⟩ : Fin n) (1:ℝ) : Fin n → ℝ) k|) :=
          Finset.sum_le_sum (fun k _ => by simpa [hv] using abs_sub ((Pi.single i (1:ℝ) : Fin n → ℝ) k) _)
      _ = 2 := by
          rw [Finset.sum_add_distrib]
          simp [Pi.single_apply, abs_ite]
          norm_num
  have hb := l1_vecMul_pow_le Y hY δ hδ hcδ v hz m
  have hrow : (v ᵥ* Y ^ m) j = (Y ^ m) i j - (Y ^ m) ⟨0, hn⟩ j := by
    rw [hv, Matrix.sub_vecMul, Matrix.single_one_vecMul, Matrix.single_one_vecMul]; rfl
  calc |(Y ^ m) i j - (Y ^ m) ⟨0, hn⟩ j| = |(v ᵥ* Y ^ m) j| := by rw [hrow]
    _ ≤ l1 (v ᵥ* Y ^ m) := abs_le_l1 _ j
    _ ≤ (1 - n * δ) ^ m * l1 v := hb
    _ ≤ (1 - n * δ) ^ m * 2 := mul_le_mul_of_nonneg_left hl (pow_nonneg hcδ m)
    _ = 2 * (1 - n * δ) ^ m := by ring

/-- the repaired `getEquilibriumFrequencies()` on an `n × n` matrix with non-negative entries `≥ δ` and unit row
sums: the answer is row 0 of `P^(2^K)`, a probability vector; if the loop ended by convergence (it does unless
`1e-14 < 2(1 − nδ)^(2^64)`) it is within `1e-14` of *every* stationary distribution of `P` and stationary up to `1e-14` -/
theorem fullEqOf_stationary (n : Nat) (hn : 0 < n) (Pf : Nat → Nat → ℝ) (δ : ℝ) (hδ0 : 0 ≤ δ)
    (hδ : ∀ i j, i < n → j < n → δ ≤ Pf i j) (hsum : ∀ i, i < n → ∑ j ∈ range n, Pf i j = 1) :
    ∃ (π : Nat → ℝ) (K : Nat), K ≤ 64 ∧ fullEqOf n (matL n Pf) = some (vec n π)
      ∧ (∀ j, j < n → 0 ≤ π j) ∧ ∑ j ∈ range n, π j = 1
      ∧ (((∀ μ : Nat → ℝ, (∀ i, i < n → 0 ≤ μ i) → ∑ i ∈ range n, μ i = 1 →
              (∀ j, j < n → ∑ k ∈ range n, μ k * Pf k j = μ j) → ∀ j, j < n → |π j - μ j| ≤ (eqTol : ℝ))
          ∧ ∀ j, j < n → |∑ k ∈ range n, π k * Pf k j - π j| ≤ (eqTol : ℝ))
        ∨ (K = 64 ∧ (eqTol : ℝ) < 2 * (1 - n * δ) ^ (2 ^ 64))) := by
  set X : Matrix (Fin n) (Fin n) ℝ := fun i j => Pf i.val j.val with hX
  have hXf : matL n Pf = matL n (fM X) := by
    apply matL_congr; intro i j hi hj
    exact (fM_apply X ⟨i, hi⟩ ⟨j, hj⟩).symm
  have hX0 : ∀ i j, 0 ≤ X i j := fun i j => le_trans hδ0 (hδ i j i.isLt j.isLt)
  have hXs : ∀ i, ∑ j, X i j = 1 := by
    intro i
    have := hsum i i.isLt
    rw [Finset.sum_range] at this
    exact this
  have hXδ : ∀ i j, δ ≤ X i j := fun i j => hδ i j i.isLt j.isLt
  have hc : 0 ≤ 1 - (n : ℝ) * δ := by
    have h1 : ∑ _j : Fin n, δ ≤ ∑ j, X ⟨0, hn⟩ j := Finset.sum_le_sum (fun j _ => hXδ _ j)
    rw [hXs] at h1
    simp only [Finset.sum_const, Finset.card_univ, Fintype.card_fin, nsmul_eq_mul] at h1
    linarith
  have hmem : X ∈ Matrix.rowStochastic ℝ (Fin n) := Matrix.mem_rowStochastic_iff_sum.mpr ⟨hX0, hXs⟩
  obtain ⟨K, hK, he, hconv⟩ := eqLoop_pow hn 64 X hmem
  set M := X ^ (2 ^ K) with hM
  have hMs := Matrix.mem_rowStochastic_iff_sum.mp (pow_mem hmem (2 ^ K))
  obtain ⟨m, rfl⟩ : ∃ m, n = m + 1 := ⟨n - 1, by omega⟩
  have hfull : fullEqOf (m + 1) (matL (m + 1) Pf) = some (vec (m + 1) (fM M 0)) := by
    unfold fullEqOf
    rw [hXf, he]
    unfold matL; rw [vec_succ']
  have hπ : ∀ j (hj : j < m + 1), fM M 0 j = M ⟨0, hn⟩ ⟨j, hj⟩ := fun j hj => fM_apply M ⟨0, hn⟩ ⟨j, hj⟩
  refine ⟨fM M 0, K, hK, hfull, fun j hj => by rw [hπ j hj]; exact hMs.1 _ _, ?_, ?_⟩
  · rw [Finset.sum_range]
    have : ∀ j : Fin (m + 1), fM M 0 j = M ⟨0, hn⟩ j := fun j => hπ j j.isLt
    simp only [this]; exact hMs.2 _
  · rcases hconv with h | ⟨h1, h2⟩
    · left
      have hsp := (spreadOf_matL (m + 1) hn (fM M)).1
      have hagree : ∀ i j, |M i j - M ⟨0, hn⟩ j| ≤ (eqTol : ℝ) := by
        intro i j
        have := hsp i j i.isLt j.isLt
        rw [fM_apply M i j, hπ j j.isLt] at this
        exact le_trans this h
      obtain ⟨r1, r2⟩ := rows_agree_stationary hn X hmem (2 ^ K) _ hagree
      constructor
      · intro μ hμ0 hμ1 hst j hj
        have hst' : (fun i : Fin (m + 1) => μ i.val) ᵥ* X = fun i : Fin (m + 1) => μ i.val := by
          funext j'
          have := hst j' j'.isLt
          rw [Finset.sum_range] at this
          simpa [Matrix.vecMul, dotProduct, hX] using this
        have := r1 (fun i => μ i.val) (fun i => hμ0 i i.isLt) (by rw [← hμ1, Finset.sum_range]) hst' ⟨j, hj⟩
        rw [hπ j hj]; exact this
      · intro j hj
        have := r2 ⟨j, hj⟩
        rw [Finset.sum_range, hπ j hj]
        have hs : ∀ k : Fin (m + 1), fM M 0 k * Pf k j = M ⟨0, hn⟩ k * X k ⟨j, hj⟩ := fun k => by rw [hπ k k.isLt]
        simp only [hs]; exact this
    · right
      refine ⟨h1, lt_of_lt_of_le h2 ?_⟩
      rw [h1] at hM
      apply (spreadOf_matL (m + 1) hn (fM M)).2 _ (by positivity)
      intro i j hi hj
      rw [fM_apply M ⟨i, hi⟩ ⟨j, hj⟩, hπ j hj, hM]
      exact rows_agree_bound hn X hXs δ hXδ hc (2 ^ 64) ⟨i, hi⟩ ⟨j, hj⟩

end Bpp.Hmm
