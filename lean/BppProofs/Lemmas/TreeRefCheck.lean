import BppProofs.Lemmas.TreeRooted
import BppProofs.Lemmas.GraphSpec
/-
The executable test `isRootedTree` of the reference (`BppModel/TreeRef.lean`) accepts every valid
rooted tree: the driver's reference tree `refOf g` is defined on all of them.
-/
namespace Bpp.Graph
open AL

namespace DTree
variable {g : G} {P : PTree}

/-- the edges that lead to `n`, selected from the edge table -/
theorem edges_into (h : DTree g P) (n : Nat) :
    (g.edges.filter (fun p => p.2.2 == n)).length = match P.par n with | some _ => 1 | none => 0 := by
  have hasc := h.cons.sorted.edges
  have hfa := G.asc_filter (fun p : Nat × (Nat × Nat) => p.2.2 == n) hasc
  cases hp : P.par n with
  | none =>
    simp only
    have : g.edges.filter (fun p => p.2.2 == n) = [] := by
      apply List.eq_nil_iff_forall_not_mem.2
      intro q hq
      obtain ⟨hq1, hq2⟩ := List.mem_filter.1 hq
      obtain ⟨e, a, b⟩ := q
      have hb : b = n := by simpa using hq2
      subst hb
      have hf := (mem_iff_find hasc e (a, b)).1 hq1
      have ho := (h.cons.views.edge_listed e a b hf).1
      have := (h.arc a b).1 (by unfold Arc; rw [ho]; rfl)
      rw [hp] at this; cases this
    rw [this]; rfl
  | some p =>
    simp only
    have ha : Arc g p n := (h.arc p n).2 hp
    unfold Arc at ha
    cases ho : g.outE p n with
    | none => rw [ho] at ha; cases ha
    | some e =>
      have hE : find e g.edges = some (p, n) := by
        rcases h.cons.views.out_edge p n e ho with h1 | ⟨h2, _⟩
        · exact h1
        · rw [h.dir] at h2; cases h2
      have : g.edges.filter (fun q => q.2.2 == n) = [(e, (p, n))] := by
        apply asc_ext hfa (by simp [Asc, AL.keys])
        intro k
        rw [G.find_filter_asc _ hasc k]
        by_cases hk : k = e
        · subst hk; simp [hE, find]
        · have : find k [(e, (p, n))] = none := by simp [find, Ne.symm hk]
          rw [this]
          cases hfk : find k g.edges with
          | none => rfl
          | some v =>
            obtain ⟨a, b⟩ := v
            simp only [Option.bind_some]
            by_cases hb : b = n
            · subst hb
              exfalso
              have ho' := (h.cons.views.edge_listed k a b hfk).1
              have := (h.arc a b).1 (by unfold Arc; rw [ho']; rfl)
              rw [hp] at this; cases this
              rw [ho] at ho'; cases ho'; exact hk rfl
            · simp [hb]
      rw [this]; rfl

theorem up_filter_length (h : DTree g P) (n : Nat) :
    ((refRaw g).up.filter (fun t => t.1 == n)).length = (g.edges.filter (fun p => p.2.2 == n)).length := by
  simp only [refRaw, List.filter_map, List.length_map]
  rfl

/-- the reference test accepts the valid rooted tree -/
theorem isRootedTree (h : DTree g P) (hr : P.root = g.root) : Bpp.Graph.isRootedTree g = true := by
  unfold Bpp.Graph.isRootedTree
  have hroot : g.hasNode g.root = true := (h.nodes g.root).1 (hr ▸ h.wf.root_mem)
  simp only [h.dir, hroot, Bool.true_and, Bool.and_eq_true, List.all_eq_true]
  refine ⟨⟨?_, ?_⟩, ?_⟩
  · intro n hn
    have hnn : n ∈ P.nodes := (h.nodes n).2 ((G.mem_keys_hasNode g n).1 hn)
    rw [h.up_filter_length, h.edges_into]
    by_cases hnr : n = g.root
    · subst hnr; rw [← hr, h.wf.par_root]; simp [hr]
    · obtain ⟨p, hp, _, _⟩ := h.wf.par_some n hnn (by rw [hr]; exact hnr)
      rw [hp]; simp [hnr]
  · intro t ht
    obtain ⟨c, a, e⟩ := t
    have ho := (h.mem_up c a e).1 ht
    have hn := G.arc_nodes h.cons (a := a) (b := c) (by unfold Arc; rw [ho]; rfl)
    simp only [Bool.and_eq_true, List.contains_iff_mem]
    exact ⟨(G.mem_keys_hasNode g c).2 hn.2, (G.mem_keys_hasNode g a).2 hn.1⟩
  · intro n hn
    have hnn : n ∈ P.nodes := (h.nodes n).2 ((G.mem_keys_hasNode g n).1 hn)
    rw [h.ref_anc hnn, h.wf.lineOf_last _ n hnn (Nat.le_refl _), hr]
    simp

theorem refOf (h : DTree g P) (hr : P.root = g.root) : Bpp.Graph.refOf g = some (refRaw g) := by
  unfold Bpp.Graph.refOf; rw [h.isRootedTree hr]; rfl

end DTree
end Bpp.Graph
