import BppModel.GraphIter
/-! Helper lemmas for `Props/C14Iter.lean`: the client loop over an iterator yields the table
(graph iterators), resp. the objects of the ids that have one (observer iterators). -/
namespace Bpp.Graph
open Bpp.AL

namespace Cursor
variable {α : Type}

theorem loop_eq (fuel : Nat) (c : Cursor α) (acc : List α) (h : c.rest.length < fuel) :
    loop fuel c acc = acc ++ c.rest := by
  induction fuel generalizing c acc with
  | zero => omega
  | succ fuel ih =>
    unfold loop
    rcases hr : c.rest with _ | ⟨x, r⟩
    · simp [atEnd, hr]
    · simp only [atEnd, hr, List.isEmpty_cons, Bool.false_eq_true, if_false, deref, List.head?_cons]
      have : (c.next).rest = r := by simp [next, hr]
      rw [ih c.next (acc ++ [x]) (by rw [this]; rw [hr] at h; simp at h; omega), this]
      simp

theorem drain_eq (c : Cursor α) : c.drain = c.table := by
  unfold drain
  rw [loop_eq _ _ _ (by simp [start])]
  simp [start]

end Cursor

namespace OCursor

/-- the ids from the first one that has an object -/
def settle (obj : Nat → Option Obj) : List Nat → List Nat
  | [] => []
  | id :: r => if (obj id).isNone then settle obj r else id :: r

theorem settle_length (obj : Nat → Option Obj) (l : List Nat) : (settle obj l).length ≤ l.length := by
  induction l with
  | nil => simp [settle]
  | cons id r ih => unfold settle; split <;> simp <;> omega

theorem settle_filterMap (obj : Nat → Option Obj) (l : List Nat) : (settle obj l).filterMap obj = l.filterMap obj := by
  induction l with
  | nil => rfl
  | cons id r ih =>
    unfold settle
    split
    · rename_i h
      rw [ih]
      cases ho : obj id with
      | none => simp [ho]
      | some x => simp [ho] at h
    · rfl

theorem skip_eq (obj : Nat → Option Obj) (fuel : Nat) (c : Cursor Nat) (h : c.rest.length < fuel) :
    skip obj fuel c = { c with rest := settle obj c.rest } := by
  induction fuel generalizing c with
  | zero => omega
  | succ fuel ih =>
    unfold skip
    rcases hr : c.rest with _ | ⟨id, r⟩
    · simp [Cursor.deref, hr, settle]
      cases c; simp_all
    · simp only [Cursor.deref, hr, List.head?_cons]
      unfold settle
      split
      · have hn : (c.next).rest = r := by simp [Cursor.next, hr]
        rw [ih c.next (by rw [hn]; rw [hr] at h; simp at h; omega), hn]
        simp [Cursor.next]
      · cases c; simp_all

/-- the current id has an object, or the iterator is at its end -/
def Settled (obj : Nat → Option Obj) (l : List Nat) : Prop := settle obj l = l

theorem settled_settle (obj : Nat → Option Obj) (l : List Nat) : Settled obj (settle obj l) := by
  induction l with
  | nil => simp [Settled, settle]
  | cons id r ih =>
    unfold settle
    split
    · exact ih
    · rename_i h; unfold Settled settle; simp [h]

theorem loop_eq (fuel : Nat) (c : OCursor) (acc : List Obj) (h : c.it.rest.length < fuel)
    (hs : Settled c.obj c.it.rest) (hl : c.it.rest.length ≤ c.it.table.length) :
    loop fuel c acc = acc ++ c.it.rest.filterMap c.obj := by
  induction fuel generalizing c acc with
  | zero => omega
  | succ fuel ih =>
    unfold loop
    rcases hr : c.it.rest with _ | ⟨id, r⟩
    · simp [atEnd, Cursor.atEnd, hr]
    · simp only [atEnd, Cursor.atEnd, hr, List.isEmpty_cons, Bool.false_eq_true, if_false, deref, Cursor.deref,
        List.head?_cons, Option.bind_some]
      -- the current id has an object
      have hobj : ∃ x, c.obj id = some x := by
        unfold Settled at hs; rw [hr] at hs; unfold settle at hs
        cases ho : c.obj id with
        | some x => exact ⟨x, rfl⟩
        | none =>
          simp only [ho, Option.isNone_none, if_true] at hs
          have := settle_length c.obj r
          rw [hs] at this; simp at this; exfalso; omega
      obtain ⟨x, hx⟩ := hobj
      simp only [hx]
      have hnr : (c.it.next).rest = r := by simp [Cursor.next, hr]
      have hnt : (c.it.next).table = c.it.table := rfl
      have hlen : r.length < c.it.table.length + 1 := by rw [hr] at hl; simp at hl; omega
      have hnext : c.next = { c with it := { c.it with rest := settle c.obj r } } := by
        unfold next
        rw [skip_eq _ _ _ (by rw [hnr]; exact hlen), hnr]
        rfl
      rw [hnext]
      rw [ih _ (acc ++ [x]) ?_ (settled_settle _ _) ?_]
      · simp only [settle_filterMap, List.filterMap_cons, hx, List.append_assoc, List.singleton_append]
      · have := settle_length c.obj r
        simp only; rw [hr] at h; simp at h; omega
      · have := settle_length c.obj r
        simp only; rw [hr] at hl; simp at hl; omega

theorem drain_eq (c : OCursor) : c.drain = c.it.table.filterMap c.obj := by
  unfold drain
  have hst : c.start = { c with it := { c.it with rest := settle c.obj c.it.table } } := by
    unfold start
    rw [skip_eq _ _ _ (by simp [Cursor.start])]
    rfl
  rw [hst, loop_eq _ _ _ ?_ (settled_settle _ _) ?_]
  · simp [settle_filterMap]
  · have := settle_length c.obj c.it.table; simp only; omega
  · exact settle_length c.obj c.it.table

end OCursor

/-! ### two ascending lists that both contain the support of `f` give the same `filterMap f` -/

theorem filterMap_none {β : Type} (f : Nat → Option β) (l : List Nat) (h : ∀ x ∈ l, f x = none) : l.filterMap f = [] := by
  induction l with
  | nil => rfl
  | cons x r ih =>
    rw [List.filterMap_cons, h x List.mem_cons_self]
    exact ih (fun y hy => h y (List.mem_cons_of_mem _ hy))

theorem filterMap_asc_iff {β : Type} (f : Nat → Option β) (A B : List Nat)
    (hA : A.Pairwise (· < ·)) (hB : B.Pairwise (· < ·))
    (hs : ∀ x, (f x).isSome = true → (x ∈ A ↔ x ∈ B)) :
    A.filterMap f = B.filterMap f := by
  induction A generalizing B with
  | nil =>
    rw [filterMap_none f B]
    · rfl
    · intro x hx
      cases h : f x with
      | none => rfl
      | some v => have := (hs x (by simp [h])).mpr hx; cases this
  | cons a A' ih =>
    induction B with
    | nil =>
      rw [filterMap_none f (a :: A')]
      · rfl
      · intro x hx
        cases h : f x with
        | none => rfl
        | some v => have := (hs x (by simp [h])).mp hx; cases this
    | cons b B' ihB =>
      have hA' := (List.pairwise_cons.mp hA)
      have hB' := (List.pairwise_cons.mp hB)
      rcases Nat.lt_trichotomy a b with hlt | heq | hgt
      · have hfa : f a = none := by
          cases h : f a with
          | none => rfl
          | some v =>
            have := (hs a (by simp [h])).mp List.mem_cons_self
            rcases List.mem_cons.mp this with h1 | h1
            · omega
            · have := hB'.1 a h1; omega
        rw [List.filterMap_cons, hfa]
        refine ih (b :: B') hA'.2 hB ?_
        intro x hx
        have hxa : x ≠ a := by intro h; subst h; simp [hfa] at hx
        rw [← hs x hx]; simp [hxa]
      · subst heq
        rw [List.filterMap_cons, List.filterMap_cons (l := B')]
        have : A'.filterMap f = B'.filterMap f := by
          refine ih B' hA'.2 hB'.2 ?_
          intro x hx
          by_cases hxa : x = a
          · subst hxa
            constructor
            · intro h; have := hA'.1 x h; omega
            · intro h; have := hB'.1 x h; omega
          · have := hs x hx
            simp only [List.mem_cons, hxa, false_or] at this
            exact this
        rw [this]
      · have hfb : f b = none := by
          cases h : f b with
          | none => rfl
          | some v =>
            have := (hs b (by simp [h])).mpr List.mem_cons_self
            rcases List.mem_cons.mp this with h1 | h1
            · omega
            · have := hA'.1 b h1; omega
        rw [List.filterMap_cons (l := B'), hfb]
        refine ihB hB'.2 ?_
        intro x hx
        have hxb : x ≠ b := by intro h; subst h; simp [hfb] at hx
        rw [hs x hx]; simp [hxb]

theorem filterMap_asc_eq {β : Type} (f : Nat → Option β) (A B : List Nat)
    (hA : A.Pairwise (· < ·)) (hB : B.Pairwise (· < ·))
    (hsA : ∀ x, (f x).isSome = true → x ∈ A) (hsB : ∀ x, (f x).isSome = true → x ∈ B) :
    A.filterMap f = B.filterMap f :=
  filterMap_asc_iff f A B hA hB (fun x hx => ⟨fun _ => hsB x hx, fun _ => hsA x hx⟩)

end Bpp.Graph
