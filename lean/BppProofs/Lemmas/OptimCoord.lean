import BppProofs.Lemmas.OptimNewton
import BppProofs.Lemmas.OptimBrent
/-!
Helper lemmas for C10: the coordinate-wise optimisers `SimpleMultiDimensions` (Brent along each
coordinate in turn) and `SimpleNewtonMultiDimensions` (Newton along each coordinate in turn) on the
objective of the harness, over `ℝ`.

The invariant between coordinates (`Coord.Inv`): the optimiser's parameters have precision 0, hold
feasible values, have distinct names that are parameters of the function, and the function has been
left at the values they hold.  One coordinate: the one-dimensional optimiser is initialised with the
sub-list of that coordinate, run, and the function's point is copied back
(`matchParametersValues`) — the value it returns is the objective at the point the function is left
at and is not above the objective at the point the coordinate started from.
-/
set_option linter.unusedSectionVars false
namespace Bpp.Optim
open Bpp

variable (obj : List ℝ → ℝ) (D : Deriv ℝ) (cap : Option Nat)

structure Coord.Inv {τ : Type} (len : Nat) (ns : List Nat) (s : St (Fn ℝ) τ ℝ) : Prop where
  good : Good s.core.params
  names : names s.core.params = ns
  sync : Sync s.fn s.core.params
  len : s.fn.point.length = len

theorem set_self_of_get (pt : List ℝ) (k : Nat) (v : ℝ) (h : pt[k]? = some v) : pt.set k v = pt := by
  apply List.ext_getElem?
  intro i
  by_cases hi : i = k
  · subst hi
    have hlt : i < pt.length := by
      by_contra hc; rw [List.getElem?_eq_none (not_lt.1 hc)] at h; cases h
    rw [List.getElem?_set_self hlt, h]
  · rw [List.getElem?_set_ne (fun c => hi c.symm)]

theorem applyPolicy_good (pol : Policy) (pl : PList ℝ) (h : Good pl) : Good (applyPolicy pol pl) := by
  intro q hq
  cases pol with
  | keep => exact h q hq
  | ignore =>
    simp only [applyPolicy, List.mem_map] at hq
    obtain ⟨q0, hq0, rfl⟩ := hq
    exact ⟨(h q0 hq0).1, by simp [Param.invOk, Param.accepts, Param.removeConstraint]⟩
  | auto =>
    simp only [applyPolicy, List.mem_map] at hq
    obtain ⟨q0, hq0, rfl⟩ := hq
    exact h q0 hq0

/-- `BrentOneDimension::optimize` ends on an evaluation: the value is the objective at the point the
function is left at -/
theorem brentOptimize_value (fuel : Nat) (s s2 : St (Fn ℝ) (Brent ℝ) ℝ) (v : ℝ)
    (h : brentOptimize (Fn.iface obj D cap) fuel s = .ok (s2, v)) : v = obj s2.fn.point := by
  unfold brentOptimize at h
  split at h
  · cases h
  · split at h
    · cases h
    · rename_i fn2 v2 hf
      simp only [Except.ok.injEq, Prod.mk.injEq] at h
      obtain ⟨rfl, rfl⟩ := h
      exact (iface_f_point obj D cap _ _ _ _ hf).2.1

/-- one coordinate of `SimpleMultiDimensions::doStep` -/
theorem simpleCoord_spec (fuel : Nat) (len : Nat) (ns : List Nat) (hns : ns.Nodup ∧ ∀ n ∈ ns, n < len)
    (s s' : St (Fn ℝ) (Simple ℝ) ℝ) (i : Nat) (f : ℝ)
    (hi : Coord.Inv len ns s) (h : simpleCoord (Fn.iface obj D cap) fuel s i = .ok (s', f)) :
    Coord.Inv len ns s' ∧ f = obj s'.fn.point ∧ f ≤ obj s.fn.point ∧ s'.ext.nbParams = s.ext.nbParams ∧
    s'.core.cur = s.core.cur := by
  unfold simpleCoord at h
  split at h
  · cases h
  · rename_i q hq
    have hqm : q ∈ s.core.params := List.mem_of_getElem? hq
    simp only [] at h
    generalize orderedInterval (q.p.value - Scalar.max (Scalar.ofRat 1 1000000) (Scalar.min (Scalar.abs q.p.value) s.core.tolerance))
      (q.p.value + Scalar.max (Scalar.ofRat 1 1000000) (Scalar.min (Scalar.abs q.p.value) s.core.tolerance)) = iv at h
    obtain ⟨lo, hi'⟩ := iv
    simp only [] at h
    split at h
    · cases h
    · rename_i inner1 hinit
      split at h
      · cases h
      · rename_i inner2 fv hopt
        split at h
        · cases h
        · rename_i pl hml
          simp only [Except.ok.injEq, Prod.mk.injEq] at h
          obtain ⟨rfl, rfl⟩ := h
          -- the parameter the one-dimensional optimiser works on
          obtain ⟨p0, hap, hp0v, hp0p, hp0i⟩ := applyPolicy_single s.ext.icore.policy q
          have hgq := hi.good q hqm
          have hp0prec : p0.precision = 0 := by rw [hp0p]; exact hgq.1
          have hp0inv : p0.invOk = true := hp0i hgq.2
          have hk : q.name < s.fn.point.length := by
            rw [hi.len]; exact hns.2 _ (by rw [← hi.names]; exact mem_names hqm)
          have hJ : AlongP s.fn.point q.name p0 s.fn (applyPolicy s.ext.icore.policy [q]) := by
            rw [hap]
            exact ⟨⟨p0.value, by rw [reval_self], hp0inv⟩, hk, rfl, fun _ _ => rfl⟩
          have hx0 : value0 (applyPolicy s.ext.icore.policy [q]) = some q.p.value := by
            rw [hap]; simp [value0, hp0v]
          have hdet := objective_det_con obj D cap s.fn.point q.name p0 hp0prec hp0inv
          have hbi := brentInit_spec (Fn.iface obj D cap) _ hdet fuel _ inner1 [q] q.p.value hinit hJ hx0
          obtain ⟨hdesc0, -, x, -, -, hJ2⟩ := brentOptimize_spec (Fn.iface obj D cap) _ hdet fuel _ inner1 inner2 fv hbi hopt
          have hdesc := le_trans hdesc0 (min_le_left _ _)
          have hval := brentOptimize_value obj D cap fuel inner1 inner2 fv hopt
          have hlen2 : inner2.fn.point.length = len := by rw [hJ2.2.2.1]; exact hi.len
          simp only [iface_getParameters] at hml
          obtain ⟨hlike, hsync⟩ := matchList_sync s.core.params pl inner2.fn hi.good (by rw [hi.names]; exact hns.1)
            (fun q' hq' => by rw [hlen2]; exact hns.2 _ (by rw [← hi.names]; exact mem_names hq')) hml
          refine ⟨⟨hlike.good hi.good, by rw [hlike.names]; exact hi.names, hsync, hlen2⟩, hval, ?_, rfl, rfl⟩
          have hc : corr p0 q.p.value = q.p.value := by
            rw [← hp0v]; exact corr_accepted p0 _ hp0prec hp0inv hp0inv
          rw [hc, set_self_of_get _ _ _ (hi.sync q hqm)] at hdesc
          exact hdesc

theorem simpleCoords_spec (fuel : Nat) (len : Nat) (ns : List Nat) (hns : ns.Nodup ∧ ∀ n ∈ ns, n < len) :
    ∀ (l : List Nat) (s s' : St (Fn ℝ) (Simple ℝ) ℝ) (f0 f : ℝ), Coord.Inv len ns s → f0 = obj s.fn.point →
      simpleCoords (Fn.iface obj D cap) fuel l s f0 = .ok (s', f) →
      Coord.Inv len ns s' ∧ f = obj s'.fn.point ∧ f ≤ obj s.fn.point ∧ s'.ext.nbParams = s.ext.nbParams ∧
      s'.core.cur = s.core.cur := by
  intro l
  induction l with
  | nil =>
    intro s s' f0 f hi hf h
    rw [simpleCoords] at h
    simp only [Except.ok.injEq, Prod.mk.injEq] at h
    obtain ⟨rfl, rfl⟩ := h
    exact ⟨hi, hf, le_of_eq hf, rfl, rfl⟩
  | cons i r ih =>
    intro s s' f0 f hi _ h
    rw [simpleCoords] at h
    split at h
    · cases h
    · rename_i s1 f1 hc
      obtain ⟨a, b, c, d, e⟩ := simpleCoord_spec obj D cap fuel len ns hns s s1 i f1 hi hc
      obtain ⟨a', b', c', d', e'⟩ := ih s1 s' f1 f a b h
      exact ⟨a', b', le_trans c' (b ▸ c), d'.trans d, e'.trans e⟩

/-- one coordinate of `SimpleNewtonMultiDimensions::doStep` -/
theorem snewtonCoord_spec (fuel : Nat) (len : Nat) (ns : List Nat) (hns : ns.Nodup ∧ ∀ n ∈ ns, n < len)
    (s s' : St (Fn ℝ) (SNewton ℝ) ℝ) (i : Nat) (f : ℝ)
    (hi : Coord.Inv len ns s) (h : snewtonCoord (Fn.iface obj D cap) fuel s i = .ok (s', f)) :
    Coord.Inv len ns s' ∧ f = obj s'.fn.point ∧ f ≤ obj s.fn.point ∧ s'.ext.nbParams = s.ext.nbParams ∧
    s'.core.cur = s.core.cur := by
  unfold snewtonCoord at h
  split at h
  · cases h
  · rename_i q hq
    have hqm : q ∈ s.core.params := List.mem_of_getElem? hq
    simp only [] at h
    split at h
    · cases h
    · rename_i inner1 hinit
      split at h
      · cases h
      · rename_i inner2 fv hopt
        split at h
        · cases h
        · rename_i pl hml
          simp only [Except.ok.injEq, Prod.mk.injEq] at h
          obtain ⟨rfl, rfl⟩ := h
          have hk : q.name < s.fn.point.length := by
            rw [hi.len]; exact hns.2 _ (by rw [← hi.names]; exact mem_names hqm)
          have hnq : Named [q] s.fn.point.length := ⟨by simp, by intro n hn; simp at hn; subst hn; exact hk⟩
          obtain ⟨hinv1, -⟩ := newton_init_spec obj D cap _ inner1 [q] hnq hinit
          have hmp : matchPoint s.fn.point [q] = s.fn.point :=
            matchPoint_of_sync [q] s.fn.point (by intro q' hq'; simp at hq'; subst hq'; exact hi.sync q' hqm)
          rw [hmp] at hinv1
          obtain ⟨hinv2, hcur⟩ := newton_optimize_spec obj D cap _ _ _ hnq fuel inner1 inner2 fv hinv1 hopt
          have hlen2 : inner2.fn.point.length = len := by rw [hinv2.len]; exact hi.len
          simp only [iface_getParameters] at hml
          obtain ⟨hlike, hsync⟩ := matchList_sync s.core.params pl inner2.fn hi.good (by rw [hi.names]; exact hns.1)
            (fun q' hq' => by rw [hlen2]; exact hns.2 _ (by rw [← hi.names]; exact mem_names hq')) hml
          refine ⟨⟨hlike.good hi.good, by rw [hlike.names]; exact hi.names, hsync, hlen2⟩, ?_, ?_, rfl, rfl⟩
          · rw [← hcur]; exact hinv2.cur
          · rw [← hcur]; exact hinv2.below

theorem snewtonCoords_spec (fuel : Nat) (len : Nat) (ns : List Nat) (hns : ns.Nodup ∧ ∀ n ∈ ns, n < len) :
    ∀ (l : List Nat) (s s' : St (Fn ℝ) (SNewton ℝ) ℝ) (f0 f : ℝ), Coord.Inv len ns s → f0 = obj s.fn.point →
      snewtonCoords (Fn.iface obj D cap) fuel l s f0 = .ok (s', f) →
      Coord.Inv len ns s' ∧ f = obj s'.fn.point ∧ f ≤ obj s.fn.point ∧ s'.ext.nbParams = s.ext.nbParams ∧
      s'.core.cur = s.core.cur := by
  intro l
  induction l with
  | nil =>
    intro s s' f0 f hi hf h
    rw [snewtonCoords] at h
    simp only [Except.ok.injEq, Prod.mk.injEq] at h
    obtain ⟨rfl, rfl⟩ := h
    exact ⟨hi, hf, le_of_eq hf, rfl, rfl⟩
  | cons i r ih =>
    intro s s' f0 f hi _ h
    rw [snewtonCoords] at h
    split at h
    · cases h
    · rename_i s1 f1 hc
      obtain ⟨a, b, c, d, e⟩ := snewtonCoord_spec obj D cap fuel len ns hns s s1 i f1 hi hc
      obtain ⟨a', b', c', d', e'⟩ := ih s1 s' f1 f a b h
      exact ⟨a', b', le_trans c' (b ▸ c), d'.trans d, e'.trans e⟩

/-! ### the template around the coordinate loop -/

/-- the invariant of a run: `Coord.Inv`, the current value is the objective at the function's point,
and it is not above `B` -/
structure Multi.Inv {τ : Type} (B : ℝ) (len : Nat) (ns : List Nat) (s : St (Fn ℝ) τ ℝ) : Prop where
  coord : Coord.Inv len ns s
  cur : s.core.cur = obj s.fn.point
  below : s.core.cur ≤ B

theorem Multi.Inv.congr {τ : Type} {B : ℝ} {len : Nat} {ns : List Nat} {s t : St (Fn ℝ) τ ℝ} (h : Multi.Inv obj B len ns s)
    (hf : t.fn = s.fn) (hp : t.core.params = s.core.params) (hc : t.core.cur = s.core.cur) : Multi.Inv obj B len ns t :=
  ⟨⟨by rw [hp]; exact h.coord.good, by rw [hp]; exact h.coord.names, by rw [hf, hp]; exact h.coord.sync,
    by rw [hf]; exact h.coord.len⟩, by rw [hc, hf]; exact h.cur, by rw [hc]; exact h.below⟩

/-- a run of the template from a state that satisfies the invariant, for an optimiser whose `doStep`
keeps `Coord.Inv` and returns the objective at the point it leaves the function at, not above the
objective at the point it found it at, and whose stop condition is `FunctionStopCondition` -/
theorem multi_optimize_spec {τ : Type} (A : Algo (Fn ℝ) τ ℝ) (hstop : A.stop = fscStop)
    (B : ℝ) (len : Nat) (ns : List Nat)
    (hstep : ∀ s s' v, Coord.Inv len ns s → A.doStep s = .ok (s', v) →
      Coord.Inv len ns s' ∧ v = obj s'.fn.point ∧ v ≤ obj s.fn.point)
    (fuel : Nat) (s s2 : St (Fn ℝ) τ ℝ) (v : ℝ)
    (hi : Multi.Inv obj B len ns s) (h : A.optimize fuel s = .ok (s2, v)) :
    Multi.Inv obj B len ns s2 ∧ s2.core.cur = v := by
  unfold Algo.optimize at h
  split at h
  · cases h
  · cases hl : A.loop fuel { s with core := { s.core with tol := false, nbEval := 1 } } with
    | error e => rw [hl] at h; cases h
    | ok sL =>
      rw [hl] at h
      simp only [Except.ok.injEq, Prod.mk.injEq] at h
      obtain ⟨rfl, rfl⟩ := h
      refine ⟨?_, rfl⟩
      refine loop_invariant A (Multi.Inv obj B len ns) ?_ (fun u hu => hu.congr obj rfl rfl rfl) fuel
        ({ s with core := { s.core with tol := false, nbEval := 1 } } : St (Fn ℝ) τ ℝ) _ (hi.congr obj rfl rfl rfl) hl
      intro u u' w hu _ hst
      obtain ⟨u1, hd1, hc⟩ := step_cases A u hst
      obtain ⟨a, b, c⟩ := hstep u u1 w hu.coord hd1
      have h1 : Multi.Inv obj B len ns ({ u1 with core := { u1.core with cur := w } } : St (Fn ℝ) τ ℝ) :=
        ⟨⟨a.good, a.names, a.sync, a.len⟩, b, le_trans c (by rw [← hu.cur]; exact hu.below)⟩
      rcases hc with ⟨_, rfl⟩ | ⟨_, rfl⟩
      · exact h1
      · rw [hstop]
        have hs := fscStop_same ({ u1 with core := { u1.core with cur := w } } : St (Fn ℝ) τ ℝ)
        exact h1.congr obj hs.1 hs.2.1 hs.2.2.1

/-- what `init` establishes when `doInit` leaves the optimiser's list alone, calls
`getFunction()->setParameters(getParameters())` (or nothing, for an empty list) and the stop
condition is `FunctionStopCondition` -/
theorem multi_init_spec {τ : Type} (A : Algo (Fn ℝ) τ ℝ) (hsi : A.stopInit = fscInit)
    (hval : A.value = (Fn.iface obj D cap).value)
    (s s1 : St (Fn ℝ) τ ℝ) (params : PList ℝ)
    (hgood : Good params) (hn : Named params s.fn.point.length)
    (hdo : ∀ s0 sa, A.doInit s0 params = .ok sa → sa.core.params = s0.core.params ∧
      ((params = [] ∧ sa.fn = s0.fn) ∨ (Fn.iface obj D cap).setParameters s0.fn s0.core.params = .ok sa.fn))
    (h : A.init s params = .ok s1) :
    Multi.Inv obj (obj (matchPoint s.fn.point params)) s.fn.point.length (names params) s1 := by
  unfold Algo.init at h
  simp only [] at h
  split at h
  · cases h
  · rename_i sa hdi
    simp only [Except.ok.injEq] at h
    obtain ⟨hp, hfn⟩ := hdo _ sa hdi
    simp only [] at hp hfn
    rw [hsi] at h
    subst h
    have hpt : sa.fn.point = matchPoint s.fn.point params := by
      rcases hfn with ⟨rfl, e⟩ | e
      · rw [e]; rfl
      · rw [iface_set_point obj D cap _ _ _ e, matchPoint_applyPolicy]
    have hsync : Sync sa.fn (applyPolicy s.core.policy params) := by
      apply sync_of_matchPoint sa.fn s.fn.point
      · rw [hpt, matchPoint_applyPolicy]
      · rw [applyPolicy_names]; exact hn.1
      · exact (hn.of_names (applyPolicy_names _ _)).lt
    refine ⟨⟨?_, ?_, ?_, ?_⟩, ?_, ?_⟩
    · show Good sa.core.params; rw [hp]; exact applyPolicy_good _ _ hgood
    · show names sa.core.params = _; rw [hp]; exact applyPolicy_names _ _
    · show Sync sa.fn sa.core.params; rw [hp]; exact hsync
    · show sa.fn.point.length = _; rw [hpt, matchPoint_length]
    · show A.value sa.fn = obj sa.fn.point; rw [hval]; rfl
    · show A.value sa.fn ≤ _; rw [hval, ← hpt]; exact le_refl _

end Bpp.Optim
