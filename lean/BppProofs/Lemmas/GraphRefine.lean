import BppProofs.Lemmas.GraphLoops
/-! Helper lemmas for C14 (GlobalGraph), continued: composite operations, refinement of the reference multigraph -/
set_option linter.unusedSimpArgs false
set_option linter.unusedVariables false
set_option linter.unusedSectionVars false
namespace Bpp
namespace Graph
open AL
namespace G

/-! #### composite creators never fail half-way -/

theorem createNode_views (g : G) :
    let g1 : G := { g with nextNode := g.nextNode + 1, nodes := AL.set g.nextNode {} g.nodes }
    createNode g = .ok g.nextNode g1 ∧
    (∀ x, g1.hasNode x = (decide (x = g.nextNode) || g.hasNode x)) ∧
    (∀ x y, g1.outE x y = if x = g.nextNode then none else g.outE x y) ∧
    (∀ x y, g1.inE y x = if y = g.nextNode then none else g.inE y x) ∧
    g1.edges = g.edges ∧ g1.directed = g.directed := by
  have hrow : ∀ x, find x (AL.set g.nextNode ({} : Row) g.nodes) = if g.nextNode = x then some {} else find x g.nodes :=
    fun x => find_set _ _ _ _
  refine ⟨rfl, ?_, ?_, ?_, rfl, rfl⟩
  · intro x
    simp only [G.hasNode, has, hrow]
    by_cases h : g.nextNode = x
    · subst h; simp
    · have : ¬ x = g.nextNode := fun h' => h h'.symm
      simp [h, this]
  · intro x y
    simp only [G.outE, hrow]
    by_cases h : g.nextNode = x
    · subst h; simp [find]
    · have : ¬ x = g.nextNode := fun h' => h h'.symm
      simp [h, this]
  · intro x y
    simp only [G.inE, hrow]
    by_cases h : g.nextNode = y
    · subst h; simp [find]
    · have : ¬ y = g.nextNode := fun h' => h h'.symm
      simp [h, this]

/-- `createNode`, packaged -/
structure Created (g g1 : G) : Prop where
  hasNode : ∀ x, g1.hasNode x = (decide (x = g.nextNode) || g.hasNode x)
  outE : ∀ x y, g1.outE x y = if x = g.nextNode then none else g.outE x y
  inE : ∀ x y, g1.inE y x = if y = g.nextNode then none else g.inE y x
  nodes : g1.nodes = AL.set g.nextNode {} g.nodes
  rest : g1.edges = g.edges ∧ g1.directed = g.directed ∧ g1.nextNode = g.nextNode + 1 ∧ g1.nextEdge = g.nextEdge ∧
    g1.root = g.root ∧ g1.pending = g.pending

theorem createNode_spec {g : G} (hc : Consistent g) :
    ∃ g1, createNode g = .ok g.nextNode g1 ∧ Consistent g1 ∧ Created g g1 := by
  obtain ⟨h1, hN, hO, hI, hE, hD⟩ := createNode_views g
  have := createNode_consistent hc
  rw [h1] at this
  exact ⟨_, h1, this, ⟨hN, hO, hI, rfl, ⟨rfl, rfl, rfl, rfl, rfl, rfl⟩⟩⟩

/-- nothing points to an id that is not a node -/
theorem cons_no_entry_to_absent {g : G} (hc : Consistent g) {n : Nat} (hn : g.hasNode n = false) (x : Nat) :
    g.outE x n = none ∧ g.outE n x = none := by
  constructor
  · cases h : g.outE x n with
    | none => rfl
    | some e =>
      have := inE_some_hasNode (cons_out_some hc h).1
      simp [hn] at this
  · cases h : g.outE n x with
    | none => rfl
    | some e => have := outE_some_hasNode h; simp [hn] at this

theorem link_ok_of {g : G} {a b : Nat} (ha : g.hasNode a = true) (hb : g.hasNode b = true) (hO : g.outE a b = none) :
    link a b g = .ok g.nextEdge (linkWrite a b g.nextEdge { g with nextEdge := g.nextEdge + 1 }) := by
  simp [link, linkRefused, ha, hb, hO]

theorem createNodeFromNode_ok {g : G} (hc : Consistent g) {o : Nat} (ho : g.hasNode o = true) :
    ∃ g', createNodeFromNode o g = .ok g.nextNode g' := by
  obtain ⟨h1, hN, hO, hI, _, _⟩ := createNode_views g
  have hn := fresh_node hc
  have hne : o ≠ g.nextNode := by intro h; subst h; simp [hn] at ho
  unfold createNodeFromNode
  simp only [ho, Bool.not_true, Bool.false_eq_true, if_false, h1]
  rw [link_ok_of (by rw [hN]; simp [ho]) (by rw [hN]; simp) (by rw [hO]; simp [hne, (cons_no_entry_to_absent hc hn o).1])]
  exact ⟨_, rfl⟩

theorem createNodeFromNode_exc {g g' : G} {o : Nat} (hc : Consistent g) (h : createNodeFromNode o g = .exc g') : g' = g := by
  cases ho : g.hasNode o
  · simp [createNodeFromNode, ho] at h; exact h.symm
  · obtain ⟨g2, h2⟩ := createNodeFromNode_ok hc ho
    rw [h2] at h; cases h

theorem consistent_bump {g : G} (hc : Consistent g) : Consistent { g with nextEdge := g.nextEdge + 1 } :=
  ⟨hc.views, hc.node_lt, fun e he => Nat.lt_succ_of_lt (hc.edge_lt e he), ⟨hc.sorted.nodes, hc.sorted.edges, hc.sorted.rows⟩⟩

/-- views after a successful `link` -/
theorem link_views {g : G} (hc : Consistent g) {a b : Nat} (ha : g.hasNode a = true) (hb : g.hasNode b = true)
    (hO : g.outE a b = none) :
    let g' := linkWrite a b g.nextEdge { g with nextEdge := g.nextEdge + 1 }
    link a b g = .ok g.nextEdge g' ∧ Consistent g' ∧ (∀ x, g'.hasNode x = g.hasNode x) ∧
    (∀ x y, g'.outE x y = if x = a ∧ y = b then some g.nextEdge
        else if g.directed = false ∧ x = b ∧ y = a then some g.nextEdge else g.outE x y) ∧
    (∀ e', find e' g'.edges = if g.nextEdge = e' then some (a, b) else find e' g.edges) ∧
    g'.directed = g.directed ∧ g'.nextNode = g.nextNode ∧ g'.nextEdge = g.nextEdge + 1 ∧ g'.root = g.root := by
  have hc0 := consistent_bump hc
  have habs := cons_absent hc0 (a := a) (b := b) hO
  have r := linkWrite_rest a b g.nextEdge { g with nextEdge := g.nextEdge + 1 }
  refine ⟨link_ok_of ha hb hO, consistent_linkWrite hc0 ha hb hO (fresh_edge hc (Nat.le_refl _)) (Nat.lt_succ_self _),
    fun x => hasNode_linkWrite _ _ _ _ _, fun x y => outE_linkWrite (g := { g with nextEdge := g.nextEdge + 1 }) g.nextEdge ha hb hO habs.1 habs.2 x y,
    fun e' => find_linkWrite _ _ _ _ _, r.1, r.2.1, r.2.2.1, r.2.2.2.1⟩

theorem createNodeOnEdge_ok {g : G} (hc : Consistent g) {e a b : Nat} (hE : find e g.edges = some (a, b))
    (hloop : ¬ (g.directed = false ∧ a = b)) : ∃ g', createNodeOnEdge e g = .ok g.nextNode g' ∧ g'.hasNode g.nextNode = true := by
  obtain ⟨g1, h1, hc1, c1⟩ := createNode_spec hc
  have hn := fresh_node hc
  have hl := hc.views.edge_listed e a b hE
  have ha : g.hasNode a = true := outE_some_hasNode hl.1
  have hb : g.hasNode b = true := inE_some_hasNode hl.2.1
  have hane : a ≠ g.nextNode := by intro h; rw [h] at ha; simp [hn] at ha
  have hbne : b ≠ g.nextNode := by intro h; rw [h] at hb; simp [hn] at hb
  have hOab : g1.outE a b = some e := by rw [c1.outE]; simp [hane, hl.1]
  obtain ⟨g2, h2, u2⟩ := unlink_some hc1 hOab
  have hc2 := u2.consistent hc1 hOab
  have hd2 : g2.directed = g.directed := by rw [u2.rest.1, c1.rest.2.1]
  have hn2 : ∀ x, g2.hasNode x = (decide (x = g.nextNode) || g.hasNode x) := fun x => by rw [u2.hasNode, c1.hasNode]
  have hO2n : ∀ x, g2.outE x g.nextNode = none ∧ g2.outE g.nextNode x = none := by
    intro x
    constructor
    · rw [u2.outE, c1.outE]
      have := (cons_no_entry_to_absent hc hn x).1
      split
      · rfl
      · split <;> simp_all
    · rw [u2.outE, c1.outE]; split <;> simp
  obtain ⟨h3, hc3, hN3, hO3, _, hd3, _⟩ := link_views hc2 (a := a) (b := g.nextNode) (by rw [hn2]; simp [ha]) (by rw [hn2]; simp) (hO2n a).1
  generalize hg3 : linkWrite a g.nextNode g2.nextEdge { g2 with nextEdge := g2.nextEdge + 1 } = g3 at *
  have hO3nb : g3.outE g.nextNode b = none := by
    rw [hO3]
    have h1' : ¬ (g.nextNode = a ∧ b = g.nextNode) := fun h => hane h.1.symm
    have h2' : ¬ (g2.directed = false ∧ g.nextNode = g.nextNode ∧ b = a) := by
      intro h; exact hloop ⟨by rw [← hd2]; exact h.1, h.2.2.symm⟩
    rw [if_neg h1', if_neg h2']
    exact (hO2n b).2
  obtain ⟨h4, _, hN4, _⟩ := link_views hc3 (a := g.nextNode) (b := b) (by rw [hN3, hn2]; simp) (by rw [hN3, hn2]; simp [hb]) hO3nb
  unfold createNodeOnEdge
  have hloop' : (!g.directed && decide (a = b)) = false := by
    cases hd : g.directed <;> simp_all
  simp only [hE, hloop', Bool.false_eq_true, if_false, h1, h2, h3, h4]
  exact ⟨_, rfl, by rw [hN4, hN3, hn2]; simp⟩

theorem createNodeOnEdge_exc {g g' : G} {e : Nat} (hc : Consistent g) (h : createNodeOnEdge e g = .exc g') : g' = g := by
  rcases find_cases e g.edges with hf | ⟨⟨a, b⟩, hf⟩
  · simp [createNodeOnEdge, hf] at h; exact h.symm
  · by_cases hloop : g.directed = false ∧ a = b
    · have : (!g.directed && decide (a = b)) = true := by simp [hloop.1, hloop.2]
      simp [createNodeOnEdge, hf, this] at h; exact h.symm
    · obtain ⟨g2, h2, _⟩ := createNodeOnEdge_ok hc hf hloop
      rw [h2] at h; cases h

theorem createNodeFromEdge_exc {g g' : G} {e : Nat} (hc : Consistent g) (h : createNodeFromEdge e g = .exc g') : g' = g := by
  unfold createNodeFromEdge at h
  split at h
  · injection h with h; exact h.symm
  · rcases hr : createNodeOnEdge e g with ⟨n, g1⟩ | g1
    · rw [hr] at h
      simp only at h
      -- the anchor has just been created: `createNodeFromNode` cannot fail
      have hc1 : Consistent g1 := by have := createNodeOnEdge_consistent hc e; rw [hr] at this; exact this
      have hn1 : g1.hasNode n = true := by
        rcases find_cases e g.edges with hf | ⟨⟨a, b⟩, hf⟩
        · simp [createNodeOnEdge, hf] at hr
        · by_cases hloop : g.directed = false ∧ a = b
          · have : (!g.directed && decide (a = b)) = true := by simp [hloop.1, hloop.2]
            simp [createNodeOnEdge, hf, this] at hr
          · obtain ⟨g2, h2, hn2⟩ := createNodeOnEdge_ok hc hf hloop
            rw [h2] at hr; injection hr with hr1 hr2; subst hr1; subst hr2; exact hn2
      obtain ⟨g2, h2⟩ := createNodeFromNode_ok hc1 hn1
      rw [h2] at h; cases h
    · rw [hr] at h
      simp only at h
      injection h with h
      rw [← h]; exact createNodeOnEdge_exc hc hr

/-! ### the executable check is the invariant -/
end G

theorem ascending_iff (l : List Nat) : ascending l = true ↔ List.Pairwise (· < ·) l := by
  induction l with
  | nil => simp [ascending]
  | cons a r ih =>
    cases r with
    | nil => simp [ascending]
    | cons b r' =>
      simp only [ascending, Bool.and_eq_true, decide_eq_true_eq, ih, List.pairwise_cons]
      constructor
      · rintro ⟨hab, hb, hr⟩
        refine ⟨?_, hb, hr⟩
        intro x hx
        simp only [List.mem_cons] at hx
        rcases hx with rfl | hx
        · exact hab
        · exact Nat.lt_trans hab (hb x hx)
      · rintro ⟨ha, hb, hr⟩
        exact ⟨ha b (by simp), hb, hr⟩

namespace G

theorem of_not_not {c : Bool} (h : ¬ (!c) = true) : c = true := by cases c <;> simp_all

theorem check_iff (g : G) : g.check = none ↔ Consistent g := by
  constructor
  · intro h
    unfold check at h
    split at h; · cases h
    rename_i h1
    split at h; · cases h
    rename_i h2
    split at h; · cases h
    rename_i h3
    split at h; · cases h
    rename_i h4
    split at h; · cases h
    rename_i h5
    split at h; · cases h
    rename_i h6
    split at h; · cases h
    rename_i h7
    split at h; · cases h
    rename_i h8
    have s1 : Asc g.nodes := (ascending_iff _).mp (of_not_not h1)
    have s2 : Asc g.edges := (ascending_iff _).mp (of_not_not h2)
    have s3 : ∀ n r, find n g.nodes = some r → Asc r.out ∧ Asc r.inn := by
      intro n r hr
      have hm := find_some_mem hr
      have := List.all_eq_true.mp (of_not_not h3) _ hm
      simp only [Bool.and_eq_true, ascending_iff] at this
      exact this
    have hs : Sorted g := ⟨s1, s2, s3⟩
    have h4' := List.all_eq_true.mp (of_not_not h4)
    have h5' := List.all_eq_true.mp (of_not_not h5)
    have h6' := List.all_eq_true.mp (of_not_not h6)
    have h7' := List.all_eq_true.mp (of_not_not h7)
    have h8' := List.all_eq_true.mp (of_not_not h8)
    refine ⟨⟨?_, ?_, ?_, ?_, ?_⟩, ?_, ?_, hs⟩
    · intro e a b hE
      have := h4' _ (find_some_mem hE)
      simp only [Bool.and_eq_true, beq_iff_eq, Bool.or_eq_true] at this
      refine ⟨this.1.1, this.1.2, fun hd => ?_⟩
      rcases this.2 with hh | hh
      · rw [hd] at hh; cases hh
      · exact hh
    · intro a b e hO
      unfold G.outE at hO
      rcases find_cases a g.nodes with hf | ⟨r, hf⟩
      · simp [hf] at hO
      · simp only [hf, Option.bind_some] at hO
        have := List.all_eq_true.mp (h5' _ (find_some_mem hf)) _ (find_some_mem hO)
        simp only [Bool.or_eq_true, beq_iff_eq, Bool.and_eq_true, Bool.not_eq_true'] at this
        exact this
    · intro a b e hI
      unfold G.inE at hI
      rcases find_cases b g.nodes with hf | ⟨r, hf⟩
      · simp [hf] at hI
      · simp only [hf, Option.bind_some] at hI
        have := List.all_eq_true.mp (h6' _ (find_some_mem hf)) _ (find_some_mem hI)
        simp only [Bool.or_eq_true, beq_iff_eq, Bool.and_eq_true, Bool.not_eq_true'] at this
        exact this
    · intro a b e h; exact outE_some_hasNode h
    · intro a b e h; exact inE_some_hasNode h
    · intro n hn
      obtain ⟨r, hr⟩ := (hasNode_iff g n).mp hn
      have := h7' _ (find_some_mem hr)
      simpa using this
    · intro e he
      simp only [G.hasEdge, has] at he
      rcases find_cases e g.edges with hf | ⟨r, hf⟩
      · simp [hf] at he
      · have := h8' _ (find_some_mem hf)
        simpa using this
  · intro hc
    obtain ⟨⟨v1, v2, v3, v4, v5⟩, hn, he, hs⟩ := hc
    unfold check
    have h1 : ascending (AL.keys g.nodes) = true := (ascending_iff _).mpr hs.nodes
    have h2 : ascending (AL.keys g.edges) = true := (ascending_iff _).mpr hs.edges
    have h3 : (g.nodes.all fun p => ascending (AL.keys p.2.out) && ascending (AL.keys p.2.inn)) = true := by
      apply List.all_eq_true.mpr
      intro p hp
      have := hs.rows p.1 p.2 ((mem_iff_find hs.nodes p.1 p.2).mp hp)
      simp only [Bool.and_eq_true, ascending_iff]
      exact this
    have h4 : (g.edges.all fun p => g.outE p.2.1 p.2.2 == some p.1 && g.inE p.2.2 p.2.1 == some p.1 &&
        (g.directed || (g.outE p.2.2 p.2.1 == some p.1 && g.inE p.2.1 p.2.2 == some p.1))) = true := by
      apply List.all_eq_true.mpr
      intro p hp
      obtain ⟨e, a, b⟩ := p
      have := v1 e a b ((mem_iff_find hs.edges e (a, b)).mp hp)
      simp only [Bool.and_eq_true, beq_iff_eq, Bool.or_eq_true]
      refine ⟨⟨this.1, this.2.1⟩, ?_⟩
      cases hd : g.directed
      · exact Or.inr (this.2.2 hd)
      · exact Or.inl rfl
    have h5 : (g.nodes.all fun p => p.2.out.all fun q =>
        AL.find q.2 g.edges == some (p.1, q.1) || (!g.directed && AL.find q.2 g.edges == some (q.1, p.1))) = true := by
      apply List.all_eq_true.mpr
      intro p hp
      apply List.all_eq_true.mpr
      intro q hq
      have hf := (mem_iff_find hs.nodes p.1 p.2).mp hp
      have hq' := (mem_iff_find (hs.rows p.1 p.2 hf).1 q.1 q.2).mp hq
      have := v2 p.1 q.1 q.2 (by simp [G.outE, hf, hq'])
      simp only [Bool.or_eq_true, beq_iff_eq, Bool.and_eq_true, Bool.not_eq_true']
      exact this
    have h6 : (g.nodes.all fun p => p.2.inn.all fun q =>
        AL.find q.2 g.edges == some (q.1, p.1) || (!g.directed && AL.find q.2 g.edges == some (p.1, q.1))) = true := by
      apply List.all_eq_true.mpr
      intro p hp
      apply List.all_eq_true.mpr
      intro q hq
      have hf := (mem_iff_find hs.nodes p.1 p.2).mp hp
      have hq' := (mem_iff_find (hs.rows p.1 p.2 hf).2 q.1 q.2).mp hq
      have := v3 q.1 p.1 q.2 (by simp [G.inE, hf, hq'])
      simp only [Bool.or_eq_true, beq_iff_eq, Bool.and_eq_true, Bool.not_eq_true']
      exact this
    have h7 : (g.nodes.all fun p => decide (p.1 < g.nextNode)) = true := by
      apply List.all_eq_true.mpr
      intro p hp
      have hf := (mem_iff_find hs.nodes p.1 p.2).mp hp
      simpa using hn p.1 ((hasNode_iff g p.1).mpr ⟨_, hf⟩)
    have h8 : (g.edges.all fun p => decide (p.1 < g.nextEdge)) = true := by
      apply List.all_eq_true.mpr
      intro p hp
      have hf := (mem_iff_find hs.edges p.1 p.2).mp hp
      simpa using he p.1 (by simp [G.hasEdge, has, hf])
    simp [h1, h2, h3, h4, h5, h6, h7, h8]

end G
end Graph
end Bpp
