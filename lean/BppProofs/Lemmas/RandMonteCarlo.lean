import BppProofs.Lemmas.RandLaw
/-! Lemmas for C18 (round 2): the transcribed Monte-Carlo loop of `ContingencyTableTest`. -/
namespace Bpp.Rand
open Bpp

section
variable {α : Type} [Scalar α]

/-- the loop adds at most one to `count` per iteration -/
theorem mcCount_bounds (stat : α) : ∀ (n : Nat) (sims : List α) (c r : Nat),
    mcCount stat n sims c = .ok r → c ≤ r ∧ r ≤ c + n
  | 0, _, c, r, h => by
    simp only [mcCount, Except.ok.injEq] at h; subst h; exact ⟨le_refl _, by omega⟩
  | n + 1, [], _, _, h => by simp [mcCount] at h
  | n + 1, s :: ss, c, r, h => by
    unfold mcCount at h
    have := mcCount_bounds stat n ss _ r h
    split at this <;> omega

/-- it consumes exactly `n` statistics of the stream and counts those `>=` the observed one -/
theorem mcCount_eq (stat : α) : ∀ (n : Nat) (sims : List α) (c : Nat), n ≤ sims.length →
    mcCount stat n sims c = .ok (c + countGe stat (sims.take n))
  | 0, _, c, _ => by simp [mcCount, countGe]
  | n + 1, [], _, h => by simp at h
  | n + 1, s :: ss, c, h => by
    unfold mcCount
    rw [mcCount_eq stat n ss _ (by simpa using h)]
    simp only [List.take_succ_cons, countGe, List.filter_cons]
    by_cases hs : Scalar.geb s stat = true
    · simp only [hs, if_true, List.length_cons]; congr 1; omega
    · simp only [hs, if_false, Bool.false_eq_true]

theorem mcCount_starved (stat : α) : ∀ (n : Nat) (sims : List α) (c : Nat), sims.length < n →
    mcCount stat n sims c = .error .starved
  | 0, _, _, h => by simp at h
  | n + 1, [], _, _ => by simp [mcCount]
  | n + 1, s :: ss, c, h => by
    unfold mcCount
    exact mcCount_starved stat n ss _ (by simpa using h)
end

end Bpp.Rand
