import BppProofs.Lemmas.Number
/-! Helper lemmas for `toInt_value` (`Props/C17.lean`): the saturating loops of the repaired
`TextTools::toInt` compute `min(value, lim + 1)`. -/
namespace Bpp.Text.Number
open Bpp.Text

theorem satStep_min (m t d : Nat) (h : m = min t (toIntLim + 1)) :
    satStep m d = min (10 * t + d) (toIntLim + 1) := by
  unfold satStep toIntLim at *
  simp only [Nat.min_def] at *
  split at h <;> split <;> split <;> omega

/-- the mantissa loop over digits up to the exponent mark / the end -/
theorem satMant_digits {sci : Char} (hs : isDigit sci = false) (ds : Str) (hds : AllDigits ds) (m t : Nat)
    (rest : Str) (hrest : rest = [] ∨ ∃ r, rest = sci :: r) (h : m = min t (toIntLim + 1)) :
    satMant sci m (ds ++ rest) = (min (ds.foldl (fun a c => 10 * a + digitVal c) t) (toIntLim + 1), rest) := by
  induction ds generalizing m t with
  | nil =>
    rw [List.nil_append, List.foldl_nil, ← h]
    cases hrest with
    | inl h0 => rw [h0]; unfold satMant; rfl
    | inr h1 =>
      obtain ⟨r, hr⟩ := h1
      rw [hr]; unfold satMant; rw [if_pos (beq_self_eq_true sci)]
  | cons c ds ih =>
    have hc := hds c (by simp)
    have e : (c == sci) = false := isDigit_ne hc hs
    simp only [List.cons_append, satMant, e, Bool.false_eq_true, if_false, List.foldl_cons]
    exact ih (fun x hx => hds x (by simp [hx])) _ _ (satStep_min m t _ h)

theorem satExp_step (e t d : Nat) (h : e = min t 11) :
    (if e * 10 + d > 10 then 11 else e * 10 + d) = min (10 * t + d) 11 := by
  simp only [Nat.min_def] at *
  split at h <;> split <;> split <;> omega

theorem satExp_digits (ds : Str) (e t : Nat) (h : e = min t 11) :
    satExp e ds = min (ds.foldl (fun a c => 10 * a + digitVal c) t) 11 := by
  induction ds generalizing e t with
  | nil => rw [List.foldl_nil, ← h]; rfl
  | cons c ds ih =>
    rw [List.foldl_cons]
    unfold satExp
    exact ih _ _ (satExp_step e t _ h)

theorem satMul_min (e m t : Nat) (h : m = min t (toIntLim + 1)) :
    satMul e m = min (t * 10 ^ e) (toIntLim + 1) := by
  induction e generalizing m t with
  | zero => rw [Nat.pow_zero, Nat.mul_one, ← h]; rfl
  | succ e ih =>
    unfold satMul
    by_cases hm : (m == 0) = true
    · have hm0 : m = 0 := by simpa using hm
      have ht : t = 0 := by
        subst hm0
        unfold toIntLim at h
        simp only [Nat.min_def] at h
        split at h <;> omega
      simp [hm, hm0, ht]
    · simp only [hm, Bool.false_eq_true, if_false]
      have hstep : (if m * 10 > toIntLim then toIntLim + 1 else m * 10) = min (t * 10) (toIntLim + 1) := by
        unfold toIntLim at *
        simp only [Nat.min_def] at *
        split at h <;> split <;> split <;> omega
      rw [ih _ (t * 10) hstep]
      congr 1
      rw [Nat.pow_succ, Nat.mul_assoc, Nat.mul_comm 10]

/-- saturating the exponent at 11 does not change the saturated product -/
theorem min_pow_sat (t E : Nat) :
    min (t * 10 ^ (min E 11)) (toIntLim + 1) = min (t * 10 ^ E) (toIntLim + 1) := by
  by_cases hE : E ≤ 11
  · rw [Nat.min_eq_left hE]
  · have hE' : 11 ≤ E := by omega
    rw [Nat.min_eq_right hE']
    by_cases ht : t = 0
    · simp [ht]
    · have h1 : 10 ^ 11 ≤ 10 ^ E := Nat.pow_le_pow_right (by decide) hE'
      have h2 : 10 ^ 11 ≤ t * 10 ^ 11 := Nat.le_mul_of_pos_left _ (by omega)
      have h3 : t * 10 ^ 11 ≤ t * 10 ^ E := Nat.mul_le_mul_left _ h1
      have big : toIntLim + 1 ≤ 10 ^ 11 := by unfold toIntLim; decide
      rw [Nat.min_eq_right (by omega), Nat.min_eq_right (by omega)]


/-- the range test and the sign at the end of `toInt` -/
theorem toInt_final (neg : Bool) (W : Nat) :
    (if (if neg then decide (min W (toIntLim + 1) > toIntLim) else decide (min W (toIntLim + 1) ≥ toIntLim)) = true
      then none else some (if neg then - ((min W (toIntLim + 1) : Nat) : Int) else ((min W (toIntLim + 1) : Nat) : Int)))
    = (if intMin ≤ (if neg then - (W : Int) else (W : Int)) ∧ (if neg then - (W : Int) else (W : Int)) ≤ intMax
        then some (if neg then - (W : Int) else (W : Int)) else none) := by
  unfold toIntLim intMin intMax
  cases neg
  · simp only [Bool.false_eq_true, if_false, decide_eq_true_eq, Nat.min_def]
    split <;> split <;> split <;> first | rfl | (exfalso; omega) | (congr 1; omega)
  · simp only [if_true, decide_eq_true_eq, Nat.min_def]
    split <;> split <;> split <;> first | rfl | (exfalso; omega) | (congr 1; omega)

section
variable {sci : Char} (hs : isDigit sci = false)
include hs

/-- **`toInt` on a grammatical integer**: the value the grammar assigns when it fits an `int`, an
exception otherwise -/
theorem toInt_render (p : IntParts) (hwf : p.WF) :
    toInt sci (p.render sci) = if intMin ≤ p.value ∧ p.value ≤ intMax then some p.value else none := by
  have hacc : isDecimalInteger sci (p.render sci) = true := by
    rw [isDecimalInteger_eq_parse hs, parseInteger_complete hs p hwf]; rfl
  obtain ⟨hip, hne, hex⟩ := hwf
  obtain ⟨a, t, hat⟩ : ∃ a t, p.ip = a :: t := by
    cases h : p.ip with
    | nil => exact absurd h hne
    | cons a t => exact ⟨a, t, rfl⟩
  have ha : isDigit a = true := hip a (by rw [hat]; simp)
  have ham : (a == '-') = false := by
    cases h : a == '-' with
    | false => rfl
    | true => have : a = '-' := by simpa using h
              rw [this] at ha; revert ha; decide
  -- the mantissa loop
  have hrest : intExStr sci p.ex = [] ∨ ∃ r, intExStr sci p.ex = sci :: r := by
    cases p.ex with
    | none => left; rfl
    | some e => right; exact ⟨_, rfl⟩
  have hmant := satMant_digits hs p.ip hip 0 0 (intExStr sci p.ex) hrest (by unfold toIntLim; rfl)
  have hV : p.ip.foldl (fun a c => 10 * a + digitVal c) 0 = digitsVal p.ip := rfl
  rw [hV] at hmant
  -- the exponent
  have hexp : scaleByExp (min (digitsVal p.ip) (toIntLim + 1)) (intExStr sci p.ex)
      = min (match p.ex with
          | none => digitsVal p.ip
          | some (_, ds) => digitsVal p.ip * 10 ^ digitsVal ds) (toIntLim + 1) := by
    cases hpe : p.ex with
    | none => rfl
    | some e =>
      obtain ⟨pl, ds⟩ := e
      rw [hpe] at hex
      simp only at hex
      obtain ⟨hds, hdne⟩ := hex
      have hr : skipPlus ((if pl then ['+'] else []) ++ ds) = ds := by
        cases pl with
        | true => rfl
        | false =>
          obtain ⟨d0, ds', hd⟩ : ∃ d0 ds', ds = d0 :: ds' := by
            cases h : ds with
            | nil => exact absurd h hdne
            | cons d0 ds' => exact ⟨d0, ds', rfl⟩
          have hd0 : isDigit d0 = true := hds d0 (by rw [hd]; simp)
          have hne' : d0 ≠ '+' := by intro e; rw [e] at hd0; revert hd0; decide
          rw [hd]
          simp only [Bool.false_eq_true, if_false, List.nil_append]
          unfold skipPlus
          split
          · rename_i t heq
            simp only [List.cons.injEq] at heq
            exact absurd heq.1 hne'
          · rfl
      simp only [intExStr, scaleByExp, hr]
      have hE : satExp 0 ds = min (digitsVal ds) 11 := satExp_digits ds 0 0 rfl
      rw [hE, satMul_min _ _ (digitsVal p.ip) rfl, min_pow_sat]
  have hval : p.value = (if p.neg then - ((match p.ex with
        | none => digitsVal p.ip
        | some (_, ds) => digitsVal p.ip * 10 ^ digitsVal ds : Nat) : Int) else ((match p.ex with
        | none => digitsVal p.ip
        | some (_, ds) => digitsVal p.ip * 10 ^ digitsVal ds : Nat) : Int)) := by
    unfold IntParts.value
    cases p.ex with
    | none => rfl
    | some e =>
      obtain ⟨pl, ds⟩ := e
      simp only
      cases p.neg <;> simp [Int.neg_mul, Int.natCast_mul, Int.natCast_pow]
  unfold toInt
  rw [intRender_eq]
  rw [intRender_eq] at hacc
  simp only [hacc, Bool.not_true, Bool.false_eq_true, if_false]
  rw [hval]
  cases hneg : p.neg with
  | true =>
    simp only [if_true, List.singleton_append, List.head?_cons, beq_self_eq_true, List.drop_succ_cons,
      List.drop_zero, hmant, hexp]
    exact toInt_final true _
  | false =>
    have hh : ((p.ip ++ intExStr sci p.ex).head? == some '-') = false := by
      rw [hat]
      simp only [List.cons_append, List.head?_cons]
      cases hq : a == '-' with
      | false =>
        have : a ≠ '-' := by simpa using hq
        simp [this]
      | true => rw [ham] at hq; cases hq
    simp only [Bool.false_eq_true, if_false, List.nil_append, hh, hmant, hexp]
    exact toInt_final false _

end

end Bpp.Text.Number
