import BppProofs.Lemmas.TreeRefCheck
/-
The executable test `isRootedTree` of the reference accepts only valid rooted trees: from its
conditions (in-degrees read off the edge table, every ancestor line ends at the root) the parent
function `Ref.parent` is a tree that the graph matches.
-/
namespace Bpp.Graph
open AL

/-- a line that has reached a father-less node does not change with more fuel -/
theorem lineOf_stable_of_last {par : Nat → Option Nat} {root : Nat} (hroot : par root = none) :
    ∀ (f x : Nat), (lineOf par f x).getLast? = some root → ∀ f', f ≤ f' → lineOf par f' x = lineOf par f x := by
  intro f
  induction f with
  | zero =>
    intro x hl f' _
    simp [lineOf] at hl
    subst hl
    cases f' with
    | zero => rfl
    | succ k => simp [lineOf, hroot]
  | succ f ih =>
    intro x hl f' hf'
    obtain ⟨k, rfl⟩ : ∃ k, f' = k + 1 := ⟨f' - 1, by omega⟩
    simp only [lineOf] at hl ⊢
    cases hp : par x with
    | none => rfl
    | some y =>
      rw [hp] at hl
      simp only at hl ⊢
      have hne := lineOf_ne_nil par f y
      have : (lineOf par f y).getLast? = some root := by
        rw [List.getLast?_cons] at hl
        cases hll : (lineOf par f y).getLast? with
        | none => exact absurd (List.getLast?_eq_none_iff.1 hll) hne
        | some z => rw [hll] at hl; simpa using hl
      rw [ih y this k (by omega)]

theorem mem_up_of_consistent {g : G} (hc : Consistent g) (hd : g.directed = true) (c a e : Nat) :
    (c, a, e) ∈ (refRaw g).up ↔ g.outE a c = some e := by
  simp only [refRaw, List.mem_map]
  constructor
  · rintro ⟨⟨e', a', c'⟩, hmem, heq⟩
    simp only [Prod.mk.injEq] at heq
    obtain ⟨rfl, rfl, rfl⟩ := heq
    have hf := (mem_iff_find hc.sorted.edges e' (a', c')).1 hmem
    exact (hc.views.edge_listed e' a' c' hf).1
  · intro ho
    rcases hc.views.out_edge a c e ho with hf | ⟨hd', _⟩
    · exact ⟨(e, a, c), (mem_iff_find hc.sorted.edges e (a, c)).2 hf, rfl⟩
    · rw [hd] at hd'; cases hd'

theorem find?_of_filter_singleton {α : Type} {p : α → Bool} {l : List α} {t : α} (h : l.filter p = [t]) : l.find? p = some t := by
  induction l with
  | nil => simp at h
  | cons a rest ih =>
    simp only [List.filter_cons] at h
    simp only [List.find?_cons]
    by_cases hpa : p a = true
    · simp only [hpa, if_true] at h ⊢
      have := List.cons.inj h; rw [this.1]
    · have hpa' : p a = false := by simpa using hpa
      simp only [hpa', Bool.false_eq_true, if_false] at h ⊢
      exact ih h

/-- the reference test accepts only valid rooted trees -/
theorem validRooted_of_isRootedTree {g : G} (hc : Consistent g) (h : isRootedTree g = true) : ValidRooted g := by
  unfold isRootedTree at h
  simp only [Bool.and_eq_true, List.all_eq_true, beq_iff_eq, List.contains_iff_mem] at h
  obtain ⟨⟨⟨⟨hd, hroot⟩, hdeg⟩, hends⟩, hreach⟩ := h
  have hmem_up := mem_up_of_consistent hc hd
  have hkeys : ∀ n, n ∈ (refRaw g).nodes ↔ g.hasNode n = true := fun n => G.mem_keys_hasNode g n
  -- the parent of a node, from the in-degree test
  have hpar_root : (refRaw g).parent g.root = none := by
    have h0 := hdeg g.root ((hkeys _).2 hroot)
    simp only [if_true] at h0
    have hnil : (refRaw g).up.filter (fun t => t.1 == g.root) = [] := List.length_eq_zero_iff.1 h0
    unfold Ref.parent
    have : (refRaw g).up.find? (fun t => t.1 == g.root) = none := by
      rw [List.find?_eq_none]
      intro t ht hpt
      have : t ∈ (refRaw g).up.filter (fun t => t.1 == g.root) := List.mem_filter.2 ⟨ht, hpt⟩
      rw [hnil] at this; cases this
    rw [this]; rfl
  have hpar_some : ∀ n, g.hasNode n = true → n ≠ g.root →
      ∃ a e, (refRaw g).up.filter (fun t => t.1 == n) = [(n, a, e)] ∧ (refRaw g).parent n = some a ∧ g.hasNode a = true := by
    intro n hn hne
    have h1 := hdeg n ((hkeys _).2 hn)
    simp only [hne, if_false] at h1
    obtain ⟨t, ht⟩ := List.length_eq_one_iff.1 h1
    have htm : t ∈ (refRaw g).up.filter (fun t => t.1 == n) := by rw [ht]; simp
    obtain ⟨htu, htn⟩ := List.mem_filter.1 htm
    obtain ⟨c, a, e⟩ := t
    have hcn : c = n := by simpa using htn
    subst hcn
    refine ⟨a, e, ht, ?_, ?_⟩
    · unfold Ref.parent; rw [find?_of_filter_singleton ht]; rfl
    · exact (hkeys a).1 (hends _ htu).2
  have hpar_node : ∀ n a, (refRaw g).parent n = some a → g.hasNode n = true := by
    intro n a hp
    unfold Ref.parent at hp
    cases hf : (refRaw g).up.find? (fun t => t.1 == n) with
    | none => rw [hf] at hp; cases hp
    | some t =>
      have htu := List.mem_of_find?_eq_some hf
      have htn : t.1 = n := by have := List.find?_some hf; simpa using this
      exact (hkeys n).1 (htn ▸ (hends t htu).1)
  let P : PTree := { root := g.root, nodes := AL.keys g.nodes, par := (refRaw g).parent, rank := fun n => ((refRaw g).anc n).length - 1 }
  have hwf : P.WF := by
    refine ⟨(hkeys _).2 hroot, hpar_root, ?_, ?_, ?_⟩
    · show ((refRaw g).anc g.root).length - 1 = 0
      unfold Ref.anc
      rw [DTree.ref_line]
      cases hN : (refRaw g).nodes.length with
      | zero => rfl
      | succ k => simp [lineOf, hpar_root]
    · intro n hn hne
      have hnn := (hkeys n).1 hn
      obtain ⟨a, e, _, hpa, han⟩ := hpar_some n hnn hne
      refine ⟨a, hpa, (hkeys a).2 han, ?_⟩
      show ((refRaw g).anc n).length - 1 = ((refRaw g).anc a).length - 1 + 1
      unfold Ref.anc
      rw [DTree.ref_line, DTree.ref_line]
      have hlast_n := hreach n hn
      have hlast_a := hreach a ((hkeys a).2 han)
      unfold Ref.anc at hlast_n hlast_a
      rw [DTree.ref_line] at hlast_n hlast_a
      -- at least two nodes: the fuel is positive
      obtain ⟨k, hk⟩ : ∃ k, (refRaw g).nodes.length = k + 1 := by
        cases hN : (refRaw g).nodes.length with
        | zero =>
          have h0 := List.length_eq_zero_iff.1 hN
          have hn' : n ∈ (refRaw g).nodes := hn
          rw [h0] at hn'; cases hn'
        | succ k => exact ⟨k, rfl⟩
      rw [hk] at hlast_n hlast_a ⊢
      have e1 : lineOf (refRaw g).parent (k + 1) n = n :: lineOf (refRaw g).parent k a := by simp [lineOf, hpa]
      rw [e1] at hlast_n ⊢
      have hne' := lineOf_ne_nil (refRaw g).parent k a
      have hlast_a' : (lineOf (refRaw g).parent k a).getLast? = some g.root := by
        rw [List.getLast?_cons] at hlast_n
        cases hll : (lineOf (refRaw g).parent k a).getLast? with
        | none => exact absurd (List.getLast?_eq_none_iff.1 hll) hne'
        | some z => rw [hll] at hlast_n; simpa using hlast_n
      rw [lineOf_stable_of_last hpar_root k a hlast_a' (k + 1) (by omega)]
      have : 0 < (lineOf (refRaw g).parent k a).length := List.length_pos_iff.2 hne'
      simp only [List.length_cons]
      omega
    · intro n hn
      cases hp : (refRaw g).parent n with
      | none => exact hp
      | some a => exact absurd ((hkeys n).2 (hpar_node n a hp)) hn
  have hdt : DTree g P := by
    refine ⟨hc, hd, hwf, hkeys, ?_⟩
    intro a b
    constructor
    · intro hab
      obtain ⟨e, he⟩ := (by
        unfold Arc at hab
        cases ho : g.outE a b with
        | none => rw [ho] at hab; cases hab
        | some e => exact ⟨e, rfl⟩ : ∃ e, g.outE a b = some e)
      have hu := (hmem_up b a e).2 he
      have hbn := (G.arc_nodes hc hab).2
      have hbr : b ≠ g.root := by
        intro e'
        subst e'
        have h0 := hdeg g.root ((hkeys _).2 hroot)
        simp only [if_true] at h0
        have hnil := List.length_eq_zero_iff.1 h0
        have : (g.root, a, e) ∈ (refRaw g).up.filter (fun t => t.1 == g.root) := List.mem_filter.2 ⟨hu, by simp⟩
        rw [hnil] at this; cases this
      obtain ⟨a', e', hf, hpa, _⟩ := hpar_some b hbn hbr
      have : (b, a, e) ∈ (refRaw g).up.filter (fun t => t.1 == b) := List.mem_filter.2 ⟨hu, by simp⟩
      rw [hf] at this
      simp only [List.mem_singleton, Prod.mk.injEq, true_and] at this
      show (refRaw g).parent b = some a
      rw [hpa, this.1]
    · intro hp
      have hp' : (refRaw g).parent b = some a := hp
      unfold Ref.parent at hp'
      cases hf : (refRaw g).up.find? (fun t => t.1 == b) with
      | none => rw [hf] at hp'; cases hp'
      | some t =>
        rw [hf] at hp'
        obtain ⟨c, a', e⟩ := t
        have htu := List.mem_of_find?_eq_some hf
        have hcb : c = b := by have := List.find?_some hf; simpa using this
        subst hcb
        simp only [Option.map_some, Option.some.injEq] at hp'
        subst hp'
        unfold Arc
        rw [(hmem_up c a' e).1 htu]; rfl
  exact hdt.validRooted rfl

/-- the reference test decides valid rooted trees -/
theorem isRootedTree_iff {g : G} (hc : Consistent g) : isRootedTree g = true ↔ ValidRooted g := by
  constructor
  · exact validRooted_of_isRootedTree hc
  · intro hv
    obtain ⟨P, hd, hr⟩ := hv.dtree
    exact hd.isRootedTree hr

end Bpp.Graph
