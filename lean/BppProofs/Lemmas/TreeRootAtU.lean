import BppProofs.Lemmas.TreeRootAt
/-
Re-rooting a valid unrooted tree (`rootAt`, undirected case): the relations are listed from the new
root by a traversal (`fillRelationsFrom_`), the graph is made directed (each relation kept in the
order of the node ids) and the relations that lead towards the new root are switched.
-/
namespace Bpp.Graph
open AL

namespace PTree
variable {P : PTree}

/-- a tree can be seen from any of its nodes: same nodes, same father-son pairs up to order -/
theorem WF.reroot_any (h : P.WF) : ∀ (k n : Nat), P.rank n = k → n ∈ P.nodes →
    ∃ P' : PTree, P'.WF ∧ P'.root = n ∧ P'.nodes = P.nodes ∧ ∀ a b, P'.ULinked a b ↔ P.ULinked a b := by
  intro k
  induction k with
  | zero =>
    intro n hk hn
    by_cases hr : n = P.root
    · subst hr; exact ⟨P, h, rfl, rfl, fun _ _ => Iff.rfl⟩
    · obtain ⟨p, _, _, hrk⟩ := h.par_some n hn hr; omega
  | succ k ih =>
    intro n hk hn
    by_cases hr : n = P.root
    · subst hr; exact ⟨P, h, rfl, rfl, fun _ _ => Iff.rfl⟩
    · obtain ⟨p, hp, hpm, hrk⟩ := h.par_some n hn hr
      obtain ⟨P1, h1, hroot1, hnodes1, hul1⟩ := ih p (by omega) hpm
      have hl : P1.ULinked n p := (hul1 n p).2 (.inl hp)
      have hpn : P1.par n = some P1.root := by
        rcases hl with hl | hl
        · rw [hroot1]; exact hl
        · rw [← hroot1, h1.par_root] at hl; cases hl
      exact ⟨P1.reroot n, reroot_wf h1 hpn, rfl, hnodes1, fun a b => (reroot_ulinked h1 hpn a b).trans (hul1 a b)⟩

end PTree

/-- the undirected graph `g` is the tree `P` (seen from `P.root`) -/
structure UTree (g : G) (P : PTree) : Prop where
  cons : Consistent g
  dir : g.directed = false
  wf : P.WF
  nodes : ∀ n, n ∈ P.nodes ↔ g.hasNode n = true
  arc : ∀ a b, Arc g a b ↔ (P.par b = some a ∨ P.par a = some b)

theorem UTree.of_matches {g : G} {P : PTree} (hc : Consistent g) (hd : g.directed = false) (hw : P.WF) (hm : Matches g P) : UTree g P :=
  ⟨hc, hd, hw, hm.nodes, fun a b => by rw [hm.arc a b]; simp [hd]⟩

/-- an unrooted tree can be seen from any of its nodes -/
theorem UTree.from_node {g : G} {P : PTree} (h : UTree g P) {n : Nat} (hn : g.hasNode n = true) :
    ∃ P', UTree g P' ∧ P'.root = n := by
  obtain ⟨P', hw', hr', hn', hul⟩ := h.wf.reroot_any _ n rfl ((h.nodes n).2 hn)
  refine ⟨P', ⟨h.cons, h.dir, hw', by intro x; rw [hn']; exact h.nodes x, ?_⟩, hr'⟩
  intro a b
  rw [h.arc a b]
  have := hul b a
  unfold PTree.ULinked at this
  exact this.symm

namespace UTree
variable {g : G} {P : PTree}

theorem no_loop (h : UTree g P) (a : Nat) : ¬ Arc g a a := by
  intro ha
  rcases (h.arc a a).1 ha with hp | hp <;> exact T.par_ne_self h.wf hp rfl

theorem rank_lt (h : UTree g P) {n : Nat} (hn : n ∈ P.nodes) : P.rank n + 1 ≤ g.nodes.length := by
  have := h.wf.rank_lt hn (l := AL.keys g.nodes) (fun x hx => (G.mem_keys_hasNode g x).2 ((h.nodes x).1 hx))
  simpa [AL.keys] using this

/-- where the traversal comes from: nowhere at the root, the father elsewhere -/
def OriginOk (P : PTree) (n origin : Nat) : Prop := (n = P.root ∧ origin = n) ∨ P.par n = some origin

/-- a neighbour other than the origin is a son -/
theorem son_of_arc (h : UTree g P) {n origin c : Nat} (ho : OriginOk P n origin) (ha : Arc g n c) (hne : c ≠ origin) :
    P.par c = some n := by
  rcases (h.arc n c).1 ha with hp | hp
  · exact hp
  · exfalso
    rcases ho with ⟨hr, _⟩ | hpo
    · subst hr; rw [h.wf.par_root] at hp; cases hp
    · rw [hp] at hpo; cases hpo; exact hne rfl

theorem origin_not_son (h : UTree g P) {n origin : Nat} (ho : OriginOk P n origin) : P.par origin ≠ some n := by
  intro hp
  rcases ho with ⟨_, he⟩ | hpo
  · subst he; exact T.par_ne_self h.wf hp rfl
  · exact T.no_two_cycle h.wf hp hpo

/-- `fillRelationsFrom_` from `n`: the (father, son) pairs of the subtree of `n` -/
theorem relationsFrom (h : UTree g P) : ∀ (fuel n origin : Nat) (rel : List (Nat × Nat)), n ∈ P.nodes → OriginOk P n origin →
    g.nodes.length + 1 ≤ fuel + P.rank n →
    ∃ L, T.relationsFrom g fuel n origin rel = .ok (rel ++ L) ∧ ∀ a b, (a, b) ∈ L ↔ (P.par b = some a ∧ IsAnc P.par n a) := by
  intro fuel
  induction fuel with
  | zero => intro n origin rel hn _ hf; have := h.rank_lt hn; omega
  | succ f ih =>
    intro n origin rel hn ho hf
    simp only [T.relationsFrom]
    rw [G.outNeighbors_of_hasNode ((h.nodes n).1 hn)]
    simp only
    have key : ∀ (ls : List Nat) (rel : List (Nat × Nat)), (∀ c ∈ ls, Arc g n c) →
        ∃ L, ls.foldl (fun (acc : TRes (List (Nat × Nat))) nb =>
            match acc with
            | .ok r => if nb = origin then .ok r else T.relationsFrom g f nb n (r ++ [(n, nb)])
            | e => e) (.ok rel) = .ok (rel ++ L) ∧
          ∀ a b, (a, b) ∈ L ↔ ∃ c ∈ ls, P.par c = some n ∧ ((a = n ∧ b = c) ∨ (P.par b = some a ∧ IsAnc P.par c a)) := by
      intro ls
      induction ls with
      | nil => intro rel _; exact ⟨[], by simp, by simp⟩
      | cons c rest ihl =>
        intro rel harc
        simp only [List.foldl]
        by_cases hco : c = origin
        · rw [if_pos hco]
          obtain ⟨L, h1, h2⟩ := ihl rel (fun d hd => harc d (List.mem_cons_of_mem _ hd))
          refine ⟨L, h1, fun a b => ?_⟩
          rw [h2 a b]
          constructor
          · rintro ⟨d, hd, hx⟩; exact ⟨d, List.mem_cons_of_mem _ hd, hx⟩
          · rintro ⟨d, hd, hpd, hx⟩
            rcases List.mem_cons.1 hd with e | hd'
            · subst e; subst hco; exact absurd hpd (h.origin_not_son ho)
            · exact ⟨d, hd', hpd, hx⟩
        · rw [if_neg hco]
          have hpc := h.son_of_arc ho (harc c (List.mem_cons_self ..)) hco
          have hm := h.wf.par_mem hpc
          obtain ⟨L1, h1, h2⟩ := ih c n (rel ++ [(n, c)]) hm.1 (.inr hpc) (by omega)
          rw [h1]
          obtain ⟨L2, h3, h4⟩ := ihl (rel ++ [(n, c)] ++ L1) (fun d hd => harc d (List.mem_cons_of_mem _ hd))
          refine ⟨[(n, c)] ++ L1 ++ L2, by rw [h3]; simp, fun a b => ?_⟩
          simp only [List.mem_append, List.mem_singleton, Prod.mk.injEq]
          rw [h2 a b, h4 a b]
          constructor
          · rintro ((⟨rfl, rfl⟩ | hx) | ⟨d, hd, hx⟩)
            · exact ⟨b, List.mem_cons_self .., hpc, .inl ⟨rfl, rfl⟩⟩
            · exact ⟨c, List.mem_cons_self .., hpc, .inr hx⟩
            · exact ⟨d, List.mem_cons_of_mem _ hd, hx⟩
          · rintro ⟨d, hd, hpd, hx⟩
            rcases List.mem_cons.1 hd with e | hd'
            · subst e
              rcases hx with ⟨rfl, rfl⟩ | hx
              · exact .inl (.inl ⟨rfl, rfl⟩)
              · exact .inl (.inr hx)
            · exact .inr ⟨d, hd', hpd, hx⟩
    obtain ⟨L, h1, h2⟩ := key (g.outKeys n) rel (fun c hc => G.mem_outKeys.1 hc)
    refine ⟨L, h1, fun a b => ?_⟩
    rw [h2 a b]
    constructor
    · rintro ⟨c, _, hpc, ⟨rfl, rfl⟩ | ⟨hpb, hca⟩⟩
      · exact ⟨hpc, .refl _⟩
      · exact ⟨hpb, IsAnc.trans (IsAnc.of_par hpc) hca⟩
    · rintro ⟨hpb, hna⟩
      by_cases han : a = n
      · subst han
        exact ⟨b, G.mem_outKeys.2 ((h.arc a b).2 (.inl hpb)), hpb, .inl ⟨rfl, rfl⟩⟩
      · obtain ⟨c, hpc, hca⟩ := IsAnc.under_son hna han
        exact ⟨c, G.mem_outKeys.2 ((h.arc n c).2 (.inl hpc)), hpc, .inr ⟨hpb, hca⟩⟩

end UTree

/-! ### after `makeDirected`: every relation of the tree in one direction; the loop of `rootAt` puts them right -/

/-- the directed graph `g` carries the relations of the tree `P`, each in exactly one direction -/
structure Oriented (g : G) (P : PTree) : Prop where
  cons : Consistent g
  dir : g.directed = true
  nodes : ∀ n, n ∈ P.nodes ↔ g.hasNode n = true
  sub : ∀ x y, Arc g x y → P.ULinked x y
  all : ∀ x y, P.par y = some x → Arc g x y ∨ Arc g y x
  one : ∀ x y, Arc g x y → ¬ Arc g y x

theorem uedges_makeDirected {g : G} (hc : Consistent g) (hd : g.directed = false) : uedges (G.makeDirected g) = uedges g := by
  have h := (G.makeDirected_refines hc).1
  have he : (G.makeDirected g).edges = g.edges.map (fun t => (t.1, min t.2.1 t.2.2, max t.2.1 t.2.2)) := by
    have h1 := congrArg Spec.edges h
    rw [G.abs_edges] at h1
    rw [h1]
    unfold Spec.makeDirected
    have : g.abs.directed = false := hd
    simp only [this, Bool.false_eq_true, if_false]
    rw [G.abs_edges]
  unfold uedges
  rw [he, List.map_map]
  apply List.map_congr_left
  intro p _
  simp only [Function.comp, Prod.mk.injEq, true_and]
  constructor <;> omega

theorem arc_of_out {g : G} {a b e : Nat} (h : g.outE a b = some e) : Arc g a b := by unfold Arc; rw [h]; rfl

theorem out_of_arc {g : G} {a b : Nat} (h : Arc g a b) : ∃ e, g.outE a b = some e := by
  unfold Arc at h
  cases ho : g.outE a b with
  | none => rw [ho] at h; cases h
  | some e => exact ⟨e, rfl⟩

theorem UTree.oriented {g : G} {P : PTree} (h : UTree g P) : Oriented (G.makeDirected g) P ∧ SameShape g { G.makeDirected g with pending := [] } := by
  obtain ⟨hc', hD⟩ := G.makeDirected_spec h.cons h.dir
  have harc : ∀ x y, Arc (G.makeDirected g) x y ↔ ∃ e, (x, y, e) ∈ G.keptOf (G.outTriples g.nodes) [] := by
    intro x y
    constructor
    · intro ha; obtain ⟨e, he⟩ := out_of_arc ha; exact ⟨e, (hD.outE x y e).1 he⟩
    · rintro ⟨e, he⟩; exact arc_of_out ((hD.outE x y e).2 he)
  refine ⟨⟨hc', hD.rest.1, fun n => by rw [hD.hasNode n]; exact h.nodes n, ?_, ?_, ?_⟩, ⟨hD.keys, uedges_makeDirected h.cons h.dir, rfl⟩⟩
  · intro x y ha
    obtain ⟨e, he⟩ := (harc x y).1 ha
    have := (h.arc x y).1 (arc_of_out (hD.kept_sub x y e he))
    rcases this with hp | hp
    · exact .inr hp
    · exact .inl hp
  · intro x y hp
    obtain ⟨e, he⟩ := out_of_arc ((h.arc x y).2 (.inl hp))
    rcases hD.kept_all x y e he with hk | hk
    · exact .inl ((harc x y).2 ⟨e, hk⟩)
    · exact .inr ((harc y x).2 ⟨e, hk⟩)
  · intro x y ha hb
    obtain ⟨e, he⟩ := (harc x y).1 ha
    obtain ⟨e', he'⟩ := (harc y x).1 hb
    have h1 := hD.kept_sub x y e he
    have h2 := hD.kept_sub y x e' he'
    have h3 := ((G.cons_out_some h.cons h1).2.2 h.dir).1
    rw [h2] at h3; cases h3
    have := hD.kept_one x y e he he'
    subst this
    exact h.no_loop x (arc_of_out h1)

namespace Oriented
variable {P : PTree}

/-- one turn of the loop of `rootAt` on the relation father `a`, son `b` -/
theorem step {t : T} (h : Oriented t.g P) (hw : P.WF) (hq : t.g.pending = []) {a b : Nat} (hp : P.par b = some a) :
    ∃ t' : T, T.orientStep (.ok () t.g, t) (a, b) = (.ok () t'.g, t') ∧ Oriented t'.g P ∧ SameShape t.g t'.g ∧ t'.g.root = t.g.root ∧
      Arc t'.g a b ∧ ∀ x y, P.par y = some x → Arc t.g x y → Arc t'.g x y := by
  have hab : a ≠ b := (T.par_ne_self hw hp)
  simp only [T.orientStep, T.andThen]
  rcases h.all a b hp with ha | hb
  · -- already the right way round
    obtain ⟨e, he⟩ := out_of_arc ha
    have hE : find e t.g.edges = some (a, b) := by
      rcases h.cons.views.out_edge a b e he with h1 | ⟨h2, _⟩
      · exact h1
      · rw [h.dir] at h2; cases h2
    simp only [G.getAnyEdge, G.getEdge, he, G.getNodes, hE, ne_eq, not_true_eq_false, if_false]
    exact ⟨t, rfl, h, SameShape.refl' _ hq, rfl, ha, fun _ _ _ hxy => hxy⟩
  · have hno : t.g.outE a b = none := by
      cases ho : t.g.outE a b with
      | none => rfl
      | some e' => exact absurd hb (h.one a b (arc_of_out ho))
    obtain ⟨e, he⟩ := out_of_arc hb
    have hE : find e t.g.edges = some (b, a) := by
      rcases h.cons.views.out_edge b a e he with h1 | ⟨h2, _⟩
      · exact h1
      · rw [h.dir] at h2; cases h2
    obtain ⟨g', _, hsw, hfl⟩ := switch_flip h.cons h.dir he (Ne.symm hab) hno
    simp only [G.getAnyEdge, G.getEdge, hno, he, G.getNodes, hE, ne_eq, (Ne.symm hab), not_false_eq_true, if_true, hsw, T.lift_ok]
    have hcons : Consistent ({ g' with pending := [] } : G) := consistent_congr (g := g') rfl rfl rfl rfl rfl hfl.cons
    have harc' : ∀ x y, Arc ({ g' with pending := [] } : G) x y ↔ ((x = a ∧ y = b) ∨ (¬ (x = b ∧ y = a) ∧ Arc t.g x y)) := hfl.arc
    refine ⟨{ g := { g' with pending := [] }, valid := false }, rfl, ⟨hcons, hfl.dir, ?_, ?_, ?_, ?_⟩,
      (hfl.sameShape h.cons h.dir he hq).quiet, hfl.root, (harc' a b).2 (.inl ⟨rfl, rfl⟩), ?_⟩
    · intro n
      rw [h.nodes n]
      have := (hfl.sameShape h.cons h.dir he hq).hasNode n
      exact ⟨fun hh => by rw [← hh]; exact this, fun hh => by rw [← this]; exact hh⟩
    · intro x y hxy
      rcases (harc' x y).1 hxy with ⟨rfl, rfl⟩ | ⟨_, hxy'⟩
      · exact .inr hp
      · exact h.sub x y hxy'
    · intro x y hpxy
      by_cases hxy : x = a ∧ y = b
      · exact .inl ((harc' x y).2 (.inl hxy))
      · rcases h.all x y hpxy with h1 | h1
        · refine .inl ((harc' x y).2 (.inr ⟨?_, h1⟩))
          rintro ⟨rfl, rfl⟩; exact T.no_two_cycle hw hp hpxy
        · refine .inr ((harc' y x).2 (.inr ⟨?_, h1⟩))
          rintro ⟨rfl, rfl⟩; exact hxy ⟨rfl, rfl⟩
    · intro x y hxy hyx
      rcases (harc' x y).1 hxy with ⟨rfl, rfl⟩ | ⟨hn1, hxy'⟩
      · rcases (harc' y x).1 hyx with ⟨rfl, _⟩ | ⟨hn2, _⟩
        · exact hab rfl
        · exact hn2 ⟨rfl, rfl⟩
      · rcases (harc' y x).1 hyx with ⟨rfl, rfl⟩ | ⟨_, hyx'⟩
        · exact hn1 ⟨rfl, rfl⟩
        · exact h.one x y hxy' hyx'
    · intro x y hpxy hxy
      refine (harc' x y).2 (.inr ⟨?_, hxy⟩)
      rintro ⟨rfl, rfl⟩; exact T.no_two_cycle hw hp hpxy

/-- the whole loop: every listed relation ends up pointing from father to son -/
theorem fold (hw : P.WF) : ∀ (L : List (Nat × Nat)) (t : T), (∀ p ∈ L, P.par p.2 = some p.1) → Oriented t.g P → t.g.pending = [] →
    ∃ t' : T, L.foldl T.orientStep (.ok () t.g, t) = (.ok () t'.g, t') ∧ Oriented t'.g P ∧ SameShape t.g t'.g ∧ t'.g.root = t.g.root ∧
      (∀ p ∈ L, Arc t'.g p.1 p.2) ∧ ∀ x y, P.par y = some x → Arc t.g x y → Arc t'.g x y := by
  intro L
  induction L with
  | nil => intro t _ h hq; exact ⟨t, rfl, h, SameShape.refl' _ hq, rfl, by simp, fun _ _ _ hh => hh⟩
  | cons p rest ih =>
    intro t hL h hq
    obtain ⟨a, b⟩ := p
    have hp : P.par b = some a := hL (a, b) (List.mem_cons_self ..)
    obtain ⟨t1, h1, ho1, hs1, hr1, hab1, hk1⟩ := h.step hw hq hp
    obtain ⟨t2, h2, ho2, hs2, hr2, hall2, hk2⟩ := ih t1 (fun q hq' => hL q (List.mem_cons_of_mem _ hq')) ho1 hs1.pending
    refine ⟨t2, by simp only [List.foldl]; rw [h1, h2], ho2, hs1.trans hs2, by rw [hr2, hr1], ?_, ?_⟩
    · intro q hq'
      rcases List.mem_cons.1 hq' with e | hq''
      · subst e; exact hk2 a b hp hab1
      · exact hall2 q hq''
    · intro x y hpxy hxy
      exact hk2 x y hpxy (hk1 x y hpxy hxy)

/-- once every relation points from father to son the graph is the rooted tree -/
theorem dtree {g : G} (h : Oriented g P) (hw : P.WF) (hall : ∀ x y, P.par y = some x → Arc g x y) : DTree g P := by
  refine ⟨h.cons, h.dir, hw, h.nodes, fun a b => ⟨fun hab => ?_, hall a b⟩⟩
  rcases h.sub a b hab with hp | hp
  · exact absurd (hall b a hp) (h.one a b hab)
  · exact hp

end Oriented
theorem Oriented.congr {g g' : G} {P : PTree} (h : Oriented g P) (hn : g'.nodes = g.nodes) (he : g'.edges = g.edges)
    (hd : g'.directed = g.directed) (h1 : g'.nextNode = g.nextNode) (h2 : g'.nextEdge = g.nextEdge) : Oriented g' P := by
  have hO : g'.outE = g.outE := by funext a b; simp [G.outE, hn]
  have hN : g'.hasNode = g.hasNode := by funext a; simp [G.hasNode, hn]
  have hA : ∀ x y, Arc g' x y ↔ Arc g x y := by intro x y; unfold Arc; rw [hO]
  exact ⟨consistent_congr hn he hd h1 h2 h.cons, by rw [hd]; exact h.dir, by intro n; rw [hN]; exact h.nodes n,
    fun x y hxy => h.sub x y ((hA x y).1 hxy), fun x y hp => (h.all x y hp).imp (hA x y).2 (hA y x).2,
    fun x y hxy hyx => h.one x y ((hA x y).1 hxy) ((hA y x).1 hyx)⟩

/-- `rootAt` on a valid unrooted tree -/
theorem rootAt_unrooted (t : T) (hc : Consistent t.g) (hd : t.g.directed = false) (htree : T.isTree t.g = .ok true)
    (n : Nat) (hn : t.g.hasNode n = true) :
    ∃ t', t.rootAt n = .ok (.ok () t'.g, t') ∧ Rerooted t.g t'.g n := by
  obtain ⟨P0, hw0, hm0, _⟩ := (T.isTree_iff hc).1 htree
  obtain ⟨P, hu, hroot⟩ := (UTree.of_matches hc hd hw0 hm0).from_node hn
  have hnP : n ∈ P.nodes := (hu.nodes n).2 hn
  obtain ⟨L, hL, hLmem⟩ := hu.relationsFrom (t.g.nodes.length + 2) n n [] hnP (.inl ⟨hroot.symm, rfl⟩) (by omega)
  obtain ⟨hor, hss⟩ := hu.oriented
  unfold T.rootAt
  rw [T.isValid_of_tree htree]
  simp only [hn, Bool.not_true, Bool.false_eq_true, if_false, hd]
  rw [hL]
  simp only [List.nil_append]
  have hmd : ({ t with valid := true } : T).makeDirected = { g := G.makeDirected t.g, valid := false } := by
    simp [T.makeDirected, hd]
  have hn' : (G.makeDirected t.g).hasNode n = true := by
    rw [← (hor.nodes n)]; exact hnP
  rw [hmd]
  have hsr : ({ g := G.makeDirected t.g, valid := false } : T).setRoot n =
      (.ok () { G.makeDirected t.g with root := n, pending := [] },
        { g := { G.makeDirected t.g with root := n, pending := [] }, valid := false }) := by
    simp only [T.setRoot, G.setRoot, hn', if_true]; rfl
  rw [hsr]
  simp only
  have hor2 : Oriented ({ G.makeDirected t.g with root := n, pending := [] } : G) P := hor.congr rfl rfl rfl rfl rfl
  obtain ⟨t', hf, ho', hs', hr', hall', _⟩ := Oriented.fold hu.wf L
    { g := { G.makeDirected t.g with root := n, pending := [] }, valid := false }
    (fun p hp => ((hLmem p.1 p.2).1 hp).1) hor2 rfl
  refine ⟨t', by rw [hf], ?_⟩
  have hd' : DTree t'.g P := ho'.dtree hu.wf (by
    intro x y hp
    have hxm : x ∈ P.nodes := (hu.wf.par_mem hp).2.2.1
    exact hall' (x, y) ((hLmem x y).2 ⟨hp, hroot ▸ hu.wf.root_anc hxm⟩))
  have hroot' : t'.g.root = n := hr'
  refine ⟨hd'.validRooted (by rw [hroot, hroot']), hroot', ?_, ?_⟩
  · exact SameShape.trans (g2 := { G.makeDirected t.g with root := n, pending := [] }) ⟨hss.keys, hss.uedges, rfl⟩ hs'
  · intro x hx
    rw [hd'.fatherless_iff hx, hroot]

end Bpp.Graph
