import BppProofs.Lemmas.DiscretizeHistory
import BppProofs.Lemmas.DiscretizeFamilies
/-!
C09: histories of the public operations of the families with closed forms (exponential,
truncated exponential, uniform), on the family model `FamSt`.
-/
namespace Bpp.Discretize
open Bpp

/-- the public operations of a family object -/
inductive FOp where
  | setP (name : String) (v : ℝ)
  | setN (n : Nat)
  | setMed (b : Bool)
  | restrict (c : Interval ℝ)
  | rediscretize

/-- one operation; an operation that raises leaves the state it leaves in the C++ -/
noncomputable def fstep (orc : Parent ℝ) (f : FamSt ℝ) : FOp → FamSt ℝ
  | .setP name v => (setP orc f name v).st
  | .setN n => (setN orc f n).st
  | .setMed b => (setMed orc f b).st
  | .restrict c => (restrict orc f c).st
  | .rediscretize => (rediscretize orc f).st

noncomputable def frun (orc : Parent ℝ) : FamSt ℝ → List FOp → FamSt ℝ
  | f, [] => f
  | f, op :: ops => frun orc (fstep orc f op) ops

/-- operations inside the regular range: positive class counts; rates / truncation points set to
positive values (0 is accepted by the constraint `[0, +inf[` but makes `pProb` 0/0) -/
def FOp.regular : FOp → Prop
  | .setP _ v => 0 < v
  | .setN n => 1 ≤ n
  | _ => True

/-- invariant shared by the three families: the state is a valid EQUAL_PROB partition and the
family's parent satisfies `H` on the domain and on every ordered sub-domain -/
structure FamGood (orc : Parent ℝ) (f : FamSt ℝ) : Prop where
  pre : Pre f.dd
  valid : Valid f.dd
  scheme : f.dd.scheme = 1
  parent : ∀ lo hi, f.dd.dom.lo ≤ lo → lo ≤ hi → hi ≤ f.dd.dom.hi → ParentOK (f.parent orc) lo hi

theorem stepOf_discretize_cases (orc : Parent ℝ) (f g : FamSt ℝ) :
    ((stepOf f (g.discretize orc)).st = f ∧ ∃ e, Discretize.discretize (g.parent orc) g.dd = .error e) ∨
    ∃ d, Discretize.discretize (g.parent orc) g.dd = .ok d ∧ (stepOf f (g.discretize orc)).st = { g with dd := d } := by
  unfold FamSt.discretize
  cases hd : Discretize.discretize (g.parent orc) g.dd with
  | error e => left; exact ⟨rfl, e, rfl⟩
  | ok d => right; exact ⟨d, rfl, rfl⟩

/-- a discretisation of a good state with a parent satisfying `H` is good (or does not complete,
leaving the state) -/
theorem famgood_discretize (orc : Parent ℝ) (f g : FamSt ℝ) (hpre : Pre g.dd) (hsch : g.dd.scheme = 1)
    (hpar : ∀ lo hi, g.dd.dom.lo ≤ lo → lo ≤ hi → hi ≤ g.dd.dom.hi → ParentOK (g.parent orc) lo hi)
    (hf : FamGood orc f) :
    FamGood orc (stepOf f (g.discretize orc)).st ∧
      ((stepOf f (g.discretize orc)).st = f ∨ ∃ d, d.dom = g.dd.dom ∧ (stepOf f (g.discretize orc)).st = { g with dd := d }) := by
  rcases stepOf_discretize_cases orc f g with ⟨h, _⟩ | ⟨d, hd, h⟩
  · rw [h]; exact ⟨hf, Or.inl rfl⟩
  · rw [h]
    obtain ⟨hv, e5, e6, e7, _, e9⟩ := discretize_valid (g.parent orc) g.dd d hpre
      (hpar _ _ le_rfl hpre.dom_ordered le_rfl) hd
    have hp : FamSt.parent orc { g with dd := d } = g.parent orc := by
      unfold FamSt.parent; rfl
    refine ⟨⟨⟨by rw [e5]; exact hpre.n_pos, by rw [e7]; exact hpre.prec_nonneg, by rw [e6]; exact hpre.dom_ordered⟩,
      hv, by rw [e9]; exact hsch, ?_⟩, Or.inr ⟨d, e6, rfl⟩⟩
    intro lo hi h1 h2 h3
    rw [hp]
    simp only [e6] at h1 h3
    exact hpar lo hi h1 h2 h3

theorem famgood_setN (orc : Parent ℝ) (f : FamSt ℝ) (n : Nat) (hn : 1 ≤ n) (hf : FamGood orc f) :
    FamGood orc (setN orc f n).st := by
  unfold setN setNumberOfCategories
  split
  · have := (famgood_discretize orc f { f with dd := { f.dd with n := n } }
      ⟨hn, hf.pre.prec_nonneg, hf.pre.dom_ordered⟩ hf.scheme hf.parent hf).1
    unfold FamSt.discretize at this
    simp only [bind, Except.bind, pure, Except.pure] at this
    have hp : FamSt.parent orc { f with dd := { f.dd with n := n } } = f.parent orc := rfl
    rw [hp] at this
    cases hd : discretize (f.parent orc) { f.dd with n := n } with
    | error e => simp only [Except.map, stepOf]; exact hf
    | ok d => simp only [hd, stepOf] at this; simpa [Except.map, stepOf] using this
  · simpa [Except.map, stepOf] using hf

theorem famgood_setMed (orc : Parent ℝ) (f : FamSt ℝ) (b : Bool) (hf : FamGood orc f) :
    FamGood orc (setMed orc f b).st := by
  unfold setMed setMedian
  split
  · have := (famgood_discretize orc f { f with dd := { f.dd with median := b } }
      ⟨hf.pre.n_pos, hf.pre.prec_nonneg, hf.pre.dom_ordered⟩ hf.scheme hf.parent hf).1
    unfold FamSt.discretize at this
    simp only [bind, Except.bind, pure, Except.pure] at this
    have hp : FamSt.parent orc { f with dd := { f.dd with median := b } } = f.parent orc := rfl
    rw [hp] at this
    cases hd : discretize (f.parent orc) { f.dd with median := b } with
    | error e => simp only [Except.map, stepOf]; exact hf
    | ok d => simp only [hd, stepOf] at this; simpa [Except.map, stepOf] using this
  · simpa [Except.map, stepOf] using hf

theorem famgood_rediscretize (orc : Parent ℝ) (f : FamSt ℝ) (hf : FamGood orc f) :
    FamGood orc (rediscretize orc f).st := by
  unfold rediscretize
  exact (famgood_discretize orc f f hf.pre hf.scheme hf.parent hf).1

/-- restriction: refused or accepted, the state stays good; `tied` is the family-specific flag
update of the truncated exponential, irrelevant for validity -/
theorem famgood_restrict (orc : Parent ℝ) (f : FamSt ℝ) (c : Interval ℝ) (hf : FamGood orc f) :
    FamGood orc (restrict orc f c).st ∧ f.dd.dom.lo ≤ (restrict orc f c).st.dd.dom.lo ∧
      (restrict orc f c).st.dd.dom.hi ≤ f.dd.dom.hi ∧
      (restrict orc f c).st.p1 = f.p1 ∧ (restrict orc f c).st.p2 = f.p2 ∧ (restrict orc f c).st.p3 = f.p3 ∧
      (restrict orc f c).st.fam = f.fam := by
  unfold restrict
  split
  · exact ⟨hf, le_rfl, le_rfl, rfl, rfl, rfl, rfl⟩
  · unfold restrictToConstraint
    cases hr : restrictDom f.dd.dom c with
    | error e => exact ⟨hf, le_rfl, le_rfl, rfl, rfl, rfl, rfl⟩
    | ok dc =>
      obtain ⟨d, ch⟩ := dc
      obtain ⟨_, hlo, h3, h4, _, _⟩ := (restrictDom_spec f.dd.dom c).2 d ch hr
      simp only [bind, Except.bind]
      cases ch with
      | false =>
        simp only [Bool.false_eq_true, if_false]
        have hg : FamGood orc { f with dd := f.dd } := hf
        have hg2 : FamGood orc { f with dd := f.dd, tpTied := true } := ⟨hf.pre, hf.valid, hf.scheme, hf.parent⟩
        split <;> (try split) <;> first | exact ⟨hg, le_rfl, le_rfl, rfl, rfl, rfl, rfl⟩ | exact ⟨hg2, le_rfl, le_rfl, rfl, rfl, rfl, rfl⟩
      | true =>
        simp only [if_true]
        cases hd : discretize (f.parent orc) { f.dd with dom := d } with
        | error e => exact ⟨hf, le_rfl, le_rfl, rfl, rfl, rfl, rfl⟩
        | ok d' =>
          simp only []
          have hpre : Pre { f.dd with dom := d } := ⟨hf.pre.n_pos, hf.pre.prec_nonneg, hlo⟩
          have hpar : ∀ lo hi, d.lo ≤ lo → lo ≤ hi → hi ≤ d.hi → ParentOK (f.parent orc) lo hi :=
            fun lo hi a b c' => hf.parent lo hi (h3.trans a) b (c'.trans h4)
          obtain ⟨hv, e5, e6, e7, _, e9⟩ := discretize_valid (f.parent orc) { f.dd with dom := d } d' hpre
            (hpar _ _ le_rfl hlo le_rfl) hd
          have e6' : d'.dom = d := e6
          have hgood : ∀ t : Bool, FamGood orc { f with dd := d', tpTied := t } := fun t =>
            ⟨⟨by rw [e5]; exact hpre.n_pos, by rw [e7]; exact hpre.prec_nonneg, by rw [e6']; exact hlo⟩, hv,
              by rw [e9]; exact hf.scheme,
              by intro lo hi a b c'; rw [e6'] at a c'; exact hpar lo hi a b c'⟩
          have hg1 : FamGood orc { f with dd := d' } := hgood f.tpTied
          split <;> (try split) <;>
            first
            | exact ⟨hg1, by rw [e6']; exact h3, by rw [e6']; exact h4, rfl, rfl, rfl, rfl⟩
            | exact ⟨hgood true, by rw [e6']; exact h3, by rw [e6']; exact h4, rfl, rfl, rfl, rfl⟩



/-- a discretisation only writes the classes and the bounds -/
theorem discretize_cfg (par : Parent ℝ) (s s' : DD ℝ) (h : discretize par s = .ok s') : SameCfg s s' := by
  unfold discretize at h
  split at h
  · simp at h
  · split at h
    · obtain ⟨m, _, rfl⟩ := eqProp_ok par s s' h
      exact ⟨rfl, rfl, rfl, rfl, rfl⟩
    · split at h
      · obtain ⟨m, _, rfl⟩ := eqInt_ok par s s' h
        exact ⟨rfl, rfl, rfl, rfl, rfl⟩
      · cases he : eqProp par s with
        | error e => simp [he, bind, Except.bind] at h
        | ok s1 =>
          obtain ⟨m, _, rfl⟩ := eqProp_ok par s s1 he
          simp only [he, bind, Except.bind] at h
          split at h
          · obtain ⟨m2, _, rfl⟩ := eqInt_ok par _ s' h
            exact ⟨rfl, rfl, rfl, rfl, rfl⟩
          · injection h with h; subst h; exact ⟨rfl, rfl, rfl, rfl, rfl⟩

/-! ## the bounds lie in the domain, for every parent -/

theorem grid_mem (lo hi : ℝ) (n k : ℕ) (hl : lo ≤ hi) (hn : 1 ≤ n) (hk : k ≤ n) :
    lo ≤ lo + (k : ℝ) * ((hi - lo) / (n : ℝ)) ∧ lo + (k : ℝ) * ((hi - lo) / (n : ℝ)) ≤ hi := by
  have hn' : (0 : ℝ) < n := by exact_mod_cast hn
  have hk' : (k : ℝ) ≤ n := by exact_mod_cast hk
  have hw : 0 ≤ (hi - lo) / (n : ℝ) := div_nonneg (by linarith) hn'.le
  have hk0 : (0 : ℝ) ≤ k := by positivity
  constructor
  · nlinarith
  · have : (k : ℝ) * ((hi - lo) / (n : ℝ)) ≤ (n : ℝ) * ((hi - lo) / (n : ℝ)) := by nlinarith
    have e : (n : ℝ) * ((hi - lo) / (n : ℝ)) = hi - lo := by field_simp
    linarith

theorem eqPropRaw_bounds_mem (par : Parent ℝ) (s : DD ℝ) (hn : 1 ≤ s.n) (hl : s.dom.lo ≤ s.dom.hi) :
    ∀ b ∈ (eqPropRaw par s).1, s.dom.lo ≤ b ∧ b ≤ s.dom.hi := by
  unfold eqPropRaw
  simp only
  split
  · have hb : ∀ b ∈ eqPropBounds par s.n s.dom.lo s.dom.hi (par.P s.dom.lo) ((par.P s.dom.hi - par.P s.dom.lo) / nat s.n),
        s.dom.lo ≤ b ∧ b ≤ s.dom.hi := by
      intro b hb
      simp only [eqPropBounds, List.mem_map] at hb
      obtain ⟨i, _, rfl⟩ := hb
      exact insideDomain_mem _ _ _ hl
    split <;> exact hb
  · intro b hb
    simp only [uniformBounds, List.mem_map, List.mem_range] at hb
    obtain ⟨i, hi, rfl⟩ := hb
    have := grid_mem s.dom.lo s.dom.hi s.n (i + 1) hl hn (by omega)
    simpa [nat_eq] using this

theorem pairs_mem : ∀ (l : List ℝ) (p : ℝ × ℝ), p ∈ pairs l → p.1 ∈ l ∧ p.2 ∈ l
  | [], p, h => by simp [pairs] at h
  | [_], p, h => by simp [pairs] at h
  | a :: b :: t, p, h => by
    simp only [pairs, List.mem_cons] at h
    rcases h with rfl | h
    · simp
    · have := pairs_mem (b :: t) p h
      exact ⟨List.mem_cons_of_mem _ this.1, List.mem_cons_of_mem _ this.2⟩

theorem meanValue_hull (par : Parent ℝ) (ec lo hi : ℝ) (p : ℝ × ℝ) (h1 : lo ≤ p.1 ∧ p.1 ≤ hi) (h2 : lo ≤ p.2 ∧ p.2 ≤ hi) :
    lo ≤ meanValue par ec p ∧ meanValue par ec p ≤ hi := by
  unfold meanValue
  simp only [two_eq]
  split
  · constructor <;> linarith [h1.1, h1.2, h2.1, h2.2]
  · rename_i hh
    simp only [Bool.not_eq_true', Bool.and_eq_false_iff, not_or, Bool.not_eq_false, ScalarReal.geb_iff, ScalarReal.leb_iff] at hh
    constructor <;> linarith [h1.1, h1.2, h2.1, h2.2, hh.1, hh.2]

theorem midValue_hull (lo hi : ℝ) (p : ℝ × ℝ) (h1 : lo ≤ p.1 ∧ p.1 ≤ hi) (h2 : lo ≤ p.2 ∧ p.2 ≤ hi) :
    lo ≤ midValue p ∧ midValue p ≤ hi := by
  unfold midValue; simp only [two_eq]; constructor <;> linarith [h1.1, h1.2, h2.1, h2.2]

/-- mean-valued classes (and the uniform fallback), where the precision does not interfere: every
class value lies in the domain — for *every* parent (a class mean outside its bounds is replaced
by their midpoint, and the bounds are clamped into the domain) -/
theorem eqProp_values_in_dom (par : Parent ℝ) (s s' : DD ℝ) (hn : 1 ≤ s.n) (hp : 0 ≤ s.prec) (hl : s.dom.lo ≤ s.dom.hi)
    (hm : s.median = false ∨ Scalar.eqb (par.P s.dom.hi) (par.P s.dom.lo) = true)
    (hr : resolved par s = true) (h : eqProp par s = .ok s') : valuesInDom s' = true := by
  have hd := eqProp_resolved par s s' hp hr h
  obtain ⟨m, _, hs'⟩ := eqProp_ok par s s' h
  have hdom : s'.dom = s.dom := by rw [hs']
  have hb := eqPropRaw_bounds_mem par s hn hl
  have hall : ∀ x ∈ s.dom.lo :: (eqPropRaw par s).1 ++ [s.dom.hi], s.dom.lo ≤ x ∧ x ≤ s.dom.hi := by
    intro x hx
    simp only [List.cons_append, List.mem_cons, List.mem_append, List.not_mem_nil, or_false] at hx
    rcases hx with rfl | hx | rfl
    · exact ⟨le_rfl, hl⟩
    · exact hb x hx
    · exact ⟨hl, le_rfl⟩
  have hraw : ∀ v ∈ (eqPropRaw par s).2, s.dom.lo ≤ v ∧ v ≤ s.dom.hi := by
    have key : ∀ (g : ℝ × ℝ → ℝ), (∀ q, (s.dom.lo ≤ q.1 ∧ q.1 ≤ s.dom.hi) → (s.dom.lo ≤ q.2 ∧ q.2 ≤ s.dom.hi) → s.dom.lo ≤ g q ∧ g q ≤ s.dom.hi) →
        ∀ v ∈ (pairs (s.dom.lo :: (eqPropRaw par s).1 ++ [s.dom.hi])).map g, s.dom.lo ≤ v ∧ v ≤ s.dom.hi := by
      intro g hg v hv
      obtain ⟨q, hq, rfl⟩ := List.mem_map.1 hv
      obtain ⟨q1, q2⟩ := pairs_mem _ q hq
      exact hg q (hall _ q1) (hall _ q2)
    have hv := eqPropRaw_values par s hm
    -- redo the case distinction of `eqPropRaw` to name the function
    by_cases hne : Scalar.eqb (par.P s.dom.hi) (par.P s.dom.lo) = true
    · have e : (eqPropRaw par s).2 = (pairs (s.dom.lo :: (eqPropRaw par s).1 ++ [s.dom.hi])).map midValue := by
        unfold eqPropRaw; simp only [hne, Bool.not_true, Bool.false_eq_true, if_false]
      rw [e]; exact key midValue (fun q a b => midValue_hull _ _ q a b)
    · have hmed : s.median = false := by rcases hm with h | h; exact h; exact absurd h hne
      have e : (eqPropRaw par s).2 = (pairs (s.dom.lo :: (eqPropRaw par s).1 ++ [s.dom.hi])).map
          (meanValue par ((par.P s.dom.hi - par.P s.dom.lo) / nat s.n)) := by
        unfold eqPropRaw; simp only [hne, Bool.not_false, if_true, hmed, Bool.false_eq_true, if_false]
      rw [e]; exact key _ (fun q a b => meanValue_hull par _ _ _ q a b)
  simp only [valuesInDom, DD.cats, TMap.keys, hd, hdom, List.map_map, List.all_eq_true, List.mem_map, Function.comp,
    Bool.and_eq_true, ScalarReal.leb_iff]
  rintro v ⟨x, hx, rfl⟩
  exact hraw x hx

theorem eqInt_bounds_mem (par : Parent ℝ) (s r : DD ℝ) (hn : 1 ≤ s.n) (hl : s.dom.lo ≤ s.dom.hi) (h : eqInt par s = .ok r) :
    ∀ b ∈ r.bounds, s.dom.lo ≤ b ∧ b ≤ s.dom.hi := by
  obtain ⟨m, _, rfl⟩ := eqInt_ok par s r h
  intro b hb
  simp only [List.mem_map, List.mem_range] at hb
  obtain ⟨i, hi, rfl⟩ := hb
  have := grid_mem s.dom.lo s.dom.hi s.n (i + 1) hl hn (by omega)
  simpa [nat_eq, ScalarReal.one_eq] using this

/-- after `discretize()` — any scheme, any parent — the domain is what it was and every interior
bound lies in it -/
theorem discretize_bounds_in_dom (par : Parent ℝ) (s s' : DD ℝ) (hn : 1 ≤ s.n) (hl : s.dom.lo ≤ s.dom.hi)
    (h : discretize par s = .ok s') : boundsInDom s' = true := by
  have hmem : ∀ b ∈ s'.bounds, s.dom.lo ≤ b ∧ b ≤ s.dom.hi ∧ s'.dom = s.dom := by
    unfold discretize at h
    split at h
    · simp at h
    · split at h
      · obtain ⟨m, _, rfl⟩ := eqProp_ok par s s' h
        intro b hb; exact ⟨(eqPropRaw_bounds_mem par s hn hl b hb).1, (eqPropRaw_bounds_mem par s hn hl b hb).2, rfl⟩
      · split at h
        · have hd : s'.dom = s.dom := by obtain ⟨m, _, rfl⟩ := eqInt_ok par s s' h; rfl
          intro b hb; exact ⟨(eqInt_bounds_mem par s s' hn hl h b hb).1, (eqInt_bounds_mem par s s' hn hl h b hb).2, hd⟩
        · cases he : eqProp par s with
          | error e => simp [he, bind, Except.bind] at h
          | ok s1 =>
            obtain ⟨m, _, hs1⟩ := eqProp_ok par s s1 he
            simp only [he, bind, Except.bind] at h
            have e1 : s1.n = s.n := by rw [hs1]
            have e2 : s1.dom = s.dom := by rw [hs1]
            split at h
            · have hd : s'.dom = s1.dom := by obtain ⟨m2, _, rfl⟩ := eqInt_ok par s1 s' h; rfl
              intro b hb
              have := eqInt_bounds_mem par s1 s' (by rw [e1]; exact hn) (by rw [e2]; exact hl) h b hb
              rw [e2] at this
              exact ⟨this.1, this.2, by rw [hd, e2]⟩
            · injection h with h; subst h
              intro b hb
              rw [hs1] at hb
              exact ⟨(eqPropRaw_bounds_mem par s hn hl b hb).1, (eqPropRaw_bounds_mem par s hn hl b hb).2, e2⟩
  have hd : s'.dom = s.dom := (discretize_cfg par s s' h).2.1
  simp only [boundsInDom, Bool.and_eq_true, ScalarReal.leb_iff, List.all_eq_true, hd]
  exact ⟨hl, fun b hb => ⟨(hmem b hb).1, (hmem b hb).2.1⟩⟩

/-! ## a parameter update of gamma / beta / gaussian keeps the domain ordered -/

theorem famDiscretize_pre (oracle : Parent ℝ) (g f' : FamSt ℝ) (hg : Pre g.dd) (h : g.discretize oracle = .ok f') :
    Pre f'.dd ∧ boundsInDom f'.dd = true := by
  unfold FamSt.discretize at h
  cases hd : Discretize.discretize (g.parent oracle) g.dd with
  | error e => simp [hd, bind, Except.bind] at h
  | ok d =>
    simp only [hd, bind, Except.bind, pure, Except.pure] at h
    injection h with h; subst h
    obtain ⟨e5, e6, e7, _, _⟩ := discretize_cfg _ _ _ hd
    exact ⟨⟨by simp only; rw [e5]; exact hg.n_pos, by simp only; rw [e7]; exact hg.prec_nonneg, by simp only; rw [e6]; exact hg.dom_ordered⟩,
      discretize_bounds_in_dom _ _ _ hg.n_pos hg.dom_ordered hd⟩

/-- `fireParameterChanged` of the gamma (with or without offset), beta and gaussian families
(repaired: audit F1) never leaves an inverted domain: whatever the slot and the value, when it
returns the domain is ordered and contains every interior bound; when it raises (offset refused)
the state is unchanged -/
theorem fire_pre (oracle : Parent ℝ) (f f' : FamSt ℝ) (slot : Nat) (v : ℝ)
    (hfam : f.fam = .gamma ∨ f.fam = .beta ∨ f.fam = .gauss) (hpre : Pre f.dd) (h : fire oracle f slot v = .ok f') :
    Pre f'.dd ∧ boundsInDom f'.dd = true := by
  unfold fire at h
  rcases hfam with hf | hf | hf
  · -- gamma
    simp only [hf] at h
    have hdd : (setShape f slot v).dd = f.dd := by unfold setShape; split <;> [rfl; (split <;> rfl)]
    by_cases hc : (f.hasOffset && slot == 3 && !Scalar.eqb f.p3 v) = true
    · rw [if_pos hc] at h
      by_cases hr : (!Scalar.ltb v (setShape f slot v).dd.dom.hi) = true
      · rw [if_pos hr] at h; cases h
      · rw [if_neg hr] at h
        have hv : v < f.dd.dom.hi := by rw [hdd] at hr; simpa using hr
        refine famDiscretize_pre oracle _ f' ?_ h
        refine ⟨by simp only [hdd]; exact hpre.n_pos, by simp only [hdd]; exact hpre.prec_nonneg, ?_⟩
        simp only [hdd]
        split
        · simp only [Dom.setLowerBound]; exact hv.le
        · exact hpre.dom_ordered
    · rw [if_neg hc] at h
      exact famDiscretize_pre oracle _ f' (by rw [hdd]; exact hpre) h
  · -- beta
    simp only [hf] at h
    refine famDiscretize_pre oracle _ f' ?_ h
    have hlo := hpre.dom_ordered
    refine ⟨?_, ?_, ?_⟩
    · split <;> exact hpre.n_pos
    · split <;> exact hpre.prec_nonneg
    · simp only
      split_ifs <;> simp_all [Dom.setLowerBound, Dom.setUpperBound, ScalarReal.leb_iff, ScalarReal.one_eq]
  · -- gaussian
    simp only [hf] at h
    refine famDiscretize_pre oracle _ f' ?_ h
    split <;> exact hpre

/-- family, parameters and flags are untouched; the domain as stated -/
def SameParams (f g : FamSt ℝ) : Prop :=
  g.fam = f.fam ∧ g.p1 = f.p1 ∧ g.p2 = f.p2 ∧ g.p3 = f.p3 ∧ g.hasOffset = f.hasOffset

theorem shape_discretize (orc : Parent ℝ) (f g : FamSt ℝ) (hg : SameParams f g) :
    SameParams f (stepOf f (g.discretize orc)).st ∧
    ((stepOf f (g.discretize orc)).st = f ∨
      ((stepOf f (g.discretize orc)).st.dd.dom = g.dd.dom ∧ (stepOf f (g.discretize orc)).st.tpTied = g.tpTied)) := by
  rcases stepOf_discretize_cases orc f g with ⟨h, _⟩ | ⟨d, hd, h⟩
  · rw [h]; exact ⟨⟨rfl, rfl, rfl, rfl, rfl⟩, Or.inl rfl⟩
  · rw [h]; exact ⟨hg, Or.inr ⟨(discretize_cfg _ _ _ hd).2.1, rfl⟩⟩

theorem setN_eq (orc : Parent ℝ) (f : FamSt ℝ) (n : Nat) :
    (setN orc f n).st = f ∨ (setN orc f n).st = (stepOf f (({ f with dd := { f.dd with n := n } } : FamSt ℝ).discretize orc)).st := by
  unfold setN setNumberOfCategories
  split
  · right
    unfold FamSt.discretize
    show _ = (stepOf f (do let d ← discretize (f.parent orc) { f.dd with n := n }; pure { f with dd := d })).st
    cases discretize (f.parent orc) { f.dd with n := n } <;> rfl
  · left; rfl

theorem setMed_eq (orc : Parent ℝ) (f : FamSt ℝ) (b : Bool) :
    (setMed orc f b).st = f ∨ (setMed orc f b).st = (stepOf f (({ f with dd := { f.dd with median := b } } : FamSt ℝ).discretize orc)).st := by
  unfold setMed setMedian
  split
  · right
    unfold FamSt.discretize
    show _ = (stepOf f (do let d ← discretize (f.parent orc) { f.dd with median := b }; pure { f with dd := d })).st
    cases discretize (f.parent orc) { f.dd with median := b } <;> rfl
  · left; rfl

/-- `setN`, `setMed`, `rediscretize` keep family, parameters, tie flag and domain -/
theorem shape_generic (orc : Parent ℝ) (f : FamSt ℝ) (op : FOp)
    (hop : match op with | .setN _ => True | .setMed _ => True | .rediscretize => True | _ => False) :
    SameParams f (fstep orc f op) ∧ (fstep orc f op).dd.dom = f.dd.dom ∧ (fstep orc f op).tpTied = f.tpTied := by
  have base : SameParams f f := ⟨rfl, rfl, rfl, rfl, rfl⟩
  cases op with
  | setP name v => exact absurd hop id
  | restrict c => exact absurd hop id
  | setN n =>
    simp only [fstep]
    rcases setN_eq orc f n with h | h
    · rw [h]; exact ⟨base, rfl, rfl⟩
    · rw [h]
      obtain ⟨a, b⟩ := shape_discretize orc f { f with dd := { f.dd with n := n } } base
      rcases b with b | b
      · rw [b]; exact ⟨base, rfl, rfl⟩
      · exact ⟨a, b.1, b.2⟩
  | setMed b' =>
    simp only [fstep]
    rcases setMed_eq orc f b' with h | h
    · rw [h]; exact ⟨base, rfl, rfl⟩
    · rw [h]
      obtain ⟨a, b⟩ := shape_discretize orc f { f with dd := { f.dd with median := b' } } base
      rcases b with b | b
      · rw [b]; exact ⟨base, rfl, rfl⟩
      · exact ⟨a, b.1, b.2⟩
  | rediscretize =>
    simp only [fstep, rediscretize]
    obtain ⟨a, b⟩ := shape_discretize orc f f base
    rcases b with b | b
    · rw [b]; exact ⟨base, rfl, rfl⟩
    · exact ⟨a, b.1, b.2⟩

end Bpp.Discretize
