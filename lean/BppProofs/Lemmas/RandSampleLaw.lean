import BppProofs.Lemmas.RandLaw
/-! Lemmas for C18 (round 2): the executable law predicates `inWeightInterval`, `lawElem`,
`lawSampleRepl`, `lawSampleNoRepl` of `BppModel/Rand.lean` hold of the model's weighted picks and
samples, for all draws in `[0,1)`, all non-negative weights with a positive total and every size. -/
namespace Bpp.Rand
open Bpp

/-! ### cumulative sums, entry by entry -/
theorem cumSumFrom_getElem? (acc : ℝ) : ∀ (l : List ℝ) (i : Nat), i < l.length →
    (cumSumFrom acc l)[i]? = some (acc + (l.take (i + 1)).sum)
  | [], i, h => by simp at h
  | y :: ys, 0, _ => by simp [cumSumFrom]
  | y :: ys, i + 1, h => by
    have := cumSumFrom_getElem? (acc + y) ys i (by simpa using h)
    simp only [cumSumFrom, sadd, List.getElem?_cons_succ, this, List.take_succ_cons, List.sum_cons]
    congr 1; ring

theorem cumSum_getElem? (w : List ℝ) (i : Nat) (h : i < w.length) :
    (cumSum w)[i]? = some ((w.take (i + 1)).sum) := by
  rw [cumSum_real, cumSumFrom_getElem? 0 w i h, zero_add]

theorem cumSum_getLast? (w : List ℝ) (h : w ≠ []) : (cumSum w).getLast? = some w.sum := by
  have hcne : cumSum w ≠ [] := by
    intro h0; have := cumSum_length w; rw [h0] at this
    exact h (List.length_eq_zero_iff.mp this.symm)
  rw [List.getLast?_eq_some_getLast hcne]
  have h2 : cumSumFrom (0 : ℝ) w ≠ [] := by rw [← cumSum_real]; exact hcne
  have := cumSumFrom_getLast 0 w h2
  simp only [zero_add] at this
  simp only [cumSum_real, this]

/-- the Boolean interval predicate spelled out over the reals -/
theorem inWeightInterval_iff (w : List ℝ) (u : ℝ) (i : Nat) (hi : i < w.length) :
    inWeightInterval w u i = true ↔
      (w.take i).sum / w.sum ≤ u ∧ u < (w.take (i + 1)).sum / w.sum := by
  have hne : w ≠ [] := by intro h; subst h; simp at hi
  unfold inWeightInterval
  simp only [cumSum_getLast? w hne, cumSum_getElem? w i hi]
  cases i with
  | zero =>
    simp only [ScalarReal.ofInt_eq, Int.cast_zero, sdiv, Bool.and_eq_true, ScalarReal.leb_iff, ScalarReal.ltb_iff,
      List.take_zero, List.sum_nil]
  | succ j =>
    simp only [cumSum_getElem? w j (by omega), sdiv, Bool.and_eq_true, ScalarReal.leb_iff, ScalarReal.ltb_iff]

theorem inWeightInterval_lt_length {α : Type} [Scalar α] (w : List α) (u : α) (i : Nat)
    (h : inWeightInterval w u i = true) : i < w.length := by
  unfold inWeightInterval at h
  dsimp only at h
  split at h
  · rename_i S ci hS hci
    have := (List.getElem?_eq_some_iff.mp hci).1
    rwa [cumSum_length] at this
  · cases h

theorem split_at (w : List ℝ) (i : Nat) (hi : i < w.length) :
    w = w.take i ++ w[i] :: w.drop (i + 1) := by
  rw [List.getElem_cons_drop, List.take_append_drop]

theorem take_succ_sum (w : List ℝ) (i : Nat) (hi : i < w.length) :
    (w.take (i + 1)).sum = (w.take i).sum + w[i] := by
  rw [List.take_add_one, List.sum_append, List.getElem?_eq_getElem hi]; simp

/-- `weighted_pick_law` in predicate form: the position the weighted picks choose is exactly the one
whose weight interval contains the draw -/
theorem weightedIndex_iff_interval (w : List ℝ) (u : ℝ) (i : Nat) (hi : i < w.length)
    (hw : ∀ y ∈ w, 0 ≤ y) (hS : 0 < w.sum) (hu0 : 0 ≤ u) (hu1 : u < 1) :
    weightedIndex w.length w u = .ok i ↔ inWeightInterval w u i = true := by
  rw [inWeightInterval_iff w u i hi, take_succ_sum w i hi]
  have hsplit := split_at w i hi
  have key := weightedIndex_law (w.take i) w[i] (w.drop (i + 1)) u (by rw [← hsplit]; exact hw)
    (by rw [← hsplit]; exact hS) hu0 hu1
  rw [← hsplit] at key
  have hl : (w.take i).length = i := by simp; omega
  rw [hl] at key
  exact key

/-- the weights' assumptions, spelled out -/
theorem weightsOk_iff (w : List ℝ) : weightsOk w = true ↔ (∀ y ∈ w, 0 ≤ y) ∧ 0 < w.sum := by
  unfold weightsOk
  by_cases hne : w = []
  · subst hne; simp [cumSum]
  · simp only [cumSum_getLast? w hne, Bool.and_eq_true, List.all_eq_true, ScalarReal.leb_iff, ScalarReal.ofInt_eq,
      Int.cast_zero, ScalarReal.ltb_iff]

/-! ### one pick -/
section
variable {τ : Type} [BEq τ] [LawfulBEq τ]

theorem lawElem_of_index (v : List τ) (w : List ℝ) (u : ℝ) (pos : Nat) (e : τ)
    (hpos : pos < v.length) (hget : v[pos]? = some e) (hint : inWeightInterval w u pos = true) :
    lawElem v w u e = true := by
  unfold lawElem
  rw [List.any_eq_true]
  exact ⟨pos, List.mem_range.mpr hpos, by simp [hget, hint]⟩

/-- both weighted `pickOne` overloads: the element returned is the one whose interval contains `u` -/
theorem pickOneW_law (v : List τ) (w : List ℝ) (replace : Bool) (u : ℝ) (hv : v ≠ []) (hwl : w.length = v.length)
    (hw : ∀ y ∈ w, 0 ≤ y) (hS : 0 < w.sum) (hu0 : 0 ≤ u) (hu1 : u < 1) :
    ∃ e v' w', pickOneW v w replace u = .ok (e, v', w') ∧ lawElem v w u e = true := by
  obtain ⟨pos, e, hlt, hget, hidx, hpick⟩ := pickOneW_ok hv hwl replace u
  refine ⟨e, _, _, hpick, lawElem_of_index v w u pos e hlt hget ?_⟩
  rw [← hwl] at hidx
  exact (weightedIndex_iff_interval w u pos (by omega) hw hS hu0 hu1).mp hidx
end

/-! ### samples with replacement (any size relation between sample and source) -/
section
variable {τ : Type} [BEq τ] [LawfulBEq τ]

theorem range_getElem?_some {n i e : Nat} (h : (List.range n)[i]? = some e) : e = i ∧ i < n := by
  have h2 := List.getElem?_eq_some_iff.mp h
  obtain ⟨hl, he⟩ := h2
  simp at hl he
  exact ⟨he.symm, hl⟩

theorem sampleWRepl_law (vin : List τ) (w : List ℝ) (hwl : w.length = vin.length)
    (hw : ∀ y ∈ w, 0 ≤ y) (hS : 0 < w.sum) : ∀ (k : Nat) (draws : List ℝ) (out : List τ),
    k ≤ draws.length → (∀ u ∈ draws, 0 ≤ u ∧ u < 1) →
    sampleWRepl vin (List.range vin.length) w k draws = .ok out →
    lawSampleRepl vin w (draws.take k) out = true
  | 0, draws, out, _, _, h => by
    simp only [sampleWRepl, Except.ok.injEq] at h; subst h; simp [lawSampleRepl]
  | k + 1, [], _, hk, _, _ => by simp at hk
  | k + 1, d :: ds, out, hk, hu, h => by
    have hne : vin ≠ [] := by
      intro h0; subst h0
      simp [sampleWRepl] at h
    have hn : 0 < vin.length := List.length_pos_iff.mpr hne
    have hrne : List.range vin.length ≠ [] := by simp; omega
    have hre : (List.range vin.length).isEmpty = false := by
      cases hr : List.range vin.length with
      | nil => exact absurd hr hrne
      | cons _ _ => rfl
    obtain ⟨pos, e, hlt, hget, hidx, hpick⟩ :=
      pickOneW_ok (v := List.range vin.length) (w := w) hrne (by simp [hwl]) true d
    obtain ⟨hep, hpn⟩ := range_getElem?_some hget
    subst hep
    have hd := hu d List.mem_cons_self
    have hint : inWeightInterval w d e = true := by
      simp only [List.length_range] at hidx
      rw [← hwl] at hidx
      exact (weightedIndex_iff_interval w d e (by omega) hw hS hd.1 hd.2).mp hidx
    unfold sampleWRepl at h
    simp only [hre, pickOneWConst, hpick, if_true, List.getElem?_eq_getElem hpn, Bool.false_eq_true, if_false] at h
    cases hr : sampleWRepl vin (List.range vin.length) w k ds with
    | error err => rw [hr] at h; cases h
    | ok r =>
      rw [hr] at h
      simp only [Except.ok.injEq] at h; subst h
      have ih := sampleWRepl_law vin w hwl hw hS k ds r (by simpa using hk)
        (fun x hx => hu x (List.mem_cons_of_mem _ hx)) hr
      simp only [List.take_succ_cons, lawSampleRepl, Bool.and_eq_true]
      exact ⟨lawElem_of_index vin w d e vin[e] hpn (List.getElem?_eq_getElem hpn) hint, ih⟩
end

/-! ### samples without replacement -/
section
variable {τ : Type}

theorem swapPop_map {β γ : Type} (f : β → γ) (l : List β) (pos : Nat) :
    swapPop (l.map f) pos = (swapPop l pos).map f := by
  unfold swapPop
  cases h : l.getLast? with
  | none => simp [h]
  | some b => simp [h, List.map_set, List.map_dropLast]

theorem nonneg_of_perm {a b : List ℝ} (h : a.Perm b) (ha : ∀ y ∈ a, 0 ≤ y) : ∀ y ∈ b, 0 ≤ y :=
  fun y hy => ha y (h.mem_iff.mpr hy)

theorem nPositive_perm {a b : List ℝ} (h : a.Perm b) : nPositive a = nPositive b := by
  unfold nPositive; exact (h.filter _).length_eq

theorem sum_pos_of_nPositive {w : List ℝ} (hw : ∀ y ∈ w, 0 ≤ y) (h : 0 < nPositive w) : 0 < w.sum := by
  unfold nPositive at h
  obtain ⟨x, hx⟩ := List.exists_mem_of_length_pos h
  obtain ⟨hxw, hpos⟩ := List.mem_filter.mp hx
  have hpos' : 0 < x := by simpa using hpos
  have := List.single_le_sum hw x hxw
  linarith

/-- the positions chosen by the repeated `pickOne(hat, w2, false)` satisfy the law predicate at
the level of positions, as long as a positive weight remains at each step -/
theorem pickPositionsNoRepl_law : ∀ (k : Nat) (hat : List Nat) (w2 : List ℝ) (draws : List ℝ),
    w2.length = hat.length → (∀ y ∈ w2, 0 ≤ y) → k ≤ nPositive w2 → k ≤ draws.length →
    (∀ u ∈ draws, 0 ≤ u ∧ u < 1) →
    ∃ ps, pickPositionsNoRepl hat w2 k draws = .ok ps ∧ lawSampleNoRepl (draws.take k) ps hat w2 = true
  | 0, hat, w2, draws, _, _, _, _, _ => ⟨[], by unfold pickPositionsNoRepl; rfl, by simp [lawSampleNoRepl]⟩
  | k + 1, hat, w2, [], _, _, _, hd, _ => by simp at hd
  | k + 1, hat, w2, d :: ds, hwl, hw, hk, hd, hu => by
    have hS : 0 < w2.sum := sum_pos_of_nPositive hw (by omega)
    have hv : hat ≠ [] := by
      intro h; subst h
      have : w2 = [] := List.length_eq_zero_iff.mp (by simpa using hwl)
      subst this; simp at hS
    have hne : hat.isEmpty = false := by cases hat with | nil => exact absurd rfl hv | cons _ _ => rfl
    obtain ⟨pos, h, hlt, hget, hidx, hpick⟩ := pickOneW_ok hv hwl false d
    simp only [Bool.false_eq_true, if_false] at hpick
    have hdu := hu d List.mem_cons_self
    have hposw : pos < w2.length := by omega
    have hint : inWeightInterval w2 d pos = true := by
      rw [← hwl] at hidx
      exact (weightedIndex_iff_interval w2 d pos hposw hw hS hdu.1 hdu.2).mp hidx
    -- the picked position carries a positive weight
    have hwpos : 0 < w2[pos] := by
      have := (inWeightInterval_iff w2 d pos hposw).mp hint
      rw [take_succ_sum w2 pos hposw] at this
      have h3 := lt_of_le_of_lt this.1 this.2
      rw [div_lt_div_iff_of_pos_right hS] at h3
      linarith
    have hperm : w2.Perm (w2[pos] :: swapPop w2 pos) := swapPop_perm (List.getElem?_eq_getElem hposw)
    have hw' : ∀ y ∈ swapPop w2 pos, 0 ≤ y := fun y hy =>
      nonneg_of_perm hperm hw y (List.mem_cons_of_mem _ hy)
    have hnp : nPositive w2 = nPositive (swapPop w2 pos) + 1 := by
      rw [nPositive_perm hperm]
      unfold nPositive
      rw [List.filter_cons_of_pos (by simpa using hwpos)]
      simp
    have hl1 : (swapPop w2 pos).length = (swapPop hat pos).length := by
      rw [swapPop_length, swapPop_length, hwl]
    obtain ⟨ps, hps, hlaw⟩ := pickPositionsNoRepl_law k (swapPop hat pos) (swapPop w2 pos) ds hl1 hw'
      (by omega) (by simpa using hd) (fun x hx => hu x (List.mem_cons_of_mem _ hx))
    refine ⟨h :: ps, ?_, ?_⟩
    · unfold pickPositionsNoRepl
      simp only [hne, hpick, hps]
      rfl
    · simp only [List.take_succ_cons, lawSampleNoRepl]
      rw [List.any_eq_true]
      exact ⟨pos, List.mem_range.mpr hlt, by simp [hget, hint, hlaw]⟩

/-- from positions to values: `selectBy` maps the law predicate along `vin[·]` -/
theorem lawSampleNoRepl_map [BEq τ] [LawfulBEq τ] (f : Nat → τ) : ∀ (us : List ℝ) (ps : List Nat) (hat : List Nat) (w : List ℝ),
    lawSampleNoRepl us ps hat w = true → lawSampleNoRepl us (ps.map f) (hat.map f) w = true
  | [], [], _, _, _ => by simp [lawSampleNoRepl]
  | [], _ :: _, _, _, h => by simp [lawSampleNoRepl] at h
  | _ :: _, [], _, _, h => by simp [lawSampleNoRepl] at h
  | u :: us, p :: ps, hat, w, h => by
    simp only [lawSampleNoRepl, List.any_eq_true, List.mem_range, Bool.and_eq_true, beq_iff_eq] at h
    obtain ⟨i, hi, ⟨hget, hint⟩, hrec⟩ := h
    have ih := lawSampleNoRepl_map f us ps (swapPop hat i) (swapPop w i) hrec
    simp only [List.map_cons, lawSampleNoRepl, List.any_eq_true, List.mem_range, Bool.and_eq_true, beq_iff_eq,
      List.length_map]
    refine ⟨i, hi, ⟨?_, hint⟩, ?_⟩
    · simp [hget]
    · rw [swapPop_map]; exact ih

theorem selectBy_eq_map {vin : List τ} (dflt : τ) : ∀ (ps : List Nat) (out : List τ), selectBy vin ps = .ok out →
    out = ps.map (fun p => vin[p]?.getD dflt)
  | [], out, h => by simp only [selectBy, Except.ok.injEq] at h; subst h; rfl
  | p :: ps, out, h => by
    unfold selectBy at h
    cases hp : vin[p]? with
    | none => rw [hp] at h; cases h
    | some x =>
      rw [hp] at h; dsimp only at h
      cases hr : selectBy vin ps with
      | error e => rw [hr] at h; cases h
      | ok r =>
        rw [hr] at h
        simp only [Except.ok.injEq] at h; subst h
        simp [hp, selectBy_eq_map dflt ps r hr]

theorem range_map_getD {vin : List τ} (dflt : τ) :
    (List.range vin.length).map (fun p => vin[p]?.getD dflt) = vin := by
  apply List.ext_getElem?
  intro i
  by_cases hi : i < vin.length
  · simp [hi]
  · simp [hi]
end

end Bpp.Rand
