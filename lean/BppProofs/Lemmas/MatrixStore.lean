import BppModel.Matrix
import BppProofs.Lemmas.ScalarReal
/-! Helper lemmas for C04: the three storage classes (`get`/`set`/`resize` laws). -/
namespace Bpp.Mx
open Bpp

section V
variable {β : Type}
@[simp] theorem vresize_size (a : Array β) (n : Nat) (d : β) : (vresize a n d).size = n := by
  simp [vresize]
theorem vget_ok {v : Array β} {i : Nat} (h : i < v.size) : vget v i = .ok v[i] := by
  simp [vget, h]
end V

namespace Store
variable {α : Type}

/-- size of the inner vectors of a well-formed vector of vectors -/
theorem row_inner {m : Array (Array α)} (hw : (row m).WF) {i : Nat} (hi : i < m.size) : m[i].size = (row m).ncols := hw i hi
theorem col_inner {m : Array (Array α)} (hw : (col m).WF) {j : Nat} (hj : j < m.size) : m[j].size = (col m).nrows := hw j hj

theorem ncols_row_eq {m : Array (Array α)} (h0 : 0 < m.size) : (row m).ncols = m[0].size := by
  simp [ncols, h0]
theorem nrows_col_eq {m : Array (Array α)} (h0 : 0 < m.size) : (col m).nrows = m[0].size := by
  simp [nrows, h0]

theorem get_ok {S : Store α} (hw : S.WF) {i j : Nat} (hi : i < S.nrows) (hj : j < S.ncols) :
    ∃ x, S.get i j = .ok x := by
  cases S with
  | row m =>
    have hi' : i < m.size := hi
    have hj' : j < m[i].size := by rw [row_inner hw hi']; exact hj
    exact ⟨_, by simp only [get, hi', getElem?_pos]; exact vget_ok hj'⟩
  | col m =>
    have hj' : j < m.size := hj
    have hi' : i < m[j].size := by rw [col_inner hw hj']; exact hi
    exact ⟨_, by simp only [get, hj', getElem?_pos]; exact vget_ok hi'⟩
  | lin m r c =>
    have hi' : i < r := hi
    have hj' : j < c := hj
    have hs : m.size = r * c := hw
    have : i * c + j < m.size := by
      rw [hs]
      calc i * c + j < i * c + c := by omega
        _ = (i + 1) * c := by ring
        _ ≤ r * c := Nat.mul_le_mul_right c hi'
    exact ⟨_, by simp only [get]; exact vget_ok this⟩

theorem get_eq_entry [Inhabited α] {S : Store α} (hw : S.WF) {i j : Nat} (hi : i < S.nrows) (hj : j < S.ncols) :
    S.get i j = .ok (S.entry i j) := by
  obtain ⟨x, hx⟩ := get_ok hw hi hj
  simp [entry, hx]

theorem lin_index_inj {c i j p q : Nat} (hj : j < c) (hq : q < c) (h : i * c + j = p * c + q) : i = p ∧ j = q := by
  have h1 : (i * c + j) / c = i := by
    rw [Nat.mul_comm, Nat.mul_add_div (by omega), Nat.div_eq_of_lt hj]; simp
  have h2 : (p * c + q) / c = p := by
    rw [Nat.mul_comm, Nat.mul_add_div (by omega), Nat.div_eq_of_lt hq]; simp
  have : i = p := by rw [← h1, ← h2, h]
  subst this
  exact ⟨rfl, by omega⟩

theorem ncols_row_set {m : Array (Array α)} {i : Nat} (hi : i < m.size) (r' : Array α) (hs : r'.size = m[i].size) :
    (row (m.set i r')).ncols = (row m).ncols := by
  simp only [ncols]
  by_cases h0 : i = 0
  · subst h0
    simp [hs, hi]
  · have : 0 < m.size := by omega
    simp [Array.getElem?_set, h0, this]

theorem nrows_col_set {m : Array (Array α)} {j : Nat} (hj : j < m.size) (c' : Array α) (hs : c'.size = m[j].size) :
    (col (m.set j c')).nrows = (col m).nrows := by
  simp only [nrows]
  by_cases h0 : j = 0
  · subst h0
    simp [hs, hj]
  · have : 0 < m.size := by omega
    simp [Array.getElem?_set, h0, this]

theorem set_spec {S : Store α} (hw : S.WF) {i j : Nat} (hi : i < S.nrows) (hj : j < S.ncols) (x : α) :
    ∃ S', S.set i j x = .ok S' ∧ S'.WF ∧ S'.kind = S.kind ∧ S'.nrows = S.nrows ∧ S'.ncols = S.ncols ∧
      S'.get i j = .ok x ∧
      ∀ p q, p < S.nrows → q < S.ncols → (p ≠ i ∨ q ≠ j) → S'.get p q = S.get p q := by
  cases S with
  | row m =>
    have hi' : i < m.size := hi
    have hj' : j < m[i].size := by rw [row_inner hw hi']; exact hj
    have hnc := ncols_row_set hi' (m[i].set! j x) (by simp)
    refine ⟨row (m.set i (m[i].set! j x)), by simp [set, hi', hj'], ?_, rfl, by simp [nrows], hnc, ?_, ?_⟩
    · intro k hk
      rw [hnc]
      have hk' : k < m.size := by simpa using hk
      rw [Array.getElem_set]
      split
      · next h => subst h; simp; exact row_inner hw hi'
      · exact row_inner hw hk'
    · simp [get, hi', vget, hj']
    · intro p q hp hq hne
      have hp' : p < m.size := hp
      simp only [get, Array.getElem?_set]
      by_cases hip : i = p
      · subst hip
        have hqj : q ≠ j := by rcases hne with h | h; exact absurd rfl h; exact h
        simp [hi', vget, Array.getElem?_setIfInBounds, Ne.symm hqj]
      · simp [hip]
  | col m =>
    have hj' : j < m.size := hj
    have hi' : i < m[j].size := by rw [col_inner hw hj']; exact hi
    have hnr := nrows_col_set hj' (m[j].set! i x) (by simp)
    refine ⟨col (m.set j (m[j].set! i x)), by simp [set, hi', hj'], ?_, rfl, hnr, by simp [ncols], ?_, ?_⟩
    · intro k hk
      rw [hnr]
      have hk' : k < m.size := by simpa using hk
      rw [Array.getElem_set]
      split
      · next h => subst h; simp; exact col_inner hw hj'
      · exact col_inner hw hk'
    · simp [get, hj', vget, hi']
    · intro p q hp hq hne
      have hq' : q < m.size := hq
      simp only [get, Array.getElem?_set]
      by_cases hjq : j = q
      · subst hjq
        have hpi : p ≠ i := by rcases hne with h | h; exact h; exact absurd rfl h
        simp [hj', vget, Array.getElem?_setIfInBounds, Ne.symm hpi]
      · simp [hjq]
  | lin m r c =>
    have hi' : i < r := hi
    have hj' : j < c := hj
    have hs : m.size = r * c := hw
    have hlt : i * c + j < m.size := by
      rw [hs]
      calc i * c + j < i * c + c := by omega
        _ = (i + 1) * c := by ring
        _ ≤ r * c := Nat.mul_le_mul_right c hi'
    refine ⟨lin (m.set! (i * c + j) x) r c, by simp [set, hlt], ?_, rfl, rfl, rfl, ?_, ?_⟩
    · show (m.set! (i * c + j) x).size = r * c
      simp [hs]
    · simp [get, vget, hlt]
    · intro p q hp hq hne
      have hq' : q < c := hq
      have hidx : i * c + j ≠ p * c + q := by
        intro h
        obtain ⟨h1, h2⟩ := lin_index_inj hj' hq' h
        rcases hne with h | h
        · exact h h1.symm
        · exact h h2.symm
      simp [get, vget, Array.getElem?_setIfInBounds, hidx]


theorem empty_wf (k : Kind) : (empty k : Store α).WF := by
  cases k
  · intro i h; simp at h
  · intro i h; simp at h
  · show (#[] : Array α).size = 0 * 0
    simp

@[simp] theorem empty_kind (k : Kind) : (empty k : Store α).kind = k := by cases k <;> rfl
@[simp] theorem empty_nrows (k : Kind) : (empty k : Store α).nrows = 0 := by cases k <;> rfl
@[simp] theorem empty_ncols (k : Kind) : (empty k : Store α).ncols = 0 := by cases k <;> rfl

section Resize
variable [Scalar α]

@[simp] theorem resize_kind (S : Store α) (r c : Nat) : (S.resize r c).kind = S.kind := by
  cases S <;> rfl

theorem resize_dims (S : Store α) (r c : Nat) :
    ((S.resize r c).nrows, (S.resize r c).ncols) = S.kind.shape r c := by
  cases S with
  | row m =>
    simp only [resize, nrows, ncols, kind, Kind.shape]
    by_cases hr : r = 0
    · subst hr; simp [vresize]
    · have : 0 < r := by omega
      simp [hr, this, vresize]
  | col m =>
    simp only [resize, nrows, ncols, kind, Kind.shape]
    by_cases hc : c = 0
    · subst hc; simp [vresize]
    · have : 0 < c := by omega
      simp [hc, this, vresize]
  | lin m rows cols => rfl

theorem resize_wf (S : Store α) (r c : Nat) : (S.resize r c).WF := by
  have hd := resize_dims S r c
  cases S with
  | row m =>
    intro i hi
    have hi' : i < r := by simpa [resize] using hi
    have h2 : (row m).kind.shape r c = (r, c) := by simp [Kind.shape, kind]; omega
    rw [h2] at hd
    have : (resize (row m) r c).ncols = c := (Prod.mk.inj hd).2
    simp only [resize] at this ⊢
    rw [this]
    simp
  | col m =>
    intro i hi
    have hi' : i < c := by simpa [resize] using hi
    have h2 : (col m).kind.shape r c = (r, c) := by simp [Kind.shape, kind]; omega
    rw [h2] at hd
    have : (resize (col m) r c).nrows = r := (Prod.mk.inj hd).1
    simp only [resize] at this ⊢
    rw [this]
    simp
  | lin m rows cols =>
    show (Array.ofFn _).size = r * c
    simp

/-- `resize` keeps the entries of the common leading block and zero-fills the rest -/
theorem resize_get {S : Store α} (hw : S.WF) (r c : Nat) {i j : Nat} (hi : i < r) (hj : j < c) :
    (S.resize r c).get i j = .ok (if i < S.nrows ∧ j < S.ncols then S.entry i j else Scalar.zero) := by
  cases S with
  | row m =>
    simp only [resize, get]
    simp only [Array.getElem?_map, vresize_size, hi, getElem?_pos, Option.map_some, vget]
    simp only [vresize, Array.getElem_ofFn, Array.getElem?_ofFn, hj]
    by_cases h1 : i < m.size
    · have hin := row_inner hw h1
      by_cases h2 : j < (row m).ncols
      · have : j < m[i].size := by rw [hin]; exact h2
        have hi' : i < (row m).nrows := h1
        simp [h1, this, hi', h2, entry, get, vget]
      · have : ¬ j < m[i].size := by rw [hin]; exact h2
        simp [h1, this, h2]
    · have hi' : ¬ i < (row m).nrows := h1
      simp [h1, hi']
  | col m =>
    simp only [resize, get]
    simp only [Array.getElem?_map, vresize_size, hj, getElem?_pos, Option.map_some, vget]
    simp only [vresize, Array.getElem_ofFn, Array.getElem?_ofFn, hi]
    by_cases h1 : j < m.size
    · have hin := col_inner hw h1
      by_cases h2 : i < (col m).nrows
      · have : i < m[j].size := by rw [hin]; exact h2
        have hj' : j < (col m).ncols := h1
        simp [h1, this, hj', h2, entry, get, vget]
      · have : ¬ i < m[j].size := by rw [hin]; exact h2
        simp [h1, this, h2]
    · have hj' : ¬ j < (col m).ncols := h1
      simp [h1, hj']
  | lin m rows cols =>
    have hlt : i * c + j < r * c := by
      calc i * c + j < i * c + c := by omega
        _ = (i + 1) * c := by ring
        _ ≤ r * c := Nat.mul_le_mul_right c hi
    have hd : (i * c + j) / c = i := by
      rw [Nat.mul_comm, Nat.mul_add_div (by omega), Nat.div_eq_of_lt hj]; simp
    have hm : (i * c + j) % c = j := by
      rw [Nat.mul_comm, Nat.mul_add_mod, Nat.mod_eq_of_lt hj]
    simp only [resize, get, vget, Array.getElem?_ofFn, hlt, hd, hm]
    by_cases h : i < rows ∧ j < cols
    · have hs : m.size = rows * cols := hw
      have hlt2 : i * cols + j < m.size := by
        rw [hs]
        calc i * cols + j < i * cols + cols := by omega
          _ = (i + 1) * cols := by ring
          _ ≤ rows * cols := Nat.mul_le_mul_right cols h.1
      have h' : i < (lin m rows cols).nrows ∧ j < (lin m rows cols).ncols := h
      simp [h, h', entry, get, vget, hlt2]
    · have h' : ¬ (i < (lin m rows cols).nrows ∧ j < (lin m rows cols).ncols) := h
      simp [h, h']

end Resize

end Store
end Bpp.Mx
