import BppProofs.Lemmas.ParamListExt
import BppModel.ParamListListen
/-! Helper lemmas for the listener-aware steps (`BppModel/ParamListListen.lean`).
Property theorems are in `Props/C02Listeners.lean`. -/
namespace Bpp.ParamList

theorem store_ext {a b : Store} (h1 : ∀ i, a.get i = b.get i) (h2 : a.next = b.next) : a = b := by
  cases a; cases b
  simp only [Store.mk.injEq]
  exact ⟨funext h1, h2⟩

theorem put_get_self (h : Store) (i : ObjId) : h.put i (h.get i) = h :=
  store_ext (fun j => by by_cases c : j = i <;> simp [c]) rfl

/-- what `Parameter::setValue` without listeners leaves: heap and error -/
def plainSet (h : Store) (i : ObjId) (v : Rat) : Store × Option Err :=
  match (h.get i).setValue v with
  | .ok p => (h.put i p, none)
  | .error e => (h, some e)

/-- an object without listeners: `setValue` with listeners is `setValue` -/
theorem propagate_single (m : Mirrors) (fuel : Nat) (h : Store) (i : ObjId) (v : Rat)
    (nt : targets m i = []) : propagate m (fuel + 1) h [i] v = some (plainSet h i v) := by
  unfold propagate plainSet Par.setValue
  by_cases c1 : v = (h.get i).value
  · simp only [c1, if_true]
    cases fuel <;> simp [propagate, put_get_self]
  · simp only [c1, if_false]
    by_cases c2 : (h.get i).rejects v = true
    · simp [c2]
    · simp only [c2, nt, List.nil_append]
      cases fuel <;> simp [propagate]

theorem targets_nil (i : ObjId) : targets [] i = [] := rfl

theorem setParameterValueL_plain (m : Mirrors) (h : Store) (l : List ObjId) (n : String) (v : Rat)
    (nt : ∀ i, find? h l n = some i → targets m i = []) :
    setParameterValueL m h l n v =
      some ((setParameterValue h l n v).heap, (setParameterValue h l n v).err) := by
  unfold setParameterValueL setParameterValue
  cases e : find? h l n with
  | none => rfl
  | some i =>
    simp only [fuelFor]
    rw [propagate_single m _ h i v (nt i e)]
    unfold plainSet
    cases (h.get i).setValue v <;> rfl

theorem applySomeL_nil (l : List ObjId) (src : List ObjId) (h : Store) :
    applySomeL [] l h src = some ((applySome h l src).heap, (applySome h l src).err) := by
  induction src generalizing h with
  | nil => rfl
  | cons s rest ih =>
    unfold applySomeL applySome
    cases e : find? h l (nameOf h s) with
    | none => exact ih h
    | some t =>
      simp only [fuelFor]
      rw [propagate_single [] _ h t _ (targets_nil t)]
      unfold plainSet
      cases e2 : (h.get t).setValue (h.get s).value with
      | ok p => exact ih _
      | error x => rfl

theorem setParametersValuesL_nil (h : Store) (l src : List ObjId) :
    setParametersValuesL [] h l src =
      some ((setParametersValues h l src).heap, (setParametersValues h l src).err) := by
  unfold setParametersValuesL setParametersValues
  cases checkSome h l src with
  | some e => rfl
  | none => exact applySomeL_nil l src h

theorem cloneMirrors_nil_of (m : Mirrors) (srcs : List ObjId) (base : Nat)
    (nt : ∀ i ∈ srcs, targets m i = []) : cloneMirrors m srcs base = [] := by
  unfold cloneMirrors
  rw [List.flatMap_eq_nil_iff]
  intro p hp
  have : p.1 ∈ srcs := by
    have := List.mem_zipIdx hp  -- p.2 index facts
    rcases p with ⟨a, b⟩
    exact (List.mem_zipIdx' hp) |>.2 ▸ List.getElem_mem _
  simp [nt p.1 this]

end Bpp.ParamList
