import BppProofs.Lemmas.Range
/-! The three coordinate types of C20 satisfy the laws the generic theorems assume:
`Int` (`int`), `UInt32` (`unsigned`, modulo 2^32), `Rat` (`double` on exactly representable
values).  The order laws (`Std.IsLinearOrder`, `Std.LawfulOrderLT`) are core-Lean instances. -/
namespace Bpp

instance : MinMaxLaws Int := ⟨fun a b => Int.min_def a b, fun a b => Int.max_def a b⟩
instance : MinMaxLaws UInt32 := ⟨fun _ _ => rfl, fun _ _ => rfl⟩
instance : MinMaxLaws Rat := ⟨fun _ _ => Rat.min_def, fun _ _ => Rat.max_def⟩

instance : ShiftLaws Int := ⟨by intros; omega, by intros; omega, by intros; omega, by intros; omega⟩
instance : ShiftLaws UInt32 := ⟨by intros; grind, by intros; grind, by intros; grind, by intros; grind⟩
instance : ShiftLaws Rat := ⟨by intros; grind, by intros; grind, by intros; grind, by intros; grind⟩

end Bpp

namespace Bpp
namespace MultiRange
open Range

/-- on an ascending list of disjoint ranges the sum of the lengths is at most the span -/
theorem sum_le_hull (m : List (Range Int)) (hm : MultiRange.Inv m) (B L : Int)
    (hB : ∀ x ∈ m, x.e ≤ B) (hL : ∀ x ∈ m, L ≤ x.b) (hLB : L ≤ B) :
    0 ≤ (m.map Range.length).sum ∧ (m.map Range.length).sum ≤ B - L := by
  induction m generalizing L with
  | nil => simp; omega
  | cons x xs ih =>
    have hx := hm.1 x (by simp)
    have hxs : MultiRange.Inv xs := ⟨fun y hy => hm.1 y (by simp [hy]), (List.pairwise_cons.mp hm.2).2⟩
    have hR := (List.pairwise_cons.mp hm.2).1
    have hBx := hB x (by simp)
    have hLx := hL x (by simp)
    have := ih hxs x.e (fun y hy => hB y (by simp [hy])) (fun y hy => hR y hy) hBx
    simp only [List.map_cons, List.sum_cons, Range.length]
    omega

/-- the `size_t` accumulator of `totalLength` holds the exact sum of the lengths whenever each
single `tot += len` is exact for non-negative lengths below 2^64 (`hacc`, a property of the
coordinate type) and the list is an ascending list of disjoint ranges ending below 2^64 -/
theorem fold_acc_exact {α : Type} [Sub α] [CoordIO α] (toI : Range α → Range Int)
    (m : List (Range α))
    (hacc : ∀ (tot : Nat) (x : Range α), x ∈ m → 0 ≤ (toI x).length →
      (tot : Int) + (toI x).length < 2 ^ 64 →
      ((CoordIO.accLen tot x.length : Nat) : Int) = tot + (toI x).length)
    (hm : MultiRange.Inv (m.map toI)) (hB : ∀ x ∈ m, (toI x).e < 2 ^ 63)
    (hL : ∀ x ∈ m, -(2 : Int) ^ 63 ≤ (toI x).b) :
    (RangeCollection.totalLength m : Int) = ((m.map toI).map Range.length).sum := by
  suffices h : ∀ (pre : List (Range α)) (tot : Nat) (suf : List (Range α)), pre ++ suf = m →
      (tot : Int) = ((pre.map toI).map Range.length).sum →
      ((suf.foldl (fun tot x => CoordIO.accLen tot x.length) tot : Nat) : Int)
        = ((m.map toI).map Range.length).sum from
    h [] 0 m rfl (by simp)
  intro pre tot suf
  induction suf generalizing pre tot with
  | nil => intro hp ht; simp at hp; subst hp; simpa using ht
  | cons x xs ih =>
    intro hp ht
    simp only [List.foldl_cons]
    apply ih (pre ++ [x]) _ (by simp [← hp])
    have hxm : x ∈ m := by rw [← hp]; simp
    have hsub : ∀ y ∈ pre ++ [x], y ∈ m := by intro y hy; rw [← hp]; simp at hy ⊢; grind
    have hpre : MultiRange.Inv ((pre ++ [x]).map toI) := by
      refine ⟨fun y hy => ?_, ?_⟩
      · simp only [List.mem_map] at hy
        obtain ⟨z, hz, e⟩ := hy
        exact hm.1 y (by simp only [List.mem_map]; exact ⟨z, hsub z hz, e⟩)
      · have : ((pre ++ [x] ++ xs).map toI).Pairwise R := by simpa [hp] using hm.2
        rw [List.map_append] at this
        exact (List.pairwise_append.mp this).1
    have hb := sum_le_hull _ hpre ((2:Int)^63 - 1) (-(2:Int)^63)
      (fun y hy => by
        simp only [List.mem_map] at hy
        obtain ⟨z, hz, e⟩ := hy
        have := hB z (hsub z hz); rw [e] at this; omega)
      (fun y hy => by
        simp only [List.mem_map] at hy
        obtain ⟨z, hz, e⟩ := hy
        have := hL z (hsub z hz); rw [e] at this; omega) (by omega)
    have hxpos := hm.1 (toI x) (by simp only [List.mem_map]; exact ⟨x, hxm, rfl⟩)
    simp only [List.map_append, List.map_cons, List.map_nil, List.sum_append, List.sum_cons, List.sum_nil] at hb ⊢
    rw [← ht] at hb ⊢
    rw [hacc tot x hxm (by simp only [Range.length]; omega) (by omega)]
    omega

end MultiRange
end Bpp
