import BppProofs.Lemmas.Discretize
/-!
C09: structure of `discretizeEqualProportions` / `discretizeEqualIntervals` at `ℝ`.
-/
namespace Bpp.Discretize
open Bpp

/-! ## hypotheses on the continuous parent -/

/-- `H`: what the theorems assume of the parent's `pProb`, `qProb`, `Expectation` on the domain
`[lo, hi]`: the cumulative function is non-decreasing, the quantile function is strictly
increasing on `[P lo, P hi]`, the two are mutually inverse, and the partial expectation grows like
a mean of the class (`a·(P b − P a) ≤ E b − E a ≤ b·(P b − P a)`). -/
structure ParentOK (par : Parent ℝ) (lo hi : ℝ) : Prop where
  mono : ∀ x y, lo ≤ x → x ≤ y → y ≤ hi → par.P x ≤ par.P y
  qmono : ∀ u v, par.P lo ≤ u → u < v → v ≤ par.P hi → par.Q u < par.Q v
  qp : ∀ x, lo ≤ x → x ≤ hi → par.Q (par.P x) = x
  pq : ∀ u, par.P lo ≤ u → u ≤ par.P hi → par.P (par.Q u) = u
  mean : ∀ a b, lo ≤ a → a ≤ b → b ≤ hi →
    a * (par.P b - par.P a) ≤ par.E b - par.E a ∧ par.E b - par.E a ≤ b * (par.P b - par.P a)

namespace ParentOK
variable {par : Parent ℝ} {lo hi : ℝ}

theorem q_ge_lo (H : ParentOK par lo hi) (hl : lo ≤ hi) {u : ℝ} (h1 : par.P lo ≤ u) (h2 : u ≤ par.P hi) : lo ≤ par.Q u := by
  rcases eq_or_lt_of_le h1 with h | h
  · rw [← h, H.qp lo le_rfl hl]
  · have := H.qmono _ _ le_rfl h h2
    rw [H.qp lo le_rfl hl] at this; exact this.le

theorem q_le_hi (H : ParentOK par lo hi) (hl : lo ≤ hi) {u : ℝ} (h1 : par.P lo ≤ u) (h2 : u ≤ par.P hi) : par.Q u ≤ hi := by
  rcases eq_or_lt_of_le h2 with h | h
  · rw [h, H.qp hi hl le_rfl]
  · have := H.qmono _ _ h1 h le_rfl
    rw [H.qp hi hl le_rfl] at this; exact this.le

theorem q_mono (H : ParentOK par lo hi) {u v : ℝ} (h1 : par.P lo ≤ u) (h : u ≤ v) (h2 : v ≤ par.P hi) : par.Q u ≤ par.Q v := by
  rcases eq_or_lt_of_le h with h | h
  · rw [h]
  · exact (H.qmono _ _ h1 h h2).le

/-- narrowing the domain keeps the hypotheses -/
theorem restrict (H : ParentOK par lo hi) {lo' hi' : ℝ} (h1 : lo ≤ lo') (h2 : lo' ≤ hi') (h3 : hi' ≤ hi) : ParentOK par lo' hi' where
  mono x y a b c := H.mono x y (h1.trans a) b (c.trans h3)
  qmono u v a b c := H.qmono u v ((H.mono lo lo' le_rfl h1 (h2.trans h3)).trans a) b (c.trans (H.mono hi' hi (h1.trans h2) h3 le_rfl))
  qp x a b := H.qp x (h1.trans a) (b.trans h3)
  pq u a b := H.pq u ((H.mono lo lo' le_rfl h1 (h2.trans h3)).trans a) (b.trans (H.mono hi' hi (h1.trans h2) h3 le_rfl))
  mean a b x y z := H.mean a b (h1.trans x) y (z.trans h3)
end ParentOK

/-! ## generic list lemmas -/

theorem pairs_length (a : ℝ) (l : List ℝ) : (pairs (a :: l)).length = l.length := by
  induction l generalizing a with
  | nil => simp [pairs]
  | cons b t ih => simp [pairs, ih]

theorem pairs_bounds_length (lo hi : ℝ) (b : List ℝ) : (pairs (lo :: b ++ [hi])).length = b.length + 1 := by
  rw [show lo :: b ++ [hi] = lo :: (b ++ [hi]) from rfl, pairs_length]; simp

/-- in a non-decreasing list every consecutive pair is ordered -/
theorem pairs_ordered (l : List ℝ) (h : l.IsChain (· ≤ ·)) : ∀ p ∈ pairs l, p.1 ≤ p.2 := by
  induction l with
  | nil => simp [pairs]
  | cons a t ih =>
    cases t with
    | nil => simp [pairs]
    | cons b t' =>
      rw [List.isChain_cons_cons] at h
      intro p hp
      simp only [pairs, List.mem_cons] at hp
      rcases hp with rfl | hp
      · exact h.1
      · exact ih h.2 p hp

/-- telescoping sum over consecutive pairs -/
theorem pairs_telescope (g : ℝ → ℝ) (a : ℝ) (l : List ℝ) :
    ((pairs (a :: l)).map (fun p => g p.2 - g p.1)).sum = g ((a :: l).getLast (by simp)) - g a := by
  induction l generalizing a with
  | nil => simp [pairs]
  | cons b t ih =>
    simp only [pairs, List.map_cons, List.sum_cons]
    rw [ih b]
    rw [List.getLast_cons (by simp : b :: t ≠ [])]
    ring

theorem getLast_bounds (lo hi : ℝ) (b : List ℝ) : (lo :: (b ++ [hi])).getLast (by simp) = hi := by
  rw [List.getLast_cons (by simp)]; simp

/-- values `g p` with `g p ∈ [p.1, p.2]` lie in their own class -/
theorem zip_pairs_all (l : List (ℝ × ℝ)) (g : ℝ × ℝ → ℝ) (h : ∀ p ∈ l, p.1 ≤ g p ∧ g p ≤ p.2) :
    ((l.map g).zip l).all (fun vb => Scalar.leb vb.2.1 vb.1 && Scalar.leb vb.1 vb.2.2) = true := by
  induction l with
  | nil => simp
  | cons p t ih =>
    have hp := h p (by simp)
    simp only [List.map_cons, List.zip_cons_cons, List.all_cons, Bool.and_eq_true, ScalarReal.leb_iff]
    exact ⟨hp, ih (fun q hq => h q (by simp [hq]))⟩

/-- a list `lo :: map f (range k) ++ [hi]` with `f` non-decreasing between `lo` and `hi` -/
theorem chain_range (f : Nat → ℝ) (lo hi : ℝ) (k : Nat) (hl : lo ≤ hi)
    (h0 : ∀ i, i < k → lo ≤ f i) (h1 : ∀ i, i < k → f i ≤ hi) (hm : ∀ i, i + 1 < k → f i ≤ f (i + 1)) :
    (lo :: (List.range k).map f ++ [hi]).IsChain (· ≤ ·) := by
  have key : ∀ (j : Nat) (a : ℝ), j ≤ k → a ≤ hi → (∀ i, j ≤ i → i < k → a ≤ f i) →
      (a :: ((List.range' j (k - j)).map f ++ [hi])).IsChain (· ≤ ·) := by
    intro j a hj
    induction hd : k - j generalizing j a with
    | zero => intro ha _; simp [ha]
    | succ d ih =>
      intro ha hall
      have hjk : j < k := by omega
      simp only [List.range'_succ, List.map_cons, List.cons_append, List.isChain_cons_cons]
      refine ⟨hall j le_rfl hjk, ?_⟩
      apply ih (j + 1) (f j) (by omega) (by omega) (h1 j hjk)
      intro i hi1 hi2
      -- f j ≤ f i for j < i: by induction on i
      have : ∀ t, f j ≤ f (j + 1 + t) ∨ k ≤ j + 1 + t := by
        intro t
        induction t with
        | zero => by_cases hh : j + 1 < k; exact Or.inl (hm j hh); exact Or.inr (by omega)
        | succ t iht =>
          by_cases hh : j + 1 + t + 1 < k
          · rcases iht with h | h
            · exact Or.inl (h.trans (hm _ hh))
            · omega
          · exact Or.inr (by omega)
      rcases this (i - (j + 1)) with h | h
      · rwa [show j + 1 + (i - (j + 1)) = i by omega] at h
      · omega
  have := key 0 lo (Nat.zero_le _) hl (fun i _ hi => h0 i hi)
  simpa [List.range_eq_range'] using this

/-! ## lengths -/

theorem adjLow_length (thr nv : ℝ) (l : List ℝ) : (adjLow thr nv l).length = l.length := by
  induction l with
  | nil => rfl
  | cons a t ih => simp only [adjLow]; split <;> simp [ih]

theorem adjHigh_length (thr nv : ℝ) (l : List ℝ) : (adjHigh thr nv l).length = l.length := by
  induction l with
  | nil => rfl
  | cons a t ih => simp only [adjHigh]; split <;> simp [ih]

theorem adjust_length (d : Dom ℝ) (prec : ℝ) (l : List ℝ) : (adjust d prec l).length = l.length := by
  unfold adjust
  simp only [List.length_reverse]
  split <;> split <;> simp [adjHigh_length, adjLow_length]

theorem rescale_length (l : List ℝ) (mean ec : ℝ) : (rescale l mean ec).length = l.length := by
  unfold rescale; simp only; split <;> simp

theorem eqPropRaw_lengths (par : Parent ℝ) (s : DD ℝ) (hn : 1 ≤ s.n) :
    (eqPropRaw par s).1.length = s.n - 1 ∧ (eqPropRaw par s).2.length = s.n := by
  unfold eqPropRaw
  simp only
  split
  · split
    · simp [eqPropBounds, medians, rescale_length]
    · simp only [eqPropBounds, List.length_map, List.length_range, pairs_bounds_length, true_and]; omega
  · simp only [uniformBounds, List.length_map, List.length_range, pairs_bounds_length, true_and]; omega

/-! ## what `eqProp` returns -/

theorem eqProp_ok (par : Parent ℝ) (s s' : DD ℝ) (h : eqProp par s = .ok s') :
    ∃ m, insertAll s.prec s.dom.hi (Scalar.one / nat s.n) [] (adjust s.dom s.prec (eqPropRaw par s).2) = some m ∧
      s' = { s with dist := m, bounds := (eqPropRaw par s).1 } := by
  unfold eqProp at h
  simp only at h
  split at h
  · rename_i m hm
    injection h with h
    exact ⟨m, hm, h.symm⟩
  · simp at h

/-- the unconditional clauses: `n` classes with probability `1/n` each, in comparator order -/
theorem eqProp_map (par : Parent ℝ) (s s' : DD ℝ) (hn : 1 ≤ s.n) (hp : 0 ≤ s.prec) (h : eqProp par s = .ok s') :
    TMap.Sorted s.prec s'.dist ∧ s'.dist.length = s.n ∧ (∀ e ∈ s'.dist, e.2 = 1 / (s.n : ℝ)) ∧
      s'.bounds.length = s.n - 1 ∧ s'.n = s.n ∧ s'.dom = s.dom ∧ s'.prec = s.prec ∧ s'.median = s.median ∧ s'.scheme = s.scheme := by
  obtain ⟨m, hm, rfl⟩ := eqProp_ok par s s' h
  have := insertAll_spec s.prec s.dom.hi (Scalar.one / nat s.n) hp _ [] m (by simp [TMap.Sorted]) (by simp) hm
  have hl := eqPropRaw_lengths par s hn
  simp only [adjust_length, hl.2, List.length_nil, Nat.zero_add] at this
  refine ⟨this.1, this.2.1, ?_, hl.1, rfl, rfl, rfl, rfl, rfl⟩
  intro e he
  have := this.2.2 e he
  simpa using this

end Bpp.Discretize

namespace Bpp.Discretize
open Bpp

/-! ## bounds of the equal-probability scheme -/

theorem insideDomain_eq (q lo hi : ℝ) : insideDomain q lo hi = if q < lo then lo else if hi < q then hi else q := by
  unfold insideDomain
  simp only [Scalar.geb]
  by_cases h1 : q < lo
  · have : Scalar.leb lo q = false := by simpa using h1
    simp [h1, this]
  · have e1 : Scalar.leb lo q = true := by simpa using h1
    by_cases h2 : hi < q
    · have : Scalar.leb q hi = false := by simpa using h2
      simp [h1, h2, e1, this]
    · have : Scalar.leb q hi = true := by simpa using h2
      simp [h1, h2, e1, this]

theorem insideDomain_mem (q lo hi : ℝ) (h : lo ≤ hi) : lo ≤ insideDomain q lo hi ∧ insideDomain q lo hi ≤ hi := by
  rw [insideDomain_eq]
  split
  · exact ⟨le_rfl, h⟩
  · split
    · exact ⟨h, le_rfl⟩
    · constructor <;> linarith

theorem insideDomain_mono (q q' lo hi : ℝ) (h : lo ≤ hi) (hq : q ≤ q') : insideDomain q lo hi ≤ insideDomain q' lo hi := by
  simp only [insideDomain_eq]
  split_ifs <;> linarith

theorem insideDomain_id (q lo hi : ℝ) (h1 : lo ≤ q) (h2 : q ≤ hi) : insideDomain q lo hi = q := by
  rw [insideDomain_eq]; simp [not_lt.2 h1, not_lt.2 h2]

/-- the facts about the non-degenerate branch: `ec > 0` and the queried probabilities lie in
`[P lo, P hi]` -/
theorem ec_pos (par : Parent ℝ) (lo hi : ℝ) (n : Nat) (hn : 1 ≤ n) (H : ParentOK par lo hi) (hl : lo ≤ hi)
    (hne : par.P hi ≠ par.P lo) : 0 < (par.P hi - par.P lo) / (n : ℝ) := by
  have h1 := H.mono lo hi le_rfl hl le_rfl
  have : par.P lo < par.P hi := lt_of_le_of_ne h1 (Ne.symm hne)
  have hn' : (0 : ℝ) < n := by exact_mod_cast hn
  exact div_pos (by linarith) hn'

theorem u_range (minX maxX : ℝ) (n : Nat) (hn : 1 ≤ n) (h : minX ≤ maxX) (x : ℝ) (hx0 : 0 ≤ x) (hx : x ≤ n) :
    minX ≤ minX + x * ((maxX - minX) / n) ∧ minX + x * ((maxX - minX) / n) ≤ maxX := by
  have hn' : (0 : ℝ) < n := by exact_mod_cast hn
  have hd : 0 ≤ (maxX - minX) / n := div_nonneg (by linarith) hn'.le
  constructor
  · nlinarith
  · have : x * ((maxX - minX) / n) ≤ n * ((maxX - minX) / n) := mul_le_mul_of_nonneg_right hx hd
    have h2 : (n : ℝ) * ((maxX - minX) / n) = maxX - minX := by field_simp
    linarith

theorem eqPropRaw_bounds_chain (par : Parent ℝ) (s : DD ℝ) (hn : 1 ≤ s.n) (hl : s.dom.lo ≤ s.dom.hi)
    (H : ParentOK par s.dom.lo s.dom.hi) :
    (s.dom.lo :: (eqPropRaw par s).1 ++ [s.dom.hi]).IsChain (· ≤ ·) := by
  have hn' : (0 : ℝ) < s.n := by exact_mod_cast hn
  unfold eqPropRaw
  simp only
  by_cases hne : Scalar.eqb (par.P s.dom.hi) (par.P s.dom.lo) = true
  · -- uniform fallback
    simp only [hne, Bool.not_true, Bool.false_eq_true, if_false]
    have hd : 0 ≤ (s.dom.hi - s.dom.lo) / (s.n : ℝ) := div_nonneg (by linarith) hn'.le
    apply chain_range _ _ _ _ hl
    · intro i _; simp only [nat_eq]; have : (0:ℝ) ≤ ((i + 1 : ℕ) : ℝ) := by positivity
      nlinarith
    · intro i hi; simp only [nat_eq]
      have := (u_range s.dom.lo s.dom.hi s.n hn hl ((i + 1 : ℕ) : ℝ) (by positivity) (by exact_mod_cast (by omega : i + 1 ≤ s.n))).2
      simpa using this
    · intro i _; simp only [nat_eq]; push_cast; nlinarith
  · simp only [hne, Bool.not_false, if_true]
    have hne' : par.P s.dom.hi ≠ par.P s.dom.lo := by simpa using hne
    have hec := ec_pos par _ _ s.n hn H hl hne'
    have hle : par.P s.dom.lo ≤ par.P s.dom.hi := H.mono _ _ le_rfl hl le_rfl
    have hb : (s.dom.lo :: eqPropBounds par s.n s.dom.lo s.dom.hi (par.P s.dom.lo) ((par.P s.dom.hi - par.P s.dom.lo) / nat s.n) ++ [s.dom.hi]).IsChain (· ≤ ·) := by
      unfold eqPropBounds
      apply chain_range _ _ _ _ hl
      · intro i _; exact (insideDomain_mem _ _ _ hl).1
      · intro i _; exact (insideDomain_mem _ _ _ hl).2
      · intro i hi
        apply insideDomain_mono _ _ _ _ hl
        simp only [nat_eq]
        have r1 := u_range (par.P s.dom.lo) (par.P s.dom.hi) s.n hn hle ((i + 1 : ℕ) : ℝ) (by positivity) (by exact_mod_cast (by omega : i + 1 ≤ s.n))
        have r2 := u_range (par.P s.dom.lo) (par.P s.dom.hi) s.n hn hle ((i + 1 + 1 : ℕ) : ℝ) (by positivity) (by exact_mod_cast (by omega : i + 1 + 1 ≤ s.n))
        apply H.q_mono r1.1 _ r2.2
        push_cast; nlinarith
    split <;> exact hb

/-! ## raw class values lie in their own class (mean-valued classes and uniform fallback) -/

theorem meanValue_mem (par : Parent ℝ) (ec : ℝ) (p : ℝ × ℝ) (h : p.1 ≤ p.2) :
    p.1 ≤ meanValue par ec p ∧ meanValue par ec p ≤ p.2 := by
  unfold meanValue
  simp only [two_eq]
  split
  · constructor <;> linarith
  · rename_i hh
    simp only [Bool.not_eq_true', Bool.and_eq_false_iff, not_or, Bool.not_eq_false, ScalarReal.geb_iff, ScalarReal.leb_iff] at hh
    exact hh

theorem midValue_mem (p : ℝ × ℝ) (h : p.1 ≤ p.2) : p.1 ≤ midValue p ∧ midValue p ≤ p.2 := by
  unfold midValue; simp only [two_eq]; constructor <;> linarith

/-- for mean-valued classes (and in the uniform fallback) the raw class values are
`g (class interval)` with `g` between the ends of the interval -/
theorem eqPropRaw_values (par : Parent ℝ) (s : DD ℝ)
    (hm : s.median = false ∨ Scalar.eqb (par.P s.dom.hi) (par.P s.dom.lo) = true) :
    ∃ g : ℝ × ℝ → ℝ, (∀ p, p.1 ≤ p.2 → p.1 ≤ g p ∧ g p ≤ p.2) ∧
      (eqPropRaw par s).2 = (pairs (s.dom.lo :: (eqPropRaw par s).1 ++ [s.dom.hi])).map g := by
  unfold eqPropRaw
  simp only
  by_cases hne : Scalar.eqb (par.P s.dom.hi) (par.P s.dom.lo) = true
  · simp only [hne, Bool.not_true, Bool.false_eq_true, if_false]
    exact ⟨midValue, midValue_mem, rfl⟩
  · simp only [hne, Bool.not_false, if_true]
    have hmed : s.median = false := by rcases hm with h | h; exact h; exact absurd h hne
    simp only [hmed, Bool.false_eq_true, if_false]
    exact ⟨meanValue par _, meanValue_mem par _, rfl⟩

/-! ## `resolved`: the stored class values are the raw ones -/

theorem listEqB_iff (a b : List ℝ) : listEqB a b = true ↔ a = b := by
  induction a generalizing b with
  | nil => cases b <;> simp [listEqB]
  | cons x t ih => cases b with
    | nil => simp [listEqB]
    | cons y t' => simp [listEqB, ih]

theorem separated_pairwise (prec : ℝ) (hp : 0 ≤ prec) (l : List ℝ) (h : separated prec l = true) :
    l.Pairwise (fun a b => a < b - prec) := by
  have hc : l.IsChain (fun a b => a < b - prec) := by
    induction l with
    | nil => simp
    | cons a t ih =>
      cases t with
      | nil => simp
      | cons b t' =>
        simp only [separated, Bool.and_eq_true, TMap.lt_iff] at h
        exact List.isChain_cons_cons.2 ⟨h.1, ih h.2⟩
  have : IsTrans ℝ (fun a b => a < b - prec) := ⟨fun a b c h1 h2 => by linarith⟩
  exact List.isChain_iff_pairwise.1 hc

/-- under `resolved` the map holds the raw values, in order, with probability `1/n` -/
theorem eqProp_resolved (par : Parent ℝ) (s s' : DD ℝ) (hp : 0 ≤ s.prec) (hr : resolved par s = true)
    (h : eqProp par s = .ok s') :
    s'.dist = (eqPropRaw par s).2.map (fun v => (v, 1 / (s.n : ℝ))) := by
  obtain ⟨m, hm, rfl⟩ := eqProp_ok par s s' h
  unfold resolved at hr
  simp only [Bool.and_eq_true, listEqB_iff] at hr
  rw [hr.1] at hm
  have := insertAll_separated s.prec s.dom.hi (Scalar.one / nat s.n) _ [] (separated_pairwise _ hp _ hr.2) (by simp)
  rw [this] at hm
  injection hm with hm
  simp only [List.nil_append] at hm
  simp [← hm]

theorem resolved_exists (par : Parent ℝ) (s : DD ℝ) (hp : 0 ≤ s.prec) (hr : resolved par s = true) :
    ∃ s', eqProp par s = .ok s' := by
  unfold resolved at hr
  simp only [Bool.and_eq_true, listEqB_iff] at hr
  have := insertAll_separated s.prec s.dom.hi (Scalar.one / nat s.n) _ [] (separated_pairwise _ hp _ hr.2) (by simp)
  unfold eqProp
  simp only [hr.1, this]
  exact ⟨_, rfl⟩

end Bpp.Discretize

namespace Bpp.Discretize
open Bpp

/-! ## consecutive pairs of `lo :: map f (range k) ++ [hi]` -/

theorem isChain_iff_pairs (R : ℝ → ℝ → Prop) (l : List ℝ) : l.IsChain R ↔ ∀ p ∈ pairs l, R p.1 p.2 := by
  induction l with
  | nil => simp [pairs]
  | cons a t ih =>
    cases t with
    | nil => simp [pairs]
    | cons b t' =>
      rw [List.isChain_cons_cons, ih]
      simp only [pairs, List.mem_cons, forall_eq_or_imp]

theorem chain_rangeR (R : ℝ → ℝ → Prop) (f : Nat → ℝ) (lo hi : ℝ) (k : Nat)
    (h0 : k = 0 → R lo hi) (h1 : 0 < k → R lo (f 0)) (hm : ∀ i, i + 1 < k → R (f i) (f (i + 1)))
    (h2 : 0 < k → R (f (k - 1)) hi) :
    (lo :: (List.range k).map f ++ [hi]).IsChain R := by
  have key : ∀ (d j : Nat) (a : ℝ), k - j = d → j ≤ k → (j < k → R a (f j)) → (j = k → R a hi) →
      (a :: ((List.range' j (k - j)).map f ++ [hi])).IsChain R := by
    intro d
    induction d with
    | zero =>
      intro j a hd hj _ hb
      have : j = k := by omega
      simp [hd, hb this]
    | succ d ih =>
      intro j a hd hj ha _
      have hjk : j < k := by omega
      rw [hd]
      simp only [List.range'_succ, List.map_cons, List.cons_append, List.isChain_cons_cons]
      refine ⟨ha hjk, ?_⟩
      have := ih (j + 1) (f j) (by omega) (by omega) (fun h => hm j h) (fun h => by
        have := h2 (by omega); rwa [show k - 1 = j by omega] at this)
      rwa [show k - (j + 1) = d by omega] at this
  have := key (k - 0) 0 lo rfl (Nat.zero_le _) (fun h => h1 h) (fun h => h0 h.symm)
  simpa [List.range_eq_range'] using this

/-! ## class masses and class means of the equal-probability scheme under `H` -/

/-- in the non-degenerate branch under `H` every class `[a, b]` has `P b − P a = ec` and the
partial expectation satisfies `a·ec ≤ E b − E a ≤ b·ec` -/
theorem eqPropRaw_classes (par : Parent ℝ) (s : DD ℝ) (hn : 1 ≤ s.n) (hl : s.dom.lo ≤ s.dom.hi)
    (H : ParentOK par s.dom.lo s.dom.hi) (hne : par.P s.dom.hi ≠ par.P s.dom.lo) :
    ∀ p ∈ pairs (s.dom.lo :: (eqPropRaw par s).1 ++ [s.dom.hi]),
      par.P p.2 - par.P p.1 = (par.P s.dom.hi - par.P s.dom.lo) / (s.n : ℝ) ∧
      p.1 * ((par.P s.dom.hi - par.P s.dom.lo) / (s.n : ℝ)) ≤ par.E p.2 - par.E p.1 ∧
      par.E p.2 - par.E p.1 ≤ p.2 * ((par.P s.dom.hi - par.P s.dom.lo) / (s.n : ℝ)) := by
  have hn' : (0 : ℝ) < s.n := by exact_mod_cast hn
  have hne' : Scalar.eqb (par.P s.dom.hi) (par.P s.dom.lo) = false := by
    cases hh : Scalar.eqb (par.P s.dom.hi) (par.P s.dom.lo) with
    | false => rfl
    | true => exact absurd ((ScalarReal.eqb_iff _ _).1 hh) hne
  have hle : par.P s.dom.lo ≤ par.P s.dom.hi := H.mono _ _ le_rfl hl le_rfl
  set ec := (par.P s.dom.hi - par.P s.dom.lo) / (s.n : ℝ) with hec
  have hecpos : 0 < ec := ec_pos par _ _ s.n hn H hl hne
  have hnec : (s.n : ℝ) * ec = par.P s.dom.hi - par.P s.dom.lo := by rw [hec]; field_simp
  -- the bounds are quantiles of minX + (i+1) ec
  have hb : (eqPropRaw par s).1 = (List.range (s.n - 1)).map (fun i => par.Q (par.P s.dom.lo + ((i + 1 : ℕ) : ℝ) * ec)) := by
    unfold eqPropRaw
    simp only [hne', Bool.not_false, if_true]
    have : eqPropBounds par s.n s.dom.lo s.dom.hi (par.P s.dom.lo) ((par.P s.dom.hi - par.P s.dom.lo) / nat s.n) =
        (List.range (s.n - 1)).map (fun i => par.Q (par.P s.dom.lo + ((i + 1 : ℕ) : ℝ) * ec)) := by
      unfold eqPropBounds
      apply List.map_congr_left
      intro i hi
      simp only [List.mem_range] at hi
      simp only [nat_eq]
      have r := u_range (par.P s.dom.lo) (par.P s.dom.hi) s.n hn hle ((i + 1 : ℕ) : ℝ) (by positivity) (by exact_mod_cast (by omega : i + 1 ≤ s.n))
      exact insideDomain_id _ _ _ (H.q_ge_lo hl r.1 r.2) (H.q_le_hi hl r.1 r.2)
    split <;> exact this
  rw [hb]
  -- the relation on consecutive bounds
  let R : ℝ → ℝ → Prop := fun a b => par.P b - par.P a = ec ∧ a * ec ≤ par.E b - par.E a ∧ par.E b - par.E a ≤ b * ec
  have hR : ∀ a b, s.dom.lo ≤ a → a ≤ b → b ≤ s.dom.hi → par.P b - par.P a = ec → R a b := by
    intro a b h1 h2 h3 h4
    have := H.mean a b h1 h2 h3
    rw [h4] at this
    exact ⟨h4, this⟩
  -- facts about u_i
  have hu : ∀ i : ℕ, i ≤ s.n → par.P s.dom.lo ≤ par.P s.dom.lo + (i : ℝ) * ec ∧ par.P s.dom.lo + (i : ℝ) * ec ≤ par.P s.dom.hi := by
    intro i hi
    exact u_range (par.P s.dom.lo) (par.P s.dom.hi) s.n hn hle (i : ℝ) (by positivity) (by exact_mod_cast hi)
  have hPQ : ∀ i : ℕ, i ≤ s.n → par.P (par.Q (par.P s.dom.lo + (i : ℝ) * ec)) = par.P s.dom.lo + (i : ℝ) * ec :=
    fun i hi => H.pq _ (hu i hi).1 (hu i hi).2
  have hQlo : ∀ i : ℕ, i ≤ s.n → s.dom.lo ≤ par.Q (par.P s.dom.lo + (i : ℝ) * ec) := fun i hi => H.q_ge_lo hl (hu i hi).1 (hu i hi).2
  have hQhi : ∀ i : ℕ, i ≤ s.n → par.Q (par.P s.dom.lo + (i : ℝ) * ec) ≤ s.dom.hi := fun i hi => H.q_le_hi hl (hu i hi).1 (hu i hi).2
  have hchain := chain_rangeR R (fun i => par.Q (par.P s.dom.lo + ((i + 1 : ℕ) : ℝ) * ec)) s.dom.lo s.dom.hi (s.n - 1)
    (by
      intro h0
      have : s.n = 1 := by omega
      apply hR _ _ le_rfl hl le_rfl
      rw [← hnec, this]; simp)
    (by
      intro _
      apply hR _ _ le_rfl (hQlo 1 (by omega)) (hQhi 1 (by omega))
      rw [hPQ 1 (by omega)]; simp)
    (by
      intro i hi
      apply hR _ _ (hQlo (i + 1) (by omega)) _ (hQhi (i + 1 + 1) (by omega))
      · rw [hPQ (i + 1) (by omega), hPQ (i + 1 + 1) (by omega)]; push_cast; ring
      · apply H.q_mono (hu (i + 1) (by omega)).1 _ (hu (i + 1 + 1) (by omega)).2
        push_cast; nlinarith)
    (by
      intro hk
      have e : s.n - 1 - 1 + 1 = s.n - 1 := by omega
      simp only [e]
      apply hR _ _ (hQlo (s.n - 1) (by omega)) (hQhi (s.n - 1) (by omega)) le_rfl
      rw [hPQ (s.n - 1) (by omega)]
      have : ((s.n - 1 : ℕ) : ℝ) = (s.n : ℝ) - 1 := by
        rw [Nat.cast_sub hn]; simp
      rw [this]; linarith)
  exact (isChain_iff_pairs R _).1 hchain

theorem sum_map_mul_left (l : List ℝ) (c : ℝ) : (l.map (fun v => c * v)).sum = c * l.sum := by
  induction l with
  | nil => simp
  | cons a t ih => simp [ih]; ring

/-- mean-valued classes under `H`: every stored class value is the parent's mean over its class,
`(E b − E a) / (P b − P a)` with `P b − P a = (P upper − P lower)/n` -/
theorem eqProp_class_means (par : Parent ℝ) (s s' : DD ℝ) (hn : 1 ≤ s.n) (hp : 0 ≤ s.prec) (hl : s.dom.lo ≤ s.dom.hi)
    (H : ParentOK par s.dom.lo s.dom.hi) (hne : par.P s.dom.hi ≠ par.P s.dom.lo) (hmed : s.median = false)
    (hr : resolved par s = true) (h : eqProp par s = .ok s') :
    s'.cats = (pairs s'.allBounds).map (fun p => (par.E p.2 - par.E p.1) / (par.P p.2 - par.P p.1)) := by
  have hne' : Scalar.eqb (par.P s.dom.hi) (par.P s.dom.lo) = false := by
    cases hh : Scalar.eqb (par.P s.dom.hi) (par.P s.dom.lo) with
    | false => rfl
    | true => exact absurd ((ScalarReal.eqb_iff _ _).1 hh) hne
  have hecpos := ec_pos par _ _ s.n hn H hl hne
  have hcl := eqPropRaw_classes par s hn hl H hne
  have hd := eqProp_resolved par s s' hp hr h
  obtain ⟨m, _, hs'⟩ := eqProp_ok par s s' h
  have hb : s'.allBounds = s.dom.lo :: (eqPropRaw par s).1 ++ [s.dom.hi] := by rw [hs']; rfl
  have e : (eqPropRaw par s).2 = (pairs (s.dom.lo :: (eqPropRaw par s).1 ++ [s.dom.hi])).map
      (meanValue par ((par.P s.dom.hi - par.P s.dom.lo) / (s.n : ℝ))) := by
    unfold eqPropRaw
    simp only [hne', Bool.not_false, if_true, hmed, Bool.false_eq_true, if_false, nat_eq]
  have hc : s'.cats = (eqPropRaw par s).2 := by
    simp only [DD.cats, TMap.keys, hd, List.map_map]
    exact List.map_id' _
  rw [hc, hb, e]
  apply List.map_congr_left
  intro p hpm
  have := hcl p hpm
  unfold meanValue
  simp only
  have h1 : ¬ ((par.E p.2 - par.E p.1) / ((par.P s.dom.hi - par.P s.dom.lo) / (s.n : ℝ)) < p.1) := by
    rw [not_lt, le_div_iff₀ hecpos]; exact this.2.1
  have h2 : ¬ (p.2 < (par.E p.2 - par.E p.1) / ((par.P s.dom.hi - par.P s.dom.lo) / (s.n : ℝ))) := by
    rw [not_lt, div_le_iff₀ hecpos]; exact this.2.2
  have g1 : Scalar.geb ((par.E p.2 - par.E p.1) / ((par.P s.dom.hi - par.P s.dom.lo) / (s.n : ℝ))) p.1 = true := by
    rw [ScalarReal.geb_iff]; exact not_lt.1 h1
  have g2 : Scalar.leb ((par.E p.2 - par.E p.1) / ((par.P s.dom.hi - par.P s.dom.lo) / (s.n : ℝ))) p.2 = true := by
    rw [ScalarReal.leb_iff]; exact not_lt.1 h2
  simp only [g1, g2, Bool.and_self, Bool.not_true, Bool.false_eq_true, if_false]
  rw [this.1]

/-- mean-valued classes: the discrete mean is the parent's mean over the domain -/
theorem eqProp_mean (par : Parent ℝ) (s s' : DD ℝ) (hn : 1 ≤ s.n) (hp : 0 ≤ s.prec) (hl : s.dom.lo ≤ s.dom.hi)
    (H : ParentOK par s.dom.lo s.dom.hi) (hne : par.P s.dom.hi ≠ par.P s.dom.lo) (hmed : s.median = false)
    (hr : resolved par s = true) (h : eqProp par s = .ok s') :
    discreteMean s' = (par.E s.dom.hi - par.E s.dom.lo) / (par.P s.dom.hi - par.P s.dom.lo) := by
  have hn' : (0 : ℝ) < s.n := by exact_mod_cast hn
  have hne' : Scalar.eqb (par.P s.dom.hi) (par.P s.dom.lo) = false := by
    cases hh : Scalar.eqb (par.P s.dom.hi) (par.P s.dom.lo) with
    | false => rfl
    | true => exact absurd ((ScalarReal.eqb_iff _ _).1 hh) hne
  have hecpos := ec_pos par _ _ s.n hn H hl hne
  have hcl := eqPropRaw_classes par s hn hl H hne
  have hd := eqProp_resolved par s s' hp hr h
  -- the raw values are the exact class means
  have hraw : (eqPropRaw par s).2 = (pairs (s.dom.lo :: (eqPropRaw par s).1 ++ [s.dom.hi])).map
      (fun p => (par.E p.2 - par.E p.1) / ((par.P s.dom.hi - par.P s.dom.lo) / (s.n : ℝ))) := by
    have e : (eqPropRaw par s).2 = (pairs (s.dom.lo :: (eqPropRaw par s).1 ++ [s.dom.hi])).map
        (meanValue par ((par.P s.dom.hi - par.P s.dom.lo) / (s.n : ℝ))) := by
      unfold eqPropRaw
      simp only [hne', Bool.not_false, if_true, hmed, Bool.false_eq_true, if_false, nat_eq]
    rw [e]
    apply List.map_congr_left
    intro p hpm
    have := hcl p hpm
    unfold meanValue
    simp only
    have h1 : ¬ ((par.E p.2 - par.E p.1) / ((par.P s.dom.hi - par.P s.dom.lo) / (s.n : ℝ)) < p.1) := by
      rw [not_lt, le_div_iff₀ hecpos]; exact this.2.1
    have h2 : ¬ (p.2 < (par.E p.2 - par.E p.1) / ((par.P s.dom.hi - par.P s.dom.lo) / (s.n : ℝ))) := by
      rw [not_lt, div_le_iff₀ hecpos]; exact this.2.2
    have g1 : Scalar.geb ((par.E p.2 - par.E p.1) / ((par.P s.dom.hi - par.P s.dom.lo) / (s.n : ℝ))) p.1 = true := by
      rw [ScalarReal.geb_iff]; exact not_lt.1 h1
    have g2 : Scalar.leb ((par.E p.2 - par.E p.1) / ((par.P s.dom.hi - par.P s.dom.lo) / (s.n : ℝ))) p.2 = true := by
      rw [ScalarReal.leb_iff]; exact not_lt.1 h2
    simp only [g1, g2, Bool.and_self, Bool.not_true, Bool.false_eq_true, if_false]
  unfold discreteMean
  rw [sumL_eq, hd, hraw]
  simp only [List.map_map]
  have e2 : ((fun kv : ℝ × ℝ => kv.2 * kv.1) ∘ (fun v => (v, 1 / (s.n : ℝ))) ∘
      fun p : ℝ × ℝ => (par.E p.2 - par.E p.1) / ((par.P s.dom.hi - par.P s.dom.lo) / (s.n : ℝ))) =
      fun p => (1 / (par.P s.dom.hi - par.P s.dom.lo)) * (par.E p.2 - par.E p.1) := by
    funext p
    have hc : par.P s.dom.hi - par.P s.dom.lo ≠ 0 := sub_ne_zero.2 hne
    simp only [Function.comp]
    field_simp
  rw [e2]
  have e3 : (List.map (fun p : ℝ × ℝ => 1 / (par.P s.dom.hi - par.P s.dom.lo) * (par.E p.2 - par.E p.1))
      (pairs (s.dom.lo :: (eqPropRaw par s).1 ++ [s.dom.hi]))) =
      ((pairs (s.dom.lo :: (eqPropRaw par s).1 ++ [s.dom.hi])).map (fun p : ℝ × ℝ => par.E p.2 - par.E p.1)).map
        (fun x => (1 / (par.P s.dom.hi - par.P s.dom.lo)) * x) := by
    rw [List.map_map]; rfl
  rw [e3, sum_map_mul_left]
  rw [show s.dom.lo :: (eqPropRaw par s).1 ++ [s.dom.hi] = s.dom.lo :: ((eqPropRaw par s).1 ++ [s.dom.hi]) from rfl]
  rw [pairs_telescope par.E, getLast_bounds]
  ring

end Bpp.Discretize
