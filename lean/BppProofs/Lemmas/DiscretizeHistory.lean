import BppProofs.Lemmas.DiscretizeLookup
import BppProofs.Lemmas.DiscretizeMedian
/-!
C09: validity of a discretised distribution as an invariant of every history of operations.
-/
namespace Bpp.Discretize
open Bpp

/-- the state about to be discretised -/
structure Pre (s : DD ℝ) : Prop where
  n_pos : 1 ≤ s.n
  prec_nonneg : 0 ≤ s.prec
  dom_ordered : s.dom.lo ≤ s.dom.hi

/-- a valid partition: the clauses that hold after every discretisation -/
structure Valid (s : DD ℝ) : Prop where
  n_classes : nClassesOk s = true
  probs_nonneg : probsNonneg s = true
  probs_sum_one : probsSumOne 0 s = true
  bounds : boundsMonoInDom s = true
  values : valuesStrictMono s = true
  sorted : TMap.Sorted s.prec s.dist

theorem eqProp_valid (par : Parent ℝ) (s s' : DD ℝ) (hs : Pre s) (H : ParentOK par s.dom.lo s.dom.hi)
    (h : eqProp par s = .ok s') : Valid s' := by
  obtain ⟨h1, h2, h3, h4, h5, h6, h7, _⟩ := eqProp_map par s s' hs.n_pos hs.prec_nonneg h
  have hn' : (0 : ℝ) < s.n := by exact_mod_cast hs.n_pos
  have hv : s'.probs = List.replicate s.n (1 / (s.n : ℝ)) := by
    apply List.eq_replicate_iff.2
    refine ⟨by simp [DD.probs, TMap.vals, h2], ?_⟩
    simp only [DD.probs, TMap.vals, List.mem_map]
    rintro p ⟨e, he, rfl⟩; exact h3 e he
  refine ⟨?_, ?_, ?_, ?_, ?_, by rw [h7]; exact h1⟩
  · have := hs.n_pos
    simp only [nClassesOk, Bool.and_eq_true, beq_iff_eq, h2, h4, h5, true_and]; omega
  · simp only [probsNonneg, List.all_eq_true, ScalarReal.leb_iff, ScalarReal.zero_eq, hv, List.mem_replicate]
    rintro p ⟨_, rfl⟩; positivity
  · simp only [probsSumOne, ScalarReal.leb_iff, sumL_eq, ScalarReal.abs_eq, ScalarReal.one_eq, hv,
      List.sum_replicate, nsmul_eq_mul]
    rw [show (s.n : ℝ) * (1 / (s.n : ℝ)) = 1 by field_simp]; simp
  · obtain ⟨m, _, rfl⟩ := eqProp_ok par s s' h
    simp only [boundsMonoInDom, nondecr_iff, DD.allBounds]
    exact eqPropRaw_bounds_chain par s hs.n_pos hs.dom_ordered H
  · exact TMap.keys_strict_of_sorted s.prec hs.prec_nonneg _ h1

/-- fields that a discretisation does not touch -/
def SameCfg (s s' : DD ℝ) : Prop :=
  s'.n = s.n ∧ s'.dom = s.dom ∧ s'.prec = s.prec ∧ s'.median = s.median ∧ s'.scheme = s.scheme

theorem eqInt_valid' (par : Parent ℝ) (s r : DD ℝ) (hs : Pre s) (H : ParentOK par s.dom.lo s.dom.hi)
    (h : eqInt par s = .ok r) : Valid r ∧ SameCfg s r := by
  obtain ⟨a, b, c, d, e, g, e5, e6, e7, e8, e9⟩ :=
    eqInt_partition par s r hs.n_pos hs.prec_nonneg hs.dom_ordered H.mono h
  exact ⟨⟨a, b, c, d, e, by rw [e7]; exact g⟩, e5, e6, e7, e8, e9⟩

/-- `discretize()` with any of the three schemes: a valid partition, configuration untouched.
(Since the repair of `discretizeEqualIntervals` no side condition on the width of the classes or on
the mass of the domain is left.) -/
theorem discretize_valid (par : Parent ℝ) (s s' : DD ℝ) (hs : Pre s) (H : ParentOK par s.dom.lo s.dom.hi)
    (h : discretize par s = .ok s') : Valid s' ∧ SameCfg s s' := by
  unfold discretize at h
  have hn0 : (s.n == 0) = false := by have := hs.n_pos; simp; omega
  simp only [hn0, Bool.false_eq_true, if_false] at h
  by_cases h1 : s.scheme = 1
  · simp only [h1, beq_self_eq_true, if_true] at h
    obtain ⟨_, _, _, _, e5, e6, e7, e8, e9⟩ := eqProp_map par s s' hs.n_pos hs.prec_nonneg h
    exact ⟨eqProp_valid par s s' hs H h, e5, e6, e7, e8, e9⟩
  · have h1' : (s.scheme == 1) = false := by simpa using h1
    simp only [h1', Bool.false_eq_true, if_false] at h
    by_cases h2 : s.scheme = 2
    · simp only [h2, beq_self_eq_true, if_true] at h
      exact eqInt_valid' par s s' hs H h
    · have h2' : (s.scheme == 2) = false := by simpa using h2
      simp only [h2', Bool.false_eq_true, if_false] at h
      cases he : eqProp par s with
      | error e => simp [he, bind, Except.bind] at h
      | ok s1 =>
        simp only [he, bind, Except.bind] at h
        obtain ⟨_, _, _, _, e5, e6, e7, e8, e9⟩ := eqProp_map par s s1 hs.n_pos hs.prec_nonneg he
        split at h
        · have hs1 : Pre s1 := ⟨by rw [e5]; exact hs.n_pos, by rw [e7]; exact hs.prec_nonneg, by rw [e6]; exact hs.dom_ordered⟩
          have H1 : ParentOK par s1.dom.lo s1.dom.hi := by rw [e6]; exact H
          obtain ⟨hv, f5, f6, f7, f8, f9⟩ := eqInt_valid' par s1 s' hs1 H1 h
          exact ⟨hv, by rw [f5, e5], by rw [f6, e6], by rw [f7, e7], by rw [f8, e8], by rw [f9, e9]⟩
        · injection h with h; subst h
          exact ⟨eqProp_valid par s s1 hs H he, e5, e6, e7, e8, e9⟩

/-! ## the generic machine: histories of operations -/

/-- operations on a discretised distribution with parent `par`: class-count change, median toggle,
restriction, an accepted parameter update (new parent, possibly a new domain), re-discretisation -/
inductive Op where
  | setN (n : Nat)
  | setMedian (b : Bool)
  | restrict (c : Interval ℝ)
  | update (par : Parent ℝ) (dom : Dom ℝ)
  | rediscretize

abbrev MSt := Parent ℝ × DD ℝ

/-- the state an operation hands to `discretize` (`none`: nothing is re-discretised) -/
noncomputable def target (st : MSt) : Op → Except Err (Option MSt)
  | .setN n => .ok (if st.2.n != n then some (st.1, { st.2 with n := n }) else none)
  | .setMedian b => .ok (if st.2.median != b then some (st.1, { st.2 with median := b }) else none)
  | .restrict c =>
    match restrictDom st.2.dom c with
    | .ok (d, true) => .ok (some (st.1, { st.2 with dom := d }))
    | .ok (_, false) => .ok none
    | .error .bpp => .ok none      -- refused: the distribution is left unchanged
    | .error e => .error e
  | .update par dom => .ok (some (par, { st.2 with dom := dom }))
  | .rediscretize => .ok (some st)

noncomputable def step (st : MSt) (op : Op) : Except Err MSt := do
  match ← target st op with
  | none => return st
  | some (p, s0) => let s' ← discretize p s0; return (p, s')

noncomputable def run : MSt → List Op → Except Err MSt
  | st, [] => .ok st
  | st, op :: ops => do let st' ← step st op; run st' ops

/-- the machine is the model: its steps are the model's operations -/
theorem step_setN (st : MSt) (n : Nat) : step st (.setN n) = (setNumberOfCategories st.1 st.2 n).map (fun d => (st.1, d)) := by
  simp only [step, target, setNumberOfCategories, bind, Except.bind]
  split <;> rename_i h <;> split at h <;> simp_all [Except.map, pure, Except.pure] <;> (cases discretize st.1 { st.2 with n := n } <;> rfl)

theorem step_setMedian (st : MSt) (b : Bool) : step st (.setMedian b) = (setMedian st.1 st.2 b).map (fun d => (st.1, d)) := by
  simp only [step, target, setMedian, bind, Except.bind]
  split <;> rename_i h <;> split at h <;> simp_all [Except.map, pure, Except.pure] <;> (cases discretize st.1 { st.2 with median := b } <;> rfl)

theorem step_rediscretize (st : MSt) : step st .rediscretize = (discretize st.1 st.2).map (fun d => (st.1, d)) := by
  simp only [step, target, bind, Except.bind]
  cases discretize st.1 st.2 <;> rfl

/-- admissibility of an operation: class counts are positive and an update brings a parent
satisfying `H` on an ordered domain -/
def Adm (_st : MSt) (op : Op) : Prop :=
  match op with
  | .setN n => 1 ≤ n
  | .update par dom => dom.lo ≤ dom.hi ∧ ParentOK par dom.lo dom.hi
  | _ => True

def AllAdm : MSt → List Op → Prop
  | _, [] => True
  | st, op :: ops => Adm st op ∧ ∀ st', step st op = .ok st' → AllAdm st' ops

/-- the invariant -/
structure Good (st : MSt) : Prop where
  pre : Pre st.2
  parent : ParentOK st.1 st.2.dom.lo st.2.dom.hi
  valid : Valid st.2

theorem step_good (st st' : MSt) (op : Op) (hg : Good st) (ha : Adm st op) (h : step st op = .ok st') : Good st' := by
  unfold step at h
  cases ht : target st op with
  | error e => simp [ht, bind, Except.bind] at h
  | ok t =>
    cases t with
    | none =>
      simp only [ht, bind, Except.bind, pure, Except.pure] at h
      injection h with h; subst h; exact hg
    | some ps =>
      obtain ⟨p, s0⟩ := ps
      simp only [ht, bind, Except.bind] at h
      cases hd : discretize p s0 with
      | error e => simp [hd] at h
      | ok s' =>
        simp only [hd, pure, Except.pure] at h
        injection h with h; subst h
        -- the handed state satisfies Pre and H
        have key : Pre s0 ∧ ParentOK p s0.dom.lo s0.dom.hi := by
          cases op with
          | setN n =>
            simp only [target] at ht
            injection ht with ht
            split at ht
            · injection ht with ht; injection ht with h1 h2; subst h1; subst h2
              exact ⟨⟨ha, hg.pre.prec_nonneg, hg.pre.dom_ordered⟩, hg.parent⟩
            · simp at ht
          | setMedian b =>
            simp only [target] at ht
            injection ht with ht
            split at ht
            · injection ht with ht; injection ht with h1 h2; subst h1; subst h2
              exact ⟨⟨hg.pre.n_pos, hg.pre.prec_nonneg, hg.pre.dom_ordered⟩, hg.parent⟩
            · simp at ht
          | restrict c =>
            simp only [target] at ht
            split at ht
            · rename_i d hr
              injection ht with ht; injection ht with ht; injection ht with h1 h2; subst h1; subst h2
              obtain ⟨_, hlo, h3, h4, _, _⟩ := (restrictDom_spec st.2.dom c).2 d true hr
              exact ⟨⟨hg.pre.n_pos, hg.pre.prec_nonneg, hlo⟩, hg.parent.restrict h3 hlo h4⟩
            · simp at ht
            · simp at ht
            · simp at ht
          | update par dom =>
            simp only [target] at ht
            injection ht with ht; injection ht with ht; injection ht with h1 h2; subst h1; subst h2
            exact ⟨⟨hg.pre.n_pos, hg.pre.prec_nonneg, ha.1⟩, ha.2⟩
          | rediscretize =>
            simp only [target] at ht
            injection ht with ht; injection ht with ht; subst ht
            exact ⟨hg.pre, hg.parent⟩
        obtain ⟨hv, e5, e6, e7, _, _⟩ := discretize_valid p s0 s' key.1 key.2 hd
        exact ⟨⟨by rw [e5]; exact key.1.n_pos, by rw [e7]; exact key.1.prec_nonneg, by rw [e6]; exact key.1.dom_ordered⟩,
          by rw [e6]; exact key.2, hv⟩

theorem run_good (st st' : MSt) (ops : List Op) (hg : Good st) (ha : AllAdm st ops) (h : run st ops = .ok st') : Good st' := by
  induction ops generalizing st with
  | nil => simp [run] at h; subst h; exact hg
  | cons op ops ih =>
    simp only [run, bind, Except.bind] at h
    cases hs : step st op with
    | error e => simp [hs] at h
    | ok st1 =>
      simp only [hs] at h
      exact ih st1 (step_good st st1 op hg ha.1 hs) (ha.2 st1 hs) h

end Bpp.Discretize
