import BppProofs.Lemmas.MatrixOps2
import BppProofs.Lemmas.ScalarReal
import Mathlib.Algebra.BigOperators.Fin
import Mathlib.Data.Matrix.Mul
import Mathlib.Algebra.BigOperators.Ring.Finset
/-! Helper lemmas for C04: the exact-arithmetic (`ℝ`) reading — sums, Mathlib matrices, integer
power and power series. -/
namespace Bpp.Mx
open Bpp Store

/-! exact-arithmetic (`ℝ`) reading of the specification vocabulary -/

@[simp] theorem add_real (x y : ℝ) : (Add.add x y : ℝ) = x + y := rfl

theorem sumTo_eq_sum (n : Nat) (t : Nat → ℝ) : Spec.sumTo n t = ∑ k ∈ Finset.range n, t k := by
  induction n with
  | zero => simp [Spec.sumTo]
  | succ n ih => rw [sumTo_succ, ih, Finset.sum_range_succ]

theorem accFrom_eq_sum (x : ℝ) (n : Nat) (t : Nat → ℝ) : accFrom x n t = x + ∑ k ∈ Finset.range n, t k := by
  induction n with
  | zero => simp [accFrom]
  | succ n ih => rw [accFrom_succ, ih, Finset.sum_range_succ]; ring

/-- the leading `r × c` block of an entry function as a Mathlib matrix -/
def toMat (r c : Nat) (f : Nat → Nat → ℝ) : Matrix (Fin r) (Fin c) ℝ := fun i j => f i.val j.val

theorem mult_toMat (r n c : Nat) (a b : Nat → Nat → ℝ) :
    toMat r c (Spec.mult a b n) = toMat r n a * toMat n c b := by
  ext i j
  simp only [toMat, Spec.mult, sumTo_eq_sum, Matrix.mul_apply]
  rw [Finset.sum_range]

theorem identity_toMat (n : Nat) : toMat n n (Spec.identity : Nat → Nat → ℝ) = 1 := by
  ext i j
  simp only [toMat, Spec.identity, Matrix.one_apply, Fin.ext_iff]
  split <;> simp

theorem transpose_toMat (r c : Nat) (a : Nat → Nat → ℝ) : toMat c r (Spec.transpose a) = (toMat r c a).transpose := by
  ext i j; rfl

theorem Store.Holds.entry_eq {S : Store ℝ} {r c : Nat} {g : Nat → Nat → ℝ} (h : S.Holds r c g) {i j : Nat} (hi : i < r) (hj : j < c) :
    S.entry i j = g i j := by
  simp [entry, h.2.2 i j hi hj]

theorem shape_sq (k : Kind) (n : Nat) : k.shape n n = (n, n) := by
  cases k <;> simp [Kind.shape] <;> omega

theorem Store.Holds.dims_sq {S : Store ℝ} {n : Nat} {g : Nat → Nat → ℝ} (h : S.Holds n n g) : S.nrows = n ∧ S.ncols = n := by
  have := h.2.1
  rw [shape_sq] at this
  exact ⟨(Prod.mk.inj this).1, (Prod.mk.inj this).2⟩

theorem Store.Holds.toMat_entry {S : Store ℝ} {r c : Nat} {g : Nat → Nat → ℝ} (h : S.Holds r c g) :
    toMat r c S.entry = toMat r c g := by
  ext i j; exact h.entry_eq i.isLt j.isLt

/-- `S` holds the `n × n` matrix `X` -/
def HoldsSq (S : Store ℝ) (n : Nat) (X : Matrix (Fin n) (Fin n) ℝ) : Prop :=
  ∃ g, S.Holds n n g ∧ toMat n n g = X

theorem mult_holdsSq {A B : Store ℝ} {n : Nat} {X Y : Matrix (Fin n) (Fin n) ℝ} (hA : HoldsSq A n X) (hB : HoldsSq B n Y)
    (O : Store ℝ) : ∃ O', mult A B O = .ok O' ∧ O'.kind = O.kind ∧ HoldsSq O' n (X * Y) := by
  obtain ⟨ga, ha, ea⟩ := hA
  obtain ⟨gb, hb, eb⟩ := hB
  obtain ⟨ar, ac⟩ := ha.dims_sq
  obtain ⟨br, bc⟩ := hb.dims_sq
  obtain ⟨O', e, k, H⟩ := mult_holds ha.1 hb.1 O (by rw [ac, br])
  rw [ar, bc, ac] at H
  exact ⟨O', e, k, _, H, by rw [mult_toMat, ha.toMat_entry, hb.toMat_entry, ea, eb]⟩

theorem copy_holdsSq {A : Store ℝ} {n : Nat} {X : Matrix (Fin n) (Fin n) ℝ} (hA : HoldsSq A n X) (O : Store ℝ) :
    ∃ O', copy A O = .ok O' ∧ O'.kind = O.kind ∧ HoldsSq O' n X := by
  obtain ⟨ga, ha, ea⟩ := hA
  obtain ⟨ar, ac⟩ := ha.dims_sq
  obtain ⟨O', e, k, H⟩ := copy_holds ha.1 O
  rw [ar, ac] at H
  exact ⟨O', e, k, _, H, by rw [ha.toMat_entry, ea]⟩

theorem getId_holdsSq (n : Nat) (O : Store ℝ) : ∃ O', getId n O = .ok O' ∧ O'.kind = O.kind ∧ HoldsSq O' n 1 := by
  obtain ⟨O', e, k, H⟩ := getId_holds n O
  exact ⟨O', e, k, _, H, identity_toMat n⟩

theorem holdsSq_self {A : Store ℝ} (hA : A.WF) (hsq : A.nrows = A.ncols) : HoldsSq A A.nrows (toMat A.nrows A.nrows A.entry) := by
  have h := holds_self hA (dims_shape_self A)
  rw [← hsq] at h
  exact ⟨_, h, rfl⟩

/-- `pow` computes the `p`-th power, for every `p` (the halving recursion of the source) -/
theorem pow_holdsSq : ∀ (p : Nat) {A : Store ℝ} {n : Nat} {X : Matrix (Fin n) (Fin n) ℝ} (_ : HoldsSq A n X) (O : Store ℝ),
    ∃ O', pow A p O = .ok O' ∧ O'.kind = O.kind ∧ HoldsSq O' n (X ^ p) := by
  intro p
  induction p using Nat.strong_induction_on with
  | _ p ih =>
    intro A n X hA O
    obtain ⟨ga, ha, ea⟩ := hA
    obtain ⟨ar, ac⟩ := ha.dims_sq
    have hA : HoldsSq A n X := ⟨ga, ha, ea⟩
    have hsq : ¬ A.nrows ≠ A.ncols := by rw [ar, ac]; simp
    rw [pow.eq_def]
    rw [if_neg hsq]
    match p with
    | 0 =>
      simp only [pow_zero]
      rw [ar]; exact getId_holdsSq n O
    | 1 => simp only [pow_one]; exact copy_holdsSq hA O
    | 2 => simp only [pow_two]; exact mult_holdsSq hA hA O
    | q + 3 =>
      simp only
      by_cases hev : (q + 3) % 2 = 0
      · rw [if_pos hev]
        obtain ⟨tmp, e1, _, h1⟩ := ih ((q + 3) / 2) (by omega) hA (Store.empty A.kind)
        obtain ⟨O', e2, k2, h2⟩ := ih 2 (by omega) h1 O
        refine ⟨O', by simp only [e1, e2], k2, ?_⟩
        have : X ^ (q + 3) = (X ^ ((q + 3) / 2)) ^ 2 := by
          rw [← pow_mul]; congr 1; omega
        rw [this]; exact h2
      · rw [if_neg hev]
        obtain ⟨tmp, e1, _, h1⟩ := ih ((q + 3 - 1) / 2) (by omega) hA (Store.empty A.kind)
        obtain ⟨O1, e2, k2, h2⟩ := mult_holdsSq h1 h1 O
        obtain ⟨tmp2, e3, _, h3⟩ := mult_holdsSq hA h2 tmp
        obtain ⟨O', e4, k4, h4⟩ := copy_holdsSq h3 O1
        refine ⟨O', by simp only [e1, e2, e3, e4], by rw [k4, k2], ?_⟩
        have : X ^ (q + 3) = X * (X ^ ((q + 3 - 1) / 2) * X ^ ((q + 3 - 1) / 2)) := by
          rw [← pow_add, ← pow_succ']; congr 1; omega
        rw [this]; exact h4

theorem look_tabulate (n : Nat) (f : Nat → Nat → ℝ) {i j : Nat} (hi : i < n) (hj : j < n) :
    Spec.look (Spec.tabulate n f) i j = f i j := by
  simp [Spec.look, Spec.tabulate, hi, hj]

theorem specPow_toMat (a : Nat → Nat → ℝ) (n p : Nat) : toMat n n (Spec.pow a n p) = (toMat n n a) ^ p := by
  induction p with
  | zero =>
    rw [pow_zero, ← identity_toMat]
    ext i j
    simp only [toMat, Spec.pow, Spec.powTab]
    exact look_tabulate n _ i.isLt j.isLt
  | succ p ih =>
    rw [pow_succ, ← ih, ← mult_toMat]
    ext i j
    simp only [toMat, Spec.pow, Spec.powTab]
    exact look_tabulate n _ i.isLt j.isLt

theorem HoldsSq.holds {S : Store ℝ} {n : Nat} {f : Nat → Nat → ℝ} (h : HoldsSq S n (toMat n n f)) : S.Holds n n f := by
  obtain ⟨g, hg, e⟩ := h
  exact hg.congr (fun i j hi hj => congrFun (congrFun e ⟨i, hi⟩) ⟨j, hj⟩)

/-- `pow` returns `A^p` entry by entry -/
theorem pow_holds {A : Store ℝ} (hA : A.WF) (hsq : A.nrows = A.ncols) (p : Nat) (O : Store ℝ) :
    ∃ O', pow A p O = .ok O' ∧ O'.kind = O.kind ∧ O'.Holds A.nrows A.nrows (Spec.pow A.entry A.nrows p) := by
  obtain ⟨O', e, k, h⟩ := pow_holdsSq p (holdsSq_self hA hsq) O
  rw [← specPow_toMat] at h
  exact ⟨O', e, k, h.holds⟩

theorem pow_nonconformable {A : Store ℝ} (hsq : A.nrows ≠ A.ncols) (p : Nat) (O : Store ℝ) :
    pow A p O = .error .dimension := by
  rw [pow.eq_def, if_pos hsq]

/-- `Taylor`: the vector of powers `A^0 … A^p`, each row-stored -/
theorem taylor_holds {A : Store ℝ} (hA : A.WF) (hsq : A.nrows = A.ncols) (p : Nat) :
    ∃ v : Array (Store ℝ), taylor A p = .ok v ∧ v.size = p + 1 ∧
      ∀ q (h : q < v.size), v[q].kind = .row ∧ v[q].Holds A.nrows A.nrows (Spec.pow A.entry A.nrows q) := by
  have hX := holdsSq_self hA hsq
  suffices hs : ∃ v : Array (Store ℝ), taylor A p = .ok v ∧ v.size = p + 1 ∧
      ∀ q (h : q < v.size), v[q].kind = .row ∧ HoldsSq v[q] A.nrows ((toMat A.nrows A.nrows A.entry) ^ q) by
    obtain ⟨v, e, sz, hv⟩ := hs
    refine ⟨v, e, sz, fun q h => ⟨(hv q h).1, ?_⟩⟩
    have := (hv q h).2
    rw [← specPow_toMat] at this
    exact this.holds
  unfold taylor
  rw [if_neg (by rw [← hsq]; simp)]
  obtain ⟨v0, e0, k0, h0⟩ := getId_holdsSq A.nrows (Store.empty .row : Store ℝ)
  simp only [e0]
  by_cases hp : p = 0
  · rw [if_pos hp]
    refine ⟨#[v0], rfl, by simp [hp], ?_⟩
    intro q h
    have : q = 0 := by simpa using h
    subst this
    simp only [pow_zero]
    exact ⟨by simpa using k0, h0⟩
  · rw [if_neg hp]
    obtain ⟨v1, e1, k1, h1⟩ := copy_holdsSq hX (Store.empty .row : Store ℝ)
    simp only [e1]
    obtain ⟨v, ev, hv⟩ := loopM_inv
      (fun t (vO : Array (Store ℝ)) => vO.size = t + 2 ∧
        ∀ q (h : q < vO.size), vO[q].kind = .row ∧ HoldsSq vO[q] A.nrows ((toMat A.nrows A.nrows A.entry) ^ q))
      (p - 1) (taylorStep A) #[v0, v1]
      ⟨rfl, by
        intro q h
        have : q = 0 ∨ q = 1 := by simp at h; omega
        rcases this with rfl | rfl
        · simp only [pow_zero]; exact ⟨by simpa using k0, h0⟩
        · simp only [pow_one]; exact ⟨by simpa using k1, h1⟩⟩
      (by
        intro t vO ht ⟨hsz, hq⟩
        have hlt : t + 1 < vO.size := by omega
        obtain ⟨nxt, e2, k2, h2⟩ := mult_holdsSq (hq (t + 1) hlt).2 hX (Store.empty .row : Store ℝ)
        refine ⟨vO.push nxt, by simp only [taylorStep, vget_ok hlt, e2], by simp [hsz], ?_⟩
        intro q h
        by_cases hq' : q < vO.size
        · rw [Array.getElem_push_lt hq']; exact hq q hq'
        · have : q = vO.size := by simp at h; omega
          subst this
          rw [Array.getElem_push_eq]
          refine ⟨by simpa using k2, ?_⟩
          rw [hsz, show t + 2 = (t + 1) + 1 from rfl, pow_succ]
          exact h2)
    exact ⟨v, ev, by rw [hv.1]; omega, hv.2⟩

end Bpp.Mx
