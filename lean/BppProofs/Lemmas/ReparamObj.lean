import BppModel.ReparamObj
import BppProofs.Lemmas.Reparam
/-!
Helper lemmas for C11: the object-level wrapper model (`BppModel/ReparamObj.lean`) read at `ℝ`, and
its refinement to the slot model (`BppModel/Reparam.lean`).
-/
namespace Bpp.ReparamObj
open Bpp Bpp.Scalar Bpp.ScalarReal Bpp.Transform Bpp.Reparam

/-! ### lookups by name -/

theorem findP_some {n : Nat} {l : List (FParam ℝ)} {p : FParam ℝ} (h : findP n l = some p) :
    p.name = n ∧ p ∈ l := by
  unfold findP at h
  exact ⟨by simpa using List.find?_some h, List.mem_of_find?_eq_some h⟩

theorem findP_cons (n : Nat) (p : FParam ℝ) (l : List (FParam ℝ)) :
    findP n (p :: l) = if p.name = n then some p else findP n l := by
  unfold findP
  by_cases h : p.name = n <;> simp [h]

theorem findP_isSome_of_mem {n : Nat} {l : List (FParam ℝ)} (h : n ∈ l.map (·.name)) :
    ∃ p, findP n l = some p := by
  induction l with
  | nil => simp at h
  | cons p l ih =>
    rw [findP_cons]
    by_cases hp : p.name = n
    · exact ⟨p, by simp [hp]⟩
    · simp only [hp, if_false]
      simp only [List.map_cons, List.mem_cons] at h
      rcases h with h | h
      · exact absurd h.symm hp
      · exact ih h

theorem findP_none_of_not_mem {n : Nat} {l : List (FParam ℝ)} (h : n ∉ l.map (·.name)) :
    findP n l = none := by
  induction l with
  | nil => rfl
  | cons p l ih =>
    simp only [List.map_cons, List.mem_cons, not_or] at h
    rw [findP_cons, if_neg (fun e => h.1 e.symm)]
    exact ih h.2

/-- in a list without repeated names a parameter is the one its name finds -/
theorem findP_self_of_nodup {l : List (FParam ℝ)} (hn : (l.map (·.name)).Nodup) {p : FParam ℝ}
    (hp : p ∈ l) : findP p.name l = some p := by
  induction l with
  | nil => simp at hp
  | cons q l ih =>
    simp only [List.map_cons, List.nodup_cons] at hn
    rw [findP_cons]
    simp only [List.mem_cons] at hp
    rcases hp with rfl | hp
    · simp
    · have : q.name ≠ p.name := by
        intro e
        exact hn.1 (by rw [e]; exact List.mem_map.mpr ⟨p, hp, rfl⟩)
      rw [if_neg this]
      exact ih hn.2 hp

theorem findP_map {g : FParam ℝ → FParam ℝ} (hg : ∀ p, (g p).name = p.name) (n : Nat)
    (l : List (FParam ℝ)) : findP n (l.map g) = (findP n l).map g := by
  induction l with
  | nil => rfl
  | cons p l ih =>
    simp only [List.map_cons, findP_cons, hg]
    by_cases h : p.name = n <;> simp [h, ih]

theorem lookupV_isSome {n : Nat} {pl : List (Nat × ℝ)} :
    (lookupV n pl).isSome = true ↔ n ∈ pl.map (·.1) := by
  unfold lookupV
  rw [Option.isSome_map, List.find?_isSome]
  constructor
  · rintro ⟨x, hx, e⟩
    exact List.mem_map.mpr ⟨x, hx, by simpa using e⟩
  · intro h
    obtain ⟨x, hx, e⟩ := List.mem_map.mp h
    exact ⟨x, hx, by simpa using e⟩

theorem lookupV_none {n : Nat} {pl : List (Nat × ℝ)} :
    lookupV n pl = none ↔ n ∉ pl.map (·.1) := by
  rw [← lookupV_isSome]
  cases lookupV n pl <;> simp

/-- the sub-list forwarded to the function finds, for a name, what `functionParameters_` finds when
the name was given, nothing otherwise -/
theorem findP_filterMap (fps : List (FParam ℝ)) (ns : List Nat) (m : Nat) :
    findP m (ns.filterMap (fun n => findP n fps)) = if m ∈ ns then findP m fps else none := by
  induction ns with
  | nil => rfl
  | cons n ns ih =>
    cases hf : findP n fps with
    | none =>
      simp only [List.filterMap_cons, hf, ih, List.mem_cons]
      by_cases e : m = n
      · subst e; simp [hf]
      · simp [e]
    | some p =>
      have hp := (findP_some hf).1
      simp only [List.filterMap_cons, hf, findP_cons, ih, List.mem_cons, hp]
      by_cases e : n = m
      · subst e; simp [hf]
      · have e' : ¬ m = n := fun x => e x.symm
        simp [e, e']

theorem subList_ok (fps : List (FParam ℝ)) :
    ∀ (ns : List Nat), (∀ n ∈ ns, ∃ p, findP n fps = some p) →
      subList fps ns = .ok (ns.filterMap (fun n => findP n fps)) := by
  intro ns
  induction ns with
  | nil => intro _; rfl
  | cons n ns ih =>
    intro h
    obtain ⟨p, hp⟩ := h n (by simp)
    have := ih (fun m hm => h m (by simp [hm]))
    simp [subList, hp, this]

/-! ### the slot view of an aligned wrapper -/

/-- `View f params fps v`: the two private lists of a wrapper are aligned (same name slot by slot),
every name is a parameter of the function `f` with the same constraint, and `v` is the list of
slots (`tp`, constraint, `fp`, function's value) -/
inductive View (f : Fn ℝ) : List (Nat × TP ℝ) → List (FParam ℝ) → W ℝ → Prop
  | nil : View f [] [] []
  | cons {p : Nat × TP ℝ} {fp q : FParam ℝ} {ps : List (Nat × TP ℝ)} {fps : List (FParam ℝ)} {v : W ℝ} :
      p.1 = fp.name → findP p.1 f.ps = some q → q.shape = fp.shape → View f ps fps v →
      View f (p :: ps) (fp :: fps)
        ({ tp := p.2, shape := fp.shape, fp := fp.value, fn := q.value } :: v)

/-- the executable view the driver computes is the one the theorems speak about -/
theorem view?_of_View {f : Fn ℝ} {ps : List (Nat × TP ℝ)} {fps : List (FParam ℝ)} {v : W ℝ}
    (h : View f ps fps v) : view? f ps fps = some v := by
  induction h with
  | nil => rfl
  | @cons p fp q ps fps v h1 h2 _ _ ih =>
    have h2' : findP fp.name f.ps = some q := h1 ▸ h2
    simp [view?, h1, h2', ih]

theorem View.names {f : Fn ℝ} {ps : List (Nat × TP ℝ)} {fps : List (FParam ℝ)} {v : W ℝ}
    (h : View f ps fps v) : ps.map (·.1) = fps.map (·.name) := by
  induction h with
  | nil => rfl
  | cons h1 _ _ _ ih => simp [h1, ih]

theorem View.length {f : Fn ℝ} {ps : List (Nat × TP ℝ)} {fps : List (FParam ℝ)} {v : W ℝ}
    (h : View f ps fps v) : v.length = ps.length := by
  induction h with
  | nil => rfl
  | cons _ _ _ _ ih => simp [ih]

theorem View.linked {f : Fn ℝ} {ps : List (Nat × TP ℝ)} {fps : List (FParam ℝ)} {v : W ℝ}
    (h : View f ps fps v) : ∀ fp ∈ fps, ∃ q, findP fp.name f.ps = some q ∧ q.shape = fp.shape := by
  induction h with
  | nil => intro fp hfp; simp at hfp
  | cons h1 h2 h3 _ ih =>
    intro fp' hfp
    simp only [List.mem_cons] at hfp
    rcases hfp with rfl | hfp
    · exact ⟨_, by rw [← h1]; exact h2, h3⟩
    · exact ih fp' hfp

/-- the wrapper's copy holds accepted values when the slots do -/
theorem View.fp_accepts {f : Fn ℝ} {ps : List (Nat × TP ℝ)} {fps : List (FParam ℝ)} {v : W ℝ}
    (h : View f ps fps v) (hinv : ∀ s ∈ v, s.shape.Accepts s.fp) :
    ∀ fp ∈ fps, fp.shape.Accepts fp.value := by
  induction h with
  | nil => intro fp hfp; simp at hfp
  | cons _ _ _ _ ih =>
    intro fp' hfp
    simp only [List.mem_cons] at hfp
    rcases hfp with rfl | hfp
    · exact hinv _ List.mem_cons_self
    · exact ih (fun s hs => hinv s (List.mem_cons_of_mem _ hs)) fp' hfp

/-! ### `setParameters`, stage by stage -/

theorem matchTP_real (pl : List (Nat × ℝ)) (p : Nat × TP ℝ) :
    matchTP pl p = (p.1, match lookupV p.1 pl with | some v => p.2.setX v | none => p.2) := by
  unfold matchTP
  cases lookupV p.1 pl with
  | none => rfl
  | some v =>
    simp only
    split_ifs with h
    · rfl
    · have : p.2.x = v := by
        by_contra hne; exact h ((neb_real _ _).mpr hne)
      rw [← this, setX_self]

/-- stage 1: the given values are matched into `parameters_` -/
theorem view_match {f : Fn ℝ} (pl : List (Nat × ℝ)) {ps : List (Nat × TP ℝ)} {fps : List (FParam ℝ)}
    {v : W ℝ} (h : View f ps fps v) :
    View f (ps.map (matchTP pl)) fps (List.zipWith matchOne v (updOf ps pl)) := by
  induction h with
  | nil => exact View.nil
  | @cons p fp q ps fps v h1 h2 h3 _ ih =>
    simp only [List.map_cons, updOf, List.zipWith_cons_cons]
    have := View.cons (p := matchTP pl p) (by rw [matchTP_real]; exact h1)
      (by rw [matchTP_real]; exact h2) h3 ih
    rw [matchOne_real]
    rw [matchTP_real] at this ⊢
    exact this

theorem view_changed {f : Fn ℝ} (pl : List (Nat × ℝ)) {ps : List (Nat × TP ℝ)} {fps : List (FParam ℝ)}
    {v : W ℝ} (h : View f ps fps v) :
    ps.any (changedTP pl) = (List.zipWith changed v (updOf ps pl)).any id := by
  induction h with
  | nil => rfl
  | @cons p fp q ps fps v _ _ _ _ ih =>
    simp only [List.any_cons, updOf, List.map_cons, List.zipWith_cons_cons, id]
    congr 1

/-- stage 2: `fireParameterChanged` over ℝ refreshes every copy and raises nothing -/
theorem view_fire {pi tiny : ℝ} (ht : 0 < tiny) {f : Fn ℝ} {ps : List (Nat × TP ℝ)}
    {fps : List (FParam ℝ)} {v : W ℝ} (h : View f ps fps v)
    (hm : ∀ s ∈ v, Matches tiny s.shape s.tp ∧ s.shape.Wide tiny) :
    ∃ fps', fireGo pi ps fps = .ok fps' ∧
      View f ps fps' (v.map (fun s => { s with fp := s.tp.getOriginal pi })) := by
  induction h with
  | nil => exact ⟨[], rfl, View.nil⟩
  | @cons p fp q ps fps v h1 h2 h3 _ ih =>
    obtain ⟨fps', e, hv'⟩ := ih (fun s hs => hm s (by simp [hs]))
    have hm0 := hm _ (List.mem_cons_self)
    have hacc : fp.shape.Accepts (p.2.getOriginal pi) := matches_accepts ht hm0.1 hm0.2
    refine ⟨{ fp with value := p.2.getOriginal pi } :: fps', ?_, ?_⟩
    · simp [fireGo, paramSetC_real _ _ _ hacc, e]
    · exact View.cons (fp := { fp with value := p.2.getOriginal pi }) h1 h2 h3 hv'

/-- the function after its `matchParametersValues`, over ℝ: a parameter found in the sub-list takes
the value given there -/
noncomputable def Fn.pushed (f : Fn ℝ) (sub : List (FParam ℝ)) : Fn ℝ :=
  { f with ps := f.ps.map (fun p =>
    { p with value := match findP p.name sub with | some q => q.value | none => p.value }) }

theorem Fn.matchValues_real (f : Fn ℝ) (sub : List (FParam ℝ))
    (hok : ∀ q ∈ sub, ∀ p, findP q.name f.ps = some p → p.shape.Accepts q.value) :
    f.matchValues sub = .ok (f.pushed sub) := by
  unfold Fn.matchValues
  split_ifs with hb
  · exfalso
    rw [List.any_eq_true] at hb
    obtain ⟨q, hq, hqb⟩ := hb
    cases hp : findP q.name f.ps with
    | none => simp [hp] at hqb
    | some p =>
      have := (isCorrect_iff p.shape q.value).mpr (hok q hq p hp)
      simp [hp, this] at hqb
  simp only [Fn.pushed]
  congr 2
  apply List.map_congr_left
  intro p _
  cases findP p.name sub with
  | none => rfl
  | some q =>
    simp only [paramSet_real]
    split_ifs with h
    · rfl
    · have : p.value = q.value := by
        by_contra hne; exact h ((neb_real _ _).mpr hne)
      cases p; simp_all

theorem Fn.pushed_find (f : Fn ℝ) (sub : List (FParam ℝ)) (n : Nat) :
    findP n (f.pushed sub).ps = (findP n f.ps).map (fun p =>
      { p with value := match findP p.name sub with | some q => q.value | none => p.value }) := by
  unfold Fn.pushed
  exact findP_map (g := fun p =>
    { p with value := match findP p.name sub with | some q => q.value | none => p.value })
    (fun _ => rfl) n f.ps

/-- stage 3: the named copies are pushed into the function, by name -/
theorem view_push {f f' : Fn ℝ} (pl : List (Nat × ℝ)) (fpsAll : List (FParam ℝ))
    (hf' : ∀ n q, findP n f.ps = some q → ∃ q', findP n f'.ps = some q' ∧ q'.shape = q.shape ∧
      (n ∉ pl.map (·.1) → q'.value = q.value) ∧
      (n ∈ pl.map (·.1) → ∀ fp, findP n fpsAll = some fp → q'.value = fp.value))
    {ps : List (Nat × TP ℝ)} {fps : List (FParam ℝ)} {v : W ℝ} (h : View f ps fps v)
    (hself : ∀ fp ∈ fps, findP fp.name fpsAll = some fp) :
    View f' ps fps (List.zipWith
      (fun s u => ({ s with fn := match u with | some _ => s.fp | none => s.fn } : Slot ℝ)) v (updOf ps pl)) := by
  induction h with
  | nil => exact View.nil
  | @cons p fp q ps fps v h1 h2 h3 _ ih =>
    obtain ⟨q', e1, e2, e3, e4⟩ := hf' p.1 q h2
    have ih' := ih (fun fp' hfp' => hself fp' (by simp [hfp']))
    have hc := View.cons (f := f') (p := p) (fp := fp) h1 e1 (e2.trans h3) ih'
    simp only [updOf, List.map_cons, List.zipWith_cons_cons]
    cases hl : lookupV p.1 pl with
    | none =>
      have : q'.value = q.value := e3 (lookupV_none.mp hl)
      simp only [this] at hc
      exact hc
    | some x =>
      have hin : p.1 ∈ pl.map (·.1) := lookupV_isSome.mp (by rw [hl]; rfl)
      have : q'.value = fp.value := e4 hin fp (by rw [h1]; exact hself fp (by simp))
      simp only [this] at hc
      exact hc

/-! ### functions: what an update keeps -/

/-- same names and constraints (the values may differ) -/
def SameSig (f f' : Fn ℝ) : Prop :=
  f'.names = f.names ∧
  ∀ n q, findP n f.ps = some q → ∃ q', findP n f'.ps = some q' ∧ q'.shape = q.shape

theorem SameSig.refl (f : Fn ℝ) : SameSig f f := ⟨rfl, fun _ q h => ⟨q, h, rfl⟩⟩

/-- well-formed function object: distinct names, values accepted by their constraints, finite
intervals roomy enough for `init_` (`Shape.Roomy`) -/
structure FnOk (tiny : ℝ) (f : Fn ℝ) : Prop where
  nodup : f.names.Nodup
  acc : ∀ p ∈ f.ps, p.shape.Accepts p.value
  roomy : ∀ p ∈ f.ps, p.shape.Roomy tiny

theorem Fn.pushed_sameSig (f : Fn ℝ) (sub : List (FParam ℝ)) : SameSig f (f.pushed sub) := by
  refine ⟨by simp [Fn.pushed, Fn.names, List.map_map, Function.comp_def], ?_⟩
  intro n q h
  rw [Fn.pushed_find, h]
  exact ⟨_, rfl, rfl⟩

theorem Fn.pushed_ok {tiny : ℝ} {f : Fn ℝ} (hf : FnOk tiny f) (sub : List (FParam ℝ))
    (hok : ∀ q ∈ sub, ∀ p, findP q.name f.ps = some p → p.shape.Accepts q.value)
    (hsub : ∀ n q, findP n sub = some q → q ∈ sub) : FnOk tiny (f.pushed sub) := by
  refine ⟨by rw [(Fn.pushed_sameSig f sub).1]; exact hf.nodup, ?_, ?_⟩
  · intro p' hp'
    simp only [Fn.pushed, List.mem_map] at hp'
    obtain ⟨p, hp, rfl⟩ := hp'
    cases hq : findP p.name sub with
    | none => simpa using hf.acc p hp
    | some q =>
      have hqn := (findP_some hq).1
      have := hok q (hsub _ _ hq) p (by rw [hqn]; exact findP_self_of_nodup hf.nodup hp)
      simpa using this
  · intro p' hp'
    simp only [Fn.pushed, List.mem_map] at hp'
    obtain ⟨p, hp, rfl⟩ := hp'
    exact hf.roomy p hp

/-- another wrapper of the same function keeps its view when the function moves (its own lists are
untouched; only the `fn` field of the slots follows the function) -/
theorem view_frame {f f' : Fn ℝ} (hs : SameSig f f') {ps : List (Nat × TP ℝ)} {fps : List (FParam ℝ)}
    {v : W ℝ} (h : View f ps fps v) :
    ∃ v', View f' ps fps v' ∧
      List.Forall₂ (fun s s' => s'.tp = s.tp ∧ s'.shape = s.shape ∧ s'.fp = s.fp ∧
        ∃ q' ∈ f'.ps, q'.shape = s.shape ∧ s'.fn = q'.value) v v' := by
  induction h with
  | nil => exact ⟨[], View.nil, List.Forall₂.nil⟩
  | @cons p fp q ps fps v h1 h2 h3 _ ih =>
    obtain ⟨v', hv', hrel⟩ := ih
    obtain ⟨q', e1, e2⟩ := hs.2 p.1 q h2
    exact ⟨_, View.cons h1 e1 (e2.trans h3) hv',
      List.Forall₂.cons ⟨rfl, rfl, rfl, q', (findP_some e1).2, e2.trans h3, rfl⟩ hrel⟩


/-! ### `setParameters` over ℝ: the refinement to the slot model -/

theorem matchTP_fst (pl : List (Nat × ℝ)) (p : Nat × TP ℝ) : (matchTP pl p).1 = p.1 := by
  rw [matchTP_real]

theorem map_matchTP_names (pl : List (Nat × ℝ)) (ps : List (Nat × TP ℝ)) :
    (ps.map (matchTP pl)).map (·.1) = ps.map (·.1) := by
  rw [List.map_map]
  apply List.map_congr_left
  intro p _
  exact matchTP_fst pl p

theorem updOf_match (pl : List (Nat × ℝ)) (ps : List (Nat × TP ℝ)) :
    updOf (ps.map (matchTP pl)) pl = updOf ps pl := by
  unfold updOf
  rw [List.map_map]
  apply List.map_congr_left
  intro p _
  simp [matchTP_fst]

/-- the slots after the matching and (when something changed) the refresh are `midSlot` -/
theorem zipWith_mid (pi : ℝ) (ch : Bool) (v : W ℝ) (upd : List (Option ℝ)) :
    (if ch then (List.zipWith matchOne v upd).map (fun s => ({ s with fp := s.tp.getOriginal pi } : Slot ℝ))
      else List.zipWith matchOne v upd) = List.zipWith (midSlot pi ch) v upd := by
  cases ch
  · simp only [Bool.false_eq_true, if_false]
    congr 1; funext s u; rw [matchOne_real]; simp [midSlot]
  · simp only [if_true]
    rw [zipWith_map_left]
    congr 1; funext s u; rw [matchOne_real]; simp [midSlot]

theorem midSlot_inv {pi tiny : ℝ} (ht : 0 < tiny) (ch : Bool) (s : Slot ℝ) (u : Option ℝ)
    (hs : SlotInv tiny s) : SlotInv tiny (midSlot pi ch s u) := by
  cases u with
  | none =>
    cases ch
    · exact ⟨hs.m, hs.w, by simpa [midSlot] using hs.fp, hs.fn⟩
    · exact ⟨hs.m, hs.w, by simpa [midSlot] using matches_accepts ht hs.m hs.w, hs.fn⟩
  | some x =>
    have hm := matches_setX hs.m x
    cases ch
    · exact ⟨hm, hs.w, by simpa [midSlot] using hs.fp, hs.fn⟩
    · exact ⟨hm, hs.w, by simpa [midSlot] using matches_accepts ht hm hs.w, hs.fn⟩

/-- the part of an update that stays inside the wrapper (`matchParametersValues`, inherited): over ℝ
it raises nothing and slot by slot gives `midSlot`; the function is not involved -/
theorem matchValues_obj_real {pi tiny : ℝ} (ht : 0 < tiny) {f : Fn ℝ} {w : Wr ℝ} {v : W ℝ}
    (hv : View f w.params w.fps v) (hinv : ∀ s ∈ v, SlotInv tiny s) (pl : List (Nat × ℝ)) :
    ∃ fps1, w.matchValues pi pl = .ok { w with params := w.params.map (matchTP pl), fps := fps1 } ∧
      View f (w.params.map (matchTP pl)) fps1
        (List.zipWith (midSlot pi ((List.zipWith changed v (updOf w.params pl)).any id)) v (updOf w.params pl)) := by
  set upd := updOf w.params pl with hupd
  set ch := (List.zipWith changed v upd).any id with hch
  have hv1 := view_match pl hv
  have hinv1 : ∀ s ∈ List.zipWith matchOne v upd, Matches tiny s.shape s.tp ∧ s.shape.Wide tiny := by
    refine forall_zipWith (P := SlotInv tiny)
      (Q := fun c : Slot ℝ => Matches tiny c.shape c.tp ∧ c.shape.Wide tiny) ?_ v upd hinv
    intro s u hs
    rw [matchOne_real]
    refine ⟨?_, hs.w⟩
    cases u with
    | none => exact hs.m
    | some x => exact matches_setX hs.m x
  unfold Wr.matchValues
  rw [view_changed pl hv, ← hupd, ← hch, ← zipWith_mid]
  cases hc : ch
  · exact ⟨w.fps, by simp, by simpa using hv1⟩
  · obtain ⟨fps', e, hv'⟩ := view_fire (pi := pi) ht hv1 hinv1
    exact ⟨fps', by simp [e], by simpa using hv'⟩

/-- the inherited setters that always notify (`setParametersValues`, `setAllParametersValues`,
`setParameterValue`): every copy is refreshed -/
theorem setValues_obj_real {pi tiny : ℝ} (ht : 0 < tiny) {f : Fn ℝ} {w : Wr ℝ} {v : W ℝ}
    (hv : View f w.params w.fps v) (hinv : ∀ s ∈ v, SlotInv tiny s) (pl : List (Nat × ℝ)) :
    ∃ fps1, w.setValues pi pl = .ok { w with params := w.params.map (matchTP pl), fps := fps1 } ∧
      View f (w.params.map (matchTP pl)) fps1 (List.zipWith (midSlot pi true) v (updOf w.params pl)) := by
  have hv1 := view_match pl hv
  have hinv1 : ∀ s ∈ List.zipWith matchOne v (updOf w.params pl),
      Matches tiny s.shape s.tp ∧ s.shape.Wide tiny := by
    refine forall_zipWith (P := SlotInv tiny)
      (Q := fun c : Slot ℝ => Matches tiny c.shape c.tp ∧ c.shape.Wide tiny) ?_ v _ hinv
    intro s u hs
    rw [matchOne_real]
    refine ⟨?_, hs.w⟩
    cases u with
    | none => exact hs.m
    | some x => exact matches_setX hs.m x
  obtain ⟨fps', e, hv'⟩ := view_fire (pi := pi) ht hv1 hinv1
  refine ⟨fps', ?_, ?_⟩
  · unfold Wr.setValues
    rw [List.map_congr_left (g := matchTP pl) (by
      intro p _; rw [matchTP_real]; cases lookupV p.1 pl <;> rfl)]
    simp only [e]
  · have := zipWith_mid pi true v (updOf w.params pl)
    simp only [if_true] at this
    rw [← this]
    exact hv'

/-- `setParameters` through an aligned wrapper of a well-formed function, over ℝ: it raises nothing,
the wrapper stays aligned, and slot by slot the result is `setSlot` — what the slot model's
`Reparam.set` computes on the view (`set_real`).  The function keeps its names and constraints; its
parameters that are not named keep their values. -/
theorem setParameters_real {pi tiny : ℝ} (ht : 0 < tiny) {f : Fn ℝ} {w : Wr ℝ} {v : W ℝ}
    (hf : FnOk tiny f) (hv : View f w.params w.fps v) (hnd : w.names.Nodup)
    (hinv : ∀ s ∈ v, SlotInv tiny s) (pl : List (Nat × ℝ)) (hpl : ∀ n ∈ pl.map (·.1), n ∈ w.names) :
    ∃ f' w', w.setParameters pi f pl = .ok (f', w') ∧
      View f' w'.params w'.fps
        (List.zipWith (setSlot pi ((List.zipWith changed v (updOf w.params pl)).any id)) v (updOf w.params pl)) ∧
      w'.fn = w.fn ∧ w'.names = w.names ∧ SameSig f f' ∧ FnOk tiny f' ∧
      (∀ n q, findP n f.ps = some q → n ∉ pl.map (·.1) → findP n f'.ps = some q) := by
  set upd := updOf w.params pl with hupd
  set ch := (List.zipWith changed v upd).any id with hch
  -- stages 1 and 2: `matchParametersValues`
  have hmv := matchValues_obj_real (pi := pi) ht hv hinv pl
  rw [← hupd, ← hch] at hmv
  obtain ⟨fps1, e1, hvm⟩ := hmv
  have hinvm : ∀ s ∈ List.zipWith (midSlot pi ch) v upd, SlotInv tiny s :=
    forall_zipWith (P := SlotInv tiny) (fun s u hs => midSlot_inv ht ch s u hs) v upd hinv
  -- the names of the refreshed copy
  have hnames1 : fps1.map (·.name) = w.names := by
    rw [← hvm.names, map_matchTP_names]; rfl
  have hnd1 : (fps1.map (·.name)).Nodup := by rw [hnames1]; exact hnd
  -- stage 3a: the sub-list
  have hsub := subList_ok fps1 (pl.map (·.1)) (fun n hn =>
    findP_isSome_of_mem (by rw [hnames1]; exact hpl n hn))
  set sub := (pl.map (·.1)).filterMap (fun n => findP n fps1) with hsubdef
  have hsubmem : ∀ q ∈ sub, q ∈ fps1 := by
    intro q hq
    rw [hsubdef, List.mem_filterMap] at hq
    obtain ⟨n, _, hn⟩ := hq
    exact (findP_some hn).2
  -- stage 3b: the function accepts every pushed value
  have hok : ∀ q ∈ sub, ∀ p, findP q.name f.ps = some p → p.shape.Accepts q.value := by
    intro q hq p hp
    obtain ⟨q0, e0, es⟩ := hvm.linked q (hsubmem q hq)
    rw [hp] at e0; injection e0 with e0; subst e0
    rw [es]
    exact hvm.fp_accepts (fun s hs => (hinvm s hs).fp) q (hsubmem q hq)
  have e3 := Fn.matchValues_real f sub hok
  refine ⟨f.pushed sub, { w with params := w.params.map (matchTP pl), fps := fps1 }, ?_, ?_, rfl,
    map_matchTP_names pl w.params, Fn.pushed_sameSig f sub,
    Fn.pushed_ok hf sub hok (fun n q h => (findP_some h).2), ?_⟩
  · unfold Wr.setParameters
    simp [e1, hsub, e3]
  · -- the view after the push
    have hpush := view_push (f := f) (f' := f.pushed sub) pl fps1 ?_ hvm
      (fun fp hfp => findP_self_of_nodup hnd1 hfp)
    · rw [updOf_match, ← hupd, zipWith_zipWith_left] at hpush
      have e : (fun (s : Slot ℝ) (u : Option ℝ) =>
          ({ midSlot pi ch s u with fn := match u with | some _ => (midSlot pi ch s u).fp | none => (midSlot pi ch s u).fn } : Slot ℝ))
          = setSlot pi ch := by
        funext s u; cases u <;> rfl
      rw [e] at hpush
      exact hpush
    · intro n q hq
      have hqn := (findP_some hq).1
      refine ⟨{ q with value := match findP q.name sub with | some r => r.value | none => q.value },
        by rw [Fn.pushed_find, hq]; rfl, rfl, ?_, ?_⟩
      · intro hn
        have : findP q.name sub = none := by rw [hqn, hsubdef, findP_filterMap, if_neg hn]
        simp only [this]
      · intro hn fp hfp
        have : findP q.name sub = some fp := by rw [hqn, hsubdef, findP_filterMap, if_pos hn, hfp]
        simp only [this]
  · intro n q hq hn
    have hqn := (findP_some hq).1
    have : findP q.name sub = none := by rw [hqn, hsubdef, findP_filterMap, if_neg hn]
    rw [Fn.pushed_find, hq]
    simp only [Option.map_some, this]


/-! ### the private part of a slot: the wrapper's copy against its transformed parameter -/

/-- the wrapper's copy of a function parameter is within `d` of the back-transformed coordinate
(`d = 0` after any refresh; `2 tiny` after a construction that moved the value).  Unlike
`Reparam.Near` this does not mention the function, which other wrappers may move. -/
def Priv (pi d : ℝ) (s : Slot ℝ) : Prop := |s.fp - s.tp.getOriginal pi| ≤ d

theorem forall_zipWith_changed {P : Slot ℝ → Prop} {g : Slot ℝ → Option ℝ → Slot ℝ} (ch : Bool)
    (h : ∀ s u, P s → (ch = false → changed s u = false) → P (g s u)) :
    ∀ (w : W ℝ) (upd : List (Option ℝ)), (∀ s ∈ w, P s) →
      (ch = false → (List.zipWith changed w upd).any id = false) →
      ∀ s' ∈ List.zipWith g w upd, P s' := by
  intro w
  induction w with
  | nil => intro upd _ _ s' hs'; simp at hs'
  | cons s w ih =>
    intro upd hw hch s' hs'
    cases upd with
    | nil => simp at hs'
    | cons u upd =>
      simp only [List.zipWith_cons_cons, List.mem_cons] at hs'
      have hch' : ch = false → changed s u = false ∧ (List.zipWith changed w upd).any id = false := by
        intro h
        have := hch h
        simpa [List.zipWith_cons_cons, List.any_cons, Bool.or_eq_false_iff] using this
      rcases hs' with rfl | hs'
      · exact h s u (hw s (by simp)) (fun h => (hch' h).1)
      · exact ih upd (fun x hx => hw x (by simp [hx])) (fun h => (hch' h).2) s' hs'

theorem unchanged_setX {s : Slot ℝ} {x : ℝ} (h : changed s (some x) = false) : s.tp.setX x = s.tp := by
  have hx : s.tp.x = x := by
    by_contra hne
    have : changed s (some x) = true := by simp [changed, hne]
    rw [h] at this; exact Bool.false_ne_true this
  rw [← hx, setX_self]

theorem midSlot_priv {pi d : ℝ} (hd : 0 ≤ d) (ch : Bool) (s : Slot ℝ) (u : Option ℝ)
    (hs : Priv pi d s) (hch : ch = false → changed s u = false) : Priv pi d (midSlot pi ch s u) := by
  cases ch
  · cases u with
    | none => simpa [midSlot, Priv] using hs
    | some x =>
      have := unchanged_setX (hch rfl)
      simpa [midSlot, Priv, this] using hs
  · cases u <;> simpa [midSlot, Priv] using hd

theorem setSlot_priv {pi d : ℝ} (hd : 0 ≤ d) (ch : Bool) (s : Slot ℝ) (u : Option ℝ)
    (hs : Priv pi d s) (hch : ch = false → changed s u = false) : Priv pi d (setSlot pi ch s u) := by
  have := midSlot_priv hd ch s u hs hch
  cases u <;> simpa [midSlot, setSlot, Priv] using this

/-! ### construction -/

/-- both constructors: `init_` over a list of parameters each of which is (a copy of) a parameter of
the function with an admissible value builds an aligned wrapper; its view is what the slot model's
`Reparam.init` builds -/
theorem view_init {pi tiny : ℝ} (ht : 0 < tiny) (f : Fn ℝ) :
    ∀ (fps : List (FParam ℝ)),
      (∀ fp ∈ fps, ∃ q, findP fp.name f.ps = some q ∧ q.shape = fp.shape ∧ q.value = fp.value ∧
        Admits tiny fp.shape fp.value) →
      ∃ ps v, initParams pi tiny fps = .ok ps ∧ ps.map (·.1) = fps.map (·.name) ∧ View f ps fps v ∧
        Reparam.init pi tiny (fps.map (fun p => (p.shape, p.value))) = .ok v ∧
        (∀ s ∈ v, SlotInv tiny s) ∧ (∀ s ∈ v, Priv pi (2 * tiny) s) := by
  intro fps
  induction fps with
  | nil => intro _; exact ⟨[], [], rfl, rfl, View.nil, rfl, by simp, by simp⟩
  | cons fp fps ih =>
    intro h
    obtain ⟨ps, v, e, hn, hv, hi, hinv, hpriv⟩ := ih (fun q hq => h q (by simp [hq]))
    obtain ⟨q, hq, hsh, hval, hadm⟩ := h fp (by simp)
    obtain ⟨tp, e0, hm, hg⟩ := initOne_spec (pi := pi) ht hadm
    refine ⟨(fp.name, tp) :: ps, { tp := tp, shape := fp.shape, fp := fp.value, fn := q.value } :: v,
      ?_, by simp [hn], View.cons (p := (fp.name, tp)) rfl hq hsh hv, ?_, ?_, ?_⟩
    · simp [initParams, e0, e]
    · unfold Reparam.init at hi ⊢
      simp [List.mapM_cons, e0, hi, hval, bind, Except.bind, pure, Except.pure]
    · intro s hs
      simp only [List.mem_cons] at hs
      rcases hs with rfl | hs
      · exact ⟨hm, admits_wide ht hadm, admits_accepts hadm, by rw [hval]; exact admits_accepts hadm⟩
      · exact hinv s hs
    · intro s hs
      simp only [List.mem_cons] at hs
      rcases hs with rfl | hs
      · show |fp.value - tp.getOriginal pi| ≤ 2 * tiny
        rw [hg, abs_sub_comm]; exact corrected_close ht hadm
      · exact hpriv s hs


/-! ### invariants of a wrapper and of a world -/

/-- a wrapper `w` of the function `f`, with its slots `v`: distinct names, aligned lists whose names
are parameters of `f` with the same constraints (`View`), the transform `init_` builds for each
constraint and accepted values (`SlotInv`), and a private copy within `2 tiny` of the
back-transformed coordinate (`Priv`) -/
structure WInv (pi tiny : ℝ) (f : Fn ℝ) (w : Wr ℝ) (v : W ℝ) : Prop where
  nodup : w.names.Nodup
  view : View f w.params w.fps v
  inv : ∀ s ∈ v, SlotInv tiny s
  priv : ∀ s ∈ v, Priv pi (2 * tiny) s

/-- every function object is well formed, every wrapper points to a function of the world and
satisfies the wrapper invariant over it -/
structure WorldInv (pi tiny : ℝ) (σ : World ℝ) : Prop where
  fns : ∀ f ∈ σ.fns, FnOk tiny f
  ws : ∀ w ∈ σ.ws, ∃ f v, σ.fns[w.fn]? = some f ∧ WInv pi tiny f w v

/-- the wrapper invariant survives any move of the function that keeps its names and constraints
and leaves it at an accepted point (an update through another wrapper, or by the function's owner) -/
theorem WInv.frame {pi tiny : ℝ} {f f' : Fn ℝ} {w : Wr ℝ} {v : W ℝ} (h : WInv pi tiny f w v)
    (hs : SameSig f f') (hf' : FnOk tiny f') :
    ∃ v', WInv pi tiny f' w v' ∧
      List.Forall₂ (fun s s' => s'.tp = s.tp ∧ s'.shape = s.shape ∧ s'.fp = s.fp) v v' := by
  obtain ⟨v', hv', hrel⟩ := view_frame hs h.view
  have hrel2 := forall₂_and_left (P := fun s => SlotInv tiny s ∧ Priv pi (2 * tiny) s) hrel
    (fun s hs => ⟨h.inv s hs, h.priv s hs⟩)
  refine ⟨v', ⟨h.nodup, hv', ?_, ?_⟩, forall₂_imp_right (fun s s' r => ⟨r.1, r.2.1, r.2.2.1⟩) hrel⟩
  · refine forall₂_right ?_ hrel2
    rintro s s' ⟨⟨e1, e2, e3, q', hq', hqs, hqv⟩, hi, _⟩
    exact ⟨by rw [e1, e2]; exact hi.m, by rw [e2]; exact hi.w, by rw [e2, e3]; exact hi.fp,
      by rw [e2, hqv, ← hqs]; exact hf'.acc q' hq'⟩
  · refine forall₂_right ?_ hrel2
    rintro s s' ⟨⟨e1, _, e3, _⟩, _, hp⟩
    show |s'.fp - s'.tp.getOriginal pi| ≤ 2 * tiny
    rw [e1, e3]; exact hp

/-- preconditions of an operation in a world: indices designate existing objects, a new function
has distinct names and admissible values, the list given to the second constructor consists of
(copies of) the function's own parameters, an update through a wrapper names parameters the wrapper
has, a direct update of a function gives it accepted values -/
def OpOk (tiny : ℝ) (σ : World ℝ) : Op ℝ → Prop
  | .newFn ps => (ps.map (·.name)).Nodup ∧ ∀ p ∈ ps, Admits tiny p.shape p.value
  | .newFull g => g < σ.fns.length
  | .newSub g given => ∃ f, σ.fns[g]? = some f ∧ (given.map (·.name)).Nodup ∧
      ∀ q ∈ given, ∀ p, findP q.name f.ps = some p → p.shape = q.shape ∧ p.value = q.value
  | .copy j => j < σ.ws.length
  | .assign i j => i < σ.ws.length ∧ j < σ.ws.length
  | .set i pl => ∃ w, σ.ws[i]? = some w ∧ ∀ n ∈ pl.map (·.1), n ∈ w.names
  | .matchV i _ => i < σ.ws.length
  | .setVals i _ => i < σ.ws.length
  | .direct g pl => ∃ f, σ.fns[g]? = some f ∧
      ∀ q ∈ pl, ∀ p, findP q.name f.ps = some p → p.shape.Accepts q.value

theorem getElem?_append_some {A : Type} {l : List A} {i : Nat} {a : A} (h : l[i]? = some a) (m : List A) :
    (l ++ m)[i]? = some a := by
  have hi : i < l.length := by
    by_contra hc
    rw [List.getElem?_eq_none (by omega)] at h; cases h
  rw [List.getElem?_append_left hi]; exact h

theorem WorldInv.grow_fns {pi tiny : ℝ} {σ : World ℝ} (h : WorldInv pi tiny σ) (f0 : Fn ℝ)
    (hf0 : FnOk tiny f0) : WorldInv pi tiny { σ with fns := σ.fns ++ [f0] } := by
  refine ⟨?_, ?_⟩
  · intro f hf
    simp only [List.mem_append, List.mem_singleton] at hf
    rcases hf with hf | rfl
    · exact h.fns f hf
    · exact hf0
  · intro w hw
    obtain ⟨f, v, e, hi⟩ := h.ws w hw
    exact ⟨f, v, getElem?_append_some e _, hi⟩

theorem WorldInv.grow_ws {pi tiny : ℝ} {σ : World ℝ} (h : WorldInv pi tiny σ) (w0 : Wr ℝ)
    (hw0 : ∃ f v, σ.fns[w0.fn]? = some f ∧ WInv pi tiny f w0 v) :
    WorldInv pi tiny { σ with ws := σ.ws ++ [w0] } := by
  refine ⟨h.fns, ?_⟩
  intro w hw
  simp only [List.mem_append, List.mem_singleton] at hw
  rcases hw with hw | rfl
  · exact h.ws w hw
  · exact hw0

theorem WorldInv.set_ws {pi tiny : ℝ} {σ : World ℝ} (h : WorldInv pi tiny σ) (i : Nat) (w0 : Wr ℝ)
    (hw0 : ∃ f v, σ.fns[w0.fn]? = some f ∧ WInv pi tiny f w0 v) :
    WorldInv pi tiny { σ with ws := σ.ws.set i w0 } := by
  refine ⟨h.fns, ?_⟩
  intro w hw
  rcases List.mem_or_eq_of_mem_set hw with hw | rfl
  · exact h.ws w hw
  · exact hw0

/-- the function `g` moves to `f'` (same names and constraints, accepted point): every wrapper keeps
its invariant -/
theorem WorldInv.set_fn {pi tiny : ℝ} {σ : World ℝ} (h : WorldInv pi tiny σ) (g : Nat) (f f' : Fn ℝ)
    (hg : σ.fns[g]? = some f) (hs : SameSig f f') (hf' : FnOk tiny f') :
    WorldInv pi tiny { σ with fns := σ.fns.set g f' } := by
  refine ⟨?_, ?_⟩
  · intro f0 hf0
    rcases List.mem_or_eq_of_mem_set hf0 with hf0 | rfl
    · exact h.fns f0 hf0
    · exact hf'
  · intro w hw
    obtain ⟨f0, v, e, hi⟩ := h.ws w hw
    by_cases hwg : w.fn = g
    · rw [hwg, hg] at e; injection e with e; subst e
      obtain ⟨v', hi', _⟩ := hi.frame hs hf'
      refine ⟨f', v', ?_, hi'⟩
      have hlt : g < σ.fns.length := by
        by_contra hc
        rw [List.getElem?_eq_none (by omega)] at hg; cases hg
      simp [hwg, hlt]
    · refine ⟨f0, v, ?_, hi⟩
      simp only
      rw [List.getElem?_set_ne (fun e' => hwg e'.symm)]; exact e

/-- **every operation keeps the world invariant and raises nothing** -/
theorem world_step_ok {pi tiny : ℝ} (ht : 0 < tiny) {σ : World ℝ} (h : WorldInv pi tiny σ) (op : Op ℝ)
    (hop : OpOk tiny σ op) : ∃ σ', σ.step pi tiny op = .ok σ' ∧ WorldInv pi tiny σ' := by
  cases op with
  | newFn ps =>
    obtain ⟨hnd, hadm⟩ := hop
    exact ⟨_, rfl, h.grow_fns { ps := ps } ⟨hnd, fun p hp => admits_accepts (hadm p hp),
      fun p hp => (hadm p hp).2⟩⟩
  | newFull g =>
    have hg : g < σ.fns.length := hop
    have hf := h.fns _ (List.getElem_mem hg)
    obtain ⟨ps, v, e, hn, hv, _, hinv, hpriv⟩ := view_init (pi := pi) ht σ.fns[g] σ.fns[g].ps
      (fun fp hfp => ⟨fp, findP_self_of_nodup hf.nodup hfp, rfl, rfl, hf.acc fp hfp, hf.roomy fp hfp⟩)
    refine ⟨_, by simp [World.step, List.getElem?_eq_getElem hg, Wr.newFull, e]; rfl, ?_⟩
    exact h.grow_ws _ ⟨σ.fns[g], v, List.getElem?_eq_getElem hg,
      ⟨by show (ps.map (·.1)).Nodup; rw [hn]; exact hf.nodup, hv, hinv, hpriv⟩⟩
  | newSub g given =>
    obtain ⟨f, hg, hnd, hag⟩ := hop
    have hf := h.fns f (List.mem_of_getElem? hg)
    have hc : ∀ fp ∈ common f given, ∃ q, findP fp.name f.ps = some q ∧ q.shape = fp.shape ∧
        q.value = fp.value ∧ Admits tiny fp.shape fp.value := by
      intro fp hfp
      simp only [common, List.mem_filter, List.any_eq_true, beq_iff_eq] at hfp
      obtain ⟨hfg, q0, hq0, hq0n⟩ := hfp
      obtain ⟨q, hq⟩ := findP_isSome_of_mem (l := f.ps) (n := fp.name)
        (List.mem_map.mpr ⟨q0, hq0, hq0n⟩)
      obtain ⟨e1, e2⟩ := hag fp hfg q hq
      have hqm := (findP_some hq).2
      exact ⟨q, hq, e1, e2, by rw [← e1, ← e2]; exact hf.acc q hqm, by rw [← e1]; exact hf.roomy q hqm⟩
    obtain ⟨ps, v, e, hn, hv, _, hinv, hpriv⟩ := view_init (pi := pi) ht f (common f given) hc
    refine ⟨_, by simp [World.step, hg, Wr.newSub, e]; rfl, ?_⟩
    refine h.grow_ws _ ⟨f, v, hg, ⟨?_, hv, hinv, hpriv⟩⟩
    show (ps.map (·.1)).Nodup
    rw [hn]
    exact hnd.sublist ((List.filter_sublist (l := given)).map _)
  | copy j =>
    have hj : j < σ.ws.length := hop
    refine ⟨_, by simp [World.step, List.getElem?_eq_getElem hj]; rfl, ?_⟩
    exact h.grow_ws _ (h.ws _ (List.getElem_mem hj))
  | assign i j =>
    obtain ⟨hi, hj⟩ : i < σ.ws.length ∧ j < σ.ws.length := hop
    refine ⟨_, by simp [World.step, List.getElem?_eq_getElem hi, List.getElem?_eq_getElem hj]; rfl, ?_⟩
    exact h.set_ws i _ (h.ws _ (List.getElem_mem hj))
  | set i pl =>
    obtain ⟨w, hw, hpl⟩ := hop
    obtain ⟨f, v, hf, hi⟩ := h.ws w (List.mem_of_getElem? hw)
    have hfok := h.fns f (List.mem_of_getElem? hf)
    obtain ⟨f', w', e, hv', hfn, hnames, hsig, hfok', _⟩ :=
      setParameters_real (pi := pi) ht hfok hi.view hi.nodup hi.inv pl hpl
    refine ⟨_, by simp [World.step, hw, hf, e]; rfl, ?_⟩
    have h1 := h.set_fn w.fn f f' hf hsig hfok'
    have hlt : w.fn < σ.fns.length := by
      by_contra hc
      rw [List.getElem?_eq_none (by omega)] at hf; cases hf
    refine WorldInv.set_ws (σ := { σ with fns := σ.fns.set w.fn f' }) h1 i w'
      ⟨f', _, by simp [hfn, hlt], ⟨by rw [hnames]; exact hi.nodup, hv', ?_, ?_⟩⟩
    · exact forall_zipWith (P := SlotInv tiny) (fun s u hs => setSlot_inv ht _ s u hs) v _ hi.inv
    · exact forall_zipWith_changed (P := Priv pi (2 * tiny)) _
        (fun s u hs hc => setSlot_priv (by linarith) _ s u hs hc) v _ hi.priv (fun hc => hc)
  | matchV i pl =>
    have hi : i < σ.ws.length := hop
    obtain ⟨f, v, hf, hinv⟩ := h.ws _ (List.getElem_mem hi)
    obtain ⟨fps1, e, hv'⟩ := matchValues_obj_real (pi := pi) ht hinv.view hinv.inv pl
    refine ⟨_, by simp [World.step, List.getElem?_eq_getElem hi, e]; rfl, ?_⟩
    refine h.set_ws i _ ⟨f, _, hf, ⟨?_, hv', ?_, ?_⟩⟩
    · show ((σ.ws[i].params.map (matchTP pl)).map (·.1)).Nodup
      rw [map_matchTP_names]; exact hinv.nodup
    · exact forall_zipWith (P := SlotInv tiny) (fun s u hs => midSlot_inv ht _ s u hs) v _ hinv.inv
    · exact forall_zipWith_changed (P := Priv pi (2 * tiny)) _
        (fun s u hs hc => midSlot_priv (by linarith) _ s u hs hc) v _ hinv.priv (fun hc => hc)
  | setVals i pl =>
    have hi : i < σ.ws.length := hop
    obtain ⟨f, v, hf, hinv⟩ := h.ws _ (List.getElem_mem hi)
    obtain ⟨fps1, e, hv'⟩ := setValues_obj_real (pi := pi) ht hinv.view hinv.inv pl
    refine ⟨_, by simp [World.step, List.getElem?_eq_getElem hi, e]; rfl, ?_⟩
    refine h.set_ws i _ ⟨f, _, hf, ⟨?_, hv', ?_, ?_⟩⟩
    · show ((σ.ws[i].params.map (matchTP pl)).map (·.1)).Nodup
      rw [map_matchTP_names]; exact hinv.nodup
    · exact forall_zipWith (P := SlotInv tiny) (fun s u hs => midSlot_inv ht _ s u hs) v _ hinv.inv
    · exact forall_zipWith (P := Priv pi (2 * tiny))
        (fun s u hs => midSlot_priv (by linarith) true s u hs (fun hc => by cases hc)) v _ hinv.priv
  | direct g pl =>
    obtain ⟨f, hg, hok⟩ := hop
    have hfok := h.fns f (List.mem_of_getElem? hg)
    refine ⟨_, by simp [World.step, hg, Fn.matchValues_real f pl hok]; rfl, ?_⟩
    exact h.set_fn g f _ hg (Fn.pushed_sameSig f pl)
      (Fn.pushed_ok hfok pl hok (fun n q hq => (findP_some hq).2))


/-! ### histories -/

/-- the worlds reachable from the empty one by operations whose preconditions hold -/
inductive Reach (pi tiny : ℝ) : World ℝ → Prop
  | empty : Reach pi tiny {}
  | step {σ σ' : World ℝ} {op : Op ℝ} : Reach pi tiny σ → OpOk tiny σ op →
      σ.step pi tiny op = .ok σ' → Reach pi tiny σ'

theorem worldInv_empty (pi tiny : ℝ) : WorldInv pi tiny {} :=
  ⟨fun f hf => by simp at hf, fun w hw => by simp at hw⟩

theorem Reach.inv {pi tiny : ℝ} (ht : 0 < tiny) {σ : World ℝ} (h : Reach pi tiny σ) :
    WorldInv pi tiny σ := by
  induction h with
  | empty => exact worldInv_empty pi tiny
  | step _ hop e ih =>
    obtain ⟨σ'', e', hi⟩ := world_step_ok ht ih _ hop
    rw [e] at e'; injection e' with e'; subst e'
    exact hi

theorem initParams_names {pi tiny : ℝ} :
    ∀ (fps : List (FParam ℝ)) (ps : List (Nat × TP ℝ)), initParams pi tiny fps = .ok ps →
      ps.map (·.1) = fps.map (·.name) := by
  intro fps
  induction fps with
  | nil => intro ps h; simp [initParams] at h; subst h; rfl
  | cons fp fps ih =>
    intro ps h
    unfold initParams at h
    cases h0 : initOne pi tiny fp.shape fp.value with
    | none => simp [h0] at h
    | some tp =>
      cases h1 : initParams pi tiny fps with
      | error e => simp [h0, h1] at h
      | ok l =>
        simp [h0, h1] at h
        subst h
        simp [ih l h1]

/-- the negation of the invariant is not vacuous: a copy whose `functionParameters_` were taken from
the function (as the first constructor does) instead of from the source wrapper -/
def copyFromFunction (f : Fn ℝ) (w : Wr ℝ) : Wr ℝ := { fn := w.fn, params := w.params, fps := f.ps }


theorem set_self_of_getElem? {A : Type} {l : List A} {i : Nat} {a : A} (h : l[i]? = some a) :
    l.set i a = l := by
  apply List.ext_getElem?
  intro k
  by_cases hk : i = k
  · subst hk
    rw [List.getElem?_set_self (by
      by_contra hc
      rw [List.getElem?_eq_none (by omega)] at h; cases h), h]
  · rw [List.getElem?_set_ne hk]

/-- a function of five parameters mixing the configurations, for the non-vacuity examples -/
noncomputable def exPs : List (FParam ℝ) :=
  [⟨0, Shape.none, 7⟩, ⟨1, Shape.cc 0 1, 1 / 2⟩, ⟨2, Shape.gt 0, 2⟩, ⟨3, Shape.oo (-1) 1, 0⟩, ⟨4, Shape.le 3, 1⟩]

end Bpp.ReparamObj
