import BppModel.Text.RecogU
import BppProofs.Lemmas.TextU
/-! Helper lemmas for `Props/C16Recog.lean`: the index loops `decLoopU` / `intLoopU` of
`BppModel/Text/RecogU.lean` (reads through `strAt`, `size() - 1` in `size_t`, fuel) compute what the
list transcriptions `Number.decLoop` / `Number.intLoop` compute on `s.drop i`. -/
namespace Bpp.Text.U
open Bpp.Text

/-- decidable equality of results, for the `decide` examples -/
instance recogDecEqR {α : Type} [DecidableEq α] : DecidableEq (R α) := fun a b =>
  match a, b with
  | .ok x, .ok y =>
    if h : x = y then isTrue (by rw [h]) else isFalse (by intro h'; cases h'; exact h rfl)
  | .error x, .error y =>
    if h : x = y then isTrue (by rw [h]) else isFalse (by intro h'; cases h'; exact h rfl)
  | .ok _, .error _ => isFalse (by intro h; cases h)
  | .error _, .ok _ => isFalse (by intro h; cases h)

theorem strOk_lt_SZ {s : Str} (h : StrOk s) : s.length < SZ := by
  unfold StrOk maxStr at h; unfold SZ; omega

/-- `s.size() - 1` does not wrap on a non-empty string -/
theorem wsub_len_one {s : Str} (h : StrOk s) (hne : 0 < s.length) : wsub s.length 1 = s.length - 1 :=
  wsub_eq (by omega) (strOk_lt_SZ h)

theorem drop_cons_get {s : Str} {i : Nat} (h : i < s.length) : s.drop i = s[i] :: s.drop (i + 1) :=
  List.drop_eq_getElem_cons h

theorem drop_nil_of_eq {s : Str} {i : Nat} (h : s.length ≤ i) : s.drop i = [] :=
  List.drop_eq_nil_of_le h

theorem isEmpty_drop {s : Str} {i : Nat} : (s.drop i).isEmpty = decide (s.length ≤ i) := by
  by_cases h : s.length ≤ i
  · simp [drop_nil_of_eq h, h]
  · have hlt : i < s.length := by omega
    rw [drop_cons_get hlt]; simp [h]

/-- both loops end a round with `if (count > 1) return false;` before the next round -/
theorem ite_ok_congr {b : Bool} {x : R Bool} {y : Bool} (h : x = .ok y) :
    (if b = true then (.ok false : R Bool) else x) = .ok (if b = true then false else y) := by
  cases b <;> simp [h]

theorem ite_ok_congrP {p : Prop} [Decidable p] {x : R Bool} {y : Bool} (h : x = .ok y) :
    (if p then (.ok false : R Bool) else x) = .ok (if p then false else y) := by
  split <;> simp [h]

/-- **the loop invariant of `isDecimalNumber`**: from an index inside the text (or its end), with
more fuel than characters left, the index loop returns what the list loop computes on the rest -/
theorem decLoopU_eq (dec sci : Char) (s : Str) (hs : StrOk s) :
    ∀ (fuel i sep sciN dig : Nat), i ≤ s.length → s.length - i < fuel →
      decLoopU dec sci s fuel i sep sciN dig
        = .ok (Number.decLoop dec sci sep sciN dig (s.drop i)) := by
  intro fuel
  induction fuel with
  | zero => intro i _ _ _ _ h; omega
  | succ fuel ih =>
    intro i sep sciN dig hi hf
    unfold decLoopU
    by_cases hlt : i < s.length
    · have hw : wsub s.length 1 = s.length - 1 := wsub_len_one hs (by omega)
      rw [if_pos hlt, strAt_ok hlt, bind_ok, drop_cons_get hlt, Number.decLoop.eq_def, hw]
      generalize s[i] = c
      by_cases h1 : (c == dec) = true
      · simp only [h1, if_true]
        by_cases h : (1 < sep + 1 || 1 < sciN) = true
        · simp only [h, if_true]
        · simp only [h, if_false, Bool.false_eq_true]
          exact ih (i + 1) (sep + 1) sciN dig (by omega) (by omega)
      · simp only [h1, if_false, Bool.false_eq_true]
        by_cases h2 : (c == sci) = true
        · simp only [h2, if_true]
          by_cases hd : (dig == 0) = true
          · simp only [hd, if_true]
          · simp only [hd, if_false, Bool.false_eq_true]
            by_cases hlast : i + 1 < s.length
            · have hne : (i == s.length - 1) = false := by
                simp only [beq_eq_false_iff_ne, ne_eq]; omega
              have hdrop := drop_cons_get hlast
              rw [hne, strAt_ok hlast, hdrop]
              simp only [bind_ok, if_false, Bool.false_eq_true]
              generalize s[i + 1] = c2 at hdrop ⊢
              by_cases hsg : (c2 == '-' || c2 == '+') = true
              · simp only [hsg, if_true, isEmpty_drop]
                by_cases hend : i + 1 + 1 < s.length
                · have e1 : (i + 1 == s.length - 1) = false := by
                    simp only [beq_eq_false_iff_ne, ne_eq]; omega
                  have e2 : decide (s.length ≤ i + 1 + 1) = false := by
                    simp only [decide_eq_false_iff_not]; omega
                  simp only [e1, e2, if_false, Bool.false_eq_true]
                  exact ite_ok_congr (ih (i + 1 + 1) _ _ _ (by omega) (by omega))
                · have e1 : (i + 1 == s.length - 1) = true := by
                    simp only [beq_iff_eq]; omega
                  have e2 : decide (s.length ≤ i + 1 + 1) = true := by
                    simp only [decide_eq_true_eq]; omega
                  simp only [e1, e2, if_true]
              · simp only [hsg, if_false, Bool.false_eq_true, hne]
                rw [← hdrop]
                exact ite_ok_congr (ih (i + 1) _ _ _ (by omega) (by omega))
            · have he : (i == s.length - 1) = true := by
                simp only [beq_iff_eq]; omega
              rw [he, drop_nil_of_eq (by omega : s.length ≤ i + 1)]
              simp only [if_true]
        · simp only [h2, if_false, Bool.false_eq_true]
          by_cases h3 : (!isDigit c) = true
          · simp only [h3, if_true]
          · simp only [h3, if_false, Bool.false_eq_true]
            by_cases h : (1 < sep || 1 < sciN) = true
            · simp only [h, if_true]
            · simp only [h, if_false, Bool.false_eq_true]
              exact ih (i + 1) sep sciN (dig + 1) (by omega) (by omega)
    · have : i = s.length := by omega
      subst this
      rw [if_neg hlt, List.drop_length, Number.decLoop]

/-- **the loop invariant of `isDecimalInteger`** -/
theorem intLoopU_eq (sci : Char) (s : Str) (hs : StrOk s) :
    ∀ (fuel i sciN dig : Nat), i ≤ s.length → s.length - i < fuel →
      intLoopU sci s fuel i sciN dig = .ok (Number.intLoop sci sciN dig (s.drop i)) := by
  intro fuel
  induction fuel with
  | zero => intro i _ _ h; omega
  | succ fuel ih =>
    intro i sciN dig hi hf
    unfold intLoopU
    by_cases hlt : i < s.length
    · have hw : wsub s.length 1 = s.length - 1 := wsub_len_one hs (by omega)
      rw [if_pos hlt, strAt_ok hlt, bind_ok, drop_cons_get hlt, Number.intLoop.eq_def, hw]
      generalize s[i] = c
      by_cases h2 : (c == sci) = true
      · simp only [h2, if_true]
        by_cases hd : (dig == 0) = true
        · simp only [hd, if_true]
        · simp only [hd, if_false, Bool.false_eq_true]
          by_cases hlast : i + 1 < s.length
          · have hne : (i == s.length - 1) = false := by
              simp only [beq_eq_false_iff_ne, ne_eq]; omega
            have hdrop := drop_cons_get hlast
            rw [hne, strAt_ok hlast, hdrop]
            simp only [bind_ok, if_false, Bool.false_eq_true]
            generalize s[i + 1] = c2 at hdrop ⊢
            by_cases hm : (c2 == '-') = true
            · simp only [hm, if_true]
            · simp only [hm, if_false, Bool.false_eq_true]
              by_cases hp : (c2 == '+') = true
              · simp only [hp, if_true, isEmpty_drop]
                by_cases hend : i + 1 + 1 < s.length
                · have e1 : (i + 1 == s.length - 1) = false := by
                    simp only [beq_eq_false_iff_ne, ne_eq]; omega
                  have e2 : decide (s.length ≤ i + 1 + 1) = false := by
                    simp only [decide_eq_false_iff_not]; omega
                  simp only [e1, e2, if_false, Bool.false_eq_true]
                  exact ite_ok_congrP (ih (i + 1 + 1) _ _ (by omega) (by omega))
                · have e1 : (i + 1 == s.length - 1) = true := by
                    simp only [beq_iff_eq]; omega
                  have e2 : decide (s.length ≤ i + 1 + 1) = true := by
                    simp only [decide_eq_true_eq]; omega
                  simp only [e1, e2, if_true]
              · simp only [hp, if_false, Bool.false_eq_true, hne]
                rw [← hdrop]
                exact ite_ok_congrP (ih (i + 1) _ _ (by omega) (by omega))
          · have he : (i == s.length - 1) = true := by
              simp only [beq_iff_eq]; omega
            rw [he, drop_nil_of_eq (by omega : s.length ≤ i + 1)]
            simp only [if_true]
      · simp only [h2, if_false, Bool.false_eq_true]
        by_cases h3 : (!isDigit c) = true
        · simp only [h3, if_true]
        · simp only [h3, if_false, Bool.false_eq_true]
          exact ite_ok_congrP (ih (i + 1) sciN (dig + 1) (by omega) (by omega))
    · have : i = s.length := by omega
      subst this
      rw [if_neg hlt, List.drop_length, Number.intLoop]

theorem isDecimalNumberU_refines_lem (dec sci : Char) (s : Str) (hs : StrOk s) :
    isDecimalNumberU dec sci s = .ok (Number.isDecimalNumber dec sci s) := by
  unfold isDecimalNumberU Number.isDecimalNumber
  by_cases he : isEmptyStr s = true
  · simp only [he, if_true]
  · simp only [he, if_false, Bool.false_eq_true]
    cases s with
    | nil => exact absurd rfl he
    | cons c0 r =>
      have h0 : strAt (c0 :: r) 0 = .ok c0 := strAt_ok (s := c0 :: r) (i := 0) (by simp)
      rw [h0, bind_ok]
      by_cases hm : c0 = '-'
      · subst hm
        simp only [beq_self_eq_true, if_true]
        rw [decLoopU_eq dec sci _ hs _ 1 0 0 0 (by simp) (by simp only [List.length_cons]; omega)]
        rfl
      · have hb : (c0 == '-') = false := by simpa using hm
        simp only [hb, if_false, Bool.false_eq_true]
        rw [decLoopU_eq dec sci _ hs _ 0 0 0 0 (by simp) (by simp)]
        simp only [List.drop_zero]
        split
        · rename_i heq; cases heq; exact absurd rfl hm
        · rfl

theorem isDecimalIntegerU_refines_lem (sci : Char) (s : Str) (hs : StrOk s) :
    isDecimalIntegerU sci s = .ok (Number.isDecimalInteger sci s) := by
  unfold isDecimalIntegerU Number.isDecimalInteger
  by_cases he : isEmptyStr s = true
  · simp only [he, if_true]
  · simp only [he, if_false, Bool.false_eq_true]
    cases s with
    | nil => exact absurd rfl he
    | cons c0 r =>
      have h0 : strAt (c0 :: r) 0 = .ok c0 := strAt_ok (s := c0 :: r) (i := 0) (by simp)
      rw [h0, bind_ok]
      by_cases hm : c0 = '-'
      · subst hm
        simp only [beq_self_eq_true, if_true]
        rw [intLoopU_eq sci _ hs _ 1 0 0 (by simp) (by simp only [List.length_cons]; omega)]
        rfl
      · have hb : (c0 == '-') = false := by simpa using hm
        simp only [hb, if_false, Bool.false_eq_true]
        rw [intLoopU_eq sci _ hs _ 0 0 0 (by simp) (by simp)]
        simp only [List.drop_zero]
        split
        · rename_i heq; cases heq; exact absurd rfl hm
        · rfl

theorem toDoubleU_refines_lem (dec sci : Char) (s : Str) (hs : StrOk s) :
    toDoubleU dec sci s = toDoubleClass dec sci s := by
  unfold toDoubleU toDoubleClass
  rw [isDecimalNumberU_refines_lem dec sci s hs, bind_ok]
  cases Number.isDecimalNumber dec sci s <;> rfl

end Bpp.Text.U
