import BppProofs.Lemmas.OptimObjective
import BppProofs.Lemmas.OptimParam
import BppModel.OptimMulti
/-!
Helper lemmas for C10: the objective of the harness (`Fn`) and the parameter lists of the
multi-dimensional optimisers.

* `matchPoint` (the function's `matchParametersValues`): length, frame, what it writes;
* `Sync fn pl`: the function has been left at the values the list holds ("state at report");
* `objective_det_con`: the evaluation step along one coordinate through a parameter of precision 0
  with *any* constraint and dynamic type — `Det` with `g x = obj (pt0.set k (corr p0 x))`;
* `setAll` / `matchList` on lists of precision-0 parameters.
-/
set_option linter.unusedSectionVars false
namespace Bpp.Optim
open Bpp

/-- the names of a list -/
def names (pl : PList ℝ) : List Nat := pl.map (·.name)

@[simp] theorem names_nil : names [] = [] := rfl
@[simp] theorem names_cons (q : NP ℝ) (r : PList ℝ) : names (q :: r) = q.name :: names r := rfl

/-! ### matchPoint -/

theorem matchPoint_length : ∀ (pl : PList ℝ) (pt : List ℝ), (matchPoint pt pl).length = pt.length := by
  intro pl
  induction pl with
  | nil => intro pt; rfl
  | cons q r ih =>
    intro pt
    rw [matchPoint, ih]
    split
    · rw [List.length_set]
    · rfl

/-- coordinates no parameter of the list is named after are not touched -/
theorem matchPoint_frame : ∀ (pl : PList ℝ) (pt : List ℝ) (i : Nat), i ∉ names pl →
    (matchPoint pt pl)[i]? = pt[i]? := by
  intro pl
  induction pl with
  | nil => intro pt i _; rfl
  | cons q r ih =>
    intro pt i hi
    rw [names_cons, List.mem_cons, not_or] at hi
    rw [matchPoint, ih _ i hi.2]
    split
    · rw [List.getElem?_set_ne (fun c => hi.1 c.symm)]
    · rfl

/-- with distinct names, every coordinate a parameter is named after holds that parameter's value -/
theorem matchPoint_sync : ∀ (pl : PList ℝ) (pt : List ℝ), (names pl).Nodup →
    ∀ q ∈ pl, q.name < pt.length → (matchPoint pt pl)[q.name]? = some q.p.value := by
  intro pl
  induction pl with
  | nil => intro pt _ q hq; cases hq
  | cons q0 r ih =>
    intro pt hnd q hq hlt
    rw [names_cons, List.nodup_cons] at hnd
    rw [matchPoint]
    rcases List.mem_cons.1 hq with rfl | hm
    · rw [matchPoint_frame _ _ _ hnd.1, List.getElem?_eq_getElem hlt]
      simp only [own_real]
      rw [List.getElem?_set_self hlt]
    · apply ih _ hnd.2 q hm
      split
      · rw [List.length_set]; exact hlt
      · exact hlt

/-- the result depends on the point only outside the names of the list -/
theorem matchPoint_congr : ∀ (pl : PList ℝ) (pt pt' : List ℝ), pt.length = pt'.length →
    (∀ i, i ∉ names pl → pt[i]? = pt'[i]?) → matchPoint pt pl = matchPoint pt' pl := by
  intro pl
  induction pl with
  | nil =>
    intro pt pt' _ h
    exact List.ext_getElem? (fun i => h i (by simp))
  | cons q r ih =>
    intro pt pt' hl h
    rw [matchPoint, matchPoint]
    by_cases hlt : q.name < pt.length
    · have hlt' : q.name < pt'.length := by rw [← hl]; exact hlt
      rw [List.getElem?_eq_getElem hlt, List.getElem?_eq_getElem hlt']
      simp only [own_real]
      apply ih
      · rw [List.length_set, List.length_set]; exact hl
      · intro i hi
        by_cases hiq : i = q.name
        · subst hiq; rw [List.getElem?_set_self hlt, List.getElem?_set_self hlt']
        · rw [List.getElem?_set_ne (fun c => hiq c.symm), List.getElem?_set_ne (fun c => hiq c.symm)]
          exact h i (by rw [names_cons, List.mem_cons, not_or]; exact ⟨hiq, hi⟩)
    · have hlt' : ¬ q.name < pt'.length := by rw [← hl]; exact hlt
      rw [List.getElem?_eq_none (not_lt.1 hlt), List.getElem?_eq_none (not_lt.1 hlt')]
      apply ih _ _ hl
      intro i hi
      by_cases hiq : i = q.name
      · subst hiq; rw [List.getElem?_eq_none (not_lt.1 hlt), List.getElem?_eq_none (not_lt.1 hlt')]
      · exact h i (by rw [names_cons, List.mem_cons, not_or]; exact ⟨hiq, hi⟩)

/-- only names and values are read -/
theorem matchPoint_values : ∀ (pl pl' : PList ℝ) (pt : List ℝ),
    pl.map (fun q => (q.name, q.p.value)) = pl'.map (fun q => (q.name, q.p.value)) → matchPoint pt pl = matchPoint pt pl' := by
  intro pl
  induction pl with
  | nil => intro pl' pt h; cases pl' with
    | nil => rfl
    | cons _ _ => cases h
  | cons q r ih =>
    intro pl' pt h
    cases pl' with
    | nil => cases h
    | cons q' r' =>
      simp only [List.map_cons, List.cons.injEq, Prod.mk.injEq] at h
      rw [matchPoint, matchPoint, h.1.1, h.1.2]
      exact ih r' _ h.2

theorem applyPolicy_nv (pol : Policy) (pl : PList ℝ) :
    (applyPolicy pol pl).map (fun q => (q.name, q.p.value)) = pl.map (fun q => (q.name, q.p.value)) := by
  cases pol <;> simp [applyPolicy, Param.toAuto, Param.removeConstraint, Function.comp_def]

theorem applyPolicy_names (pol : Policy) (pl : PList ℝ) : names (applyPolicy pol pl) = names pl := by
  cases pol <;> simp [applyPolicy, names, Function.comp_def]

theorem applyPolicy_values (pol : Policy) (pl : PList ℝ) : values (applyPolicy pol pl) = values pl := by
  cases pol <;> simp [applyPolicy, values, Param.toAuto, Param.removeConstraint, Function.comp_def]

theorem matchPoint_applyPolicy (pol : Policy) (pl : PList ℝ) (pt : List ℝ) :
    matchPoint pt (applyPolicy pol pl) = matchPoint pt pl :=
  matchPoint_values _ _ _ (applyPolicy_nv pol pl)

/-! ### the function's own list -/

theorem Fn.params_names (fn : Fn ℝ) : names fn.params = List.range fn.point.length := by
  unfold Fn.params names
  rw [List.map_map]
  have : ((fun q : NP ℝ => q.name) ∘ fun iv : Nat × ℝ => (⟨iv.1, ⟨iv.2, Scalar.zero, none, false⟩⟩ : NP ℝ)) = Prod.fst := rfl
  rw [this, List.map_fst_zip]
  rw [List.length_range]

theorem Fn.params_mem (fn : Fn ℝ) (q : NP ℝ) (hq : q ∈ fn.params) :
    q.name < fn.point.length ∧ fn.point[q.name]? = some q.p.value ∧ q.p.precision = 0 ∧ q.p.constraint = none ∧ q.p.auto = false := by
  unfold Fn.params at hq
  obtain ⟨⟨i, v⟩, hiv, rfl⟩ := List.mem_map.1 hq
  obtain ⟨j, hj⟩ := List.getElem?_of_mem hiv
  rw [List.getElem?_zip_eq_some] at hj
  obtain ⟨h1, h2⟩ := hj
  have hjl : j < fn.point.length := by
    by_contra hc
    rw [List.getElem?_eq_none (not_lt.1 hc)] at h2; cases h2
  rw [List.getElem?_range hjl] at h1
  simp only [Option.some.injEq] at h1
  subst h1
  exact ⟨hjl, h2, by simp, rfl, rfl⟩

/-- `setParameters(getParameters())` of an earlier state puts the point back -/
theorem matchPoint_restore (fn0 : Fn ℝ) (pt : List ℝ) (hl : pt.length = fn0.point.length) :
    matchPoint pt fn0.params = fn0.point := by
  apply List.ext_getElem?
  intro i
  by_cases hi : i < fn0.point.length
  · -- the parameter named `i`
    have hmem : (⟨i, ⟨fn0.point[i], Scalar.zero, none, false⟩⟩ : NP ℝ) ∈ fn0.params := by
      unfold Fn.params
      apply List.mem_map.2
      refine ⟨(i, fn0.point[i]), ?_, rfl⟩
      apply List.mem_iff_getElem?.2
      exact ⟨i, by rw [List.getElem?_zip_eq_some]; exact ⟨List.getElem?_range hi, List.getElem?_eq_getElem hi⟩⟩
    have hnd : (names fn0.params).Nodup := by rw [Fn.params_names]; exact List.nodup_range
    have := matchPoint_sync fn0.params pt hnd _ hmem (by rw [hl]; exact hi)
    rw [this, List.getElem?_eq_getElem hi]
  · rw [List.getElem?_eq_none (by rw [matchPoint_length, hl]; exact not_lt.1 hi), List.getElem?_eq_none (not_lt.1 hi)]

/-! ### the interface of the objective -/

theorem iface_f_point (obj : List ℝ → ℝ) (D : Deriv ℝ) (cap : Option Nat) (fn fn' : Fn ℝ) (pl : PList ℝ) (v : ℝ)
    (h : (Fn.iface obj D cap).f fn pl = .ok (fn', v)) :
    fn'.point = matchPoint fn.point pl ∧ v = obj fn'.point ∧ fn'.log = fn'.point :: fn.log := by
  obtain ⟨rfl, rfl⟩ := iface_f_ok obj D cap _ _ _ _ h
  exact ⟨rfl, rfl, rfl⟩

theorem iface_set_point (obj : List ℝ → ℝ) (D : Deriv ℝ) (cap : Option Nat) (fn fn' : Fn ℝ) (pl : PList ℝ)
    (h : (Fn.iface obj D cap).setParameters fn pl = .ok fn') :
    fn'.point = matchPoint fn.point pl := by
  simp only [Fn.iface] at h
  split at h
  · cases h
  · simp only [Except.ok.injEq] at h; rw [← h]; rfl

@[simp] theorem iface_value (obj : List ℝ → ℝ) (D : Deriv ℝ) (cap : Option Nat) (fn : Fn ℝ) :
    (Fn.iface obj D cap).value fn = obj fn.point := rfl

@[simp] theorem iface_getParameters (obj : List ℝ → ℝ) (D : Deriv ℝ) (cap : Option Nat) (fn : Fn ℝ) :
    (Fn.iface obj D cap).getParameters fn = fn.params := rfl

/-- the function is at the values the list holds -/
def Sync (fn : Fn ℝ) (pl : PList ℝ) : Prop := ∀ q ∈ pl, fn.point[q.name]? = some q.p.value

theorem Sync.stateAt {fn : Fn ℝ} {pl : PList ℝ} (h : Sync fn pl) :
    Spec.stateAt fn.point (names pl) (values pl) = true := by
  unfold Spec.stateAt
  induction pl with
  | nil => rfl
  | cons q r ih =>
    simp only [names_cons, values, List.map_cons, List.zip_cons_cons, List.all_cons, Bool.and_eq_true]
    refine ⟨?_, ih (fun q' hq' => h q' (List.mem_cons_of_mem _ hq'))⟩
    rw [h q (List.mem_cons_self ..)]
    simp

/-- evaluating at a list with distinct valid names leaves the function at that list -/
theorem sync_of_matchPoint (fn : Fn ℝ) (pt : List ℝ) (pl : PList ℝ) (hp : fn.point = matchPoint pt pl)
    (hnd : (names pl).Nodup) (hlt : ∀ q ∈ pl, q.name < pt.length) : Sync fn pl := by
  intro q hq
  rw [hp]
  exact matchPoint_sync pl pt hnd q hq (hlt q hq)

/-- a point is not moved by writing into it what it holds -/
theorem matchPoint_of_sync : ∀ (pl : PList ℝ) (pt : List ℝ), (∀ q ∈ pl, pt[q.name]? = some q.p.value) →
    matchPoint pt pl = pt := by
  intro pl
  induction pl with
  | nil => intro pt _; rfl
  | cons q r ih =>
    intro pt h
    rw [matchPoint, h q (List.mem_cons_self ..)]
    simp only [own_real]
    have : pt.set q.name q.p.value = pt := by
      apply List.ext_getElem?
      intro i
      by_cases hi : i = q.name
      · subst hi
        have := h q (List.mem_cons_self ..)
        have hlt : q.name < pt.length := by
          by_contra hc; rw [List.getElem?_eq_none (not_lt.1 hc)] at this; cases this
        rw [List.getElem?_set_self hlt, this]
      · rw [List.getElem?_set_ne (fun c => hi c.symm)]
    rw [this]
    exact ih pt (fun q' hq' => h q' (List.mem_cons_of_mem _ hq'))

/-! ### the evaluation step along one coordinate, any constraint -/

/-- the invariant under which the evaluation step computes `obj` along coordinate `k` of `pt0`
through the parameter `p0` (precision 0, any constraint, plain or auto-correcting): the list holds
`p0` with some feasible value, the function's other coordinates are those of `pt0` -/
def AlongP (pt0 : List ℝ) (k : Nat) (p0 : Param ℝ) (fn : Fn ℝ) (pl : PList ℝ) : Prop :=
  (∃ w, pl = [⟨k, reval p0 w⟩] ∧ p0.accepts w = true) ∧
  k < pt0.length ∧ fn.point.length = pt0.length ∧ ∀ i, i ≠ k → fn.point[i]? = pt0[i]?

theorem f_single' (obj : List ℝ → ℝ) (fn : Fn ℝ) (k : Nat) (p : Param ℝ) (hk : k < fn.point.length) :
    (fn.f obj [⟨k, p⟩]).1.point = fn.point.set k p.value ∧ (fn.f obj [⟨k, p⟩]).2 = obj (fn.point.set k p.value) :=
  f_single obj fn ⟨k, p⟩ k rfl hk

/-- the objective of the harness searched along one coordinate through a parameter with any
constraint: "set the parameter to `x`, evaluate" computes `obj` at `pt0` with coordinate `k` replaced by
what `setValue(x)` stores -/
theorem objective_det_con (obj : List ℝ → ℝ) (D : Deriv ℝ) (cap : Option Nat) (pt0 : List ℝ) (k : Nat)
    (p0 : Param ℝ) (hp : p0.precision = 0) (hi : p0.invOk = true) :
    Det (Fn.iface obj D cap) (fun x => obj (pt0.set k (corr p0 x))) (AlongP pt0 k p0) := by
  -- a `setValue` on the list
  have hset : ∀ w x pl', p0.accepts w = true → setValueAt [(⟨k, reval p0 w⟩ : NP ℝ)] 0 x = .ok pl' →
      ∃ y, pl' = [⟨k, reval p0 y⟩] ∧ p0.accepts y = true ∧ corr p0 x = y ∧ corr p0 y = y := by
    intro w x pl' hw h
    rw [setValueAt] at h
    simp only [] at h
    split at h
    · rename_i p' hs
      simp only [Except.ok.injEq] at h
      rw [setValue_reval p0 w x hp hi hw] at hs
      obtain ⟨hform, hacc⟩ := setValue_ok_form hs hi
      refine ⟨p'.value, ?_, hacc, corr_ok hs, corr_accepted p0 _ hp hi hacc⟩
      rw [← h, ← hform]
    · cases h
  -- an evaluation at a list that holds `y`
  have hf : ∀ fn y fn' v, p0.accepts y = true → k < pt0.length → fn.point.length = pt0.length →
      (∀ i, i ≠ k → fn.point[i]? = pt0[i]?) → (Fn.iface obj D cap).f fn [⟨k, reval p0 y⟩] = .ok (fn', v) →
      v = obj (pt0.set k y) ∧ fn'.point.length = pt0.length ∧ ∀ i, i ≠ k → fn'.point[i]? = pt0[i]? := by
    intro fn y fn' v _ hk hl hag h
    obtain ⟨rfl, rfl⟩ := iface_f_ok obj D cap _ _ _ _ h
    have hk' : k < fn.point.length := by rw [hl]; exact hk
    obtain ⟨hpt, hval⟩ := f_single' obj fn k (reval p0 y) hk'
    simp only [reval_value] at hpt hval
    refine ⟨by rw [hval, set_eq_of_agree _ _ _ _ hl hag], by rw [hpt, List.length_set]; exact hl, ?_⟩
    intro i hik
    rw [hpt, List.getElem?_set_ne (Ne.symm hik)]; exact hag i hik
  have key : ∀ fn pl x fn' pl' v, AlongP pt0 k p0 fn pl → eval0 (Fn.iface obj D cap) fn pl x = .ok (fn', pl', v) →
      v = obj (pt0.set k (corr p0 x)) ∧ AlongP pt0 k p0 fn' pl' ∧
      ∃ y, value0 pl' = some y ∧ obj (pt0.set k (corr p0 y)) = obj (pt0.set k (corr p0 x)) := by
    intro fn pl x fn' pl' v hJ h
    obtain ⟨⟨w, rfl, hw⟩, hk, hl, hag⟩ := hJ
    unfold eval0 at h
    cases hs : setValueAt [(⟨k, reval p0 w⟩ : NP ℝ)] 0 x with
    | error e => rw [hs] at h; cases h
    | ok pl1 =>
      rw [hs] at h
      simp only [] at h
      obtain ⟨y, rfl, hy, hcx, hcy⟩ := hset w x pl1 hw hs
      cases hfe : (Fn.iface obj D cap).f fn [⟨k, reval p0 y⟩] with
      | error e => rw [hfe] at h; cases h
      | ok r =>
        obtain ⟨fn1, v1⟩ := r
        rw [hfe] at h
        simp only [Except.ok.injEq, Prod.mk.injEq] at h
        obtain ⟨rfl, rfl, rfl⟩ := h
        obtain ⟨h1, h2, h3⟩ := hf fn y _ _ hy hk hl hag hfe
        refine ⟨by rw [h1, hcx], ⟨⟨y, rfl, hy⟩, hk, h2, h3⟩, y, by simp [value0], by rw [hcy, hcx]⟩
  constructor
  · intro fn pl x fn' pl' v hJ h
    exact ⟨(key _ _ _ _ _ _ hJ h).1, (key _ _ _ _ _ _ hJ h).2.1⟩
  · intro fn pl fn' pl' h1 h2
    exact ⟨h1.1, h2.2⟩
  · intro fn pl x fn' pl' v hJ h
    exact (key _ _ _ _ _ _ hJ h).2.2
  · intro fn pl x fn' v hJ hx h
    obtain ⟨⟨w, rfl, hw⟩, hk, hl, hag⟩ := hJ
    have hwx : w = x := by simpa [value0] using hx
    subst hwx
    obtain ⟨h1, h2, h3⟩ := hf fn w _ _ hw hk hl hag h
    exact ⟨by rw [h1, corr_accepted p0 w hp hi hw], ⟨w, rfl, hw⟩, hk, h2, h3⟩
  · intro fn pl x pl' hJ h
    obtain ⟨⟨w, rfl, hw⟩, hk, hl, hag⟩ := hJ
    obtain ⟨y, rfl, hy, hcx, hcy⟩ := hset w x pl' hw h
    exact ⟨⟨⟨y, rfl, hy⟩, hk, hl, hag⟩, y, by simp [value0], by rw [hcy, hcx]⟩

/-! ### lists of precision-0 parameters -/

/-- precision 0, feasible value (C01's invariant) -/
def Good (pl : PList ℝ) : Prop := ∀ q ∈ pl, q.p.precision = 0 ∧ q.p.invOk = true

/-- the same parameters (names, constraints, dynamic types) holding other feasible values -/
def Like (a b : PList ℝ) : Prop :=
  List.Forall₂ (fun x y => y.name = x.name ∧ ∃ w, y.p = reval x.p w ∧ x.p.accepts w = true) a b

theorem Like.refl {a : PList ℝ} (h : Good a) : Like a a := by
  induction a with
  | nil => exact List.Forall₂.nil
  | cons q r ih =>
    exact List.Forall₂.cons ⟨rfl, q.p.value, rfl, (h q (List.mem_cons_self ..)).2⟩
      (ih (fun q' hq' => h q' (List.mem_cons_of_mem _ hq')))

theorem Like.trans {a b c : PList ℝ} (h1 : Like a b) (h2 : Like b c) : Like a c := by
  induction h1 generalizing c with
  | nil => cases h2; exact List.Forall₂.nil
  | cons hab _ ih =>
    cases h2 with
    | cons hbc hr =>
      obtain ⟨n1, w1, e1, _⟩ := hab
      obtain ⟨n2, w2, e2, a2⟩ := hbc
      refine List.Forall₂.cons ⟨n2.trans n1, w2, ?_, ?_⟩ (ih hr)
      · rw [e2, e1]; rfl
      · rw [e1] at a2; exact a2

theorem Like.names {a b : PList ℝ} (h : Like a b) : names b = names a := by
  induction h with
  | nil => rfl
  | cons hab _ ih => rw [names_cons, names_cons, hab.1, ih]

theorem Like.length {a b : PList ℝ} (h : Like a b) : b.length = a.length := (List.Forall₂.length_eq h).symm

theorem Like.good {a b : PList ℝ} (h : Like a b) (hg : Good a) : Good b := by
  induction h with
  | nil => intro q hq; cases hq
  | @cons x y l1 l2 hab _ ih =>
    intro q hq
    rcases List.mem_cons.1 hq with rfl | hm
    · obtain ⟨_, w, e, ha⟩ := hab
      rw [e]
      exact ⟨(hg x (List.mem_cons_self ..)).1, ha⟩
    · exact ih (fun q' hq' => hg q' (List.mem_cons_of_mem _ hq')) q hm

/-- members correspond -/
theorem Like.mem_right {a b : PList ℝ} (h : Like a b) {y : NP ℝ} (hy : y ∈ b) :
    ∃ x ∈ a, y.name = x.name ∧ ∃ w, y.p = reval x.p w ∧ x.p.accepts w = true := by
  induction h with
  | nil => cases hy
  | cons hab _ ih =>
    rcases List.mem_cons.1 hy with rfl | hm
    · exact ⟨_, List.mem_cons_self .., hab⟩
    · obtain ⟨x, hx, hr⟩ := ih hm; exact ⟨x, List.mem_cons_of_mem _ hx, hr⟩

theorem mem_names {pl : PList ℝ} {q : NP ℝ} (h : q ∈ pl) : q.name ∈ names pl := List.mem_map.2 ⟨q, h, rfl⟩

theorem eq_of_nodup {pl : PList ℝ} (hnd : (names pl).Nodup) {a b : NP ℝ} (ha : a ∈ pl) (hb : b ∈ pl)
    (h : a.name = b.name) : a = b := List.inj_on_of_nodup_map hnd ha hb h

theorem findNamed_some {pl : PList ℝ} {n : Nat} {p : NP ℝ} (h : findNamed pl n = some p) : p ∈ pl ∧ p.name = n := by
  unfold findNamed at h
  exact ⟨List.mem_of_find?_eq_some h, by have := List.find?_some h; simpa using this⟩

theorem findNamed_none {pl : PList ℝ} {n : Nat} (h : findNamed pl n = none) : ∀ q ∈ pl, q.name ≠ n := by
  unfold findNamed at h
  intro q hq
  have := List.find?_eq_none.1 h q hq
  simpa using this

/-- `parameter(name).setValue(v)` with a value the parameter accepts -/
theorem setValueNamed_spec : ∀ (own own' : PList ℝ) (n : Nat) (v : ℝ), Good own → (names own).Nodup →
    (∀ q ∈ own, q.name = n → q.p.accepts v = true) → setValueNamed own n v = .ok own' →
    Like own own' ∧ (∀ q' ∈ own', q'.name = n → q'.p.value = v) ∧ (∀ q' ∈ own', q'.name ≠ n → q' ∈ own) := by
  intro own
  induction own with
  | nil => intro own' n v _ _ _ h; rw [setValueNamed] at h; cases h
  | cons q r ih =>
    intro own' n v hg hnd hacc h
    rw [names_cons, List.nodup_cons] at hnd
    have hgr : Good r := fun q' hq' => hg q' (List.mem_cons_of_mem _ hq')
    rw [setValueNamed] at h
    by_cases hqn : (q.name == n) = true
    · rw [if_pos hqn] at h
      have hqn' : q.name = n := by simpa using hqn
      have hs := setValue_accepted q.p v (hg q (List.mem_cons_self ..)).1 (hg q (List.mem_cons_self ..)).2
        (hacc q (List.mem_cons_self ..) hqn')
      rw [hs] at h
      simp only [Except.ok.injEq] at h
      subst h
      refine ⟨List.Forall₂.cons ⟨rfl, v, rfl, hacc q (List.mem_cons_self ..) hqn'⟩ (Like.refl hgr), ?_, ?_⟩
      · intro q' hq' hn
        rcases List.mem_cons.1 hq' with rfl | hm
        · rfl
        · exfalso; exact hnd.1 (by rw [hqn', ← hn]; exact mem_names hm)
      · intro q' hq' hn
        rcases List.mem_cons.1 hq' with rfl | hm
        · exact absurd hqn' hn
        · exact List.mem_cons_of_mem _ hm
    · rw [if_neg hqn] at h
      have hqn' : q.name ≠ n := by simpa using hqn
      cases hr : setValueNamed r n v with
      | error e => rw [hr] at h; cases h
      | ok r' =>
        rw [hr] at h
        simp only [Except.ok.injEq] at h
        subst h
        obtain ⟨h1, h2, h3⟩ := ih r' n v hgr hnd.2 (fun q' hq' => hacc q' (List.mem_cons_of_mem _ hq')) hr
        refine ⟨List.Forall₂.cons ⟨rfl, q.p.value, rfl, (hg q (List.mem_cons_self ..)).2⟩ h1, ?_, ?_⟩
        · intro q' hq' hn
          rcases List.mem_cons.1 hq' with rfl | hm
          · exact absurd hn hqn'
          · exact h2 q' hm hn
        · intro q' hq' hn
          rcases List.mem_cons.1 hq' with rfl | hm
          · exact List.mem_cons_self ..
          · exact List.mem_cons_of_mem _ (h3 q' hm hn)

/-- second loop of `matchParametersValues`, the values having been accepted by the first -/
theorem matchLoop_spec : ∀ (src own own' : PList ℝ), Good own → (names own).Nodup → (names src).Nodup →
    (∀ r ∈ src, ∀ q ∈ own, q.name = r.name → q.p.accepts r.p.value = true) →
    matchLoop own src = .ok own' →
    Like own own' ∧ (∀ q' ∈ own', ∀ r ∈ src, r.name = q'.name → q'.p.value = r.p.value) ∧
    (∀ q' ∈ own', q'.name ∉ names src → q' ∈ own) := by
  intro src
  induction src with
  | nil =>
    intro own own' hg _ _ _ h
    rw [matchLoop] at h
    simp only [Except.ok.injEq] at h
    subst h
    exact ⟨Like.refl hg, (fun _ _ r hr => nomatch hr), fun q' hq' _ => hq'⟩
  | cons r rs ih =>
    intro own own' hg hnd hnds hacc h
    rw [names_cons, List.nodup_cons] at hnds
    have haccr : ∀ r' ∈ rs, ∀ q ∈ own, q.name = r'.name → q.p.accepts r'.p.value = true :=
      fun r' hr' => hacc r' (List.mem_cons_of_mem _ hr')
    rw [matchLoop] at h
    cases hf : findNamed own r.name with
    | none =>
      rw [hf] at h
      simp only [] at h
      obtain ⟨h1, h2, h3⟩ := ih own own' hg hnd hnds.2 haccr h
      refine ⟨h1, ?_, ?_⟩
      · intro q' hq' r' hr' hn
        rcases List.mem_cons.1 hr' with rfl | hm
        · exfalso
          obtain ⟨x, hx, hxn, _⟩ := h1.mem_right hq'
          exact findNamed_none hf x hx (by rw [← hxn, hn])
        · exact h2 q' hq' r' hm hn
      · intro q' hq' hn
        rw [names_cons, List.mem_cons, not_or] at hn
        exact h3 q' hq' hn.2
    | some p =>
      rw [hf] at h
      simp only [] at h
      obtain ⟨hp, hpn⟩ := findNamed_some hf
      by_cases heq : p.p.value = r.p.value
      · rw [if_neg (by simp [ScalarReal.eqb_iff, heq])] at h
        obtain ⟨h1, h2, h3⟩ := ih own own' hg hnd hnds.2 haccr h
        refine ⟨h1, ?_, ?_⟩
        · intro q' hq' r' hr' hn
          rcases List.mem_cons.1 hr' with rfl | hm
          · have hq'own : q' ∈ own := h3 q' hq' (by rw [← hn]; exact hnds.1)
            have : q' = p := eq_of_nodup hnd hq'own hp (by rw [hpn, hn])
            rw [this]; exact heq
          · exact h2 q' hq' r' hm hn
        · intro q' hq' hn
          rw [names_cons, List.mem_cons, not_or] at hn
          exact h3 q' hq' hn.2
      · have hne : Scalar.eqb p.p.value r.p.value = false := by
          rw [Bool.eq_false_iff]; intro c; exact heq ((ScalarReal.eqb_iff _ _).1 c)
        rw [if_pos (by simp [hne])] at h
        cases hs : setValueNamed own r.name r.p.value with
        | error e => rw [hs] at h; cases h
        | ok own1 =>
          rw [hs] at h
          simp only [] at h
          obtain ⟨s1, s2, s3⟩ := setValueNamed_spec own own1 r.name r.p.value hg hnd
            (fun q hq hn => hacc r (List.mem_cons_self ..) q hq hn) hs
          have hg1 : Good own1 := s1.good hg
          have hnd1 : (names own1).Nodup := by rw [s1.names]; exact hnd
          have hacc1 : ∀ r' ∈ rs, ∀ q ∈ own1, q.name = r'.name → q.p.accepts r'.p.value = true := by
            intro r' hr' q hq hn
            obtain ⟨x, hx, hxn, w, e, _⟩ := s1.mem_right hq
            rw [e, reval_accepts]
            exact haccr r' hr' x hx (by rw [← hxn, hn])
          obtain ⟨h1, h2, h3⟩ := ih own1 own' hg1 hnd1 hnds.2 hacc1 h
          refine ⟨s1.trans h1, ?_, ?_⟩
          · intro q' hq' r' hr' hn
            rcases List.mem_cons.1 hr' with rfl | hm
            · have hq1 : q' ∈ own1 := h3 q' hq' (by rw [← hn]; exact hnds.1)
              exact s2 q' hq1 hn.symm
            · exact h2 q' hq' r' hm hn
          · intro q' hq' hn
            rw [names_cons, List.mem_cons, not_or] at hn
            exact s3 q' (h3 q' hq' hn.2) hn.1

/-- `own.matchParametersValues(src)` -/
theorem matchList_spec (own src own' : PList ℝ) (hg : Good own) (hnd : (names own).Nodup) (hnds : (names src).Nodup)
    (h : matchList own src = .ok own') :
    Like own own' ∧ (∀ q' ∈ own', ∀ r ∈ src, r.name = q'.name → q'.p.value = r.p.value) := by
  unfold matchList at h
  split at h
  · cases h
  · rename_i hany
    have hacc : ∀ r ∈ src, ∀ q ∈ own, q.name = r.name → q.p.accepts r.p.value = true := by
      intro r hr q hq hn
      have hno := hany
      rw [List.any_eq_true] at hno
      cases hf : findNamed own r.name with
      | none => exact absurd hn (findNamed_none hf q hq)
      | some p =>
        obtain ⟨hp, hpn⟩ := findNamed_some hf
        have : q = p := eq_of_nodup hnd hq hp (by rw [hpn, hn])
        rw [this]
        by_contra hc
        exact hno ⟨r, hr, by rw [hf]; simpa using hc⟩
    obtain ⟨h1, h2, _⟩ := matchLoop_spec src own own' hg hnd hnds hacc h
    exact ⟨h1, h2⟩

/-- `getParameters_().matchParametersValues(getFunction()->getParameters())`: the optimiser's list
then holds the function's point -/
theorem matchList_sync (own own' : PList ℝ) (fn : Fn ℝ) (hg : Good own) (hnd : (names own).Nodup)
    (hlt : ∀ q ∈ own, q.name < fn.point.length) (h : matchList own fn.params = .ok own') :
    Like own own' ∧ Sync fn own' := by
  obtain ⟨h1, h2⟩ := matchList_spec own fn.params own' hg hnd (by rw [Fn.params_names]; exact List.nodup_range) h
  refine ⟨h1, ?_⟩
  intro q' hq'
  obtain ⟨x, hx, hxn, _⟩ := h1.mem_right hq'
  have hl : q'.name < fn.point.length := by rw [hxn]; exact hlt x hx
  have hmem : (⟨q'.name, ⟨fn.point[q'.name], Scalar.zero, none, false⟩⟩ : NP ℝ) ∈ fn.params := by
    unfold Fn.params
    apply List.mem_map.2
    refine ⟨(q'.name, fn.point[q'.name]), ?_, rfl⟩
    apply List.mem_iff_getElem?.2
    exact ⟨q'.name, by rw [List.getElem?_zip_eq_some]; exact ⟨List.getElem?_range hl, List.getElem?_eq_getElem hl⟩⟩
  rw [h2 q' hq' _ hmem rfl, List.getElem?_eq_getElem hl]

end Bpp.Optim
