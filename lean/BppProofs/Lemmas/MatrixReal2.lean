import BppProofs.Lemmas.MatrixReal
/-! Helper lemmas for C04: `ℝ` identities (diagonal / tridiagonal / complex-diagonal products,
scale, covariance). -/
namespace Bpp.Mx
open Bpp Store

/-! `ℝ` identities between the entry as the code computes it and the textbook product -/

theorem mult_diag_right (a : Nat → Nat → ℝ) (d : Nat → ℝ) (n : Nat) (i k : Nat) (hk : k < n) :
    Spec.mult a (Spec.diag d) n i k = a i k * d k := by
  simp only [Spec.mult, sumTo_eq_sum, Spec.diag, ScalarReal.zero_eq, mul_ite, mul_zero]
  rw [Finset.sum_ite_eq' (Finset.range n) k (fun l => a i l * d l)]
  simp [hk]

theorem multD_eq (a b : Nat → Nat → ℝ) (d : Nat → ℝ) (n i j : Nat) :
    (Spec.sumTo n fun k => a i k * b k j * d k) = Spec.mult (Spec.mult a (Spec.diag d) n) b n i j := by
  simp only [Spec.mult, sumTo_eq_sum]
  apply Finset.sum_congr rfl
  intro k hk
  have := mult_diag_right a d n i k (Finset.mem_range.mp hk)
  simp only [Spec.mult, sumTo_eq_sum] at this
  rw [this]; ring

/-- the three-sum normal form of `A · tridiag(d,u,l) · B` at `(i,j)` -/
noncomputable def triSum (a b : Nat → Nat → ℝ) (d u l : Nat → ℝ) (n i j : Nat) : ℝ :=
  (∑ k ∈ Finset.range n, a i k * d k * b k j) + (∑ k ∈ Finset.range (n - 1), a i k * u k * b (k + 1) j)
    + (∑ k ∈ Finset.range (n - 1), a i (k + 1) * l k * b k j)

theorem triCode_eq_triSum (a b : Nat → Nat → ℝ) (d u l : Nat → ℝ) (n i j : Nat) (hn : 1 ≤ n) :
    triCode a b d u l n i j = triSum a b d u l n i j := by
  unfold triCode triSum
  by_cases h2 : n ≥ 2
  · obtain ⟨m, rfl⟩ : ∃ m, n = m + 2 := ⟨n - 2, by omega⟩
    rw [if_pos h2, accFrom_eq_sum]
    have e1 : m + 2 - 1 = m + 1 := rfl
    have e2 : m + 2 - 2 = m := rfl
    rw [e1, e2]
    rw [Finset.sum_range_succ (fun k => a i k * d k * b k j) (m + 1),
      Finset.sum_range_succ' (fun k => a i k * d k * b k j) m,
      Finset.sum_range_succ' (fun k => a i k * u k * b (k + 1) j) m,
      Finset.sum_range_succ (fun k => a i (k + 1) * l k * b k j) m]
    simp only [mul_add, Finset.sum_add_distrib]
    ring
  · have : n = 1 := by omega
    subst this
    simp

theorem tridiag_split (d u l : Nat → ℝ) (k m : Nat) :
    Spec.tridiag d u l k m = (if k = m then d k else 0) + (if m = k + 1 then u k else 0) + (if k = m + 1 then l m else 0) := by
  simp only [Spec.tridiag, ScalarReal.zero_eq]
  by_cases h1 : k = m
  · subst h1
    have h2 : ¬ k = k + 1 := by omega
    simp [h2]
  · by_cases h2 : m = k + 1
    · subst h2
      have h3 : ¬ k = k + 1 + 1 := by omega
      simp [h3]
    · by_cases h3 : k = m + 1
      · subst h3; simp [h2]
      · simp [h1, h2, h3]

theorem sum_range_pred (n : Nat) (f : Nat → ℝ) :
    (∑ k ∈ Finset.range n, if k + 1 < n then f k else 0) = ∑ k ∈ Finset.range (n - 1), f k := by
  cases n with
  | zero => simp
  | succ n =>
    rw [Finset.sum_range_succ]
    simp only [Nat.add_sub_cancel, lt_self_iff_false, if_false, add_zero]
    apply Finset.sum_congr rfl
    intro k hk
    have := Finset.mem_range.mp hk
    simp [this]

theorem triSpec_eq_triSum (a b : Nat → Nat → ℝ) (d u l : Nat → ℝ) (n i j : Nat) :
    Spec.mult (Spec.mult a (Spec.tridiag d u l) n) b n i j = triSum a b d u l n i j := by
  unfold triSum
  simp only [Spec.mult, sumTo_eq_sum, tridiag_split, mul_add, add_mul, Finset.sum_add_distrib, Finset.sum_mul]
  congr 1
  · congr 1
    · -- diagonal part
      apply Finset.sum_congr rfl
      intro m hm
      simp only [mul_ite, mul_zero, ite_mul, zero_mul]
      rw [Finset.sum_ite_eq' (Finset.range n) m (fun k => a i k * d k * b m j)]
      simp [hm]
    · -- super-diagonal part: Σ_m Σ_k a_k [m = k+1] u_k b_m
      rw [Finset.sum_comm]
      rw [← sum_range_pred n (fun k => a i k * u k * b (k + 1) j)]
      apply Finset.sum_congr rfl
      intro k hk
      simp only [mul_ite, mul_zero, ite_mul, zero_mul]
      rw [Finset.sum_ite_eq' (Finset.range n) (k + 1) (fun m => a i k * u k * b m j)]
      simp
  · -- sub-diagonal part: Σ_m Σ_k a_k [k = m+1] l_m b_m
    rw [← sum_range_pred n (fun m => a i (m + 1) * l m * b m j)]
    apply Finset.sum_congr rfl
    intro m hm
    simp only [mul_ite, mul_zero, ite_mul, zero_mul]
    rw [Finset.sum_ite_eq' (Finset.range n) (m + 1) (fun k => a i k * l m * b m j)]
    simp

theorem triCode_eq_spec (a b : Nat → Nat → ℝ) (d u l : Nat → ℝ) (n i j : Nat) (hn : 1 ≤ n) :
    triCode a b d u l n i j = Spec.mult (Spec.mult a (Spec.tridiag d u l) n) b n i j := by
  rw [triCode_eq_triSum _ _ _ _ _ _ _ _ hn, triSpec_eq_triSum]

theorem sum_mul_diag (x d : Nat → ℝ) (n k : Nat) (hk : k < n) :
    (∑ l ∈ Finset.range n, x l * Spec.diag d l k) = x k * d k := by
  simp only [Spec.diag, ScalarReal.zero_eq, mul_ite, mul_zero]
  rw [Finset.sum_ite_eq' (Finset.range n) k (fun l => x l * d l)]
  simp [hk]

theorem cmulRe_diag (a ia : Nat → Nat → ℝ) (d id : Nat → ℝ) (n i k : Nat) (hk : k < n) :
    Spec.cmulRe a ia (Spec.diag d) (Spec.diag id) n i k = a i k * d k - ia i k * id k := by
  simp only [Spec.cmulRe, sumTo_eq_sum]
  rw [show (∑ l ∈ Finset.range n, (a i l * Spec.diag d l k - ia i l * Spec.diag id l k))
      = (∑ l ∈ Finset.range n, a i l * Spec.diag d l k) - ∑ l ∈ Finset.range n, ia i l * Spec.diag id l k from
    Finset.sum_sub_distrib _ _]
  rw [sum_mul_diag _ _ _ _ hk, sum_mul_diag _ _ _ _ hk]

theorem cmulIm_diag (a ia : Nat → Nat → ℝ) (d id : Nat → ℝ) (n i k : Nat) (hk : k < n) :
    Spec.cmulIm a ia (Spec.diag d) (Spec.diag id) n i k = a i k * id k + ia i k * d k := by
  simp only [Spec.cmulIm, sumTo_eq_sum]
  rw [Finset.sum_add_distrib, sum_mul_diag _ _ _ _ hk, sum_mul_diag _ _ _ _ hk]

theorem multCD_re_eq (a ia b ib : Nat → Nat → ℝ) (d id : Nat → ℝ) (n i j : Nat) :
    (Spec.sumTo n fun k => (a i k * b k j - ia i k * ib k j) * d k - (a i k * ib k j + ia i k * b k j) * id k)
      = Spec.cmulRe (Spec.cmulRe a ia (Spec.diag d) (Spec.diag id) n) (Spec.cmulIm a ia (Spec.diag d) (Spec.diag id) n) b ib n i j := by
  rw [sumTo_eq_sum]
  simp only [Spec.cmulRe.eq_1 (Spec.cmulRe a ia (Spec.diag d) (Spec.diag id) n), sumTo_eq_sum]
  apply Finset.sum_congr rfl
  intro k hk
  rw [cmulRe_diag _ _ _ _ _ _ _ (Finset.mem_range.mp hk), cmulIm_diag _ _ _ _ _ _ _ (Finset.mem_range.mp hk)]
  ring

theorem multCD_im_eq (a ia b ib : Nat → Nat → ℝ) (d id : Nat → ℝ) (n i j : Nat) :
    (Spec.sumTo n fun k => (a i k * b k j - ia i k * ib k j) * id k + (a i k * ib k j + ia i k * b k j) * d k)
      = Spec.cmulIm (Spec.cmulRe a ia (Spec.diag d) (Spec.diag id) n) (Spec.cmulIm a ia (Spec.diag d) (Spec.diag id) n) b ib n i j := by
  rw [sumTo_eq_sum]
  simp only [Spec.cmulIm.eq_1 (Spec.cmulRe a ia (Spec.diag d) (Spec.diag id) n), sumTo_eq_sum]
  apply Finset.sum_congr rfl
  intro k hk
  rw [cmulRe_diag _ _ _ _ _ _ _ (Finset.mem_range.mp hk), cmulIm_diag _ _ _ _ _ _ _ (Finset.mem_range.mp hk)]
  ring

/-- `scale` at `ℝ`: the shortcut `a == 1 && b == 0` agrees with the general formula -/
theorem scale_holds_real {A : Store ℝ} (hA : A.WF) (a b : ℝ) :
    ∃ A', scale A a b = .ok A' ∧ A'.kind = A.kind ∧ A'.Holds A.nrows A.ncols (Spec.scale A.entry a b) := by
  obtain ⟨A', e, k, h⟩ := scale_holds hA a b
  refine ⟨A', e, k, h.congr ?_⟩
  intro i j _ _
  split
  · next hc =>
    simp only [Bool.and_eq_true, ScalarReal.eqb_iff, ScalarReal.one_eq, ScalarReal.zero_eq] at hc
    simp [Spec.scale, hc.1, hc.2]
  · rfl

theorem Store.Holds.dims_of_pos {S : Store ℝ} {r c : Nat} {g : Nat → Nat → ℝ} (h : S.Holds r c g) (hr : 0 < r) (hc : 0 < c) :
    S.nrows = r ∧ S.ncols = c := h.dims_pos hr hc

/-- `covar` of a sample matrix with at least one row and one column -/
theorem covar_holds {A : Store ℝ} (hA : A.WF) (hr : 0 < A.nrows) (hn : 0 < A.ncols) (O : Store ℝ) :
    ∃ O', covar A O = .ok O' ∧ O'.kind = O.kind ∧ O'.Holds A.nrows A.nrows (Spec.covar A.entry A.ncols) := by
  unfold covar
  simp only
  -- tA
  obtain ⟨tA, e1, _, h1⟩ := transpose_holds hA (Store.empty .row : Store ℝ)
  obtain ⟨tr, tc⟩ := h1.dims_pos hn hr
  -- O1 = A * tA
  obtain ⟨O1, e2, k2, h2⟩ := mult_holds hA h1.1 (O.resize A.nrows A.nrows) (by rw [tr])
  rw [tc] at h2
  obtain ⟨o1r, o1c⟩ := h2.dims_sq
  -- O2 = O1 / n
  obtain ⟨O2, e3, k3, h3⟩ := scale_holds_real h2.1 (Scalar.one / Scalar.ofInt (A.ncols : Int)) Scalar.zero
  rw [o1r, o1c] at h3
  obtain ⟨o2r, o2c⟩ := h3.dims_sq
  -- mean
  obtain ⟨mean, e4, _, h4⟩ := fill_resize_holds (Store.empty .row : Store ℝ) (r := A.nrows) (c := 1)
    (f := meanAt A)
    (g := fun i _ => Spec.rowMean A.entry A.ncols i)
    (fun i j hi _ => by
      unfold meanAt
      rw [dot_ok (t := fun j => A.entry i j) (fun j hj => get_eq_entry hA hi hj)]; rfl)
  obtain ⟨mr, mc⟩ := h4.dims_pos hr (by omega)
  -- tMean
  obtain ⟨tMean, e5, _, h5⟩ := transpose_holds h4.1 (Store.empty .row : Store ℝ)
  rw [mr, mc] at h5
  obtain ⟨tmr, tmc⟩ := h5.dims_pos (by omega) hr
  -- meanMat
  obtain ⟨meanMat, e6, _, h6⟩ := mult_holds h4.1 h5.1 (Store.empty .row : Store ℝ) (by rw [mc, tmr])
  rw [mr, tmc, mc] at h6
  obtain ⟨mmr, mmc⟩ := h6.dims_sq
  -- mm = -meanMat
  obtain ⟨mm, e7, _, h7⟩ := scale_holds_real h6.1 (Scalar.ofInt (-1)) Scalar.zero
  rw [mmr, mmc] at h7
  obtain ⟨m2r, m2c⟩ := h7.dims_sq
  -- O2 + mm
  obtain ⟨O', e8, k8, h8⟩ := add_holds h3.1 h7.1 (by rw [o2r, m2r]) (by rw [o2c, m2c])
  rw [o2r, o2c] at h8
  refine ⟨O', by simp only [e1, e2, e3, e4, e5, e6, e7, e8], by rw [k8, k3, k2, resize_kind], h8.congr ?_⟩
  intro i l hi hl
  simp only [Spec.add, Spec.covar]
  rw [h3.entry_eq hi hl, h7.entry_eq hi hl]
  simp only [Spec.scale, h2.entry_eq hi hl, h6.entry_eq hi hl, Spec.mult, sumTo_eq_sum, ScalarReal.zero_eq, add_zero]
  rw [Finset.sum_range_one, h4.entry_eq hi (by omega), h5.entry_eq (by omega) hl]
  simp only [Spec.transpose]
  rw [h4.entry_eq hl (by omega)]
  congr 2
  apply Finset.sum_congr rfl
  intro k hk
  rw [h1.entry_eq (Finset.mem_range.mp hk) hl]
  rfl

end Bpp.Mx
