import BppModel.OptimSpec
import BppProofs.Lemmas.ScalarReal
import BppProofs.Lemmas.Param
/-!
Helper lemmas for C10: the `AbstractOptimizer` template (loop, counter, invariants).
Everything here holds for every scalar type, every function object `F` and every optimiser `A`.
-/
set_option linter.unusedSectionVars false
namespace Bpp.Optim
open Bpp

variable {α : Type} [Scalar α] {F τ : Type}

/-- the guard of the `for` loop of `optimize` -/
def Guard (s : St F τ α) : Prop := s.core.nbEval < s.core.nbEvalMax ∧ s.core.tol = false

instance (s : St F τ α) : Decidable (Guard s) := by unfold Guard; infer_instance

theorem guard_iff (s : St F τ α) :
    (decide (s.core.nbEval < s.core.nbEvalMax) && !s.core.tol) = true ↔ Guard s := by
  unfold Guard; cases s.core.tol <;> simp

/-- the state with which the loop goes on after a step -/
def bump (s : St F τ α) : St F τ α := { s with core := { s.core with nbEval := s.core.nbEval + 1 } }

theorem loop_zero (A : Algo F τ α) (s : St F τ α) :
    A.loop 0 s = if Guard s then .error (.hang, s.fn) else .ok s := by
  unfold Algo.loop
  by_cases h : Guard s
  · rw [if_pos ((guard_iff s).2 h), if_pos h]
  · rw [if_neg (fun c => h ((guard_iff s).1 c)), if_neg h]

theorem loop_succ (A : Algo F τ α) (fuel : Nat) (s : St F τ α) :
    A.loop (fuel + 1) s =
      if Guard s then
        (match A.step s with
         | .error e => .error e
         | .ok (s1, _) => A.loop fuel (bump s1))
      else .ok s := by
  rw [Algo.loop]
  by_cases h : Guard s
  · rw [if_pos ((guard_iff s).2 h), if_pos h]; rfl
  · rw [if_neg (fun c => h ((guard_iff s).1 c)), if_neg h]

/-- what `step` does with the counters, given what `doStep` and `stop` do -/
structure Monotone (A : Algo F τ α) : Prop where
  doStep_counter : ∀ s s' v, A.doStep s = .ok (s', v) →
    s.core.nbEval ≤ s'.core.nbEval ∧ s'.core.nbEvalMax = s.core.nbEvalMax
  stop_counter : ∀ s, (A.stop s).1.core.nbEval = s.core.nbEval ∧ (A.stop s).1.core.nbEvalMax = s.core.nbEvalMax

theorem step_cases (A : Algo F τ α) (s : St F τ α) {s' : St F τ α} {v : α} (h : A.step s = .ok (s', v)) :
    ∃ s1, A.doStep s = .ok (s1, v) ∧
      ((s1.core.tol = true ∧ s' = { s1 with core := { s1.core with cur := v } }) ∨
       (s1.core.tol = false ∧
         s' = { (A.stop { s1 with core := { s1.core with cur := v } }).1 with
                core := { (A.stop { s1 with core := { s1.core with cur := v } }).1.core with
                          tol := (A.stop { s1 with core := { s1.core with cur := v } }).2 } })) := by
  unfold Algo.step at h
  cases hd : A.doStep s with
  | error e => rw [hd] at h; simp at h
  | ok r =>
    obtain ⟨s1, w⟩ := r
    rw [hd] at h
    simp only [] at h
    by_cases ht : s1.core.tol = true
    · rw [if_pos (by simpa using ht)] at h
      simp only [Except.ok.injEq, Prod.mk.injEq] at h
      obtain ⟨h1, h2⟩ := h
      subst h2
      exact ⟨s1, rfl, Or.inl ⟨ht, h1.symm⟩⟩
    · have ht' : s1.core.tol = false := by simpa using ht
      rw [if_neg (by simpa using ht)] at h
      simp only [Except.ok.injEq, Prod.mk.injEq] at h
      obtain ⟨h1, h2⟩ := h
      subst h2
      exact ⟨s1, rfl, Or.inr ⟨ht', h1.symm⟩⟩

theorem step_counter (A : Algo F τ α) (hm : Monotone A) (s : St F τ α) {s' : St F τ α} {v : α}
    (h : A.step s = .ok (s', v)) :
    s.core.nbEval ≤ s'.core.nbEval ∧ s'.core.nbEvalMax = s.core.nbEvalMax := by
  obtain ⟨s1, hd, hc⟩ := step_cases A s h
  have h1 := hm.doStep_counter s s1 v hd
  rcases hc with ⟨_, rfl⟩ | ⟨_, rfl⟩
  · exact h1
  · have h2 := hm.stop_counter { s1 with core := { s1.core with cur := v } }
    simp only [] at h2 ⊢
    exact ⟨by rw [h2.1]; exact h1.1, by rw [h2.2]; exact h1.2⟩

/-- with `nbEvalMax - nbEval` units of fuel (or more) the result of the loop does not depend on the
fuel: the guard fails before the fuel runs out -/
theorem loop_fuel_irrelevant (A : Algo F τ α) (hm : Monotone A) :
    ∀ (fuel : Nat) (s : St F τ α), s.core.nbEvalMax ≤ fuel + s.core.nbEval →
      ∀ k, A.loop (fuel + k) s = A.loop fuel s := by
  intro fuel
  induction fuel with
  | zero =>
    intro s hs k
    have hg : ¬ Guard s := by unfold Guard; omega
    rw [loop_zero, if_neg hg]
    cases k with
    | zero => rw [Nat.zero_add, loop_zero, if_neg hg]
    | succ k => rw [Nat.zero_add, loop_succ, if_neg hg]
  | succ fuel ih =>
    intro s hs k
    have e : fuel + 1 + k = (fuel + k) + 1 := by omega
    rw [e, loop_succ, loop_succ]
    by_cases hg : Guard s
    · rw [if_pos hg, if_pos hg]
      cases hst : A.step s with
      | error e => rfl
      | ok r =>
        obtain ⟨s1, v⟩ := r
        simp only []
        have hc := step_counter A hm s hst
        apply ih
        show s1.core.nbEvalMax ≤ fuel + (s1.core.nbEval + 1)
        rw [hc.2]; omega
    · rw [if_neg hg, if_neg hg]

/-- a loop that returns normally has left the guard false -/
theorem loop_ok_guard (A : Algo F τ α) :
    ∀ (fuel : Nat) (s s' : St F τ α), A.loop fuel s = .ok s' → ¬ Guard s' := by
  intro fuel
  induction fuel with
  | zero =>
    intro s s' h
    rw [loop_zero] at h
    by_cases hg : Guard s
    · rw [if_pos hg] at h; cases h
    · rw [if_neg hg] at h; cases h; exact hg
  | succ fuel ih =>
    intro s s' h
    rw [loop_succ] at h
    by_cases hg : Guard s
    · rw [if_pos hg] at h
      cases hst : A.step s with
      | error e => rw [hst] at h; cases h
      | ok r => obtain ⟨s1, v⟩ := r; rw [hst] at h; exact ih _ _ h
    · rw [if_neg hg] at h; cases h; exact hg

/-- the loop's own fuel is the reason of a `hang` only when it is smaller than `nbEvalMax - nbEval`:
otherwise every error the loop returns is an error of one of its steps -/
theorem loop_error_from_step (A : Algo F τ α) (hm : Monotone A) :
    ∀ (fuel : Nat) (s : St F τ α) (e : Exc × F), s.core.nbEvalMax ≤ fuel + s.core.nbEval →
      A.loop fuel s = .error e → ∃ s0, Guard s0 ∧ A.step s0 = .error e := by
  intro fuel
  induction fuel with
  | zero =>
    intro s e hs h
    have hg : ¬ Guard s := by unfold Guard; omega
    rw [loop_zero, if_neg hg] at h; cases h
  | succ fuel ih =>
    intro s e hs h
    rw [loop_succ] at h
    by_cases hg : Guard s
    · rw [if_pos hg] at h
      cases hst : A.step s with
      | error e' => rw [hst] at h; simp only [Except.error.injEq] at h; subst h; exact ⟨s, hg, hst⟩
      | ok r =>
        obtain ⟨s1, v⟩ := r
        rw [hst] at h
        have hc := step_counter A hm s hst
        exact ih (bump s1) e (by show s1.core.nbEvalMax ≤ fuel + (s1.core.nbEval + 1); rw [hc.2]; omega) h
    · rw [if_neg hg] at h; cases h

/-- invariants: a predicate kept by `step` and not looking at the counter is kept by the loop -/
theorem loop_invariant (A : Algo F τ α) (R : St F τ α → Prop)
    (hstep : ∀ s s' v, R s → Guard s → A.step s = .ok (s', v) → R s')
    (hbump : ∀ s, R s → R (bump s)) :
    ∀ (fuel : Nat) (s s' : St F τ α), R s → A.loop fuel s = .ok s' → R s' := by
  intro fuel
  induction fuel with
  | zero =>
    intro s s' hr h
    rw [loop_zero] at h
    by_cases hg : Guard s
    · rw [if_pos hg] at h; cases h
    · rw [if_neg hg] at h; cases h; exact hr
  | succ fuel ih =>
    intro s s' hr h
    rw [loop_succ] at h
    by_cases hg : Guard s
    · rw [if_pos hg] at h
      cases hst : A.step s with
      | error e => rw [hst] at h; cases h
      | ok r =>
        obtain ⟨s1, v⟩ := r
        rw [hst] at h
        exact ih _ _ (hbump _ (hstep s s1 v hr hg hst)) h
    · rw [if_neg hg] at h; cases h; exact hr

/-- the same for what an exception carries (the function at the moment of the `throw`) -/
theorem loop_invariant_error (A : Algo F τ α) (R : St F τ α → Prop) (J : F → Prop)
    (hstep : ∀ s s' v, R s → Guard s → A.step s = .ok (s', v) → R s')
    (hbump : ∀ s, R s → R (bump s))
    (herr : ∀ s e fn, R s → A.step s = .error (e, fn) → J fn)
    (hfn : ∀ s, R s → J s.fn) :
    ∀ (fuel : Nat) (s : St F τ α) e fn, R s → A.loop fuel s = .error (e, fn) → J fn := by
  intro fuel
  induction fuel with
  | zero =>
    intro s e fn hr h
    rw [loop_zero] at h
    by_cases hg : Guard s
    · rw [if_pos hg] at h
      simp only [Except.error.injEq, Prod.mk.injEq] at h
      rw [← h.2]; exact hfn s hr
    · rw [if_neg hg] at h; cases h
  | succ fuel ih =>
    intro s e fn hr h
    rw [loop_succ] at h
    by_cases hg : Guard s
    · rw [if_pos hg] at h
      cases hst : A.step s with
      | error e' =>
        rw [hst] at h
        simp only [Except.error.injEq] at h
        subst h
        exact herr s e fn hr hst
      | ok r =>
        obtain ⟨s1, v⟩ := r
        rw [hst] at h
        exact ih _ _ _ (hbump _ (hstep s s1 v hr hg hst)) h
    · rw [if_neg hg] at h; cases h

/-- the history of a loop that returns normally: either no step was made, or there is a last step,
begun with the guard true, after which the counter was incremented once -/
theorem loop_last_step (A : Algo F τ α) :
    ∀ (fuel : Nat) (s s' : St F τ α), A.loop fuel s = .ok s' →
      s' = s ∨ ∃ sb sa v, Guard sb ∧ A.step sb = .ok (sa, v) ∧ s' = bump sa := by
  intro fuel
  induction fuel with
  | zero =>
    intro s s' h
    rw [loop_zero] at h
    by_cases hg : Guard s
    · rw [if_pos hg] at h; cases h
    · rw [if_neg hg] at h; cases h; exact Or.inl rfl
  | succ fuel ih =>
    intro s s' h
    rw [loop_succ] at h
    by_cases hg : Guard s
    · rw [if_pos hg] at h
      cases hst : A.step s with
      | error e => rw [hst] at h; cases h
      | ok r =>
        obtain ⟨s1, v⟩ := r
        rw [hst] at h
        rcases ih _ _ h with rfl | hex
        · exact Or.inr ⟨s, s1, v, hg, hst, rfl⟩
        · exact Or.inr hex
    · rw [if_neg hg] at h; cases h; exact Or.inl rfl

/-- `loop_last_step` with an invariant: the state in which the last step began satisfies it -/
theorem loop_last_step_inv (A : Algo F τ α) (R : St F τ α → Prop)
    (hstep : ∀ s s' v, R s → Guard s → A.step s = .ok (s', v) → R s')
    (hbump : ∀ s, R s → R (bump s)) :
    ∀ (fuel : Nat) (s s' : St F τ α), R s → A.loop fuel s = .ok s' →
      s' = s ∨ ∃ sb sa v, R sb ∧ Guard sb ∧ A.step sb = .ok (sa, v) ∧ s' = bump sa := by
  intro fuel
  induction fuel with
  | zero =>
    intro s s' _ h
    rw [loop_zero] at h
    by_cases hg : Guard s
    · rw [if_pos hg] at h; cases h
    · rw [if_neg hg] at h; cases h; exact Or.inl rfl
  | succ fuel ih =>
    intro s s' hr h
    rw [loop_succ] at h
    by_cases hg : Guard s
    · rw [if_pos hg] at h
      cases hst : A.step s with
      | error e => rw [hst] at h; cases h
      | ok r =>
        obtain ⟨s1, v⟩ := r
        rw [hst] at h
        rcases ih _ _ (hbump _ (hstep s s1 v hr hg hst)) h with rfl | hex
        · exact Or.inr ⟨s, s1, v, hr, hg, hst, rfl⟩
        · exact Or.inr hex
    · rw [if_neg hg] at h; cases h; exact Or.inl rfl

end Bpp.Optim
