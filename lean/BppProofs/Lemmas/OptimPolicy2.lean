import BppProofs.Lemmas.OptimLinePolicy
import BppProofs.Lemmas.OptimSimplex
import BppModel.OptimMeta
/-!
Helper lemmas for C10: the constraint policy of the remaining optimisers — `NewtonOneDimension`,
`SimpleMultiDimensions`, `SimpleNewtonMultiDimensions`, `DownhillSimplexMethod`, `MetaOptimizer`.

Compared with `OptimPolicy` / `OptimLinePolicy`, these optimisers do not only hand *tied* lists to the
function:
* `NewtonOneDimension::doStep` puts the function back (`setParameters(bck)`) at the point the step found
  it at, with the function's *own* list `getParameters()` (plain parameters without constraints): the
  point restored is the point of a function that was fine (`SafeRestore`; for the objective of the
  harness `FeasL`: feasible log and point, and a length that never changes — `matchPoint_restore`);
* the coordinate-wise optimisers and the `MetaOptimizer` copy the function's point into their own list
  with `matchParametersValues` (`matchList`): whatever the source, the list stays tied (`matchList_tied`);
  they run a one-dimensional optimiser whose constraint policy is their own: the policy is carried
  through `init` / `step` / `optimize` (`KeepsPolicy`);
* the simplex evaluates the function at the unconstrained list `pSum` holding the midpoints of two
  vertices: only the *values* of a list matter for the feasibility of the point (`Within`, `SafeF`), and an
  interval constraint accepts the midpoint of two values it accepts (`mids_within`); that the list of sums
  *takes* the midpoints needs parameters of precision 0 (`Prec0`, `Vert`, `SimplexJ`) — `SimplexCex` is a
  run in exact rational arithmetic where, with a positive precision, it does not;
* the `MetaOptimizer` drives a `SimpleMultiDimensions` and a `BfgsMultiDimensions` on sub-lists of its own
  list, under its own policy (`MetaJ`).
`InvStep` is the template (`init` / `step` / `loop` / `optimize`) for an invariant of the whole state.
Everything is generic in the function interface `I` (`Safe`, `SafeSet`, `SafeRestore`, `SafeF` are what is
asked of it); `objective_safeL`, `objective_safeSetL`, `objective_restore`, `objective_safeW` instantiate them
for the objective of the harness.
-/
set_option linter.unusedSectionVars false
namespace Bpp.Optim
open Bpp

variable {F : Type}

/-! ### lists whose values the recorded constraints accept -/

/-- only the *values* of the list are accepted by the constraints `cons` records for their names
(whatever constraints the parameters of the list carry themselves) -/
def Within (cons : Spec.Cons ℝ) (pl : PList ℝ) : Prop :=
  ∀ q ∈ pl, ∀ c, (q.name, c) ∈ cons → Spec.accepts c q.p.value = true

theorem accepts_eq (p : Param ℝ) (v : ℝ) : p.accepts v = Spec.accepts p.constraint v := by
  unfold Param.accepts Spec.accepts; rfl

theorem Tied.within {cons : Spec.Cons ℝ} {pl : PList ℝ} (h : Tied cons pl) : Within cons pl := by
  intro q hq c hc
  obtain ⟨h1, h2⟩ := h q hq
  rw [← h2 c hc, ← accepts_eq]; exact h1

theorem matchPoint_within (cons : Spec.Cons ℝ) : ∀ (pl : PList ℝ) (pt : List ℝ), Within cons pl →
    Spec.feasiblePoint cons pt = true → Spec.feasiblePoint cons (matchPoint pt pl) = true := by
  intro pl
  induction pl with
  | nil => intro pt _ hp; exact hp
  | cons q r ih =>
    intro pt hT hp
    rw [matchPoint]
    apply ih _ (fun q' hq' => hT q' (List.mem_cons_of_mem _ hq'))
    split
    · rw [own_real]
      exact feasiblePoint_set cons pt q.name q.p.value hp (hT q (List.mem_cons_self ..))
    · exact hp

/-- `setParameters` with a list whose values are accepted: the point it logs is feasible -/
theorem setParameters_within (cons : Spec.Cons ℝ) (fn : Fn ℝ) (pl : PList ℝ) (hQ : FeasFn cons fn) (hT : Within cons pl) :
    FeasFn cons (fn.setParameters pl) := by
  have := matchPoint_within cons pl fn.point hT hQ.2
  refine ⟨?_, this⟩
  show Spec.feasibleLog cons (matchPoint fn.point pl :: fn.log) = true
  unfold Spec.feasibleLog
  rw [List.all_cons, this]
  exact hQ.1

/-! ### the objective of the harness, with its length -/

/-- `FeasFn`, and the function has `L` parameters (no member of the interface changes that number) -/
def FeasL (cons : Spec.Cons ℝ) (L : Nat) (fn : Fn ℝ) : Prop := FeasFn cons fn ∧ fn.point.length = L

theorem FeasL.feas {cons : Spec.Cons ℝ} {L : Nat} {fn : Fn ℝ} (h : FeasL cons L fn) : FeasFn cons fn := h.1

theorem setParameters_feasL (cons : Spec.Cons ℝ) (L : Nat) (fn : Fn ℝ) (pl : PList ℝ) (hQ : FeasL cons L fn)
    (hT : Within cons pl) : FeasL cons L (fn.setParameters pl) :=
  ⟨setParameters_within cons fn pl hQ.1 hT, by show (matchPoint fn.point pl).length = L; rw [matchPoint_length]; exact hQ.2⟩

/-- `setParameters(getParameters())` of an earlier (fine) state of the function: the point logged is
the point of that state -/
theorem setParameters_restore (cons : Spec.Cons ℝ) (L : Nat) (fn fn0 : Fn ℝ) (hQ : FeasL cons L fn) (hQ0 : FeasL cons L fn0) :
    FeasL cons L (fn.setParameters fn0.params) := by
  have hp : matchPoint fn.point fn0.params = fn0.point := matchPoint_restore fn0 fn.point (by rw [hQ.2, hQ0.2])
  refine ⟨⟨?_, ?_⟩, ?_⟩
  · show Spec.feasibleLog cons (matchPoint fn.point fn0.params :: fn.log) = true
    unfold Spec.feasibleLog
    rw [List.all_cons, hp, hQ0.1.2]
    exact hQ.1.1
  · show Spec.feasiblePoint cons (matchPoint fn.point fn0.params) = true
    rw [hp]; exact hQ0.1.2
  · show (matchPoint fn.point fn0.params).length = L
    rw [hp]; exact hQ0.2

/-- what the interface's `f` returns or raises is `setParameters` of the function -/
theorem iface_f_cases (obj : List ℝ → ℝ) (D : Deriv ℝ) (cap : Option Nat) (fn : Fn ℝ) (pl : PList ℝ) (P : Fn ℝ → Prop)
    (h : P (fn.setParameters pl)) : ROk P (fun r => P r.1) ((Fn.iface obj D cap).f fn pl) := by
  simp only [Fn.iface]
  split
  · exact h
  · exact h

theorem iface_set_cases (obj : List ℝ → ℝ) (D : Deriv ℝ) (cap : Option Nat) (fn : Fn ℝ) (pl : PList ℝ) (P : Fn ℝ → Prop)
    (h : P (fn.setParameters pl)) : ROk P P ((Fn.iface obj D cap).setParameters fn pl) := by
  simp only [Fn.iface]
  split
  · exact h
  · exact h

/-- an evaluation of the objective at a list whose values are accepted -/
theorem objective_f_within (obj : List ℝ → ℝ) (D : Deriv ℝ) (cap : Option Nat) (cons : Spec.Cons ℝ) (L : Nat)
    (fn : Fn ℝ) (pl : PList ℝ) (hQ : FeasL cons L fn) (hT : Within cons pl) :
    ROk (FeasL cons L) (fun r => FeasL cons L r.1) ((Fn.iface obj D cap).f fn pl) :=
  iface_f_cases obj D cap fn pl _ (setParameters_feasL cons L fn pl hQ hT)

theorem objective_safeL (obj : List ℝ → ℝ) (D : Deriv ℝ) (cap : Option Nat) (cons : Spec.Cons ℝ) (L : Nat) :
    Safe (Fn.iface obj D cap) (FeasL cons L) (Tied cons) := by
  refine ⟨?_, ?_, fun pl i x pl' hT h => setValueAt_tied cons pl i x pl' hT h⟩
  · intro fn pl fn' v hQ hT h
    have := objective_f_within obj D cap cons L fn pl hQ hT.within
    rw [h] at this; exact this
  · intro fn pl e fn' hQ hT h
    have := objective_f_within obj D cap cons L fn pl hQ hT.within
    rw [h] at this; exact this

theorem objective_safeSetL (obj : List ℝ → ℝ) (D : Deriv ℝ) (cap : Option Nat) (cons : Spec.Cons ℝ) (L : Nat) :
    SafeSet (Fn.iface obj D cap) (FeasL cons L) (Tied cons) := by
  refine ⟨?_, ?_⟩
  · intro fn pl fn' hQ hT h
    have := iface_set_cases obj D cap fn pl _ (setParameters_feasL cons L fn pl hQ hT.within)
    rw [h] at this; exact this
  · intro fn pl e fn' hQ hT h
    have := iface_set_cases obj D cap fn pl _ (setParameters_feasL cons L fn pl hQ hT.within)
    rw [h] at this; exact this

/-- putting the function back where an earlier state of it was keeps `Q` -/
structure SafeRestore (I : FunI F ℝ) (Q : F → Prop) : Prop where
  ok : ∀ fn fn0 fn', Q fn → Q fn0 → I.setParameters fn (I.getParameters fn0) = .ok fn' → Q fn'
  err : ∀ fn fn0 e fn', Q fn → Q fn0 → I.setParameters fn (I.getParameters fn0) = .error (e, fn') → Q fn'

theorem objective_restore (obj : List ℝ → ℝ) (D : Deriv ℝ) (cap : Option Nat) (cons : Spec.Cons ℝ) (L : Nat) :
    SafeRestore (Fn.iface obj D cap) (FeasL cons L) := by
  refine ⟨?_, ?_⟩
  · intro fn fn0 fn' hQ hQ0 h
    have := iface_set_cases obj D cap fn fn0.params _ (setParameters_restore cons L fn fn0 hQ hQ0)
    rw [iface_getParameters] at h
    rw [h] at this; exact this
  · intro fn fn0 e fn' hQ hQ0 h
    have := iface_set_cases obj D cap fn fn0.params _ (setParameters_restore cons L fn fn0 hQ hQ0)
    rw [iface_getParameters] at h
    rw [h] at this; exact this

/-! ### `matchParametersValues` keeps a list tied -/

theorem setValueNamed_tied (cons : Spec.Cons ℝ) : ∀ (own : PList ℝ) (n : Nat) (v : ℝ) (own' : PList ℝ),
    Tied cons own → setValueNamed own n v = .ok own' → Tied cons own' := by
  intro own
  induction own with
  | nil => intro n v own' _ h; rw [setValueNamed] at h; cases h
  | cons q r ih =>
    intro n v own' hT h
    rw [setValueNamed] at h
    split at h
    · split at h
      · rename_i p' hs
        simp only [Except.ok.injEq] at h
        subst h
        exact Tied.cons' (setValue_tied_np hT.head hs) hT.tail
      · cases h
    · split at h
      · rename_i r' hr
        simp only [Except.ok.injEq] at h
        subst h
        exact Tied.cons' hT.head (ih n v r' hT.tail hr)
      · cases h

theorem matchLoop_tied (cons : Spec.Cons ℝ) : ∀ (src own own' : PList ℝ),
    Tied cons own → matchLoop own src = .ok own' → Tied cons own' := by
  intro src
  induction src with
  | nil => intro own own' hT h; rw [matchLoop] at h; simp only [Except.ok.injEq] at h; subst h; exact hT
  | cons q qs ih =>
    intro own own' hT h
    rw [matchLoop] at h
    split at h
    · exact ih own own' hT h
    · split at h
      · split at h
        · rename_i own1 hs
          exact ih own1 own' (setValueNamed_tied cons own _ _ own1 hT hs) h
        · cases h
      · exact ih own own' hT h

/-- `own.matchParametersValues(src)`, whatever `src` holds: every value written went through the
`setValue` of a parameter of `own` -/
theorem matchList_tied (cons : Spec.Cons ℝ) (own src own' : PList ℝ) (hT : Tied cons own)
    (h : matchList own src = .ok own') : Tied cons own' := by
  unfold matchList at h
  split at h
  · cases h
  · exact matchLoop_tied cons src own own' hT h

/-- the `keep` and `auto` policies keep a list tied -/
theorem applyPolicy_tied' (cons : Spec.Cons ℝ) (pol : Policy) (pl : PList ℝ) (hpol : pol ≠ .ignore) (h : Tied cons pl) :
    Tied cons (applyPolicy pol pl) := by
  cases pol with
  | ignore => exact absurd rfl hpol
  | keep => exact h
  | auto => exact toAuto_tied cons pl h

/-! ### the template: the constraint policy is carried through -/

/-- the virtual members of the optimiser leave the constraint policy alone -/
structure KeepsPolicy {τ : Type} (A : Algo F τ ℝ) : Prop where
  doInit : ∀ s p s', A.doInit s p = .ok s' → s'.core.policy = s.core.policy
  doStep : ∀ s s' v, A.doStep s = .ok (s', v) → s'.core.policy = s.core.policy
  stopInit : ∀ s, (A.stopInit s).core.policy = s.core.policy
  stop : ∀ s, (A.stop s).1.core.policy = s.core.policy

section
variable {τ : Type} {A : Algo F τ ℝ}

theorem init_policy (hk : KeepsPolicy A) (s s1 : St F τ ℝ) (params : PList ℝ) (h : A.init s params = .ok s1) :
    s1.core.policy = s.core.policy := by
  unfold Algo.init at h
  simp only [] at h
  split at h
  · cases h
  · rename_i s2 hd
    simp only [Except.ok.injEq] at h
    subst h
    rw [hk.stopInit]
    exact (hk.doInit _ _ s2 hd : s2.core.policy = _)

theorem step_policy (hk : KeepsPolicy A) (s s1 : St F τ ℝ) (v : ℝ) (h : A.step s = .ok (s1, v)) :
    s1.core.policy = s.core.policy := by
  obtain ⟨sa, hd, hc⟩ := step_cases A s h
  have := hk.doStep _ _ _ hd
  rcases hc with ⟨_, rfl⟩ | ⟨_, rfl⟩
  · exact this
  · show (A.stop _).1.core.policy = _
    rw [hk.stop]; exact this

theorem optimize_policy (hk : KeepsPolicy A) (fuel : Nat) (s s1 : St F τ ℝ) (v : ℝ) (h : A.optimize fuel s = .ok (s1, v)) :
    s1.core.policy = s.core.policy := by
  unfold Algo.optimize at h
  split at h
  · cases h
  · cases hl : A.loop fuel { s with core := { s.core with tol := false, nbEval := 1 } } with
    | error e => rw [hl] at h; cases h
    | ok sL =>
      rw [hl] at h
      simp only [Except.ok.injEq, Prod.mk.injEq] at h
      obtain ⟨rfl, _⟩ := h
      exact loop_invariant A (fun u => u.core.policy = s.core.policy)
        (fun u u' w hu _ hst => (step_policy hk u u' w hst).trans hu) (fun u hu => hu) fuel
        ({ s with core := { s.core with tol := false, nbEval := 1 } } : St F τ ℝ) _ rfl hl

theorem fscStop_policy (s : St F τ ℝ) : (fscStop s).1.core.policy = s.core.policy := by
  unfold fscStop; simp only []; split <;> rfl

end

/-! ### the template: an invariant of the whole state -/

/-- `J` is an invariant of the optimiser's state (function, list, own fields) that does not look at
the template's counters and flags; `Q` is what it says of the function -/
structure InvStep {τ : Type} (A : Algo F τ ℝ) (Q : F → Prop) (J : St F τ ℝ → Prop) : Prop where
  fn : ∀ s, J s → Q s.fn
  doStep : ∀ s, J s → ROk Q (fun r => J r.1) (A.doStep s)
  stopInit : ∀ s, J s → J (A.stopInit s)
  stop : ∀ s, J s → J (A.stop s).1
  core : ∀ s (c : Core ℝ), J s → c.params = s.core.params → c.policy = s.core.policy → J { s with core := c }

section
variable {τ : Type} {A : Algo F τ ℝ} {Q : F → Prop} {J : St F τ ℝ → Prop}

/-- `init`, given what `doInit` does on the particular list -/
theorem init_invS (ha : InvStep A Q J) (s : St F τ ℝ) (params : PList ℝ)
    (hd : ROk Q J (A.doInit ({ s with core := { s.core with params := applyPolicy s.core.policy params } } : St F τ ℝ) params)) :
    ROk Q J (A.init s params) := by
  unfold Algo.init
  dsimp only
  split
  · rename_i e he; rw [he] at hd; exact hd
  · rename_i s2 he
    rw [he] at hd
    exact ha.stopInit _ (ha.core s2 _ hd rfl rfl)

theorem step_invS (ha : InvStep A Q J) (s : St F τ ℝ) (hJ : J s) : ROk Q (fun r => J r.1) (A.step s) := by
  unfold Algo.step
  have := ha.doStep s hJ
  split
  · rename_i e he; rw [he] at this; exact this
  · rename_i s1 v he
    rw [he] at this
    dsimp only
    have h1 : J ({ s1 with core := { s1.core with cur := v } } : St F τ ℝ) := ha.core s1 _ this rfl rfl
    split
    · exact h1
    · have h2 := ha.stop _ h1
      exact ha.core _ _ h2 rfl rfl

theorem loop_invS (ha : InvStep A Q J) : ∀ (fuel : Nat) (s : St F τ ℝ), J s → ROk Q J (A.loop fuel s) := by
  intro fuel
  induction fuel with
  | zero =>
    intro s hJ
    rw [loop_zero]
    split
    · exact ha.fn s hJ
    · exact hJ
  | succ fuel ih =>
    intro s hJ
    rw [loop_succ]
    split
    · have := step_invS ha s hJ
      split
      · rename_i e he; rw [he] at this; exact this
      · rename_i s1 v he; rw [he] at this; exact ih (bump s1) (ha.core s1 _ this rfl rfl)
    · exact hJ

theorem optimize_invS (ha : InvStep A Q J) (fuel : Nat) (s : St F τ ℝ) (hJ : J s) :
    ROk Q (fun r => J r.1) (A.optimize fuel s) := by
  unfold Algo.optimize
  split
  · exact ha.fn s hJ
  · have := loop_invS ha fuel ({ s with core := { s.core with tol := false, nbEval := 1 } } : St F τ ℝ) (ha.core s _ hJ rfl rfl)
    split
    · rename_i e he; rw [he] at this; exact this
    · rename_i s' he; rw [he] at this; exact this

end

/-! ### NewtonOneDimension -/

section
variable {I : FunI F ℝ} {Q : F → Prop} {T : PList ℝ → Prop}

/-- the Felsenstein-Churchill loop: every trial is made at a tied list, every restoration puts the
function back where the step found it (`fn0`) -/
theorem newtonCorrect_safe (hs : Safe I Q T) (hr : SafeRestore I Q) (cur x0 : ℝ) (fn0 : F) (maxc : Nat) (hQ0 : Q fn0) :
    ∀ (fuel count : Nat) (fn : F) (np : PList ℝ) (mv nv : ℝ), Q fn → T np →
      ROk Q (fun r => Q r.1 ∧ ∀ pl v, r.2 = some (pl, v) → T pl)
        (newtonCorrect I cur x0 (I.getParameters fn0) maxc fuel count fn np mv nv) := by
  intro fuel
  induction fuel with
  | zero => intro count fn np mv nv hQ _; rw [newtonCorrect]; exact hQ
  | succ fuel ih =>
    intro count fn np mv nv hQ hT
    rw [newtonCorrect]
    split
    · split
      · rename_i e he; obtain ⟨e1, fn1⟩ := e; exact hr.err _ _ _ _ hQ hQ0 he
      · rename_i fn1 he
        have hQ1 := hr.ok _ _ _ hQ hQ0 he
        dsimp only
        split
        · exact ⟨hQ1, fun pl v h => by cases h⟩
        · split
          · exact hQ1
          · rename_i np1 hset
            have hT1 := hs.set _ _ _ _ hT hset
            split
            · rename_i e he2; obtain ⟨e1, fn2⟩ := e; exact hs.f_err _ _ _ _ hQ1 hT1 he2
            · rename_i fn2 nv2 he2
              exact ih _ fn2 np1 _ nv2 (hs.f_ok _ _ _ _ hQ1 hT1 he2) hT1
    · refine ⟨hQ, fun pl v h => ?_⟩
      simp only [Option.some.injEq, Prod.mk.injEq] at h
      rw [← h.1]; exact hT

theorem newtonCorrect_safe' (hs : Safe I Q T) (hr : SafeRestore I Q) {cur x0 : ℝ} {fn0 : F} {maxc : Nat} (hQ0 : Q fn0)
    {fuel count : Nat} {fn : F} {np : PList ℝ} {mv nv : ℝ} {r : Except (Exc × F) (F × Option (PList ℝ × ℝ))}
    (he : newtonCorrect I cur x0 (I.getParameters fn0) maxc fuel count fn np mv nv = r) (hQ : Q fn) (hT : T np) :
    ROk Q (fun r => Q r.1 ∧ ∀ pl v, r.2 = some (pl, v) → T pl) r :=
  he ▸ newtonCorrect_safe hs hr cur x0 fn0 maxc hQ0 fuel count fn np mv nv hQ hT

theorem newtonDoStep_safe (hs : Safe I Q T) (hr : SafeRestore I Q) (s : St F (Newton1 ℝ) ℝ) (hQ : Q s.fn) (hT : T s.core.params) :
    ROk Q (fun r => Q r.1.fn ∧ T r.1.core.params) (newtonDoStep I s) := by
  unfold newtonDoStep
  dsimp only
  split
  · exact hQ
  · rename_i x0 hx0
    split
    · exact hQ
    · rename_i np hset
      have hT1 := hs.set _ _ _ _ hT hset
      split
      · rename_i e he; obtain ⟨e1, fn1⟩ := e; exact hs.f_err _ _ _ _ hQ hT1 he
      · rename_i fn1 nv he
        have hQ1 := hs.f_ok _ _ _ _ hQ hT1 he
        split
        · rename_i e he2
          exact newtonCorrect_safe' hs hr hQ he2 hQ1 hT1
        · rename_i fn2 he2
          exact ⟨(newtonCorrect_safe' hs hr hQ he2 hQ1 hT1).1, hT⟩
        · rename_i fn2 pl v he2
          have hc := newtonCorrect_safe' hs hr hQ he2 hQ1 hT1
          exact ⟨hc.1, hc.2 pl v rfl⟩

theorem newtonDoInit_safe (hs : Safe I Q T) (s : St F (Newton1 ℝ) ℝ) (params : PList ℝ) (hQ : Q s.fn) (hT : T s.core.params) :
    ROk Q (fun r => Q r.fn ∧ T r.core.params) (newtonDoInit I s params) := by
  unfold newtonDoInit
  split
  · split
    · rename_i e he; obtain ⟨e1, fn1⟩ := e; exact hs.f_err _ _ _ _ hQ hT he
    · rename_i fn1 v he; exact ⟨hs.f_ok _ _ _ _ hQ hT he, hT⟩
  · exact hQ

theorem newton_safeAlgo (hs : Safe I Q T) (hr : SafeRestore I Q) : SafeAlgo (newtonAlgo I) Q T :=
  { doInit := fun s params hQ hT => newtonDoInit_safe hs s params hQ hT,
    doStep := fun s hQ hT => newtonDoStep_safe hs hr s hQ hT,
    stopInit := fun _ => ⟨rfl, rfl⟩,
    stop := fun s => fscStop_same' s }

/-! ### the policy is carried through the one-dimensional optimisers -/

/-- the evaluation step leaves the policy alone -/
theorem evalOwn_policy {τ : Type} (s s' : St F τ ℝ) (x v : ℝ) (h : evalOwn I s x = .ok (s', v)) :
    s'.core.policy = s.core.policy := by
  unfold evalOwn at h
  split at h
  · cases h
  · simp only [Except.ok.injEq, Prod.mk.injEq] at h
    obtain ⟨rfl, rfl⟩ := h
    rfl

theorem brentDoInit_policy (fuel : Nat) (s s' : St F (Brent ℝ) ℝ) (params : PList ℝ)
    (h : brentDoInit I fuel s params = .ok s') : s'.core.policy = s.core.policy := by
  unfold brentDoInit at h
  split at h
  · cases h
  · dsimp only at h
    split at h
    · cases h
    · split at h
      · cases h
      · split at h
        · split at h
          · cases h
          · simp only [Except.ok.injEq] at h; subst h; rfl
        · split at h
          · cases h
          · rename_i sa fxb he2
            simp only [Except.ok.injEq] at h; subst h
            exact (evalOwn_policy _ sa _ _ he2 : sa.core.policy = _)

theorem brentDoStep_policy (s s' : St F (Brent ℝ) ℝ) (v : ℝ)
    (h : brentDoStep I s = .ok (s', v)) : s'.core.policy = s.core.policy := by
  unfold brentDoStep at h
  generalize brentPropose s.core.tolerance s.ext = pr at h
  obtain ⟨g1, u⟩ := pr
  dsimp only at h
  split at h
  · cases h
  · split at h
    · cases h
    · split at h
      · cases h
      · simp only [Except.ok.injEq, Prod.mk.injEq] at h
        obtain ⟨rfl, rfl⟩ := h
        rfl

theorem brent_keepsPolicy (fuel : Nat) : KeepsPolicy (brentAlgo I fuel) :=
  { doInit := fun s p s' h => brentDoInit_policy fuel s s' p h,
    doStep := fun s s' v h => brentDoStep_policy s s' v h,
    stopInit := fun _ => rfl,
    stop := fun s => by show (brentStop s).1.core.policy = _; unfold brentStop; simp only []; split <;> rfl }

theorem brentOptimize_policy (fuel : Nat) (s s' : St F (Brent ℝ) ℝ) (v : ℝ)
    (h : brentOptimize I fuel s = .ok (s', v)) : s'.core.policy = s.core.policy := by
  unfold brentOptimize at h
  split at h
  · cases h
  · rename_i s1 v1 ho
    split at h
    · cases h
    · simp only [Except.ok.injEq, Prod.mk.injEq] at h
      obtain ⟨rfl, rfl⟩ := h
      exact optimize_policy (brent_keepsPolicy fuel) fuel s s1 v1 ho

theorem newtonDoStep_policy (s s' : St F (Newton1 ℝ) ℝ) (v : ℝ)
    (h : newtonDoStep I s = .ok (s', v)) : s'.core.policy = s.core.policy := by
  unfold newtonDoStep at h
  dsimp only at h
  split at h
  · cases h
  · split at h
    · cases h
    · split at h
      · cases h
      · split at h
        · cases h
        · simp only [Except.ok.injEq, Prod.mk.injEq] at h
          obtain ⟨rfl, rfl⟩ := h
          rfl
        · simp only [Except.ok.injEq, Prod.mk.injEq] at h
          obtain ⟨rfl, rfl⟩ := h
          rfl

theorem newtonDoInit_policy (s s' : St F (Newton1 ℝ) ℝ) (params : PList ℝ)
    (h : newtonDoInit I s params = .ok s') : s'.core.policy = s.core.policy := by
  unfold newtonDoInit at h
  split at h
  · split at h
    · cases h
    · simp only [Except.ok.injEq] at h; subst h; rfl
  · cases h

theorem newton_keepsPolicy : KeepsPolicy (newtonAlgo I) :=
  { doInit := fun s p s' h => newtonDoInit_policy s s' p h,
    doStep := fun s s' v h => newtonDoStep_policy s s' v h,
    stopInit := fun _ => rfl,
    stop := fun s => fscStop_policy s }


end

section
variable {I : FunI F ℝ} {Q : F → Prop}

/-! ### SimpleMultiDimensions -/

/-- the invariant of `SimpleMultiDimensions`: the function is fine, the list is tied, and the
one-dimensional optimiser runs under a policy that keeps constraints (when there is a parameter at all) -/
def SimpleJ (Q : F → Prop) (cons : Spec.Cons ℝ) (s : St F (Simple ℝ) ℝ) : Prop :=
  Q s.fn ∧ Tied cons s.core.params ∧ (s.ext.nbParams = 0 ∨ s.ext.icore.policy ≠ .ignore)

/-- one coordinate: Brent's method on the sub-list of that coordinate (tied under a policy that keeps
constraints), then the function's point copied back -/
theorem simpleCoord_inv {cons : Spec.Cons ℝ} (hs : Safe I Q (Tied cons)) (fuel : Nat) (s : St F (Simple ℝ) ℝ) (i : Nat)
    (hQ : Q s.fn) (hT : Tied cons s.core.params) (hp : s.ext.icore.policy ≠ .ignore) :
    ROk Q (fun r => Q r.1.fn ∧ Tied cons r.1.core.params ∧ r.1.ext.icore.policy ≠ .ignore ∧ r.1.ext.nbParams = s.ext.nbParams)
      (simpleCoord I fuel s i) := by
  unfold simpleCoord
  split
  · exact hQ
  · rename_i q hq
    have hqm : q ∈ s.core.params := List.mem_of_getElem? hq
    dsimp only
    generalize orderedInterval (q.p.value - Scalar.max (Scalar.ofRat 1 1000000) (Scalar.min (Scalar.abs q.p.value) s.core.tolerance))
      (q.p.value + Scalar.max (Scalar.ofRat 1 1000000) (Scalar.min (Scalar.abs q.p.value) s.core.tolerance)) = iv
    obtain ⟨lo, hi'⟩ := iv
    dsimp only
    have hTq : Tied cons (applyPolicy s.ext.icore.policy [q]) :=
      applyPolicy_tied' cons _ _ hp (Tied.cons' (hT q hqm) (Tied.nil cons))
    have hi := init_safe (brent_safeAlgo hs fuel)
      ({ core := s.ext.icore, fn := s.fn, ext := { s.ext.iext with xinf := lo, xsup := hi' } } : St F (Brent ℝ) ℝ) [q] hQ hTq
    split
    · rename_i e he; rw [he] at hi; exact hi
    · rename_i inner1 he
      rw [he] at hi
      have hp1 := init_policy (brent_keepsPolicy fuel) _ _ _ he
      have ho := brentOptimize_safe hs fuel inner1 hi.1 hi.2
      split
      · rename_i e he2; rw [he2] at ho; exact ho
      · rename_i inner2 f he2
        rw [he2] at ho
        have hp2 := brentOptimize_policy fuel _ _ _ he2
        split
        · exact ho.1
        · rename_i pl hm
          exact ⟨ho.1, matchList_tied cons _ _ _ hT hm, by show inner2.core.policy ≠ _; rw [hp2, hp1]; exact hp, rfl⟩


theorem simpleCoords_inv {cons : Spec.Cons ℝ} (hs : Safe I Q (Tied cons)) (fuel : Nat) :
    ∀ (l : List Nat) (s : St F (Simple ℝ) ℝ) (f : ℝ), Q s.fn → Tied cons s.core.params → s.ext.icore.policy ≠ .ignore →
    ROk Q (fun r => Q r.1.fn ∧ Tied cons r.1.core.params ∧ r.1.ext.icore.policy ≠ .ignore ∧ r.1.ext.nbParams = s.ext.nbParams)
      (simpleCoords I fuel l s f) := by
  intro l
  induction l with
  | nil => intro s f hQ hT hp; rw [simpleCoords]; exact ⟨hQ, hT, hp, rfl⟩
  | cons i r ih =>
    intro s f hQ hT hp
    rw [simpleCoords]
    have h1 := simpleCoord_inv hs fuel s i hQ hT hp
    split
    · rename_i e he; rw [he] at h1; exact h1
    · rename_i s1 f1 he
      rw [he] at h1
      have h2 := ih s1 f1 h1.1 h1.2.1 h1.2.2.1
      cases hc : simpleCoords I fuel r s1 f1 with
      | error e => rw [hc] at h2; exact h2
      | ok r2 => rw [hc] at h2; exact ⟨h2.1, h2.2.1, h2.2.2.1, h2.2.2.2.trans h1.2.2.2⟩

theorem simpleDoStep_inv {cons : Spec.Cons ℝ} (hs : Safe I Q (Tied cons)) (fuel : Nat) (s : St F (Simple ℝ) ℝ)
    (hJ : SimpleJ Q cons s) : ROk Q (fun r => SimpleJ Q cons r.1) (simpleDoStep I fuel s) := by
  unfold simpleDoStep
  obtain ⟨hQ, hT, hp⟩ := hJ
  rcases hp with h0 | hp
  · rw [h0, List.range_zero, simpleCoords]
    exact ⟨hQ, hT, Or.inl h0⟩
  · have h1 := simpleCoords_inv hs fuel (List.range s.ext.nbParams) s (I.value s.fn) hQ hT hp
    split
    · rename_i e he; rw [he] at h1; exact h1
    · rename_i s1 f he
      rw [he] at h1
      exact ⟨h1.1, h1.2.1, Or.inr h1.2.2.1⟩

theorem simpleDoInit_inv {cons : Spec.Cons ℝ} (hss : SafeSet I Q (Tied cons)) (s : St F (Simple ℝ) ℝ) (params : PList ℝ)
    (hQ : Q s.fn) (hT : Tied cons s.core.params) (hp : s.core.policy ≠ .ignore) :
    ROk Q (SimpleJ Q cons) (simpleDoInit I s params) := by
  unfold simpleDoInit
  dsimp only
  split
  · rename_i hz
    exact ⟨hQ, hT, Or.inl (by simpa using hz)⟩
  · generalize orderedInterval (Scalar.zero : ℝ) Scalar.one = iv
    obtain ⟨lo, hi⟩ := iv
    dsimp only
    split
    · rename_i e he; obtain ⟨e1, fn1⟩ := e; exact hss.set_err _ _ _ _ hQ hT he
    · rename_i fn1 he
      exact ⟨hss.set_ok _ _ _ hQ hT he, hT, Or.inr hp⟩

theorem simple_invStep {cons : Spec.Cons ℝ} (hs : Safe I Q (Tied cons)) (fuel : Nat) :
    InvStep (simpleAlgo I fuel) Q (SimpleJ Q cons) :=
  { fn := fun _ h => h.1,
    doStep := fun s hJ => simpleDoStep_inv hs fuel s hJ,
    stopInit := fun s hJ => hJ,
    stop := fun s hJ => by
      have := fscStop_same s
      show SimpleJ Q cons (fscStop s).1
      unfold SimpleJ
      rw [this.1, this.2.1, this.2.2.2.1]; exact hJ,
    core := fun s c hJ hc _ => ⟨hJ.1, by show Tied cons c.params; rw [hc]; exact hJ.2.1, hJ.2.2⟩ }

/-- `init` of `SimpleMultiDimensions` on a tied list under a policy that keeps constraints -/
theorem simple_init_inv {cons : Spec.Cons ℝ} (hs : Safe I Q (Tied cons)) (hss : SafeSet I Q (Tied cons)) (fuel : Nat)
    (s : St F (Simple ℝ) ℝ) (params : PList ℝ) (hQ : Q s.fn) (hT : Tied cons (applyPolicy s.core.policy params))
    (hp : s.core.policy ≠ .ignore) : ROk Q (SimpleJ Q cons) ((simpleAlgo I fuel).init s params) :=
  init_invS (simple_invStep hs fuel) s params (simpleDoInit_inv hss _ params hQ hT hp)

theorem simpleCoord_policy (fuel : Nat) (s s' : St F (Simple ℝ) ℝ) (i : Nat) (f : ℝ)
    (h : simpleCoord I fuel s i = .ok (s', f)) : s'.core.policy = s.core.policy := by
  unfold simpleCoord at h
  split at h
  · cases h
  · dsimp only at h
    split at h
    · cases h
    · split at h
      · cases h
      · split at h
        · cases h
        · simp only [Except.ok.injEq, Prod.mk.injEq] at h
          obtain ⟨rfl, rfl⟩ := h
          rfl

theorem simpleCoords_policy (fuel : Nat) : ∀ (l : List Nat) (s s' : St F (Simple ℝ) ℝ) (f0 f : ℝ),
    simpleCoords I fuel l s f0 = .ok (s', f) → s'.core.policy = s.core.policy := by
  intro l
  induction l with
  | nil => intro s s' f0 f h; rw [simpleCoords] at h; simp only [Except.ok.injEq, Prod.mk.injEq] at h; rw [← h.1]
  | cons i r ih =>
    intro s s' f0 f h
    rw [simpleCoords] at h
    split at h
    · cases h
    · rename_i s1 f1 hc
      exact (ih s1 s' f1 f h).trans (simpleCoord_policy fuel s s1 i f1 hc)

theorem simple_keepsPolicy (fuel : Nat) : KeepsPolicy (simpleAlgo I fuel) :=
  { doInit := fun s p s' h => by
      change simpleDoInit I s p = .ok s' at h
      unfold simpleDoInit at h
      dsimp only at h
      split at h
      · simp only [Except.ok.injEq] at h; subst h; rfl
      · split at h
        · cases h
        · simp only [Except.ok.injEq] at h; subst h; rfl,
    doStep := fun s s' v h => by
      change simpleDoStep I fuel s = .ok (s', v) at h
      unfold simpleDoStep at h
      split at h
      · cases h
      · rename_i s1 f hc
        simp only [Except.ok.injEq, Prod.mk.injEq] at h
        obtain ⟨rfl, rfl⟩ := h
        exact (simpleCoords_policy fuel _ _ s1 _ _ hc : s1.core.policy = _),
    stopInit := fun _ => rfl,
    stop := fun s => fscStop_policy s }

/-! ### SimpleNewtonMultiDimensions -/

/-- the invariant of `SimpleNewtonMultiDimensions`: the function is fine, the list is tied, and the
Newton optimiser runs under a policy that keeps constraints (when there is a parameter at all) -/
def SNewtonJ (Q : F → Prop) (cons : Spec.Cons ℝ) (s : St F (SNewton ℝ) ℝ) : Prop :=
  Q s.fn ∧ Tied cons s.core.params ∧ (s.ext.nbParams = 0 ∨ s.ext.icore.policy ≠ .ignore)

/-- one coordinate: Newton's method on the sub-list of that coordinate, then the function's point copied back -/
theorem snewtonCoord_inv {cons : Spec.Cons ℝ} (hs : Safe I Q (Tied cons)) (hr : SafeRestore I Q) (fuel : Nat) (s : St F (SNewton ℝ) ℝ) (i : Nat)
    (hQ : Q s.fn) (hT : Tied cons s.core.params) (hp : s.ext.icore.policy ≠ .ignore) :
    ROk Q (fun r => Q r.1.fn ∧ Tied cons r.1.core.params ∧ r.1.ext.icore.policy ≠ .ignore ∧ r.1.ext.nbParams = s.ext.nbParams)
      (snewtonCoord I fuel s i) := by
  unfold snewtonCoord
  split
  · exact hQ
  · rename_i q hq
    have hqm : q ∈ s.core.params := List.mem_of_getElem? hq
    dsimp only
    have hTq : Tied cons (applyPolicy s.ext.icore.policy [q]) :=
      applyPolicy_tied' cons _ _ hp (Tied.cons' (hT q hqm) (Tied.nil cons))
    have hi := init_safe (newton_safeAlgo hs hr)
      ({ core := s.ext.icore, fn := s.fn, ext := s.ext.iext } : St F (Newton1 ℝ) ℝ) [q] hQ hTq
    split
    · rename_i e he; rw [he] at hi; exact hi
    · rename_i inner1 he
      rw [he] at hi
      have hp1 := init_policy (newton_keepsPolicy (I := I)) _ _ _ he
      have ho := optimize_safe (newton_safeAlgo hs hr) fuel inner1 hi.1 hi.2
      split
      · rename_i e he2; rw [he2] at ho; exact ho
      · rename_i inner2 f he2
        rw [he2] at ho
        have hp2 := optimize_policy (newton_keepsPolicy (I := I)) fuel _ _ _ he2
        split
        · exact ho.1
        · rename_i pl hm
          exact ⟨ho.1, matchList_tied cons _ _ _ hT hm, by show inner2.core.policy ≠ _; rw [hp2, hp1]; exact hp, rfl⟩

theorem snewtonCoords_inv {cons : Spec.Cons ℝ} (hs : Safe I Q (Tied cons)) (hr : SafeRestore I Q) (fuel : Nat) :
    ∀ (l : List Nat) (s : St F (SNewton ℝ) ℝ) (f : ℝ), Q s.fn → Tied cons s.core.params → s.ext.icore.policy ≠ .ignore →
    ROk Q (fun r => Q r.1.fn ∧ Tied cons r.1.core.params ∧ r.1.ext.icore.policy ≠ .ignore ∧ r.1.ext.nbParams = s.ext.nbParams)
      (snewtonCoords I fuel l s f) := by
  intro l
  induction l with
  | nil => intro s f hQ hT hp; rw [snewtonCoords]; exact ⟨hQ, hT, hp, rfl⟩
  | cons i r ih =>
    intro s f hQ hT hp
    rw [snewtonCoords]
    have h1 := snewtonCoord_inv hs hr fuel s i hQ hT hp
    split
    · rename_i e he; rw [he] at h1; exact h1
    · rename_i s1 f1 he
      rw [he] at h1
      have h2 := ih s1 f1 h1.1 h1.2.1 h1.2.2.1
      cases hc : snewtonCoords I fuel r s1 f1 with
      | error e => rw [hc] at h2; exact h2
      | ok r2 => rw [hc] at h2; exact ⟨h2.1, h2.2.1, h2.2.2.1, h2.2.2.2.trans h1.2.2.2⟩

theorem snewtonDoStep_inv {cons : Spec.Cons ℝ} (hs : Safe I Q (Tied cons)) (hr : SafeRestore I Q) (fuel : Nat) (s : St F (SNewton ℝ) ℝ)
    (hJ : SNewtonJ Q cons s) : ROk Q (fun r => SNewtonJ Q cons r.1) (snewtonDoStep I fuel s) := by
  unfold snewtonDoStep
  obtain ⟨hQ, hT, hp⟩ := hJ
  rcases hp with h0 | hp
  · rw [h0, List.range_zero, snewtonCoords]
    exact ⟨hQ, hT, Or.inl h0⟩
  · have h1 := snewtonCoords_inv hs hr fuel (List.range s.ext.nbParams) s (I.value s.fn) hQ hT hp
    split
    · rename_i e he; rw [he] at h1; exact h1
    · rename_i s1 f he
      rw [he] at h1
      exact ⟨h1.1, h1.2.1, Or.inr h1.2.2.1⟩

theorem snewtonDoInit_inv {cons : Spec.Cons ℝ} (hss : SafeSet I Q (Tied cons)) (s : St F (SNewton ℝ) ℝ) (params : PList ℝ)
    (hQ : Q s.fn) (hT : Tied cons s.core.params) (hp : s.core.policy ≠ .ignore) :
    ROk Q (SNewtonJ Q cons) (snewtonDoInit I s params) := by
  unfold snewtonDoInit
  dsimp only
  split
  · rename_i hz
    exact ⟨hQ, hT, Or.inl (by simpa using hz)⟩
  · split
    · rename_i e he; obtain ⟨e1, fn1⟩ := e; exact hss.set_err _ _ _ _ hQ hT he
    · rename_i fn1 he
      exact ⟨hss.set_ok _ _ _ hQ hT he, hT, Or.inr hp⟩

theorem snewton_invStep {cons : Spec.Cons ℝ} (hs : Safe I Q (Tied cons)) (hr : SafeRestore I Q) (fuel : Nat) :
    InvStep (snewtonAlgo I fuel) Q (SNewtonJ Q cons) :=
  { fn := fun _ h => h.1,
    doStep := fun s hJ => snewtonDoStep_inv hs hr fuel s hJ,
    stopInit := fun s hJ => hJ,
    stop := fun s hJ => by
      have := fscStop_same s
      show SNewtonJ Q cons (fscStop s).1
      unfold SNewtonJ
      rw [this.1, this.2.1, this.2.2.2.1]; exact hJ,
    core := fun s c hJ hc _ => ⟨hJ.1, by show Tied cons c.params; rw [hc]; exact hJ.2.1, hJ.2.2⟩ }

/-- `init` of `SimpleNewtonMultiDimensions` on a tied list under a policy that keeps constraints -/
theorem snewton_init_inv {cons : Spec.Cons ℝ} (hs : Safe I Q (Tied cons)) (hss : SafeSet I Q (Tied cons))
    (hr : SafeRestore I Q) (fuel : Nat)
    (s : St F (SNewton ℝ) ℝ) (params : PList ℝ) (hQ : Q s.fn) (hT : Tied cons (applyPolicy s.core.policy params))
    (hp : s.core.policy ≠ .ignore) : ROk Q (SNewtonJ Q cons) ((snewtonAlgo I fuel).init s params) :=
  init_invS (snewton_invStep hs hr fuel) s params (snewtonDoInit_inv hss _ params hQ hT hp)

theorem snewtonCoord_policy (fuel : Nat) (s s' : St F (SNewton ℝ) ℝ) (i : Nat) (f : ℝ)
    (h : snewtonCoord I fuel s i = .ok (s', f)) : s'.core.policy = s.core.policy := by
  unfold snewtonCoord at h
  split at h
  · cases h
  · dsimp only at h
    split at h
    · cases h
    · split at h
      · cases h
      · split at h
        · cases h
        · simp only [Except.ok.injEq, Prod.mk.injEq] at h
          obtain ⟨rfl, rfl⟩ := h
          rfl

theorem snewtonCoords_policy (fuel : Nat) : ∀ (l : List Nat) (s s' : St F (SNewton ℝ) ℝ) (f0 f : ℝ),
    snewtonCoords I fuel l s f0 = .ok (s', f) → s'.core.policy = s.core.policy := by
  intro l
  induction l with
  | nil => intro s s' f0 f h; rw [snewtonCoords] at h; simp only [Except.ok.injEq, Prod.mk.injEq] at h; rw [← h.1]
  | cons i r ih =>
    intro s s' f0 f h
    rw [snewtonCoords] at h
    split at h
    · cases h
    · rename_i s1 f1 hc
      exact (ih s1 s' f1 f h).trans (snewtonCoord_policy fuel s s1 i f1 hc)

theorem snewton_keepsPolicy (fuel : Nat) : KeepsPolicy (snewtonAlgo I fuel) :=
  { doInit := fun s p s' h => by
      change snewtonDoInit I s p = .ok s' at h
      unfold snewtonDoInit at h
      dsimp only at h
      split at h
      · simp only [Except.ok.injEq] at h; subst h; rfl
      · split at h
        · cases h
        · simp only [Except.ok.injEq] at h; subst h; rfl,
    doStep := fun s s' v h => by
      change snewtonDoStep I fuel s = .ok (s', v) at h
      unfold snewtonDoStep at h
      split at h
      · cases h
      · rename_i s1 f hc
        simp only [Except.ok.injEq, Prod.mk.injEq] at h
        obtain ⟨rfl, rfl⟩ := h
        exact (snewtonCoords_policy fuel _ _ s1 _ _ hc : s1.core.policy = _),
    stopInit := fun _ => rfl,
    stop := fun s => fscStop_policy s }

end

/-! ### DownhillSimplexMethod -/

/-- the `f` half of `Safe`, for lists that `setValue` need not keep in `T` -/
structure SafeF (I : FunI F ℝ) (Q : F → Prop) (T : PList ℝ → Prop) : Prop where
  f_ok : ∀ fn pl fn' v, Q fn → T pl → I.f fn pl = .ok (fn', v) → Q fn'
  f_err : ∀ fn pl e fn', Q fn → T pl → I.f fn pl = .error (e, fn') → Q fn'

theorem objective_safeW (obj : List ℝ → ℝ) (D : Deriv ℝ) (cap : Option Nat) (cons : Spec.Cons ℝ) (L : Nat) :
    SafeF (Fn.iface obj D cap) (FeasL cons L) (Within cons) := by
  refine ⟨?_, ?_⟩
  · intro fn pl fn' v hQ hT h
    have := objective_f_within obj D cap cons L fn pl hQ hT
    rw [h] at this; exact this
  · intro fn pl e fn' hQ hT h
    have := objective_f_within obj D cap cons L fn pl hQ hT
    rw [h] at this; exact this

theorem setValue_precision {p p' : Param ℝ} {x : ℝ} (h : p.setValue x = .ok p') : p'.precision = p.precision := by
  unfold Param.setValue at h
  split at h
  · exact (Param.sva_fields h).2.1
  · exact (Param.svb_fields h).2.1

/-- every parameter of the list has precision 0 -/
def Prec0 (pl : PList ℝ) : Prop := ∀ q ∈ pl, q.p.precision = 0

theorem setAll_prec0 : ∀ (pl : PList ℝ) (vs : List ℝ) (pl' : PList ℝ), Prec0 pl → setAll pl vs = .ok pl' → Prec0 pl' := by
  intro pl
  induction pl with
  | nil => intro vs pl' _ h; rw [setAll] at h; simp only [Except.ok.injEq] at h; subst h; exact fun _ hq => nomatch hq
  | cons q rest ih =>
    intro vs pl' hT h
    cases vs with
    | nil => rw [setAll] at h; simp only [Except.ok.injEq] at h; subst h; exact hT
    | cons v vs =>
      rw [setAll] at h
      split at h
      · cases h
      · rename_i p' hs
        split at h
        · cases h
        · rename_i r' hr'
          simp only [Except.ok.injEq] at h
          subst h
          intro q' hq'
          rcases List.mem_cons.1 hq' with rfl | hm
          · show p'.precision = 0
            rw [setValue_precision hs]; exact hT q (List.mem_cons_self ..)
          · exact ih vs r' (fun q'' hq'' => hT q'' (List.mem_cons_of_mem _ hq'')) hr' q' hm

/-- a vertex (or the optimiser's list): tied to the constraints, precision 0, the names `ns` -/
def Vert (cons : Spec.Cons ℝ) (ns : List Nat) (v : PList ℝ) : Prop := Tied cons v ∧ Prec0 v ∧ names v = ns

theorem setAll_vert {cons : Spec.Cons ℝ} {ns : List Nat} {pl pl' : PList ℝ} {vs : List ℝ} (hv : Vert cons ns pl)
    (h : setAll pl vs = .ok pl') : Vert cons ns pl' :=
  ⟨setAll_tied cons pl vs pl' hv.1 h, setAll_prec0 pl vs pl' hv.2.1 h, by rw [setAll_names pl vs pl' h]; exact hv.2.2⟩

/-- `getPSum`: the copy that holds the sums carries no constraint -/
theorem getPSum_free (params : PList ℝ) (sx : List (PList ℝ)) (ps : PList ℝ) (hp : Prec0 params)
    (h : getPSum params sx = .ok ps) : Free ps ∧ names ps = names params := by
  unfold getPSum at h
  simp only [] at h
  have hfree : Free (params.map (fun q => ({ q with p := q.p.removeConstraint.1 } : NP ℝ))) := by
    intro q hq
    obtain ⟨q0, hq0, rfl⟩ := List.mem_map.1 hq
    exact ⟨hp q0 hq0, rfl⟩
  obtain ⟨h1, h2, _⟩ := setAll_free _ _ _ hfree h
  refine ⟨h1, ?_⟩
  rw [h2]
  unfold names; rw [List.map_map]; rfl

theorem Spec.accepts_mid (c : Option (Interval ℝ)) (a b : ℝ) (ha : Spec.accepts c a = true) (hb : Spec.accepts c b = true) :
    Spec.accepts c (Scalar.ofRat 1 2 * (a + b)) = true := by
  cases c with
  | none => rfl
  | some c =>
    have := Interval.isCorrect_mid c a b ha hb
    simp only [ScalarReal.ofRat_eq]
    norm_num at this ⊢
    exact this

/-- a list named like two tied lists and holding the midpoints of their values: its values are accepted -/
theorem mids_within (cons : Spec.Cons ℝ) : ∀ (ps vi lo : PList ℝ), names ps = names vi → names lo = names vi →
    Tied cons vi → Tied cons lo →
    values ps = ((values vi).zip (values lo)).map (fun ab => Scalar.ofRat 1 2 * (ab.1 + ab.2)) → Within cons ps := by
  intro ps
  induction ps with
  | nil => intro vi lo _ _ _ _ _ q hq; cases hq
  | cons q r ih =>
    intro vi lo h1 h2 hTv hTl hv
    cases vi with
    | nil => cases h1
    | cons v vr =>
      cases lo with
      | nil => cases h2
      | cons l lr =>
        simp only [names_cons, List.cons.injEq] at h1 h2
        simp only [values, List.map_cons, List.zip_cons_cons, List.cons.injEq] at hv
        intro q' hq' c hc
        rcases List.mem_cons.1 hq' with rfl | hm
        · rw [hv.1]
          have hvv := hTv.head
          have hll := hTl.head
          apply Spec.accepts_mid
          · rw [← hvv.2 c (by rw [← h1.1]; exact hc), ← accepts_eq]; exact hvv.1
          · rw [← hll.2 c (by rw [h2.1, ← h1.1]; exact hc), ← accepts_eq]; exact hll.1
        · exact ih vr lr h1.2 h2.2 hTv.tail hTl.tail hv.2 q' hm c hc


/-- the invariant of the method: the function is fine; the optimiser's list and every vertex are tied,
of precision 0 and named `ns`; the sums carry the names and no constraint -/
structure SimplexJ (Q : F → Prop) (cons : Spec.Cons ℝ) (ns : List Nat) (s : St F (Simplex ℝ) ℝ) : Prop where
  fn : Q s.fn
  params : Vert cons ns s.core.params
  verts : ∀ v ∈ s.ext.simplex, Vert cons ns v
  psum : Free s.ext.pSum ∧ names s.ext.pSum = ns

section
variable {I : FunI F ℝ} {Q : F → Prop} {cons : Spec.Cons ℝ} {ns : List Nat}

/-- a trial point is the optimiser's list moved by `setValue`; the sums stay unconstrained -/
theorem tryExtrapolation_inv (hs : Safe I Q (Tied cons)) (s : St F (Simplex ℝ) ℝ) (fac : ℝ) (hJ : SimplexJ Q cons ns s) :
    ROk Q (fun r => SimplexJ Q cons ns r.1) (tryExtrapolation I s fac) := by
  unfold tryExtrapolation
  dsimp only
  split
  · rename_i hiv yHi hsx hy
    have hvH : Vert cons ns hiv := hJ.verts hiv (List.mem_of_getElem? hsx)
    split
    · exact hJ.fn
    · rename_i pTry hset
      have hvT : Vert cons ns pTry := setAll_vert hJ.params hset
      split
      · rename_i e he; obtain ⟨e1, fn1⟩ := e; exact hs.f_err _ _ _ _ hJ.fn hvT.1 he
      · rename_i fn1 yT he
        have hQ1 := hs.f_ok _ _ _ _ hJ.fn hvT.1 he
        try dsimp only
        split
        · split
          · exact hQ1
          · rename_i ps hps
            obtain ⟨f1, f2, _⟩ := setAll_free _ _ _ hJ.psum.1 hps
            split
            · exact hQ1
            · rename_i hi' hhi
              refine ⟨hQ1, hJ.params, ?_, ⟨f1, by rw [f2]; exact hJ.psum.2⟩⟩
              intro v hv
              rcases mem_set_cases hv with rfl | hm
              · exact setAll_vert hvH hhi
              · exact hJ.verts v hm
        · exact ⟨hQ1, hJ.params, hJ.verts, hJ.psum⟩
  · exact hJ.fn

theorem tryExtrapolation_inv' (hs : Safe I Q (Tied cons)) {s : St F (Simplex ℝ) ℝ} {fac : ℝ}
    {r : Except (Exc × F) (St F (Simplex ℝ) ℝ × ℝ)} (he : tryExtrapolation I s fac = r) (hJ : SimplexJ Q cons ns s) :
    ROk Q (fun r => SimplexJ Q cons ns r.1) r :=
  he ▸ tryExtrapolation_inv hs s fac hJ

/-- the contraction: the function is evaluated at the *unconstrained* list of sums, which then holds the
midpoints of two vertices — values the constraints accept -/
theorem shrinkAll_inv (hw : SafeF I Q (Within cons)) :
    ∀ (l : List Nat) (s : St F (Simplex ℝ) ℝ), SimplexJ Q cons ns s → ROk Q (SimplexJ Q cons ns) (shrinkAll I l s) := by
  intro l
  induction l with
  | nil => intro s hJ; rw [shrinkAll]; exact hJ
  | cons i r ih =>
    intro s hJ
    rw [shrinkAll]
    dsimp only
    split
    · exact ih s hJ
    · split
      · rename_i vi lo hvi hlo
        have hvV : Vert cons ns vi := hJ.verts vi (List.mem_of_getElem? hvi)
        have hvL : Vert cons ns lo := hJ.verts lo (List.mem_of_getElem? hlo)
        split
        · exact hJ.fn
        · rename_i ps hps
          obtain ⟨f1, f2, f3⟩ := setAll_free _ _ _ hJ.psum.1 hps
          have hnps : names ps = ns := by rw [f2]; exact hJ.psum.2
          have hlen : (((values vi).zip (values lo)).map (fun ab => Scalar.ofRat 1 2 * (ab.1 + ab.2))).length
              = s.ext.pSum.length := by
            rw [List.length_map, List.length_zip, values_length, values_length, ← names_length vi, ← names_length lo,
              hvV.2.2, hvL.2.2, min_self, ← names_length s.ext.pSum, hJ.psum.2]
          have hW : Within cons ps :=
            mids_within cons ps vi lo (by rw [hnps, hvV.2.2]) (by rw [hvL.2.2, hvV.2.2]) hvV.1 hvL.1 (f3 hlen)
          split
          · exact hJ.fn
          · rename_i vi' hvi'
            split
            · rename_i e he; obtain ⟨e1, fn1⟩ := e; exact hw.f_err _ _ _ _ hJ.fn hW he
            · rename_i fn1 yi he
              apply ih
              refine ⟨hw.f_ok _ _ _ _ hJ.fn hW he, hJ.params, ?_, ⟨f1, hnps⟩⟩
              intro v hv
              rcases mem_set_cases hv with rfl | hm
              · exact setAll_vert hvV hvi'
              · exact hJ.verts v hm
      · exact hJ.fn

theorem simplexReport_inv (s : St F (Simplex ℝ) ℝ) (iL : Nat) (hJ : SimplexJ Q cons ns s) :
    SimplexJ Q cons ns (simplexReport s iL).1 := by
  unfold simplexReport
  split
  · rename_i best hb
    exact ⟨hJ.fn, hJ.verts best (List.mem_of_getElem? hb), hJ.verts, hJ.psum⟩
  · exact hJ

theorem simplexDoStep_inv (hs : Safe I Q (Tied cons)) (hw : SafeF I Q (Within cons)) (s : St F (Simplex ℝ) ℝ)
    (hJ : SimplexJ Q cons ns s) : ROk Q (fun r => SimplexJ Q cons ns r.1) (simplexDoStep I s) := by
  unfold simplexDoStep
  dsimp only
  split
  · rename_i y0 y1 v0 hy0 hy1 hv0
    generalize rank s.ext.y y0 y1 = rk
    obtain ⟨iH, iN, iL⟩ := rk
    dsimp only
    split
    · exact hJ.fn
    · rename_i best hbest
      have hA : SimplexJ Q cons ns
          ({ s with core := { s.core with params := best },
                    ext := { s.ext with iHighest := iH, iNextHighest := iN, iLowest := iL } } : St F (Simplex ℝ) ℝ) :=
        ⟨hJ.fn, hJ.verts best (List.mem_of_getElem? hbest), hJ.verts, hJ.psum⟩
      split
      · rename_i e he; exact tryExtrapolation_inv' hs he hA
      · rename_i s1 yT1 he
        have h1 : SimplexJ Q cons ns s1 := tryExtrapolation_inv' hs he hA
        split
        · split
          · rename_i e he2; exact tryExtrapolation_inv' hs he2 h1
          · rename_i s2 yT2 he2
            have h2 : SimplexJ Q cons ns s2 := tryExtrapolation_inv' hs he2 h1
            exact simplexReport_inv s2 iL h2
        · split
          · try dsimp only
            split
            · rename_i e he2; exact tryExtrapolation_inv' hs he2 h1
            · rename_i s2 yT2 he2
              have h2 : SimplexJ Q cons ns s2 := tryExtrapolation_inv' hs he2 h1
              split
              · have h3 := shrinkAll_inv hw (List.range (v0.length + 1)) s2 h2
                split
                · rename_i e he3; rw [he3] at h3; exact h3
                · rename_i s3 he3
                  rw [he3] at h3
                  try dsimp only
                  split
                  · exact h3.fn
                  · rename_i ps hps
                    obtain ⟨f1, f2⟩ := getPSum_free _ _ ps h3.params.2.1 hps
                    apply simplexReport_inv
                    exact ⟨h3.fn, h3.params, h3.verts, ⟨f1, by rw [f2]; exact h3.params.2.2⟩⟩
              · exact simplexReport_inv s2 iL h2
          · exact simplexReport_inv s1 iL h1
  · exact hJ.fn

/-- the vertices `1 … nDim` of the initial simplex: copies of the optimiser's list moved by `setValue` -/
theorem simplexVertices_inv (hs : Safe I Q (Tied cons)) (params : PList ℝ) (hp : Vert cons ns params) :
    ∀ (l : List Nat) (fn : F) (vs : List (PList ℝ)) (ys : List ℝ), Q fn → (∀ v ∈ vs, Vert cons ns v) →
      ROk Q (fun r => Q r.1 ∧ ∀ v ∈ r.2.1, Vert cons ns v) (simplexVertices I params l fn vs ys) := by
  intro l
  induction l with
  | nil => intro fn vs ys hQ hv; rw [simplexVertices]; exact ⟨hQ, hv⟩
  | cons i r ih =>
    intro fn vs ys hQ hv
    rw [simplexVertices]
    try dsimp only
    split
    · exact hQ
    · rename_i w hset
      have hvw : Vert cons ns w := setAll_vert hp hset
      split
      · rename_i e he; obtain ⟨e1, fn1⟩ := e; exact hs.f_err _ _ _ _ hQ hvw.1 he
      · rename_i fn1 yw he
        apply ih fn1 _ _ (hs.f_ok _ _ _ _ hQ hvw.1 he)
        intro v hv'
        rcases List.mem_append.1 hv' with hm | hm
        · exact hv v hm
        · rw [List.mem_singleton] at hm; rw [hm]; exact hvw

theorem simplexDoInit_inv (hs : Safe I Q (Tied cons)) (s : St F (Simplex ℝ) ℝ) (params : PList ℝ)
    (hQ : Q s.fn) (hp : Vert cons ns s.core.params) : ROk Q (SimplexJ Q cons ns) (simplexDoInit I s params) := by
  unfold simplexDoInit
  dsimp only
  have h1 := simplexVertices_inv hs s.core.params hp ((List.range s.core.params.length).map (· + 1)) s.fn [] [] hQ
    (fun v hv => nomatch hv)
  split
  · rename_i e he; rw [he] at h1; exact h1
  · rename_i fn1 vs ys he
    rw [he] at h1
    split
    · rename_i e he2; obtain ⟨e1, fn2⟩ := e; exact hs.f_err _ _ _ _ h1.1 hp.1 he2
    · rename_i fn2 y0 he2
      have hQ2 := hs.f_ok _ _ _ _ h1.1 hp.1 he2
      try dsimp only
      split
      · exact hQ2
      · rename_i ps hps
        obtain ⟨f1, f2⟩ := getPSum_free _ _ ps hp.2.1 hps
        refine ⟨hQ2, hp, ?_, ⟨f1, by rw [f2]; exact hp.2.2⟩⟩
        intro v hv
        rcases List.mem_cons.1 hv with rfl | hm
        · exact hp
        · exact h1.2 v hm

theorem simplex_invStep (hs : Safe I Q (Tied cons)) (hw : SafeF I Q (Within cons)) :
    InvStep (simplexAlgo I) Q (SimplexJ Q cons ns) :=
  { fn := fun _ h => h.fn,
    doStep := fun s hJ => simplexDoStep_inv hs hw s hJ,
    stopInit := fun s hJ => ⟨hJ.fn, hJ.params, hJ.verts, hJ.psum⟩,
    stop := fun s hJ => hJ,
    core := fun s c hJ hc _ => ⟨hJ.fn, by show Vert cons ns c.params; rw [hc]; exact hJ.params, hJ.verts, hJ.psum⟩ }

/-- `init` of the simplex method on a list that is tied, of precision 0 and named `ns` once the policy is applied -/
theorem simplex_init_inv (hs : Safe I Q (Tied cons)) (hw : SafeF I Q (Within cons)) (s : St F (Simplex ℝ) ℝ) (params : PList ℝ)
    (hQ : Q s.fn) (hp : Vert cons ns (applyPolicy s.core.policy params)) :
    ROk Q (SimplexJ Q cons ns) ((simplexAlgo I).init s params) :=
  init_invS (simplex_invStep hs hw) s params (simplexDoInit_inv hs _ params hQ hp)

/-- `DownhillSimplexMethod::optimize`: the template's loop, then an evaluation at the best vertex -/
theorem simplexOptimize_inv (hs : Safe I Q (Tied cons)) (hw : SafeF I Q (Within cons)) (fuel : Nat) (s : St F (Simplex ℝ) ℝ)
    (hJ : SimplexJ Q cons ns s) : ROk Q (fun r => SimplexJ Q cons ns r.1) (simplexOptimize I fuel s) := by
  unfold simplexOptimize
  have h1 := optimize_invS (simplex_invStep hs hw) fuel s hJ
  split
  · rename_i e he; rw [he] at h1; exact h1
  · rename_i s1 v he
    rw [he] at h1
    split
    · exact h1.fn
    · rename_i best hb
      have hvb : Vert cons ns best := h1.verts best (List.mem_of_getElem? hb)
      split
      · rename_i e he2; obtain ⟨e1, fn2⟩ := e; exact hs.f_err _ _ _ _ h1.fn hvb.1 he2
      · rename_i fn2 v2 he2
        exact ⟨hs.f_ok _ _ _ _ h1.fn hvb.1 he2, h1.params, h1.verts, h1.psum⟩

end

/-- the policy keeps precisions -/
theorem applyPolicy_prec0 (pol : Policy) (pl : PList ℝ) (h : Prec0 pl) : Prec0 (applyPolicy pol pl) := by
  intro q hq
  cases pol with
  | keep => exact h q hq
  | ignore =>
    simp only [applyPolicy, List.mem_map] at hq
    obtain ⟨q0, hq0, rfl⟩ := hq
    exact h q0 hq0
  | auto =>
    simp only [applyPolicy, List.mem_map] at hq
    obtain ⟨q0, hq0, rfl⟩ := hq
    exact h q0 hq0

/-! ### MetaOptimizer -/

section
variable {I : FunI F ℝ} {Q : F → Prop}

theorem bfgsDoStep_policy (fuel : Nat) (s s' : St F (Bfgs ℝ) ℝ) (v : ℝ)
    (h : bfgsDoStep I fuel s = .ok (s', v)) : s'.core.policy = s.core.policy := by
  unfold bfgsDoStep at h
  dsimp only at h
  split at h
  · cases h
  · split at h
    · cases h
    · split at h
      · split at h
        · cases h
        · split at h
          · cases h
          · simp only [Except.ok.injEq, Prod.mk.injEq] at h
            obtain ⟨rfl, rfl⟩ := h
            rfl
      · split at h
        · simp only [Except.ok.injEq, Prod.mk.injEq] at h
          obtain ⟨rfl, rfl⟩ := h
          rfl
        · split at h
          · cases h
          · try dsimp only at h
            split at h
            · simp only [Except.ok.injEq, Prod.mk.injEq] at h
              obtain ⟨rfl, rfl⟩ := h
              rfl
            · simp only [Except.ok.injEq, Prod.mk.injEq] at h
              obtain ⟨rfl, rfl⟩ := h
              rfl

theorem bfgsDoInit_policy (s s' : St F (Bfgs ℝ) ℝ) (params : PList ℝ)
    (h : bfgsDoInit I s params = .ok s') : s'.core.policy = s.core.policy := by
  unfold bfgsDoInit at h
  dsimp only at h
  split at h
  · cases h
  · split at h
    · cases h
    · split at h
      · cases h
      · split at h
        · cases h
        · simp only [Except.ok.injEq] at h; subst h; rfl

theorem bfgs_keepsPolicy (fuel : Nat) : KeepsPolicy (bfgsAlgo I fuel) :=
  { doInit := fun s p s' h => bfgsDoInit_policy s s' p h,
    doStep := fun s s' v h => bfgsDoStep_policy fuel s s' v h,
    stopInit := fun _ => rfl,
    stop := fun s => fscStop_policy s }

/-- the sub-lists of the `MetaOptimizer` are made of parameters of its own list -/
theorem metaSubList_tied (cons : Spec.Cons ℝ) (own given : PList ℝ) (ns : List Nat) (h : Tied cons own) :
    Tied cons (metaSubList own given ns) := by
  intro q hq
  unfold metaSubList at hq
  obtain ⟨n, _, hn⟩ := List.mem_filterMap.1 hq
  split at hn
  · exact h q (findNamed_some hn).1
  · cases hn

/-- the invariant of the `MetaOptimizer`: the function is fine; its list and the two sub-lists are tied;
the two optimisers it drives run under a policy that keeps constraints (when they have parameters) -/
def MetaJ (Q : F → Prop) (cons : Spec.Cons ℝ) (s : St F (Meta ℝ) ℝ) : Prop :=
  Q s.fn ∧ Tied cons s.core.params ∧ Tied cons s.ext.p1 ∧ Tied cons s.ext.p2 ∧
  (s.ext.p1.length = 0 ∨ s.ext.c1.policy ≠ .ignore) ∧ (s.ext.p2.length = 0 ∨ s.ext.c2.policy ≠ .ignore)

/-- the `SimpleMultiDimensions` of a step: sub-list updated, `init`, one step or a whole `optimize`, copy back -/
theorem metaRunSimple_inv {cons : Spec.Cons ℝ} (hs : Safe I Q (Tied cons)) (hss : SafeSet I Q (Tied cons)) (fuel : Nat)
    (s : St F (Meta ℝ) ℝ) (tol : ℝ) (hJ : MetaJ Q cons s) : ROk Q (MetaJ Q cons) (metaRunSimple I fuel s tol) := by
  unfold metaRunSimple
  obtain ⟨hQ, hT, hT1, hT2, hc1, hc2⟩ := hJ
  split
  · exact ⟨hQ, hT, hT1, hT2, hc1, hc2⟩
  · rename_i hne
    have hp : s.ext.c1.policy ≠ .ignore := by
      rcases hc1 with h0 | h
      · exact absurd (by simpa using h0) hne
      · exact h
    split
    · exact hQ
    · rename_i p1 hm
      have hTp1 : Tied cons p1 := matchList_tied cons _ _ _ hT1 hm
      dsimp only
      have hi := simple_init_inv hs hss fuel
        ({ core := { s.ext.c1 with tolerance := tol }, fn := s.fn, ext := s.ext.e1 } : St F (Simple ℝ) ℝ) p1 hQ
        (applyPolicy_tied' cons _ _ hp hTp1) hp
      split
      · rename_i e he; rw [he] at hi; exact hi
      · rename_i sub1 he
        rw [he] at hi
        have hp1 : sub1.core.policy = s.ext.c1.policy := init_policy (simple_keepsPolicy fuel) _ _ _ he
        have hrun : ROk Q (fun r => SimpleJ Q cons r.1)
            (if s.ext.full = true then (simpleAlgo I fuel).optimize fuel sub1 else (simpleAlgo I fuel).step sub1) := by
          split
          · exact optimize_invS (simple_invStep hs fuel) fuel sub1 hi
          · exact step_invS (simple_invStep hs fuel) sub1 hi
        have hrunp : ∀ r, (if s.ext.full = true then (simpleAlgo I fuel).optimize fuel sub1 else (simpleAlgo I fuel).step sub1) = .ok r →
            r.1.core.policy = sub1.core.policy := by
          intro r hr
          split at hr
          · exact optimize_policy (simple_keepsPolicy fuel) fuel _ _ _ hr
          · exact step_policy (simple_keepsPolicy fuel) _ _ _ hr
        generalize (if s.ext.full = true then (simpleAlgo I fuel).optimize fuel sub1 else (simpleAlgo I fuel).step sub1) = run
          at hrun hrunp
        cases run with
        | error e => exact hrun
        | ok r =>
          obtain ⟨sub2, v⟩ := r
          have hp2 := hrunp _ rfl
          dsimp only
          split
          · exact hrun.1
          · rename_i own hm2
            exact ⟨hrun.1, matchList_tied cons _ _ _ hT hm2, hTp1, hT2,
              Or.inr (by show sub2.core.policy ≠ _; rw [hp2, hp1]; exact hp), hc2⟩

/-- the same for the `BfgsMultiDimensions` (whose `doInit` sets the function to the sub-list itself) -/
theorem metaRunBfgs_inv {cons : Spec.Cons ℝ} (hs : Safe I Q (Tied cons)) (hss : SafeSet I Q (Tied cons)) (fuel : Nat)
    (s : St F (Meta ℝ) ℝ) (tol : ℝ) (hJ : MetaJ Q cons s) : ROk Q (MetaJ Q cons) (metaRunBfgs I fuel s tol) := by
  unfold metaRunBfgs
  obtain ⟨hQ, hT, hT1, hT2, hc1, hc2⟩ := hJ
  split
  · exact ⟨hQ, hT, hT1, hT2, hc1, hc2⟩
  · rename_i hne
    have hp : s.ext.c2.policy ≠ .ignore := by
      rcases hc2 with h0 | h
      · exact absurd (by simpa using h0) hne
      · exact h
    split
    · exact hQ
    · rename_i p2 hm
      have hTp2 : Tied cons p2 := matchList_tied cons _ _ _ hT2 hm
      dsimp only
      have hstep := bfgs_safeStep hs hss fuel
      have hi := init_safeS hstep
        ({ core := { s.ext.c2 with tolerance := tol }, fn := s.fn, ext := s.ext.e2 } : St F (Bfgs ℝ) ℝ) p2
        (bfgsDoInit_safe hss _ p2 hQ (applyPolicy_tied' cons _ _ hp hTp2) hTp2)
      split
      · rename_i e he; rw [he] at hi; exact hi
      · rename_i sub1 he
        rw [he] at hi
        have hp1 : sub1.core.policy = s.ext.c2.policy := init_policy (bfgs_keepsPolicy fuel) _ _ _ he
        have hrun : ROk Q (fun r => Q r.1.fn ∧ Tied cons r.1.core.params)
            (if s.ext.full = true then (bfgsAlgo I fuel).optimize fuel sub1 else (bfgsAlgo I fuel).step sub1) := by
          split
          · exact optimize_safeS hstep fuel sub1 hi.1 hi.2
          · exact step_safeS hstep sub1 hi.1 hi.2
        have hrunp : ∀ r, (if s.ext.full = true then (bfgsAlgo I fuel).optimize fuel sub1 else (bfgsAlgo I fuel).step sub1) = .ok r →
            r.1.core.policy = sub1.core.policy := by
          intro r hr
          split at hr
          · exact optimize_policy (bfgs_keepsPolicy fuel) fuel _ _ _ hr
          · exact step_policy (bfgs_keepsPolicy fuel) _ _ _ hr
        generalize (if s.ext.full = true then (bfgsAlgo I fuel).optimize fuel sub1 else (bfgsAlgo I fuel).step sub1) = run
          at hrun hrunp
        cases run with
        | error e => exact hrun
        | ok r =>
          obtain ⟨sub2, v⟩ := r
          have hp2 := hrunp _ rfl
          dsimp only
          split
          · exact hrun.1
          · rename_i own hm2
            exact ⟨hrun.1, matchList_tied cons _ _ _ hT hm2, hT1, hTp2, hc1,
              Or.inr (by show sub2.core.policy ≠ _; rw [hp2, hp1]; exact hp)⟩

theorem metaRunSimple_inv' {cons : Spec.Cons ℝ} (hs : Safe I Q (Tied cons)) (hss : SafeSet I Q (Tied cons)) {fuel : Nat}
    {s : St F (Meta ℝ) ℝ} {tol : ℝ} {r : Except (Exc × F) (St F (Meta ℝ) ℝ)} (he : metaRunSimple I fuel s tol = r)
    (hJ : MetaJ Q cons s) : ROk Q (MetaJ Q cons) r :=
  he ▸ metaRunSimple_inv hs hss fuel s tol hJ

theorem metaRunBfgs_inv' {cons : Spec.Cons ℝ} (hs : Safe I Q (Tied cons)) (hss : SafeSet I Q (Tied cons)) {fuel : Nat}
    {s : St F (Meta ℝ) ℝ} {tol : ℝ} {r : Except (Exc × F) (St F (Meta ℝ) ℝ)} (he : metaRunBfgs I fuel s tol = r)
    (hJ : MetaJ Q cons s) : ROk Q (MetaJ Q cons) r :=
  he ▸ metaRunBfgs_inv hs hss fuel s tol hJ

theorem metaDoStep_inv {cons : Spec.Cons ℝ} (hs : Safe I Q (Tied cons)) (hss : SafeSet I Q (Tied cons)) (fuel : Nat)
    (s : St F (Meta ℝ) ℝ) (hJ : MetaJ Q cons s) : ROk Q (fun r => MetaJ Q cons r.1) (metaDoStep I fuel s) := by
  unfold metaDoStep
  dsimp only
  have h0 : MetaJ Q cons ({ s with ext := { s.ext with stepCount := s.ext.stepCount + 1 } } : St F (Meta ℝ) ℝ) := hJ
  split
  · rename_i e he
    exact metaRunSimple_inv' hs hss he h0
  · rename_i s1 he
    have h1 : MetaJ Q cons s1 := metaRunSimple_inv' hs hss he h0
    split
    · rename_i e he2
      exact metaRunBfgs_inv' hs hss he2 h1
    · rename_i s2 he2
      have h2 : MetaJ Q cons s2 := metaRunBfgs_inv' hs hss he2 h1
      exact h2

theorem metaDoInit_inv {cons : Spec.Cons ℝ} (hss : SafeSet I Q (Tied cons)) (log10 : ℝ → ℝ) (s : St F (Meta ℝ) ℝ)
    (params : PList ℝ) (hQ : Q s.fn) (hT : Tied cons s.core.params) (hp : s.core.policy ≠ .ignore) :
    ROk Q (MetaJ Q cons) (metaDoInit I log10 s params) := by
  unfold metaDoInit
  dsimp only
  split
  · exact hQ
  · rename_i own hm
    have hTo : Tied cons own := matchList_tied cons _ _ _ hT hm
    split
    · rename_i e he; obtain ⟨e1, fn1⟩ := e; exact hss.set_err _ _ _ _ hQ hTo he
    · rename_i fn1 he
      refine ⟨hss.set_ok _ _ _ hQ hTo he, hTo, metaSubList_tied cons _ _ _ hT, metaSubList_tied cons _ _ _ hT, ?_, ?_⟩
      · dsimp only
        split
        · exact Or.inr hp
        · rename_i hz; exact Or.inl (by omega)
      · dsimp only
        split
        · exact Or.inr hp
        · rename_i hz; exact Or.inl (by omega)

theorem meta_invStep {cons : Spec.Cons ℝ} (hs : Safe I Q (Tied cons)) (hss : SafeSet I Q (Tied cons)) (log10 : ℝ → ℝ) (fuel : Nat) :
    InvStep (metaAlgo I log10 fuel) Q (MetaJ Q cons) :=
  { fn := fun _ h => h.1,
    doStep := fun s hJ => metaDoStep_inv hs hss fuel s hJ,
    stopInit := fun s hJ => hJ,
    stop := fun s hJ => by
      have := fscStop_same s
      show MetaJ Q cons (fscStop s).1
      unfold MetaJ
      rw [this.1, this.2.1, this.2.2.2.1]; exact hJ,
    core := fun s c hJ hc _ => ⟨hJ.1, by show Tied cons c.params; rw [hc]; exact hJ.2.1, hJ.2.2⟩ }

/-- `init` of the `MetaOptimizer` on a tied list under a policy that keeps constraints -/
theorem meta_init_inv {cons : Spec.Cons ℝ} (hs : Safe I Q (Tied cons)) (hss : SafeSet I Q (Tied cons)) (log10 : ℝ → ℝ)
    (fuel : Nat) (s : St F (Meta ℝ) ℝ) (params : PList ℝ) (hQ : Q s.fn)
    (hT : Tied cons (applyPolicy s.core.policy params)) (hp : s.core.policy ≠ .ignore) :
    ROk Q (MetaJ Q cons) ((metaAlgo I log10 fuel).init s params) :=
  init_invS (meta_invStep hs hss log10 fuel) s params (metaDoInit_inv hss log10 _ params hQ hT hp)

end

/-! ### from `FeasL` back to the predicates of the clause -/

/-- a result that is fine for `FeasL` is fine for `FeasFn` -/
theorem rok_final {β : Type} {cons : Spec.Cons ℝ} {L : Nat} {P : β → Prop} {P' : β → Prop}
    {r : Except (Exc × Fn ℝ) β} (h : ROk (FeasL cons L) P r) (hP : ∀ b, P b → P' b) : ROk (FeasFn cons) P' r := by
  cases r with
  | error e => exact h.1
  | ok b => exact hP b h

/-! ### why the simplex theorem asks for precision 0: a run in exact rational arithmetic

One parameter, value `1/10`, precision `6/25`, constraint `[-7/100, 1/4]`, automatic policy.  `init`
builds the vertices `1/10` and `1/4` (`1/10 + 1/5` corrected to the bound) and the sum `7/20`.
Step 1: the reflection `-1/20` replaces `1/4`, the sum becomes `1/20`; the expansion, corrected to
`-7/100`, is better still, but `-7/100` is within `precision/2 = 3/25` of what the vertex and the sum
hold: both `setValue`s are ignored.  Step 2: the reflection replaces `1/10` by `-1/20`, the sum becomes
`1/20 + (-1/20) - 1/10 = -1/10` (no constraint: stored); the contraction does not improve, the simplex is
contracted around its lowest vertex: the sums are told to take the midpoint `-1/20`, which is within
`3/25` of `-1/10`: ignored — and the function is evaluated at `-1/10 < -7/100`. -/
namespace SimplexCex

def c : Interval Rat := ⟨.fin (-7/100), .fin (1/4), true, true, 0⟩
def params : PList Rat := [⟨0, ⟨1/10, 6/25, some c, false⟩⟩]
/-- the objective: a table on the points the run visits -/
def obj (x : List Rat) : Rat :=
  match x with
  | [v] => if v = 1/4 then 817/100 else if v = 1/10 then 202/25 else if v = -1/20 then 174/25 else if v = -7/100 then 28/25 else 0
  | _ => 0
/-- a freshly constructed `DownhillSimplexMethod` under the automatic policy, the function at `(1/10)` -/
def s0 : St (Fn Rat) (Simplex Rat) Rat :=
  ⟨{ params := [], policy := .auto, nbEvalMax := 5, nbEval := 0, cur := 0, tol := false, initialized := false,
     tolerance := 0, callCount := 0, burnin := 0, lastF := 0, newF := 0 }, ⟨[1/10], []⟩, Simplex.fresh⟩
def I : FunI (Fn Rat) Rat := Fn.iface obj ⟨fun _ _ => 0, fun _ _ => 0⟩ none
def cons : Spec.Cons Rat := params.map (fun q => (q.name, q.p.constraint))
/-- the log of the function after `init` and `optimize` (however they end) -/
def log : List (List Rat) :=
  match (simplexAlgo I).init s0 params with
  | .error e => e.2.log
  | .ok s1 =>
    match simplexOptimize I 10 s1 with
    | .error e => e.2.log
    | .ok r => r.1.fn.log

end SimplexCex

end Bpp.Optim
