import BppProofs.Lemmas.MatrixScan
/-! Helper lemmas for C04: `Store.ofFn` (an operand of a given class built entry by entry). -/
namespace Bpp.Mx
open Bpp Store

section OfFn
variable {α : Type} [Scalar α]

theorem ofFn_kind (k : Kind) (r c : Nat) (f : Nat → Nat → α) : (Store.ofFn k r c f).kind = k := by
  cases k <;> rfl

theorem ofFn_holds (k : Kind) (r c : Nat) (f : Nat → Nat → α) : (Store.ofFn k r c f).Holds r c f := by
  cases k with
  | row =>
    have hnr : (Store.ofFn .row r c f).nrows = r := by simp [Store.ofFn, nrows]
    have hnc : (Store.ofFn .row r c f).ncols = if r = 0 then 0 else c := by
      simp only [Store.ofFn, ncols]
      by_cases h : r = 0
      · subst h; simp
      · have : 0 < r := by omega
        simp [h, this]
    refine ⟨?_, ?_, ?_⟩
    · intro i hi
      have hi' : i < r := by simpa [Store.ofFn] using hi
      show _ = (Store.ofFn .row r c f).ncols
      rw [hnc]
      have : r ≠ 0 := by omega
      simp [this]
    · rw [hnr, hnc]; rfl
    · intro i j hi hj
      simp [Store.ofFn, Store.get, vget, hi, hj]
  | col =>
    have hnc : (Store.ofFn .col r c f).ncols = c := by simp [Store.ofFn, ncols]
    have hnr : (Store.ofFn .col r c f).nrows = if c = 0 then 0 else r := by
      simp only [Store.ofFn, nrows]
      by_cases h : c = 0
      · subst h; simp
      · have : 0 < c := by omega
        simp [h, this]
    refine ⟨?_, ?_, ?_⟩
    · intro j hj
      have hj' : j < c := by simpa [Store.ofFn] using hj
      show _ = (Store.ofFn .col r c f).nrows
      rw [hnr]
      have : c ≠ 0 := by omega
      simp [this]
    · rw [hnr, hnc]; rfl
    · intro i j hi hj
      simp [Store.ofFn, Store.get, vget, hi, hj]
  | lin =>
    refine ⟨?_, rfl, ?_⟩
    · show (Array.ofFn _).size = r * c
      simp
    · intro i j hi hj
      have hlt : i * c + j < r * c := by
        calc i * c + j < i * c + c := by omega
          _ = (i + 1) * c := by ring
          _ ≤ r * c := Nat.mul_le_mul_right c hi
      have hd : (i * c + j) / c = i := by
        rw [Nat.mul_comm, Nat.mul_add_div (by omega), Nat.div_eq_of_lt hj]; simp
      have hm : (i * c + j) % c = j := by
        rw [Nat.mul_comm, Nat.mul_add_mod, Nat.mod_eq_of_lt hj]
      simp [Store.ofFn, Store.get, vget, hlt, hd, hm]

/-- an operand of any class with both dimensions positive: well formed, with exactly these dimensions -/
theorem ofFn_dims (k : Kind) {r c : Nat} (hr : 0 < r) (hc : 0 < c) (f : Nat → Nat → α) :
    (Store.ofFn k r c f).WF ∧ (Store.ofFn k r c f).nrows = r ∧ (Store.ofFn k r c f).ncols = c := by
  have h := ofFn_holds k r c f
  exact ⟨h.1, (h.dims_pos hr hc).1, (h.dims_pos hr hc).2⟩

end OfFn
end Bpp.Mx
