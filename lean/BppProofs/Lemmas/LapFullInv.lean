import BppProofs.Lemmas.LapFullBasic
import Mathlib.Data.Fintype.Card
import Mathlib.Data.Fintype.EquivFin
/-! Helper lemmas for C04 (`lap`, the whole routine): the invariant of the partial assignment kept
by every phase after the reduction transfer, and the outcome predicate `Good`. -/
namespace Bpp.Mx.Lap
open Bpp Bpp.Mx

/-- outcome of a phase: a normal return satisfying `P`, or — only when the fuel is not known to
suffice (`¬ B`) — fuel exhaustion; never `ub`, `inf` -/
def Good {β : Type} (B : Prop) (r : Res β) (P : β → Prop) : Prop :=
  (∃ a, r = .ok a ∧ P a) ∨ (r = .error .fuel ∧ ¬ B)

theorem Good.ok {β : Type} {B : Prop} {a : β} {P : β → Prop} (h : P a) : Good B (.ok a) P := Or.inl ⟨a, rfl, h⟩

theorem Good.mono {β : Type} {B : Prop} {r : Res β} {P Q : β → Prop} (h : Good B r P) (hpq : ∀ a, P a → Q a) : Good B r Q := by
  rcases h with ⟨a, ha, hp⟩ | h
  · exact Or.inl ⟨a, ha, hpq a hp⟩
  · exact Or.inr h

/-- sequencing: `match r with | .ok a => f a | .error e => .error e` -/
theorem Good.bind {β γ : Type} {B : Prop} {r : Res β} {P : β → Prop} {f : β → Res γ} {Q : γ → Prop}
    (h : Good B r P) (hf : ∀ a, P a → Good B (f a) Q) :
    Good B (match r with | .ok a => f a | .error e => .error e) Q := by
  rcases h with ⟨a, ha, hp⟩ | ⟨h, hb⟩
  · subst ha; exact hf a hp
  · subst h; exact Or.inr ⟨rfl, hb⟩

theorem Good.of_ok {β : Type} {B : Prop} {r : Res β} {P : β → Prop} {a : β} (h : Good B r P) (hr : r = .ok a) : P a := by
  rcases h with ⟨a', ha, hp⟩ | ⟨h, _⟩
  · rw [hr] at ha; cases ha; exact hp
  · rw [hr] at h; cases h

theorem Good.ne_ub {β : Type} {B : Prop} {r : Res β} {P : β → Prop} (h : Good B r P) : r ≠ .error .ub ∧ r ≠ .error .inf := by
  rcases h with ⟨a', ha, _⟩ | ⟨h, _⟩ <;> subst_vars <;> constructor <;> intro h <;> cases h

theorem Good.total {β : Type} {B : Prop} {r : Res β} {P : β → Prop} (h : Good B r P) (hb : B) : ∃ a, r = .ok a ∧ P a := by
  rcases h with h | ⟨_, h⟩
  · exact h
  · exact absurd hb h

/-- `loopM` with an invariant, every iteration `Good` -/
theorem loopM_good {σ : Type} {B : Prop} (P : Nat → σ → Prop) (n : Nat) (f : Nat → σ → Res σ) (s : σ) (h0 : P 0 s)
    (hstep : ∀ k t, k < n → P k t → Good B (f k t) (P (k + 1))) : Good B (loopM n f s) (P n) := by
  induction n with
  | zero => exact Good.ok h0
  | succ n ih =>
    rw [loopM_succ]
    exact Good.bind (ih (fun k t hk => hstep k t (by omega))) (fun a ha => hstep n a (by omega) ha)

/-- pigeonhole: an injective map of `{0..n-1}` into itself is onto -/
theorem inj_surj {n : Nat} (g : Nat → Nat) (hlt : ∀ k, k < n → g k < n) (hinj : ∀ a b, a < n → b < n → g a = g b → a = b) :
    ∀ j, j < n → ∃ k, k < n ∧ g k = j := by
  intro j hj
  let f : Fin n → Fin n := fun k => ⟨g k.val, hlt k.val k.isLt⟩
  have hf : Function.Injective f := by
    intro a b hab
    exact Fin.ext (hinj a.val b.val a.isLt b.isLt (congrArg Fin.val hab))
  obtain ⟨k, hk⟩ := (Finite.injective_iff_surjective.mp hf) ⟨j, hj⟩
  exact ⟨k.val, k.isLt, congrArg Fin.val hk⟩

/-- **the invariant**: `cs` (`colSol`) is a partial assignment of columns to rows (`< 0` = the
column is unassigned) with inverse `rs` (`rowSol`) on the assigned rows; the rows in `F` are the
free ones; every assigned pair is tight for the prices `v`: its reduced cost `c i j - v j` is the
smallest of the row. -/
structure Inv (n : Nat) (c : Nat → Nat → ℝ) (rs cs : Nat → Int) (v : Nat → ℝ) (F : Nat → Prop) : Prop where
  colOk : ∀ j, j < n → ∀ i : Nat, cs j = (i : Int) → i < n ∧ rs i = (j : Int)
  rowOk : ∀ i, i < n → ¬ F i → ∃ j : Nat, j < n ∧ rs i = (j : Int) ∧ cs j = (i : Int)
  freeOk : ∀ i, F i → i < n ∧ ∀ j, j < n → cs j ≠ (i : Int)
  tight : ∀ j, j < n → ∀ i : Nat, cs j = (i : Int) → ∀ k, k < n → c i j - v j ≤ c i k - v k

theorem Inv.congrF {n : Nat} {c : Nat → Nat → ℝ} {rs cs : Nat → Int} {v : Nat → ℝ} {F G : Nat → Prop}
    (h : Inv n c rs cs v F) (hfg : ∀ i, i < n → (F i ↔ G i)) (hG : ∀ i, G i → i < n) : Inv n c rs cs v G where
  colOk := h.colOk
  rowOk := fun i hi hg => h.rowOk i hi (fun hf => hg ((hfg i hi).1 hf))
  freeOk := fun i hg => h.freeOk i ((hfg i (hG i hg)).2 hg)
  tight := h.tight

/-- a free row `i` takes column `j1` (from the row that holds it, if any), the price of `j1`
possibly lowered so that the new pair is tight -/
theorem Inv.assign {n : Nat} {c : Nat → Nat → ℝ} {rs cs : Nat → Int} {v : Nat → ℝ} {F : Nat → Prop}
    (h : Inv n c rs cs v F) {i j1 : Nat} (hF : F i) (hj1 : j1 < n) (v' : Nat → ℝ)
    (hle : ∀ k, k < n → v' k ≤ v k) (heq : ∀ k, k < n → k ≠ j1 → v' k = v k)
    (ht : ∀ k, k < n → c i j1 - v' j1 ≤ c i k - v' k) :
    Inv n c (upd rs i (j1 : Int)) (upd cs j1 (i : Int)) v' (fun x => (F x ∧ x ≠ i) ∨ cs j1 = (x : Int)) := by
  have hi := (h.freeOk i hF).1
  have hfree := (h.freeOk i hF).2
  refine ⟨?_, ?_, ?_, ?_⟩
  · intro j hj i' hi'
    by_cases hjj : j = j1
    · subst hjj
      rw [upd_same] at hi'
      have : i' = i := by omega
      subst this
      exact ⟨hi, by rw [upd_same]⟩
    · rw [upd_ne _ _ hjj] at hi'
      obtain ⟨h1, h2⟩ := h.colOk j hj i' hi'
      have hne : i' ≠ i := fun e => hfree j hj (by rw [hi', e])
      exact ⟨h1, by rw [upd_ne _ _ hne]; exact h2⟩
  · intro x hx hnf
    by_cases hxi : x = i
    · subst hxi
      exact ⟨j1, hj1, by rw [upd_same], by rw [upd_same]⟩
    · have hnF : ¬ F x := fun hf => hnf (Or.inl ⟨hf, hxi⟩)
      have hcs : cs j1 ≠ (x : Int) := fun e => hnf (Or.inr e)
      obtain ⟨j, hj, h1, h2⟩ := h.rowOk x hx hnF
      have hjj : j ≠ j1 := fun e => hcs (by rw [← e]; exact h2)
      exact ⟨j, hj, by rw [upd_ne _ _ hxi]; exact h1, by rw [upd_ne _ _ hjj]; exact h2⟩
  · intro x hx
    rcases hx with ⟨hfx, hxi⟩ | hx
    · refine ⟨(h.freeOk x hfx).1, fun j hj => ?_⟩
      by_cases hjj : j = j1
      · subst hjj; rw [upd_same]; omega
      · rw [upd_ne _ _ hjj]; exact (h.freeOk x hfx).2 j hj
    · obtain ⟨h1, h2⟩ := h.colOk j1 hj1 x hx
      refine ⟨h1, fun j hj => ?_⟩
      have hxi : x ≠ i := fun e => hfree j1 hj1 (by rw [hx, e])
      by_cases hjj : j = j1
      · subst hjj; rw [upd_same]; omega
      · rw [upd_ne _ _ hjj]
        intro e
        have := (h.colOk j hj x e).2
        rw [h2] at this
        exact hjj (by omega)
  · intro j hj i' hi' k hk
    by_cases hjj : j = j1
    · subst hjj
      rw [upd_same] at hi'
      have : i' = i := by omega
      subst this
      exact ht k hk
    · rw [upd_ne _ _ hjj] at hi'
      have h1 := h.tight j hj i' hi' k hk
      have h2 := heq j hj hjj
      have h3 := hle k hk
      rw [h2]; linarith

/-- when some row is free, some column is unassigned -/
theorem Inv.exists_unassigned {n : Nat} {c : Nat → Nat → ℝ} {rs cs : Nat → Int} {v : Nat → ℝ} {F : Nat → Prop}
    (h : Inv n c rs cs v F) {i : Nat} (hF : F i) : ∃ j, j < n ∧ cs j < 0 := by
  by_contra hno
  have hall : ∀ j, j < n → ∃ x : Nat, cs j = (x : Int) := by
    intro j hj
    have : ¬ cs j < 0 := fun hlt => hno ⟨j, hj, hlt⟩
    exact ⟨(cs j).toNat, by omega⟩
  let g : Nat → Nat := fun j => (cs j).toNat
  have hg : ∀ j, j < n → cs j = (g j : Int) := by
    intro j hj
    obtain ⟨x, hx⟩ := hall j hj
    simp only [g, hx]; simp
  have hsurj := inj_surj g (fun k hk => (h.colOk k hk (g k) (hg k hk)).1)
    (by
      intro a b ha hb hab
      have h1 := (h.colOk a ha (g a) (hg a ha)).2
      have h2 := (h.colOk b hb (g b) (hg b hb)).2
      rw [hab] at h1
      omega)
  obtain ⟨hi, hfree⟩ := h.freeOk i hF
  obtain ⟨k, hk, hgk⟩ := hsurj i hi
  exact hfree k hk (by rw [hg k hk, hgk])

/-- a list of rows given by its entries `free t` for the indices `t` in `I` -/
def FL (free : Nat → Nat) (I : Nat → Prop) : Nat → Prop := fun x => ∃ t, I t ∧ free t = x

/-- no row occurs twice -/
def InjOnI (free : Nat → Nat) (I : Nat → Prop) : Prop := ∀ t t', I t → I t' → free t = free t' → t = t'

end Bpp.Mx.Lap
