import BppProofs.Lemmas.TokRT
import BppProofs.Lemmas.TableU
import BppModel.Text.TableRT
/-! Helper lemmas for `Props/C17Table.lean`: a written line tokenises back into its items, the
stream gives back the lines, the row loop rebuilds the rows. -/
namespace Bpp.Text.RT
open Bpp.Text Bpp.Text.U

/-! ### a written line and its items -/

theorem joinSep_cons (sep a : Str) (b : Str) (r : List Str) :
    joinSep sep (a :: b :: r) = a ++ sep ++ joinSep sep (b :: r) := rfl

/-- the written line is the items interleaved with copies of the separator -/
theorem joinSep_eq_interleave (sep : Str) (items : List Str) (h : items ≠ []) :
    joinSep sep items = interleave items (List.replicate (items.length - 1) sep) := by
  induction items with
  | nil => exact absurd rfl h
  | cons a r ih =>
    cases r with
    | nil => simp [joinSep, interleave]
    | cons b r' =>
      rw [joinSep_cons, ih (by simp)]
      simp [interleave, List.replicate_succ]

/-- cutting at the first separator character is unambiguous -/
theorem append_cons_inj {c : Char} {a a' r r' : Str} (ha : ∀ x ∈ a, x ≠ c) (ha' : ∀ x ∈ a', x ≠ c)
    (h : a ++ c :: r = a' ++ c :: r') : a = a' ∧ r = r' := by
  induction a generalizing a' with
  | nil =>
    cases a' with
    | nil => simpa using h
    | cons y a'' =>
      simp only [List.nil_append, List.cons_append, List.cons.injEq] at h
      exact absurd h.1.symm (ha' y (by simp))
  | cons x a ih =>
    cases a' with
    | nil =>
      simp only [List.nil_append, List.cons_append, List.cons.injEq] at h
      exact absurd h.1 (ha x (by simp))
    | cons y a'' =>
      simp only [List.cons_append, List.cons.injEq] at h
      obtain ⟨h1, h2⟩ := ih (fun z hz => ha z (by simp [hz])) (fun z hz => ha' z (by simp [hz])) h.2
      exact ⟨by rw [h.1, h1], h2⟩

/-- a text has one decomposition into separator-free items and one-character separators -/
theorem interleave_unique (c : Char) (ts ts' ss ss' : List Str)
    (hts : ∀ t ∈ ts, ∀ x ∈ t, x ≠ c) (hts' : ∀ t ∈ ts', ∀ x ∈ t, x ≠ c)
    (hss : ∀ sp ∈ ss, sp = [c]) (hss' : ∀ sp ∈ ss', sp = [c])
    (hl : ts.length = ss.length + 1) (hl' : ts'.length = ss'.length + 1)
    (h : interleave ts ss = interleave ts' ss') : ts = ts' := by
  induction ts generalizing ss ts' ss' with
  | nil => simp at hl
  | cons t ts ih =>
    cases ts' with
    | nil => simp at hl'
    | cons t' ts' =>
      have ht := hts t (by simp)
      have ht' := hts' t' (by simp)
      cases ss with
      | nil =>
        have e1 : ts = [] := by
          cases ts with
          | nil => rfl
          | cons _ _ => simp at hl
        subst e1
        cases ss' with
        | nil =>
          have e2 : ts' = [] := by
            cases ts' with
            | nil => rfl
            | cons _ _ => simp at hl'
          subst e2
          simp only [interleave, List.append_nil] at h
          rw [h]
        | cons sp' ss' =>
          have := hss' sp' (by simp)
          subst this
          simp only [interleave, List.append_nil, List.append_assoc, List.cons_append, List.nil_append] at h
          have : c ∈ t := by rw [h]; simp
          exact absurd rfl (ht c this)
      | cons sp ss =>
        have := hss sp (by simp)
        subst this
        cases ss' with
        | nil =>
          have e2 : ts' = [] := by
            cases ts' with
            | nil => rfl
            | cons _ _ => simp at hl'
          subst e2
          simp only [interleave, List.append_nil, List.append_assoc, List.cons_append, List.nil_append] at h
          have : c ∈ t' := by rw [← h]; simp
          exact absurd rfl (ht' c this)
        | cons sp' ss' =>
          have := hss' sp' (by simp)
          subst this
          simp only [interleave, List.append_assoc, List.cons_append, List.nil_append] at h
          obtain ⟨h1, h2⟩ := append_cons_inj ht ht' h
          subst h1
          simp only [List.length_cons, Nat.add_right_cancel_iff] at hl hl'
          have := ih ts' ss ss' (fun t ht => hts t (by simp [ht])) (fun t ht => hts' t (by simp [ht]))
            (fun sp hsp => hss sp (by simp [hsp])) (fun sp hsp => hss' sp (by simp [hsp])) hl hl' h2
          rw [this]

theorem itemOk_iff {c : Char} {x : Str} : itemOk c x = true ↔ ∀ ch ∈ x, ch ≠ c ∧ ch ≠ '\n' := by
  simp [itemOk, List.all_eq_true]

/-- **a written line tokenises back into its items** (`StringTokenizer(line, sep, false, true)`,
the separator one character): the items are free of the separator and the first one is not empty;
`pre` is the separator written before an aligned header -/
theorem tokens_of_line (c : Char) (items : List Str) (pre : Str) (hpre : pre = [] ∨ pre = [c])
    (hitems : ∀ x ∈ items, ∀ ch ∈ x, ch ≠ c) (a : Str) (r : List Str) (hi : items = a :: r) (ha : a ≠ [])
    (hs : StrOk (pre ++ joinSep [c] items)) :
    ∃ T, mkTokenizer (pre ++ joinSep [c] items) [c] false true = .ok T ∧ T.tokens = items := by
  obtain ⟨T, hT, _⟩ := mkTokenizer_ns_ok (pre ++ joinSep [c] items) [c] true hs
  refine ⟨T, hT, ?_⟩
  obtain ⟨u, _, hrt⟩ := mkTokenizer_rt _ [c] false true hs T hT
  simp only [ctorRtOk, Bool.false_eq_true, if_false, Bool.and_eq_true, beq_iff_eq, Bool.not_false,
    Bool.true_and, Bool.or_eq_true, List.all_eq_true, Bool.not_true, Bool.false_and, or_false] at hrt
  obtain ⟨⟨⟨⟨hjoin, _⟩, hcount⟩, htoks⟩, hsplits⟩ := hrt
  have hne : items ≠ [] := by rw [hi]; simp
  -- the line starts with `pre` then a non-separator
  obtain ⟨a0, ar, haa⟩ : ∃ a0 ar, a = a0 :: ar := by
    cases a with
    | nil => exact absurd rfl ha
    | cons x y => exact ⟨x, y, rfl⟩
  have ha0 : a0 ≠ c := hitems a (by rw [hi]; simp) a0 (by rw [haa]; simp)
  have hjs : ∃ rest, joinSep [c] items = a0 :: rest := by
    rw [hi, haa]
    cases r with
    | nil => exact ⟨ar, rfl⟩
    | cons b r' => exact ⟨_, rfl⟩
  obtain ⟨rest, hrest⟩ := hjs
  have hin : inSet [c] a0 = false := by simp [inSet, ha0]
  have hlead : (pre ++ joinSep [c] items).takeWhile (inSet [c]) = pre := by
    rw [hrest]
    rcases hpre with rfl | rfl
    · simp [hin]
    · have hc : inSet [c] c = true := by simp [inSet]
      simp [List.takeWhile, hin, hc]
  rw [hlead] at hjoin
  have hjoin' : interleave T.tokens T.splits = joinSep [c] items := List.append_cancel_left hjoin
  rw [joinSep_eq_interleave _ _ hne] at hjoin'
  -- the tokenizer's pieces
  have hT1 : ∀ t ∈ T.tokens, ∀ x ∈ t, x ≠ c := by
    intro t ht x hx
    have := htoks t ht
    simp only [tokenOk, Bool.false_eq_true, if_false, Bool.and_eq_true, List.all_eq_true] at this
    have := this.1 x hx
    simp only [inSet, Bool.not_eq_true'] at this
    intro e; subst e; simp at this
  have hS1 : ∀ sp ∈ T.splits, sp = [c] := by
    intro sp hsp
    have := hsplits sp hsp
    simp only [splitOk, Bool.false_eq_true, if_false, Bool.and_eq_true, List.all_eq_true, Bool.not_true,
      Bool.false_or, beq_iff_eq, Bool.not_eq_true'] at this
    obtain ⟨⟨_, h2⟩, h3⟩ := this
    cases sp with
    | nil => simp at h3
    | cons x y =>
      cases y with
      | nil =>
        have := h2 x (by simp)
        simp only [inSet, List.contains_cons, List.contains_nil, Bool.or_false, beq_iff_eq] at this
        rw [this]
      | cons _ _ => simp at h3
  have hcnt : T.tokens.length = T.splits.length + 1 := by
    rcases hcount with h | ⟨h1, h2⟩
    · exact h
    · exfalso
      have e1 : T.tokens = [] := by simpa using h1
      rw [e1] at hjoin'
      simp only [interleave_nil] at hjoin'
      rw [← joinSep_eq_interleave _ _ hne, hrest] at hjoin'
      cases hjoin'
  exact interleave_unique c _ _ _ _ hT1 hitems hS1 (by intro sp hsp; exact (List.eq_of_mem_replicate hsp))
    hcnt (by simp; have : 0 < items.length := List.length_pos_iff.mpr hne; omega) hjoin'


/-! ### the stream gives back the lines -/

theorem findChar_line (line rest : Str) (h : ∀ ch ∈ line, ch ≠ '\n') :
    findChar '\n' (line ++ '\n' :: rest) = some line.length := by
  induction line with
  | nil => simp [findChar]
  | cons x l ih =>
    have hx : (x == '\n') = false := by simpa using h x (by simp)
    simp [findChar, hx, ih (fun ch hch => h ch (by simp [hch]))]

/-- `getNextLine` on a stream that starts with a non-blank line -/
theorem getNextLine_line (line rest : Str) (hnl : ∀ ch ∈ line, ch ≠ '\n') (hb : isEmptyStr line = false) :
    getNextLine ⟨line ++ '\n' :: rest, false⟩ = .ok (line, ⟨rest, false⟩) := by
  unfold getNextLine
  simp only [Bool.false_eq_true, if_false]
  have e : (line ++ '\n' :: rest).length + 2 = ((line ++ '\n' :: rest).length) + 1 + 1 := rfl
  rw [e]
  unfold nextLineLoop
  simp only [Bool.not_false, Bool.true_and, isEmptyStr, List.all_nil, if_true, getline,
    findChar_line line rest hnl]
  have h1 : List.take line.length (line ++ '\n' :: rest) = line := by simp
  have h2 : List.drop (line.length + 1) (line ++ '\n' :: rest) = rest := by
    rw [← List.drop_drop]; simp
  rw [h1, h2]
  unfold nextLineLoop
  simp only [isEmptyStr] at hb
  simp [isEmptyStr, hb]

/-- … and at its end -/
theorem getNextLine_end : getNextLine ⟨[], false⟩ = .ok ([], ⟨[], true⟩) := by
  simp [getNextLine, nextLineLoop, getline, findChar, isEmptyStr]

theorem getNextLine_eof (r : Str) : getNextLine ⟨r, true⟩ = .ok ([], ⟨r, true⟩) := by
  simp [getNextLine]

/-! ### the row loop -/

/-- what the row loop does with the token list of one line -/
def addLine (hrn : Bool) (t : Tbl) (l : List Str) : R Tbl :=
  if hrn then
    match l with
    | [] => .error .bpp
    | name :: row => addRowNamed t name row
  else addRow t l

theorem lineOk_cons {c : Char} {l : List Str} (h : lineOk c l = true) :
    ∃ a r, l = a :: r ∧ a ≠ [] ∧ isEmptyStr (joinSep [c] l) = false := by
  unfold lineOk at h
  cases l with
  | nil => simp at h
  | cons a r =>
    simp only [Bool.and_eq_true, Bool.not_eq_true', List.isEmpty_eq_false_iff] at h
    exact ⟨a, r, rfl, h.1, h.2⟩

theorem joinSep_no_newline {c : Char} {l : List Str} (hc : c ≠ '\n') (h : ∀ x ∈ l, itemOk c x = true) :
    ∀ ch ∈ joinSep [c] l, ch ≠ '\n' := by
  induction l with
  | nil => simp [joinSep]
  | cons a r ih =>
    have ha := itemOk_iff.mp (h a (by simp))
    cases r with
    | nil => intro ch hch; exact (ha ch (by simpa [joinSep] using hch)).2
    | cons b r' =>
      intro ch hch
      rw [joinSep_cons] at hch
      simp only [List.append_assoc, List.mem_append, List.mem_singleton] at hch
      rcases hch with hch | hch | hch
      · exact (ha ch hch).2
      · rw [hch]; exact hc
      · exact ih (fun x hx => h x (by simp [hx])) ch hch

/-- **the row loop rebuilds the rows**: on the text of the lines `ls` (each a well-formed line) it
performs `addLine` for each of them in turn and returns at the end of the text -/
theorem readRows_lines (c : Char) (hc : c ≠ '\n') (hrn : Bool) (ls : List (List Str))
    (hok : ∀ l ∈ ls, (∀ x ∈ l, itemOk c x = true) ∧ lineOk c l = true)
    (hstr : ∀ l ∈ ls, StrOk (joinSep [c] l))
    (t t' : Tbl) (fuel : Nat) (hf : ls.length + 1 ≤ fuel)
    (hadd : ls.foldlM (addLine hrn) t = .ok t') :
    readRows true hrn [c] fuel ⟨unlines (ls.map (joinSep [c])), false⟩ t = .ok t' := by
  induction ls generalizing t fuel with
  | nil =>
    cases fuel with
    | zero => omega
    | succ fuel =>
      simp only [List.foldlM_nil, pure_eq_ok, Except.ok.injEq] at hadd
      subst hadd
      unfold readRows
      simp [unlines, getNextLine_end, isEmptyStr, pure_eq_ok]
  | cons l ls ih =>
    cases fuel with
    | zero => omega
    | succ fuel =>
      obtain ⟨hitems, hline⟩ := hok l (by simp)
      obtain ⟨a, r, hl, ha, hnb⟩ := lineOk_cons hline
      have hnl := joinSep_no_newline hc hitems
      have hfree : ∀ x ∈ l, ∀ ch ∈ x, ch ≠ c := fun x hx ch hch => (itemOk_iff.mp (hitems x hx) ch hch).1
      obtain ⟨T, hT, htoks⟩ := tokens_of_line c l [] (Or.inl rfl) hfree a r hl ha
        (by simpa using hstr l (by simp))
      simp only [List.nil_append] at hT
      rw [List.foldlM_cons] at hadd
      obtain ⟨t1, e1, hadd'⟩ := bind_eq_ok hadd
      have hrec := ih (fun l' hl' => hok l' (by simp [hl'])) (fun l' hl' => hstr l' (by simp [hl']))
        t1 fuel (by simp only [List.length_cons] at hf; omega) hadd'
      unfold readRows
      simp only [List.map_cons, unlines, getNextLine_line _ _ hnl hnb, bind_ok, hnb, Bool.false_eq_true,
        if_false, hT, htoks]
      cases hrn with
      | false =>
        simp only [addLine, Bool.false_eq_true, if_false] at e1
        simp only [Bool.false_eq_true, if_false, e1, bind_ok]
        exact hrec
      | true =>
        simp only [addLine, if_true, hl] at e1
        simp only [if_true, Bool.true_and, hl, List.isEmpty_cons, Bool.false_eq_true, if_false]
        have ea : vecAt (a :: r) 0 = .ok a := by simp [vecAt]
        have er : vecTail (a :: r) = .ok r := rfl
        rw [ea, bind_ok, er, bind_ok, e1, bind_ok]
        exact hrec


/-! ### adding the rows -/

theorem addAll_plain (rows : List (List Str)) (t : Tbl) (h0 : t.rowNames = [])
    (hr : ∀ r ∈ rows, r.length = t.nCol) :
    rows.foldlM (addLine false) t = .ok { t with rows := t.rows ++ rows } := by
  induction rows generalizing t with
  | nil => simp [pure_eq_ok]
  | cons r rows ih =>
    have h1 : r.length = t.nCol := hr r (by simp)
    rw [List.foldlM_cons]
    have e : addLine false t r = .ok { t with rows := t.rows ++ [r] } := by
      simp [addLine, addRow, h0, h1]
    have := ih { t with rows := t.rows ++ [r] } h0 (fun r' hr' => hr r' (by simp [hr']))
    rw [e, bind_ok, this]
    simp

theorem uniq_append_cons {pre post : List Str} {name : Str} (h : uniq (pre ++ name :: post) = true) :
    pre.contains name = false := by
  induction pre with
  | nil => rfl
  | cons p pre ih =>
    simp only [List.cons_append, uniq, Bool.and_eq_true, Bool.not_eq_true'] at h
    have h1 := ih h.2
    have h2 : p ≠ name := by
      intro e; subst e
      have := h.1
      simp at this
    simp only [List.contains_cons, Bool.or_eq_false_iff, h1, and_true]
    simpa using fun e => h2 e.symm

theorem addAll_named (names : List Str) (rows : List (List Str)) (t : Tbl) (hlen : names.length = rows.length)
    (hinv : t.rowNames.length = t.rows.length) (hr : ∀ r ∈ rows, r.length = t.nCol)
    (hu : uniq (t.rowNames ++ names) = true) :
    (rowItems true names rows).foldlM (addLine true) t
      = .ok { t with rowNames := t.rowNames ++ names, rows := t.rows ++ rows } := by
  induction rows generalizing t names with
  | nil =>
    cases names with
    | nil => simp [rowItems, pure_eq_ok]
    | cons _ _ => simp at hlen
  | cons r rows ih =>
    cases names with
    | nil => simp at hlen
    | cons name names =>
      have h1 : r.length = t.nCol := hr r (by simp)
      have hnc := uniq_append_cons hu
      simp only [rowItems, List.foldlM_cons]
      have e : addLine true t (name :: r) = .ok { t with rowNames := t.rowNames ++ [name], rows := t.rows ++ [r] } := by
        simp only [addLine, if_true, addRowNamed, h1, hnc, hinv]
        by_cases hz : t.rows.length = 0 <;> simp [hz]
      rw [e, bind_ok]
      have := ih names { t with rowNames := t.rowNames ++ [name], rows := t.rows ++ [r] }
        (by simpa using hlen) (by simp [hinv]) (fun r' hr' => hr r' (by simp [hr'])) (by simpa using hu)
      rw [this]
      simp

/-! ### the writer -/

theorem rowLines_plain (sep : Str) (names : List Str) (rows : List (List Str)) :
    rowLines sep false names rows = .ok (rows.map (joinSep sep)) := by
  induction rows with
  | nil => simp [rowLines]
  | cons r rows ih => simp only [rowLines, ih, bind_ok, pure_eq_ok, List.map_cons]

theorem rowLines_named (sep : Str) (names : List Str) (rows : List (List Str))
    (hlen : names.length = rows.length) (hne : ∀ r ∈ rows, r ≠ []) :
    rowLines sep true names rows = .ok ((rowItems true names rows).map (joinSep sep)) := by
  induction rows generalizing names with
  | nil => cases names <;> simp [rowLines, rowItems]
  | cons r rows ih =>
    cases names with
    | nil => simp at hlen
    | cons name names =>
      have hr : r ≠ [] := hne r (by simp)
      obtain ⟨b, r', hb⟩ : ∃ b r', r = b :: r' := by
        cases r with
        | nil => exact absurd rfl hr
        | cons b r' => exact ⟨b, r', rfl⟩
      have := ih names (by simpa using hlen) (fun r' hr' => hne r' (by simp [hr']))
      simp only [rowLines, this, bind_ok, pure_eq_ok, rowItems, List.map_cons, hb, joinSep_cons]


/-! ### the reader on a written text -/

theorem length_le_unlines {l : Str} {ls : List Str} (h : l ∈ ls) : l.length ≤ (unlines ls).length := by
  induction ls with
  | nil => cases h
  | cons a r ih =>
    simp only [unlines, List.length_append, List.length_cons]
    rcases List.mem_cons.mp h with rfl | h
    · omega
    · have := ih h; omega

theorem length_unlines_ge (ls : List Str) : ls.length ≤ (unlines ls).length := by
  induction ls with
  | nil => simp
  | cons a r ih => simp only [unlines, List.length_append, List.length_cons]; omega

theorem isEmptyStr_pre {c : Char} {pre body : Str} (hpre : pre = [] ∨ pre = [c]) (h : isEmptyStr body = false) :
    isEmptyStr (pre ++ body) = false := by
  rcases hpre with rfl | rfl
  · simpa using h
  · simp only [isEmptyStr, List.all_eq_false] at h ⊢
    obtain ⟨x, hx, hx'⟩ := h
    exact ⟨x, by simp [hx], hx'⟩

/-- **the reader on a text of at least two well-formed lines**: the first two lines go through the
dispatch `tblInit'`, the others through the row loop, then the row-name step -/
theorem read_lines (c : Char) (hc : c ≠ '\n') (pre : Str) (hpre : pre = [] ∨ pre = [c])
    (l1 l2 : List Str) (ls : List (List Str))
    (hok : ∀ l ∈ l1 :: l2 :: ls, (∀ x ∈ l, itemOk c x = true) ∧ lineOk c l = true)
    (text : Str) (htext : text = unlines ((pre ++ joinSep [c] l1) :: (l2 :: ls).map (joinSep [c])))
    (hs : StrOk text) (header : Bool) (rn : Int) (t1 t2 : Tbl) (hrn : Bool)
    (hinit : tblInit' header l1 l2 = .ok (t1, hrn)) (hadd : ls.foldlM (addLine hrn) t1 = .ok t2) :
    readTableFull text [c] header rn = finishFull rn t2 := by
  have hlen : ∀ l ∈ (pre ++ joinSep [c] l1) :: (l2 :: ls).map (joinSep [c]), StrOk l := by
    intro l hl
    have := length_le_unlines hl
    rw [← htext] at this
    unfold StrOk at hs ⊢; omega
  obtain ⟨hit1, hline1⟩ := hok l1 (by simp)
  obtain ⟨hit2, hline2⟩ := hok l2 (by simp)
  obtain ⟨a1, r1, hl1, ha1, hnb1⟩ := lineOk_cons hline1
  obtain ⟨a2, r2, hl2, ha2, hnb2⟩ := lineOk_cons hline2
  have hfree1 : ∀ x ∈ l1, ∀ ch ∈ x, ch ≠ c := fun x hx ch hch => (itemOk_iff.mp (hit1 x hx) ch hch).1
  have hfree2 : ∀ x ∈ l2, ∀ ch ∈ x, ch ≠ c := fun x hx ch hch => (itemOk_iff.mp (hit2 x hx) ch hch).1
  obtain ⟨T1, hT1, htok1⟩ := tokens_of_line c l1 pre hpre hfree1 a1 r1 hl1 ha1 (hlen _ (by simp))
  obtain ⟨T2, hT2, htok2⟩ := tokens_of_line c l2 [] (Or.inl rfl) hfree2 a2 r2 hl2 ha2
    (by simpa using hlen (joinSep [c] l2) (by simp))
  simp only [List.nil_append] at hT2
  have hnl1 : ∀ ch ∈ pre ++ joinSep [c] l1, ch ≠ '\n' := by
    intro ch hch
    rcases List.mem_append.mp hch with h | h
    · rcases hpre with rfl | rfl
      · cases h
      · simp only [List.mem_singleton] at h; rw [h]; exact hc
    · exact joinSep_no_newline hc hit1 ch h
  have hnl2 := joinSep_no_newline hc hit2
  have hrows := readRows_lines c hc hrn ls (fun l hl => hok l (by simp [hl]))
    (fun l hl => hlen _ (by simp only [List.map_cons, List.mem_cons, List.mem_map]; right; right; exact ⟨l, hl, rfl⟩))
    t1 t2 (text.length + 2) (by
      have := length_unlines_ge ((pre ++ joinSep [c] l1) :: (l2 :: ls).map (joinSep [c]))
      rw [← htext] at this
      simp only [List.length_cons, List.length_map] at this
      omega) hadd
  unfold readTableFull
  rw [htext] at hrows ⊢
  simp only [List.map_cons, unlines, getNextLine_line _ _ hnl1 (isEmptyStr_pre hpre hnb1), bind_ok, hT1,
    getNextLine_line _ _ hnl2 hnb2, hT2, htok1, htok2, hinit]
  simp only [List.map_cons, unlines] at hrows
  rw [hrows, bind_ok]


/-! ### the four kinds of tables -/

theorem joinSep_length_ge (c : Char) (items : List Str) : items.length ≤ (joinSep [c] items).length + 1 := by
  induction items with
  | nil => simp
  | cons a r ih =>
    cases r with
    | nil => simp [joinSep]
    | cons b r' =>
      rw [joinSep_cons]
      simp only [List.length_append, List.length_cons] at ih ⊢
      omega

theorem wsub_succ_one {n : Nat} (h : n + 1 < SZ) : wsub (n + 1) 1 = n := by
  rw [wsub_eq (by omega) h]; omega

theorem finishFull_neg (t : Tbl) : finishFull (-1) t = .ok t := by
  simp [finishFull, pure_eq_ok]

theorem rowItems_true_length (names : List Str) (rows : List (List Str)) (h : names.length = rows.length) :
    (rowItems true names rows).length = rows.length := by
  induction rows generalizing names with
  | nil => cases names <;> simp [rowItems]
  | cons r rows ih =>
    cases names with
    | nil => simp at h
    | cons n names => simp [rowItems, ih names (by simpa using h)]

theorem column_rowItems (names : List Str) (rows : List (List Str)) (h : names.length = rows.length) :
    column (rowItems true names rows) 0 = .ok names ∧
    (rowItems true names rows).map (fun r => r.eraseIdx 0) = rows := by
  induction rows generalizing names with
  | nil =>
    cases names with
    | nil => simp [rowItems, column, pure_eq_ok]
    | cons _ _ => simp at h
  | cons r rows ih =>
    cases names with
    | nil => simp at h
    | cons n names =>
      obtain ⟨h1, h2⟩ := ih names (by simpa using h)
      unfold column at h1 ⊢
      simp only [rowItems, List.mapM_cons, List.map_cons, List.eraseIdx_cons_zero, h2, and_true]
      have : vecAt (n :: r) 0 = .ok n := by simp [vecAt]
      rw [this, bind_ok, h1, bind_ok]; rfl

/-- the facts packed in `RtWFcore` -/
theorem RtWFcore_unpack {t : Tbl} {c : Char} (h : RtWFcore t c = true) :
    (∀ r ∈ t.rows, r.length = t.nCol) ∧
    (t.colNames.length = 0 ∨ (t.colNames.length = t.nCol ∧ uniq t.colNames = true)) ∧
    (t.rowNames.length = 0 ∨ (t.rowNames.length = t.rows.length ∧ uniq t.rowNames = true)) ∧
    c ≠ '\n' ∧ t.nCol ≠ 0 ∧
    (∀ l ∈ lineItems t, (∀ x ∈ l, itemOk c x = true) ∧ lineOk c l = true) ∧
    2 ≤ (lineItems t).length := by
  simp only [RtWFcore, tblInv, Bool.and_eq_true, List.all_eq_true, beq_iff_eq, Bool.or_eq_true, bne_iff_ne, ne_eq,
    decide_eq_true_eq] at h
  obtain ⟨⟨⟨⟨⟨⟨h1, h2⟩, h3⟩, h4⟩, h5⟩, h6⟩, h7⟩ := h
  exact ⟨h1, h2, h3, h4, h5, h6, h7⟩



theorem table_rt_C (nCol : Nat) (rows : List (List Str)) (c : Char) (align : Bool)
    (hwf : RtWFcore ⟨nCol, [], [], rows⟩ c = true) :
    ∃ text, writeTable ⟨nCol, [], [], rows⟩ [c] align = .ok text ∧
      (StrOk text → readBack ⟨nCol, [], [], rows⟩ text [c] = .ok ⟨nCol, [], [], rows⟩) := by
  obtain ⟨hrows, _, _, hc, hn, hlines, h2⟩ := RtWFcore_unpack hwf
  simp only [lineItems, List.length_nil, bne_self_eq_false, Bool.false_eq_true, if_false, List.nil_append,
    rowItems] at hrows hn hlines h2
  have hn' : (nCol == 0) = false := by simpa using hn
  obtain ⟨row0, row1, rest, rfl⟩ : ∃ a b r, rows = a :: b :: r := by
    match rows, h2 with
    | a :: b :: r, _ => exact ⟨a, b, r, rfl⟩
  refine ⟨unlines ((row0 :: row1 :: rest).map (joinSep [c])), ?_, fun hs => ?_⟩
  · simp [writeTable, tableLines, hn', rowLines_plain, pure_eq_ok]
  · have h0 : row0.length = nCol := hrows row0 (by simp)
    have h1 : row1.length = nCol := hrows row1 (by simp)
    have hinit : tblInit' false row0 row1 = .ok (⟨nCol, [], [], [row0, row1]⟩, false) := by
      simp [tblInit', h0, h1, addRow, pure_eq_ok]
    have hadd := addAll_plain rest ⟨nCol, [], [], [row0, row1]⟩ rfl (fun r hr => hrows r (by simp [hr]))
    have := read_lines c hc [] (Or.inl rfl) row0 row1 rest hlines _ (by simp) hs false (-1) _ _ false hinit hadd
    simp only [readBack, List.length_nil, bne_self_eq_false, Bool.false_and, Bool.false_eq_true, if_false]
    rw [this, finishFull_neg]
    simp


theorem length_ne_zero_cons {α : Type} {l : List α} (h : ¬ l.length = 0) : ∃ a r, l = a :: r := by
  cases l with
  | nil => simp at h
  | cons a r => exact ⟨a, r, rfl⟩

/-- column names, no row names -/
theorem table_rt_A (nCol : Nat) (colNames : List Str) (rows : List (List Str)) (c : Char) (align : Bool)
    (hcn : ¬ colNames.length = 0)
    (hwf : RtWFcore ⟨nCol, colNames, [], rows⟩ c = true) :
    ∃ text, writeTable ⟨nCol, colNames, [], rows⟩ [c] align = .ok text ∧
      (StrOk text → readBack ⟨nCol, colNames, [], rows⟩ text [c] = .ok ⟨nCol, colNames, [], rows⟩) := by
  obtain ⟨hrows, hcol, _, hc, hn, hlines, h2⟩ := RtWFcore_unpack hwf
  have hcn' : (colNames.length != 0) = true := by simpa using hcn
  simp only [lineItems, hcn', if_true, List.length_nil, bne_self_eq_false, rowItems, List.singleton_append]
    at hrows hcol hn hlines h2
  have hn' : (nCol == 0) = false := by simpa using hn
  obtain ⟨hcl, hcu⟩ : colNames.length = nCol ∧ uniq colNames = true := by
    rcases hcol with h | h
    · exact absurd h hcn
    · exact h
  obtain ⟨row0, rest, rfl⟩ : ∃ a r, rows = a :: r := by
    match rows, h2 with
    | a :: r, _ => exact ⟨a, r, rfl⟩
  refine ⟨unlines (([] ++ joinSep [c] colNames) :: (row0 :: rest).map (joinSep [c])), ?_, fun hs => ?_⟩
  · simp [writeTable, tableLines, hn', rowLines_plain, pure_eq_ok, hcn', headerLine]
  · have h0 : row0.length = nCol := hrows row0 (by simp)
    have hinit : tblInit' true colNames row0 = .ok (⟨nCol, colNames, [], [row0]⟩, false) := by
      simp [tblInit', h0, hcl, addRow, setColumnNames, hcu, pure_eq_ok]
    have hadd := addAll_plain rest ⟨nCol, colNames, [], [row0]⟩ rfl (fun r hr => hrows r (by simp [hr]))
    have := read_lines c hc [] (Or.inl rfl) colNames row0 rest hlines _ rfl hs true (-1) _ _ false hinit hadd
    simp only [readBack, hcn', List.length_nil, bne_self_eq_false, Bool.false_and, Bool.false_eq_true, if_false]
    rw [this, finishFull_neg]
    simp

/-- column names and row names -/
theorem table_rt_B (nCol : Nat) (colNames rowNames : List Str) (rows : List (List Str)) (c : Char) (align : Bool)
    (hcn : ¬ colNames.length = 0) (hrn : ¬ rowNames.length = 0)
    (hwf : RtWFcore ⟨nCol, colNames, rowNames, rows⟩ c = true) :
    ∃ text, writeTable ⟨nCol, colNames, rowNames, rows⟩ [c] align = .ok text ∧
      (StrOk text → readBack ⟨nCol, colNames, rowNames, rows⟩ text [c] = .ok ⟨nCol, colNames, rowNames, rows⟩) := by
  obtain ⟨hrows, hcol, hrow, hc, hn, hlines, h2⟩ := RtWFcore_unpack hwf
  have hcn' : (colNames.length != 0) = true := by simpa using hcn
  have hrn' : (rowNames.length != 0) = true := by simpa using hrn
  simp only [lineItems, hcn', hrn', if_true, List.singleton_append] at hrows hcol hrow hn hlines h2
  have hn' : (nCol == 0) = false := by simpa using hn
  obtain ⟨hcl, hcu⟩ : colNames.length = nCol ∧ uniq colNames = true := by
    rcases hcol with h | h
    · exact absurd h hcn
    · exact h
  obtain ⟨hrl, hru⟩ : rowNames.length = rows.length ∧ uniq rowNames = true := by
    rcases hrow with h | h
    · exact absurd h hrn
    · exact h
  obtain ⟨name0, names, rfl⟩ := length_ne_zero_cons hrn
  obtain ⟨row0, rest, rfl⟩ : ∃ a r, rows = a :: r := by
    cases rows with
    | nil => simp at hrl
    | cons a r => exact ⟨a, r, rfl⟩
  have hlen : names.length = rest.length := by simpa using hrl
  have hne : ∀ r ∈ row0 :: rest, r ≠ [] := fun r hr e => by
    have := hrows r hr; rw [e] at this; simp only [List.length_nil] at this; exact hn this.symm
  let pre : Str := if align then [c] else []
  have hpre : pre = [] ∨ pre = [c] := by cases align <;> simp [pre]
  simp only [rowItems] at hlines h2
  refine ⟨unlines ((pre ++ joinSep [c] colNames) :: ((name0 :: row0) :: rowItems true names rest).map (joinSep [c])),
    ?_, fun hs => ?_⟩
  · have := rowLines_named [c] (name0 :: names) (row0 :: rest) (by simpa using hlen) hne
    simp only [rowItems] at this
    simp [writeTable, tableLines, hn', this, pure_eq_ok, hcn', headerLine, pre]
  · have h0 : row0.length = nCol := hrows row0 (by simp)
    have hsz : nCol + 1 < SZ := by
      have h1 := length_le_unlines (l := joinSep [c] (name0 :: row0))
        (ls := (pre ++ joinSep [c] colNames) :: ((name0 :: row0) :: rowItems true names rest).map (joinSep [c]))
        (by simp)
      have h2' := joinSep_length_ge c (name0 :: row0)
      simp only [List.length_cons] at h2'
      unfold StrOk maxStr at hs; unfold SZ; omega
    have hinit : tblInit' true colNames (name0 :: row0) = .ok (⟨nCol, colNames, [name0], [row0]⟩, true) := by
      have hw : wsub (nCol + 1) 1 = nCol := wsub_succ_one hsz
      simp [tblInit', h0, hcl, hw, addRowNamed, setColumnNames, hcu, pure_eq_ok, vecAt, vecTail]
    have hadd := addAll_named names rest ⟨nCol, colNames, [name0], [row0]⟩ hlen rfl
      (fun r hr => hrows r (by simp [hr])) (by simpa using hru)
    have := read_lines c hc pre hpre colNames (name0 :: row0) (rowItems true names rest) hlines _ rfl hs true (-1)
      _ _ true hinit hadd
    simp only [readBack, hcn', hrn', Bool.true_and, if_false, beq_iff_eq, hcn]
    rw [this, finishFull_neg]
    simp

/-- row names only: read with `rowNames = 0` -/
theorem table_rt_D (nCol : Nat) (rowNames : List Str) (rows : List (List Str)) (c : Char) (align : Bool)
    (hrn : ¬ rowNames.length = 0)
    (hwf : RtWFcore ⟨nCol, [], rowNames, rows⟩ c = true) :
    ∃ text, writeTable ⟨nCol, [], rowNames, rows⟩ [c] align = .ok text ∧
      (StrOk text → readBack ⟨nCol, [], rowNames, rows⟩ text [c] = .ok ⟨nCol, [], rowNames, rows⟩) := by
  obtain ⟨hrows, _, hrow, hc, hn, hlines, h2⟩ := RtWFcore_unpack hwf
  have hrn' : (rowNames.length != 0) = true := by simpa using hrn
  simp only [lineItems, hrn', List.length_nil, bne_self_eq_false, Bool.false_eq_true, if_false, List.nil_append]
    at hrows hrow hn hlines h2
  have hn' : (nCol == 0) = false := by simpa using hn
  obtain ⟨hrl, hru⟩ : rowNames.length = rows.length ∧ uniq rowNames = true := by
    rcases hrow with h | h
    · exact absurd h hrn
    · exact h
  rw [rowItems_true_length _ _ hrl] at h2
  obtain ⟨row0, row1, rest, rfl⟩ : ∃ a b r, rows = a :: b :: r := by
    match rows, h2 with
    | a :: b :: r, _ => exact ⟨a, b, r, rfl⟩
  obtain ⟨name0, name1, names, rfl⟩ : ∃ a b r, rowNames = a :: b :: r := by
    match rowNames, hrl with
    | a :: b :: r, _ => exact ⟨a, b, r, rfl⟩
  have hlen : names.length = rest.length := by simpa using hrl
  have hne : ∀ r ∈ row0 :: row1 :: rest, r ≠ [] := fun r hr e => by
    have := hrows r hr; rw [e] at this; simp only [List.length_nil] at this; exact hn this.symm
  simp only [rowItems] at hlines
  refine ⟨unlines (([] ++ joinSep [c] (name0 :: row0)) :: ((name1 :: row1) :: rowItems true names rest).map (joinSep [c])),
    ?_, fun hs => ?_⟩
  · have := rowLines_named [c] (name0 :: name1 :: names) (row0 :: row1 :: rest) (by simpa using hlen) hne
    simp only [rowItems] at this
    simp [writeTable, tableLines, hn', this, pure_eq_ok]
  · have h0 : row0.length = nCol := hrows row0 (by simp)
    have h1 : row1.length = nCol := hrows row1 (by simp)
    have hinit : tblInit' false (name0 :: row0) (name1 :: row1)
        = .ok (⟨nCol + 1, [], [], [name0 :: row0, name1 :: row1]⟩, false) := by
      simp [tblInit', h0, h1, addRow, pure_eq_ok]
    have hrest : ∀ r ∈ rowItems true names rest, r.length = nCol + 1 := by
      have : ∀ (names : List Str) (rest : List (List Str)), (∀ r ∈ rest, r.length = nCol) →
          ∀ r ∈ rowItems true names rest, r.length = nCol + 1 := by
        intro names rest
        induction rest generalizing names with
        | nil => intro _ r hr; cases names <;> simp [rowItems] at hr
        | cons a rest ih =>
          intro hh r hr
          cases names with
          | nil => simp [rowItems] at hr
          | cons n names =>
            simp only [rowItems, List.mem_cons] at hr
            rcases hr with rfl | hr
            · simp [hh a (by simp)]
            · exact ih names (fun r hr => hh r (by simp [hr])) r hr
      exact this names rest (fun r hr => hrows r (by simp [hr]))
    have hadd := addAll_plain (rowItems true names rest) ⟨nCol + 1, [], [], [name0 :: row0, name1 :: row1]⟩ rfl hrest
    have := read_lines c hc [] (Or.inl rfl) (name0 :: row0) (name1 :: row1) (rowItems true names rest) hlines _ rfl hs
      false 0 _ _ false hinit hadd
    simp only [readBack, hrn', List.length_nil, Bool.true_and, beq_self_eq_true, if_true, bne_self_eq_false]
    rw [this]
    obtain ⟨hcol, hmap⟩ := column_rowItems (name0 :: name1 :: names) (row0 :: row1 :: rest) (by simpa using hlen)
    simp only [rowItems] at hcol hmap
    show finishFull 0 ⟨nCol + 1, [], [], (name0 :: row0) :: (name1 :: row1) :: rowItems true names rest⟩ = _
    unfold finishFull
    have hge : ¬ (0 ≥ nCol + 1) := by omega
    simp only [show (0 : Int) > -1 by decide, if_true, Int.toNat_zero, hge, if_false, hcol, bind_ok, hru,
      Bool.not_true, Bool.false_eq_true, pure_eq_ok, hmap, List.length_nil, bne_self_eq_false,
      Nat.add_sub_cancel]

/-- **write → read gives back the table**, whatever names it has (read with `header` = it has column
names; with `rowNames = 0` when it has row names but no header line to recognise them from) -/
theorem table_rt_core (t : Tbl) (c : Char) (align : Bool) (hwf : RtWFcore t c = true) :
    ∃ text, writeTable t [c] align = .ok text ∧ (StrOk text → readBack t text [c] = .ok t) := by
  obtain ⟨nCol, colNames, rowNames, rows⟩ := t
  by_cases hcn : colNames.length = 0
  · have : colNames = [] := List.eq_nil_of_length_eq_zero hcn
    subst this
    by_cases hrn : rowNames.length = 0
    · have : rowNames = [] := List.eq_nil_of_length_eq_zero hrn
      subst this
      exact table_rt_C nCol rows c align hwf
    · exact table_rt_D nCol rowNames rows c align hrn hwf
  · by_cases hrn : rowNames.length = 0
    · have : rowNames = [] := List.eq_nil_of_length_eq_zero hrn
      subst this
      exact table_rt_A nCol colNames rows c align hcn hwf
    · exact table_rt_B nCol colNames rowNames rows c align hcn hrn hwf

end Bpp.Text.RT
