import BppProofs.Lemmas.DiscretizeEqInt
import BppProofs.Lemmas.DiscretizeCompound
import Mathlib.Data.Finset.Card
import Mathlib.Data.Finset.Image
import Mathlib.Order.Interval.Finset.Nat
/-!
C09: the loops that separate equal class values terminate
(`AbstractDiscreteDistribution::insertClass_`, `SimpleDiscreteDistribution::fireParameterChanged`).

Every turn that does not succeed has a candidate `v ± j·step` that is equivalent to a key of the
map, i.e. within the precision of it.  The step is at least the precision, so one key is within
the precision of at most three candidates on each side: after `6·size` failing turns every key is
used up (pigeonhole).
-/
namespace Bpp.Discretize
open Bpp


/-- a found key is within the precision of the searched value -/
theorem find?_isSome_near (prec c : ℝ) (m : TMap ℝ) (h : (TMap.find? prec c m).isSome = true) :
    ∃ e ∈ m, |c - e.1| ≤ prec := by
  induction m with
  | nil => simp [TMap.find?] at h
  | cons e t ih =>
    simp only [TMap.find?] at h
    by_cases h1 : TMap.lt prec e.1 c = true
    · simp only [h1, if_true] at h
      obtain ⟨x, hx, hn⟩ := ih h
      exact ⟨x, by simp [hx], hn⟩
    · simp only [h1] at h
      by_cases h2 : TMap.lt prec c e.1 = true
      · simp [h2] at h
      · refine ⟨e, by simp, ?_⟩
        have a1 : ¬ e.1 < c - prec := by simpa [TMap.lt_iff] using h1
        have a2 : ¬ c < e.1 - prec := by simpa [TMap.lt_iff] using h2
        rw [abs_le]; constructor <;> linarith

/-- naturals that are pairwise at most 2 apart are at most 3 -/
theorem card_le_three_of_close (A : Finset ℕ) (h : ∀ x ∈ A, ∀ y ∈ A, x ≤ y + 2) : A.card ≤ 3 := by
  by_cases hne : A.Nonempty
  · have hsub : A ⊆ Finset.Icc (A.min' hne) (A.min' hne + 2) := by
      intro x hx
      rw [Finset.mem_Icc]
      exact ⟨Finset.min'_le A x hx, h x hx _ (Finset.min'_mem A hne)⟩
    calc A.card ≤ (Finset.Icc (A.min' hne) (A.min' hne + 2)).card := Finset.card_le_card hsub
      _ = 3 := by rw [Nat.card_Icc]; omega
  · rw [Finset.not_nonempty_iff_eq_empty] at hne; simp [hne]

/-- candidates `v + σ·(c + i)·step` (σ = ±1 fixed) within the precision of one key: at most three `i` -/
theorem near_fiber (prec step v c k σ : ℝ) (hσ : σ = 1 ∨ σ = -1) (hstep : 0 < step) (hps : prec ≤ step) (N : ℕ) :
    ((Finset.range N).filter (fun i : ℕ => |v + σ * (c + (i : ℝ)) * step - k| ≤ prec)).card ≤ 3 := by
  apply card_le_three_of_close
  intro x hx y hy
  simp only [Finset.mem_filter] at hx hy
  have hx' := abs_le.1 hx.2
  have hy' := abs_le.1 hy.2
  by_contra hlt
  have hxy : (y : ℝ) + 3 ≤ (x : ℝ) := by
    have : y + 3 ≤ x := by omega
    exact_mod_cast this
  rcases hσ with rfl | rfl
  · nlinarith [hx'.1, hx'.2, hy'.1, hy'.2]
  · nlinarith [hx'.1, hx'.2, hy'.1, hy'.2]

/-- **pigeonhole**: if each of `N` consecutive turns has a candidate `v ± (c + i)·step` within the
precision of a key of `m`, then `N ≤ 6·|m|` -/
theorem blocked_turns_bound (prec step v c : ℝ) (m : TMap ℝ) (hstep : 0 < step) (hps : prec ≤ step) (N : ℕ)
    (h : ∀ i < N, ∃ e ∈ m, |v + (c + (i : ℝ)) * step - e.1| ≤ prec ∨ |v - (c + (i : ℝ)) * step - e.1| ≤ prec) :
    N ≤ 6 * m.length := by
  classical
  -- the key used by turn `i`
  let key : ℕ → ℝ := fun i => if hi : i < N then (Classical.choose (h i hi)).1 else 0
  have hkey : ∀ i (hi : i < N), key i ∈ (m.map (·.1)) ∧
      (|v + (c + (i : ℝ)) * step - key i| ≤ prec ∨ |v - (c + (i : ℝ)) * step - key i| ≤ prec) := by
    intro i hi
    have := Classical.choose_spec (h i hi)
    simp only [key, hi, dif_pos]
    exact ⟨List.mem_map.2 ⟨_, this.1, rfl⟩, this.2⟩
  have himg : ((Finset.range N).image key) ⊆ (m.map (·.1)).toFinset := by
    intro a ha
    obtain ⟨i, hi, rfl⟩ := Finset.mem_image.1 ha
    exact List.mem_toFinset.2 (hkey i (Finset.mem_range.1 hi)).1
  have hcard : ((Finset.range N).image key).card ≤ m.length := by
    calc ((Finset.range N).image key).card ≤ (m.map (·.1)).toFinset.card := Finset.card_le_card himg
      _ ≤ (m.map (·.1)).length := List.toFinset_card_le _
      _ = m.length := by simp
  have hfib : ∀ a ∈ (Finset.range N).image key, ((Finset.range N).filter (fun i => key i = a)).card ≤ 6 := by
    intro a _
    have hsub : (Finset.range N).filter (fun i => key i = a) ⊆
        ((Finset.range N).filter (fun i : ℕ => |v + 1 * (c + (i : ℝ)) * step - a| ≤ prec)) ∪
        ((Finset.range N).filter (fun i : ℕ => |v + (-1) * (c + (i : ℝ)) * step - a| ≤ prec)) := by
      intro i hi
      simp only [Finset.mem_filter] at hi
      obtain ⟨hir, hia⟩ := hi
      have := (hkey i (Finset.mem_range.1 hir)).2
      rw [hia] at this
      simp only [Finset.mem_union, Finset.mem_filter]
      rcases this with h1 | h1
      · left; exact ⟨hir, by simpa using h1⟩
      · right; refine ⟨hir, ?_⟩
        have e : v + (-1) * (c + (i : ℝ)) * step - a = v - (c + (i : ℝ)) * step - a := by ring
        rw [e]; exact h1
    calc ((Finset.range N).filter (fun i => key i = a)).card
        ≤ (((Finset.range N).filter (fun i : ℕ => |v + 1 * (c + (i : ℝ)) * step - a| ≤ prec)) ∪
          ((Finset.range N).filter (fun i : ℕ => |v + (-1) * (c + (i : ℝ)) * step - a| ≤ prec))).card := Finset.card_le_card hsub
      _ ≤ _ + _ := Finset.card_union_le _ _
      _ ≤ 3 + 3 := Nat.add_le_add (near_fiber prec step v c a 1 (Or.inl rfl) hstep hps N)
          (near_fiber prec step v c a (-1) (Or.inr rfl) hstep hps N)
  have := Finset.card_le_mul_card_image (Finset.range N) 6 hfib
  rw [Finset.card_range] at this
  calc N ≤ 6 * ((Finset.range N).image key).card := this
    _ ≤ 6 * m.length := Nat.mul_le_mul_left 6 hcard

/-! ## `insertClass_` -/

/-- a search that runs out of fuel had a blocked candidate at every turn -/
theorem searchFree_none_blocked (prec step hi v : ℝ) (m : TMap ℝ) (fuel : Nat) (j f : Int)
    (hf : f = 1 ∨ f = -1) (h : searchFree prec step hi v m fuel j f = none) :
    ∀ i < fuel, ∃ e ∈ m, |v + (((j : ℤ) : ℝ) + (i : ℝ)) * step - e.1| ≤ prec ∨ |v - (((j : ℤ) : ℝ) + (i : ℝ)) * step - e.1| ≤ prec := by
  induction fuel generalizing j f with
  | zero => intro i hi; omega
  | succ n ih =>
    simp only [searchFree] at h
    split at h
    · rename_i hfound
      have hf' : (if Scalar.geb (v + Scalar.ofInt (f * (j + 1)) * step) hi = true then (-1 : Int) else 1) = 1 ∨
          (if Scalar.geb (v + Scalar.ofInt (f * (j + 1)) * step) hi = true then (-1 : Int) else 1) = -1 := by
        split <;> simp
      have hrec := ih (j + 1) _ hf' h
      intro i hi
      cases i with
      | zero =>
        obtain ⟨e, he, hn⟩ := find?_isSome_near prec _ m hfound
        refine ⟨e, he, ?_⟩
        simp only [ScalarReal.ofInt_eq, Int.cast_mul] at hn
        rcases hf with rfl | rfl
        · left; simpa using hn
        · right
          have e1 : v + ((-1 : ℤ) : ℝ) * (j : ℝ) * step - e.1 = v - ((j : ℝ) + ((0 : ℕ) : ℝ)) * step - e.1 := by push_cast; ring
          rw [← e1]; exact hn
      | succ k =>
        obtain ⟨e, he, hn⟩ := hrec k (by omega)
        refine ⟨e, he, ?_⟩
        have e1 : (((j + 1 : ℤ) : ℝ) + (k : ℝ)) = ((j : ℝ) + ((k + 1 : ℕ) : ℝ)) := by push_cast; ring
        rw [e1] at hn
        exact hn
    · cases h

/-- with a positive step that is at least the precision, the search finds a free position within
`6·size + 1` turns -/
theorem searchFree_some (prec step hi v : ℝ) (m : TMap ℝ) (fuel : Nat) (j f : Int) (hf : f = 1 ∨ f = -1)
    (hstep : 0 < step) (hps : prec ≤ step) (hfuel : 6 * m.length < fuel) :
    ∃ c, searchFree prec step hi v m fuel j f = some c := by
  cases h : searchFree prec step hi v m fuel j f with
  | some c => exact ⟨c, rfl⟩
  | none =>
    have := blocked_turns_bound prec step v (j : ℝ) m hstep hps fuel (searchFree_none_blocked prec step hi v m fuel j f hf h)
    omega

theorem sepStep_pos (prec v : ℝ) (hp : 0 < prec) : 0 < sepStep prec v ∧ prec ≤ sepStep prec v := by
  unfold sepStep Scalar.max
  split
  · rename_i h
    have : prec < Gen.sepFactor * dblEpsilon * Scalar.abs v := by simpa [ScalarReal.ltb_iff] using h
    exact ⟨by linarith, this.le⟩
  · exact ⟨hp, le_rfl⟩

theorem insertDistinct_some (prec hi p : ℝ) (m : TMap ℝ) (v : ℝ) (hp : 0 < prec) :
    ∃ m', insertDistinct prec hi p m v = some m' := by
  unfold insertDistinct
  split
  · obtain ⟨h1, h2⟩ := sepStep_pos prec v hp
    have hfl : 6 * m.length < searchFuel m := by unfold searchFuel; omega
    generalize searchFuel m = fuel at hfl ⊢
    obtain ⟨c, hc⟩ := searchFree_some prec (sepStep prec v) hi v m fuel 1
      (if Scalar.geb (v + Constants.TINY) hi = true then -1 else 1) (by split <;> simp) h1 h2 hfl
    refine ⟨TMap.assign prec c p m, ?_⟩
    dsimp only
    rw [hc]; rfl
  · exact ⟨_, rfl⟩

theorem insertAll_some (prec hi p : ℝ) (hp : 0 < prec) (vals : List ℝ) (m : TMap ℝ) :
    ∃ m', insertAll prec hi p m vals = some m' := by
  induction vals generalizing m with
  | nil => exact ⟨m, rfl⟩
  | cons v vs ih =>
    obtain ⟨m1, h1⟩ := insertDistinct_some prec hi p m v hp
    obtain ⟨m2, h2⟩ := ih m1
    exact ⟨m2, by simp [insertAll, h1, h2]⟩

theorem insertPairs_some (prec hi : ℝ) (hp : 0 < prec) (vps : List (ℝ × ℝ)) (m : TMap ℝ) :
    ∃ m', insertPairs prec hi m vps = some m' := by
  induction vps generalizing m with
  | nil => exact ⟨m, rfl⟩
  | cons vp rest ih =>
    obtain ⟨m1, h1⟩ := insertDistinct_some prec hi vp.2 m vp.1 hp
    obtain ⟨m2, h2⟩ := ih m1
    exact ⟨m2, by simp [insertPairs, h1, h2]⟩

theorem eqProp_total (par : Parent ℝ) (s : DD ℝ) (hp : 0 < s.prec) : ∃ s', eqProp par s = .ok s' := by
  unfold eqProp
  obtain ⟨m, hm⟩ := insertAll_some s.prec s.dom.hi (Scalar.one / nat s.n) hp (adjust s.dom s.prec (eqPropRaw par s).2) []
  simp only [hm]
  exact ⟨_, rfl⟩

theorem eqInt_total (par : Parent ℝ) (s : DD ℝ) (hp : 0 < s.prec) : ∃ s', eqInt par s = .ok s' := by
  unfold eqInt
  simp only
  obtain ⟨m, hm⟩ := insertPairs_some s.prec s.dom.hi hp
    (((List.range s.n).map (fun i => s.dom.lo + (nat i + half) * ((s.dom.hi - s.dom.lo) / nat s.n))).zip
      (eqIntMasses par s.n (par.P s.dom.hi - par.P s.dom.lo)
        (s.dom.lo :: (List.range (s.n - 1)).map (fun i => s.dom.lo + (nat i + Scalar.one) * ((s.dom.hi - s.dom.lo) / nat s.n)) ++ [s.dom.hi]))) []
  rw [hm]
  exact ⟨_, rfl⟩

theorem discretize_total (par : Parent ℝ) (s : DD ℝ) (hn : 1 ≤ s.n) (hp : 0 < s.prec) : ∃ s', discretize par s = .ok s' := by
  unfold discretize
  have hn0 : (s.n == 0) = false := by simp; omega
  simp only [hn0, Bool.false_eq_true, if_false]
  split
  · exact eqProp_total par s hp
  · split
    · exact eqInt_total par s hp
    · obtain ⟨s1, h1⟩ := eqProp_total par s hp
      have hp1 : 0 < s1.prec := by
        obtain ⟨m, _, rfl⟩ := eqProp_ok par s s1 h1
        exact hp
      simp only [h1, bind, Except.bind]
      split
      · exact eqInt_total par s1 hp1
      · exact ⟨s1, rfl⟩

/-- with a step of zero (precision 0 and value 0) every candidate is the value itself: the loop
never ends, whatever the fuel -/
theorem searchFree_zero_step (hi : ℝ) (m : TMap ℝ) (h : (TMap.find? 0 0 m).isSome = true) (fuel : Nat) (j f : Int) :
    searchFree 0 (sepStep 0 0) hi 0 m fuel j f = none := by
  have hs : sepStep (0 : ℝ) 0 = 0 := by
    unfold sepStep Scalar.max
    simp [ScalarReal.ltb_iff, ScalarReal.abs_eq]
  rw [hs]
  induction fuel generalizing j f with
  | zero => rfl
  | succ n ih =>
    simp only [searchFree]
    have hc : (0 : ℝ) + Scalar.ofInt (f * j) * 0 = 0 := by simp
    rw [hc, if_pos h]
    exact ih _ _

/-! ## the loop of the user-specified distribution -/

theorem simple_findFree_none_blocked (prec step lo hi v : ℝ) (m : TMap ℝ) (fuel : Nat) (j : Int)
    (h : SimpleSt.findFree prec step lo hi v m fuel j = none) :
    ∀ i < fuel, ∃ e ∈ m, |v + (((j : ℤ) : ℝ) + (i : ℝ)) * step - e.1| ≤ prec ∨ |v - (((j : ℤ) : ℝ) + (i : ℝ)) * step - e.1| ≤ prec := by
  induction fuel generalizing j with
  | zero => intro i hlt; omega
  | succ n ih =>
    simp only [SimpleSt.findFree] at h
    split at h
    · cases h
    · rename_i h1
      split at h
      · cases h
      · rename_i h2
        have hrec := ih (j + 1) h
        intro i hlt
        cases i with
        | succ k =>
          obtain ⟨e, he, hn⟩ := hrec k (by omega)
          refine ⟨e, he, ?_⟩
          have e1 : (((j + 1 : ℤ) : ℝ) + (k : ℝ)) = ((j : ℝ) + ((k + 1 : ℕ) : ℝ)) := by push_cast; ring
          rw [e1] at hn
          exact hn
        | zero =>
          simp only [Bool.and_eq_true, Bool.or_eq_true, not_and, Bool.not_eq_true, Option.isNone_eq_false_iff,
            Option.isSome_iff_ne_none] at h1 h2
          simp only [Nat.cast_zero, add_zero]
          -- one of the two candidates was allowed, hence taken
          by_cases hup : Scalar.ltb (v + Scalar.ofInt j * step) hi = true
          · have hfound : (TMap.find? prec (v + Scalar.ofInt j * step) m).isSome = true := by
              rw [Option.isSome_iff_ne_none]; exact h1 (Or.inl hup)
            obtain ⟨e, he, hn⟩ := find?_isSome_near prec _ m hfound
            exact ⟨e, he, Or.inl (by simpa [ScalarReal.ofInt_eq] using hn)⟩
          · by_cases hdn : Scalar.gtb (v - Scalar.ofInt j * step) lo = true
            · have hfound : (TMap.find? prec (v - Scalar.ofInt j * step) m).isSome = true := by
                rw [Option.isSome_iff_ne_none]; exact h2 (Or.inl hdn)
              obtain ⟨e, he, hn⟩ := find?_isSome_near prec _ m hfound
              exact ⟨e, he, Or.inr (by simpa [ScalarReal.ofInt_eq] using hn)⟩
            · have hex : (!(Scalar.ltb (v + Scalar.ofInt j * step) hi)) = true ∧ (!(Scalar.gtb (v - Scalar.ofInt j * step) lo)) = true := by
                constructor
                · cases hb : Scalar.ltb (v + Scalar.ofInt j * step) hi
                  · rfl
                  · exact absurd hb hup
                · cases hb : Scalar.gtb (v - Scalar.ofInt j * step) lo
                  · rfl
                  · exact absurd hb hdn
              have hfound : (TMap.find? prec (v + Scalar.ofInt j * step) m).isSome = true := by
                rw [Option.isSome_iff_ne_none]; exact h1 (Or.inr hex)
              obtain ⟨e, he, hn⟩ := find?_isSome_near prec _ m hfound
              exact ⟨e, he, Or.inl (by simpa [ScalarReal.ofInt_eq] using hn)⟩

theorem simple_findFree_some (prec step lo hi v : ℝ) (m : TMap ℝ) (fuel : Nat) (j : Int)
    (hstep : 0 < step) (hps : prec ≤ step) (hfuel : 6 * m.length < fuel) :
    ∃ c, SimpleSt.findFree prec step lo hi v m fuel j = some c := by
  cases h : SimpleSt.findFree prec step lo hi v m fuel j with
  | some c => exact ⟨c, rfl⟩
  | none =>
    have := blocked_turns_bound prec step v (j : ℝ) m hstep hps fuel (simple_findFree_none_blocked prec step lo hi v m fuel j h)
    omega

theorem simple_sepStep_pos (prec v : ℝ) (hp : 0 ≤ prec) : 0 < SimpleSt.sepStep prec v ∧ prec ≤ SimpleSt.sepStep prec v := by
  have hmin : (0 : ℝ) < SimpleSt.dblMin := by
    unfold SimpleSt.dblMin
    rw [ScalarReal.ofRat_eq]
    apply div_pos
    · norm_num
    · norm_num
  unfold SimpleSt.sepStep
  simp only
  have hge : prec ≤ Scalar.max prec (Gen.simpleSepFactor * dblEpsilon * Scalar.abs v) := by
    unfold Scalar.max; split
    · rename_i h; exact (by simpa [ScalarReal.ltb_iff] using h : prec < _).le
    · exact le_rfl
  split
  · rename_i h
    have hle : Scalar.max prec (Gen.simpleSepFactor * dblEpsilon * Scalar.abs v) ≤ 0 := by
      simpa [Scalar.gtb, ScalarReal.ltb_iff, ScalarReal.zero_eq] using h
    exact ⟨hmin, by linarith⟩
  · rename_i h
    have hpos : 0 < Scalar.max prec (Gen.simpleSepFactor * dblEpsilon * Scalar.abs v) := by
      simpa [Scalar.gtb, ScalarReal.ltb_iff, ScalarReal.zero_eq] using h
    exact ⟨hpos, hge⟩

theorem simple_go_some (s : SimpleSt ℝ) (hp : 0 ≤ s.dd.prec) (l : List (ℝ × ℝ)) (m : TMap ℝ) :
    ∃ m', SimpleSt.rebuild.go s l m = some m' := by
  induction l generalizing m with
  | nil => exact ⟨m, rfl⟩
  | cons vp rest ih =>
    obtain ⟨v, p⟩ := vp
    rw [SimpleSt.rebuild.go]
    by_cases hf : (TMap.find? s.dd.prec v m).isSome = true
    · rw [if_pos hf]
      obtain ⟨h1, h2⟩ := simple_sepStep_pos s.dd.prec v hp
      have hfl : 6 * m.length < searchFuel m := by unfold searchFuel; omega
      obtain ⟨c, hc⟩ := simple_findFree_some s.dd.prec (SimpleSt.sepStep s.dd.prec v) s.dd.dom.lo s.dd.dom.hi v m (searchFuel m) 1
        h1 h2 hfl
      rw [hc]
      exact ih _
    · rw [if_neg hf]
      exact ih _

/-- as found, with precision 0 a value equal to a key never got another position -/
theorem simple_legacy_findFree_loops (lo hi v : ℝ) (m : TMap ℝ) (h : (TMap.find? 0 v m).isSome = true) (fuel : Nat) (j : Int) :
    SimpleSt.Legacy.findFree 0 lo hi v m fuel j = none := by
  induction fuel generalizing j with
  | zero => rfl
  | succ n ih =>
    simp only [SimpleSt.Legacy.findFree]
    have e1 : v + Scalar.ofInt j * (0 : ℝ) = v := by simp
    have e2 : v - Scalar.ofInt j * (0 : ℝ) = v := by simp
    rw [e1, e2]
    have hn : (TMap.find? 0 v m).isNone = false := by
      rw [Option.isNone_eq_false_iff]; exact h
    simp only [hn, Bool.and_false, Bool.false_eq_true, if_false]
    exact ih _

end Bpp.Discretize
