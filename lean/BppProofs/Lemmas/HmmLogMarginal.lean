import BppProofs.Lemmas.HmmLogPost
import BppProofs.Lemmas.HmmMarginal
/-!
Helper lemmas for C13: the posterior rows of the log-sum class are the exact path marginals (strictly
positive tables, valid break points).  Within a segment the row of a site is `t_j·B_j / Σ t·B` with `t` the
unscaled forward and `B` the unscaled backward vector of the segment; the sum over the hidden paths that
are in state `j` at that site is `t_j·B_j` times the totals of the other segments.
-/
namespace Bpp.Hmm
open Bpp Finset

/-- the value of one posterior row -/
theorem logPostRow_val (n : Nat) (hn : 0 < n) (t B : Nat → ℝ) (ht : ∀ j, 0 < t j) (hB : ∀ j, 0 < B j) :
    logPostRow (vec n (fun j => Real.log (t j))) (vec n (fun j => Real.log (B j)))
        (some (Real.log (∑ j ∈ range n, t j * B j)))
      = some (vec n (fun j => t j * B j / ∑ j ∈ range n, t j * B j)) := by
  have hS : 0 < ∑ j ∈ range n, t j * B j := sum_pos_of_pos n hn _ (fun j => mul_pos (ht j) (hB j))
  simp only [logPostRow, Option.map_some]
  congr 1
  unfold vec; rw [zipWith_vec]
  apply List.map_congr_left; intro j _
  simp only [ScalarReal.exp_eq, add_eq, sub_eq]
  rw [← Real.log_mul (ne_of_gt (ht j)) (ne_of_gt (hB j)), ← Real.log_div (ne_of_gt (mul_pos (ht j) (hB j))) (ne_of_gt hS),
    Real.exp_log (div_pos (mul_pos (ht j) (hB j)) hS)]

/-- product of the totals of the segments whose logarithms are `ps` -/
noncomputable def expProd (ps : List ℝ) : ℝ := (ps.map Real.exp).prod

theorem logMarginal_rows (p : Params ℝ) (hn : 0 < p.n) (hp : PosP p) (rest : List (Site ℝ)) (hs : PosS rest)
    (g : Nat → ℝ) (hg : ∀ k, 0 < g k) :
    ∃ (B : Nat → ℝ) (tl : List (List ℝ)) (ps : List ℝ),
      logBackAll p rest = vec p.n (fun k => Real.log (B k)) :: tl
      ∧ (∀ k, 0 < B k) ∧ tl.length = rest.length
      ∧ (logLoop p rest (vec p.n (fun k => Real.log (g k)))).2 = Real.log (∑ j ∈ range p.n, g j * B j) :: ps
      ∧ (logLoop p rest (vec p.n (fun k => Real.log (g k)))).1.length = rest.length
      ∧ (∀ j, j < p.n → tailSum p j rest = B j * expProd ps)
      ∧ ∀ (Pre : List ℝ), ∃ rows,
          postRows (logLoop p rest (vec p.n (fun k => Real.log (g k)))).1 tl
            (idxOfFlags (rest.map (·.1)) Pre.length)
            (Pre ++ (logLoop p rest (vec p.n (fun k => Real.log (g k)))).2) = some rows
          ∧ rows.length = rest.length
          ∧ ∀ (K : ℝ) (i : Nat), i < rest.length → ∀ j, j < p.n → ∃ row x, rows[i]? = some row ∧ row[j]? = some x
              ∧ ∑ y ∈ range p.n, (K * g y) * margS p y rest i j
                  = K * x * ((∑ j ∈ range p.n, g j * B j) * expProd ps) := by
  induction rest generalizing g with
  | nil =>
    refine ⟨fun _ => 1, [], [], by simp [logBackAll, zerosV_eq], fun _ => one_pos, rfl, ?_, rfl, ?_, ?_⟩
    · simp only [logLoop, mul_one]; rw [lseL_vec_log _ hn _ hg]
    · intro j _; simp [tailSum_nil, expProd]
    · intro Pre
      exact ⟨[], by simp [postRows, logLoop, idxOfFlags], rfl, fun K i hi => absurd hi (by simp)⟩
  | cons s rest ih =>
    obtain ⟨b, e⟩ := s
    have he : PosE e := hs (b, e) (List.mem_cons_self)
    have hs' : PosS rest := fun s hs'' => hs s (List.mem_cons_of_mem _ hs'')
    -- the forward step
    set t : Nat → ℝ := fun j => if b then restartF p e j else stepF p e g j with ht_def
    have ht : ∀ j, 0 < t j := by
      intro j; simp only [ht_def]; split
      · exact restartF_pos p hn hp e he j
      · exact stepF_pos p hn hp e he g hg j
    have hcur : logTmp p b e (vec p.n (fun k => Real.log (g k))) = vec p.n (fun j => Real.log (t j)) :=
      logTmp_eq p hn hp b e he g hg
    obtain ⟨B', tl', ps', hback', hB', hlen', hpart', hllen', htail', hrows'⟩ := ih hs' t ht
    -- the backward step
    set B : Nat → ℝ := fun j => if b then 1 else ∑ k ∈ range p.n, e k * p.P j k * B' k with hB_def
    have hBpos : ∀ j, 0 < B j := by
      intro j; simp only [hB_def]; split
      · exact one_pos
      · exact sum_pos_of_pos _ hn _ (fun k => mul_pos (mul_pos (he k) (hp.1 j k)) (hB' k))
    have hbs : logBackStep p b e (vec p.n (fun k => Real.log (B' k))) = vec p.n (fun j => Real.log (B j)) := by
      cases b with
      | true => simp only [logBackStep, if_true, zerosV_eq, hB_def]
      | false => rw [logBackStep_false p hn hp e he B' hB']; simp only [hB_def, Bool.false_eq_true, if_false]
    set S' : ℝ := ∑ k ∈ range p.n, t k * B' k with hS'
    have hS'pos : 0 < S' := sum_pos_of_pos _ hn _ (fun k => mul_pos (ht k) (hB' k))
    -- Σ g·B in terms of the next site
    have hsum : b = false → ∑ j ∈ range p.n, g j * B j = S' := by
      intro hb; subst hb
      simp only [hB_def, ht_def, hS', Bool.false_eq_true, if_false, stepF]
      simp only [Finset.mul_sum, Finset.sum_mul]
      rw [Finset.sum_comm]
      apply Finset.sum_congr rfl; intro k _
      apply Finset.sum_congr rfl; intro j _
      ring
    have hloop1 : (logLoop p ((b, e) :: rest) (vec p.n (fun k => Real.log (g k)))).1
        = vec p.n (fun j => Real.log (t j)) :: (logLoop p rest (vec p.n (fun j => Real.log (t j)))).1 := by
      simp only [logLoop, hcur]
    have hloop2 : (logLoop p ((b, e) :: rest) (vec p.n (fun k => Real.log (g k)))).2
        = if b then Real.log (∑ j ∈ range p.n, g j) :: (logLoop p rest (vec p.n (fun j => Real.log (t j)))).2
          else (logLoop p rest (vec p.n (fun j => Real.log (t j)))).2 := by
      simp only [logLoop, hcur, lseL_vec_log _ hn _ hg]
    -- the partial log-likelihoods after the current segment's one, and the weight they carry
    set ps : List ℝ := if b then Real.log S' :: ps' else ps' with hps
    have hexp : (∑ j ∈ range p.n, g j * B j) * expProd ps
        = (if b then ∑ j ∈ range p.n, g j else 1) * (S' * expProd ps') := by
      cases b with
      | true =>
        simp only [hps, hB_def, if_true, mul_one, expProd, List.map_cons, List.prod_cons, Real.exp_log hS'pos]
      | false =>
        simp only [hps, Bool.false_eq_true, if_false, one_mul]
        rw [hsum rfl]
    refine ⟨B, vec p.n (fun k => Real.log (B' k)) :: tl', ps,
      by simp only [logBackAll, hback', hbs], hBpos, by simp [hlen'], ?_, by rw [hloop1]; simp [hllen'], ?_, ?_⟩
    · rw [hloop2, hpart']
      cases b with
      | true => simp [hB_def, hps]
      | false => simp only [hps, Bool.false_eq_true, if_false]; rw [hsum rfl]
    · -- the tail sum of the paths leaving state `j`
      intro j hj
      rw [tailSum_cons]
      rw [Finset.sum_congr rfl (fun y hy => by rw [htail' y (Finset.mem_range.mp hy)])]
      cases b with
      | true =>
        simp only [hB_def, hps, if_true, one_mul, expProd, List.map_cons, List.prod_cons, Real.exp_log hS'pos]
        simp only [hS', ht_def, if_true, restartF, Finset.sum_mul]
        apply Finset.sum_congr rfl; intro y _; ring
      | false =>
        simp only [hB_def, hps, Bool.false_eq_true, if_false, Finset.sum_mul]
        apply Finset.sum_congr rfl; intro y _; ring
    · intro Pre
      rw [hloop1, hloop2]
      -- the prefix seen by the remaining sites
      set Pre' : List ℝ := if b then Pre ++ [Real.log (∑ j ∈ range p.n, g j)] else Pre with hPre'
      have hlenPre : Pre'.length = if b then Pre.length + 1 else Pre.length := by
        simp only [hPre']; split <;> simp
      have happ : (Pre ++ if b then Real.log (∑ j ∈ range p.n, g j) :: (logLoop p rest (vec p.n (fun j => Real.log (t j)))).2
            else (logLoop p rest (vec p.n (fun j => Real.log (t j)))).2)
          = Pre' ++ (logLoop p rest (vec p.n (fun j => Real.log (t j)))).2 := by
        simp only [hPre']; split <;> simp
      obtain ⟨rows', hrows1, hrows2, hrows3⟩ := hrows' Pre'
      have hrow0 := logPostRow_val p.n hn t B' ht hB'
      refine ⟨vec p.n (fun j => t j * B' j / S') :: rows', ?_, by simp [hrows2], ?_⟩
      · simp only [postRows, List.map_cons, idxOfFlags, List.zip_cons_cons, List.mapM_cons]
        rw [happ, ← hlenPre]
        have hget : (Pre' ++ (logLoop p rest (vec p.n (fun j => Real.log (t j)))).2)[Pre'.length]?
            = some (Real.log S') := by
          rw [hpart']; simp [hS']
        rw [hget, hS', hrow0]
        simp only [postRows] at hrows1
        simp only [Option.pure_def, Option.bind_eq_bind, Option.bind_some]
        rw [hrows1]; rfl
      · intro K i hi j hj
        -- the unscaled forward vector handed to the next site, with the finished segment's total at a restart
        have hnext : ∀ y, nextU p (fun k => K * g k) (b, e) y
            = (K * (if b then ∑ j ∈ range p.n, g j else 1)) * t y := by
          intro y
          cases b with
          | true =>
            simp only [nextU, if_true, ht_def]
            rw [← Finset.mul_sum]
          | false =>
            simp only [nextU, Bool.false_eq_true, if_false, ht_def, mul_one]
            unfold stepF
            rw [Finset.sum_congr rfl (fun k _ => by rw [show p.P k y * (K * g k) = K * (p.P k y * g k) by ring]),
              ← Finset.mul_sum]; ring
        cases i with
        | zero =>
          refine ⟨vec p.n (fun j => t j * B' j / S'), t j * B' j / S', by simp, vec_getElem? _ _ _ hj, ?_⟩
          rw [sum_margS_zero p (fun k => K * g k) (b, e) rest j hj, hnext, htail' j hj, hexp]
          field_simp
        | succ i =>
          have hi' : i < rest.length := by simpa using hi
          obtain ⟨row, x, h1, h2, h3⟩ := hrows3 (K * (if b then ∑ j ∈ range p.n, g j else 1)) i hi' j hj
          refine ⟨row, x, by simpa using h1, h2, ?_⟩
          rw [sum_margS_succ p (fun k => K * g k) (b, e) rest i j]
          rw [Finset.sum_congr rfl (fun y _ => by rw [hnext y])]
          rw [h3, hexp]
          ring

/-- the posterior of state `j` at position `i` answered by the log-sum class is the exact path marginal -/
theorem logPosterior_marginal (p : Params ℝ) (hn : 0 < p.n) (hp : PosP p) (e0 : Emis ℝ) (he0 : PosE e0)
    (es : List (Emis ℝ)) (hes : ∀ e ∈ es, PosE e) (bps : List Nat) (hv : ValidBreaks (es.length + 1) bps)
    (dE d2E : String → Emis ℝ × List (Emis ℝ)) (i : Nat) (hi : i < es.length + 1) (j : Nat) (hj : j < p.n) :
    ∃ m row x, logPosterior { p := p, e0 := e0, es := es, dE := dE, d2E := d2E } bps = some m
      ∧ m[i]? = some row ∧ row[j]? = some x
      ∧ x * pathSum p e0 (mkSites es bps) = pathMarginal p e0 (mkSites es bps) i j := by
  set sites := mkSites es bps with hsd
  have hsites : PosS sites := by
    intro s hs
    have : s.2 ∈ sites.map (·.2) := List.mem_map_of_mem hs
    rw [hsd, mkSites_snd] at this; exact hes _ this
  have hsnd : sites.map (·.2) = es := by rw [hsd]; exact mkSites_snd es bps
  have hslen : sites.length = es.length := by rw [hsd]; exact mkSites_length es bps
  set g : Nat → ℝ := restartF p e0 with hgd
  have ht0 : ∀ k, 0 < g k := restartF_pos p hn hp e0 he0
  have hf0 : logTmp p true e0 [] = vec p.n (fun j => Real.log (g j)) := by
    have := logTmp_eq p hn hp true e0 he0 (fun _ => 1) (fun _ => one_pos)
    simpa only [logTmp, if_true] using this
  obtain ⟨B, tl, ps, hback, hB, hlen, hpart, hllen, htail, hrows⟩ := logMarginal_rows p hn hp sites hsites g ht0
  obtain ⟨rows, hrows1, hrows2, hrows3⟩ := hrows []
  set S : ℝ := ∑ k ∈ range p.n, g k * B k with hS
  have hSpos : 0 < S := sum_pos_of_pos _ hn _ (fun k => mul_pos (ht0 k) (hB k))
  have hrow0 := logPostRow_val p.n hn g B ht0 hB
  rw [← hS] at hrow0
  -- the backward pass runs over the same flagged sites
  have hbw : logBackward p es bps = vec p.n (fun k => Real.log (B k)) :: tl := by
    unfold logBackward
    rw [bwd_flags_eq_fwd es bps hv, ← hsd]
    have : List.zip (sites.map (·.1)) es = sites := (List.zip_of_prod rfl hsnd).symm
    rw [this]; exact hback
  have hidx : logPostIdx (es.length + 1) (es.length + 1) 0 bps 0 = 0 :: idxOfFlags (sites.map (·.1)) 0 := by
    have h0 : (0 == nextBrk (es.length + 1) bps) = false := by
      cases bps with
      | nil => simp [nextBrk]
      | cons b bs => have := (hv.2 b List.mem_cons_self).1; simp [nextBrk]; omega
    simp only [logPostIdx, h0, Bool.false_eq_true, if_false]
    rw [logPostIdx_eq (es.length + 1) es.length 1 bps 0 (by omega) hv.1 hv.2]
    congr 2
    rw [hsd]; unfold mkSites; rw [List.map_fst_zip (by rw [fwdFlags_length])]
  have hm : logPosterior { p := p, e0 := e0, es := es, dE := dE, d2E := d2E } bps
      = some (vec p.n (fun j => g j * B j / S) :: rows) := by
    unfold logPosterior logPosteriorOf logCompute logForward
    simp only [← hsd, hf0, hbw, List.length_cons, hllen, hslen, hidx, List.zip_cons_cons, List.mapM_cons]
    rw [hpart]
    simp only [List.getElem?_cons_zero, hrow0, Option.pure_def, Option.bind_eq_bind, Option.bind_some]
    simp only [postRows, List.nil_append, hpart, List.length_nil] at hrows1
    rw [hrows1]; rfl
  -- the total weight of all paths
  have hps : pathSum p e0 sites = S * expProd ps := by
    rw [pathSum_eq_tailSum, tailSum_cons]
    simp only [if_true]
    rw [Finset.sum_congr rfl (fun y hy => by rw [htail y (Finset.mem_range.mp hy)]), hS, Finset.sum_mul]
    apply Finset.sum_congr rfl; intro y _
    simp only [hgd, restartF]; ring
  unfold pathMarginal
  rw [margW_eq, hps]
  cases i with
  | zero =>
    refine ⟨_, vec p.n (fun j => g j * B j / S), g j * B j / S, hm, by simp, vec_getElem? _ _ _ hj, ?_⟩
    rw [margS_zero p 0 true e0 sites j hj, htail j hj]
    simp only [stepW, if_true]
    have : initW p j * e0 j = g j := by simp only [hgd, restartF]; ring
    rw [this]
    field_simp
  | succ i =>
    have hi' : i < sites.length := by rw [hslen]; omega
    obtain ⟨row, x, h1, h2, h3⟩ := hrows3 1 i hi' j hj
    refine ⟨_, row, x, hm, by simpa using h1, h2, ?_⟩
    rw [margS_succ]
    simp only [stepW, if_true]
    have hconv : ∀ y ∈ range p.n, initW p y * e0 y * margS p y sites i j = (1 * g y) * margS p y sites i j := by
      intro y _; simp only [hgd, restartF]; ring
    rw [Finset.sum_congr rfl hconv, h3]
    ring

end Bpp.Hmm
