import BppProofs.Lemmas.AliasSync2
/-! C03, round 2: links in sync along *histories* of value updates, on any object of the world, by all
four routes (`setAllParametersValues` included). -/
namespace Bpp.Alias
open Bpp.ParamList (Bnd Con Par Store ObjId nameOf find? hasParameter names startsWith)

/-- the value updates that keep every link in sync: `setParameterValue` of an independent parameter,
`setParametersValues` / `matchParametersValues` whose source names independent parameters only,
`setAllParametersValues` whose source gives both ends of every link the same value -/
def SafeUpdate (w : World) : Op → Prop
  | .setv k n _ => ∀ o, w.objs k = some o → ∀ t, find? w.heap o.params (o.pre ++ n) = some t → t ∈ o.indep
  | .setvs k src => ∀ o, w.objs k = some o → NamesIndep w o src
  | .matchvs k src => ∀ o, w.objs k = some o → NamesIndep w o src
  | .setallv k src => ∀ o, w.objs k = some o → SrcCons w o src
  | _ => False

/-- a history of such updates none of which raises -/
def SafeRun : World → List Op → Prop
  | _, [] => True
  | w, op :: rest => SafeUpdate w op ∧ (step w op).2.isErr = false ∧ SafeRun (step w op).1 rest

/-- the update of another object leaves the links of this one as they are -/
theorem allSynced_other {w w' : World} (sb : SameBut w w') {o : Obj} (hval : ∀ i ∈ o.params, val w' i = val w i)
    (hsy : AllSynced w o) : AllSynced w' o := by
  intro e he s t hs hsn ht
  rw [sb.lis] at hsn ht
  rw [sb.nameOf] at hsn
  rw [hval s hs, hval t (List.mem_of_getElem? ht)]
  exact hsy e he s t hs hsn ht

theorem safe_step {w : World} (h : Inv w) (op : Op) (hs : SafeUpdate w op) (ok : (step w op).2.isErr = false) :
    SameBut w (step w op).1 ∧ ∀ j o, w.objs j = some o → AllSynced w o → AllSynced (step w op).1 o := by
  have other : ∀ (k : Nat) (ok' : Obj) (W : World), w.objs k = some ok' → SameBut w W →
      (∀ i, i ∉ ok'.params → val W i = val w i) → ∀ j o, j ≠ k → w.objs j = some o → AllSynced w o → AllSynced W o := by
    intro k ok' W hk sb hfr j o hjk hj hsy
    exact allSynced_other sb (fun i hi => hfr i (h.disj j k o ok' hjk hj hk i hi)) hsy
  cases op with
  | setv k n v =>
    cases hk : w.objs k with
    | none => simp [step, stepWR, apSetParameterValue, hk, Out.ofErr, Out.isErr] at ok
    | some ok' =>
      have sb := (update_sameBut w k).1 n v
      have herr : (apSetParameterValue w k n v).err = none := by
        cases he : (apSetParameterValue w k n v).err with
        | none => rfl
        | some e => simp [step, stepWR, he, Out.ofErr, Out.isErr] at ok
      refine ⟨sb, fun j o hj hsy => ?_⟩
      by_cases hjk : j = k
      · subst hjk; rw [hk] at hj; cases hj
        have hi := h.obj j ok' hk
        show AllSynced (apSetParameterValue w j n v).w ok'
        simp only [apSetParameterValue, hk, setParameterValue] at herr ⊢
        cases hf : find? w.heap ok'.params (ok'.pre ++ n) with
        | none => simp [hf] at herr
        | some t =>
          simp only [hf] at herr ⊢
          exact synced_setValue_root hi hk hsy (hs ok' hk t hf) herr
      · exact other k ok' _ hk sb (fun i hi => (update_frame h hk i hi).1 n v) j o hjk hj hsy
  | setvs k src =>
    cases hk : w.objs k with
    | none => simp [step, stepWR, apSetParametersValues, hk, Out.ofErr, Out.isErr] at ok
    | some ok' =>
      have sb := (update_sameBut w k).2.1 src
      have herr : (apSetParametersValues w k src).err = none := by
        cases he : (apSetParametersValues w k src).err with
        | none => rfl
        | some e => simp [step, stepWR, he, Out.ofErr, Out.isErr] at ok
      refine ⟨sb, fun j o hj hsy => ?_⟩
      by_cases hjk : j = k
      · subst hjk; rw [hk] at hj; cases hj
        have hi := h.obj j ok' hk
        show AllSynced (apSetParametersValues w j src).w ok'
        simp only [apSetParametersValues, hk, setParametersValues] at herr ⊢
        cases hc : Alias.checkSome w ok'.params src with
        | some e => simp [hc] at herr
        | none =>
          simp only [hc] at herr ⊢
          exact synced_applySome src w hi hk hsy (hs ok' hk) herr
      · exact other k ok' _ hk sb (fun i hi => (update_frame h hk i hi).2.1 src) j o hjk hj hsy
  | matchvs k src =>
    cases hk : w.objs k with
    | none => simp [step, apMatchParametersValues, hk, Out.isErr] at ok
    | some ok' =>
      have sb := (update_sameBut w k).2.2.1 src
      have herr : (apMatchParametersValues w k src).1.err = none := by
        cases he : (apMatchParametersValues w k src).1.err with
        | none => rfl
        | some e => simp [step, he, Out.isErr] at ok
      refine ⟨sb, fun j o hj hsy => ?_⟩
      by_cases hjk : j = k
      · subst hjk; rw [hk] at hj; cases hj
        have hi := h.obj j ok' hk
        show AllSynced (apMatchParametersValues w j src).1.w ok'
        simp only [apMatchParametersValues, hk, matchParametersValues] at herr ⊢
        cases hc : Alias.checkSome w ok'.params src with
        | some e => simp [hc] at herr
        | none =>
          simp only [hc] at herr ⊢
          exact synced_matchSome src w hi hk hsy (hs ok' hk) herr
      · exact other k ok' _ hk sb (fun i hi => (update_frame h hk i hi).2.2.1 src) j o hjk hj hsy
  | setallv k src =>
    cases hk : w.objs k with
    | none => simp [step, stepWR, apSetAllParametersValues, hk, Out.ofErr, Out.isErr] at ok
    | some ok' =>
      have sb := (update_sameBut w k).2.2.2 src
      have herr : (apSetAllParametersValues w k src).err = none := by
        cases he : (apSetAllParametersValues w k src).err with
        | none => rfl
        | some e => simp [step, stepWR, he, Out.ofErr, Out.isErr] at ok
      refine ⟨sb, fun j o hj hsy => ?_⟩
      by_cases hjk : j = k
      · subst hjk; rw [hk] at hj; cases hj
        exact (setAll_consistent (h.obj j ok' hk) hk (hs ok' hk) herr).2
      · exact other k ok' _ hk sb (fun i hi => (update_frame h hk i hi).2.2.2 src) j o hjk hj hsy
  | _ => exact absurd hs (by simp [SafeUpdate])

/-- **links in sync stay in sync along every history of safe updates**, of any length, on any of
the objects, by any of the four routes -/
theorem safeRun_synced : ∀ (ops : List Op) {w : World}, Inv w → SafeRun w ops →
    ∀ j o, w.objs j = some o → AllSynced w o → (run w ops).objs j = some o ∧ AllSynced (run w ops) o
  | [], _, _, _, _, _, hj, hsy => ⟨hj, hsy⟩
  | op :: rest, w, h, hr, j, o, hj, hsy => by
    obtain ⟨hs, ok, hrest⟩ := hr
    obtain ⟨sb, hstep⟩ := safe_step h op hs ok
    exact safeRun_synced rest (h.sameShape sb.sameShape) hrest j o (by rw [sb.objs]; exact hj) (hstep j o hj hsy)

end Bpp.Alias
