import BppProofs.Lemmas.TreeRooted
/-
`MRCA` on a valid rooted tree: the answer is the most recent common ancestor — a common ancestor of
the queried nodes that every common ancestor is an ancestor of.
-/
namespace Bpp.Graph
open AL

/-- `m` is the most recent common ancestor of the nodes `S` -/
def IsMrcaP (par : Nat → Option Nat) (S : List Nat) (m : Nat) : Prop :=
  (∀ s ∈ S, IsAnc par m s) ∧ ∀ c, (∀ s ∈ S, IsAnc par c s) → IsAnc par c m

theorem idxOf_get {l : List Nat} {y : Nat} (h : y ∈ l) : l[l.idxOf y]? = some y := by
  have hlt : l.idxOf y < l.length := List.idxOf_lt_length_of_mem h
  rw [List.getElem?_eq_getElem hlt]
  simp

namespace PTree
variable {P : PTree}

/-- of two ancestors of a node, the one of lower rank is an ancestor of the other -/
theorem WF.anc_of_rank_le (h : P.WF) {a b x : Nat} (ha : IsAnc P.par a x) (hb : IsAnc P.par b x)
    (hr : P.rank a ≤ P.rank b) : IsAnc P.par a b := by
  rcases IsAnc.linear ha hb with h1 | h1
  · exact h1
  · have := h.anc_eq_of_rank h1 hr
    subst this; exact .refl _

end PTree

namespace DTree
variable {g : G} {P : PTree}

/-- the climb from `here` joins the line of `x0` at the most recent common ancestor of both -/
theorem joinRank (h : DTree g P) {x0 : Nat} (hx0 : x0 ∈ P.nodes) :
    ∀ (fuel here : Nat), here ∈ P.nodes → P.rank here + 1 ≤ fuel →
    ∃ y, T.joinRank g (lineOf P.par (P.rank x0) x0) fuel here = .ok ((lineOf P.par (P.rank x0) x0).idxOf y) ∧
      y ∈ lineOf P.par (P.rank x0) x0 ∧ IsAnc P.par y here ∧ IsAnc P.par y x0 ∧
      ∀ z, IsAnc P.par z here → IsAnc P.par z x0 → IsAnc P.par z y := by
  intro fuel
  induction fuel with
  | zero => intro here _ hr; omega
  | succ f ih =>
    intro here hh hr
    simp only [T.joinRank]
    by_cases hc : (lineOf P.par (P.rank x0) x0).contains here = true
    · rw [if_pos hc]
      have hmem : here ∈ lineOf P.par (P.rank x0) x0 := by simpa using hc
      exact ⟨here, rfl, hmem, .refl _, lineOf_mem_anc _ _ _ hmem, fun z hz _ => hz⟩
    · rw [if_neg hc]
      have hnm : here ∉ lineOf P.par (P.rank x0) x0 := by simpa using hc
      have hna : ¬ IsAnc P.par here x0 := fun ha => hnm (h.wf.lineOf_complete _ _ _ (Nat.le_refl _) ha)
      have hnode := (h.nodes here).1 hh
      rw [h.hasFather hnode]
      cases hp : P.par here with
      | none =>
        exfalso
        by_cases hroot : here = P.root
        · subst hroot; exact hna (h.wf.root_anc hx0)
        · obtain ⟨p, hp', _, _⟩ := h.wf.par_some here hh hroot; rw [hp] at hp'; cases hp'
      | some p =>
        simp only [Option.isSome_some]
        rw [h.father hnode, hp]
        simp only
        have hm := h.wf.par_mem hp
        obtain ⟨y, h1, h2, h3, h4, h5⟩ := ih p hm.2.2.1 (by omega)
        refine ⟨y, h1, h2, .step hp h3, h4, ?_⟩
        intro z hz hzx
        rcases IsAnc.cases_son hp hz with e | hz'
        · subst e; exact absurd hzx hna
        · exact h5 z hz' hzx

/-- the loop over the other nodes keeps the rank of the most recent common ancestor so far -/
theorem mrcaFold (h : DTree g P) {x0 : Nat} (hx0 : x0 ∈ P.nodes) (fuel : Nat) (hf : g.nodes.length + 1 ≤ fuel) :
    ∀ (rest done : List Nat) (m c : Nat), (∀ s ∈ rest, s ∈ P.nodes) →
      (lineOf P.par (P.rank x0) x0)[m]? = some c → IsMrcaP P.par (x0 :: done) c →
      ∃ m' c', rest.foldl (T.mrcaStep g (lineOf P.par (P.rank x0) x0) fuel) (.ok m) = .ok m' ∧
        (lineOf P.par (P.rank x0) x0)[m']? = some c' ∧ IsMrcaP P.par (x0 :: (done ++ rest)) c' := by
  intro rest
  induction rest with
  | nil => intro done m c _ hm hc; exact ⟨m, c, rfl, hm, by simpa using hc⟩
  | cons n rest ih =>
    intro done m c hn hm hc
    simp only [List.foldl]
    have hnn := hn n (List.mem_cons_self ..)
    obtain ⟨y, h1, h2, h3, h4, h5⟩ := h.joinRank hx0 fuel n hnn (by have := h.rank_lt hnn; omega)
    have hstep : T.mrcaStep g (lineOf P.par (P.rank x0) x0) fuel (.ok m) n = .ok (max m ((lineOf P.par (P.rank x0) x0).idxOf y)) := by
      simp only [T.mrcaStep, h1]
    rw [hstep]
    have hy := idxOf_get h2
    -- the new candidate is `c` or `y`, whichever is higher
    have hcx : IsAnc P.par c x0 := hc.1 x0 (List.mem_cons_self ..)
    have hrc := (h.wf.lineOf_get _ _ _ _ hm).1
    have hry := (h.wf.lineOf_get _ _ _ _ hy).1
    have hnew : ∃ c', (lineOf P.par (P.rank x0) x0)[max m ((lineOf P.par (P.rank x0) x0).idxOf y)]? = some c' ∧
        IsAnc P.par c' c ∧ IsAnc P.par c' y ∧ (c' = c ∨ c' = y) := by
      by_cases hle : m ≤ (lineOf P.par (P.rank x0) x0).idxOf y
      · rw [Nat.max_eq_right hle]
        exact ⟨y, hy, h.wf.anc_of_rank_le h4 hcx (by omega), .refl _, .inr rfl⟩
      · rw [Nat.max_eq_left (by omega)]
        exact ⟨c, hm, .refl _, h.wf.anc_of_rank_le hcx h4 (by omega), .inl rfl⟩
    obtain ⟨c', hm', hc'c, hc'y, hor⟩ := hnew
    have hmr : IsMrcaP P.par (x0 :: (done ++ [n])) c' := by
      constructor
      · intro s hs
        rcases List.mem_cons.1 hs with e | hs'
        · subst e; exact IsAnc.trans hc'c hcx
        · rcases List.mem_append.1 hs' with hd | hd
          · exact IsAnc.trans hc'c (hc.1 s (List.mem_cons_of_mem _ hd))
          · simp at hd; subst hd; exact IsAnc.trans hc'y h3
      · intro z hz
        have hzc : IsAnc P.par z c := hc.2 z (by
          intro s hs
          rcases List.mem_cons.1 hs with e | hs'
          · subst e; exact hz _ (List.mem_cons_self ..)
          · exact hz s (List.mem_cons_of_mem _ (List.mem_append.2 (.inl hs'))))
        have hzy : IsAnc P.par z y := h5 z (hz n (List.mem_cons_of_mem _ (List.mem_append.2 (.inr (List.mem_singleton.2 rfl)))))
          (hz x0 (List.mem_cons_self ..))
        rcases hor with e | e <;> subst e <;> assumption
    obtain ⟨m'', c'', hr, hm'', hc''⟩ := ih (done ++ [n]) _ c' (fun s hs => hn s (List.mem_cons_of_mem _ hs)) hm' hmr
    exact ⟨m'', c'', hr, hm'', by simpa using hc''⟩

/-- `MRCA` answers the most recent common ancestor -/
theorem mrca (h : DTree g P) (x0 : Nat) (rest : List Nat) (hS : ∀ s ∈ x0 :: rest, s ∈ P.nodes) :
    ∃ m, T.mrca g (x0 :: rest) = .ok m ∧ m ∈ P.nodes ∧ IsMrcaP P.par (x0 :: rest) m := by
  have hx0 := hS x0 (List.mem_cons_self ..)
  cases rest with
  | nil =>
    refine ⟨x0, by simp [T.mrca, h.dir], hx0, ?_, ?_⟩
    · intro s hs; simp at hs; subst hs; exact .refl _
    · intro c hc; exact hc x0 (List.mem_cons_self ..)
  | cons n rest =>
    have hl0 : (lineOf P.par (P.rank x0) x0)[0]? = some x0 := by
      have := lineOf_head P.par (P.rank x0) x0
      rw [List.head?_eq_getElem?] at this; exact this
    have h0 : IsMrcaP P.par (x0 :: []) x0 :=
      ⟨by intro s hs; simp at hs; subst hs; exact .refl _, fun c hc => hc x0 (List.mem_cons_self ..)⟩
    obtain ⟨m', c', hr, hm', hc'⟩ := h.mrcaFold hx0 (g.nodes.length + 2) (by omega) (n :: rest) [] 0 x0
      (fun s hs => hS s (List.mem_cons_of_mem _ hs)) hl0 h0
    refine ⟨c', ?_, ?_, by simpa using hc'⟩
    · simp only [T.mrca, h.dir, Bool.not_true, Bool.false_eq_true, if_false]
      rw [h.climb_std hx0]
      simp only
      rw [hr]
      simp only
      rw [hm']
    · exact h.wf.anc_mem (hc'.1 x0 (List.mem_cons_self ..)) hx0

end DTree
end Bpp.Graph
