import BppProofs.Lemmas.TokRT
import BppModel.Text.Keyval
/-! The two transcriptions of `StringTokenizer(s, delimiters)` (non-solid, no empty tokens) agree:
the character-level recursion `Keyval.tokenize` used by the KeyvalTools model and the position-level
`mkTokenizer` of `TokenizerU.lean` return the same tokens. -/
namespace Bpp.Text.RT
open Bpp.Text Bpp.Text.U Bpp.Text.Keyval

theorem tokenize_delims (isD : Char → Bool) (l r : Str) (h : ∀ c ∈ l, isD c = true) :
    tokenize isD (l ++ r) = tokenize isD r := by
  induction l with
  | nil => rfl
  | cons c l ih =>
    have hc := h c (by simp)
    simp only [List.cons_append, tokenize, hc, if_true]
    exact ih (fun x hx => h x (by simp [hx]))

/-- a maximal run of non-delimiters is the first token -/
theorem tokenize_run (isD : Char → Bool) (t rest : Str) (ht : t ≠ []) (hfree : ∀ c ∈ t, isD c = false)
    (hrest : rest = [] ∨ ∃ d r, rest = d :: r ∧ isD d = true) :
    tokenize isD (t ++ rest) = t :: tokenize isD rest := by
  induction t with
  | nil => exact absurd rfl ht
  | cons c t ih =>
    have hc := hfree c (by simp)
    cases t with
    | nil =>
      rcases hrest with rfl | ⟨d, r, rfl, hd⟩
      · simp [tokenize, hc]
      · simp only [List.cons_append, List.nil_append, tokenize, hc, Bool.false_eq_true, if_false, hd, if_true]
    | cons c' t' =>
      have hc' := hfree c' (by simp)
      have := ih (by simp) (fun x hx => hfree x (by simp [hx]))
      simp only [List.cons_append] at this ⊢
      rw [tokenize]
      simp only [hc, Bool.false_eq_true, if_false, hc']
      rw [this]
      rfl

/-- a text made of non-empty delimiter-free tokens separated (and possibly followed) by non-empty
runs of delimiters tokenizes into these tokens -/
theorem tokenize_interleave (isD : Char → Bool) (ts ss : List Str)
    (hts : ∀ t ∈ ts, t ≠ [] ∧ ∀ c ∈ t, isD c = false)
    (hss : ∀ sp ∈ ss, sp ≠ [] ∧ ∀ c ∈ sp, isD c = true)
    (hcount : ts.length = ss.length + 1 ∨ ts.length = ss.length) :
    tokenize isD (interleave ts ss) = ts := by
  induction ts generalizing ss with
  | nil => simp [tokenize]
  | cons t ts ih =>
    obtain ⟨htne, htfree⟩ := hts t (by simp)
    cases ss with
    | nil =>
      have : ts = [] := by
        cases ts with
        | nil => rfl
        | cons _ _ => simp at hcount
      subst this
      simp only [interleave, List.append_nil]
      have := tokenize_run isD t [] htne htfree (Or.inl rfl)
      simpa [tokenize] using this
    | cons sp ss =>
      obtain ⟨hspne, hspall⟩ := hss sp (by simp)
      obtain ⟨d0, sp', hsp⟩ : ∃ d0 sp', sp = d0 :: sp' := by
        cases sp with
        | nil => exact absurd rfl hspne
        | cons a b => exact ⟨a, b, rfl⟩
      simp only [interleave, List.append_assoc]
      rw [tokenize_run isD t (sp ++ interleave ts ss) htne htfree
        (Or.inr ⟨d0, sp' ++ interleave ts ss, by rw [hsp]; rfl, hspall d0 (by rw [hsp]; simp)⟩)]
      rw [tokenize_delims isD sp _ hspall]
      rw [ih ss (fun t ht => hts t (by simp [ht])) (fun sp hsp => hss sp (by simp [hsp]))
        (by simp only [List.length_cons] at hcount; omega)]

/-- **the bridge**: the tokens of `StringTokenizer(s, d)` as modelled position by position are the
tokens the KeyvalTools model works with -/
theorem tokenize_eq_mkTokenizer (s d : Str) (hs : StrOk s) (T : Tokenizer)
    (h : mkTokenizer s d false false = .ok T) : tokenize (fun c => d.contains c) s = T.tokens := by
  obtain ⟨u, _, hrt⟩ := mkTokenizer_rt s d false false hs T h
  simp only [ctorRtOk, Bool.false_eq_true, if_false, Bool.and_eq_true, beq_iff_eq, Bool.not_false,
    Bool.true_and, Bool.or_eq_true, List.all_eq_true, Bool.and_true] at hrt
  obtain ⟨⟨⟨⟨hjoin, _⟩, hcount⟩, htoks⟩, hsplits⟩ := hrt
  have hlead : ∀ c ∈ s.takeWhile (inSet d), inSet d c = true := by
    have key : ∀ (l : Str), ∀ c ∈ l.takeWhile (inSet d), inSet d c = true := by
      intro l
      induction l with
      | nil => intro c hc; cases hc
      | cons a r ih =>
        intro c hc
        by_cases ha : inSet d a = true
        · simp only [List.takeWhile_cons, ha, if_true, List.mem_cons] at hc
          rcases hc with rfl | hc
          · exact ha
          · exact ih c hc
        · simp [List.takeWhile_cons, ha] at hc
    exact key s
  rw [← hjoin]
  show tokenize (inSet d) _ = _
  rw [tokenize_delims _ _ _ hlead]
  apply tokenize_interleave
  · intro t ht
    have := htoks t ht
    simp only [tokenOk, Bool.false_eq_true, if_false, Bool.and_eq_true, List.all_eq_true, Bool.false_or,
      Bool.not_eq_true', List.isEmpty_eq_false_iff] at this
    exact ⟨this.2, this.1⟩
  · intro sp hsp
    have := hsplits sp hsp
    simp only [splitOk, Bool.false_eq_true, if_false, Bool.and_eq_true, List.all_eq_true, Bool.not_false,
      Bool.true_or, and_true, Bool.not_eq_true', List.isEmpty_eq_false_iff] at this
    exact ⟨this.1, this.2⟩
  · rcases hcount with (h1 | h1) | ⟨h1, h2⟩
    · left; exact h1
    · right; exact h1
    · right
      have e1 : T.tokens = [] := by simpa using h1
      have e2 : T.splits = [] := by simpa using h2
      rw [e1, e2]

end Bpp.Text.RT
